/-
The straight-line blocks that `tools/gen_ntt_ast.py` regenerates from clang's AST of `include/nfl/algos.hpp`
(`ntt_loop_body<simd::serial>::operator()`) and `include/nfl/core.hpp` (`poly::core::ntt`: degree-2 block, body of the
"last two layers" loop, body of the NTT_STRICTMOD loop) — `Generated/NttAst.lean` — are EQUAL to the corresponding
expressions of the hand-written model `Model/Ntt.lean` (`bflyLo`, `bflyHi`, `subLazy`, `strictRed`), for all
arguments in the ranges of their C types.

Hypotheses: the ranges `< 2^w` of the C types, and for the 32- and 64-bit instantiations `p < 2^(w-1)`:
there `2*p` is computed in `T` and wraps for `p ≥ 2^(w-1)`, whereas the model's threshold `2 * p` is the exact
product (for `uint16_t` the product is an `int` and does not wrap: no hypothesis).  `Properties/C02Ast.lean` shows
with concrete inputs that the equalities fail without it.  The two's-complement sign tests
`(signed_value_type) v < 0` coincide with the model's `2^(w-1) ≤ v` on ALL `w`-bit values: no hypothesis.

Method: (1) each generated block is, by `rfl`, a composition of four "mirror" expressions per width (`lo`, `lz`, `hi`,
`sr`: the C++ text of the lazy sum, lazy difference, Shoup product of the difference, strict reduction);
(2) each mirror expression equals the model's function.  Core tactics only.
-/
import NflVerif.Generated.NttAst
import NflVerif.Model.Ntt
import NflVerif.Proofs.OpsAstEq

namespace Nfl.NttAstEq
open Nfl Nfl.CSem Nfl.OpsAstEq

/-! ### the model's functions return `w`-bit values -/

theorem bflyLo_lt (w p a b : Nat) : bflyLo w p a b < 2 ^ w := by
  unfold bflyLo
  simp only
  have := Nat.mod_lt (a + b) (Nat.two_pow_pos w)
  split <;> omega

theorem subLazy_lt (w p a b : Nat) : subLazy w p a b < 2 ^ w := by
  unfold subLazy
  simp only
  split
  · exact Nat.mod_lt _ (Nat.two_pow_pos w)
  · exact Nat.mod_lt _ (Nat.two_pow_pos w)

theorem bflyHi_lt (w p a b wt wi : Nat) : bflyHi w p a b wt wi < 2 ^ w :=
  subWrap_lt (Nat.two_pow_pos _) _ _

theorem strictRed_lt_pow {w p x : Nat} (hx : x < 2 ^ w) : strictRed p x < 2 ^ w := by
  unfold strictRed; split <;> omega

/-! ### 16 bit: operands are promoted to `int` -/

/-- `t0 = a + b; t0 -= (t0 >= 2*p) ? (2*p) : 0;` -/
def lo16 (p a b : Nat) : Nat :=
  let t0 := castSU 16 (addS32 (castUS 16 a) (castUS 16 b))
  castSU 16 (subS32 (castUS 16 t0) (if geS32 (castUS 16 t0) (mulS32 2 (castUS 16 p)) then mulS32 2 (castUS 16 p) else 0))

/-- `d = a - b; d += ((short) d < 0) ? (2*p) : 0;` -/
def lz16 (p a b : Nat) : Nat :=
  let d := castSU 16 (subS32 (castUS 16 a) (castUS 16 b))
  castSU 16 (addS32 (castUS 16 d) (if ltS32 (castSS 16 32 (castUSw 16 d)) 0 then mulS32 2 (castUS 16 p) else 0))

/-- `t1 = a - b + 2*p; q = ((uint32_t) t1 * wi) >> 16; t1 * wt - q * p` -/
def hi16 (p a b wt wi : Nat) : Nat :=
  let t1 := castSU 16 (addS32 (subS32 (castUS 16 a) (castUS 16 b)) (mulS32 2 (castUS 16 p)))
  let q := castU 16 (shrU 32 (mulU 32 (castU 32 t1) (castU 32 wi)) 16)
  castSU 16 (subS32 (mulS32 (castUS 16 t1) (castUS 16 wt)) (mulS32 (castUS 16 q) (castUS 16 p)))

/-- `x -= (x >= p) ? p : 0;` -/
def sr16 (p x : Nat) : Nat :=
  castSU 16 (subS32 (castUS 16 x) (if geS32 (castUS 16 x) (castUS 16 p) then castUS 16 p else 0))

theorem body_u16_shape (p u0 u1 wt wi : Nat) :
    Gen.ntt_body_u16 p u0 u1 wt wi = (lo16 p u0 u1, hi16 p u0 u1 wt wi) := rfl
theorem deg2_u16_shape (p u0 u1 : Nat) :
    Gen.ntt_deg2_u16 p u0 u1 = (sr16 p (lo16 p u0 u1), sr16 p (lz16 p u0 u1)) := rfl
theorem last2_u16_shape (p u0 u1 u2 u3 w1 wi1 : Nat) :
    Gen.ntt_last2_u16 p u0 u1 u2 u3 w1 wi1 =
      (lo16 p (lo16 p u0 u2) (lo16 p u1 u3), lz16 p (lo16 p u0 u2) (lo16 p u1 u3),
       lo16 p (lz16 p u0 u2) (hi16 p u1 u3 w1 wi1), lz16 p (lz16 p u0 u2) (hi16 p u1 u3 w1 wi1)) := rfl
theorem final_u16_shape (p x : Nat) : Gen.ntt_final_u16 p x = sr16 p x := rfl

theorem mul2_16 {p : Nat} (hp : p < 2 ^ 16) : mulS32 2 (castUS 16 p) = 2 * p := by
  rw [castUS_of_lt (by omega), mulS32_eq]; exact Nat.mod_eq_of_lt (by omega)

theorem lo16_eq {p a b : Nat} (hp : p < 2 ^ 16) (ha : a < 2 ^ 16) (hb : b < 2 ^ 16) :
    lo16 p a b = bflyLo 16 p a b := by
  have e : castSU 16 (addS32 (castUS 16 a) (castUS 16 b)) = (a + b) % 2 ^ 16 := by
    rw [castUS_of_lt (by omega), castUS_of_lt (by omega), addS32_of_lt (by omega), castSU_of_lt (by omega)]
  have ht : (a + b) % 2 ^ 16 < 2 ^ 16 := Nat.mod_lt _ (by omega)
  unfold lo16 bflyLo
  simp only
  rw [e, mul2_16 hp, castUS_of_lt (by omega), geS32_of_lt (by omega) (by omega)]
  by_cases h : 2 * p ≤ (a + b) % 2 ^ 16
  · rw [decide_eq_true h, if_pos rfl, if_pos h, subS32_of_le h (by omega), castSU_of_lt (by omega)]
    exact Nat.mod_eq_of_lt (by omega)
  · rw [decide_eq_false h, if_neg (by decide), if_neg h, subS32_of_le (Nat.zero_le _) (by omega), castSU_of_lt (by omega)]
    exact Nat.mod_eq_of_lt (by omega)

/-- the sign test `(short) d < 0` is `2^15 ≤ d` on every 16-bit value -/
theorem sign16 {d : Nat} (hd : d < 2 ^ 16) : ltS32 (castSS 16 32 (castUSw 16 d)) 0 = decide (2 ^ 15 ≤ d) := by
  unfold ltS32 bias castSS castUSw
  by_cases h : 2 ^ 15 ≤ d
  · rw [decide_eq_true h]
    apply decide_eq_true
    split <;> omega
  · rw [decide_eq_false h]
    apply decide_eq_false
    split <;> omega

theorem lz16_eq {p a b : Nat} (hp : p < 2 ^ 16) (ha : a < 2 ^ 16) (hb : b < 2 ^ 16) :
    lz16 p a b = subLazy 16 p a b := by
  have e : castSU 16 (subS32 (castUS 16 a) (castUS 16 b)) = (a + (2 ^ 16 - b % 2 ^ 16)) % 2 ^ 16 := by
    have h32 : subS32 a b < 2 ^ 32 := Nat.mod_lt _ (Nat.two_pow_pos _)
    rw [castUS_of_lt (by omega), castUS_of_lt (by omega), castSU_16 h32]
    unfold subS32; omega
  have hd : (a + (2 ^ 16 - b % 2 ^ 16)) % 2 ^ 16 < 2 ^ 16 := Nat.mod_lt _ (by omega)
  unfold lz16 subLazy
  simp only
  rw [e, mul2_16 hp, sign16 hd, castUS_of_lt (by omega)]
  by_cases h : 2 ^ 15 ≤ (a + (2 ^ 16 - b % 2 ^ 16)) % 2 ^ 16
  · rw [decide_eq_true h, if_pos rfl, if_pos h, addS32_of_lt (by omega), castSU_of_lt (by omega)]
  · rw [decide_eq_false h, if_neg (by decide), if_neg h, addS32_of_lt (by omega), castSU_of_lt (by omega)]
    exact Nat.mod_eq_of_lt (by omega)

/-- the low 16 bits of an `int` difference are the 16-bit wrapped difference -/
theorem subWrap_32_16 (x y : Nat) : subWrap (2 ^ 32) x y % 2 ^ 16 = subWrap (2 ^ 16) x y := by
  unfold subWrap; omega

theorem hi16_eq {p a b wt wi : Nat} (hp : p < 2 ^ 16) (ha : a < 2 ^ 16) (hb : b < 2 ^ 16) (hwt : wt < 2 ^ 16)
    (hwi : wi < 2 ^ 16) : hi16 p a b wt wi = bflyHi 16 p a b wt wi := by
  have e : castSU 16 (addS32 (subS32 (castUS 16 a) (castUS 16 b)) (mulS32 2 (castUS 16 p))) =
      (a + 2 * p + (2 ^ 16 - b % 2 ^ 16)) % 2 ^ 16 := by
    have h32 : addS32 (subS32 a b) (2 * p) < 2 ^ 32 := Nat.mod_lt _ (Nat.two_pow_pos _)
    rw [mul2_16 hp, castUS_of_lt (by omega), castUS_of_lt (by omega), castSU_16 h32]
    unfold addS32 subS32; omega
  have ht : (a + 2 * p + (2 ^ 16 - b % 2 ^ 16)) % 2 ^ 16 < 2 ^ 16 := Nat.mod_lt _ (by omega)
  unfold hi16 bflyHi
  simp only
  rw [e, shoupQ_tail (w := 16) (W := 32) (by omega) ht hwi,
    diff_S ht hwt (Nat.mod_lt _ (Nat.two_pow_pos _)) hp, castSU_16 (subWrap_lt (Nat.two_pow_pos _) _ _), subWrap_32_16]
  rfl

theorem sr16_eq {p x : Nat} (hp : p < 2 ^ 16) (hx : x < 2 ^ 16) : sr16 p x = strictRed p x :=
  condsub_S16 hx hp

/-! ### 32 and 64 bit: arithmetic in `T` -/

/-- `t0 = a + b; t0 -= (t0 >= 2*p) ? (2*p) : 0;` -/
def loU (w p a b : Nat) : Nat :=
  let t0 := addU w a b
  subU w t0 (if geU t0 (mulU w (castSU w 2) p) then mulU w (castSU w 2) p else castSU w 0)

/-- `t1 = a - b + 2*p; q = ((greater_value_type) t1 * wi) >> w; t1 * wt - q * p` -/
def hiU (w W p a b wt wi : Nat) : Nat :=
  let t1 := addU w (subU w a b) (mulU w (castSU w 2) p)
  let q := castU w (shrU W (mulU W (castU W t1) (castU W wi)) w)
  subU w (mulU w t1 wt) (mulU w q p)

/-- `x -= (x >= p) ? p : 0;` -/
def srU (w p x : Nat) : Nat := subU w x (if geU x p then p else castSU w 0)

/-- `d = a - b; d += ((int) d < 0) ? (2*p) : 0;` -/
def lz32 (p a b : Nat) : Nat :=
  let d := subU 32 a b
  addU 32 d (if ltS32 (castUS 32 d) 0 then mulU 32 (castSU 32 2) p else castSU 32 0)

/-- `d = a - b; d += ((long) d < 0) ? (2*p) : 0;` -/
def lz64 (p a b : Nat) : Nat :=
  let d := subU 64 a b
  addU 64 d (if ltS 64 (castUSw 64 d) (castSS 32 64 0) then mulU 64 (castSU 64 2) p else castSU 64 0)

theorem body_u32_shape (p u0 u1 wt wi : Nat) :
    Gen.ntt_body_u32 p u0 u1 wt wi = (loU 32 p u0 u1, hiU 32 64 p u0 u1 wt wi) := rfl
theorem body_u64_shape (p u0 u1 wt wi : Nat) :
    Gen.ntt_body_u64 p u0 u1 wt wi = (loU 64 p u0 u1, hiU 64 128 p u0 u1 wt wi) := rfl
theorem deg2_u32_shape (p u0 u1 : Nat) :
    Gen.ntt_deg2_u32 p u0 u1 = (srU 32 p (loU 32 p u0 u1), srU 32 p (lz32 p u0 u1)) := rfl
theorem deg2_u64_shape (p u0 u1 : Nat) :
    Gen.ntt_deg2_u64 p u0 u1 = (srU 64 p (loU 64 p u0 u1), srU 64 p (lz64 p u0 u1)) := rfl
theorem last2_u32_shape (p u0 u1 u2 u3 w1 wi1 : Nat) :
    Gen.ntt_last2_u32 p u0 u1 u2 u3 w1 wi1 =
      (loU 32 p (loU 32 p u0 u2) (loU 32 p u1 u3), lz32 p (loU 32 p u0 u2) (loU 32 p u1 u3),
       loU 32 p (lz32 p u0 u2) (hiU 32 64 p u1 u3 w1 wi1), lz32 p (lz32 p u0 u2) (hiU 32 64 p u1 u3 w1 wi1)) := rfl
theorem last2_u64_shape (p u0 u1 u2 u3 w1 wi1 : Nat) :
    Gen.ntt_last2_u64 p u0 u1 u2 u3 w1 wi1 =
      (loU 64 p (loU 64 p u0 u2) (loU 64 p u1 u3), lz64 p (loU 64 p u0 u2) (loU 64 p u1 u3),
       loU 64 p (lz64 p u0 u2) (hiU 64 128 p u1 u3 w1 wi1), lz64 p (lz64 p u0 u2) (hiU 64 128 p u1 u3 w1 wi1)) := rfl
theorem final_u32_shape (p x : Nat) : Gen.ntt_final_u32 p x = srU 32 p x := rfl
theorem final_u64_shape (p x : Nat) : Gen.ntt_final_u64 p x = srU 64 p x := rfl

theorem castSU_two {w : Nat} (hw : 2 < 2 ^ w) : castSU w 2 = 2 := by
  rw [castSU_of_lt (by omega)]; exact Nat.mod_eq_of_lt hw

/-- `h2p : 2 * p < 2^w` — the product `2*p` is computed in `T`; the model compares with the exact `2 * p` -/
theorem loU_eq {w p : Nat} (hw : 2 < 2 ^ w) (h2p : 2 * p < 2 ^ w) (a b : Nat) : loU w p a b = bflyLo w p a b := by
  unfold loU bflyLo
  simp only
  rw [castSU_two hw, castSU_zero, mulU_eq, Nat.mod_eq_of_lt h2p, addU_eq]
  exact condsub_U' (Nat.mod_lt _ (Nat.two_pow_pos _))

theorem srU_eq {w p x : Nat} (hx : x < 2 ^ w) : srU w p x = strictRed p x := by
  unfold srU strictRed
  rw [castSU_zero]
  exact condsub_U' hx

theorem subU_eq_model {w a b : Nat} (hb : b < 2 ^ w) : subU w a b = (a + (2 ^ w - b % 2 ^ w)) % 2 ^ w := by
  unfold subU
  rw [Nat.mod_eq_of_lt hb]
  congr 1; omega

theorem hiU_eq {w p a b wt wi : Nat} (hw : 2 < 2 ^ w) (hb : b < 2 ^ w) (hwi : wi < 2 ^ w) :
    hiU w (2 * w) p a b wt wi = bflyHi w p a b wt wi := by
  have e : addU w (subU w a b) (mulU w (castSU w 2) p) = (a + 2 * p + (2 ^ w - b % 2 ^ w)) % 2 ^ w := by
    rw [castSU_two hw, subU_eq_model hb, mulU_eq, addU_eq, ← Nat.add_mod]
    congr 1; omega
  have ht : (a + 2 * p + (2 ^ w - b % 2 ^ w)) % 2 ^ w < 2 ^ w := Nat.mod_lt _ (Nat.two_pow_pos _)
  have hW : 2 ^ w ≤ 2 ^ (2 * w) := Nat.pow_le_pow_right (by omega) (by omega)
  unfold hiU bflyHi
  simp only
  rw [e, shoupQ_tail hW ht hwi, diff_U]
  rfl

/-- the sign test `(int) d < 0` is `2^31 ≤ d` on every 32-bit value -/
theorem sign32 {d : Nat} (hd : d < 2 ^ 32) : ltS32 (castUS 32 d) 0 = decide (2 ^ 31 ≤ d) := by
  unfold ltS32 bias castUS
  by_cases h : 2 ^ 31 ≤ d
  · rw [decide_eq_true h]; apply decide_eq_true; omega
  · rw [decide_eq_false h]; apply decide_eq_false; omega

/-- the sign test `(long) d < 0` is `2^63 ≤ d` on every 64-bit value -/
theorem sign64 {d : Nat} (hd : d < 2 ^ 64) : ltS 64 (castUSw 64 d) (castSS 32 64 0) = decide (2 ^ 63 ≤ d) := by
  have e0 : castSS 32 64 0 = 0 := by decide
  rw [e0]
  unfold ltS biasW castUSw
  by_cases h : 2 ^ 63 ≤ d
  · rw [decide_eq_true h]; apply decide_eq_true; omega
  · rw [decide_eq_false h]; apply decide_eq_false; omega

/-- the tail of the lazy difference, after the sign test has been identified -/
theorem lz_tail {w p d : Nat} (hw : 2 < 2 ^ w) (hd : d < 2 ^ w) (c : Bool) (hc : c = decide (2 ^ (w - 1) ≤ d)) :
    addU w d (if c = true then mulU w (castSU w 2) p else castSU w 0) =
      if 2 ^ (w - 1) ≤ d then (d + 2 * p) % 2 ^ w else d := by
  rw [hc, castSU_two hw, castSU_zero, mulU_eq, addU_eq]
  by_cases h : 2 ^ (w - 1) ≤ d
  · rw [decide_eq_true h, if_pos rfl, if_pos h, Nat.add_mod, Nat.mod_mod, ← Nat.add_mod]
  · rw [decide_eq_false h, if_neg (by decide), if_neg h]
    exact Nat.mod_eq_of_lt hd

theorem lz32_eq {p a b : Nat} (hb : b < 2 ^ 32) : lz32 p a b = subLazy 32 p a b := by
  unfold lz32 subLazy
  simp only
  rw [subU_eq_model hb]
  have hd : (a + (2 ^ 32 - b % 2 ^ 32)) % 2 ^ 32 < 2 ^ 32 := Nat.mod_lt _ (Nat.two_pow_pos _)
  exact lz_tail (w := 32) (by omega) hd _ (sign32 hd)

theorem lz64_eq {p a b : Nat} (hb : b < 2 ^ 64) : lz64 p a b = subLazy 64 p a b := by
  unfold lz64 subLazy
  simp only
  rw [subU_eq_model hb]
  have hd : (a + (2 ^ 64 - b % 2 ^ 64)) % 2 ^ 64 < 2 ^ 64 := Nat.mod_lt _ (Nat.two_pow_pos _)
  exact lz_tail (w := 64) (by omega) hd _ (sign64 hd)

/-! ### the generated blocks = the model's expressions -/

theorem ntt_body_u16_eq (p u0 u1 wt wi : Nat) (hp : p < 2 ^ 16) (h0 : u0 < 2 ^ 16) (h1 : u1 < 2 ^ 16)
    (hwt : wt < 2 ^ 16) (hwi : wi < 2 ^ 16) :
    Gen.ntt_body_u16 p u0 u1 wt wi = (bflyLo 16 p u0 u1, bflyHi 16 p u0 u1 wt wi) := by
  rw [body_u16_shape, lo16_eq hp h0 h1, hi16_eq hp h0 h1 hwt hwi]

theorem ntt_body_u32_eq (p u0 u1 wt wi : Nat) (hp : p < 2 ^ 31) (_h0 : u0 < 2 ^ 32) (h1 : u1 < 2 ^ 32)
    (_hwt : wt < 2 ^ 32) (hwi : wi < 2 ^ 32) :
    Gen.ntt_body_u32 p u0 u1 wt wi = (bflyLo 32 p u0 u1, bflyHi 32 p u0 u1 wt wi) := by
  rw [body_u32_shape, loU_eq (by omega) (by omega), hiU_eq (w := 32) (by omega) h1 hwi]

theorem ntt_body_u64_eq (p u0 u1 wt wi : Nat) (hp : p < 2 ^ 63) (_h0 : u0 < 2 ^ 64) (h1 : u1 < 2 ^ 64)
    (_hwt : wt < 2 ^ 64) (hwi : wi < 2 ^ 64) :
    Gen.ntt_body_u64 p u0 u1 wt wi = (bflyLo 64 p u0 u1, bflyHi 64 p u0 u1 wt wi) := by
  rw [body_u64_shape, loU_eq (by omega) (by omega), hiU_eq (w := 64) (by omega) h1 hwi]

theorem ntt_deg2_u16_eq (p u0 u1 : Nat) (hp : p < 2 ^ 16) (h0 : u0 < 2 ^ 16) (h1 : u1 < 2 ^ 16) :
    Gen.ntt_deg2_u16 p u0 u1 = (strictRed p (bflyLo 16 p u0 u1), strictRed p (subLazy 16 p u0 u1)) := by
  rw [deg2_u16_shape, lo16_eq hp h0 h1, lz16_eq hp h0 h1, sr16_eq hp (bflyLo_lt 16 _ _ _), sr16_eq hp (subLazy_lt 16 _ _ _)]

theorem ntt_deg2_u32_eq (p u0 u1 : Nat) (hp : p < 2 ^ 31) (_h0 : u0 < 2 ^ 32) (h1 : u1 < 2 ^ 32) :
    Gen.ntt_deg2_u32 p u0 u1 = (strictRed p (bflyLo 32 p u0 u1), strictRed p (subLazy 32 p u0 u1)) := by
  rw [deg2_u32_shape, loU_eq (by omega) (by omega), lz32_eq h1, srU_eq (bflyLo_lt 32 _ _ _), srU_eq (subLazy_lt 32 _ _ _)]

theorem ntt_deg2_u64_eq (p u0 u1 : Nat) (hp : p < 2 ^ 63) (_h0 : u0 < 2 ^ 64) (h1 : u1 < 2 ^ 64) :
    Gen.ntt_deg2_u64 p u0 u1 = (strictRed p (bflyLo 64 p u0 u1), strictRed p (subLazy 64 p u0 u1)) := by
  rw [deg2_u64_shape, loU_eq (by omega) (by omega), lz64_eq h1, srU_eq (bflyLo_lt 64 _ _ _), srU_eq (subLazy_lt 64 _ _ _)]

/-- the four results of the model's `fused4`, as a tuple -/
def fused4Tuple (w p w1 wi1 u0 u1 u2 u3 : Nat) : Nat × Nat × Nat × Nat :=
  (bflyLo w p (bflyLo w p u0 u2) (bflyLo w p u1 u3), subLazy w p (bflyLo w p u0 u2) (bflyLo w p u1 u3),
   bflyLo w p (subLazy w p u0 u2) (bflyHi w p u1 u3 w1 wi1), subLazy w p (subLazy w p u0 u2) (bflyHi w p u1 u3 w1 wi1))

theorem fused4_eq_tuple (w p w1 wi1 u0 u1 u2 u3 : Nat) :
    fused4 w p w1 wi1 [u0, u1, u2, u3] =
      [(fused4Tuple w p w1 wi1 u0 u1 u2 u3).1, (fused4Tuple w p w1 wi1 u0 u1 u2 u3).2.1,
       (fused4Tuple w p w1 wi1 u0 u1 u2 u3).2.2.1, (fused4Tuple w p w1 wi1 u0 u1 u2 u3).2.2.2] := rfl

theorem ntt_last2_u16_eq (p u0 u1 u2 u3 w1 wi1 : Nat) (hp : p < 2 ^ 16) (h0 : u0 < 2 ^ 16) (h1 : u1 < 2 ^ 16)
    (h2 : u2 < 2 ^ 16) (h3 : u3 < 2 ^ 16) (hw : w1 < 2 ^ 16) (hwi : wi1 < 2 ^ 16) :
    Gen.ntt_last2_u16 p u0 u1 u2 u3 w1 wi1 = fused4Tuple 16 p w1 wi1 u0 u1 u2 u3 := by
  rw [last2_u16_shape, lo16_eq hp h0 h2, lo16_eq hp h1 h3, lz16_eq hp h0 h2, hi16_eq hp h1 h3 hw hwi,
    lo16_eq hp (bflyLo_lt 16 _ _ _) (bflyLo_lt 16 _ _ _), lz16_eq hp (bflyLo_lt 16 _ _ _) (bflyLo_lt 16 _ _ _),
    lo16_eq hp (subLazy_lt 16 _ _ _) (bflyHi_lt 16 _ _ _ _ _), lz16_eq hp (subLazy_lt 16 _ _ _) (bflyHi_lt 16 _ _ _ _ _)]
  rfl

theorem ntt_last2_u32_eq (p u0 u1 u2 u3 w1 wi1 : Nat) (hp : p < 2 ^ 31) (_h0 : u0 < 2 ^ 32) (_h1 : u1 < 2 ^ 32)
    (h2 : u2 < 2 ^ 32) (h3 : u3 < 2 ^ 32) (_hw : w1 < 2 ^ 32) (hwi : wi1 < 2 ^ 32) :
    Gen.ntt_last2_u32 p u0 u1 u2 u3 w1 wi1 = fused4Tuple 32 p w1 wi1 u0 u1 u2 u3 := by
  have hlo : ∀ a b, loU 32 p a b = bflyLo 32 p a b := loU_eq (by omega) (by omega)
  rw [last2_u32_shape, hlo u0 u2, hlo u1 u3, lz32_eq h2, hiU_eq (w := 32) (by omega) h3 hwi, hlo, hlo,
    lz32_eq (bflyLo_lt 32 _ _ _), lz32_eq (bflyHi_lt 32 _ _ _ _ _)]
  rfl

theorem ntt_last2_u64_eq (p u0 u1 u2 u3 w1 wi1 : Nat) (hp : p < 2 ^ 63) (_h0 : u0 < 2 ^ 64) (_h1 : u1 < 2 ^ 64)
    (h2 : u2 < 2 ^ 64) (h3 : u3 < 2 ^ 64) (_hw : w1 < 2 ^ 64) (hwi : wi1 < 2 ^ 64) :
    Gen.ntt_last2_u64 p u0 u1 u2 u3 w1 wi1 = fused4Tuple 64 p w1 wi1 u0 u1 u2 u3 := by
  have hlo : ∀ a b, loU 64 p a b = bflyLo 64 p a b := loU_eq (by omega) (by omega)
  rw [last2_u64_shape, hlo u0 u2, hlo u1 u3, lz64_eq h2, hiU_eq (w := 64) (by omega) h3 hwi, hlo, hlo,
    lz64_eq (bflyLo_lt 64 _ _ _), lz64_eq (bflyHi_lt 64 _ _ _ _ _)]
  rfl

theorem ntt_final_u16_eq (p x : Nat) (hp : p < 2 ^ 16) (hx : x < 2 ^ 16) : Gen.ntt_final_u16 p x = strictRed p x := by
  rw [final_u16_shape, sr16_eq hp hx]
theorem ntt_final_u32_eq (p x : Nat) (_hp : p < 2 ^ 32) (hx : x < 2 ^ 32) : Gen.ntt_final_u32 p x = strictRed p x := by
  rw [final_u32_shape, srU_eq hx]
theorem ntt_final_u64_eq (p x : Nat) (_hp : p < 2 ^ 64) (hx : x < 2 ^ 64) : Gen.ntt_final_u64 p x = strictRed p x := by
  rw [final_u64_shape, srU_eq hx]

end Nfl.NttAstEq
