/-
Numeric value of word strings, and the exact mass that the inverse CDF gives to each integer.
-/
import NflVerif.Proofs.GaussDecode
import Mathlib.Order.Interval.Finset.Nat

namespace Nfl.Gauss

/-! ### `valOf` is an order isomorphism from strings of length `n` (words `< W`) to `[0, W^n)` -/

def WordsLt (W : Nat) (s : Str) : Prop := ∀ x ∈ s, x < W

theorem valOf_lt {W : Nat} {s : Str} (h : WordsLt W s) : valOf W s < W ^ s.length := by
  induction s with
  | nil => simp [valOf]
  | cons x xs ih =>
    have hx : x < W := h x List.mem_cons_self
    have ih' := ih (fun y hy => h y (List.mem_cons_of_mem _ hy))
    simp only [valOf, List.length_cons, Nat.pow_succ]
    calc x * W ^ xs.length + valOf W xs < x * W ^ xs.length + W ^ xs.length := by omega
      _ = (x + 1) * W ^ xs.length := by rw [Nat.add_mul, Nat.one_mul]
      _ ≤ W * W ^ xs.length := Nat.mul_le_mul_right _ hx
      _ = W ^ xs.length * W := Nat.mul_comm _ _

theorem cmp_valOf {W : Nat} {a b : Str} (hl : a.length = b.length) (ha : WordsLt W a) (hb : WordsLt W b) :
    (cmp a b = 1 ↔ valOf W b < valOf W a) ∧ (cmp a b = -1 ↔ valOf W a < valOf W b) := by
  induction a generalizing b with
  | nil => cases b <;> simp_all [cmp, valOf]
  | cons x xs ih =>
    cases b with
    | nil => simp at hl
    | cons y ys =>
      simp only [List.length_cons, Nat.add_right_cancel_iff] at hl
      have hxs : WordsLt W xs := fun z hz => ha z (List.mem_cons_of_mem _ hz)
      have hys : WordsLt W ys := fun z hz => hb z (List.mem_cons_of_mem _ hz)
      have h1 := valOf_lt hxs
      have h2 := valOf_lt hys
      rw [hl] at h1
      simp only [cmp_cons, valOf, hl]
      generalize W ^ ys.length = P at h1 h2
      by_cases hxy : x > y
      · have : (y + 1) * P ≤ x * P := Nat.mul_le_mul_right _ hxy
        rw [Nat.add_mul, Nat.one_mul] at this
        simp only [hxy, if_true, true_iff]
        constructor
        · omega
        · constructor
          · intro h; omega
          · intro h; omega
      · by_cases hxy' : x < y
        · have : (x + 1) * P ≤ y * P := Nat.mul_le_mul_right _ hxy'
          rw [Nat.add_mul, Nat.one_mul] at this
          simp only [hxy, hxy', if_true, if_false]
          constructor
          · constructor
            · intro h; omega
            · intro h; omega
          · simp; omega
        · have : x = y := by omega
          subst this
          simp only [Nat.lt_irrefl, gt_iff_lt, if_false, Nat.add_lt_add_iff_left]
          exact ih hl hxs hys

theorem leB_iff_valOf {W : Nat} {a b : Str} (hl : a.length = b.length) (ha : WordsLt W a) (hb : WordsLt W b) :
    leB a b = true ↔ valOf W a ≤ valOf W b := by
  have := (cmp_valOf hl ha hb).1
  simp only [leB, bne_iff_ne, ne_eq, this]; omega

theorem toWords_length (W n u : Nat) : (toWords W n u).length = n := by
  induction n generalizing u with
  | zero => rfl
  | succ n ih => simp [toWords, ih]

theorem toWords_lt {W : Nat} (hW : 0 < W) (n u : Nat) : WordsLt W (toWords W n u) := by
  induction n generalizing u with
  | zero => intro x hx; simp [toWords] at hx
  | succ n ih =>
    intro x hx
    simp only [toWords, List.mem_cons] at hx
    rcases hx with rfl | hx
    · exact Nat.mod_lt _ hW
    · exact ih _ x hx

theorem valOf_toWords {W : Nat} (n u : Nat) (hu : u < W ^ n) : valOf W (toWords W n u) = u := by
  induction n generalizing u with
  | zero => simp at hu; simp [toWords, valOf, hu]
  | succ n ih =>
    have hP : 0 < W ^ n := by
      rcases Nat.eq_zero_or_pos W with h | h
      · subst h; cases n <;> simp_all
      · exact Nat.pow_pos h
    simp only [toWords, valOf, toWords_length]
    rw [ih _ (Nat.mod_lt _ hP)]
    have : u / W ^ n < W := by
      rw [Nat.div_lt_iff_lt_mul hP]; rwa [Nat.pow_succ, Nat.mul_comm] at hu
    rw [Nat.mod_eq_of_lt this]
    exact Nat.div_add_mod' u (W ^ n)

/-! ### counting below a threshold in a sorted list of naturals -/

theorem sorted_count_gt (L : List Nat) (hs : L.Pairwise (· ≤ ·)) (u k : Nat) (hk : k < L.length) :
    k < L.countP (· ≤ u) ↔ L[k] ≤ u := by
  induction L generalizing k with
  | nil => simp at hk
  | cons a t ih =>
    rw [List.pairwise_cons] at hs
    by_cases ha : a ≤ u
    · rw [List.countP_cons_of_pos (by simpa using ha)]
      cases k with
      | zero => simp [ha]
      | succ k' =>
        simp only [List.length_cons, Nat.add_lt_add_iff_right] at hk
        simp only [Nat.add_lt_add_iff_right, List.getElem_cons_succ]
        exact ih hs.2 k' hk
    · have hz : (a :: t).countP (· ≤ u) = 0 := by
        rw [List.countP_eq_zero]
        intro x hx
        rcases List.mem_cons.mp hx with rfl | hx'
        · simpa using ha
        · have := hs.1 x hx'; simp; omega
      rw [hz]
      simp only [Nat.not_lt_zero, false_iff, Nat.not_le]
      cases k with
      | zero => simp; omega
      | succ k' =>
        simp only [List.length_cons, Nat.add_lt_add_iff_right] at hk
        have := hs.1 t[k'] (List.getElem_mem hk)
        simp only [List.getElem_cons_succ]; omega

theorem getD_of_lt (L : List Nat) (k : Nat) (h : k < L.length) : L.getD k 0 = L[k] := by
  simp [List.getD_eq_getElem?_getD, h]

/-- lower / upper end of the set of thresholds at which exactly `k` list elements are `≤ u` -/
def loOf (L : List Nat) (k : Nat) : Nat := if k = 0 then 0 else L.getD (k - 1) 0
def hiOf (L : List Nat) (N : Nat) (k : Nat) : Nat := if k < L.length then L.getD k 0 else N

theorem sorted_count_eq (L : List Nat) (hs : L.Pairwise (· ≤ ·)) (N u k : Nat) (hu : u < N) (hk : k ≤ L.length) :
    L.countP (· ≤ u) = k ↔ loOf L k ≤ u ∧ u < hiOf L N k := by
  have hle : L.countP (· ≤ u) ≤ L.length := List.countP_le_length
  have h1 : k ≤ L.countP (· ≤ u) ↔ loOf L k ≤ u := by
    unfold loOf
    cases k with
    | zero => simp
    | succ k' =>
      have hk' : k' < L.length := by omega
      simp only [Nat.add_eq_zero_iff, Nat.one_ne_zero, and_false, if_false, Nat.add_sub_cancel]
      rw [getD_of_lt _ _ hk']
      exact sorted_count_gt L hs u k' hk'
  have h2 : L.countP (· ≤ u) ≤ k ↔ u < hiOf L N k := by
    unfold hiOf
    by_cases hkl : k < L.length
    · simp only [hkl, if_true]
      rw [getD_of_lt _ _ hkl]
      have := sorted_count_gt L hs u k hkl
      omega
    · simp only [hkl, if_false]
      constructor
      · intro _; exact hu
      · intro _; omega
  omega

theorem card_filter_Ico (N lo hi : Nat) (hhi : hi ≤ N) :
    ((Finset.range N).filter (fun u => lo ≤ u ∧ u < hi)).card = hi - lo := by
  have : (Finset.range N).filter (fun u => lo ≤ u ∧ u < hi) = Finset.Ico lo hi := by
    ext u; simp only [Finset.mem_filter, Finset.mem_range, Finset.mem_Ico]; omega
  rw [this, Nat.card_Ico]

/-! ### the mass of each output value -/

/-- numeric barriers -/
def numB (W : Nat) (bs : List Str) : List Nat := bs.map (valOf W)

theorem numB_sorted {W wp : Nat} {bs : List Str} (hwf : barriersWF W wp bs = true) (hsort : sortedB bs = true) :
    (numB W bs).Pairwise (· ≤ ·) := by
  have hl := lenWp_of_WF hwf
  have hs := pairwise_of_sortedB hl hsort
  have hw : ∀ b ∈ bs, WordsLt W b := by
    intro b hb
    simp only [barriersWF, List.all_eq_true, Bool.and_eq_true, decide_eq_true_eq] at hwf
    exact (hwf b hb).2
  rw [numB, List.pairwise_map]
  refine hs.imp_of_mem ?_
  intro a b ha hb hab
  exact (leB_iff_valOf (by rw [hl a ha, hl b hb]) (hw a ha) (hw b hb)).mp hab

theorem invCDF_num {W wp : Nat} {bs : List Str} (hwf : barriersWF W wp bs = true) (hW : 0 < W) (v0 : Int) (u : Nat)
    (hu : u < W ^ wp) :
    invCDF bs v0 (toWords W wp u) = v0 + ((numB W bs).countP (· ≤ u) : Nat) := by
  have hl := lenWp_of_WF hwf
  have hw : ∀ b ∈ bs, WordsLt W b := by
    intro b hb
    simp only [barriersWF, List.all_eq_true, Bool.and_eq_true, decide_eq_true_eq] at hwf
    exact (hwf b hb).2
  simp only [invCDF, numB, List.countP_map]
  congr 2
  apply List.countP_congr
  intro b hb
  have := leB_iff_valOf (W := W) (a := b) (b := toWords W wp u) (by rw [hl b hb, toWords_length]) (hw b hb) (toWords_lt hW wp u)
  rw [valOf_toWords wp u hu] at this
  simp [this]

/-- **induced mass**: among the `W^wp` equally likely input strings, exactly `B_k − B_{k-1}` give the output `v₀ + k`
(`B_{-1} = 0`, `B_nb = W^wp`, `B_j` = numeric value of barrier `j`). -/
theorem invCDF_mass {W wp : Nat} {bs : List Str} (hwf : barriersWF W wp bs = true) (hsort : sortedB bs = true) (hW : 0 < W)
    (v0 : Int) (k : Nat) (hk : k ≤ bs.length) :
    ((Finset.range (W ^ wp)).filter (fun u => invCDF bs v0 (toWords W wp u) = v0 + (k : Nat))).card =
      hiOf (numB W bs) (W ^ wp) k - loOf (numB W bs) k := by
  have hs := numB_sorted hwf hsort
  have hlen : (numB W bs).length = bs.length := by simp [numB]
  have hhi : hiOf (numB W bs) (W ^ wp) k ≤ W ^ wp := by
    unfold hiOf
    split
    · rename_i h
      rw [getD_of_lt _ _ h]
      simp only [numB, List.getElem_map]
      have hl := lenWp_of_WF hwf
      have hb : bs[k]'(by simpa [numB] using h) ∈ bs := List.getElem_mem _
      have hw : WordsLt W (bs[k]'(by simpa [numB] using h)) := by
        simp only [barriersWF, List.all_eq_true, Bool.and_eq_true, decide_eq_true_eq] at hwf
        exact (hwf _ hb).2
      have := valOf_lt hw
      rw [hl _ hb] at this
      omega
    · exact Nat.le_refl _
  rw [← card_filter_Ico (W ^ wp) _ _ hhi]
  congr 1
  apply Finset.filter_congr
  intro u hu
  rw [Finset.mem_range] at hu
  rw [invCDF_num hwf hW v0 u hu]
  rw [← sorted_count_eq (numB W bs) hs (W ^ wp) u k hu (by omega)]
  omega

end Nfl.Gauss
