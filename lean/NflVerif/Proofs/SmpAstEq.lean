/-
Equalities between the WHOLE sampler / setter functions that tools/gen_smp_ast.py re-translates from clang's AST of
include/nfl/core.hpp (Generated/SmpAst.lean: loops, request sizes, index expressions, pointer walks; the straight-line pieces are calls
into Generated/SetAst.lean) and the hand-written model Model/Samplers.lean (functions of the random tape).

Reading of the result: `_data` is a flat array; `rows n nm d` reads it as the model's `Poly` (`out[cm][i] = d[cm*n+i]`).
`view` keeps (rows, length of the array, unread tape, recorded request sizes).  Every theorem is for EVERY tape / initial memory.
Convention difference (not a code difference): the hand model reads a missing tape buffer as zeros (`tape.headD []`); the generated
functions stop with `err tapeEnd` when fastrandombytes is called on an empty tape.  The theorems state this case explicitly.
-/
import NflVerif.Generated.SmpAst
import NflVerif.Proofs.SetAstEq

namespace Nfl.SmpAstEq
open Nfl Nfl.Samplers Nfl.CSem Nfl.Smp Nfl.SetAstEq

/-! ### reading the flat array -/

def rows (n nm : Nat) (d : List Nat) : Poly :=
  (List.range nm).map fun cm => (List.range n).map fun i => d.getD (cm * n + i) 0

def view (n nm : Nat) : Res (List Nat × IO) → Res (Poly × Nat × Tape × List Nat)
  | .ok (d, io) => .ok (rows n nm d, d.length, io.tape, io.reqs)
  | .err e => .err e

theorem rows_eq_mkPoly (n : Nat) (ps : List Nat) (f : Nat → Nat → Nat → Nat) (d : List Nat)
    (h : ∀ cm i, cm < ps.length → i < n → d.getD (cm * n + i) 0 = f cm (ps.getD cm 0) i) :
    rows n ps.length d = mkPoly n ps f := by
  unfold rows mkPoly
  apply List.ext_getElem
  · simp
  · intro cm h1 h2
    simp only [List.length_map, List.length_range] at h1
    simp only [List.getElem_map, List.getElem_range, List.getElem_mapIdx]
    apply List.ext_getElem
    · simp
    · intro i h3 h4
      simp only [List.length_map, List.length_range] at h3
      simp only [List.getElem_map, List.getElem_range]
      rw [h cm i h1 h3]
      congr 1
      simp [List.getD_eq_getElem?_getD, h1]

/-! ### generic loop lemmas -/

theorem foldl_congr_mem {σ κ : Type} (f g : σ → κ → σ) (l : List κ) (h : ∀ s k, k ∈ l → f s k = g s k) (s : σ) :
    l.foldl f s = l.foldl g s := by
  induction l generalizing s with
  | nil => rfl
  | cons a l ih =>
    simp only [List.foldl_cons]
    rw [h s a (by simp)]
    exact ih (fun s k hk => h s k (by simp [hk])) _

/-- a row-major double loop is one loop over the flat index -/
theorem nested_range {σ : Type} (n nm : Nat) (g : σ → Nat → Nat → σ) (f : σ → Nat → σ)
    (h : ∀ s cm i, cm < nm → i < n → g s cm i = f s (cm * n + i)) (s : σ) :
    (List.range nm).foldl (fun s cm => (List.range n).foldl (fun s i => g s cm i) s) s = (List.range (nm * n)).foldl f s := by
  induction nm generalizing s with
  | zero => simp
  | succ m ih =>
    rw [List.range_succ, List.foldl_append, List.foldl_cons, List.foldl_nil,
      ih (fun s cm i hc hi => h s cm i (by omega) hi), Nat.succ_mul, List.range_add, List.foldl_append, List.foldl_map]
    exact foldl_congr_mem _ _ _ (fun s i hi => h s m i (by omega) (by simpa using hi)) _

theorem getD_set' (l : List Nat) (i j a : Nat) : (l.set i a).getD j 0 = if i = j ∧ j < l.length then a else l.getD j 0 := by
  simp only [List.getD_eq_getElem?_getD, List.getElem?_set]
  by_cases h : i = j
  · subst h
    by_cases h2 : i < l.length
    · simp [h2]
    · simp [h2]
  · simp [h]

/-- cells written one after the other, each from its own old content -/
theorem seq_write (N : Nat) (v : Nat → Nat → Nat) (d : List Nat) :
    ((List.range N).foldl (fun d j => d.set j (v j (d.getD j 0))) d).length = d.length ∧
    ∀ j, ((List.range N).foldl (fun d j => d.set j (v j (d.getD j 0))) d).getD j 0 =
      if j < N ∧ j < d.length then v j (d.getD j 0) else d.getD j 0 := by
  induction N with
  | zero => simp
  | succ N ih =>
    rw [List.range_succ, List.foldl_append, List.foldl_cons, List.foldl_nil]
    refine ⟨by rw [List.length_set]; exact ih.1, fun j => ?_⟩
    rw [getD_set', ih.1, ih.2 j, ih.2 N]
    by_cases h : N = j
    · subst h
      by_cases h2 : N < d.length
      · simp [h2]
      · simp [h2]
    · by_cases h3 : j < N
      · simp [h, h3, show j < N + 1 by omega]
      · simp [h, h3, show ¬ j < N + 1 by omega]

/-- the walking pointer of a sequential store loop is the flat index -/
theorem seq_write_ptr (N : Nat) (v : Nat → Nat) (d : List Nat) (p0 : Nat) :
    (List.range N).foldl (fun (s : List Nat × Nat) j => (s.1.set s.2 (v j), s.2 + 1)) (d, p0) =
      ((List.range N).foldl (fun (s : List Nat × Nat) j => (s.1.set (p0 + j) (v j), s.2 + 1)) (d, p0)) ∧
    ((List.range N).foldl (fun (s : List Nat × Nat) j => (s.1.set (p0 + j) (v j), s.2 + 1)) (d, p0)).2 = p0 + N := by
  induction N with
  | zero => simp
  | succ N ih =>
    rw [List.range_succ, List.foldl_append, List.foldl_append, List.foldl_cons, List.foldl_nil, List.foldl_cons, List.foldl_nil, ih.1]
    refine ⟨?_, by simp [ih.2]; omega⟩
    rw [ih.2]

theorem idx_facts {n nm cm i : Nat} (hcm : cm < nm) (hi : i < n) :
    n * cm + i < n * nm ∧ (cm * n + i) / n = cm ∧ (cm * n + i) % n = i := by
  have h1 : n * (cm + 1) ≤ n * nm := Nat.mul_le_mul_left n hcm
  have hn : 0 < n := by omega
  refine ⟨by rw [Nat.mul_add] at h1; omega, ?_, ?_⟩
  · rw [Nat.mul_comm cm n, Nat.mul_add_div hn, Nat.div_eq_of_lt hi]; rfl
  · rw [Nat.mul_comm cm n, Nat.mul_add_mod, Nat.mod_eq_of_lt hi]

/-! ### the tape: what `fastrandombytes` leaves in the array -/

theorem leBytes_mod (l : List Nat) : leBytes (l.map (· % 256)) = leWord l := by
  induction l with
  | nil => rfl
  | cons a l ih => simp [leBytes, leWord, ih]

/-- a word that lies entirely inside the request is the model's `wordAt` -/
theorem overWord_full (wb : Nat) (req : List Nat) (n j old : Nat) (h : (j + 1) * wb ≤ n) :
    overWord wb (fun t => req.getD t 0) n j old = wordAt wb req j := by
  unfold overWord wordAt
  rw [← leBytes_mod, List.map_map]
  congr 1
  apply List.map_congr_left
  intro t ht
  have : t < wb := by simpa using ht
  have h2 : j * wb + t < n := by rw [Nat.add_mul] at h; omega
  simp [h2]

theorem frb_cons (wb : Nat) (arr : List Nat) (n : Nat) (req : List Nat) (rest : Tape) (reqs : List Nat) :
    frb wb arr n ⟨req :: rest, reqs⟩ = .ok (arr.mapIdx (fun j old => overWord wb (fun t => req.getD t 0) n j old), ⟨rest, reqs ++ [n]⟩) := rfl

theorem frb_nil (wb : Nat) (arr : List Nat) (n : Nat) (reqs : List Nat) : frb wb arr n ⟨[], reqs⟩ = .err .tapeEnd := rfl

theorem getD_frb (wb : Nat) (arr req : List Nat) (n j : Nat) (hj : j < arr.length) (h : (j + 1) * wb ≤ n) :
    (arr.mapIdx (fun j old => overWord wb (fun t => req.getD t 0) n j old)).getD j 0 = wordAt wb req j := by
  rw [List.getD_eq_getElem?_getD, List.getElem?_mapIdx, List.getElem?_eq_getElem hj]
  simp only [Option.map_some, Option.getD_some]
  exact overWord_full wb req n j _ h

theorem leWord_lt (l : List Nat) : leWord l < 256 ^ l.length := by
  induction l with
  | nil => simp [leWord]
  | cons a l ih =>
    simp only [leWord, List.length_cons, Nat.pow_succ]
    have : a % 256 < 256 := Nat.mod_lt _ (by decide)
    omega

theorem wordAt_lt (wb : Nat) (req : List Nat) (j : Nat) : wordAt wb req j < 256 ^ wb := by
  unfold wordAt
  have := leWord_lt ((List.range wb).map fun t => req.getD (j * wb + t) 0)
  simpa using this

/-! ### `set(uniform)` -/

/-- the generated function, with the two pieces and the word size abstracted -/
theorem uniform_shape (wb : Nat) (bodyf : Nat → Nat → Nat → Nat) (maskf : Nat → Nat) (n nm sz : Nat) (P : Nat → Nat)
    (data : List Nat) (tape : Tape) (reqs : List Nat) (hn : n < 2 ^ 64) (hm : nm < 2 ^ 32) (hN : n * nm < 2 ^ 64) :
    ((Smp.frb wb data sz ⟨tape, reqs⟩).bind fun st1 =>
      let data := st1.1
      let io := st1.2
      let data := CSemInit.forCount 32 nm (fun data cm =>
        let mask := maskf (P (castU 64 cm))
        let data := CSemInit.forCount 64 n (fun data i =>
          let data := Smp.store data (addU 64 i (mulU 64 n (castU 64 cm)))
            (bodyf (P (castU 64 cm)) mask (Smp.load data (addU 64 i (mulU 64 n (castU 64 cm)))))
          data) data
        data) data
      Smp.Res.ok (data, io)) =
    match tape with
    | [] => .err .tapeEnd
    | req :: rest =>
      .ok ((List.range (nm * n)).foldl (fun d j => d.set j (bodyf (P (j / n)) (maskf (P (j / n))) (d.getD j 0)))
        (data.mapIdx (fun j old => overWord wb (fun t => req.getD t 0) sz j old)), ⟨rest, reqs ++ [sz]⟩) := by
  cases tape with
  | nil => rfl
  | cons req rest =>
    rw [frb_cons, Res.bind_ok]
    simp only [CSemInit.forCount_eq_foldl 64 n _ _ hn, CSemInit.forCount_eq_foldl 32 nm _ _ hm]
    congr 2
    apply nested_range
    intro s cm i hcm hi
    obtain ⟨h1, h2, _⟩ := idx_facts (n := n) (nm := nm) hcm hi
    have ec : castU 64 cm = cm := Nat.mod_eq_of_lt (by omega)
    have e : addU 64 i (mulU 64 n cm) = cm * n + i := by
      have : n * cm < 2 ^ 64 := by omega
      unfold addU mulU
      rw [Nat.mod_eq_of_lt this, Nat.mod_eq_of_lt (by omega), Nat.mul_comm]; omega
    simp only [e, ec, h2, Smp.store, Smp.load]

theorem uniform_final (W : Nat) (hW : W = 16 ∨ W = 32 ∨ W = 64) (bodyf : Nat → Nat → Nat → Nat) (maskf : Nat → Nat)
    (n sz : Nat) (ps : List Nat) (data req : List Nat)
    (hb : ∀ p ∈ ps, ∀ x, x < 2 ^ W → bodyf p (maskf p) x = uniCoef W p x)
    (hd : data.length = n * ps.length) (hs : sz = sizeofPoly W n ps.length) :
    let r := (List.range (ps.length * n)).foldl (fun d j => d.set j (bodyf (ps.getD (j / n) 0) (maskf (ps.getD (j / n) 0)) (d.getD j 0)))
        (data.mapIdx (fun j old => overWord (W / 8) (fun t => req.getD t 0) sz j old))
    rows n ps.length r = mkPoly n ps (fun cm p i => uniCoef W p (wordAt (W / 8) req (cm * n + i))) ∧ r.length = data.length := by
  intro r
  have sw := seq_write (ps.length * n) (fun j x => bodyf (ps.getD (j / n) 0) (maskf (ps.getD (j / n) 0)) x)
    (data.mapIdx (fun j old => overWord (W / 8) (fun t => req.getD t 0) sz j old))
  refine ⟨?_, sw.1.trans (by simp)⟩
  apply rows_eq_mkPoly
  intro cm i hcm hi
  obtain ⟨h1, h2, _⟩ := idx_facts (n := n) (nm := ps.length) hcm hi
  have hj : cm * n + i < ps.length * n := by rw [Nat.mul_comm cm n, Nat.mul_comm ps.length n]; exact h1
  have hjd : cm * n + i < data.length := by rw [hd, Nat.mul_comm n]; exact hj
  have hsz : (cm * n + i + 1) * (W / 8) ≤ sz := by
    have : (cm * n + i + 1) * (W / 8) ≤ n * ps.length * (W / 8) := Nat.mul_le_mul_right _ (by rw [Nat.mul_comm n]; omega)
    rw [hs]; unfold sizeofPoly; omega
  show r.getD _ 0 = _
  rw [sw.2, if_pos ⟨hj, by simpa using hjd⟩, getD_frb _ _ _ _ _ hjd hsz, h2]
  have hmem : ps.getD cm 0 ∈ ps := by
    rw [List.getD_eq_getElem?_getD, List.getElem?_eq_getElem hcm]; simp
  apply hb _ hmem
  have := wordAt_lt (W / 8) req (cm * n + i)
  rcases hW with h | h | h <;> subst h <;> simpa using this

theorem uniform_wrap (W : Nat) (hW : W = 16 ∨ W = 32 ∨ W = 64) (bodyf : Nat → Nat → Nat → Nat) (maskf : Nat → Nat)
    (n sz : Nat) (ps data : List Nat) (tape : Tape) (reqs : List Nat)
    (hb : ∀ p ∈ ps, ∀ x, x < 2 ^ W → bodyf p (maskf p) x = uniCoef W p x)
    (hd : data.length = n * ps.length) (hs : sz = sizeofPoly W n ps.length) :
    view n ps.length (match tape with
      | [] => .err .tapeEnd
      | req :: rest =>
        .ok ((List.range (ps.length * n)).foldl (fun d j => d.set j (bodyf (ps.getD (j / n) 0) (maskf (ps.getD (j / n) 0)) (d.getD j 0)))
          (data.mapIdx (fun j old => overWord (W / 8) (fun t => req.getD t 0) sz j old)), ⟨rest, reqs ++ [sz]⟩)) =
    match tape with
    | [] => .err .tapeEnd
    | _ :: rest => .ok (setUniform W n ps tape, data.length, rest, reqs ++ uniformRequests W n ps.length) := by
  subst hs
  cases tape with
  | nil => rfl
  | cons req rest =>
    obtain ⟨h1, h2⟩ := uniform_final W hW bodyf maskf n _ ps data req hb hd rfl
    simp only [view, h1, h2, setUniform, List.headD_cons, uniformRequests]

/-- `poly<uint16_t,n,nm>::set(uniform)`, whole function = the hand model, for every tape and every initial `_data`.
Hypotheses: `hf` the floating-point contract of floor(log2(double)) on the moduli; `hp` the moduli are 16-bit values; `hd` extent of `_data`;
`hs` sizeof(poly) (static_assert-checked by the translator); `hn`, `hN` degree and degree·nmoduli are `size_t` values (no wrap of
`i + degree*cm`); `hm` nmoduli fits the `unsigned int` counter `cm` (otherwise the C++ loop does not terminate). -/
theorem set_uniform_u16_eq (flog2 : Nat → Nat) (n sz : Nat) (ps data : List Nat) (tape : Tape) (reqs : List Nat)
    (hf : ∀ p ∈ ps, flog2 p = Nat.log2 p) (hp : ∀ p ∈ ps, p < 2 ^ 16)
    (hd : data.length = n * ps.length) (hs : sz = sizeofPoly 16 n ps.length)
    (hn : n < 2 ^ 64) (hm : ps.length < 2 ^ 32) (hN : n * ps.length < 2 ^ 64) :
    view n ps.length (Gen.set_uniform_u16 flog2 n ps.length sz (fun cm => ps.getD cm 0) data ⟨tape, reqs⟩) =
      match tape with
      | [] => .err .tapeEnd
      | _ :: rest => .ok (setUniform 16 n ps tape, data.length, rest, reqs ++ uniformRequests 16 n ps.length) := by
  refine (congrArg (view n ps.length) (uniform_shape 2 Gen.uni_body_u16 (Gen.uni_mask_u16 flog2) n ps.length sz
    (fun cm => ps.getD cm 0) data tape reqs hn hm hN)).trans ?_
  refine uniform_wrap 16 (by simp) Gen.uni_body_u16 (Gen.uni_mask_u16 flog2) n sz ps data tape reqs ?_ hd hs
  intro p hpm x hx
  have hm' : uniMask 16 p < 2 ^ 16 := Nat.mod_lt _ (by decide)
  rw [uni_mask_u16_eq flog2 p (hf p hpm) (hp p hpm), uni_body_u16_eq p _ x (hp p hpm) hm' hx]; rfl

theorem set_uniform_u32_eq (flog2 : Nat → Nat) (n sz : Nat) (ps data : List Nat) (tape : Tape) (reqs : List Nat)
    (hf : ∀ p ∈ ps, flog2 p = Nat.log2 p) (hp : ∀ p ∈ ps, p < 2 ^ 32)
    (hd : data.length = n * ps.length) (hs : sz = sizeofPoly 32 n ps.length)
    (hn : n < 2 ^ 64) (hm : ps.length < 2 ^ 32) (hN : n * ps.length < 2 ^ 64) :
    view n ps.length (Gen.set_uniform_u32 flog2 n ps.length sz (fun cm => ps.getD cm 0) data ⟨tape, reqs⟩) =
      match tape with
      | [] => .err .tapeEnd
      | _ :: rest => .ok (setUniform 32 n ps tape, data.length, rest, reqs ++ uniformRequests 32 n ps.length) := by
  refine (congrArg (view n ps.length) (uniform_shape 4 Gen.uni_body_u32 (Gen.uni_mask_u32 flog2) n ps.length sz
    (fun cm => ps.getD cm 0) data tape reqs hn hm hN)).trans ?_
  refine uniform_wrap 32 (by simp) Gen.uni_body_u32 (Gen.uni_mask_u32 flog2) n sz ps data tape reqs ?_ hd hs
  intro p hpm x hx
  have hm' : uniMask 32 p < 2 ^ 32 := Nat.mod_lt _ (by decide)
  rw [uni_mask_u32_eq flog2 p (hf p hpm) (hp p hpm), uni_body_u32_eq p _ x (hp p hpm) hm' hx]; rfl

theorem set_uniform_u64_eq (flog2 : Nat → Nat) (n sz : Nat) (ps data : List Nat) (tape : Tape) (reqs : List Nat)
    (hf : ∀ p ∈ ps, flog2 p = Nat.log2 p) (hp : ∀ p ∈ ps, p < 2 ^ 64)
    (hd : data.length = n * ps.length) (hs : sz = sizeofPoly 64 n ps.length)
    (hn : n < 2 ^ 64) (hm : ps.length < 2 ^ 32) (hN : n * ps.length < 2 ^ 64) :
    view n ps.length (Gen.set_uniform_u64 flog2 n ps.length sz (fun cm => ps.getD cm 0) data ⟨tape, reqs⟩) =
      match tape with
      | [] => .err .tapeEnd
      | _ :: rest => .ok (setUniform 64 n ps tape, data.length, rest, reqs ++ uniformRequests 64 n ps.length) := by
  refine (congrArg (view n ps.length) (uniform_shape 8 Gen.uni_body_u64 (Gen.uni_mask_u64 flog2) n ps.length sz
    (fun cm => ps.getD cm 0) data tape reqs hn hm hN)).trans ?_
  refine uniform_wrap 64 (by simp) Gen.uni_body_u64 (Gen.uni_mask_u64 flog2) n sz ps data tape reqs ?_ hd hs
  intro p hpm x hx
  have hm' : uniMask 64 p < 2 ^ 64 := Nat.mod_lt _ (by decide)
  rw [uni_mask_u64_eq flog2 p (hf p hpm) (hp p hpm), uni_body_u64_eq p _ x (hp p hpm) hm' hx]; rfl

/-- `hm` is needed: with 2^32 moduli the 32-bit counter wraps and the loop body runs on `cm = 0` again (the C++ loop never ends) -/
example : CSemInit.forCount 2 5 (fun (l : List Nat) cm => l ++ [cm]) [] ≠ (List.range 5).foldl (fun l cm => l ++ [cm]) [] := by decide

/-! ### `set(ZO_dist)` -/

theorem seq_write_ptr0 (N : Nat) (v : Nat → Nat) (d : List Nat) :
    (List.range N).foldl (fun (s : List Nat × Nat) j => (s.1.set s.2 (v j), s.2 + 1)) (d, 0) =
      ((List.range N).foldl (fun d j => d.set j (v j)) d, N) := by
  induction N with
  | zero => rfl
  | succ N ih => rw [List.range_succ, List.foldl_append, List.foldl_append, ih]; rfl

theorem wordAt_one (req : List Nat) (i : Nat) : wordAt 1 req i = req.getD i 0 % 256 := by
  simp [wordAt, leWord, List.range_succ]

theorem mulU_one {n : Nat} (hn : n < 2 ^ 64) : mulU 64 n 1 = n := by
  unfold mulU; rw [Nat.mul_one, Nat.mod_eq_of_lt hn]

theorem zo_shape_eq (coef : Nat → Nat → Nat → Nat) (n nm rho : Nat) (P : Nat → Nat) (rnd0 data : List Nat) (tape : Tape) (reqs : List Nat)
    (hn : n < 2 ^ 64) (hm : nm < 2 ^ 64) :
    (let rnd := rnd0
     (Smp.frb 1 rnd (mulU 64 n 1) ⟨tape, reqs⟩).bind fun st1 =>
      let rnd := st1.1
      let io := st1.2
      let ptr := 0
      let st2 := CSemInit.forCount 64 nm (fun st2 cm =>
        let data := st2.1
        let ptr := st2.2
        let st3 := CSemInit.forCount 64 n (fun st3 i =>
          let data := st3.1
          let ptr := st3.2
          let data := Smp.store data ptr (coef (P cm) rho (Smp.load rnd i))
          let ptr := Smp.ptrAdd ptr 1
          (data, ptr)) (data, ptr)
        let data := st3.1
        let ptr := st3.2
        (data, ptr)) (data, ptr)
      let data := st2.1
      let ptr := st2.2
      Smp.Res.ok (data, io)) =
    match tape with
    | [] => .err .tapeEnd
    | req :: rest =>
      .ok ((List.range (nm * n)).foldl (fun d j => d.set j (coef (P (j / n)) rho
          ((rnd0.mapIdx (fun j old => overWord 1 (fun t => req.getD t 0) n j old)).getD (j % n) 0))) data, ⟨rest, reqs ++ [n]⟩) := by
  rw [mulU_one hn]
  cases tape with
  | nil => rfl
  | cons req rest =>
    simp only [frb_cons, Res.bind_ok, CSemInit.forCount_eq_foldl 64 n _ _ hn, CSemInit.forCount_eq_foldl 64 nm _ _ hm]
    have key := (nested_range n nm
      (fun (s : List Nat × Nat) cm i => (s.1.set s.2 (coef (P cm) rho
        ((rnd0.mapIdx (fun j old => overWord 1 (fun t => req.getD t 0) n j old)).getD i 0)), s.2 + 1))
      (fun (s : List Nat × Nat) j => (s.1.set s.2 (coef (P (j / n)) rho
        ((rnd0.mapIdx (fun j old => overWord 1 (fun t => req.getD t 0) n j old)).getD (j % n) 0)), s.2 + 1))
      (fun s cm i hcm hi => by
        obtain ⟨_, h2, h3⟩ := idx_facts (n := n) (nm := nm) hcm hi
        simp only [h2, h3]) (data, 0)).trans (seq_write_ptr0 _ _ _)
    exact congrArg (fun x : List Nat × Nat => Res.ok (x.1, (⟨rest, reqs ++ [n]⟩ : IO))) key

theorem zo_wrap (W : Nat) (coef : Nat → Nat → Nat → Nat) (n rho : Nat) (ps rnd0 data : List Nat) (tape : Tape) (reqs : List Nat)
    (hc : ∀ p ∈ ps, ∀ b, b < 2 ^ 8 → coef p rho b = zoCoef W rho p b)
    (hd : data.length = n * ps.length) (hr : rnd0.length = n) :
    view n ps.length (match tape with
      | [] => .err .tapeEnd
      | req :: rest =>
        .ok ((List.range (ps.length * n)).foldl (fun d j => d.set j (coef (ps.getD (j / n) 0) rho
          ((rnd0.mapIdx (fun j old => overWord 1 (fun t => req.getD t 0) n j old)).getD (j % n) 0))) data, ⟨rest, reqs ++ [n]⟩)) =
    match tape with
    | [] => .err .tapeEnd
    | _ :: rest => .ok (setZO W n ps rho tape, data.length, rest, reqs ++ zoRequests n) := by
  cases tape with
  | nil => rfl
  | cons req rest =>
    have sw := seq_write (ps.length * n) (fun j _ => coef (ps.getD (j / n) 0) rho
          ((rnd0.mapIdx (fun j old => overWord 1 (fun t => req.getD t 0) n j old)).getD (j % n) 0)) data
    simp only [view, sw.1, setZO, List.headD_cons, zoRequests]
    congr 2
    apply rows_eq_mkPoly
    intro cm i hcm hi
    obtain ⟨h1, h2, h3⟩ := idx_facts (n := n) (nm := ps.length) hcm hi
    have hj : cm * n + i < ps.length * n := by rw [Nat.mul_comm cm n, Nat.mul_comm ps.length n]; exact h1
    have hjd : cm * n + i < data.length := by rw [hd, Nat.mul_comm n]; exact hj
    rw [sw.2, if_pos ⟨hj, hjd⟩, h2, h3, getD_frb 1 rnd0 req n i (by omega) (by omega), wordAt_one]
    have hmem : ps.getD cm 0 ∈ ps := by
      rw [List.getD_eq_getElem?_getD, List.getElem?_eq_getElem hcm]; simp
    exact hc _ hmem _ (Nat.mod_lt _ (by decide))

/-- `set(ZO_dist)`, whole function = hand model (polynomial AND the single request of `degree` bytes), every tape, every initial `_data`,
every content of the uninitialised local `rnd`.  `hr`: extent of `rnd[Degree]`; `hrho`: `rho` is a `uint8_t`; `hn`, `hm`: `size_t` values. -/
theorem set_zo_u16_eq (n rho : Nat) (ps rnd0 data : List Nat) (tape : Tape) (reqs : List Nat)
    (hp : ∀ p ∈ ps, p < 2 ^ 16) (hrho : rho < 2 ^ 8) (hd : data.length = n * ps.length) (hr : rnd0.length = n)
    (hn : n < 2 ^ 64) (hm : ps.length < 2 ^ 64) :
    view n ps.length (Gen.set_zo_u16 n ps.length (fun cm => ps.getD cm 0) rnd0 rho data ⟨tape, reqs⟩) =
      match tape with
      | [] => .err .tapeEnd
      | _ :: rest => .ok (setZO 16 n ps rho tape, data.length, rest, reqs ++ zoRequests n) :=
  (congrArg (view n ps.length) (zo_shape_eq Gen.zo_coef_u16 n ps.length rho (fun cm => ps.getD cm 0) rnd0 data tape reqs hn hm)).trans
    (zo_wrap 16 Gen.zo_coef_u16 n rho ps rnd0 data tape reqs (fun p hpm b hb => zo_coef_u16_eq p rho b (hp p hpm) hb hrho) hd hr)

theorem set_zo_u32_eq (n rho : Nat) (ps rnd0 data : List Nat) (tape : Tape) (reqs : List Nat)
    (hp : ∀ p ∈ ps, p < 2 ^ 32) (hrho : rho < 2 ^ 8) (hd : data.length = n * ps.length) (hr : rnd0.length = n)
    (hn : n < 2 ^ 64) (hm : ps.length < 2 ^ 64) :
    view n ps.length (Gen.set_zo_u32 n ps.length (fun cm => ps.getD cm 0) rnd0 rho data ⟨tape, reqs⟩) =
      match tape with
      | [] => .err .tapeEnd
      | _ :: rest => .ok (setZO 32 n ps rho tape, data.length, rest, reqs ++ zoRequests n) :=
  (congrArg (view n ps.length) (zo_shape_eq Gen.zo_coef_u32 n ps.length rho (fun cm => ps.getD cm 0) rnd0 data tape reqs hn hm)).trans
    (zo_wrap 32 Gen.zo_coef_u32 n rho ps rnd0 data tape reqs (fun p hpm b hb => zo_coef_u32_eq p rho b (hp p hpm) hb hrho) hd hr)

theorem set_zo_u64_eq (n rho : Nat) (ps rnd0 data : List Nat) (tape : Tape) (reqs : List Nat)
    (hp : ∀ p ∈ ps, p < 2 ^ 64) (hrho : rho < 2 ^ 8) (hd : data.length = n * ps.length) (hr : rnd0.length = n)
    (hn : n < 2 ^ 64) (hm : ps.length < 2 ^ 64) :
    view n ps.length (Gen.set_zo_u64 n ps.length (fun cm => ps.getD cm 0) rnd0 rho data ⟨tape, reqs⟩) =
      match tape with
      | [] => .err .tapeEnd
      | _ :: rest => .ok (setZO 64 n ps rho tape, data.length, rest, reqs ++ zoRequests n) :=
  (congrArg (view n ps.length) (zo_shape_eq Gen.zo_coef_u64 n ps.length rho (fun cm => ps.getD cm 0) rnd0 data tape reqs hn hm)).trans
    (zo_wrap 64 Gen.zo_coef_u64 n rho ps rnd0 data tape reqs (fun p hpm b hb => zo_coef_u64_eq p rho b (hp p hpm) hb hrho) hd hr)

/-! ### `set(non_uniform)` -/

theorem throw_loop_aux (k nm : Nat) (c : Nat → Bool) (hm : nm < 2 ^ k) :
    ∀ fuel i, i + fuel = nm →
      Smp.forFromMAux k nm (fun (st : Unit) cm => (Smp.throwIf (c cm)).bind fun _ => Res.ok ()) fuel i () =
        if (List.range' i fuel).any c then .err .thrown else .ok () := by
  intro fuel
  induction fuel with
  | zero => intro i _; rfl
  | succ f ih =>
    intro i h
    have hi : i < nm := by omega
    have hmod : (i + 1) % 2 ^ k = i + 1 := Nat.mod_eq_of_lt (by omega)
    simp only [Smp.forFromMAux, hi, if_true, hmod, List.range'_succ, List.any_cons]
    cases hc : c i
    · simp only [Smp.throwIf, Res.bind_ok, Bool.false_or]
      exact ih (i + 1) (by omega)
    · simp [Smp.throwIf]

theorem throw_loop (k nm : Nat) (c : Nat → Bool) (hm : nm < 2 ^ k) :
    Smp.forFromM k 0 nm (fun (st : Unit) cm => (Smp.throwIf (c cm)).bind fun _ => Res.ok ()) () =
      if (List.range nm).any c then .err .thrown else .ok () := by
  unfold Smp.forFromM
  rw [throw_loop_aux k nm c hm (nm - 0) 0 (by omega), List.range_eq_range']; rfl

theorem any_range_getD (l : List Nat) (f : Nat → Bool) : (List.range l.length).any (fun i => f (l.getD i 0)) = l.any f := by
  rw [Bool.eq_iff_iff]
  simp only [List.any_eq_true, List.mem_range]
  constructor
  · rintro ⟨i, hi, h⟩
    refine ⟨l[i], List.getElem_mem hi, ?_⟩
    simpa [List.getD_eq_getElem?_getD, hi] using h
  · rintro ⟨p, hp, h⟩
    obtain ⟨i, hi, rfl⟩ := List.getElem_of_mem hp
    exact ⟨i, hi, by simpa [List.getD_eq_getElem?_getD, hi] using h⟩

theorem any_range_congr (nm : Nat) (f g : Nat → Bool) (h : ∀ cm, cm < nm → f cm = g cm) : (List.range nm).any f = (List.range nm).any g := by
  rw [Bool.eq_iff_iff]
  simp only [List.any_eq_true, List.mem_range]
  constructor
  · rintro ⟨cm, hcm, hh⟩; exact ⟨cm, hcm, by rw [← h cm hcm]; exact hh⟩
  · rintro ⟨cm, hcm, hh⟩; exact ⟨cm, hcm, by rw [h cm hcm]; exact hh⟩

/-- one column of the coefficient grid: the loop over cm for a fixed i -/
theorem col_write (n m i : Nat) (v : Nat → Nat) (d : List Nat) (hi : i < n) :
    ((List.range m).foldl (fun d cm => d.set (cm * n + i) (v cm)) d).length = d.length ∧
    ∀ j, ((List.range m).foldl (fun d cm => d.set (cm * n + i) (v cm)) d).getD j 0 =
      if j % n = i ∧ j / n < m ∧ j < d.length then v (j / n) else d.getD j 0 := by
  induction m with
  | zero => simp
  | succ m ih =>
    rw [List.range_succ, List.foldl_append, List.foldl_cons, List.foldl_nil]
    refine ⟨by rw [List.length_set]; exact ih.1, fun j => ?_⟩
    rw [getD_set', ih.1, ih.2 j]
    have hdm := Nat.div_add_mod j n
    obtain ⟨_, e2, e3⟩ := idx_facts (n := n) (nm := m + 1) (cm := m) (i := i) (by omega) hi
    by_cases h : m * n + i = j
    · subst h
      rw [e2, e3]
      by_cases h2 : m * n + i < d.length
      · simp [h2]
      · simp [h2]
    · have hne : ¬ (j % n = i ∧ j / n = m) := by
        rintro ⟨a, b⟩
        apply h
        rw [← hdm, a, b, Nat.mul_comm]
      by_cases h3 : j / n < m
      · simp [h, h3, show j / n < m + 1 by omega]
      · by_cases h4 : j % n = i
        · have : j / n ≠ m := fun hb => hne ⟨h4, hb⟩
          simp [h, h3, show ¬ j / n < m + 1 by omega]
        · simp [h, h4]

/-- the loop over i of columns -/
theorem grid_write (n nm : Nat) (v : Nat → Nat → Nat) (d : List Nat) :
    ∀ n', n' ≤ n →
    ((List.range n').foldl (fun d i => (List.range nm).foldl (fun d cm => d.set (cm * n + i) (v cm i)) d) d).length = d.length ∧
    ∀ j, ((List.range n').foldl (fun d i => (List.range nm).foldl (fun d cm => d.set (cm * n + i) (v cm i)) d) d).getD j 0 =
      if j % n < n' ∧ j / n < nm ∧ j < d.length then v (j / n) (j % n) else d.getD j 0 := by
  intro n'
  induction n' with
  | zero => intro _; simp
  | succ m ih =>
    intro hle
    obtain ⟨l1, g1⟩ := ih (by omega)
    rw [List.range_succ, List.foldl_append, List.foldl_cons, List.foldl_nil]
    obtain ⟨l2, g2⟩ := col_write n nm m (fun cm => v cm m)
      ((List.range m).foldl (fun d i => (List.range nm).foldl (fun d cm => d.set (cm * n + i) (v cm i)) d) d) (by omega)
    refine ⟨l2.trans l1, fun j => ?_⟩
    rw [g2 j, l1, g1 j]
    by_cases h : j % n = m
    · subst h
      by_cases h2 : j / n < nm ∧ j < d.length
      · simp [h2]
      · have : ¬ (j % n < j % n) := by omega
        simp [this]
        all_goals (intro a b; exact absurd ⟨a, b⟩ h2)
    · by_cases h3 : j % n < m
      · simp [h, show j % n < m + 1 by omega, h3]
      · simp [h, show ¬ j % n < m + 1 by omega, h3]

theorem bnd_idx {n nm cm i : Nat} (hN : n * nm < 2 ^ 64) (hcm : cm < nm) (hi : i < n) :
    addU 64 (mulU 64 n (castU 64 cm)) (castU 64 i) = cm * n + i ∧ castU 64 cm = cm := by
  obtain ⟨h1, _, _⟩ := idx_facts (n := n) (nm := nm) hcm hi
  have hc : cm < 2 ^ 64 := by
    rcases Nat.eq_zero_or_pos n with h | h
    · omega
    · have : nm ≤ n * nm := Nat.le_mul_of_pos_left nm h
      omega
  have h2 : n * cm < 2 ^ 64 := by omega
  unfold addU mulU castU
  rw [Nat.mod_eq_of_lt hc, Nat.mod_eq_of_lt h2, Nat.mod_eq_of_lt (show i < 2 ^ 64 by omega), Nat.mod_eq_of_lt (by omega), Nat.mul_comm]
  exact ⟨rfl, rfl⟩

theorem grid_loops (n nm : Nat) (P : Nat → Nat) (F : Nat → Nat → Nat) (rnd data : List Nat)
    (hn : n < 2 ^ 32) (hm : nm < 2 ^ 32) (hN : n * nm < 2 ^ 64) :
    CSemInit.forCount 32 n (fun data i =>
      let data := CSemInit.forCount 32 nm (fun data cm =>
        let data := Smp.store data (addU 64 (mulU 64 n (castU 64 cm)) (castU 64 i)) (F (P (castU 64 cm)) (Smp.load rnd i))
        data) data
      data) data =
    (List.range n).foldl (fun d i => (List.range nm).foldl (fun d cm => d.set (cm * n + i) (F (P cm) (rnd.getD i 0))) d) data := by
  simp only [CSemInit.forCount_eq_foldl 32 n _ _ hn, CSemInit.forCount_eq_foldl 32 nm _ _ hm]
  apply foldl_congr_mem
  intro s i hi
  apply foldl_congr_mem
  intro s' cm hcm
  obtain ⟨e1, e2⟩ := bnd_idx (n := n) (nm := nm) (cm := cm) (i := i) hN (by simpa using hcm) (by simpa using hi)
  rw [e2] at e1
  simp only [e1, e2, Smp.store, Smp.load]

theorem bounded_shape (wb : Nat) (thr : Nat → Nat → Bool) (c : Bool) (F1 F2 : Nat → Nat → Nat) (n nm B : Nat) (P : Nat → Nat)
    (rnd0 data : List Nat) (tape : Tape) (reqs : List Nat) (hn : n < 2 ^ 32) (hm : nm < 2 ^ 32) (hN : n * nm < 2 ^ 64) :
    ((Smp.forFromM 32 (castSU 32 0) nm (fun st1 cm =>
        (Smp.throwIf (thr (P (castU 64 cm)) B)).bind fun _ =>
        Smp.Res.ok ()) ()).bind fun st1 =>
      let rnd := rnd0
      (Smp.frb wb rnd (mulU 64 n wb) ⟨tape, reqs⟩).bind fun st2 =>
      let rnd := st2.1
      let io := st2.2
      let data := if c then
          let data := CSemInit.forCount 32 n (fun data i =>
            let data := CSemInit.forCount 32 nm (fun data cm =>
              let data := Smp.store data (addU 64 (mulU 64 n (castU 64 cm)) (castU 64 i)) (F1 (P (castU 64 cm)) (Smp.load rnd i))
              data) data
            data) data
          data
        else
          let data := CSemInit.forCount 32 n (fun data i =>
            let data := CSemInit.forCount 32 nm (fun data cm =>
              let data := Smp.store data (addU 64 (mulU 64 n (castU 64 cm)) (castU 64 i)) (F2 (P (castU 64 cm)) (Smp.load rnd i))
              data) data
            data) data
          data
      Smp.Res.ok (data, io)) =
    if (List.range nm).any (fun cm => thr (P cm) B) then .err .thrown else
    match tape with
    | [] => .err .tapeEnd
    | req :: rest =>
      .ok ((List.range n).foldl (fun d i => (List.range nm).foldl (fun d cm => d.set (cm * n + i)
          ((if c then F1 else F2) (P cm) ((rnd0.mapIdx (fun j old => overWord wb (fun t => req.getD t 0) (mulU 64 n wb) j old)).getD i 0))) d) data,
        ⟨rest, reqs ++ [mulU 64 n wb]⟩) := by
  have e0 : (fun (st1 : Unit) cm => (Smp.throwIf (thr (P (castU 64 cm)) B)).bind fun _ => Smp.Res.ok ()) =
      (fun (st1 : Unit) cm => (Smp.throwIf ((fun cm => thr (P (castU 64 cm)) B) cm)).bind fun _ => Smp.Res.ok ()) := rfl
  rw [castSU32_0, e0, throw_loop 32 nm _ hm]
  have e1 : (List.range nm).any (fun cm => thr (P (castU 64 cm)) B) = (List.range nm).any (fun cm => thr (P cm) B) := by
    apply any_range_congr
    intro cm hcm
    have : cm < 2 ^ 64 := by omega
    show thr (P (castU 64 cm)) B = _
    unfold castU; rw [Nat.mod_eq_of_lt this]
  rw [e1]
  by_cases ht : (List.range nm).any (fun cm => thr (P cm) B) = true
  · rw [if_pos ht, if_pos ht]; rfl
  · rw [if_neg ht, if_neg ht, Res.bind_ok]
    cases tape with
    | nil => rfl
    | cons req rest =>
      simp only [frb_cons, Res.bind_ok]
      cases c
      · simp only [Bool.false_eq_true, if_false, grid_loops n nm P F2 _ data hn hm hN]
      · simp only [if_true, grid_loops n nm P F1 _ data hn hm hN]

theorem any_mem_congr (l : List Nat) (f g : Nat → Bool) (h : ∀ p ∈ l, f p = g p) : l.any f = l.any g := by
  rw [Bool.eq_iff_iff]
  simp only [List.any_eq_true]
  constructor
  · rintro ⟨p, hp, hh⟩; exact ⟨p, hp, by rw [← h p hp]; exact hh⟩
  · rintro ⟨p, hp, hh⟩; exact ⟨p, hp, by rw [h p hp]; exact hh⟩

theorem bounded_wrap (W : Nat) (hW : W = 16 ∨ W = 32 ∨ W = 64) (thr : Nat → Nat → Bool) (c : Bool) (F1 F2 : Nat → Nat → Nat)
    (n B A : Nat) (ps rnd0 data : List Nat) (tape : Tape) (reqs : List Nat)
    (hthr : ∀ p ∈ ps, thr p B = decide (B ≥ p))
    (hF : ∀ p ∈ ps, ∀ x, x < 2 ^ W → (if c then F1 else F2) p x = bndCoef W B A p x)
    (hd : data.length = n * ps.length) (hr : rnd0.length = n) (hnw : n * (W / 8) < 2 ^ 64) :
    view n ps.length (if (List.range ps.length).any (fun cm => thr (ps.getD cm 0) B) then .err .thrown else
      match tape with
      | [] => .err .tapeEnd
      | req :: rest =>
        .ok ((List.range n).foldl (fun d i => (List.range ps.length).foldl (fun d cm => d.set (cm * n + i)
            ((if c then F1 else F2) (ps.getD cm 0)
              ((rnd0.mapIdx (fun j old => overWord (W / 8) (fun t => req.getD t 0) (mulU 64 n (W / 8)) j old)).getD i 0))) d) data,
          ⟨rest, reqs ++ [mulU 64 n (W / 8)]⟩)) =
    match setBounded W n ps B A tape with
    | none => .err .thrown
    | some poly =>
      match tape with
      | [] => .err .tapeEnd
      | _ :: rest => .ok (poly, data.length, rest, reqs ++ boundedRequests W n) := by
  have em : mulU 64 n (W / 8) = n * (W / 8) := Nat.mod_eq_of_lt hnw
  rw [any_range_getD ps (fun p => thr p B), any_mem_congr ps _ _ hthr, em]
  unfold setBounded
  by_cases ht : ps.any (fun p => decide (B ≥ p)) = true
  · rw [if_pos ht, if_pos ht]; rfl
  · rw [if_neg ht, if_neg ht]
    cases tape with
    | nil => rfl
    | cons req rest =>
      obtain ⟨gl, gg⟩ := grid_write n ps.length (fun cm i => (if c then F1 else F2) (ps.getD cm 0)
        ((rnd0.mapIdx (fun j old => overWord (W / 8) (fun t => req.getD t 0) (n * (W / 8)) j old)).getD i 0)) data n (Nat.le_refl n)
      simp only [view, gl, List.headD_cons, boundedRequests]
      congr 2
      apply rows_eq_mkPoly
      intro cm i hcm hi
      obtain ⟨h1, h2, h3⟩ := idx_facts (n := n) (nm := ps.length) hcm hi
      have hjd : cm * n + i < data.length := by rw [hd, Nat.mul_comm cm n]; exact h1
      rw [gg, h2, h3, if_pos ⟨hi, hcm, hjd⟩,
        getD_frb (W / 8) rnd0 req (n * (W / 8)) i (by omega) (Nat.mul_le_mul_right _ (by omega))]
      have hmem : ps.getD cm 0 ∈ ps := by
        rw [List.getD_eq_getElem?_getD, List.getElem?_eq_getElem hcm]; simp
      apply hF _ hmem
      have := wordAt_lt (W / 8) req i
      rcases hW with h | h | h <;> subst h <;> simpa using this

/-- `set(non_uniform)`, whole function = hand model `setBounded` (throw, polynomial, the single request of `degree` limbs), for every tape,
initial `_data`, content of the uninitialised `rnd`.  `hn`/`hm`: the counters `i`, `cm` are `unsigned int` (beyond 2^32 the C++ loops do not
terminate); `hN`: no wrap in `degree*cm + i`; `hp`: moduli are limb values; `hr`, `hd`: extents. -/
theorem set_bounded_u16_eq (n B A : Nat) (ps rnd0 data : List Nat) (tape : Tape) (reqs : List Nat)
    (hp : ∀ p ∈ ps, p < 2 ^ 16) (hd : data.length = n * ps.length) (hr : rnd0.length = n)
    (hn : n < 2 ^ 32) (hm : ps.length < 2 ^ 32) (hN : n * ps.length < 2 ^ 64) :
    view n ps.length (Gen.set_bounded_u16 n ps.length (fun cm => ps.getD cm 0) B A rnd0 data ⟨tape, reqs⟩) =
      match setBounded 16 n ps B A tape with
      | none => .err .thrown
      | some poly =>
        match tape with
        | [] => .err .tapeEnd
        | _ :: rest => .ok (poly, data.length, rest, reqs ++ boundedRequests 16 n) := by
  refine (congrArg (view n ps.length) (bounded_shape 2 Gen.bnd_throw_u16 (Gen.bnd_is1_u16 A)
    (fun p x => Gen.bnd_amp1_u16 p B (Gen.bnd_mask_u16 B) x) (fun p x => Gen.bnd_ampg_u16 p B A (Gen.bnd_mask_u16 B) x)
    n ps.length B (fun cm => ps.getD cm 0) rnd0 data tape reqs hn hm hN)).trans ?_
  refine bounded_wrap 16 (by simp) _ _ _ _ n B A ps rnd0 data tape reqs (fun p hpm => bnd_throw_u16_eq p B (hp p hpm)) ?_ hd hr (by omega)
  intro p hpm x hx
  rw [bnd_is1_u16_eq, bnd_mask_u16_eq]
  by_cases h : A = 1
  · subst h; rw [decide_eq_true rfl, if_pos rfl]; exact bnd_amp1_u16_eq p B x (hp p hpm) hx
  · rw [decide_eq_false h, if_neg (by decide)]; exact bnd_ampg_u16_eq p B A x h (hp p hpm) hx

theorem set_bounded_u32_eq (n B A : Nat) (ps rnd0 data : List Nat) (tape : Tape) (reqs : List Nat)
    (hp : ∀ p ∈ ps, p < 2 ^ 32) (hd : data.length = n * ps.length) (hr : rnd0.length = n)
    (hn : n < 2 ^ 32) (hm : ps.length < 2 ^ 32) (hN : n * ps.length < 2 ^ 64) :
    view n ps.length (Gen.set_bounded_u32 n ps.length (fun cm => ps.getD cm 0) B A rnd0 data ⟨tape, reqs⟩) =
      match setBounded 32 n ps B A tape with
      | none => .err .thrown
      | some poly =>
        match tape with
        | [] => .err .tapeEnd
        | _ :: rest => .ok (poly, data.length, rest, reqs ++ boundedRequests 32 n) := by
  refine (congrArg (view n ps.length) (bounded_shape 4 Gen.bnd_throw_u32 (Gen.bnd_is1_u32 A)
    (fun p x => Gen.bnd_amp1_u32 p B (Gen.bnd_mask_u32 B) x) (fun p x => Gen.bnd_ampg_u32 p B A (Gen.bnd_mask_u32 B) x)
    n ps.length B (fun cm => ps.getD cm 0) rnd0 data tape reqs hn hm hN)).trans ?_
  refine bounded_wrap 32 (by simp) _ _ _ _ n B A ps rnd0 data tape reqs (fun p hpm => bnd_throw_u32_eq p B (hp p hpm)) ?_ hd hr (by omega)
  intro p hpm x hx
  rw [bnd_is1_u32_eq, bnd_mask_u32_eq]
  by_cases h : A = 1
  · subst h; rw [decide_eq_true rfl, if_pos rfl]; exact bnd_amp1_u32_eq p B x (hp p hpm) hx
  · rw [decide_eq_false h, if_neg (by decide)]; exact bnd_ampg_u32_eq p B A x h (hp p hpm) hx

theorem set_bounded_u64_eq (n B A : Nat) (ps rnd0 data : List Nat) (tape : Tape) (reqs : List Nat)
    (hp : ∀ p ∈ ps, p < 2 ^ 64) (hd : data.length = n * ps.length) (hr : rnd0.length = n)
    (hn : n < 2 ^ 32) (hm : ps.length < 2 ^ 32) (hN : n * ps.length < 2 ^ 64) :
    view n ps.length (Gen.set_bounded_u64 n ps.length (fun cm => ps.getD cm 0) B A rnd0 data ⟨tape, reqs⟩) =
      match setBounded 64 n ps B A tape with
      | none => .err .thrown
      | some poly =>
        match tape with
        | [] => .err .tapeEnd
        | _ :: rest => .ok (poly, data.length, rest, reqs ++ boundedRequests 64 n) := by
  refine (congrArg (view n ps.length) (bounded_shape 8 Gen.bnd_throw_u64 (Gen.bnd_is1_u64 A)
    (fun p x => Gen.bnd_amp1_u64 p B (Gen.bnd_mask_u64 B) x) (fun p x => Gen.bnd_ampg_u64 p B A (Gen.bnd_mask_u64 B) x)
    n ps.length B (fun cm => ps.getD cm 0) rnd0 data tape reqs hn hm hN)).trans ?_
  refine bounded_wrap 64 (by simp) _ _ _ _ n B A ps rnd0 data tape reqs (fun p hpm => bnd_throw_u64_eq p B (hp p hpm)) ?_ hd hr (by omega)
  intro p hpm x hx
  rw [bnd_is1_u64_eq, bnd_mask_u64_eq]
  by_cases h : A = 1
  · subst h; rw [decide_eq_true rfl, if_pos rfl]; exact bnd_amp1_u64_eq p B x (hp p hpm) hx
  · rw [decide_eq_false h, if_neg (by decide)]; exact bnd_ampg_u64_eq p B A x h (hp p hpm) hx

/-! ### `set(hwt_dist)`: structure and request sizes (PARTIAL) -/

/-- the reservoir phase of the generated set(hwt_dist) (same term as in Generated/SmpAst.lean, pieces abstracted) -/
def hwtLoop (acceptf : Nat → Nat → Bool) (indexf : Nat → Nat → Nat) (resf : Nat → Nat → Nat → Nat → Nat)
    (degree mode_hwt : Nat) (io : IO) (hitted rnd : List Nat) (rnd_ptr rnd_end : Nat) : Res (IO × List Nat × List Nat × Nat) :=
  Smp.forFromM 64 (castU 64 mode_hwt) degree (fun st1 k =>
      let io := st1.1
      let hitted := st1.2.1
      let rnd := st1.2.2.1
      let rnd_ptr := st1.2.2.2
      let pos := castSU 64 0
      (Smp.loopM (fun st2 =>
          let io := st2.1
          let rnd := st2.2.1
          let rnd_ptr := st2.2.2.1
          let pos := st2.2.2.2
          (if Smp.ptrEq rnd_ptr rnd_end then
              (Smp.frb 8 rnd (mulU 64 (StdSem.vecSize rnd) 8) io).bind fun st4 =>
              let rnd := st4.1
              let io := st4.2
              let rnd_ptr := (StdSem.vecBegin rnd)
              Smp.Res.ok (io, rnd, rnd_ptr)
            else
              Smp.Res.ok (io, rnd, rnd_ptr)
            ).bind fun st3 =>
          let io := st3.1
          let rnd := st3.2.1
          let rnd_ptr := st3.2.2
          let pos := Smp.load rnd rnd_ptr
          let rnd_ptr := Smp.ptrAdd rnd_ptr 1
          if acceptf k pos then
            let pos := indexf k pos
            Smp.Res.ok ((io, rnd, rnd_ptr, pos), true)
          else
            Smp.Res.ok ((io, rnd, rnd_ptr, pos), false)
        ) (Smp.loopFuel io rnd) (io, rnd, rnd_ptr, pos)).bind fun st2 =>
      let io := st2.1
      let rnd := st2.2.1
      let rnd_ptr := st2.2.2.1
      let pos := st2.2.2.2
      let hitted := Smp.store hitted pos (resf mode_hwt k pos (Smp.load hitted pos))
      Smp.Res.ok (io, hitted, rnd, rnd_ptr)) (io, hitted, rnd, rnd_ptr)

/-- sort, clear, sign request and the writes of ±1 of the generated set(hwt_dist) -/
def hwtTail (wb : Nat) (signf : Nat → Nat → Nat) (degree nmoduli : Nat) (P : Nat → Nat) (data : List Nat)
    (st1 : IO × List Nat × List Nat × Nat) : Res (List Nat × IO) :=
  let io := st1.1
  let hitted := st1.2.1
  let rnd := st1.2.2.1
  let rnd_ptr := st1.2.2.2
  let hitted := StdSem.sortAll hitted
  let data := StdSem.memset wb data 0 (mulU 64 (mulU 64 degree nmoduli) wb)
  (Smp.frb 8 rnd (mulU 64 (StdSem.vecSize rnd) 8) io).bind fun st5 =>
  let rnd := st5.1
  let io := st5.2
  let offset := castSU 64 0
  let st6 := CSemInit.forCount 64 nmoduli (fun st6 cm =>
      let data := st6.1
      let rnd_ptr := st6.2.1
      let offset := st6.2.2
      let rnd_ptr := (StdSem.vecBegin rnd)
      let st7 := StdSem.forEach hitted (fun st7 pos =>
          let data := st7.1
          let rnd_ptr := st7.2
          let data := Smp.store data (addU 64 pos offset) (signf (P cm) (Smp.load rnd rnd_ptr))
          let rnd_ptr := Smp.ptrAdd rnd_ptr 1
          (data, rnd_ptr)) (data, rnd_ptr)
      let data := st7.1
      let rnd_ptr := st7.2
      let offset := addU 64 offset degree
      (data, rnd_ptr, offset)) (data, rnd_ptr, offset)
  let data := st6.1
  let rnd_ptr := st6.2.1
  let offset := st6.2.2
  let hitted := StdSem.memset 8 hitted 0 (mulU 64 (StdSem.vecSize hitted) 8)
  Smp.Res.ok (data, io)

/-- the generated function IS assert; iota; reservoir loop from k = hwt below degree with refills of 8·|rnd| bytes; tail -/
def hwtWhole (wb : Nat) (acceptf : Nat → Nat → Bool) (indexf : Nat → Nat → Nat) (resf : Nat → Nat → Nat → Nat → Nat) (signf : Nat → Nat → Nat)
    (degree nmoduli : Nat) (P : Nat → Nat) (mode_hwt : Nat) (data : List Nat) (io : IO) : Res (List Nat × IO) :=
  (Smp.assertThat ((gtU mode_hwt (castSU 32 0)) && (leU (castU 64 mode_hwt) degree))).bind fun _ =>
  let hitted := StdSem.iotaAll 32 (StdSem.vectorN (castU 64 mode_hwt)) 0
  let rnd := StdSem.vectorN (StdSem.vecSize hitted)
  (hwtLoop acceptf indexf resf degree mode_hwt io hitted rnd (StdSem.vecEnd rnd) (StdSem.vecEnd rnd)).bind
    (hwtTail wb signf degree nmoduli P data)

theorem set_hwt_u16_split : Gen.set_hwt_u16 = hwtWhole 2 Gen.hwt_accept_u16 Gen.hwt_index_u16 Gen.hwt_res_u16 Gen.hwt_sign_u16 := rfl
theorem set_hwt_u32_split : Gen.set_hwt_u32 = hwtWhole 4 Gen.hwt_accept_u32 Gen.hwt_index_u32 Gen.hwt_res_u32 Gen.hwt_sign_u32 := rfl
theorem set_hwt_u64_split : Gen.set_hwt_u64 = hwtWhole 8 Gen.hwt_accept_u64 Gen.hwt_index_u64 Gen.hwt_res_u64 Gen.hwt_sign_u64 := rfl

/-- `assert(mode.hwt > 0 && mode.hwt <= Degree)` of the generated function = the guard of the hand model `setHwt` (h a `uint32_t`) -/
theorem hwt_assert_partial (wb : Nat) (acceptf : Nat → Nat → Bool) (indexf : Nat → Nat → Nat) (resf : Nat → Nat → Nat → Nat → Nat) (signf : Nat → Nat → Nat)
    (n nm : Nat) (P : Nat → Nat) (h : Nat) (data : List Nat) (io : IO) (hh : h < 2 ^ 32) (hbad : h = 0 ∨ n < h) :
    hwtWhole wb acceptf indexf resf signf n nm P h data io = .err .assertion := by
  have e : ((gtU h (castSU 32 0)) && (leU (castU 64 h) n)) = false := by
    have : castU 64 h = h := Nat.mod_eq_of_lt (by omega)
    rw [castSU32_0, this]; unfold gtU leU
    rcases hbad with h0 | h0
    · subst h0; simp
    · simp; omega
  unfold hwtWhole; rw [e]; rfl

/-- the sign phase makes exactly ONE request, of 8·h bytes (h = length of the word buffer), and consumes one buffer; on an empty tape it
stops with `tapeEnd`.  PARTIAL: the full statement (the written ±1 = `hwtWrite` of the sorted positions, and the reservoir loop =
`runTape`) is in Properties/C12Ast.lean's closing comment. -/
theorem hwt_sign_request_partial (wb : Nat) (signf : Nat → Nat → Nat) (n nm : Nat) (P : Nat → Nat) (data hitted rnd : List Nat) (p : Nat)
    (req : List Nat) (rest : Tape) (reqs : List Nat) (hl : rnd.length * 8 < 2 ^ 64) :
    ∃ d, hwtTail wb signf n nm P data (⟨req :: rest, reqs⟩, hitted, rnd, p) = .ok (d, ⟨rest, reqs ++ [8 * rnd.length]⟩) ∧
      hwtTail wb signf n nm P data (⟨[], reqs⟩, hitted, rnd, p) = .err .tapeEnd := by
  have e : mulU 64 (StdSem.vecSize rnd) 8 = 8 * rnd.length := by
    unfold mulU StdSem.vecSize; rw [Nat.mod_eq_of_lt hl, Nat.mul_comm]
  unfold hwtTail
  simp only [e, frb_cons, frb_nil, Res.bind_ok, Res.bind_err]
  exact ⟨_, rfl, trivial⟩

end Nfl.SmpAstEq
