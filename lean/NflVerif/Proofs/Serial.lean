/-
Helper lemmas for C16: little-endian byte images, chunked memory, the text printer/parser.
-/
import NflVerif.Model.Serial

namespace Nfl.Serial

/-! ### one word -/

theorem encodeLE_length : ∀ (b x : Nat), (encodeLE b x).length = b
  | 0, _ => rfl
  | b + 1, x => by simp [encodeLE, encodeLE_length b]

theorem encodeLE_lt : ∀ (b x : Nat), ∀ y ∈ encodeLE b x, y < 256
  | 0, _ => by simp [encodeLE]
  | b + 1, x => by
    intro y hy
    simp only [encodeLE, List.mem_cons] at hy
    rcases hy with rfl | hy
    · exact Nat.mod_lt _ (by decide)
    · exact encodeLE_lt b _ y hy

theorem decode_encode : ∀ (b x : Nat), decodeLE (encodeLE b x) = x % 256 ^ b
  | 0, x => by simp [encodeLE, decodeLE, Nat.mod_one]
  | b + 1, x => by
    simp only [encodeLE, decodeLE, decode_encode b]
    rw [Nat.pow_succ', Nat.mod_mul]

theorem encode_decode : ∀ (bs : List Nat), (∀ y ∈ bs, y < 256) → encodeLE bs.length (decodeLE bs) = bs
  | [], _ => rfl
  | b :: bs, h => by
    have hb : b < 256 := h b (by simp)
    have ih := encode_decode bs (fun y hy => h y (by simp [hy]))
    simp only [List.length_cons, encodeLE, decodeLE]
    have e1 : (b + 256 * decodeLE bs) % 256 = b := by omega
    have e2 : (b + 256 * decodeLE bs) / 256 = decodeLE bs := by omega
    rw [e1, e2, ih]

theorem encodeLE_get : ∀ (b x i : Nat), i < b → (encodeLE b x)[i]? = some (x / 256 ^ i % 256)
  | 0, _, _, h => by omega
  | b + 1, x, 0, _ => by simp [encodeLE]
  | b + 1, x, i + 1, h => by
    simp only [encodeLE, List.getElem?_cons_succ]
    rw [encodeLE_get b _ i (by omega), Nat.pow_succ, Nat.div_div_eq_div_mul, Nat.mul_comm]

/-! ### the word array -/

theorem toBytes_nil (B : Nat) : toBytes B [] = [] := rfl

theorem toBytes_cons (B x : Nat) (ws : List Nat) : toBytes B (x :: ws) = encodeLE B x ++ toBytes B ws := by
  simp [toBytes]

theorem toBytes_length (B : Nat) : ∀ ws : List Nat, (toBytes B ws).length = ws.length * B
  | [] => by simp [toBytes]
  | x :: ws => by
    rw [toBytes_cons, List.length_append, encodeLE_length, toBytes_length B ws, List.length_cons, Nat.add_mul]
    omega

theorem toBytes_lt (B : Nat) : ∀ (ws : List Nat), ∀ y ∈ toBytes B ws, y < 256
  | [], y, h => by simp [toBytes] at h
  | x :: ws, y, h => by
    rw [toBytes_cons, List.mem_append] at h
    rcases h with h | h
    · exact encodeLE_lt B x y h
    · exact toBytes_lt B ws y h

theorem fromBytes_length (B : Nat) : ∀ (len : Nat) (bs : List Nat), (fromBytes B len bs).length = len
  | 0, _ => rfl
  | len + 1, bs => by simp [fromBytes, fromBytes_length B len]

theorem fromBytes_toBytes (B : Nat) : ∀ (ws extra : List Nat), (∀ x ∈ ws, x < 256 ^ B) →
    fromBytes B ws.length (toBytes B ws ++ extra) = ws
  | [], _, _ => rfl
  | x :: ws, extra, h => by
    have hx : x < 256 ^ B := h x (by simp)
    simp only [List.length_cons, fromBytes, toBytes_cons, List.append_assoc]
    rw [List.take_left' (encodeLE_length B x), List.drop_left' (encodeLE_length B x),
      decode_encode, Nat.mod_eq_of_lt hx, fromBytes_toBytes B ws extra (fun y hy => h y (by simp [hy]))]

theorem toBytes_fromBytes (B : Nat) : ∀ (len : Nat) (mem : List Nat), mem.length = len * B →
    (∀ y ∈ mem, y < 256) → toBytes B (fromBytes B len mem) = mem
  | 0, mem, hl, _ => by
    have : mem = [] := List.eq_nil_of_length_eq_zero (by simpa using hl)
    simp [fromBytes, toBytes, this]
  | len + 1, mem, hl, hb => by
    have hl' : mem.length = len * B + B := by rw [hl, Nat.add_mul]; omega
    simp only [fromBytes, toBytes_cons]
    have h1 : (mem.take B).length = B := by simp; omega
    have e := encode_decode (mem.take B) (fun y hy => hb y (List.mem_of_mem_take hy))
    rw [h1] at e
    rw [e, toBytes_fromBytes B len (mem.drop B) (by simp; omega)
      (fun y hy => hb y (List.mem_of_mem_drop hy)), List.take_append_drop]

theorem fromBytes_get (B : Nat) : ∀ (len : Nat) (bs : List Nat) (j : Nat), j < len →
    (fromBytes B len bs)[j]? = some (decodeLE ((bs.drop (j * B)).take B))
  | 0, _, _, h => by omega
  | len + 1, bs, 0, _ => by simp [fromBytes]
  | len + 1, bs, j + 1, h => by
    simp only [fromBytes, List.getElem?_cons_succ]
    rw [fromBytes_get B len _ j (by omega), List.drop_drop]
    have : B + j * B = (j + 1) * B := by rw [Nat.add_mul]; omega
    rw [this]

theorem toBytes_chunk (B : Nat) : ∀ (ws : List Nat) (j : Nat) (h : j < ws.length),
    ((toBytes B ws).drop (j * B)).take B = encodeLE B ws[j]
  | [], _, h => by simp at h
  | x :: ws, 0, _ => by
    simp only [toBytes_cons, Nat.zero_mul, List.drop_zero, List.getElem_cons_zero]
    rw [List.take_left' (encodeLE_length B x)]
  | x :: ws, j + 1, h => by
    simp only [toBytes_cons, List.getElem_cons_succ]
    have : (j + 1) * B = (encodeLE B x).length + j * B := by rw [encodeLE_length, Nat.add_mul]; omega
    rw [this, List.drop_append, List.drop_of_length_le (by omega), List.nil_append]
    have e : (encodeLE B x).length + j * B - (encodeLE B x).length = j * B := by omega
    rw [e]
    exact toBytes_chunk B ws j (by simpa using h)

/-- byte `j` of the image is byte `j mod B` of word `j / B` -/
theorem toBytes_get (B : Nat) (hB : 0 < B) : ∀ (ws : List Nat) (j : Nat), j < ws.length * B →
    (toBytes B ws)[j]? = some (ws.getD (j / B) 0 / 256 ^ (j % B) % 256)
  | [], j, h => by simp at h
  | x :: ws, j, h => by
    rw [toBytes_cons]
    by_cases hj : j < B
    · rw [List.getElem?_append_left (by rw [encodeLE_length]; exact hj), encodeLE_get B x j hj,
        Nat.div_eq_of_lt hj, Nat.mod_eq_of_lt hj]
      simp
    · obtain ⟨k, rfl⟩ : ∃ k, j = k + B := ⟨j - B, by omega⟩
      rw [List.getElem?_append_right (by rw [encodeLE_length]; omega), encodeLE_length, Nat.add_sub_cancel]
      have hlt : k < ws.length * B := by
        simp only [List.length_cons, Nat.add_mul] at h; omega
      rw [toBytes_get B hB ws k hlt, Nat.add_div_right _ hB, Nat.add_mod_right]
      simp [List.getD]

/-! ### text -/

/-- the printed text regrouped element by element: `<term>, <digits>` … `<term> }` -/
def tailForm (term : List Char) : List Nat → List Char
  | [] => term ++ [' ', '}']
  | v :: vs => term ++ [',', ' '] ++ Nat.toDigits 10 v ++ tailForm term vs

theorem printLoop_false (term : List Char) : ∀ vs : List Nat,
    printLoop term false vs ++ (term ++ [' ', '}']) = tailForm term vs
  | [] => by simp [printLoop, tailForm]
  | v :: vs => by
    simp only [printLoop, tailForm, List.append_assoc]
    rw [← printLoop_false term vs]

theorem printChars_cons (w v : Nat) (vs : List Nat) :
    printChars w (v :: vs) = '{' :: ' ' :: (Nat.toDigits 10 v ++ tailForm (suffix w) vs) := by
  simp only [printChars, printLoop, List.append_assoc]
  rw [printLoop_false]
  rfl

theorem spanDigits_append : ∀ (ds : List Char) (c : Char) (rest : List Char),
    (∀ d ∈ ds, d.isDigit = true) → c.isDigit = false → spanDigits (ds ++ c :: rest) = (ds, c :: rest)
  | [], c, rest, _, hc => by simp [spanDigits, hc]
  | d :: ds, c, rest, h, hc => by
    have hd : d.isDigit = true := h d (by simp)
    simp only [List.cons_append, spanDigits, hd, if_true]
    rw [spanDigits_append ds c rest (fun x hx => h x (by simp [hx])) hc]

theorem stripPrefix_append : ∀ (pre s : List Char), stripPrefix pre (pre ++ s) = some s
  | [], s => by simp [stripPrefix]
  | a :: as, s => by simp [stripPrefix, stripPrefix_append as s]

theorem suffix_head (w : Nat) : ∃ t, suffix w = 'U' :: t := by
  unfold suffix; split
  · exact ⟨_, rfl⟩
  · split <;> exact ⟨_, rfl⟩

theorem tailForm_head (w : Nat) (vs : List Nat) : ∃ t, tailForm (suffix w) vs = 'U' :: t := by
  obtain ⟨t, ht⟩ := suffix_head w
  cases vs with
  | nil => exact ⟨t ++ [' ', '}'], by simp [tailForm, ht]⟩
  | cons v vs => exact ⟨t ++ [',', ' '] ++ Nat.toDigits 10 v ++ tailForm (suffix w) vs, by simp [tailForm, ht]⟩

theorem parseElems_print (w : Nat) : ∀ (vs : List Nat) (v fuel : Nat), vs.length < fuel →
    v < 2 ^ w → (∀ x ∈ vs, x < 2 ^ w) →
    parseElems w (suffix w) fuel (Nat.toDigits 10 v ++ tailForm (suffix w) vs) = some (v :: vs)
  | vs, v, 0, h, _, _ => by omega
  | vs, v, fuel + 1, hf, hv, hvs => by
    obtain ⟨t, ht⟩ := tailForm_head w vs
    have hsp : spanDigits (Nat.toDigits 10 v ++ tailForm (suffix w) vs) =
        (Nat.toDigits 10 v, tailForm (suffix w) vs) := by
      rw [ht]
      exact spanDigits_append _ 'U' t
        (fun d hd => Nat.isDigit_of_mem_toDigits (by decide) (by decide) hd) (by decide)
    have hne : (Nat.toDigits 10 v).isEmpty = false := by
      cases h : Nat.toDigits 10 v with
      | nil => exact absurd h Nat.toDigits_ne_nil
      | cons _ _ => rfl
    have hnot : ¬ (2 ^ w ≤ v) := by omega
    simp only [parseElems, hsp, hne, Nat.ofDigitChars_ten_toDigits, hnot, if_false, Bool.false_eq_true]
    cases vs with
    | nil =>
      simp only [tailForm, stripPrefix_append]
    | cons v' vs' =>
      simp only [tailForm, List.append_assoc, stripPrefix_append, List.cons_append, List.nil_append]
      rw [parseElems_print w vs' v' fuel (by simp at hf; omega) (hvs v' (by simp))
        (fun x hx => hvs x (by simp [hx]))]
      rfl

theorem tailForm_length (term : List Char) : ∀ vs : List Nat, vs.length < (tailForm term vs).length
  | [] => by simp [tailForm]
  | v :: vs => by
    have := tailForm_length term vs
    simp [tailForm]; omega

end Nfl.Serial
