/-
The LOOP STRUCTURE that `tools/gen_nttloop_ast.py` regenerates from clang's AST of `ops::ntt_loop<simd::serial>::run` (algos.hpp),
`poly::core::ntt` and `poly::core::inv_ntt` (core.hpp) — `Generated/NttLoopAst.lean`, index-level code on (array, offset)
pointers calling the generated straight-line blocks of `Generated/NttAst.lean` — computes the hand-written model
`Model/Ntt.lean` (`nttLoop`, `mapBlocks`, `layerBlock`, `fused4`, `nttWord`), for every degree `2^k`.

Method.  (1) `*_shape` (by `rfl`): each generated function is the generic text `runG` / `nttG` below applied to its blocks.
(2) invariants of the three loop nests, in block coordinates (`N*q + i`), with the blocks replaced by the model's functions on
`w`-bit words (`Wd`); (3) comparison with the pointwise description of the model (`Proofs/NttLoopModelPt.lean`).
-/
import NflVerif.Generated.NttLoopAst
import NflVerif.Proofs.NttAstEq
import NflVerif.Proofs.NttLoopModelPt
import NflVerif.Proofs.PermutAstEq

namespace Nfl.NttLoopAstEq
open Nfl Nfl.CSem Nfl.CSemLoop Nfl.NttLoopPt Nfl.NttAstEq

/-! ### loops and memory -/

theorem foldl_range_inv {σ : Type} (P : Nat → σ → Prop) (g : σ → Nat → σ) :
    ∀ (n : Nat) (st : σ), P 0 st → (∀ t st, t < n → P t st → P (t + 1) (g st t)) → P n ((List.range n).foldl g st) := by
  intro n
  induction n with
  | zero => intro st h0 _; simpa using h0
  | succ n ih =>
    intro st h0 hs
    rw [List.range_succ, List.foldl_append]
    simp only [List.foldl_cons, List.foldl_nil]
    exact hs n _ (Nat.lt_succ_self n) (ih st h0 (fun t st ht => hs t st (Nat.lt_succ_of_lt ht)))

theorem forRange_inv {σ : Type} (P : Nat → σ → Prop) (a b s : Nat) (body : Nat → σ → σ) (st : σ) (h0 : P 0 st)
    (hs : ∀ t st, t < tripCount a b s → P t st → P (t + 1) (body (a + s * t) st)) :
    P (tripCount a b s) (forRange a b s body st) :=
  foldl_range_inv P _ _ st h0 hs

theorem tripCount_one (b : Nat) : tripCount 0 b 1 = b := by simp [tripCount]
theorem tripCount_two (h : Nat) : tripCount 0 (2 * h) 2 = h := by unfold tripCount; omega

theorem rd_wr (m : List Nat) (i v j : Nat) : rd (wr m i v) j = if i = j ∧ i < m.length then v else rd m j := by
  unfold rd wr
  rw [List.getD_eq_getElem?_getD, List.getD_eq_getElem?_getD, List.getElem?_set]
  by_cases h : i = j
  · subst h
    by_cases h2 : i < m.length
    · simp [h2]
    · simp [h2, List.getElem?_eq_none (Nat.le_of_not_lt h2)]
  · simp [h]

@[simp] theorem length_wr (m : List Nat) (i v : Nat) : (wr m i v).length = m.length := by simp [wr]

theorem rd_append_left {x t : List Nat} {j : Nat} (h : j < x.length) : rd (x ++ t) j = rd x j := by
  unfold rd; rw [List.getD_eq_getElem?_getD, List.getD_eq_getElem?_getD, List.getElem?_append_left h]

theorem rd_append_right {x t : List Nat} {j : Nat} (h : x.length ≤ j) : rd (x ++ t) j = rd t (j - x.length) := by
  unfold rd; rw [List.getD_eq_getElem?_getD, List.getD_eq_getElem?_getD, List.getElem?_append_right h]

theorem ext_rd {a b : List Nat} (hl : a.length = b.length) (h : ∀ j, j < a.length → rd a j = rd b j) : a = b := by
  apply List.ext_getElem hl
  intro j h1 h2
  have := h j h1
  unfold rd at this
  rwa [List.getD_eq_getElem?_getD, List.getD_eq_getElem?_getD, List.getElem?_eq_getElem h1, List.getElem?_eq_getElem h2,
    Option.getD_some, Option.getD_some] at this

/-- every cell holds a `w`-bit word (also outside the array, where a read gives 0) -/
def Wd (w : Nat) (m : List Nat) : Prop := ∀ j, rd m j < 2 ^ w

theorem Wd_of_forall {w : Nat} {m : List Nat} (h : ∀ v ∈ m, v < 2 ^ w) : Wd w m := by
  intro j
  unfold rd
  rw [List.getD_eq_getElem?_getD]
  rcases hj : m[j]? with _ | v
  · simp [Nat.two_pow_pos]
  · simpa using h v (List.mem_of_getElem? hj)

/-! ### one butterfly, one block, one layer — with the block `body` of `Generated/NttAst.lean` abstract -/

section layer
variable (body : Nat → Nat → Nat → Nat → Nat → Nat × Nat) (w p : Nat) (wtab winvtab : List Nat)

/-- `body(&x[a0], &x[a1], &winvtab[ti], &wtab[ti])` -/
def bf (wo wo' : Nat) (x : List Nat) (a0 a1 ti : Nat) : List Nat :=
  wr (wr x a0 (body p (rd x a0) (rd x a1) (rd wtab (wo + ti)) (rd winvtab (wo' + ti))).1) a1
    (body p (rd x a0) (rd x a1) (rd wtab (wo + ti)) (rd winvtab (wo' + ti))).2

/-- the generated block is the model's butterfly on `w`-bit words -/
def BodyOK : Prop := ∀ u0 u1 wt wi, u0 < 2 ^ w → u1 < 2 ^ w → wt < 2 ^ w → wi < 2 ^ w →
  body p u0 u1 wt wi = (bflyLo w p u0 u1, bflyHi w p u0 u1 wt wi)

variable {body w p wtab winvtab}

theorem bf_spec (hb : BodyOK body w p) (hwt : Wd w wtab) (hwi : Wd w winvtab) {x : List Nat} (hx : Wd w x) {a0 a1 : Nat}
    (hne : a0 ≠ a1) (h0 : a0 < x.length) (h1 : a1 < x.length) (wo wo' ti : Nat) :
    (bf body p wtab winvtab wo wo' x a0 a1 ti).length = x.length ∧ Wd w (bf body p wtab winvtab wo wo' x a0 a1 ti) ∧
    ∀ j, rd (bf body p wtab winvtab wo wo' x a0 a1 ti) j =
      if j = a0 then bflyLo w p (rd x a0) (rd x a1)
      else if j = a1 then bflyHi w p (rd x a0) (rd x a1) (rd wtab (wo + ti)) (rd winvtab (wo' + ti)) else rd x j := by
  have e := hb _ _ _ _ (hx a0) (hx a1) (hwt (wo + ti)) (hwi (wo' + ti))
  have key : ∀ j, rd (bf body p wtab winvtab wo wo' x a0 a1 ti) j =
      if j = a0 then bflyLo w p (rd x a0) (rd x a1)
      else if j = a1 then bflyHi w p (rd x a0) (rd x a1) (rd wtab (wo + ti)) (rd winvtab (wo' + ti)) else rd x j := by
    intro j
    unfold bf
    rw [e, rd_wr, rd_wr, length_wr]
    by_cases c1 : a1 = j
    · have c0 : ¬ j = a0 := by omega
      rw [if_pos ⟨c1, h1⟩, if_neg c0, if_pos c1.symm]
    · have c1' : ¬ j = a1 := fun hh => c1 hh.symm
      rw [if_neg (fun hh => c1 hh.1)]
      by_cases c0 : a0 = j
      · rw [if_pos ⟨c0, h0⟩, if_pos c0.symm]
      · rw [if_neg (fun hh => c0 hh.1), if_neg (fun hh => c0 hh.symm), if_neg c1']
  refine ⟨by simp [bf], ?_, key⟩
  intro j
  rw [key]
  split
  · exact bflyLo_lt _ _ _ _
  · split
    · exact bflyHi_lt _ _ _ _ _ _
    · exact hx j

variable (body p wtab winvtab)

/-- the loop `for (i = 0; i < N/2; i += 2) { body(i+0); body(i+1); }` on block `r` (N = 2h, indices already exact) -/
def innerC (h wo wo' B : Nat) (x : List Nat) : List Nat :=
  forRange 0 h 2 (fun i x =>
    bf body p wtab winvtab wo wo' (bf body p wtab winvtab wo wo' x (B + i) (B + i + h) i) (B + i + 1) (B + i + 1 + h) (i + 1)) x

variable {body p wtab winvtab}

/-- invariant of the inner loop after `t` iterations (two butterflies each) on the block starting at `B` -/
def InnerInv (w p : Nat) (wtab winvtab : List Nat) (h' wo wo' B : Nat) (y : List Nat) (t : Nat) (z : List Nat) : Prop :=
  z.length = y.length ∧ Wd w z ∧
  (∀ i, i < 2 * h' → rd z (B + i) = if i < 2 * t then bflyLo w p (rd y (B + i)) (rd y (B + i + 2 * h')) else rd y (B + i)) ∧
  (∀ i, i < 2 * h' → rd z (B + 2 * h' + i) =
      if i < 2 * t then bflyHi w p (rd y (B + i)) (rd y (B + i + 2 * h')) (rd wtab (wo + i)) (rd winvtab (wo' + i))
      else rd y (B + 2 * h' + i)) ∧
  (∀ j, j < B ∨ B + 2 * (2 * h') ≤ j → rd z j = rd y j)

/-- block `[B, B + 2h)` of the memory after the inner loop, `h` even -/
theorem innerC_spec (hb : BodyOK body w p) (hwt : Wd w wtab) (hwi : Wd w winvtab) (h' wo wo' B : Nat) {y : List Nat}
    (hy : Wd w y) (hB : B + 2 * (2 * h') ≤ y.length) :
    (innerC body p wtab winvtab (2 * h') wo wo' B y).length = y.length ∧ Wd w (innerC body p wtab winvtab (2 * h') wo wo' B y) ∧
    (∀ i, i < 2 * h' → rd (innerC body p wtab winvtab (2 * h') wo wo' B y) (B + i) = bflyLo w p (rd y (B + i)) (rd y (B + i + 2 * h'))) ∧
    (∀ i, i < 2 * h' → rd (innerC body p wtab winvtab (2 * h') wo wo' B y) (B + 2 * h' + i) =
        bflyHi w p (rd y (B + i)) (rd y (B + i + 2 * h')) (rd wtab (wo + i)) (rd winvtab (wo' + i))) ∧
    (∀ j, j < B ∨ B + 2 * (2 * h') ≤ j → rd (innerC body p wtab winvtab (2 * h') wo wo' B y) j = rd y j) := by
  have hP : InnerInv w p wtab winvtab h' wo wo' B y (tripCount 0 (2 * h') 2) (innerC body p wtab winvtab (2 * h') wo wo' B y) := by
    unfold innerC
    apply forRange_inv (InnerInv w p wtab winvtab h' wo wo' B y)
    · refine ⟨rfl, hy, fun i _ => ?_, fun i _ => ?_, fun j _ => rfl⟩
      · rw [if_neg (by omega)]
      · rw [if_neg (by omega)]
    · intro t z ht ⟨zl, zw, zlo, zhi, zout⟩
      rw [tripCount_two] at ht
      simp only [Nat.zero_add]
      obtain ⟨l1, w1, r1⟩ := bf_spec hb hwt hwi zw (a0 := B + 2 * t) (a1 := B + 2 * t + 2 * h') (by omega) (by omega) (by omega)
        wo wo' (2 * t)
      obtain ⟨l2, w2, r2⟩ := bf_spec hb hwt hwi w1 (a0 := B + 2 * t + 1) (a1 := B + 2 * t + 1 + 2 * h') (by omega) (by omega)
        (by omega) wo wo' (2 * t + 1)
      have za0 : rd z (B + 2 * t) = rd y (B + 2 * t) := by rw [zlo (2 * t) (by omega), if_neg (by omega)]
      have za1 : rd z (B + 2 * t + 2 * h') = rd y (B + 2 * t + 2 * h') := by
        have := zhi (2 * t) (by omega)
        rw [if_neg (by omega), show B + 2 * h' + 2 * t = B + 2 * t + 2 * h' by omega] at this
        exact this
      have zb0 : rd z (B + 2 * t + 1) = rd y (B + 2 * t + 1) := by
        have := zlo (2 * t + 1) (by omega)
        rw [if_neg (by omega), show B + (2 * t + 1) = B + 2 * t + 1 by omega] at this
        exact this
      have zb1 : rd z (B + 2 * t + 1 + 2 * h') = rd y (B + 2 * t + 1 + 2 * h') := by
        have := zhi (2 * t + 1) (by omega)
        rw [if_neg (by omega), show B + 2 * h' + (2 * t + 1) = B + 2 * t + 1 + 2 * h' by omega] at this
        exact this
      have v0 : rd (bf body p wtab winvtab wo wo' z (B + 2 * t) (B + 2 * t + 2 * h') (2 * t)) (B + 2 * t + 1) = rd y (B + 2 * t + 1) := by
        rw [r1, if_neg (by omega), if_neg (by omega), zb0]
      have v1 : rd (bf body p wtab winvtab wo wo' z (B + 2 * t) (B + 2 * t + 2 * h') (2 * t)) (B + 2 * t + 1 + 2 * h') =
          rd y (B + 2 * t + 1 + 2 * h') := by
        rw [r1, if_neg (by omega), if_neg (by omega), zb1]
      rw [v0, v1] at r2
      simp only [r1, za0, za1] at r2
      refine ⟨by rw [l2, l1, zl], w2, ?_, ?_, ?_⟩
      · intro i hi
        rw [r2]
        by_cases c1 : i = 2 * t + 1
        · subst c1
          rw [if_pos (by omega), if_pos (by omega), show B + (2 * t + 1) = B + 2 * t + 1 by omega]
        · by_cases c0 : i = 2 * t
          · subst c0
            rw [if_neg (by omega), if_neg (by omega), if_pos rfl, if_pos (by omega)]
          · rw [if_neg (by omega), if_neg (by omega), if_neg (by omega), if_neg (by omega), zlo i hi]
            by_cases c : i < 2 * t
            · rw [if_pos c, if_pos (by omega)]
            · rw [if_neg c, if_neg (by omega)]
      · intro i hi
        rw [r2]
        by_cases c1 : i = 2 * t + 1
        · subst c1
          rw [if_neg (by omega), if_pos (by omega), if_pos (by omega), show B + (2 * t + 1) = B + 2 * t + 1 by omega]
        · by_cases c0 : i = 2 * t
          · subst c0
            rw [if_neg (by omega), if_neg (by omega), if_neg (by omega), if_pos (by omega), if_pos (by omega)]
          · rw [if_neg (by omega), if_neg (by omega), if_neg (by omega), if_neg (by omega), zhi i hi]
            by_cases c : i < 2 * t
            · rw [if_pos c, if_pos (by omega)]
            · rw [if_neg c, if_neg (by omega)]
      · intro j hj
        rw [r2, if_neg (by omega), if_neg (by omega), if_neg (by omega), if_neg (by omega)]
        exact zout j hj
  rw [tripCount_two] at hP
  obtain ⟨a, b, c, d, e⟩ := hP
  refine ⟨a, b, ?_, ?_, e⟩
  · intro i hi; rw [c i hi, if_pos (by omega)]
  · intro i hi; rw [d i hi, if_pos (by omega)]


variable (body p wtab winvtab)

/-- the loop `for (r = 0; r < M; r++)` over the blocks of one layer, `N = 2 * (2 * h')` words each -/
def layerC (h' M wo wo' : Nat) (x : List Nat) : List Nat :=
  forRange 0 M 1 (fun r x => innerC body p wtab winvtab (2 * h') wo wo' (2 * (2 * h') * r) x) x

variable {body p wtab winvtab}

def OuterInv (w p : Nat) (wtab winvtab : List Nat) (h' M wo wo' : Nat) (mem : List Nat) (r : Nat) (z : List Nat) : Prop :=
  z.length = mem.length ∧ Wd w z ∧
  (∀ q i, q < M → i < 2 * h' → rd z (2 * (2 * h') * q + i) =
      if q < r then bflyLo w p (rd mem (2 * (2 * h') * q + i)) (rd mem (2 * (2 * h') * q + i + 2 * h')) else rd mem (2 * (2 * h') * q + i)) ∧
  (∀ q i, q < M → i < 2 * h' → rd z (2 * (2 * h') * q + 2 * h' + i) =
      if q < r then bflyHi w p (rd mem (2 * (2 * h') * q + i)) (rd mem (2 * (2 * h') * q + i + 2 * h')) (rd wtab (wo + i)) (rd winvtab (wo' + i))
      else rd mem (2 * (2 * h') * q + 2 * h' + i)) ∧
  (∀ j, 2 * (2 * h') * M ≤ j → rd z j = rd mem j)

theorem layerC_spec (hb : BodyOK body w p) (hwt : Wd w wtab) (hwi : Wd w winvtab) (h' M wo wo' : Nat) {mem : List Nat}
    (hm : Wd w mem) (hl : 2 * (2 * h') * M ≤ mem.length) :
    OuterInv w p wtab winvtab h' M wo wo' mem M (layerC body p wtab winvtab h' M wo wo' mem) := by
  have h := forRange_inv (OuterInv w p wtab winvtab h' M wo wo' mem) 0 M 1
    (fun r x => innerC body p wtab winvtab (2 * h') wo wo' (2 * (2 * h') * r) x) mem
    ⟨rfl, hm, fun q i _ _ => by rw [if_neg (by omega)], fun q i _ _ => by rw [if_neg (by omega)], fun j _ => rfl⟩ ?_
  · rw [tripCount_one] at h; exact h
  · intro r z hr ⟨zl, zw, zlo, zhi, zout⟩
    rw [tripCount_one] at hr
    simp only [Nat.zero_add, Nat.one_mul]
    have hblk : 2 * (2 * h') * r + 2 * (2 * h') ≤ 2 * (2 * h') * M := by
      have := Nat.mul_le_mul_left (2 * (2 * h')) (show r + 1 ≤ M by omega)
      rw [Nat.mul_succ] at this; exact this
    obtain ⟨a, b, c, d, e⟩ := innerC_spec hb hwt hwi h' wo wo' (2 * (2 * h') * r) zw (by omega)
    have sep : ∀ q, q ≠ r → 2 * (2 * h') * q + 2 * (2 * h') ≤ 2 * (2 * h') * r ∨ 2 * (2 * h') * r + 2 * (2 * h') ≤ 2 * (2 * h') * q := by
      intro q hq
      rcases Nat.lt_or_gt_of_ne hq with h1 | h1
      · left
        have := Nat.mul_le_mul_left (2 * (2 * h')) (show q + 1 ≤ r by omega)
        rw [Nat.mul_succ] at this; exact this
      · right
        have := Nat.mul_le_mul_left (2 * (2 * h')) (show r + 1 ≤ q by omega)
        rw [Nat.mul_succ] at this; exact this
    refine ⟨by rw [a, zl], b, ?_, ?_, ?_⟩
    · intro q i hq hi
      by_cases hqr : q = r
      · subst hqr
        rw [c i hi, if_pos (by omega), zlo q i hq hi, if_neg (by omega)]
        have := zhi q i hq hi
        rw [if_neg (by omega), show 2 * (2 * h') * q + 2 * h' + i = 2 * (2 * h') * q + i + 2 * h' by omega] at this
        rw [this]
      · rw [e _ (by have := sep q hqr; omega), zlo q i hq hi]
        by_cases c' : q < r
        · rw [if_pos c', if_pos (by omega)]
        · rw [if_neg c', if_neg (by omega)]
    · intro q i hq hi
      by_cases hqr : q = r
      · subst hqr
        rw [d i hi, if_pos (by omega), zlo q i hq hi, if_neg (by omega)]
        have := zhi q i hq hi
        rw [if_neg (by omega), show 2 * (2 * h') * q + 2 * h' + i = 2 * (2 * h') * q + i + 2 * h' by omega] at this
        rw [this]
      · rw [e _ (by have := sep q hqr; omega), zhi q i hq hi]
        by_cases c' : q < r
        · rw [if_pos c', if_pos (by omega)]
        · rw [if_neg c', if_neg (by omega)]
    · intro j hj
      rw [e j (by omega), zout j hj]


/-- one layer of the index-level code = `mapBlocks … layerBlock` of the hand model (on the first `N * M` words) -/
theorem layerC_eq (hb : BodyOK body w p) (hwt : Wd w wtab) (hwi : Wd w winvtab) (h' M wo : Nat) {x t : List Nat}
    (hx : x.length = 2 * (2 * h') * M) (hh : 0 < h') (hxw : Wd w (x ++ t)) (hw : wo + 2 * h' ≤ wtab.length)
    (hw' : wo + 2 * h' ≤ winvtab.length) :
    layerC body p wtab winvtab h' M wo wo (x ++ t) =
      mapBlocks (2 * (2 * h')) (layerBlock w p ((wtab.drop wo).take (2 * h')) ((winvtab.drop wo).take (2 * h'))) M x ++ t := by
  obtain ⟨zl, _, zlo, zhi, zout⟩ := layerC_spec hb hwt hwi h' M wo wo hxw (by rw [List.length_append]; omega)
  obtain ⟨ml, mg⟩ := mapBlocks_layer_getD w p (2 * h') M wo wtab winvtab x (by omega) hx hw hw'
  apply ext_rd (by rw [zl, List.length_append, List.length_append, ml, hx])
  intro j _
  by_cases c : j < 2 * (2 * h') * M
  · rw [rd_append_left (by omega)]
    have e := mg j c
    unfold layerPt at e
    show _ = List.getD _ j 0
    rw [e]
    obtain ⟨q, r, hr, rfl⟩ : ∃ q r, r < 2 * (2 * h') ∧ j = 2 * (2 * h') * q + r :=
      ⟨j / (2 * (2 * h')), j % (2 * (2 * h')), Nat.mod_lt _ (by omega), (Nat.div_add_mod j _).symm⟩
    have hq : q < M := by
      apply Nat.lt_of_not_le
      intro hle
      have := Nat.mul_le_mul_left (2 * (2 * h')) hle
      omega
    have hblk : 2 * (2 * h') * q + 2 * (2 * h') ≤ 2 * (2 * h') * M := by
      have := Nat.mul_le_mul_left (2 * (2 * h')) (show q + 1 ≤ M by omega)
      rw [Nat.mul_succ] at this; exact this
    have rdx : ∀ i, i < x.length → rd (x ++ t) i = x.getD i 0 := fun i hi => rd_append_left hi
    rw [Nat.mul_add_mod, Nat.mod_eq_of_lt hr, show 2 * (2 * h') / 2 = 2 * h' by omega]
    by_cases cr : r < 2 * h'
    · rw [if_pos cr, zlo q r hq cr, if_pos hq, rdx _ (by omega), rdx _ (by omega)]
    · obtain ⟨i, rfl⟩ : ∃ i, r = 2 * h' + i := ⟨r - 2 * h', by omega⟩
      rw [if_neg cr, show 2 * (2 * h') * q + (2 * h' + i) = 2 * (2 * h') * q + 2 * h' + i by omega, zhi q i hq (by omega),
        if_pos hq, rdx _ (by omega), rdx _ (by omega)]
      simp only [rd]
      rw [show 2 * (2 * h') * q + 2 * h' + i - 2 * h' = 2 * (2 * h') * q + i by omega,
        show 2 * (2 * h') * q + i + 2 * h' = 2 * (2 * h') * q + 2 * h' + i by omega, show 2 * h' + i - 2 * h' = i by omega]
  · rw [zout j (by omega), rd_append_right (by omega), rd_append_right (by omega), ml, hx]

end layer

/-! ### the generic text of the generated functions (copied from `Generated/NttLoopAst.lean`, blocks abstracted) -/

set_option linter.unusedVariables false in
def layerStepG (body : Nat → Nat → Nat → Nat → Nat → Nat × Nat) (degree p x_o : Nat) (wtab winvtab : List Nat) :
    Nat → List Nat × Nat × Nat → List Nat × Nat × Nat :=
  fun w st =>
        let x := st.1
        let wtab_o := st.2.1
        let winvtab_o := st.2.2
        let M := CSem.castSU 64 (CSemLoop.shlS32v 1 w)
        let N := CSem.shrU 64 degree w
        let st := CSemLoop.forRange (CSem.castSU 64 0) M 1 (fun r st =>
              let x := st
              let st := CSemLoop.forRange (CSem.castSU 64 0) (CSem.divU 64 N (CSem.castSU 64 2)) 2 (fun i st =>
                    let x := st
                    let o := body p (CSemLoop.rd x (x_o + (CSem.addU 64 (CSem.addU 64 (CSem.mulU 64 N r) i) (CSem.castSU 64 0)) + 0)) (CSemLoop.rd x (x_o + (CSem.addU 64 (CSem.addU 64 (CSem.addU 64 (CSem.mulU 64 N r) i) (CSem.castSU 64 0)) (CSem.divU 64 N (CSem.castSU 64 2))) + 0)) (CSemLoop.rd wtab (wtab_o + (CSem.addU 64 i (CSem.castSU 64 0)) + 0)) (CSemLoop.rd winvtab (winvtab_o + (CSem.addU 64 i (CSem.castSU 64 0)) + 0))
                    let x := CSemLoop.wr x (x_o + (CSem.addU 64 (CSem.addU 64 (CSem.mulU 64 N r) i) (CSem.castSU 64 0)) + 0) o.1
                    let x := CSemLoop.wr x (x_o + (CSem.addU 64 (CSem.addU 64 (CSem.addU 64 (CSem.mulU 64 N r) i) (CSem.castSU 64 0)) (CSem.divU 64 N (CSem.castSU 64 2))) + 0) o.2
                    let o := body p (CSemLoop.rd x (x_o + (CSem.addU 64 (CSem.addU 64 (CSem.mulU 64 N r) i) (CSem.castSU 64 1)) + 0)) (CSemLoop.rd x (x_o + (CSem.addU 64 (CSem.addU 64 (CSem.addU 64 (CSem.mulU 64 N r) i) (CSem.castSU 64 1)) (CSem.divU 64 N (CSem.castSU 64 2))) + 0)) (CSemLoop.rd wtab (wtab_o + (CSem.addU 64 i (CSem.castSU 64 1)) + 0)) (CSemLoop.rd winvtab (winvtab_o + (CSem.addU 64 i (CSem.castSU 64 1)) + 0))
                    let x := CSemLoop.wr x (x_o + (CSem.addU 64 (CSem.addU 64 (CSem.mulU 64 N r) i) (CSem.castSU 64 1)) + 0) o.1
                    let x := CSemLoop.wr x (x_o + (CSem.addU 64 (CSem.addU 64 (CSem.addU 64 (CSem.mulU 64 N r) i) (CSem.castSU 64 1)) (CSem.divU 64 N (CSem.castSU 64 2))) + 0) o.2
                    x) x
              let x := st
              x) x
        let x := st
        let wtab_o := wtab_o + (CSem.divU 64 N (CSem.castSU 64 2))
        let winvtab_o := winvtab_o + (CSem.divU 64 N (CSem.castSU 64 2))
        (x, wtab_o, winvtab_o)

set_option linter.unusedVariables false in
def runG (body : Nat → Nat → Nat → Nat → Nat → Nat × Nat) (degree : Nat) (p : Nat) (x : List Nat) (x_o : Nat) (wtab : List Nat)
    (wtab_o : Nat) (winvtab : List Nat) (winvtab_o : Nat) : List Nat × Nat × Nat × Nat :=
  let J := CSem.subU 64 (Gen.NttLoop.static_log2 degree) (CSem.castSU 64 2)
  let st := CSemLoop.forRange (CSem.castSU 64 0) J 1 (layerStepG body degree p x_o wtab winvtab) (x, wtab_o, winvtab_o)
  (st.1, st.2.1, st.2.2, CSem.castSU 64 (CSemLoop.shlS32v 1 J))

set_option linter.unusedVariables false in
def last2StepG (last2 : Nat → Nat → Nat → Nat → Nat → Nat → Nat → Nat × Nat × Nat × Nat) (p : Nat) (wtab winvtab : List Nat)
    (wtab_o winvtab_o : Nat) : Nat → List Nat × Nat → List Nat × Nat :=
  fun r st =>
        let x := st.1
        let x_o := st.2
        let o := last2 p (CSemLoop.rd x (x_o + 0)) (CSemLoop.rd x (x_o + 1)) (CSemLoop.rd x (x_o + 2)) (CSemLoop.rd x (x_o + 3)) (CSemLoop.rd wtab (wtab_o + 1)) (CSemLoop.rd winvtab (winvtab_o + 1))
        let x := CSemLoop.wr x (x_o + 0) o.1
        let x := CSemLoop.wr x (x_o + 1) o.2.1
        let x := CSemLoop.wr x (x_o + 2) o.2.2.1
        let x := CSemLoop.wr x (x_o + 3) o.2.2.2
        let x_o := x_o + 4
        (x, x_o)

set_option linter.unusedVariables false in
def finalStepG (fin : Nat → Nat → Nat) (p x_orig_o : Nat) : Nat → List Nat → List Nat :=
  fun i st =>
        let x := st
        let o := fin p (CSemLoop.rd x (x_orig_o + i))
        let x := CSemLoop.wr x (x_orig_o + i) o
        x

set_option linter.unusedVariables false in
def nttG (run : Nat → Nat → List Nat → Nat → List Nat → Nat → List Nat → Nat → List Nat × Nat × Nat × Nat)
    (deg2 : Nat → Nat → Nat → Nat × Nat) (last2 : Nat → Nat → Nat → Nat → Nat → Nat → Nat → Nat × Nat × Nat × Nat)
    (fin : Nat → Nat → Nat) (degree : Nat) (p : Nat) (x : List Nat) (x_o : Nat) (wtab : List Nat) (wtab_o : Nat)
    (winvtab : List Nat) (winvtab_o : Nat) : List Nat :=
  let x_orig_o := x_o
  if CSem.eqU degree (CSem.castSU 64 1) then x
  else if CSem.eqU degree (CSem.castSU 64 2) then
    let o := deg2 p (CSemLoop.rd x (x_o + 0)) (CSemLoop.rd x (x_o + 1))
    let x := CSemLoop.wr x (x_o + 0) o.1
    let x := CSemLoop.wr x (x_o + 1) o.2
    x
  else
    let rr := run degree p x (x_o) wtab (wtab_o) winvtab (winvtab_o)
    let st := CSemLoop.forRange (CSem.castSU 64 0) rr.2.2.2 1 (last2StepG last2 p wtab winvtab rr.2.1 rr.2.2.1) (rr.1, x_o)
    CSemLoop.forRange (CSem.castSU 64 0) degree 1 (finalStepG fin p x_orig_o) st.1

set_option linter.unusedVariables false in
def invG (ntt : Nat → Nat → List Nat → Nat → List Nat → Nat → List Nat → Nat → List Nat) (degree : Nat) (p : Nat) (y : List Nat)
    (x : List Nat) (x_o : Nat) (inv_wtab : List Nat) (inv_wtab_o : Nat) (inv_winvtab : List Nat) (inv_winvtab_o : Nat) : List Nat :=
  if CSem.eqU degree (CSem.castSU 64 1) then x
  else
    let y := Gen.permut_compute degree y 0 x x_o
    let y := ntt degree p y 0 inv_wtab inv_wtab_o inv_winvtab inv_winvtab_o
    Gen.permut_compute degree x x_o y 0

/-! ### (1) the generated functions are the generic text applied to their blocks (`rfl`: any change of the source text that changes
the translated loop structure breaks these) -/

theorem run_u16_shape : Gen.ntt_loop_run_u16 = runG Gen.ntt_body_u16 := rfl
theorem run_u32_shape : Gen.ntt_loop_run_u32 = runG Gen.ntt_body_u32 := rfl
theorem run_u64_shape : Gen.ntt_loop_run_u64 = runG Gen.ntt_body_u64 := rfl
theorem ntt_u16_shape : Gen.ntt_u16 = nttG Gen.ntt_loop_run_u16 Gen.ntt_deg2_u16 Gen.ntt_last2_u16 Gen.ntt_final_u16 := rfl
theorem ntt_u32_shape : Gen.ntt_u32 = nttG Gen.ntt_loop_run_u32 Gen.ntt_deg2_u32 Gen.ntt_last2_u32 Gen.ntt_final_u32 := rfl
theorem ntt_u64_shape : Gen.ntt_u64 = nttG Gen.ntt_loop_run_u64 Gen.ntt_deg2_u64 Gen.ntt_last2_u64 Gen.ntt_final_u64 := rfl
theorem inv_ntt_u16_shape : (fun d (_invK : Nat) => Gen.inv_ntt_u16 d _invK) = fun d _ => invG Gen.ntt_u16 d := rfl
theorem inv_ntt_u32_shape : (fun d (_invK : Nat) => Gen.inv_ntt_u32 d _invK) = fun d _ => invG Gen.ntt_u32 d := rfl
theorem inv_ntt_u64_shape : (fun d (_invK : Nat) => Gen.inv_ntt_u64 d _invK) = fun d _ => invG Gen.ntt_u64 d := rfl

/-! ### (2) the size_t arithmetic of the generated layer is exact: one generated layer = `layerC` -/

theorem foldl_range_congr {σ : Type} (F G : σ → Nat → σ) :
    ∀ (n : Nat) (st : σ), (∀ t, t < n → ∀ st, F st t = G st t) → (List.range n).foldl F st = (List.range n).foldl G st := by
  intro n
  induction n with
  | zero => intro st _; rfl
  | succ n ih =>
    intro st h
    rw [List.range_succ, List.foldl_append, List.foldl_append, ih st (fun t ht => h t (Nat.lt_succ_of_lt ht))]
    simp only [List.foldl_cons, List.foldl_nil]
    exact h n (Nat.lt_succ_self n) _

theorem forRange_congr {σ : Type} (a b s : Nat) (f g : Nat → σ → σ) (st : σ)
    (h : ∀ t, t < tripCount a b s → ∀ st, f (a + s * t) st = g (a + s * t) st) : forRange a b s f st = forRange a b s g st :=
  foldl_range_congr _ _ _ st h

theorem c0 : castSU 64 0 = 0 := by decide
theorem c1 : castSU 64 1 = 1 := by decide
theorem c2 : castSU 64 2 = 2 := by decide
theorem addU64 {a b : Nat} (h : a + b < 2 ^ 64) : addU 64 a b = a + b := Nat.mod_eq_of_lt h
theorem mulU64 {a b : Nat} (h : a * b < 2 ^ 64) : mulU 64 a b = a * b := Nat.mod_eq_of_lt h
theorem divU64 {a : Nat} (b : Nat) (h : a < 2 ^ 64) : divU 64 a b = a / b :=
  Nat.mod_eq_of_lt (Nat.lt_of_le_of_lt (Nat.div_le_self a b) h)

theorem pow_le_32 {k : Nat} (hk : k ≤ 32) : 2 ^ k ≤ 2 ^ 32 := Nat.pow_le_pow_right (by omega) hk

/-- `1 << w` (an `int` shift) converted to `size_t`, for `w ≤ 30` -/
theorem shl_one {w0 : Nat} (h : w0 ≤ 30) : castSU 64 (shlS32v 1 w0) = 2 ^ w0 := by
  have h1 : 2 ^ w0 ≤ 2 ^ 30 := Nat.pow_le_pow_right (by omega) h
  unfold shlS32v castSU
  rw [Nat.one_mul, Nat.mod_eq_of_lt (by omega), Nat.mod_eq_of_lt (by omega), if_pos (by omega), Nat.mod_eq_of_lt (by omega)]

/-- `degree >> w` -/
theorem shr_pow {k w0 : Nat} (hk : k ≤ 32) (hw : w0 ≤ k) : shrU 64 (2 ^ k) w0 = 2 ^ (k - w0) := by
  have h1 := pow_le_32 hk
  unfold shrU
  rw [Nat.pow_div hw (by omega)]
  exact Nat.mod_eq_of_lt (by have := Nat.pow_le_pow_right (show 0 < 2 by omega) (show k - w0 ≤ 32 by omega); omega)

theorem pow_split {k w0 : Nat} (hw : w0 + 2 ≤ k) : 2 ^ (k - w0) = 2 * (2 * 2 ^ (k - w0 - 2)) := by
  obtain ⟨m, hm⟩ : ∃ m, k - w0 = m + 2 := ⟨k - w0 - 2, by omega⟩
  rw [hm, Nat.add_sub_cancel, Nat.pow_add]; omega

theorem pow_prod {k w0 : Nat} (hw : w0 ≤ k) : 2 ^ (k - w0) * 2 ^ w0 = 2 ^ k := by
  rw [← Nat.pow_add]; congr 1; omega

theorem layerStepG_eq (body : Nat → Nat → Nat → Nat → Nat → Nat × Nat) {k w0 : Nat} (hk : k ≤ 32) (hw : w0 + 3 ≤ k) (p : Nat)
    (wtab winvtab mem : List Nat) (wo wo' : Nat) :
    layerStepG body (2 ^ k) p 0 wtab winvtab w0 (mem, wo, wo') =
      (layerC body p wtab winvtab (2 ^ (k - w0 - 2)) (2 ^ w0) wo wo' mem, wo + 2 * 2 ^ (k - w0 - 2), wo' + 2 * 2 ^ (k - w0 - 2)) := by
  have hM := shl_one (show w0 ≤ 30 by omega)
  have hN : shrU 64 (2 ^ k) w0 = 2 * (2 * 2 ^ (k - w0 - 2)) := by rw [shr_pow hk (by omega), pow_split (by omega)]
  have h32 := pow_le_32 hk
  have hNM : 2 * (2 * 2 ^ (k - w0 - 2)) * 2 ^ w0 = 2 ^ k := by rw [← pow_split (by omega), pow_prod (by omega)]
  generalize 2 ^ (k - w0 - 2) = H at *
  have hD : divU 64 (2 * (2 * H)) 2 = 2 * H := by
    rw [divU64 _ (by have := Nat.le_mul_of_pos_right (2 * (2 * H)) (Nat.two_pow_pos w0); omega)]; omega
  simp only [layerStepG, hM, hN, c0, c1, c2, hD, Nat.zero_add, Nat.add_zero]
  refine Prod.ext ?_ rfl
  simp only
  unfold layerC
  apply forRange_congr
  intro r hr st
  rw [tripCount_one] at hr
  simp only [Nat.zero_add, Nat.one_mul]
  unfold innerC
  apply forRange_congr
  intro t ht st
  rw [tripCount_two] at ht
  simp only [Nat.zero_add]
  have hblk : 2 * (2 * H) * r + 2 * (2 * H) ≤ 2 * (2 * H) * 2 ^ w0 := by
    have := Nat.mul_le_mul_left (2 * (2 * H)) (show r + 1 ≤ 2 ^ w0 by omega)
    rw [Nat.mul_succ] at this; exact this
  have e0 : mulU 64 (2 * (2 * H)) r = 2 * (2 * H) * r := mulU64 (by omega)
  rw [e0]
  have e1 : addU 64 (2 * (2 * H) * r) (2 * t) = 2 * (2 * H) * r + 2 * t := addU64 (by omega)
  rw [e1]
  have e2 : addU 64 (2 * (2 * H) * r + 2 * t) 0 = 2 * (2 * H) * r + 2 * t := addU64 (by omega)
  have e3 : addU 64 (2 * (2 * H) * r + 2 * t) 1 = 2 * (2 * H) * r + 2 * t + 1 := addU64 (by omega)
  rw [e2, e3]
  have e4 : addU 64 (2 * (2 * H) * r + 2 * t) (2 * H) = 2 * (2 * H) * r + 2 * t + 2 * H := addU64 (by omega)
  have e5 : addU 64 (2 * (2 * H) * r + 2 * t + 1) (2 * H) = 2 * (2 * H) * r + 2 * t + 1 + 2 * H := addU64 (by omega)
  have e6 : addU 64 (2 * t) 0 = 2 * t := addU64 (by omega)
  have e7 : addU 64 (2 * t) 1 = 2 * t + 1 := addU64 (by omega)
  rw [e4, e5, e6, e7]
  rfl


/-! ### (3) all layers: the `w` loop of `ntt_loop::run` = `nttLoop` -/

section layers
variable {body : Nat → Nat → Nat → Nat → Nat → Nat × Nat} {w p : Nat} {wtab winvtab : List Nat}

theorem foldl_range_shift {σ : Type} (f : Nat → σ → σ) (w0 j : Nat) (st : σ) :
    (List.range (j + 1)).foldl (fun st t => f (w0 + t) st) st = (List.range j).foldl (fun st t => f (w0 + 1 + t) st) (f w0 st) := by
  rw [List.range_succ_eq_map, List.foldl_cons, List.foldl_map]
  simp only [Nat.add_zero, Nat.succ_eq_add_one]
  congr 1
  funext st t
  rw [Nat.add_assoc, Nat.add_comm 1 t]

theorem nttLoop_step (j N M : Nat) (wt wt' x : List Nat) :
    nttLoop w p (j + 1) N M wt wt' x =
      nttLoop w p j (N / 2) (2 * M) (wt.drop (N / 2)) (wt'.drop (N / 2))
        (mapBlocks N (layerBlock w p (wt.take (N / 2)) (wt'.take (N / 2))) M x) := rfl

theorem layers_eq (hb : BodyOK body w p) (hwt : Wd w wtab) (hwi : Wd w winvtab) {k : Nat} (hk : k ≤ 32) (t : List Nat) :
    ∀ (j w0 : Nat) (x : List Nat) (wo : Nat), w0 + j + 2 = k → x.length = 2 ^ k → Wd w (x ++ t) →
      wo + 2 ^ (k - w0) ≤ wtab.length + 4 → wo + 2 ^ (k - w0) ≤ winvtab.length + 4 →
      (List.range j).foldl (fun st i => layerStepG body (2 ^ k) p 0 wtab winvtab (w0 + i) st) (x ++ t, wo, wo) =
        ((nttLoop w p j (2 ^ (k - w0)) (2 ^ w0) (wtab.drop wo) (winvtab.drop wo) x).1 ++ t,
          wo + (2 ^ (k - w0) - 4), wo + (2 ^ (k - w0) - 4)) ∧
      (nttLoop w p j (2 ^ (k - w0)) (2 ^ w0) (wtab.drop wo) (winvtab.drop wo) x).2.1 = wtab.drop (wo + (2 ^ (k - w0) - 4)) ∧
      (nttLoop w p j (2 ^ (k - w0)) (2 ^ w0) (wtab.drop wo) (winvtab.drop wo) x).2.2 = winvtab.drop (wo + (2 ^ (k - w0) - 4)) ∧
      (nttLoop w p j (2 ^ (k - w0)) (2 ^ w0) (wtab.drop wo) (winvtab.drop wo) x).1.length = 2 ^ k ∧
      Wd w ((nttLoop w p j (2 ^ (k - w0)) (2 ^ w0) (wtab.drop wo) (winvtab.drop wo) x).1 ++ t) := by
  intro j
  induction j with
  | zero =>
    intro w0 x wo hj hx hxw _ _
    have : k - w0 = 2 := by omega
    rw [this]
    exact ⟨rfl, rfl, rfl, hx, hxw⟩
  | succ j ih =>
    intro w0 x wo hj hx hxw hl hl'
    have hsplit : 2 ^ (k - w0) = 2 * (2 * 2 ^ (k - w0 - 2)) := pow_split (by omega)
    have hhalf : 2 ^ (k - (w0 + 1)) = 2 * 2 ^ (k - w0 - 2) := by
      obtain ⟨m, hm⟩ : ∃ m, k - w0 = m + 2 := ⟨k - w0 - 2, by omega⟩
      rw [show k - (w0 + 1) = m + 1 by omega, hm, Nat.add_sub_cancel, Nat.pow_succ]; omega
    have hH : 2 ≤ 2 ^ (k - w0 - 2) := by
      have := Nat.pow_le_pow_right (show 0 < 2 by omega) (show 1 ≤ k - w0 - 2 by omega); omega
    have hprod : 2 * (2 * 2 ^ (k - w0 - 2)) * 2 ^ w0 = 2 ^ k := by rw [← hsplit, pow_prod (by omega)]
    rw [foldl_range_shift (fun i st => layerStepG body (2 ^ k) p 0 wtab winvtab i st), layerStepG_eq body hk (by omega),
      nttLoop_step, hsplit, show 2 * (2 * 2 ^ (k - w0 - 2)) / 2 = 2 * 2 ^ (k - w0 - 2) by omega]
    have hx' : x.length = 2 * (2 * 2 ^ (k - w0 - 2)) * 2 ^ w0 := by rw [hprod, hx]
    have e := layerC_eq hb hwt hwi (2 ^ (k - w0 - 2)) (2 ^ w0) wo hx' (by omega) hxw (by omega) (by omega)
    have wd1 := (layerC_spec hb hwt hwi (2 ^ (k - w0 - 2)) (2 ^ w0) wo wo hxw (by rw [List.length_append]; omega)).2.1
    rw [e] at wd1 ⊢
    have l1 := (mapBlocks_layer_getD w p (2 * 2 ^ (k - w0 - 2)) (2 ^ w0) wo wtab winvtab x (by omega) hx' (by omega) (by omega)).1
    rw [hprod] at l1
    have := ih (w0 + 1) _ (wo + 2 * 2 ^ (k - w0 - 2)) (by omega) l1 wd1 (by rw [hhalf]; omega) (by rw [hhalf]; omega)
    rw [hhalf, List.drop_drop, List.drop_drop, Nat.pow_succ, Nat.mul_comm (2 ^ w0) 2] at *
    have eo : wo + 2 * 2 ^ (k - w0 - 2) + (2 * 2 ^ (k - w0 - 2) - 4) = wo + (2 * (2 * 2 ^ (k - w0 - 2)) - 4) := by omega
    rw [eo] at this
    exact this

end layers

/-! ### (4) the last-two-layers loop and the NTT_STRICTMOD loop of `core::ntt` -/

section tail
variable {last2 : Nat → Nat → Nat → Nat → Nat → Nat → Nat → Nat × Nat × Nat × Nat} {fin : Nat → Nat → Nat} {w p : Nat}
  {wtab winvtab : List Nat}

def Last2OK (last2 : Nat → Nat → Nat → Nat → Nat → Nat → Nat → Nat × Nat × Nat × Nat) (w p : Nat) : Prop :=
  ∀ u0 u1 u2 u3 w1 wi1, u0 < 2 ^ w → u1 < 2 ^ w → u2 < 2 ^ w → u3 < 2 ^ w → w1 < 2 ^ w → wi1 < 2 ^ w →
    last2 p u0 u1 u2 u3 w1 wi1 = fused4Tuple w p w1 wi1 u0 u1 u2 u3

def FinOK (fin : Nat → Nat → Nat) (w p : Nat) : Prop := ∀ x, x < 2 ^ w → fin p x = strictRed p x

theorem fusedPt_lt (w1 wi1 : Nat) (f : Nat → Nat) (j : Nat) : fusedPt w p w1 wi1 f j < 2 ^ w := by
  unfold fusedPt
  rw [fused4_eq_tuple]
  unfold fused4Tuple
  have h : j % 4 = 0 ∨ j % 4 = 1 ∨ j % 4 = 2 ∨ j % 4 = 3 := by omega
  rcases h with h | h | h | h <;> rw [h]
  · exact bflyLo_lt _ _ _ _
  · exact subLazy_lt _ _ _ _
  · exact bflyLo_lt _ _ _ _
  · exact subLazy_lt _ _ _ _

theorem fusedPt_congr (w1 wi1 : Nat) (f g : Nat → Nat) (j n : Nat) (hj : j < 4 * n) (h : ∀ i, i < 4 * n → f i = g i) :
    fusedPt w p w1 wi1 f j = fusedPt w p w1 wi1 g j := by
  unfold fusedPt
  rw [h _ (by omega), h _ (by omega), h _ (by omega), h _ (by omega)]

theorem last2_loop_eq (hl : Last2OK last2 w p) (hwt : Wd w wtab) (hwi : Wd w winvtab) (M wo wo' : Nat) {y t : List Nat}
    (hy : y.length = 4 * M) (hw : Wd w (y ++ t)) :
    forRange (castSU 64 0) M 1 (last2StepG last2 p wtab winvtab wo wo') (y ++ t, 0) =
      (mapBlocks 4 (fused4 w p (rd wtab (wo + 1)) (rd winvtab (wo' + 1))) M y ++ t, 4 * M) ∧
    Wd w (mapBlocks 4 (fused4 w p (rd wtab (wo + 1)) (rd winvtab (wo' + 1))) M y ++ t) := by
  let P : Nat → List Nat × Nat → Prop := fun r st =>
    st.2 = 4 * r ∧ st.1.length = (y ++ t).length ∧ Wd w st.1 ∧
    ∀ j, rd st.1 j = if j < 4 * r then fusedPt w p (rd wtab (wo + 1)) (rd winvtab (wo' + 1)) (rd (y ++ t)) j else rd (y ++ t) j
  have hP : P (tripCount 0 M 1) (forRange 0 M 1 (last2StepG last2 p wtab winvtab wo wo') (y ++ t, 0)) := by
    apply forRange_inv P
    · exact ⟨rfl, rfl, hw, fun j => by rw [if_neg (by omega)]⟩
    · intro r st hr ⟨s2, sl, sw, sv⟩
      rw [tripCount_one] at hr
      obtain ⟨z, zo⟩ := st
      simp only at s2 sl sw sv
      subst s2
      have hlen : 4 * r + 4 ≤ z.length := by rw [sl, List.length_append]; omega
      have v : ∀ i, i < 4 → rd z (4 * r + i) = rd (y ++ t) (4 * r + i) := fun i hi => by rw [sv, if_neg (by omega)]
      have e := hl _ _ _ _ _ _ (sw (4 * r + 0)) (sw (4 * r + 1)) (sw (4 * r + 2)) (sw (4 * r + 3)) (hwt (wo + 1)) (hwi (wo' + 1))
      simp only [last2StepG, e, Nat.zero_add, Nat.one_mul]
      have vals : ∀ j, rd (wr (wr (wr (wr z (4 * r + 0) (fused4Tuple w p (rd wtab (wo + 1)) (rd winvtab (wo' + 1)) (rd z (4 * r + 0))
          (rd z (4 * r + 1)) (rd z (4 * r + 2)) (rd z (4 * r + 3))).1) (4 * r + 1) (fused4Tuple w p (rd wtab (wo + 1)) (rd winvtab (wo' + 1))
          (rd z (4 * r + 0)) (rd z (4 * r + 1)) (rd z (4 * r + 2)) (rd z (4 * r + 3))).2.1) (4 * r + 2) (fused4Tuple w p (rd wtab (wo + 1))
          (rd winvtab (wo' + 1)) (rd z (4 * r + 0)) (rd z (4 * r + 1)) (rd z (4 * r + 2)) (rd z (4 * r + 3))).2.2.1) (4 * r + 3)
          (fused4Tuple w p (rd wtab (wo + 1)) (rd winvtab (wo' + 1)) (rd z (4 * r + 0)) (rd z (4 * r + 1)) (rd z (4 * r + 2))
          (rd z (4 * r + 3))).2.2.2) j =
          if j < 4 * (r + 1) then fusedPt w p (rd wtab (wo + 1)) (rd winvtab (wo' + 1)) (rd (y ++ t)) j else rd (y ++ t) j := by
        intro j
        simp only [rd_wr, length_wr]
        by_cases c3 : 4 * r + 3 = j
        · subst c3
          rw [if_pos ⟨rfl, by omega⟩, if_pos (by omega)]
          unfold fusedPt
          rw [show (4 * r + 3) % 4 = 3 by omega, show 4 * r + 3 - 3 = 4 * r by omega, fused4_eq_tuple, v 0 (by omega), v 1 (by omega),
            v 2 (by omega), v 3 (by omega)]
          rfl
        · rw [if_neg (fun h => c3 h.1)]
          by_cases c2 : 4 * r + 2 = j
          · subst c2
            rw [if_pos ⟨rfl, by omega⟩, if_pos (by omega)]
            unfold fusedPt
            rw [show (4 * r + 2) % 4 = 2 by omega, show 4 * r + 2 - 2 = 4 * r by omega, fused4_eq_tuple, v 0 (by omega),
              v 1 (by omega), v 2 (by omega), v 3 (by omega)]
            rfl
          · rw [if_neg (fun h => c2 h.1)]
            by_cases c1 : 4 * r + 1 = j
            · subst c1
              rw [if_pos ⟨rfl, by omega⟩, if_pos (by omega)]
              unfold fusedPt
              rw [show (4 * r + 1) % 4 = 1 by omega, show 4 * r + 1 - 1 = 4 * r by omega, fused4_eq_tuple, v 0 (by omega),
                v 1 (by omega), v 2 (by omega), v 3 (by omega)]
              rfl
            · rw [if_neg (fun h => c1 h.1)]
              by_cases c0 : 4 * r + 0 = j
              · subst c0
                rw [if_pos ⟨rfl, by omega⟩, if_pos (by omega)]
                unfold fusedPt
                rw [show (4 * r + 0) % 4 = 0 by omega, show 4 * r + 0 - 0 = 4 * r + 0 by omega, fused4_eq_tuple, v 0 (by omega),
                  v 1 (by omega), v 2 (by omega), v 3 (by omega)]
                rfl
              · rw [if_neg (fun h => c0 h.1), sv j]
                by_cases c : j < 4 * r
                · rw [if_pos c, if_pos (by omega)]
                · rw [if_neg c, if_neg (by omega)]
      exact ⟨by omega, by simp [sl], fun j => by rw [vals j]; split; exact fusedPt_lt _ _ _ _; exact hw j, vals⟩
  rw [tripCount_one] at hP
  obtain ⟨p2, pl, pw, pv⟩ := hP
  obtain ⟨ml, mg⟩ := mapBlocks_fused_getD w p (rd wtab (wo + 1)) (rd winvtab (wo' + 1)) M y hy
  have key : (forRange 0 M 1 (last2StepG last2 p wtab winvtab wo wo') (y ++ t, 0)).1 =
      mapBlocks 4 (fused4 w p (rd wtab (wo + 1)) (rd winvtab (wo' + 1))) M y ++ t := by
    apply ext_rd (by rw [pl, List.length_append, List.length_append, ml, hy])
    intro j _
    rw [pv j]
    by_cases c : j < 4 * M
    · rw [if_pos c, rd_append_left (by omega)]
      show _ = List.getD _ j 0
      rw [mg j c]
      exact fusedPt_congr _ _ _ _ j M c (fun i hi => rd_append_left (by omega))
    · rw [if_neg c, rd_append_right (by omega), rd_append_right (by omega), ml, hy]
  rw [c0]
  refine ⟨Prod.ext key p2, ?_⟩
  rw [← key]; exact pw

theorem final_loop_eq (hf : FinOK fin w p) (n : Nat) {y t : List Nat} (hy : y.length = n) (hw : Wd w (y ++ t)) :
    forRange (castSU 64 0) n 1 (finalStepG fin p 0) (y ++ t) = y.map (strictRed p) ++ t := by
  let P : Nat → List Nat → Prop := fun i z =>
    z.length = (y ++ t).length ∧ ∀ j, rd z j = if j < i then strictRed p (rd (y ++ t) j) else rd (y ++ t) j
  have hP : P (tripCount 0 n 1) (forRange 0 n 1 (finalStepG fin p 0) (y ++ t)) := by
    apply forRange_inv P
    · exact ⟨rfl, fun j => by rw [if_neg (by omega)]⟩
    · intro i z hi ⟨zl, zv⟩
      rw [tripCount_one] at hi
      have hz : rd z i = rd (y ++ t) i := by rw [zv, if_neg (by omega)]
      simp only [finalStepG, Nat.zero_add, Nat.one_mul, hz, hf _ (hw i)]
      refine ⟨by simp [zl], ?_⟩
      intro j
      rw [rd_wr]
      by_cases c : i = j
      · subst c
        rw [if_pos ⟨rfl, by rw [zl, List.length_append]; omega⟩, if_pos (by omega)]
      · rw [if_neg (fun h => c h.1), zv]
        by_cases c' : j < i
        · rw [if_pos c', if_pos (by omega)]
        · rw [if_neg c', if_neg (by omega)]
  rw [tripCount_one] at hP
  obtain ⟨pl, pv⟩ := hP
  rw [c0]
  apply ext_rd (by rw [pl]; simp)
  intro j _
  rw [pv]
  by_cases c : j < n
  · rw [if_pos c, rd_append_left (by omega), rd_append_left (by rw [List.length_map]; omega)]
    unfold rd
    rw [List.getD_eq_getElem?_getD, List.getD_eq_getElem?_getD, List.getElem?_map, List.getElem?_eq_getElem (by omega)]
    rfl
  · rw [if_neg c, rd_append_right (by omega), rd_append_right (by rw [List.length_map]; omega), List.length_map]

end tail

/-! ### (5) `core::ntt` and `core::inv_ntt` -/

section whole
variable {body : Nat → Nat → Nat → Nat → Nat → Nat × Nat} {deg2 : Nat → Nat → Nat → Nat × Nat}
  {last2 : Nat → Nat → Nat → Nat → Nat → Nat → Nat → Nat × Nat × Nat × Nat} {fin : Nat → Nat → Nat} {w p : Nat}
  {wtab winvtab : List Nat}

def Deg2OK (deg2 : Nat → Nat → Nat → Nat × Nat) (w p : Nat) : Prop :=
  ∀ u0 u1, u0 < 2 ^ w → u1 < 2 ^ w → deg2 p u0 u1 = (strictRed p (bflyLo w p u0 u1), strictRed p (subLazy w p u0 u1))

/-- `static_log2<2^k>::value = k` (the translated recursion of meta.hpp), for the degrees in range -/
theorem log2_pow : ∀ k, k ≤ 32 → Gen.NttLoop.static_log2 (2 ^ k) = k := by decide

theorem nttWord_two' (k' : Nat) (wt wt' x : List Nat) :
    nttWord w p (k' + 2) wt wt' x =
      (mapBlocks 4 (fused4 w p ((nttLoop w p k' (2 ^ (k' + 2)) 1 wt wt' x).2.1.getD 1 0)
        ((nttLoop w p k' (2 ^ (k' + 2)) 1 wt wt' x).2.2.getD 1 0)) (2 ^ k') (nttLoop w p k' (2 ^ (k' + 2)) 1 wt wt' x).1).map
        (strictRed p) := rfl

theorem getD_drop_one (l : List Nat) (n : Nat) : (l.drop n).getD 1 0 = rd l (n + 1) := by
  unfold rd
  rw [List.getD_eq_getElem?_getD, List.getD_eq_getElem?_getD, List.getElem?_drop]

theorem nttG_eq (hb : BodyOK body w p) (hd : Deg2OK deg2 w p) (hl : Last2OK last2 w p) (hf : FinOK fin w p) (hwt : Wd w wtab)
    (hwi : Wd w winvtab) {k : Nat} (hk : k ≤ 32) {x t : List Nat} (hx : x.length = 2 ^ k) (hxw : Wd w (x ++ t))
    (hlw : 2 ^ k ≤ wtab.length + 4) (hlw' : 2 ^ k ≤ winvtab.length + 4) :
    nttG (runG body) deg2 last2 fin (2 ^ k) p (x ++ t) 0 wtab 0 winvtab 0 = nttWord w p k wtab winvtab x ++ t ∧
    (nttWord w p k wtab winvtab x).length = 2 ^ k := by
  rcases k with _ | _ | k'
  · exact ⟨rfl, hx⟩
  · match x, hx, hxw with
    | [u0, u1], _, hxw =>
      have h0 : u0 < 2 ^ w := hxw 0
      have h1 : u1 < 2 ^ w := hxw 1
      have e := hd u0 u1 h0 h1
      refine ⟨?_, rfl⟩
      have hs : nttG (runG body) deg2 last2 fin (2 ^ (0 + 1)) p ([u0, u1] ++ t) 0 wtab 0 winvtab 0 =
          wr (wr ([u0, u1] ++ t) 0 (deg2 p u0 u1).1) 1 (deg2 p u0 u1).2 := rfl
      rw [hs, e]
      rfl
  · have h4 : 4 ≤ 2 ^ (k' + 2) := by rw [Nat.pow_add]; have := Nat.two_pow_pos k'; omega
    have h32 := pow_le_32 hk
    have hJ : subU 64 (Gen.NttLoop.static_log2 (2 ^ (k' + 2))) (castSU 64 2) = k' := by
      rw [log2_pow _ hk, c2]; unfold subU; omega
    have e1 : eqU (2 ^ (k' + 2)) (castSU 64 1) = false := by rw [c1]; unfold eqU; exact decide_eq_false (by omega)
    have e2 : eqU (2 ^ (k' + 2)) (castSU 64 2) = false := by rw [c2]; unfold eqU; exact decide_eq_false (by omega)
    obtain ⟨L1, L2, L3, L4, L5⟩ := layers_eq hb hwt hwi hk t k' 0 x 0 (by omega) hx hxw (by simpa using hlw) (by simpa using hlw')
    simp only [Nat.sub_zero, Nat.pow_zero, List.drop_zero, Nat.zero_add] at L1 L2 L3 L4 L5
    have hrun : runG body (2 ^ (k' + 2)) p (x ++ t) 0 wtab 0 winvtab 0 =
        ((nttLoop w p k' (2 ^ (k' + 2)) 1 wtab winvtab x).1 ++ t, 2 ^ (k' + 2) - 4, 2 ^ (k' + 2) - 4, 2 ^ k') := by
      unfold runG
      simp only [hJ, shl_one (show k' ≤ 30 by omega), c0]
      have : forRange 0 k' 1 (layerStepG body (2 ^ (k' + 2)) p 0 wtab winvtab) (x ++ t, 0, 0) =
          (List.range k').foldl (fun st i => layerStepG body (2 ^ (k' + 2)) p 0 wtab winvtab i st) (x ++ t, 0, 0) := by
        unfold forRange
        rw [tripCount_one]
        simp only [Nat.one_mul, Nat.zero_add]
      rw [this, L1]
    have hlen4 : (nttLoop w p k' (2 ^ (k' + 2)) 1 wtab winvtab x).1.length = 4 * 2 ^ k' := by rw [L4, Nat.pow_add]; omega
    obtain ⟨F1, F2⟩ := last2_loop_eq hl hwt hwi (2 ^ k') (2 ^ (k' + 2) - 4) (2 ^ (k' + 2) - 4) hlen4 L5
    have ml := (mapBlocks_fused_getD w p (rd wtab (2 ^ (k' + 2) - 4 + 1)) (rd winvtab (2 ^ (k' + 2) - 4 + 1)) (2 ^ k') _ hlen4).1
    have hml : 4 * 2 ^ k' = 2 ^ (k' + 2) := by rw [Nat.pow_add]; omega
    rw [nttWord_two', L2, L3, getD_drop_one, getD_drop_one]
    refine ⟨?_, by rw [List.length_map, ml, hml]⟩
    unfold nttG
    simp only [e1, e2, Bool.false_eq_true, ↓reduceIte, hrun, F1]
    exact final_loop_eq hf (2 ^ (k' + 2)) (by rw [ml, hml]) F2

theorem Wd_permutW (k : Nat) {x : List Nat} (hx : Wd w x) : ∀ v ∈ permutW k x, v < 2 ^ w := by
  intro v hv
  unfold permutW at hv
  simp only [List.mem_map, List.mem_range] at hv
  obtain ⟨i, _, rfl⟩ := hv
  have := hx (bitrevCode k i)
  unfold rd at this
  simpa [List.getD_eq_getElem?_getD] using this

theorem Wd_append {a b : List Nat} (ha : ∀ v ∈ a, v < 2 ^ w) (hb : ∀ v ∈ b, v < 2 ^ w) : Wd w (a ++ b) :=
  Wd_of_forall (fun v hv => by rcases List.mem_append.mp hv with h | h; exact ha v h; exact hb v h)

/-- `core::inv_ntt`: the local array `y` (`yinit`: its uninitialised contents, at least `degree` cells) does not matter -/
theorem invG_eq (hb : BodyOK body w p) (hd : Deg2OK deg2 w p) (hl : Last2OK last2 w p) (hf : FinOK fin w p) (hwt : Wd w wtab)
    (hwi : Wd w winvtab) {k : Nat} (hk : k ≤ 15) {x yinit : List Nat} (hx : x.length = 2 ^ k) (hxw : ∀ v ∈ x, v < 2 ^ w)
    (hy : 2 ^ k ≤ yinit.length) (hyw : ∀ v ∈ yinit, v < 2 ^ w) (hlw : 2 ^ k ≤ wtab.length + 4) (hlw' : 2 ^ k ≤ winvtab.length + 4) :
    invG (nttG (runG body) deg2 last2 fin) (2 ^ k) p yinit x 0 wtab 0 winvtab 0 = invNttWord w p k wtab winvtab x := by
  rcases k with _ | k'
  · rfl
  · have e1 : eqU (2 ^ (k' + 1)) (castSU 64 1) = false := by
      rw [c1]; unfold eqU; exact decide_eq_false (by have := Nat.two_pow_pos k'; rw [Nat.pow_succ]; omega)
    have hpl : (permutW (k' + 1) x).length = 2 ^ (k' + 1) := by simp [permutW]
    have hwd : Wd w (permutW (k' + 1) x ++ yinit.drop (2 ^ (k' + 1))) :=
      Wd_append (Wd_permutW _ (Wd_of_forall hxw)) (fun v hv => hyw v (List.mem_of_mem_drop hv))
    obtain ⟨N1, N2⟩ := nttG_eq hb hd hl hf hwt hwi (show k' + 1 ≤ 32 by omega) hpl hwd hlw hlw'
    unfold invG
    simp only [e1, Bool.false_eq_true, ↓reduceIte]
    rw [PermutAstEq.permut_compute_eq' (k' + 1) hk yinit x hy, N1,
      PermutAstEq.permut_compute_eq (k' + 1) hk x _ (by omega), List.take_left' N2, List.drop_eq_nil_of_le (by omega),
      List.append_nil]
    unfold invNttWord
    rw [if_neg (by omega)]

end whole

end Nfl.NttLoopAstEq
