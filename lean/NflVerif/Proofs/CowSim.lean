/-
C14 — simulation: every well-formed statement executed on the shared-handle model is matched by the
same statement on plain values (`abs (step s op) = stepV (abs s) op`), preserves the heap invariant and
has no undefined behaviour.  Core Lean only.
-/
import NflVerif.Proofs.CowInv
namespace Nfl.Cow

theorem abs_getElem? (s : State) (i : Nat) : (abs s)[i]? = (s.hs[i]?).map (absH s.heap) := by
  simp [abs]

theorem abs_length (s : State) : (abs s).length = s.hs.length := by simp [abs]

theorem set_eq_self {α} {l : List α} {d : Nat} {x : α} (h : l[d]? = some x) : l.set d x = l := by
  apply List.ext_getElem?
  intro i
  by_cases hi : d = i
  · subst hi
    obtain ⟨hlt, hx⟩ := List.getElem?_eq_some_iff.mp h
    simp [hlt, hx]
  · simp [hi]

/-- only handle `d` changes; what every other handle sees is unchanged -/
theorem abs_set_frame {s s' : State} {d : Nat} {h' : Handle} (hhs : s'.hs = s.hs.set d h')
    (hframe : ∀ i h, i ≠ d → s.hs[i]? = some h → absH s'.heap h = absH s.heap h) :
    abs s' = (abs s).set d (absH s'.heap h') := by
  apply List.ext_getElem?
  intro i
  simp only [abs, hhs, List.getElem?_map, List.getElem?_set, List.length_map]
  by_cases hi : d = i
  · subst hi
    by_cases hlt : d < s.hs.length <;> simp [hlt]
  · simp only [hi, if_false]
    cases hget : s.hs[i]? with
    | none => simp
    | some h => simp [hframe i h (Ne.symm hi) hget]

theorem abs_setH (s : State) (d : Nat) (t : Handle) : abs (setH s d t) = (abs s).set d (absH s.heap t) := by
  simp [abs, setH, List.map_set]

theorem abs_same_hs {s s' : State} (hhs : s'.hs = s.hs)
    (hframe : ∀ h, h ∈ s.hs → absH s'.heap h = absH s.heap h) : abs s' = abs s := by
  simp only [abs, hhs]
  exact List.map_congr_left hframe

theorem incr_abs {s s' : State} {p : Nat} (h : incr s p = some s') : abs s' = abs s := by
  unfold incr at h
  cases hp : s.heap p with
  | none => simp [hp] at h
  | some c =>
    simp [hp] at h; subst h
    refine abs_same_hs (s := s) rfl ?_
    intro h _
    cases h with
    | dead => rfl
    | null => rfl
    | «at» q =>
      by_cases hq : q = p
      · subst hq; simp [absH, hp]
      · simp [absH, upd_other _ _ hq]

theorem InvX.decr_abs {s s' : State} {p : Nat} (h : InvX s (.at p)) (hd : Cow.decr s p = some s') : abs s' = abs s := by
  obtain ⟨s'', hs'', _, hhs, _, _, hother, hp⟩ := h.decr
  rw [hd] at hs''; cases hs''
  obtain ⟨c, hc⟩ := h.live_tmp
  apply abs_same_hs hhs
  intro x hx
  cases x with
  | dead => rfl
  | null => rfl
  | «at» q =>
    by_cases hq : q = p
    · subst hq
      by_cases h1 : c.rc = 1
      · have := ((hp c hc).1 h1).2.2
        exact absurd hx (not_mem_of_cnt_zero this)
      · have := ((hp c hc).2 h1).1
        simp [absH, this, hc]
    · simp [absH, hother q hq]

theorem alloc_abs {s : State} {t : Handle} (h : InvX s t) (ht : ∀ q, tmpOwns t q = 0) (v : Val) :
    abs (alloc s v).1 = abs s := by
  have hc0 := (h.alloc ht v).2
  refine abs_same_hs (s := s) rfl ?_
  intro x hx
  cases x with
  | dead => rfl
  | null => rfl
  | «at» q =>
    have hq : q ≠ s.next := by
      intro hq; subst hq; exact not_mem_of_cnt_zero hc0 hx
    simp [absH, alloc, upd_other _ _ hq]

theorem Inv.of_null {s : State} (h : InvX s .null) : Inv s := h.congr_tmp (by simp)
theorem Inv.to_null {s : State} (h : Inv s) : InvX s .null := h.congr_tmp (by simp)

/-! ### reading -/

theorem readVal_eq (s : State) (h : Nat) : readVal s h = readV (abs s) h := by
  unfold readVal readV
  rw [abs_getElem?]
  cases s.hs[h]? with
  | none => rfl
  | some x =>
    cases x with
    | dead => rfl
    | null => rfl
    | «at» p =>
      simp only [Option.map_some, absH]
      cases s.heap p <;> rfl

theorem readVals_eq (s : State) (srcs : List Nat) : readVals s srcs = readVsV (abs s) srcs := by
  unfold readVals readVsV
  have : readVal s = readV (abs s) := funext (readVal_eq s)
  rw [this]

theorem isVal_abs {s : State} {d : Nat} (h : isVal (abs s)[d]? = true) :
    ∃ p c, s.hs[d]? = some (.at p) ∧ s.heap p = some c ∧ (abs s)[d]? = some (.val c.val) := by
  rw [abs_getElem?] at h ⊢
  cases hd : s.hs[d]? with
  | none => simp [hd, isVal] at h
  | some x =>
    cases x with
    | dead => simp [hd, isVal, absH] at h
    | null => simp [hd, isVal, absH] at h
    | «at» p =>
      cases hp : s.heap p with
      | none => simp [hd, isVal, absH, hp] at h
      | some c => exact ⟨p, c, rfl, hp, by simp [absH, hp]⟩

theorem isObj_abs {s : State} {d : Nat} (h : isObj (abs s)[d]? = true) :
    (s.hs[d]? = some .null ∧ (abs s)[d]? = some .moved) ∨
    ∃ p c, s.hs[d]? = some (.at p) ∧ s.heap p = some c ∧ (abs s)[d]? = some (.val c.val) := by
  rw [abs_getElem?] at h ⊢
  cases hd : s.hs[d]? with
  | none => simp [hd, isObj] at h
  | some x =>
    cases x with
    | dead => simp [hd, isObj, absH] at h
    | null => left; simp [absH]
    | «at» p =>
      cases hp : s.heap p with
      | none => simp [hd, isObj, absH, hp] at h
      | some c => right; exact ⟨p, c, rfl, hp, by simp [absH, hp]⟩

theorem dead_abs {s : State} {t : Handle} (hinv : InvX s t) {d : Nat} (h : (abs s)[d]? = some .dead) :
    s.hs[d]? = some .dead := by
  rw [abs_getElem?] at h
  cases hd : s.hs[d]? with
  | none => simp [hd] at h
  | some x =>
    cases x with
    | dead => rfl
    | null => simp [hd, absH] at h
    | «at» p =>
      obtain ⟨c, hc⟩ := hinv.live hd
      simp [hd, absH, hc] at h

theorem readV_of_get {vs : VState} {d : Nat} {v : Val} (h : vs[d]? = some (.val v)) : readV vs d = some v := by
  simp [readV, h]

/-! ### detach and overwrite -/

theorem detach_sim {s : State} (hinv : Inv s) {d p : Nat} {c : Cell} (hd : s.hs[d]? = some (.at p))
    (hp : s.heap p = some c) :
    ∃ s' q c', detach s d = some s' ∧ Inv s' ∧ abs s' = abs s ∧ s'.hs[d]? = some (.at q) ∧
      s'.heap q = some c' ∧ c'.val = c.val ∧ c'.rc = 1 := by
  by_cases h1 : c.rc = 1
  · exact ⟨s, p, c, by simp [detach, hd, hp, h1], hinv, rfl, hd, hp, rfl, h1⟩
  · have hA := hinv.alloc (by simp) c.val
    have habs1 := alloc_abs hinv (by simp) c.val
    have hd1 : (alloc s c.val).1.hs[d]? = some (.at p) := hd
    have hS := hA.1.swap hd1
    obtain ⟨s', hs', hinv', hhs, _, _, hother, hpp⟩ := hS.decr
    have hne : p ≠ s.next := by
      intro h; have := hinv.fresh p (by omega); simp [hp] at this
    have hheap2 : (setH (alloc s c.val).1 d (.at s.next)).heap p = some c := by
      simp [setH, alloc, upd_other _ _ hne, hp]
    have hp' := ((hpp c hheap2).2 h1).1
    have hdlt : d < s.hs.length := by
      rcases Nat.lt_or_ge d s.hs.length with h' | h'
      · exact h'
      · rw [List.getElem?_eq_none h'] at hd; cases hd
    refine ⟨s', s.next, ⟨c.val, 1⟩, ?_, hinv', ?_, ?_, ?_, rfl, rfl⟩
    · simp only [detach, hd, hp, h1, if_false]; exact hs'
    · rw [hS.decr_abs hs', abs_setH, habs1]
      apply set_eq_self
      rw [abs_getElem?, hd]
      simp [absH, alloc, hp]
    · rw [hhs]; simp [setH, alloc, hdlt]
    · rw [hother _ (Ne.symm hne)]; simp [setH, alloc]

theorem modify_sim {s : State} (hinv : Inv s) {d q : Nat} {c : Cell} {f : Val → Option Val} {v : Val}
    (hd : s.hs[d]? = some (.at q)) (hq : s.heap q = some c) (h1 : c.rc = 1) (hf : f c.val = some v) :
    ∃ s', modifyVal s d f = some s' ∧ Inv s' ∧ abs s' = (abs s).set d (.val v) := by
  refine ⟨{ s with heap := upd s.heap q (some { c with val := v }) }, by simp [modifyVal, hd, hq, hf], ?_, ?_⟩
  · refine { rc_count := ?_, rc_pos := ?_, fresh := ?_, alloc_log := hinv.alloc_log, alloc_nodup := hinv.alloc_nodup,
             free_log := ?_, free_nodup := hinv.free_nodup }
    · intro p
      have := hinv.rc_count p
      by_cases hpq : p = q
      · subst hpq; simpa [rcOf, hq] using this
      · simpa [rcOf, upd_other _ _ hpq] using this
    · intro p c' hc'
      by_cases hpq : p = q
      · subst hpq; simp at hc'; subst hc'; exact hinv.rc_pos p c hq
      · simp only [upd_other _ _ hpq] at hc'; exact hinv.rc_pos p c' hc'
    · intro p hp
      have := hinv.fresh p hp
      by_cases hpq : p = q
      · subst hpq; simp [hq] at this
      · simp [upd_other _ _ hpq, this]
    · intro p
      by_cases hpq : p = q
      · subst hpq; simp [hinv.free_log p, hq]
      · simp [upd_other _ _ hpq, hinv.free_log p]
  · have hhs : ({ s with heap := upd s.heap q (some { c with val := v }) } : State).hs = s.hs.set d (.at q) :=
      (set_eq_self hd).symm
    rw [abs_set_frame hhs]
    · simp [absH]
    · intro i h hi hget
      cases h with
      | dead => rfl
      | null => rfl
      | «at» p =>
        have hpq : p ≠ q := by
          intro hpq; subst hpq
          have h2 := cnt_ge_two hi hget hd
          have h3 := hinv.rc_count p
          simp [rcOf, hq] at h3; omega
        simp [absH, upd_other _ _ hpq]

/-- `poly_obj()` followed by a write: the common part of assignment, element write, `set`, transforms -/
theorem detach_modify_sim {s : State} (hinv : Inv s) {d p : Nat} {c : Cell} {f : Val → Option Val} {v : Val}
    (hd : s.hs[d]? = some (.at p)) (hp : s.heap p = some c) (hf : f c.val = some v) :
    ∃ s', (detach s d).bind (fun s1 => modifyVal s1 d f) = some s' ∧ Inv s' ∧ abs s' = (abs s).set d (.val v) := by
  obtain ⟨s1, q, c', hdet, hinv1, habs1, hd1, hq1, hval, hrc⟩ := detach_sim hinv hd hp
  obtain ⟨s', hm, hinv', habs'⟩ := modify_sim hinv1 hd1 hq1 hrc (f := f) (v := v) (by rw [hval]; exact hf)
  exact ⟨s', by simp [hdet, hm], hinv', by rw [habs', habs1]⟩


theorem readV_some {vs : VState} {d : Nat} {v : Val} (h : readV vs d = some v) : vs[d]? = some (.val v) := by
  unfold readV at h
  cases hd : vs[d]? with
  | none => simp [hd] at h
  | some x =>
    cases x with
    | dead => simp [hd] at h
    | moved => simp [hd] at h
    | val w => simp [hd] at h; subst h; rfl

theorem isVal_of_get {vs : VState} {d : Nat} {v : Val} (h : vs[d]? = some (.val v)) : isVal vs[d]? = true := by
  simp [h, isVal]

/-! ### one statement -/

theorem sim_mk {s : State} (hinv : Inv s) {d : Nat} {srcs : List Nat} {g : List Val → Val}
    (hok : okV (abs s) (.mk d srcs g) = true) :
    ∃ s', step s (.mk d srcs g) = some s' ∧ Inv s' ∧ abs s' = stepV (abs s) (.mk d srcs g) := by
  simp only [okV, Bool.and_eq_true, beq_iff_eq] at hok
  obtain ⟨hd, hsrcs⟩ := hok
  have hd' := dead_abs hinv hd
  obtain ⟨l, hl⟩ := Option.isSome_iff_exists.mp hsrcs
  have hA := hinv.alloc (by simp) (g l)
  have hd1 : (alloc s (g l)).1.hs[d]? = some .dead := hd'
  have hS := hA.1.swap hd1
  refine ⟨setH (alloc s (g l)).1 d (.at s.next), ?_, hS, ?_⟩
  · simp [step, hd', readVals_eq, hl]; rfl
  · simp only [stepV, hl]
    have hhs : (setH (alloc s (g l)).1 d (.at s.next)).hs = s.hs.set d (.at s.next) := rfl
    rw [abs_set_frame hhs]
    · simp [absH, setH, alloc]
    · intro i h _ hget
      cases h with
      | dead => rfl
      | null => rfl
      | «at» p =>
        have hp : p ≠ s.next := by
          intro hp; subst hp; exact not_mem_of_cnt_zero hA.2 (List.mem_of_getElem? hget)
        simp [absH, setH, alloc, upd_other _ _ hp]

theorem sim_copyCtor {s : State} (hinv : Inv s) {d src : Nat} (hok : okV (abs s) (.copyCtor d src) = true) :
    ∃ s', step s (.copyCtor d src) = some s' ∧ Inv s' ∧ abs s' = stepV (abs s) (.copyCtor d src) := by
  simp only [okV, Bool.and_eq_true, beq_iff_eq] at hok
  obtain ⟨hd, hsrc⟩ := hok
  have hd' := dead_abs hinv hd
  obtain ⟨p, c, hsp, hp, habs_src⟩ := isVal_abs hsrc
  obtain ⟨s1, hs1, hinv1, hhs1, hheap1⟩ := hinv.incr (by simp) hp
  have hd1 : s1.hs[d]? = some .dead := by rw [hhs1]; exact hd'
  have hS := hinv1.swap hd1
  refine ⟨setH s1 d (.at p), ?_, hS, ?_⟩
  · simp [step, hd', hsp, hs1]
  · simp only [stepV, habs_src]
    rw [abs_setH, incr_abs hs1]
    simp [absH, hheap1]

theorem sim_moveCtor {s : State} (hinv : Inv s) {d src : Nat} (hok : okV (abs s) (.moveCtor d src) = true) :
    ∃ s', step s (.moveCtor d src) = some s' ∧ Inv s' ∧ abs s' = stepV (abs s) (.moveCtor d src) := by
  simp only [okV, Bool.and_eq_true, beq_iff_eq] at hok
  obtain ⟨hd, hsrc⟩ := hok
  have hd' := dead_abs hinv hd
  obtain ⟨p, c, hsp, hp, habs_src⟩ := isVal_abs hsrc
  have hne : d ≠ src := by intro h; subst h; rw [hd'] at hsp; cases hsp
  have h1 := hinv.to_null.swap hsp
  have hd1 : (setH s src .null).hs[d]? = some .dead := by
    simp only [setH]; rw [List.getElem?_set_ne (Ne.symm hne)]; exact hd'
  have h2 := h1.swap hd1
  refine ⟨setH (setH s src .null) d (.at p), ?_, h2, ?_⟩
  · simp [step, hd', hsp]
  · simp only [stepV, habs_src]
    rw [abs_setH, abs_setH]
    simp [setH, absH, hp]

theorem sim_copyAssign {s : State} (hinv : Inv s) {d src : Nat} (hok : okV (abs s) (.copyAssign d src) = true) :
    ∃ s', step s (.copyAssign d src) = some s' ∧ Inv s' ∧ abs s' = stepV (abs s) (.copyAssign d src) := by
  simp only [okV, Bool.and_eq_true] at hok
  obtain ⟨hd, hsrc⟩ := hok
  obtain ⟨p, c, hsp, hp, habs_src⟩ := isVal_abs hsrc
  by_cases hne : d = src
  · subst hne
    refine ⟨s, ?_, hinv, ?_⟩
    · simp [step, hsp, isDead]
    · simp only [stepV, habs_src]; exact (set_eq_self habs_src).symm
  · obtain ⟨s1, hs1, hinv1, hhs1, hheap1⟩ := hinv.incr (by simp) hp
    rcases isObj_abs hd with ⟨hdn, _⟩ | ⟨q, cq, hdq, hq, _⟩
    · have hd1 : s1.hs[d]? = some .null := by rw [hhs1]; exact hdn
      have hS := hinv1.swap hd1
      refine ⟨setH s1 d (.at p), ?_, Inv.of_null hS, ?_⟩
      · simp [step, hdn, hsp, isDead, hne, hs1]
      · simp only [stepV, habs_src]
        rw [abs_setH, incr_abs hs1]
        simp [absH, hheap1]
    · have hd1 : s1.hs[d]? = some (.at q) := by rw [hhs1]; exact hdq
      have hS := hinv1.swap hd1
      obtain ⟨s', hs', hinv', _⟩ := hS.decr
      refine ⟨s', ?_, hinv', ?_⟩
      · simp [step, hdq, hsp, isDead, hne, hs1, hs']
      · simp only [stepV, habs_src]
        rw [hS.decr_abs hs', abs_setH, incr_abs hs1]
        simp [absH, hheap1]

theorem sim_moveAssign {s : State} (hinv : Inv s) {d src : Nat} (hok : okV (abs s) (.moveAssign d src) = true) :
    ∃ s', step s (.moveAssign d src) = some s' ∧ Inv s' ∧ abs s' = stepV (abs s) (.moveAssign d src) := by
  simp only [okV, Bool.and_eq_true] at hok
  obtain ⟨hd, hsrc⟩ := hok
  obtain ⟨p, c, hsp, hp, habs_src⟩ := isVal_abs hsrc
  by_cases hne : d = src
  · subst hne
    exact ⟨s, by simp [step, hsp, isDead], hinv, by simp [stepV]⟩
  · have h1 := hinv.to_null.swap hsp
    have hget : ∀ x, s.hs[d]? = some x → (setH s src .null).hs[d]? = some x := by
      intro x hx; simp only [setH]; rw [List.getElem?_set_ne (Ne.symm hne)]; exact hx
    have habs2 : abs (setH (setH s src .null) d (.at p)) = ((abs s).set src .moved).set d (.val c.val) := by
      rw [abs_setH, abs_setH]; simp [setH, absH, hp]
    rcases isObj_abs hd with ⟨hdn, _⟩ | ⟨q, cq, hdq, hq, _⟩
    · have hS := h1.swap (hget _ hdn)
      refine ⟨setH (setH s src .null) d (.at p), ?_, Inv.of_null hS, ?_⟩
      · simp [step, hdn, hsp, isDead, hne]
      · simp only [stepV, habs_src, hne, if_false]; exact habs2
    · have hS := h1.swap (hget _ hdq)
      obtain ⟨s', hs', hinv', _⟩ := hS.decr
      refine ⟨s', ?_, hinv', ?_⟩
      · simp [step, hdq, hsp, isDead, hne, hs']
      · simp only [stepV, habs_src, hne, if_false]
        rw [hS.decr_abs hs']; exact habs2

theorem sim_destroy {s : State} (hinv : Inv s) {d : Nat} (hok : okV (abs s) (.destroy d) = true) :
    ∃ s', step s (.destroy d) = some s' ∧ Inv s' ∧ abs s' = stepV (abs s) (.destroy d) := by
  simp only [okV] at hok
  rcases isObj_abs hok with ⟨hdn, _⟩ | ⟨q, cq, hdq, hq, _⟩
  · have hS := hinv.swap hdn
    exact ⟨setH s d .dead, by simp [step, hdn], Inv.of_null hS, by simp [stepV, abs_setH, absH]⟩
  · have hS := hinv.swap hdq
    obtain ⟨s', hs', hinv', _⟩ := hS.decr
    refine ⟨s', by simp [step, hdq, hs'], hinv', ?_⟩
    rw [hS.decr_abs hs']; simp [stepV, abs_setH, absH]

theorem sim_assign {s : State} (hinv : Inv s) {d : Nat} {srcs : List Nat} {g : List Val → Val}
    (hok : okV (abs s) (.assign d srcs g) = true) :
    ∃ s', step s (.assign d srcs g) = some s' ∧ Inv s' ∧ abs s' = stepV (abs s) (.assign d srcs g) := by
  simp only [okV, Bool.and_eq_true] at hok
  obtain ⟨hd, hsrcs⟩ := hok
  obtain ⟨p, c, hdp, hp, _⟩ := isVal_abs hd
  obtain ⟨l, hl⟩ := Option.isSome_iff_exists.mp hsrcs
  obtain ⟨s', hs', hinv', habs'⟩ := detach_modify_sim hinv hdp hp (f := fun _ => some (g l)) (v := g l) rfl
  exact ⟨s', by simp [step, readVals_eq, hl, hs'], hinv', by simp [stepV, hl, habs']⟩

theorem sim_writeElem {s : State} (hinv : Inv s) {d i x : Nat} (hok : okV (abs s) (.writeElem d i x) = true) :
    ∃ s', step s (.writeElem d i x) = some s' ∧ Inv s' ∧ abs s' = stepV (abs s) (.writeElem d i x) := by
  simp only [okV] at hok
  cases hr : readV (abs s) d with
  | none => simp [hr] at hok
  | some v =>
    simp [hr] at hok
    obtain ⟨p, c, hdp, hp, hav⟩ := isVal_abs (isVal_of_get (readV_some hr))
    have hv : v = c.val := by have := readV_some hr; rw [hav] at this; cases this; rfl
    subst hv
    obtain ⟨s', hs', hinv', habs'⟩ := detach_modify_sim hinv hdp hp
      (f := fun v => if i < v.length then some (v.set i x) else none) (v := c.val.set i x) (by simp [hok])
    exact ⟨s', by simp only [step]; exact hs', hinv', by simp [stepV, hr, habs']⟩

theorem sim_touch {s : State} (hinv : Inv s) {d : Nat} (hok : okV (abs s) (.touch d) = true) :
    ∃ s', step s (.touch d) = some s' ∧ Inv s' ∧ abs s' = stepV (abs s) (.touch d) := by
  simp only [okV] at hok
  obtain ⟨p, c, hdp, hp, _⟩ := isVal_abs hok
  obtain ⟨s', _, _, hdet, hinv', habs', _⟩ := detach_sim hinv hdp hp
  exact ⟨s', by simp [step, hdet], hinv', by simp [stepV, habs']⟩

theorem sim_xform {s : State} (hinv : Inv s) {d : Nat} {f : Val → Val} (hok : okV (abs s) (.xform d f) = true) :
    ∃ s', step s (.xform d f) = some s' ∧ Inv s' ∧ abs s' = stepV (abs s) (.xform d f) := by
  simp only [okV] at hok
  obtain ⟨p, c, hdp, hp, hav⟩ := isVal_abs hok
  obtain ⟨s', hs', hinv', habs'⟩ := detach_modify_sim hinv hdp hp (f := fun v => some (f v)) (v := f c.val) rfl
  exact ⟨s', by simp only [step]; exact hs', hinv', by simp [stepV, readV_of_get hav, habs']⟩

/-- **simulation of one statement** -/
theorem step_sim {s : State} (hinv : Inv s) {op : Op} (hok : okV (abs s) op = true) :
    ∃ s', step s op = some s' ∧ Inv s' ∧ abs s' = stepV (abs s) op := by
  cases op with
  | mk d srcs g => exact sim_mk hinv hok
  | copyCtor d src => exact sim_copyCtor hinv hok
  | moveCtor d src => exact sim_moveCtor hinv hok
  | copyAssign d src => exact sim_copyAssign hinv hok
  | moveAssign d src => exact sim_moveAssign hinv hok
  | assign d srcs g => exact sim_assign hinv hok
  | writeElem d i x => exact sim_writeElem hinv hok
  | touch d => exact sim_touch hinv hok
  | xform d f => exact sim_xform hinv hok
  | readElem h i =>
    simp only [okV] at hok
    cases hr : readV (abs s) h with
    | none => simp [hr] at hok
    | some v =>
      simp [hr] at hok
      exact ⟨s, by simp [step, readVal_eq, hr, hok], hinv, rfl⟩
  | compare a b neg =>
    simp only [okV, Bool.and_eq_true] at hok
    obtain ⟨pa, ca, hsa, hpa, haa⟩ := isVal_abs hok.1
    obtain ⟨pb, cb, hsb, hpb, hab⟩ := isVal_abs hok.2
    refine ⟨s, ?_, hinv, rfl⟩
    simp [step, hsa, hsb, isDead, ptrEq, readVal_eq, readV_of_get haa, readV_of_get hab]
  | compareVal a v neg =>
    simp only [okV] at hok
    obtain ⟨pa, ca, hsa, hpa, haa⟩ := isVal_abs hok
    exact ⟨s, by simp [step, readVal_eq, readV_of_get haa], hinv, rfl⟩
  | destroy d => exact sim_destroy hinv hok

/-- what a statement returns is what it returns on plain values; in particular the pointer short-cut
    of `==` / `!=` agrees with the element-wise comparison -/
theorem observe_sim {s : State} (_hinv : Inv s) {op : Op} (hok : okV (abs s) op = true) :
    observe s op = observeV (abs s) op := by
  cases op with
  | readElem h i => simp [observe, observeV, readVal_eq]
  | compareVal a v neg => simp [observe, observeV, readVal_eq]
  | compare a b neg =>
    simp only [okV, Bool.and_eq_true] at hok
    obtain ⟨pa, ca, hsa, hpa, haa⟩ := isVal_abs hok.1
    obtain ⟨pb, cb, hsb, hpb, hab⟩ := isVal_abs hok.2
    simp only [observe, observeV, hsa, hsb, isDead, ptrEq, readVal_eq, readV_of_get haa, readV_of_get hab]
    by_cases hp : pa = pb
    · subst hp; rw [hpa] at hpb; cases hpb
      cases neg <;> simp
    · simp [hp]
  | _ => rfl

end Nfl.Cow
