/-
Lexicographic comparison of word strings (`cmp`), prefixes, counting.  Core Lean only.
-/
import NflVerif.Model.Gauss

namespace Nfl.Gauss

theorem cmp_nil_right (a : Str) : cmp a [] = 0 := by cases a <;> simp [cmp]
theorem cmp_nil_left (a : Str) : cmp [] a = 0 := by simp [cmp]

theorem cmp_cons (a b : Nat) (as bs : Str) :
    cmp (a :: as) (b :: bs) = if a > b then 1 else if a < b then -1 else cmp as bs := by simp [cmp]

theorem cmp_cases (a b : Str) : cmp a b = 1 ∨ cmp a b = 0 ∨ cmp a b = -1 := by
  induction a generalizing b with
  | nil => simp [cmp]
  | cons x xs ih =>
    cases b with
    | nil => simp [cmp]
    | cons y ys =>
      rw [cmp_cons]; split
      · simp
      · split
        · simp
        · exact ih ys

theorem cmp_self (a : Str) : cmp a a = 0 := by
  induction a with
  | nil => rfl
  | cons x xs ih => simp [cmp_cons, ih]

/-- `cmp` only looks at the first `|a|` words of its second argument -/
theorem cmp_take (a u : Str) : cmp a u = cmp a (u.take a.length) := by
  induction a generalizing u with
  | nil => simp [cmp]
  | cons x xs ih =>
    cases u with
    | nil => simp [cmp]
    | cons y ys => simp only [List.length_cons, List.take_succ_cons, cmp_cons]; rw [ih ys]

theorem cmp_eq_zero_iff {a b : Str} (h : a.length = b.length) : cmp a b = 0 ↔ a = b := by
  induction a generalizing b with
  | nil => cases b <;> simp_all [cmp]
  | cons x xs ih =>
    cases b with
    | nil => simp at h
    | cons y ys =>
      simp only [List.length_cons, Nat.add_right_cancel_iff] at h
      rw [cmp_cons]
      by_cases h1 : x > y
      · simp [h1]; omega
      · by_cases h2 : x < y
        · simp [h1, h2]; omega
        · have : x = y := by omega
          simp [ih h, this]

/-- transitivity of `≤` (as "`cmp ≠ 1`") on strings of equal length, the third may be longer -/
theorem cmp_le_trans {a b c : Str} (hab : a.length = b.length) (hbc : b.length ≤ c.length)
    (h1 : cmp a b ≠ 1) (h2 : cmp b c ≠ 1) : cmp a c ≠ 1 := by
  induction a generalizing b c with
  | nil => simp [cmp]
  | cons x xs ih =>
    cases b with
    | nil => simp at hab
    | cons y ys =>
      cases c with
      | nil => simp at hbc
      | cons z zs =>
        simp only [List.length_cons, Nat.add_right_cancel_iff, Nat.add_le_add_iff_right] at hab hbc
        rw [cmp_cons] at h1 h2 ⊢
        by_cases hxy : x > y
        · simp [hxy] at h1
        · by_cases hyz : y > z
          · simp [hyz] at h2
          · by_cases hxy' : x < y
            · have : x < z := by omega
              have h3 : ¬ x > z := by omega
              simp [h3, this]
            · have hxy2 : x = y := by omega
              subst hxy2
              by_cases hyz' : x < z
              · have h3 : ¬ x > z := by omega
                simp [h3, hyz']
              · have : x = z := by omega
                subst this
                simp only [Nat.lt_irrefl, gt_iff_lt, ite_false] at h1 h2 ⊢
                exact ih hab hbc h1 h2

theorem leB_trans {a b c : Str} (hab : a.length = b.length) (hbc : b.length ≤ c.length)
    (h1 : leB a b = true) (h2 : leB b c = true) : leB a c = true := by
  simp only [leB, bne_iff_ne] at *
  exact cmp_le_trans hab hbc h1 h2

/-- antisymmetry-like fact: `a ≤ b` and `b < a` are incompatible; more precisely `cmp b a = - cmp a b` -/
theorem cmp_antisymm {a b : Str} : cmp b a = - cmp a b := by
  induction a generalizing b with
  | nil => simp [cmp, cmp_nil_right]
  | cons x xs ih =>
    cases b with
    | nil => simp [cmp]
    | cons y ys =>
      rw [cmp_cons, cmp_cons]
      by_cases h1 : x > y
      · have : ¬ y > x := by omega
        simp [h1, this]
      · by_cases h2 : x < y
        · simp [h1, h2]
        · have : x = y := by omega
          subst this; simp [ih]

/-- the three-way comparison of a string against a prefix `p` of `u` decides the comparison against `u` unless the
string itself starts with `p` -/
theorem cmp_prefix {p u b : Str} (hp : p <+: u) (hb : p.length ≤ b.length) :
    (cmp b p = -1 → cmp b u = -1) ∧ (cmp b p = 1 → cmp b u = 1) ∧ (cmp b p = 0 ↔ p <+: b) := by
  induction p generalizing u b with
  | nil => simp [cmp_nil_right]
  | cons a p ih =>
    obtain ⟨t, rfl⟩ := hp
    cases b with
    | nil => simp at hb
    | cons y ys =>
      simp only [List.length_cons, Nat.add_le_add_iff_right] at hb
      simp only [List.cons_append, cmp_cons]
      by_cases h1 : y > a
      · simp only [h1, if_true, List.cons_prefix_cons]
        refine ⟨by simp, by simp, by simp, fun h => by omega⟩
      · by_cases h2 : y < a
        · simp only [h1, h2, if_true, if_false, List.cons_prefix_cons]
          refine ⟨by simp, by simp, by simp, fun h => by omega⟩
        · have : y = a := by omega
          subst this
          simp only [Nat.lt_irrefl, gt_iff_lt, ite_false, List.cons_prefix_cons, true_and]
          exact ih (List.prefix_append p t) hb

theorem isBelow_leB {p u b : Str} (hp : p <+: u) (hb : p.length ≤ b.length) (h : isBelow p b = true) : leB b u = true := by
  simp only [isBelow, beq_iff_eq] at h
  simp [leB, (cmp_prefix hp hb).1 h]

theorem hasPre_iff {p b : Str} : hasPre p b = true ↔ p <+: b := by simp [hasPre]

/-- a barrier that is neither below the prefix nor starts with it is above the whole string -/
theorem not_leB_of_above {p u b : Str} (hp : p <+: u) (hb : p.length ≤ b.length)
    (h1 : isBelow p b = false) (h2 : hasPre p b = false) : leB b u = false := by
  have hc := cmp_prefix hp hb
  have h2' : ¬ p <+: b := by rw [← hasPre_iff]; simp [h2]
  have : cmp b p = 1 := by
    rcases cmp_cases b p with h | h | h
    · exact h
    · exact absurd (hc.2.2.mp h) h2'
    · simp [isBelow, h] at h1
  simp [leB, hc.2.1 this]

/-- **counting by prefix**: the barriers `≤ u` are those strictly below the prefix plus those `≤ u` among the ones that
start with the prefix. -/
theorem countP_leB_split {p u : Str} (bs : List Str) (hp : p <+: u) (hb : ∀ b ∈ bs, p.length ≤ b.length) :
    bs.countP (fun b => leB b u) = bs.countP (isBelow p) + (bs.filter (hasPre p)).countP (fun b => leB b u) := by
  induction bs with
  | nil => simp
  | cons b bs ih =>
    have hb' : ∀ b ∈ bs, p.length ≤ b.length := fun x hx => hb x (List.mem_cons_of_mem _ hx)
    have hbl := hb b List.mem_cons_self
    rw [List.countP_cons, List.countP_cons, List.filter_cons, ih hb']
    by_cases h1 : isBelow p b = true
    · have h3 : hasPre p b = false := by
        cases h : hasPre p b
        · rfl
        · have := (cmp_prefix hp hbl).2.2.mpr (hasPre_iff.mp h)
          simp [isBelow, this] at h1
      simp [h1, h3, isBelow_leB hp hbl h1]; omega
    · simp only [Bool.not_eq_true] at h1
      by_cases h2 : hasPre p b = true
      · simp [h1, h2, List.countP_cons]; omega
      · simp only [Bool.not_eq_true] at h2
        simp [h1, h2, not_leB_of_above hp hbl h1 h2]

/-! ### sortedness -/

def LenWp (wp : Nat) (bs : List Str) : Prop := ∀ b ∈ bs, b.length = wp

theorem lenWp_of_WF {W wp : Nat} {bs : List Str} (h : barriersWF W wp bs = true) : LenWp wp bs := by
  intro b hb
  simp only [barriersWF, List.all_eq_true, Bool.and_eq_true, beq_iff_eq] at h
  exact (h b hb).1

theorem pairwise_of_sortedB {wp : Nat} {bs : List Str} (hl : LenWp wp bs) (h : sortedB bs = true) :
    bs.Pairwise (fun a b => leB a b = true) := by
  induction bs with
  | nil => exact List.Pairwise.nil
  | cons a t ih =>
    cases t with
    | nil => simp
    | cons b t' =>
      simp only [sortedB, Bool.and_eq_true] at h
      have hl' : LenWp wp (b :: t') := fun x hx => hl x (List.mem_cons_of_mem _ hx)
      have ih' := ih hl' h.2
      refine List.Pairwise.cons ?_ ih'
      intro x hx
      rcases List.mem_cons.mp hx with rfl | hx'
      · exact h.1
      · have hbx := (List.pairwise_cons.mp ih').1 x hx'
        exact leB_trans (by rw [hl a List.mem_cons_self, hl' b List.mem_cons_self])
          (by rw [hl' b List.mem_cons_self, hl' x (List.mem_cons_of_mem _ hx')]; exact Nat.le_refl _) h.1 hbx

/-- on a sorted list the `break`-loop counts exactly the barriers `≤ u` -/
theorem scan_eq_countP {wp : Nat} {u : Str} (bl : List Str) (out : Int) (hl : LenWp wp bl) (hu : wp ≤ u.length)
    (hs : bl.Pairwise (fun a b => leB a b = true)) :
    scan u bl out = out + (bl.countP (fun b => leB b u) : Nat) := by
  induction bl generalizing out with
  | nil => simp [scan]
  | cons b bs ih =>
    have hl' : LenWp wp bs := fun x hx => hl x (List.mem_cons_of_mem _ hx)
    rw [List.pairwise_cons] at hs
    by_cases hc : cmp b u = 1
    · have hz : (b :: bs).countP (fun b => leB b u) = 0 := by
        rw [List.countP_eq_zero]
        intro x hx
        rcases List.mem_cons.mp hx with rfl | hx'
        · simp [leB, hc]
        · intro hxu
          have := leB_trans (by rw [hl b List.mem_cons_self, hl' x hx']) (by rw [hl' x hx']; exact hu) (hs.1 x hx') hxu
          simp [leB, hc] at this
      simp [scan, hc, hz]
    · have : leB b u = true := by simp [leB, hc]
      simp only [scan, hc, if_false]
      rw [ih (out + 1) hl' hs.2, List.countP_cons]
      simp [this]; omega

end Nfl.Gauss
