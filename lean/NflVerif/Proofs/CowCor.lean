/-
C14 — lifting the one-statement simulation to histories, and the value-level facts behind the
corollaries (frame property of `stepV`, destruction of all variables).  Core Lean only.
-/
import NflVerif.Proofs.CowSim
namespace Nfl.Cow

/-- variables whose value a statement may change according to the value semantics -/
def targets : Op → List Nat
  | .mk d _ _ => [d]
  | .copyCtor d _ => [d]
  | .moveCtor d s => [d, s]
  | .copyAssign d _ => [d]
  | .moveAssign d s => [d, s]
  | .assign d _ _ => [d]
  | .writeElem d _ _ => [d]
  | .touch _ => []
  | .xform d _ => [d]
  | .readElem _ _ => []
  | .compare _ _ _ => []
  | .compareVal _ _ _ => []
  | .destroy d => [d]

theorem init_inv (nh : Nat) : Inv (init nh) := by
  refine { rc_count := ?_, rc_pos := ?_, fresh := ?_, alloc_log := ?_, alloc_nodup := ?_,
           free_log := ?_, free_nodup := ?_ }
  · intro p
    have : cnt p (List.replicate nh Handle.dead) = 0 := by
      apply List.count_eq_zero.mpr
      intro h; simp at h
    simp [init, rcOf, this]
  · intro p c h; simp [init] at h
  · intro p _; simp [init]
  · intro p; simp [init]
  · simp [init]
  · intro p; simp [init]
  · simp [init]

theorem abs_init (nh : Nat) : abs (init nh) = initV nh := by
  simp [abs, init, initV, absH]

theorem run_append (a b : List Op) (s : State) : run (a ++ b) s = (run a s).bind (run b) := by
  induction a generalizing s with
  | nil => simp [run]
  | cons op a ih =>
    simp only [List.cons_append, run]
    cases step s op with
    | none => rfl
    | some s1 => simp [ih]

theorem runValues_append (a b : List Op) (vs : VState) :
    runValues (a ++ b) vs = runValues b (runValues a vs) := by
  induction a generalizing vs with
  | nil => rfl
  | cons op a ih => simp only [List.cons_append, runValues]; exact ih _

theorem wfB_append (a b : List Op) (vs : VState) :
    wfB (a ++ b) vs = (wfB a vs && wfB b (runValues a vs)) := by
  induction a generalizing vs with
  | nil => simp [wfB, runValues]
  | cons op a ih => simp only [List.cons_append, wfB, runValues, ih, Bool.and_assoc]

/-- **refinement, from any state satisfying the invariant** -/
theorem refines_from {s : State} (hinv : Inv s) (ops : List Op) (hwf : wfB ops (abs s) = true) :
    ∃ s', run ops s = some s' ∧ Inv s' ∧ abs s' = runValues ops (abs s) := by
  induction ops generalizing s with
  | nil => exact ⟨s, rfl, hinv, rfl⟩
  | cons op ops ih =>
    simp only [wfB, Bool.and_eq_true] at hwf
    obtain ⟨s1, hs1, hinv1, habs1⟩ := step_sim hinv hwf.1
    obtain ⟨s', hs', hinv', habs'⟩ := ih hinv1 (by rw [habs1]; exact hwf.2)
    exact ⟨s', by simp [run, hs1, hs'], hinv', by rw [habs', habs1]; rfl⟩

/-! ### frame property of the value semantics -/

theorem stepV_other (vs : VState) (op : Op) (h : Nat) (hh : h ∉ targets op) : (stepV vs op)[h]? = vs[h]? := by
  cases op with
  | mk d srcs g =>
    simp only [targets, List.mem_singleton] at hh
    simp only [stepV]; split <;> simp [List.getElem?_set_ne (Ne.symm hh)]
  | copyCtor d s =>
    simp only [targets, List.mem_singleton] at hh
    simp only [stepV]; split <;> simp [List.getElem?_set_ne (Ne.symm hh)]
  | moveCtor d s =>
    simp only [targets, List.mem_cons, List.mem_nil_iff, or_false, not_or] at hh
    simp only [stepV]; split <;> simp [List.getElem?_set_ne (Ne.symm hh.1), List.getElem?_set_ne (Ne.symm hh.2)]
  | copyAssign d s =>
    simp only [targets, List.mem_singleton] at hh
    simp only [stepV]; split <;> simp [List.getElem?_set_ne (Ne.symm hh)]
  | moveAssign d s =>
    simp only [targets, List.mem_cons, List.mem_nil_iff, or_false, not_or] at hh
    simp only [stepV]
    split
    · rfl
    · split <;> simp [List.getElem?_set_ne (Ne.symm hh.1), List.getElem?_set_ne (Ne.symm hh.2)]
  | assign d srcs g =>
    simp only [targets, List.mem_singleton] at hh
    simp only [stepV]; split <;> simp [List.getElem?_set_ne (Ne.symm hh)]
  | writeElem d i x =>
    simp only [targets, List.mem_singleton] at hh
    simp only [stepV]; split <;> simp [List.getElem?_set_ne (Ne.symm hh)]
  | touch d => rfl
  | xform d f =>
    simp only [targets, List.mem_singleton] at hh
    simp only [stepV]; split <;> simp [List.getElem?_set_ne (Ne.symm hh)]
  | readElem s i => rfl
  | compare a b neg => rfl
  | compareVal a v neg => rfl
  | destroy d =>
    simp only [targets, List.mem_singleton] at hh
    simp [stepV, List.getElem?_set_ne (Ne.symm hh)]

theorem runValues_other (ops : List Op) (vs : VState) (h : Nat) (hh : ∀ op ∈ ops, h ∉ targets op) :
    (runValues ops vs)[h]? = vs[h]? := by
  induction ops generalizing vs with
  | nil => rfl
  | cons op ops ih =>
    simp only [runValues]
    rw [ih _ (fun o ho => hh o (List.mem_cons_of_mem _ ho)), stepV_other _ _ _ (hh op List.mem_cons_self)]

/-! ### ending the lifetime of every variable -/

theorem destroyFrom_spec (pre xs : List VH) :
    wfB (destroyFrom pre.length xs) (pre ++ xs) = true ∧
    runValues (destroyFrom pre.length xs) (pre ++ xs) = pre ++ List.replicate xs.length .dead := by
  induction xs generalizing pre with
  | nil => simp [destroyFrom, wfB, runValues]
  | cons x xs ih =>
    have hlen : (pre ++ [VH.dead]).length = pre.length + 1 := by simp
    have ih' := ih (pre ++ [VH.dead])
    rw [hlen] at ih'
    have hassoc : pre ++ [VH.dead] ++ xs = pre ++ VH.dead :: xs := by simp
    rw [hassoc] at ih'
    have hrep : pre ++ [VH.dead] ++ List.replicate xs.length VH.dead =
        pre ++ List.replicate (x :: xs).length VH.dead := by
      simp [List.replicate_succ]
    rw [hrep] at ih'
    have hget : (pre ++ x :: xs)[pre.length]? = some x := by simp
    have hset : (pre ++ x :: xs).set pre.length VH.dead = pre ++ VH.dead :: xs := by simp
    simp only [destroyFrom]
    by_cases hx : isObj (some x) = true
    · simp only [hx, if_true, List.singleton_append, wfB, runValues, okV, stepV, hget, hset, Bool.true_and]
      exact ih'
    · have hxd : x = VH.dead := by
        cases x with
        | dead => rfl
        | moved => simp [isObj] at hx
        | val v => simp [isObj] at hx
      subst hxd
      simp only [isObj, Bool.false_eq_true, if_false, List.nil_append]
      exact ih'

theorem destroyAll_spec (vs : VState) :
    wfB (destroyAll vs) vs = true ∧ runValues (destroyAll vs) vs = List.replicate vs.length .dead := by
  simpa [destroyAll] using destroyFrom_spec [] vs

/-- a state in which no variable holds an object has released everything, each block exactly once -/
theorem all_dead_released {s : State} (hinv : Inv s) (hdead : ∀ h ∈ s.hs, h = Handle.dead) :
    (∀ p, s.heap p = none) ∧ s.freeLog.Perm s.allocLog ∧ s.allocLog.Nodup ∧ s.freeLog.Nodup ∧
    (∀ p, p ∈ s.allocLog → s.freeLog.count p = 1) := by
  have hheap : ∀ p, s.heap p = none := by
    intro p
    have hc : cnt p s.hs = 0 := by
      apply List.count_eq_zero.mpr
      intro hm; have := hdead _ hm; cases this
    have hrc := hinv.rc_count p
    cases hp : s.heap p with
    | none => rfl
    | some c =>
      have := hinv.rc_pos p c hp
      simp [rcOf, hp, hc] at hrc; omega
  have hmem : ∀ p, p ∈ s.freeLog ↔ p ∈ s.allocLog := by
    intro p; rw [hinv.free_log, hinv.alloc_log]; simp [hheap]
  refine ⟨hheap, (List.perm_ext_iff_of_nodup hinv.free_nodup hinv.alloc_nodup).mpr hmem, hinv.alloc_nodup,
    hinv.free_nodup, ?_⟩
  intro p hp
  rw [hinv.free_nodup.count]; simp [(hmem p).mpr hp]

theorem all_dead_of_abs {s : State} (hinv : Inv s) (h : abs s = List.replicate s.hs.length VH.dead) :
    ∀ x ∈ s.hs, x = Handle.dead := by
  intro x hx
  obtain ⟨i, hi⟩ := List.getElem?_of_mem hx
  have : (abs s)[i]? = some VH.dead := by
    have hlt : i < s.hs.length := (List.getElem?_eq_some_iff.mp hi).1
    rw [h]; simp [hlt]
  have := dead_abs hinv this
  rw [hi] at this; cases this; rfl

end Nfl.Cow
