/-
C08 — source-level tie of `expr::operator bool` (include/nfl/ops.hpp l.88-102): the definition generated from clang's AST
(`Generated/BoolAst.lean`: three `CSem.forRet` loops with an early return) equals the hand model `Ex.exprToBoolM`
(`Model/Expr.lean`: `all` / `any` over `List.range`).
-/
import NflVerif.Generated.BoolAst
import NflVerif.Proofs.ExprBool
import NflVerif.Proofs.ExprExact

namespace Nfl.BoolAst
open Nfl Nfl.CSem

/-- a counting loop `for (v = i*s; v < n*s; v += s)` without wrap-around is `findSome?` over the iteration numbers -/
theorem forRet_stride {ρ : Type} (n s : Nat) (hs : 0 < s) (hb : n * s < 2 ^ 64) (body : Nat → Option ρ) :
    ∀ (k i fuel : Nat), i + k = n → k ≤ fuel →
      forRet (fun v => ltU v (n * s)) (fun v => addU 64 v s) body fuel (i * s) =
        (List.range' i k).findSome? (fun t => body (t * s)) := by
  intro k
  induction k with
  | zero =>
    intro i fuel hik _
    have : i = n := by omega
    subst this
    cases fuel <;> simp [forRet, ltU]
  | succ k ih =>
    intro i fuel hik hf
    cases fuel with
    | zero => omega
    | succ fuel =>
      have hlt : i * s < n * s := Nat.mul_lt_mul_of_lt_of_le (by omega) (Nat.le_refl s) hs
      have hnext : addU 64 (i * s) s = (i + 1) * s := by
        have : (i + 1) * s ≤ n * s := Nat.mul_le_mul_right s (by omega)
        unfold addU
        rw [Nat.add_mul, Nat.one_mul] at this ⊢
        exact Nat.mod_eq_of_lt (by omega)
      simp only [forRet, ltU, hlt, decide_true, if_true, List.range'_succ, List.findSome?_cons]
      cases body (i * s) with
      | some r => rfl
      | none => simp only []; rw [hnext]; exact ih (i + 1) fuel (by omega) (by omega)

theorem forRet_range {ρ : Type} (n s : Nat) (hs : 0 < s) (hb : n * s < 2 ^ 64) (body : Nat → Option ρ) :
    forRet (fun v => ltU v (n * s)) (fun v => addU 64 v s) body (2 ^ 64) 0 =
      (List.range n).findSome? (fun t => body (t * s)) := by
  have hn : n < 2 ^ 64 := Nat.lt_of_le_of_lt (Nat.le_mul_of_pos_right n hs) hb
  have := forRet_stride n s hs hb body n 0 (2 ^ 64) (by omega) (by omega)
  rw [Nat.zero_mul] at this
  rw [this, List.range_eq_range']

/-- unit stride -/
theorem forRet_range1 {ρ : Type} (n : Nat) (hb : n < 2 ^ 64) (body : Nat → Option ρ) :
    forRet (fun v => ltU v n) (fun v => addU 64 v 1) body (2 ^ 64) 0 = (List.range n).findSome? body := by
  have := forRet_range n 1 (by omega) (by omega) body
  simpa using this

/-- a loop whose body can only return the value `r`: it returns `r` iff some iteration does -/
theorem findSome_const {α : Type} (r : Bool) (l : List α) (f : α → Option Bool) (p : α → Bool)
    (hf : ∀ x, f x = if p x then some r else none) :
    l.findSome? f = if l.any p then some r else none := by
  induction l with
  | nil => rfl
  | cons a l ih =>
    simp only [List.findSome?_cons, List.any_cons, hf a]
    by_cases hp : p a = true
    · simp [hp]
    · simp [hp, ih]

theorem findSome_ite {α : Type} (r : Bool) (l : List α) (p : α → Bool) :
    l.findSome? (fun x => if p x then some r else none) = if l.any p then some r else none :=
  findSome_const r l _ p (fun _ => rfl)

theorem getD_ite (A r d : Bool) : (if A = true then some r else none).getD d = if A = true then r else d := by
  cases A <;> rfl

/-- **The generated `operator bool` as `all` / `any`.**  Hypotheses: `vs > 0` (C++: division by zero in `degree / vector_size`),
    and `nm`, `deg`, `vs` below 2^64 (they are `size_t` constants; the counters `cm`, `j`, `k` are `size_t` and the proof
    needs `cm + 1`, `j + vs`, `k + 1` not to wrap, which follows since each counter stays below its bound). -/
theorem expr_to_bool_eq (nm deg vs : Nat) (isEq : Bool) (stored : Nat → Nat → Nat → Nat)
    (hvs : 0 < vs) (hnm : nm < 2 ^ 64) (hdeg : deg < 2 ^ 64) (hvs64 : vs < 2 ^ 64) :
    Gen.BoolAst.expr_to_bool nm vs deg stored isEq =
      if isEq then
        (List.range nm).all fun cm => (List.range (deg / vs)).all fun jb => (List.range vs).all fun t =>
          stored cm (jb * vs) t != 0
      else
        (List.range nm).any fun cm => (List.range (deg / vs)).any fun jb => (List.range vs).any fun t =>
          stored cm (jb * vs) t != 0 := by
  have hle : deg / vs * vs ≤ deg := Nat.div_mul_le_self deg vs
  have h1 : divU 64 deg vs = deg / vs := Nat.mod_eq_of_lt (Nat.lt_of_le_of_lt (Nat.div_le_self _ _) hdeg)
  have h2 : mulU 64 (deg / vs) vs = deg / vs * vs := Nat.mod_eq_of_lt (by omega)
  unfold Gen.BoolAst.expr_to_bool
  simp only [h1, h2, forRet_range1 vs hvs64, forRet_range1 nm hnm, forRet_range (deg / vs) vs hvs (by omega), findSome_ite,
    retOr, CSem.toBool, getD_ite]
  cases isEq
  · simp only [Bool.not_not, Bool.false_eq_true, if_false, Bool.not_false, findSome_ite, getD_ite]
    generalize ((List.range nm).any fun cm => (List.range (deg / vs)).any fun jb => (List.range vs).any fun t =>
      stored cm (jb * vs) t != 0) = A
    cases A <;> rfl
  · simp only [List.all_eq_not_any_not, Bool.not_not, if_true, Bool.not_true, findSome_ite, getD_ite]
    generalize ((List.range nm).any fun cm => (List.range (deg / vs)).any fun jb => (List.range vs).any fun t =>
      !(stored cm (jb * vs) t != 0)) = A
    cases A <;> rfl

open Nfl.Ex

/-- `is_eqmod<Op>::value` for the root of the tree (tied to the trait by the static_asserts of the translator's
    translation unit: true for `eqmod<T,tag>`, false for `neqmod` and the arithmetic functors) -/
def isEqRoot : Expr → Bool
  | .eq _ _ => true
  | _ => false

theorem eltCount_lt (l : Limb) (m : Mode) : eltCount l m < 2 ^ 64 := by
  cases l <;> cases m <;> decide

/-- **The tie.**  On the modelled domain (comparison only at the root) the hand model `exprToBoolM` is the generated
    `operator bool`, run with the class constants of the expression (`nmoduli`, `elt_count<value_type>::value` of its
    `simd_mode`, `degree`), `is_eqmod<Op>::value` of its root and `tmp[k]` = the hand model's `rootWord` — in every
    mode (serial: scalar compare; sse / avx2: 64-bit-lane compare stored element-wise).
    `c.nmod`, `c.deg` < 2^64 because they are `size_t` constants in the C++ (the loop counters must not wrap). -/
theorem exprToBoolM_ast (c : Ctx) (m : Mode) (st : Store) (e : Expr) (hdom : e.inDomain = true)
    (hnm : c.nmod < 2 ^ 64) (hdeg : c.deg < 2 ^ 64) :
    exprToBoolM c m st e =
      some (Gen.BoolAst.expr_to_bool c.nmod (eltCount c.l m) c.deg (fun cm j k => rootWord c m st e cm j k) (isEqRoot e)) := by
  rw [expr_to_bool_eq c.nmod c.deg (eltCount c.l m) (isEqRoot e) _ (eltCount_pos c.l m) hnm hdeg (eltCount_lt c.l m)]
  unfold exprToBoolM
  simp only [hdom, Bool.not_true, Bool.false_eq_true, if_false]
  cases e <;> simp [isEqRoot]

/-- the compiler-checked `static_assert(vector_bound == degree)` is the hand model's / C08's hypothesis
    "the register width divides the degree" -/
theorem static_assert_iff_dvd (c : Ctx) (m : Mode) (isEq : Bool) (hdeg : c.deg < 2 ^ 64) :
    Gen.BoolAst.expr_to_bool_static_assert c.nmod (eltCount c.l m) c.deg isEq = true ↔ eltCount c.l m ∣ c.deg := by
  have hle : c.deg / eltCount c.l m * eltCount c.l m ≤ c.deg := Nat.div_mul_le_self _ _
  have h1 : divU 64 c.deg (eltCount c.l m) = c.deg / eltCount c.l m :=
    Nat.mod_eq_of_lt (Nat.lt_of_le_of_lt (Nat.div_le_self _ _) hdeg)
  have h2 : mulU 64 (c.deg / eltCount c.l m) (eltCount c.l m) = c.deg / eltCount c.l m * eltCount c.l m :=
    Nat.mod_eq_of_lt (by omega)
  simp only [Gen.BoolAst.expr_to_bool_static_assert, h1, h2, eqU, decide_eq_true_eq]
  constructor
  · intro h; exact ⟨c.deg / eltCount c.l m, by rw [Nat.mul_comm]; exact h.symm⟩
  · intro h; exact Nat.div_mul_cancel h

end Nfl.BoolAst
