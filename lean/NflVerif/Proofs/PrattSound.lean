/-
Soundness of the Pratt-certificate checker and of the table-row checker (`Model/Pratt.lean`).
-/
import NflVerif.Model.Pratt
import Mathlib.NumberTheory.LucasPrimality
import Mathlib.Data.ZMod.Basic

namespace Nfl

theorem powModAux_lt (fuel b e m acc : Nat) (hacc : acc < m) : powModAux fuel b e m acc < m := by
  induction fuel generalizing b e acc with
  | zero => simpa [powModAux]
  | succ n ih =>
    unfold powModAux
    cases h0 : Nat.beq e 0
    · simp only [cond_false]
      apply ih
      cases h1 : Nat.beq (e % 2) 1
      · simpa
      · simp only [cond_true]; exact Nat.mod_lt _ (by omega)
    · simpa

theorem powModAux_modEq (fuel b e m acc : Nat) (he : e < 2 ^ fuel) :
    powModAux fuel b e m acc ≡ acc * b ^ e [MOD m] := by
  induction fuel generalizing b e acc with
  | zero =>
    have : e = 0 := by simpa using he
    subst this; simp [powModAux]; exact Nat.ModEq.refl _
  | succ n ih =>
    unfold powModAux
    cases h0 : Nat.beq e 0
    · simp only [cond_false]
      have he2 : e / 2 < 2 ^ n := by
        rw [Nat.div_lt_iff_lt_mul (by norm_num)]; rw [pow_succ] at he; omega
      refine (ih (b * b % m) (e / 2) _ he2).trans ?_
      have hbb : (b * b % m) ^ (e / 2) ≡ (b * b) ^ (e / 2) [MOD m] :=
        (Nat.mod_modEq _ _).pow _
      have hsq : (b * b) ^ (e / 2) = b ^ (2 * (e / 2)) := by rw [pow_mul, pow_two]
      cases h1 : Nat.beq (e % 2) 1
      · simp only [cond_false]
        have hodd : e % 2 = 0 := by
          have := Nat.ne_of_beq_eq_false h1; omega
        have : e = 2 * (e / 2) := by omega
        calc acc * (b * b % m) ^ (e / 2) ≡ acc * (b * b) ^ (e / 2) [MOD m] := hbb.mul_left _
          _ = acc * b ^ e := by rw [hsq, ← this]
      · simp only [cond_true]
        have hodd : e % 2 = 1 := Nat.eq_of_beq_eq_true h1
        have : e = 2 * (e / 2) + 1 := by omega
        calc acc * b % m * (b * b % m) ^ (e / 2) ≡ acc * b * (b * b) ^ (e / 2) [MOD m] :=
              (Nat.mod_modEq _ _).mul hbb
          _ = acc * b ^ e := by
              rw [hsq]; conv_rhs => rw [this, pow_succ]
              ring
    · have : e = 0 := Nat.eq_of_beq_eq_true h0
      subst this; simp; exact Nat.ModEq.refl _

theorem powMod_eq (b e m : Nat) (hm : 0 < m) (he : e < 2 ^ 128) : powMod b e m = b ^ e % m := by
  unfold powMod
  have h1 : 1 % m < m := Nat.mod_lt _ hm
  have hlt := powModAux_lt 128 b e m (1 % m) h1
  have hme := powModAux_modEq 128 b e m (1 % m) he
  have : powModAux 128 b e m (1 % m) ≡ b ^ e [MOD m] := by
    refine hme.trans ?_
    calc 1 % m * b ^ e ≡ 1 * b ^ e [MOD m] := (Nat.mod_modEq _ _).mul_right _
      _ = b ^ e := by ring
  unfold Nat.ModEq at this
  rw [Nat.mod_eq_of_lt hlt] at this
  exact this

theorem memNat_iff (x : Nat) (l : List Nat) : memNat x l = true ↔ x ∈ l := by
  induction l with
  | nil => simp [memNat]
  | cons y t ih =>
    simp only [memNat, Bool.or_eq_true, ih, List.mem_cons]
    constructor
    · rintro (h | h)
      · exact Or.inl (Nat.eq_of_beq_eq_true h)
      · exact Or.inr h
    · rintro (h | h)
      · left; subst h; exact Nat.beq_refl _
      · exact Or.inr h

theorem prime_dvd_prodPow {q : Nat} (hq : q.Prime) :
    ∀ {l : List (Nat × Nat)}, q ∣ prodPow l → ∃ qe ∈ l, q ∣ qe.1
  | [], h => by
    simp [prodPow] at h; exact absurd h hq.one_lt.ne'
  | (a, e) :: t, h => by
    simp only [prodPow] at h
    rcases (Nat.Prime.dvd_mul hq).1 h with h | h
    · exact ⟨(a, e), by simp, hq.dvd_of_dvd_pow h⟩
    · obtain ⟨qe, hm, hd⟩ := prime_dvd_prodPow hq h
      exact ⟨qe, List.mem_cons_of_mem _ hm, hd⟩

theorem PrattLine.check_sound (known : List Nat) (l : PrattLine)
    (hk : ∀ q ∈ known, q.Prime) (h : l.check known = true) : l.p.Prime := by
  unfold PrattLine.check at h
  simp only [Bool.and_eq_true, List.all_eq_true] at h
  obtain ⟨⟨⟨⟨h2, h128⟩, hprod⟩, hpow⟩, hfac⟩ := h
  have h2 : 2 ≤ l.p := Nat.le_of_ble_eq_true h2
  have h128 : l.p < 2 ^ 128 := by
    have := Nat.le_of_ble_eq_true h128; omega
  have hprod : prodPow l.factors = l.p - 1 := Nat.eq_of_beq_eq_true hprod
  have hpow : powMod l.a (l.p - 1) l.p = 1 := Nat.eq_of_beq_eq_true hpow
  have hp0 : 0 < l.p := by omega
  rw [powMod_eq _ _ _ hp0 (by omega)] at hpow
  apply lucas_primality l.p (l.a : ZMod l.p)
  · have : ((l.a ^ (l.p - 1) : ℕ) : ZMod l.p) = ((1 : ℕ) : ZMod l.p) := by
      rw [ZMod.natCast_eq_natCast_iff]; unfold Nat.ModEq; rw [hpow]
      rw [Nat.mod_eq_of_lt]; omega
    simpa using this
  · intro q hq hdvd
    rw [← hprod] at hdvd
    obtain ⟨qe, hmem, hd⟩ := prime_dvd_prodPow hq hdvd
    have hqe := hfac qe hmem
    simp only [Bool.or_eq_true, Bool.not_eq_true'] at hqe
    obtain ⟨⟨he1, hkn⟩, hne⟩ := hqe
    have hqeprime : qe.1.Prime := by
      rcases hkn with h | h
      · rw [Nat.eq_of_beq_eq_true h]; exact Nat.prime_two
      · exact hk _ ((memNat_iff _ _).1 h)
    have hq_eq : q = qe.1 := (Nat.prime_dvd_prime_iff_eq hq hqeprime).1 hd
    subst hq_eq
    have hne : powMod l.a ((l.p - 1) / qe.1) l.p ≠ 1 := Nat.ne_of_beq_eq_false hne
    rw [powMod_eq _ _ _ hp0 (lt_of_le_of_lt (Nat.div_le_self _ _) (by omega))] at hne
    intro hcontra
    apply hne
    have : ((l.a ^ ((l.p - 1) / qe.1) : ℕ) : ZMod l.p) = ((1 : ℕ) : ZMod l.p) := by
      simpa using hcontra
    rw [ZMod.natCast_eq_natCast_iff] at this
    unfold Nat.ModEq at this
    rw [this, Nat.mod_eq_of_lt]; omega

theorem checkChain_sound : ∀ (chain : List PrattLine) (known res : List Nat),
    (∀ q ∈ known, q.Prime) → checkChain chain known = some res → ∀ q ∈ res, q.Prime
  | [], known, res, hk, h => by
    simp [checkChain] at h; subst h; exact hk
  | l :: t, known, res, hk, h => by
    unfold checkChain at h
    split at h
    · rename_i hc
      refine checkChain_sound t (l.p :: known) res ?_ h
      intro q hq
      rcases List.mem_cons.1 hq with rfl | hq
      · exact PrattLine.check_sound known l hk hc
      · exact hk q hq
    · exact absurd h (by simp)

theorem certifies_sound (chain : List PrattLine) (p : Nat) (h : certifies chain p = true) :
    p.Prime := by
  unfold certifies at h
  split at h
  · rename_i known hc
    exact checkChain_sound chain [] known (by simp) hc p ((memNat_iff _ _).1 h)
  · exact absurd h (by simp)

end Nfl
