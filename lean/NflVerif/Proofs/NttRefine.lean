/-
The word-level model of NFLlib's transforms (`Model/Ntt.lean`: `initTables`, `nttPowPhi`,
`invnttPowInvphi`) refines the abstract negacyclic transform (`Proofs/DftDefs.lean`), and the
end-to-end consequences: inverse, linearity, the convolution theorem against the executable oracle
`Spec.negacyclicNat`, and arbitrary arithmetic circuits.

* `NttRefine1`: scalar butterflies, lifting to lists
* `NttRefine2`: tables, blocks, one layer, fused last two layers
* `NttRefine3`: `nttLoop`/`nttWord` = `Dft.dif`, bit reversal
* `NttRefine4`: `Spec.negacyclicNat` is the product in `Z_p[X]/(X^n+1)`
-/
import NflVerif.Proofs.NttRefine3
import NflVerif.Proofs.NttRefine4
import NflVerif.Properties.C03

namespace Nfl.NttRefine
open Nfl

/-- What is assumed about one table row `r`, limb width `w`, maximal degree `2^lk` and degree `2^k`.
Every row of the real tables satisfies it (`C03.row_ok`, `C03.mul_exact`; see the `example` at the
end of this file). -/
structure Ctx (w lk : Nat) (r : Row) (k : Nat) : Prop where
  hw : w = 16 ∨ w = 32 ∨ w = 64
  row : RowOK w lk r
  hk : k ≤ lk
  hlk : lk < w
  hmul : ∀ x y, x < r.p → y < r.p → mulmod w r.p r.pn x y = x * y % r.p

/-- `ntt_pow_phi` with the tables that `core::initialize` builds -/
abbrev fwd (w lk : Nat) (r : Row) (k : Nat) (a : List Nat) : List Nat :=
  nttPowPhi w r.p k (initTables w lk r k) a

/-- `invntt_pow_invphi` with the tables that `core::initialize` builds -/
abbrev inv (w lk : Nat) (r : Row) (k : Nat) (y : List Nat) : List Nat :=
  invnttPowInvphi w r.p k (initTables w lk r k) y

/-- the `2^(k+1)`-th root of unity that the tables are built from -/
abbrev phiZ (lk : Nat) (r : Row) (k : Nat) : ZMod r.p := (r.root : ZMod r.p) ^ (2 ^ (lk - k))

variable {w lk : Nat} {r : Row} {k : Nat}

namespace Ctx

theorem w_ge (h : Ctx w lk r k) : 16 ≤ w := by rcases h.hw with h | h | h <;> omega
theorem p_pos (h : Ctx w lk r k) : 0 < r.p := h.row.p_pos
theorem one_lt (h : Ctx w lk r k) : 1 < r.p := h.row.prime.one_lt
theorem four_p (h : Ctx w lk r k) : 4 * r.p ≤ 2 ^ w := h.row.four_p_le (by have := h.w_ge; omega)
theorem p_lt (h : Ctx w lk r k) : r.p < 2 ^ w := by have := h.four_p; have := h.p_pos; omega

theorem pow_lk_lt (h : Ctx w lk r k) : 2 ^ lk < r.p := by
  have hc := h.row.cong
  have h1 := h.one_lt
  have hd := Nat.div_add_mod r.p (2 * 2 ^ lk)
  rw [hc] at hd
  have hq : 0 < r.p / (2 * 2 ^ lk) := by
    rcases Nat.eq_zero_or_pos (r.p / (2 * 2 ^ lk)) with h0 | h0
    · rw [h0] at hd; omega
    · exact h0
  have := Nat.le_mul_of_pos_right (2 * 2 ^ lk) hq
  have := Nat.two_pow_pos lk
  omega

theorem root_pow (h : Ctx w lk r k) : phiZ lk r k ^ 2 ^ k = -1 := C06.derived_root h.row k h.hk

end Ctx

/-! ### the table words -/

/-- `phi` of `core::initialize` -/
def phiW (w lk : Nat) (r : Row) (k : Nat) : Nat := sqrIter w r.p r.pn (lk - k) r.root

/-- `invphi` of `core::initialize` -/
def invphiW (w lk : Nat) (r : Row) (k : Nat) : Nat :=
  mulmod w r.p r.pn ((iterMul w r.p r.pn (phiW w lk r k) (2 ^ k + 1) 1).getD (2 ^ k) 0)
    ((iterMul w r.p r.pn (phiW w lk r k) (2 ^ k) 1).getD (2 ^ k - 1) 0)

/-- `invpoly` (inverse of the degree) of `core::initialize` -/
def invDegW (w lk : Nat) (r : Row) (k : Nat) : Nat :=
  mulmod w r.p r.pn r.invN ((2 ^ lk / 2 ^ k) % 2 ^ w)

theorem phiW_spec (h : Ctx w lk r k) :
    phiW w lk r k < r.p ∧ ((phiW w lk r k : Nat) : ZMod r.p) = phiZ lk r k :=
  sqrIter_spec h.p_pos h.hmul (lk - k) r.root h.row.root_lt

theorem invphiW_spec (h : Ctx w lk r k) :
    invphiW w lk r k < r.p ∧ ((invphiW w lk r k : Nat) : ZMod r.p) = (phiZ lk r k)⁻¹ := by
  have : Fact r.p.Prime := ⟨h.row.prime⟩
  obtain ⟨f1, f2⟩ := phiW_spec h
  obtain ⟨a1, _, a3⟩ := iterMul_spec h.p_pos h.hmul f1 (2 ^ k + 1) 1 h.one_lt
  obtain ⟨b1, _, b3⟩ := iterMul_spec h.p_pos h.hmul f1 (2 ^ k) 1 h.one_lt
  have hpos : 0 < 2 ^ k := Nat.two_pow_pos k
  obtain ⟨m1, m2⟩ := mulmod_spec h.p_pos h.hmul (a1.getD h.p_pos (2 ^ k)) (b1.getD h.p_pos (2 ^ k - 1))
  refine ⟨m1, ?_⟩
  unfold invphiW
  rw [m2, ← castL_getD, ← castL_getD, a3, b3, Dft.getD_map_range _ _ _ (by omega),
    Dft.getD_map_range _ _ _ (by omega), f2]
  apply eq_inv_of_mul_eq_one_left
  simp only [Nat.cast_one, one_mul]
  have e : (phiZ lk r k ^ 2 ^ k * phiZ lk r k ^ (2 ^ k - 1)) * phiZ lk r k =
      phiZ lk r k ^ 2 ^ k * phiZ lk r k ^ (2 ^ k - 1 + 1) := by rw [pow_succ]; ring
  rw [e, Nat.sub_add_cancel hpos, h.root_pow]; ring

theorem invDegW_spec (h : Ctx w lk r k) :
    invDegW w lk r k < r.p ∧ ((invDegW w lk r k : Nat) : ZMod r.p) = ((2 ^ k : ℕ) : ZMod r.p)⁻¹ := by
  have : Fact r.p.Prime := ⟨h.row.prime⟩
  have hle : 2 ^ lk / 2 ^ k ≤ 2 ^ lk := Nat.div_le_self _ _
  have hlt := h.pow_lk_lt
  have hpw := h.p_lt
  have hmod : (2 ^ lk / 2 ^ k) % 2 ^ w = 2 ^ lk / 2 ^ k := Nat.mod_eq_of_lt (by omega)
  obtain ⟨m1, m2⟩ := mulmod_spec h.p_pos h.hmul h.row.inv_lt (by omega : 2 ^ lk / 2 ^ k < r.p)
  unfold invDegW
  rw [hmod]
  refine ⟨m1, ?_⟩
  rw [m2]
  apply eq_inv_of_mul_eq_one_left
  have := C06.derived_invN h.row k h.hk
  rw [Nat.cast_mul] at this
  exact this

theorem fwd_eq (w lk : Nat) (r : Row) (k : Nat) (a : List Nat) :
    fwd w lk r k a =
      nttWord w r.p k
        (prepWtab w r.p r.pn k (mulmod w r.p r.pn (phiW w lk r k) (phiW w lk r k)))
        ((prepWtab w r.p r.pn k (mulmod w r.p r.pn (phiW w lk r k) (phiW w lk r k))).map
          (shoupOf w r.p))
        (mulShoupList w r.p a (iterMul w r.p r.pn (phiW w lk r k) (2 ^ k) 1)
          ((iterMul w r.p r.pn (phiW w lk r k) (2 ^ k) 1).map (shoupOf w r.p))) := rfl

theorem inv_eq (w lk : Nat) (r : Row) (k : Nat) (y : List Nat) :
    inv w lk r k y =
      mulShoupList w r.p
        (invNttWord w r.p k
          (prepWtab w r.p r.pn k (mulmod w r.p r.pn (invphiW w lk r k) (invphiW w lk r k)))
          ((prepWtab w r.p r.pn k (mulmod w r.p r.pn (invphiW w lk r k) (invphiW w lk r k))).map
            (shoupOf w r.p)) y)
        (iterMul w r.p r.pn (invphiW w lk r k) (2 ^ k) (invDegW w lk r k))
        ((iterMul w r.p r.pn (invphiW w lk r k) (2 ^ k) (invDegW w lk r k)).map (shoupOf w r.p)) :=
  rfl

theorem Canonical.lt_word (h : Ctx w lk r k) {a : List Nat} (hc : Canonical r.p a) :
    ∀ x ∈ a, x < 2 ^ w := fun x hx => by
  have := hc x hx; have := h.p_lt; omega

/-! ### 1. the forward transform -/

theorem fwd_full (h : Ctx w lk r k) (a : List Nat) (ha : a.length = 2 ^ k) (hc : Canonical r.p a) :
    Canonical r.p (fwd w lk r k a) ∧ (fwd w lk r k a).length = 2 ^ k ∧
      castL r.p (fwd w lk r k a) = Dft.nttSpec k (phiZ lk r k) (castL r.p a) := by
  obtain ⟨f1, f2⟩ := phiW_spec h
  obtain ⟨o1, o2⟩ := mulmod_spec h.p_pos h.hmul f1 f1
  obtain ⟨t1, t2, _⟩ := iterMul_spec h.p_pos h.hmul f1 (2 ^ k) 1 h.one_lt
  have t3 := iterMul_one_cast h.p_pos h.one_lt h.hmul f1 (2 ^ k)
  obtain ⟨m1, m2, m3⟩ := mulShoupList_spec h.hw h.p_pos h.four_p a _ (Canonical.lt_word h hc) t1
  obtain ⟨n1, n2, n3⟩ := nttWord_spec h.hw h.p_pos h.one_lt h.four_p h.hmul k o1 _
    (by rw [m2, ha, t2]; simp) m1
  rw [fwd_eq]
  refine ⟨n1, n2, ?_⟩
  rw [n3, m3, t3, o2, f2]
  unfold Dft.nttSpec Dft.twist
  simp [castL, ha]

/-- **forward transform**: the word-level `ntt_pow_phi` computes the abstract negacyclic transform. -/
theorem fwd_spec (h : Ctx w lk r k) (a : List Nat) (ha : a.length = 2 ^ k) (hc : Canonical r.p a) :
    (fwd w lk r k a).map (fun (x : Nat) => (x : ZMod r.p)) =
      Dft.nttSpec k ((r.root : ZMod r.p) ^ (2 ^ (lk - k))) (a.map (fun (x : Nat) => (x : ZMod r.p))) :=
  (fwd_full h a ha hc).2.2

theorem fwd_canonical (h : Ctx w lk r k) (a : List Nat) (ha : a.length = 2 ^ k)
    (hc : Canonical r.p a) :
    Canonical r.p (fwd w lk r k a) ∧ (fwd w lk r k a).length = 2 ^ k :=
  ⟨(fwd_full h a ha hc).1, (fwd_full h a ha hc).2.1⟩

/-! ### 2. the inverse transform -/

theorem inv_full (h : Ctx w lk r k) (y : List Nat) (hy : y.length = 2 ^ k) (hc : Canonical r.p y) :
    Canonical r.p (inv w lk r k y) ∧ (inv w lk r k y).length = 2 ^ k ∧
      castL r.p (inv w lk r k y) =
        Dft.invSpec k (phiZ lk r k)⁻¹ ((2 ^ k : ℕ) : ZMod r.p)⁻¹ (castL r.p y) := by
  obtain ⟨f1, f2⟩ := invphiW_spec h
  obtain ⟨d1, d2⟩ := invDegW_spec h
  obtain ⟨o1, o2⟩ := mulmod_spec h.p_pos h.hmul f1 f1
  obtain ⟨t1, t2, t3⟩ := iterMul_spec h.p_pos h.hmul f1 (2 ^ k) _ d1
  obtain ⟨p1, p2, p3⟩ := permutW_spec h.p_pos k y hc
  obtain ⟨n1, n2, n3⟩ := nttWord_spec h.hw h.p_pos h.one_lt h.four_p h.hmul k o1 _ p2 p1
  obtain ⟨q1, q2, q3⟩ := permutW_spec h.p_pos k _ n1
  obtain ⟨m1, m2, m3⟩ := mulShoupList_spec h.hw h.p_pos h.four_p _ _ (Canonical.lt_word h q1) t1
  rw [inv_eq, invNttWord_eq _ _ _ _ _ _ hy]
  refine ⟨m1, by rw [m2, q2, t2]; simp, ?_⟩
  rw [m3, q3, n3, p3, t3, o2, f2, d2]
  unfold Dft.invSpec Dft.powers
  rw [List.map_map]
  rfl

/-- **inverse transform**: the word-level `invntt_pow_invphi` computes the abstract inverse
(`φ⁻¹`, `n⁻¹` are inverses in the field `ZMod p`). -/
theorem inv_spec (h : Ctx w lk r k) (y : List Nat) (hy : y.length = 2 ^ k) (hc : Canonical r.p y) :
    (inv w lk r k y).map (fun (x : Nat) => (x : ZMod r.p)) =
      Dft.invSpec k ((r.root : ZMod r.p) ^ (2 ^ (lk - k)))⁻¹ ((2 ^ k : ℕ) : ZMod r.p)⁻¹
        (y.map (fun (x : Nat) => (x : ZMod r.p))) :=
  (inv_full h y hy hc).2.2

theorem inv_canonical (h : Ctx w lk r k) (y : List Nat) (hy : y.length = 2 ^ k)
    (hc : Canonical r.p y) :
    Canonical r.p (inv w lk r k y) ∧ (inv w lk r k y).length = 2 ^ k :=
  ⟨(inv_full h y hy hc).1, (inv_full h y hy hc).2.1⟩

/-! ### 3. the two transforms are mutually inverse (on words) -/

theorem phi_inv_mul (h : Ctx w lk r k) : (phiZ lk r k)⁻¹ * phiZ lk r k = 1 := by
  have : Fact r.p.Prime := ⟨h.row.prime⟩
  apply inv_mul_cancel₀
  intro h0
  have h1 := h.root_pow
  rw [h0, zero_pow (Nat.two_pow_pos k).ne'] at h1
  have : (1 : ZMod r.p) = 0 := by linear_combination h1
  exact one_ne_zero this

theorem ninv_mul (h : Ctx w lk r k) : ((2 ^ k : ℕ) : ZMod r.p)⁻¹ * (2 ^ k : ZMod r.p) = 1 := by
  have : Fact r.p.Prime := ⟨h.row.prime⟩
  have h1 := C06.derived_invN h.row k h.hk
  have hne : ((2 ^ k : ℕ) : ZMod r.p) ≠ 0 := by
    intro h0
    rw [h0, mul_zero] at h1
    exact zero_ne_one h1
  have := inv_mul_cancel₀ hne
  push_cast at this ⊢
  exact this

theorem inv_fwd (h : Ctx w lk r k) (a : List Nat) (ha : a.length = 2 ^ k) (hc : Canonical r.p a) :
    inv w lk r k (fwd w lk r k a) = a := by
  obtain ⟨f1, f2, f3⟩ := fwd_full h a ha hc
  obtain ⟨i1, _, i3⟩ := inv_full h _ f2 f1
  apply castL_inj h.p_pos i1 hc
  rw [i3, f3]
  exact Dft.inv_ntt k _ _ _ _ h.root_pow (phi_inv_mul h) (ninv_mul h) (by simpa [castL] using ha)

theorem fwd_inv (h : Ctx w lk r k) (y : List Nat) (hy : y.length = 2 ^ k) (hc : Canonical r.p y) :
    fwd w lk r k (inv w lk r k y) = y := by
  obtain ⟨i1, i2, i3⟩ := inv_full h y hy hc
  obtain ⟨f1, _, f3⟩ := fwd_full h _ i2 i1
  apply castL_inj h.p_pos f1 hc
  rw [f3, i3]
  exact Dft.ntt_inv k _ _ _ _ h.root_pow (phi_inv_mul h) (ninv_mul h) (by simpa [castL] using hy)

/-! ### 4. linearity -/

theorem zipWith_len {α β γ : Type*} (f : α → β → γ) (a : List α) (b : List β) (n : Nat)
    (ha : a.length = n) (hb : b.length = n) : (List.zipWith f a b).length = n := by
  simp [ha, hb]

theorem addL_spec (h : Ctx w lk r k) (a b : List Nat) (ha : Canonical r.p a) (hb : Canonical r.p b) :
    Canonical r.p (List.zipWith (addmod w r.p) a b) ∧
      castL r.p (List.zipWith (addmod w r.p) a b) =
        List.zipWith (· + ·) (castL r.p a) (castL r.p b) :=
  zipWith_spec r.p r.p (addmod w r.p) (· + ·)
    (fun _ _ hx hy => addmod_spec h.four_p h.p_pos hx hy) a b ha hb

theorem subL_spec (h : Ctx w lk r k) (a b : List Nat) (ha : Canonical r.p a) (hb : Canonical r.p b) :
    Canonical r.p (List.zipWith (submod w r.p) a b) ∧
      castL r.p (List.zipWith (submod w r.p) a b) =
        List.zipWith (· - ·) (castL r.p a) (castL r.p b) :=
  zipWith_spec r.p r.p (submod w r.p) (· - ·)
    (fun _ _ hx hy => submod_spec h.four_p h.p_pos hx hy) a b ha hb

theorem mulL_spec (h : Ctx w lk r k) (a b : List Nat) (ha : Canonical r.p a) (hb : Canonical r.p b) :
    Canonical r.p (List.zipWith (mulmod w r.p r.pn) a b) ∧
      castL r.p (List.zipWith (mulmod w r.p r.pn) a b) =
        List.zipWith (· * ·) (castL r.p a) (castL r.p b) :=
  zipWith_spec r.p r.p (mulmod w r.p r.pn) (· * ·)
    (fun _ _ hx hy => mulmod_spec h.p_pos h.hmul hx hy) a b ha hb

theorem fwd_add (h : Ctx w lk r k) (a b : List Nat) (ha : a.length = 2 ^ k) (hb : b.length = 2 ^ k)
    (hca : Canonical r.p a) (hcb : Canonical r.p b) :
    fwd w lk r k (List.zipWith (addmod w r.p) a b) =
      List.zipWith (addmod w r.p) (fwd w lk r k a) (fwd w lk r k b) := by
  obtain ⟨s1, s2⟩ := addL_spec h a b hca hcb
  obtain ⟨a1, _, a3⟩ := fwd_full h a ha hca
  obtain ⟨b1, _, b3⟩ := fwd_full h b hb hcb
  obtain ⟨f1, _, f3⟩ := fwd_full h _ (zipWith_len _ a b _ ha hb) s1
  obtain ⟨r1, r2⟩ := addL_spec h _ _ a1 b1
  apply castL_inj h.p_pos f1 r1
  rw [f3, s2, r2, a3, b3]
  exact Dft.nttSpec_add k _ _ _ (by simpa [castL] using ha) (by simpa [castL] using hb)

theorem fwd_sub (h : Ctx w lk r k) (a b : List Nat) (ha : a.length = 2 ^ k) (hb : b.length = 2 ^ k)
    (hca : Canonical r.p a) (hcb : Canonical r.p b) :
    fwd w lk r k (List.zipWith (submod w r.p) a b) =
      List.zipWith (submod w r.p) (fwd w lk r k a) (fwd w lk r k b) := by
  obtain ⟨s1, s2⟩ := subL_spec h a b hca hcb
  obtain ⟨a1, _, a3⟩ := fwd_full h a ha hca
  obtain ⟨b1, _, b3⟩ := fwd_full h b hb hcb
  obtain ⟨f1, _, f3⟩ := fwd_full h _ (zipWith_len _ a b _ ha hb) s1
  obtain ⟨r1, r2⟩ := subL_spec h _ _ a1 b1
  apply castL_inj h.p_pos f1 r1
  rw [f3, s2, r2, a3, b3]
  exact Dft.nttSpec_sub k _ _ _ (by simpa [castL] using ha) (by simpa [castL] using hb)

/-! ### 5. the convolution theorem against the executable oracle -/

/-- **C01/C02 end to end**: transform, multiply point-wise, transform back = schoolbook product in
`Z_p[X]/(X^n+1)` with coefficients in `[0,p)` — equality of word lists. -/
theorem product (h : Ctx w lk r k) (a b : List Nat) (ha : a.length = 2 ^ k) (hb : b.length = 2 ^ k)
    (hca : Canonical r.p a) (hcb : Canonical r.p b) :
    inv w lk r k (List.zipWith (mulmod w r.p r.pn) (fwd w lk r k a) (fwd w lk r k b)) =
      Spec.negacyclicNat r.p a b := by
  obtain ⟨a1, a2, a3⟩ := fwd_full h a ha hca
  obtain ⟨b1, b2, b3⟩ := fwd_full h b hb hcb
  obtain ⟨m1, m2⟩ := mulL_spec h _ _ a1 b1
  obtain ⟨i1, _, i3⟩ := inv_full h _ (zipWith_len _ _ _ _ a2 b2) m1
  obtain ⟨s1, _, s3⟩ := negacyclicNat_spec r.p h.p_pos a b
  apply castL_inj h.p_pos i1 s3
  have s1' : castL r.p (Spec.negacyclicNat r.p a b) =
      Dft.negacyclic a.length (castL r.p a) (castL r.p b) := s1
  rw [i3, m2, a3, b3, s1', ha]
  exact Dft.ntt_mul k _ _ _ _ _ h.root_pow (phi_inv_mul h) (ninv_mul h)
    (by simpa [castL] using ha) (by simpa [castL] using hb)

theorem computeShoup_eq_shoupOf (h : Ctx w lk r k) {y : Nat} (hy : y < r.p) :
    computeShoup w r.p y = shoupOf w r.p y := by
  have := h.four_p
  rw [computeShoup_spec h.p_pos (by omega) y, Nat.mod_eq_of_lt hy, shoupOf_eq h.p_pos (by omega) hy]

/-- the same with the Shoup multiplication `shoup(a * b, compute_shoup(b))` -/
theorem product_shoup (h : Ctx w lk r k) (a b : List Nat) (ha : a.length = 2 ^ k)
    (hb : b.length = 2 ^ k) (hca : Canonical r.p a) (hcb : Canonical r.p b) :
    inv w lk r k (mulShoupList w r.p (fwd w lk r k a) (fwd w lk r k b)
        ((fwd w lk r k b).map (computeShoup w r.p))) =
      Spec.negacyclicNat r.p a b := by
  obtain ⟨a1, a2, a3⟩ := fwd_full h a ha hca
  obtain ⟨b1, b2, b3⟩ := fwd_full h b hb hcb
  have hsh : (fwd w lk r k b).map (computeShoup w r.p) = (fwd w lk r k b).map (shoupOf w r.p) :=
    List.map_congr_left (fun y hy => computeShoup_eq_shoupOf h (b1 y hy))
  rw [hsh]
  obtain ⟨m1, m2, m3⟩ := mulShoupList_spec h.hw h.p_pos h.four_p _ _ (Canonical.lt_word h a1) b1
  obtain ⟨i1, _, i3⟩ := inv_full h _ (by rw [m2, a2, b2]; simp) m1
  obtain ⟨s1, _, s3⟩ := negacyclicNat_spec r.p h.p_pos a b
  apply castL_inj h.p_pos i1 s3
  have s1' : castL r.p (Spec.negacyclicNat r.p a b) =
      Dft.negacyclic a.length (castL r.p a) (castL r.p b) := s1
  rw [i3, m3, a3, b3, s1', ha]
  exact Dft.ntt_mul k _ _ _ _ _ h.root_pow (phi_inv_mul h) (ninv_mul h)
    (by simpa [castL] using ha) (by simpa [castL] using hb)

/-! ### 7. arbitrary circuits -/

/-- arithmetic circuits over polynomial variables -/
inductive Circuit where
  | var (i : Nat)
  | add (a b : Circuit)
  | sub (a b : Circuit)
  | mul (a b : Circuit)

/-- evaluation on evaluation-form (transformed) operands: every gate is point-wise -/
def evalPointwise (w p pn : Nat) : Circuit → (Nat → List Nat) → List Nat
  | .var i, env => env i
  | .add a b, env => List.zipWith (addmod w p) (evalPointwise w p pn a env) (evalPointwise w p pn b env)
  | .sub a b, env => List.zipWith (submod w p) (evalPointwise w p pn a env) (evalPointwise w p pn b env)
  | .mul a b, env => List.zipWith (mulmod w p pn) (evalPointwise w p pn a env) (evalPointwise w p pn b env)

/-- evaluation in the ring `Z_p[X]/(X^n+1)` on coefficient lists -/
def evalRing (w p : Nat) : Circuit → (Nat → List Nat) → List Nat
  | .var i, env => env i
  | .add a b, env => List.zipWith (addmod w p) (evalRing w p a env) (evalRing w p b env)
  | .sub a b, env => List.zipWith (submod w p) (evalRing w p a env) (evalRing w p b env)
  | .mul a b, env => Spec.negacyclicNat p (evalRing w p a env) (evalRing w p b env)

theorem circuit_aux (h : Ctx w lk r k) (env : Nat → List Nat)
    (henv : ∀ i, (env i).length = 2 ^ k ∧ Canonical r.p (env i)) (c : Circuit) :
    (evalRing w r.p c env).length = 2 ^ k ∧ Canonical r.p (evalRing w r.p c env) ∧
      evalPointwise w r.p r.pn c (fun i => fwd w lk r k (env i)) =
        fwd w lk r k (evalRing w r.p c env) := by
  induction c with
  | var i => exact ⟨(henv i).1, (henv i).2, rfl⟩
  | add a b iha ihb =>
    obtain ⟨a1, a2, a3⟩ := iha
    obtain ⟨b1, b2, b3⟩ := ihb
    refine ⟨zipWith_len _ _ _ _ a1 b1, (addL_spec h _ _ a2 b2).1, ?_⟩
    simp only [evalPointwise, evalRing]
    rw [a3, b3, fwd_add h _ _ a1 b1 a2 b2]
  | sub a b iha ihb =>
    obtain ⟨a1, a2, a3⟩ := iha
    obtain ⟨b1, b2, b3⟩ := ihb
    refine ⟨zipWith_len _ _ _ _ a1 b1, (subL_spec h _ _ a2 b2).1, ?_⟩
    simp only [evalPointwise, evalRing]
    rw [a3, b3, fwd_sub h _ _ a1 b1 a2 b2]
  | mul a b iha ihb =>
    obtain ⟨a1, a2, a3⟩ := iha
    obtain ⟨b1, b2, b3⟩ := ihb
    obtain ⟨_, s2, s3⟩ := negacyclicNat_spec r.p h.p_pos (evalRing w r.p a env) (evalRing w r.p b env)
    refine ⟨by rw [← a1]; exact s2, s3, ?_⟩
    simp only [evalPointwise, evalRing]
    rw [a3, b3, ← product h _ _ a1 b1 a2 b2]
    obtain ⟨fa1, fa2⟩ := fwd_canonical h _ a1 a2
    obtain ⟨fb1, fb2⟩ := fwd_canonical h _ b1 b2
    exact (fwd_inv h _ (zipWith_len _ _ _ _ fa2 fb2) (mulL_spec h _ _ fa1 fb1).1).symm

/-- **any circuit of additions, subtractions and multiplications** evaluated point-wise on
transformed inputs and transformed back equals its evaluation in `Z_p[X]/(X^n+1)`. -/
theorem circuit (h : Ctx w lk r k) (env : Nat → List Nat)
    (henv : ∀ i, (env i).length = 2 ^ k ∧ Canonical r.p (env i)) (c : Circuit) :
    inv w lk r k (evalPointwise w r.p r.pn c (fun i => fwd w lk r k (env i))) =
      evalRing w r.p c env := by
  obtain ⟨c1, c2, c3⟩ := circuit_aux h env henv c
  rw [c3, inv_fwd h _ c1 c2]

/-! ### non-vacuity: the hypotheses hold for every row of the real tables -/

theorem ctx_of_row (l : C03.Limb) {r : Row} (hr : r ∈ l.table.rows) {k : Nat} (hk : k ≤ l.lk) :
    Ctx l.w l.lk r k where
  hw := l.w_cases
  row := C03.row_ok l r hr
  hk := hk
  hlk := by cases l <;> simp [C03.Limb.w, C03.Limb.lk]
  hmul := fun _ _ hx hy => C03.mul_exact l hr hx hy

example : Ctx 16 9 ⟨15361, 17458, 4989, 15331⟩ 3 :=
  ctx_of_row C03.Limb.w16 (by decide) (by decide)

end Nfl.NttRefine
