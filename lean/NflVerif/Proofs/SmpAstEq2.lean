/-
Whole-function equalities for the two remaining members re-translated by tools/gen_smp_ast.py (Generated/SmpAst.lean):
  * set(hwt_dist): the generated k-loop / `for(;;)` rejection loop with buffer refills (Smp.forFromM over Smp.loopM, budget Smp.loopFuel)
    refines the hand model's `runTape` / `runBuf` for EVERY tape (the budget is never exhausted), `StdSem.sortAll = isort`,
    `memset 0 = zeros`, the flat ±1 writes = `hwtWrite` per modulus; the request sizes are `8·h` per consumed buffer;
  * set(It first, It last, bool): the two whileFuel loops are the copy prefix and the zero padding of each row, with the rewind of
    `viter` per modulus; the result read through `rows` is `setValues` of the slice `vals[first, last)`.
-/
import NflVerif.Proofs.SmpAstEq
import NflVerif.Proofs.SamplersHwt

set_option linter.unusedVariables false
namespace Nfl.SmpAstEq2
open Nfl Nfl.Samplers Nfl.CSem Nfl.Smp Nfl.SetAstEq Nfl.SmpAstEq

/-! ## set(hwt_dist) -/

abbrev LSt := IO × List Nat × Nat × Nat
abbrev KSt := IO × List Nat × List Nat × Nat

/-- one iteration of the `for(;;)` loop (same term as in `hwtLoop`) -/
def innerBody (acceptf : Nat → Nat → Bool) (indexf : Nat → Nat → Nat) (k rnd_end : Nat) (st2 : LSt) : Res (LSt × Bool) :=
  let io := st2.1
  let rnd := st2.2.1
  let rnd_ptr := st2.2.2.1
  let pos := st2.2.2.2
  (if Smp.ptrEq rnd_ptr rnd_end then
      (Smp.frb 8 rnd (mulU 64 (StdSem.vecSize rnd) 8) io).bind fun st4 =>
      let rnd := st4.1
      let io := st4.2
      let rnd_ptr := (StdSem.vecBegin rnd)
      Smp.Res.ok (io, rnd, rnd_ptr)
    else
      Smp.Res.ok (io, rnd, rnd_ptr)
    ).bind fun st3 =>
  let io := st3.1
  let rnd := st3.2.1
  let rnd_ptr := st3.2.2
  let pos := Smp.load rnd rnd_ptr
  let rnd_ptr := Smp.ptrAdd rnd_ptr 1
  if acceptf k pos then
    let pos := indexf k pos
    Smp.Res.ok ((io, rnd, rnd_ptr, pos), true)
  else
    Smp.Res.ok ((io, rnd, rnd_ptr, pos), false)

/-- what follows the `for(;;)` loop in one iteration of the k-loop -/
def afterBody (resf : Nat → Nat → Nat → Nat → Nat) (mode_hwt k : Nat) (hitted : List Nat) (st2 : LSt) : Res KSt :=
  let io := st2.1
  let rnd := st2.2.1
  let rnd_ptr := st2.2.2.1
  let pos := st2.2.2.2
  let hitted := Smp.store hitted pos (resf mode_hwt k pos (Smp.load hitted pos))
  Smp.Res.ok (io, hitted, rnd, rnd_ptr)

def outerBody (acceptf : Nat → Nat → Bool) (indexf : Nat → Nat → Nat) (resf : Nat → Nat → Nat → Nat → Nat)
    (mode_hwt rnd_end : Nat) (st1 : KSt) (k : Nat) : Res KSt :=
  (Smp.loopM (innerBody acceptf indexf k rnd_end) (Smp.loopFuel st1.1 st1.2.2.1) (st1.1, st1.2.2.1, st1.2.2.2, castSU 64 0)).bind
    (afterBody resf mode_hwt k st1.2.1)

theorem hwtLoop_eq (acceptf : Nat → Nat → Bool) (indexf : Nat → Nat → Nat) (resf : Nat → Nat → Nat → Nat → Nat)
    (degree mode_hwt : Nat) (io : IO) (hitted rnd : List Nat) (rnd_ptr rnd_end : Nat) :
    hwtLoop acceptf indexf resf degree mode_hwt io hitted rnd rnd_ptr rnd_end =
      Smp.forFromM 64 (castU 64 mode_hwt) degree (outerBody acceptf indexf resf mode_hwt rnd_end) (io, hitted, rnd, rnd_ptr) := rfl

theorem inner_consume (acceptf : Nat → Nat → Bool) (indexf : Nat → Nat → Nat) (k e : Nat) (io : IO) (rnd : List Nat) (ptr pos : Nat)
    (hne : ptr ≠ e) :
    innerBody acceptf indexf k e (io, rnd, ptr, pos) =
      if acceptf k (rnd.getD ptr 0) then .ok ((io, rnd, ptr + 1, indexf k (rnd.getD ptr 0)), true)
      else .ok ((io, rnd, ptr + 1, rnd.getD ptr 0), false) := by
  simp only [innerBody, Smp.ptrEq, decide_eq_false hne, Bool.false_eq_true, if_false, Res.bind_ok, Smp.load, Smp.ptrAdd]
  rfl

theorem refill_words (h : Nat) (rnd req : List Nat) (hl : rnd.length = h) :
    rnd.mapIdx (fun j old => overWord 8 (fun t => req.getD t 0) (8 * h) j old) = words64 h req := by
  apply List.ext_getElem
  · simp [words64, hl]
  · intro j h1 h2
    simp only [List.length_mapIdx] at h1
    simp only [List.getElem_mapIdx, words64, List.getElem_map, List.getElem_range]
    exact overWord_full 8 req (8 * h) j _ (by omega)

theorem inner_refill (acceptf : Nat → Nat → Bool) (indexf : Nat → Nat → Nat) (k h : Nat) (req : List Nat) (t : Tape) (reqs rnd : List Nat)
    (pos : Nat) (hl : rnd.length = h) (h0 : 0 < h) (h8 : h * 8 < 2 ^ 64) :
    innerBody acceptf indexf k h (⟨req :: t, reqs⟩, rnd, h, pos) =
      innerBody acceptf indexf k h (⟨t, reqs ++ [8 * h]⟩, words64 h req, 0, pos) := by
  have e : mulU 64 (StdSem.vecSize rnd) 8 = 8 * h := by
    unfold mulU StdSem.vecSize; rw [hl, Nat.mod_eq_of_lt h8, Nat.mul_comm]
  have hne : (0 : Nat) ≠ h := by omega
  simp only [innerBody, Smp.ptrEq, decide_eq_false hne, Bool.false_eq_true, if_false, e, frb_cons,
    Res.bind_ok, StdSem.vecBegin, refill_words h rnd req hl]
  rfl

theorem inner_end (acceptf : Nat → Nat → Bool) (indexf : Nat → Nat → Nat) (k h : Nat) (reqs rnd : List Nat) (pos : Nat) :
    innerBody acceptf indexf k h (⟨[], reqs⟩, rnd, h, pos) = .err .tapeEnd := by
  simp only [innerBody, Smp.ptrEq, frb_nil, Res.bind_err]
  rfl

/-! ### the hand model's positions phase as one function of (k, reservoir, unread words of the buffer, unread tape) -/

def M (h n k : Nat) (hit buf : List Nat) (tape : Tape) : Option (HwtSt × Tape) := runTape h n (runBuf h n ⟨k, hit⟩ buf) tape

theorem M_done (h n k : Nat) (hit buf : List Nat) (tape : Tape) (hk : k ≥ n) : M h n k hit buf tape = some (⟨k, hit⟩, tape) := by
  have e : runBuf h n ⟨k, hit⟩ buf = ⟨k, hit⟩ := by cases buf <;> simp [runBuf, hk]
  unfold M; rw [e]; cases tape <;> simp [runTape, hk]

theorem M_nil_nil (h n k : Nat) (hit : List Nat) (hk : k < n) : M h n k hit [] [] = none := by
  simp [M, runBuf, runTape, hk]

theorem resStep_length (h : Nat) (hit : List Nat) (k pos : Nat) : (resStep h hit k pos).length = hit.length := by
  unfold resStep; split <;> simp

theorem M_nil_cons (h n k : Nat) (hit req : List Nat) (t : Tape) (hk : k < n) :
    M h n k hit [] (req :: t) = M h n k hit (words64 h req) t := by
  simp [M, runBuf, runTape, Nat.not_le.2 hk]

theorem M_cons_acc (h n k x : Nat) (hit b : List Nat) (tape : Tape) (hk : k < n) (ha : accept k x = true) :
    M h n k hit (x :: b) tape = M h n (k + 1) (resStep h hit k (x % (k + 1))) b tape := by
  simp [M, runBuf, Nat.not_le.2 hk, ha]

theorem M_cons_rej (h n k x : Nat) (hit b : List Nat) (tape : Tape) (hk : k < n) (ha : accept k x = false) :
    M h n k hit (x :: b) tape = M h n k hit b tape := by
  simp [M, runBuf, Nat.not_le.2 hk, ha]

/-- the generated k-loop (result `g`) agrees with the model's positions phase (result `m`): same reservoir, same unread tape, one
request of `8·h` bytes recorded per consumed buffer; a tape that ends too early is `tapeEnd` on both sides -/
def Rel (h : Nat) (reqs : List Nat) (tape : Tape) (m : Option (HwtSt × Tape)) (g : Res KSt) : Prop :=
  match m with
  | none => g = .err .tapeEnd
  | some (st', rest) => ∃ (c : Tape) (rnd' : List Nat) (ptr' : Nat), tape = c ++ rest ∧ rnd'.length = h ∧
      g = .ok (⟨rest, reqs ++ List.replicate c.length (8 * h)⟩, st'.hit, rnd', ptr')

theorem Rel_refill (h : Nat) (reqs req : List Nat) (t : Tape) (m : Option (HwtSt × Tape)) (g : Res KSt)
    (hr : Rel h (reqs ++ [8 * h]) t m g) : Rel h reqs (req :: t) m g := by
  unfold Rel at hr ⊢
  cases m with
  | none => exact hr
  | some a =>
    obtain ⟨st', rest⟩ := a
    obtain ⟨c, rnd', ptr', e1, e2, e3⟩ := hr
    refine ⟨req :: c, rnd', ptr', by rw [e1]; rfl, e2, ?_⟩
    rw [e3, List.length_cons, List.replicate_succ, List.append_assoc]; rfl

/-- the contracts of the three straight-line pieces used by the positions phase -/
structure Pieces (h : Nat) (acceptf : Nat → Nat → Bool) (indexf : Nat → Nat → Nat) (resf : Nat → Nat → Nat → Nat → Nat) : Prop where
  acc : ∀ k x, k + 1 < 2 ^ 64 → acceptf k x = accept k x
  idx : ∀ k x, k + 1 < 2 ^ 64 → x < 2 ^ 64 → indexf k x = x % (k + 1)
  res : ∀ k pos (hit : List Nat), hit.length = h → hit.set pos (resf h k pos (hit.getD pos 0)) = resStep h hit k pos

theorem words64_lt (h : Nat) (req : List Nat) : ∀ x ∈ words64 h req, x < 2 ^ 64 := by
  intro x hx
  simp only [words64, List.mem_map, List.mem_range] at hx
  obtain ⟨j, _, rfl⟩ := hx
  have := wordAt_lt 8 req j
  simpa using this

theorem forFromMAux_step {σ : Type} (k B : Nat) (body : σ → Nat → Res σ) (fuel i : Nat) (s : σ) (hi : i < B) (hB : B < 2 ^ k) :
    forFromMAux k B body (fuel + 1) i s = (body s i).bind (forFromMAux k B body fuel (i + 1)) := by
  have : (i + 1) % 2 ^ k = i + 1 := Nat.mod_eq_of_lt (by omega)
  simp only [forFromMAux, hi, if_true, this]

/-- REFINEMENT of the reservoir phase: from any point inside the `for(;;)` loop of iteration `k` (buffer `rnd`, read pointer `ptr`, unread tape),
with any budget `fuel` of at least (unread words + h·unread buffers + 1) iterations, the rest of the generated k-loop computes what the model's
`runBuf` / `runTape` compute from the unread words; in particular it never ends with `err fuel`.  Induction on the measure
(unread words) + (h+1)·(unread buffers). -/
theorem loop_refine {h n : Nat} {acceptf : Nat → Nat → Bool} {indexf : Nat → Nat → Nat} {resf : Nat → Nat → Nat → Nat → Nat}
    (hp : Pieces h acceptf indexf resf) (h0 : 0 < h) (h8 : h * 8 < 2 ^ 64) (hn : n < 2 ^ 64) :
    ∀ (m k : Nat) (hit : List Nat) (tape : Tape) (reqs rnd : List Nat) (ptr pos fuel : Nat), k < n → hit.length = h → rnd.length = h → ptr ≤ h →
      (∀ x ∈ rnd, x < 2 ^ 64) → (h - ptr) + tape.length * (h + 1) ≤ m → (h - ptr) + tape.length * h + 1 ≤ fuel →
      Rel h reqs tape (M h n k hit (rnd.drop ptr) tape)
        (((loopM (innerBody acceptf indexf k h) fuel (⟨tape, reqs⟩, rnd, ptr, pos)).bind (afterBody resf h k hit)).bind
          (forFromMAux 64 n (outerBody acceptf indexf resf h h) (n - (k + 1)) (k + 1))) := by
  intro m
  induction m using Nat.strongRecOn with
  | ind m ih =>
    intro k hit tape reqs rnd ptr pos fuel hk hlh hlr hptr hw hm hf
    -- the k-loop seen from its head, for smaller measures
    have top : ∀ (k' : Nat) (hit' : List Nat) (tape' : Tape) (reqs' rnd' : List Nat) (ptr' : Nat), k' ≤ n → hit'.length = h → rnd'.length = h →
        ptr' ≤ h → (∀ x ∈ rnd', x < 2 ^ 64) → (h - ptr') + tape'.length * (h + 1) < m →
        Rel h reqs' tape' (M h n k' hit' (rnd'.drop ptr') tape')
          (forFromMAux 64 n (outerBody acceptf indexf resf h h) (n - k') k' (⟨tape', reqs'⟩, hit', rnd', ptr')) := by
      intro k' hit' tape' reqs' rnd' ptr' hk' hlh' hlr' hptr' hw' hm'
      by_cases hkn : k' = n
      · subst hkn
        rw [Nat.sub_self, M_done h k' k' hit' _ tape' (Nat.le_refl _)]
        exact ⟨[], rnd', ptr', rfl, hlr', by simp [forFromMAux]⟩
      · have hlt : k' < n := by omega
        have e : n - k' = (n - (k' + 1)) + 1 := by omega
        rw [e, forFromMAux_step 64 n _ _ k' _ hlt hn]
        refine ih _ hm' k' hit' tape' reqs' rnd' ptr' _ _ hlt hlh' hlr' hptr' hw' (Nat.le_refl _) ?_
        show h - ptr' + tape'.length * h + 1 ≤ (tape'.length + 1) * (rnd'.length + 1)
        rw [hlr', Nat.add_mul, Nat.mul_add, Nat.mul_add]; omega
    cases fuel with
    | zero => omega
    | succ f =>
    by_cases hph : ptr = h
    · subst hph
      have hd : rnd.drop ptr = [] := List.drop_eq_nil_of_le (by omega)
      rw [hd]
      cases tape with
      | nil =>
        rw [M_nil_nil ptr n k hit hk]
        show _ = _
        simp only [loopM, inner_end, Res.bind_err]
      | cons req t =>
        have e : loopM (innerBody acceptf indexf k ptr) (f + 1) (⟨req :: t, reqs⟩, rnd, ptr, pos) =
            loopM (innerBody acceptf indexf k ptr) (f + 1) (⟨t, reqs ++ [8 * ptr]⟩, words64 ptr req, 0, pos) := by
          simp only [loopM, inner_refill acceptf indexf k ptr req t reqs rnd pos hlr h0 h8]
        rw [e, M_nil_cons ptr n k hit req t hk]
        apply Rel_refill
        have hm' : ptr - 0 + t.length * (ptr + 1) < m := by
          simp only [List.length_cons, Nat.add_mul] at hm; omega
        have := ih _ hm' k hit t (reqs ++ [8 * ptr]) (words64 ptr req) 0 pos (f + 1) hk hlh (by simp [words64]) (by omega)
          (words64_lt ptr req) (Nat.le_refl _) (by simp only [List.length_cons, Nat.add_mul] at hf; omega)
        simpa using this
    · have hpl : ptr < rnd.length := by omega
      have hd : rnd.drop ptr = rnd[ptr] :: rnd.drop (ptr + 1) := List.drop_eq_getElem_cons hpl
      have hx : rnd.getD ptr 0 = rnd[ptr] := by simp [List.getD_eq_getElem?_getD, hpl]
      have hxl : rnd[ptr] < 2 ^ 64 := hw _ (List.getElem_mem hpl)
      have hk1 : k + 1 < 2 ^ 64 := by omega
      rw [hd]
      by_cases ha : accept k rnd[ptr] = true
      · rw [M_cons_acc h n k _ hit _ tape hk ha]
        have e : loopM (innerBody acceptf indexf k h) (f + 1) (⟨tape, reqs⟩, rnd, ptr, pos) =
            .ok (⟨tape, reqs⟩, rnd, ptr + 1, rnd[ptr] % (k + 1)) := by
          simp only [loopM, inner_consume acceptf indexf k h _ rnd ptr pos hph, hx, hp.acc k _ hk1, ha, if_true, hp.idx k _ hk1 hxl]
        rw [e, Res.bind_ok]
        have e2 : afterBody resf h k hit (⟨tape, reqs⟩, rnd, ptr + 1, rnd[ptr] % (k + 1)) =
            .ok (⟨tape, reqs⟩, resStep h hit k (rnd[ptr] % (k + 1)), rnd, ptr + 1) := by
          simp only [afterBody, Smp.store, Smp.load, hp.res k _ hit hlh]
        rw [e2, Res.bind_ok]
        exact top (k + 1) _ tape reqs rnd (ptr + 1) hk (by rw [resStep_length]; exact hlh) hlr (by omega) hw (by omega)
      · have ha' : accept k rnd[ptr] = false := by simpa using ha
        rw [M_cons_rej h n k _ hit _ tape hk ha']
        have e : loopM (innerBody acceptf indexf k h) (f + 1) (⟨tape, reqs⟩, rnd, ptr, pos) =
            loopM (innerBody acceptf indexf k h) f (⟨tape, reqs⟩, rnd, ptr + 1, rnd[ptr]) := by
          simp only [loopM, inner_consume acceptf indexf k h _ rnd ptr pos hph, hx, hp.acc k _ hk1, ha', Bool.false_eq_true, if_false]
        rw [e]
        exact ih (m - 1) (by omega) k hit tape reqs rnd (ptr + 1) _ f hk hlh hlr (by omega) hw (by omega) (by omega)

/-- the k-loop from its head -/
theorem loop_top {h n : Nat} {acceptf : Nat → Nat → Bool} {indexf : Nat → Nat → Nat} {resf : Nat → Nat → Nat → Nat → Nat}
    (hp : Pieces h acceptf indexf resf) (h0 : 0 < h) (h8 : h * 8 < 2 ^ 64) (hn : n < 2 ^ 64)
    (k : Nat) (hit : List Nat) (tape : Tape) (reqs rnd : List Nat) (ptr : Nat) (hk : k ≤ n) (hlh : hit.length = h) (hlr : rnd.length = h)
    (hptr : ptr ≤ h) (hw : ∀ x ∈ rnd, x < 2 ^ 64) :
    Rel h reqs tape (M h n k hit (rnd.drop ptr) tape)
      (forFromMAux 64 n (outerBody acceptf indexf resf h h) (n - k) k (⟨tape, reqs⟩, hit, rnd, ptr)) := by
  by_cases hkn : k = n
  · subst hkn
    rw [Nat.sub_self, M_done h k k hit _ tape (Nat.le_refl _)]
    exact ⟨[], rnd, ptr, rfl, hlr, by simp [forFromMAux]⟩
  · have hlt : k < n := by omega
    have e : n - k = (n - (k + 1)) + 1 := by omega
    rw [e, forFromMAux_step 64 n _ _ k _ hlt hn]
    refine loop_refine hp h0 h8 hn _ k hit tape reqs rnd ptr _ _ hlt hlh hlr hptr hw (Nat.le_refl _) ?_
    show h - ptr + tape.length * h + 1 ≤ (tape.length + 1) * (rnd.length + 1)
    rw [hlr, Nat.add_mul, Nat.mul_add, Nat.mul_add]; omega

theorem iota_eq (h : Nat) (hh : h < 2 ^ 32) : StdSem.iotaAll 32 (StdSem.vectorN (castU 64 h)) 0 = List.range h := by
  have e : castU 64 h = h := Nat.mod_eq_of_lt (by omega)
  rw [e]
  unfold StdSem.iotaAll StdSem.vectorN
  rw [List.length_replicate]
  apply List.ext_getElem
  · simp
  · intro j h1 h2
    simp only [List.length_map, List.length_range] at h1
    simp only [List.getElem_map, List.getElem_range, Nat.zero_add]
    exact Nat.mod_eq_of_lt (by omega)

/-- the positions phase of the generated function = the model's `runTape` from `⟨h, [0..h)⟩` -/
theorem loop_head {h n : Nat} {acceptf : Nat → Nat → Bool} {indexf : Nat → Nat → Nat} {resf : Nat → Nat → Nat → Nat → Nat}
    (hp : Pieces h acceptf indexf resf) (h0 : 0 < h) (hh : h < 2 ^ 32) (hhn : h ≤ n) (hn : n < 2 ^ 64) (tape : Tape) (reqs : List Nat) :
    Rel h reqs tape (runTape h n ⟨h, List.range h⟩ tape)
      (hwtLoop acceptf indexf resf n h ⟨tape, reqs⟩ (StdSem.iotaAll 32 (StdSem.vectorN (castU 64 h)) 0)
        (StdSem.vectorN (StdSem.vecSize (StdSem.iotaAll 32 (StdSem.vectorN (castU 64 h)) 0)))
        (StdSem.vecEnd (StdSem.vectorN (StdSem.vecSize (StdSem.iotaAll 32 (StdSem.vectorN (castU 64 h)) 0))))
        (StdSem.vecEnd (StdSem.vectorN (StdSem.vecSize (StdSem.iotaAll 32 (StdSem.vectorN (castU 64 h)) 0))))) := by
  have e : castU 64 h = h := Nat.mod_eq_of_lt (by omega)
  rw [hwtLoop_eq, iota_eq h hh]
  have e2 : StdSem.vecEnd (StdSem.vectorN (StdSem.vecSize (List.range h))) = h := by simp [StdSem.vecEnd, StdSem.vectorN, StdSem.vecSize]
  rw [e2, e]
  have := loop_top hp h0 (by omega) hn h (List.range h) tape reqs (StdSem.vectorN (StdSem.vecSize (List.range h))) h hhn (by simp)
    (by simp [StdSem.vectorN, StdSem.vecSize]) (Nat.le_refl _) (by intro x hx; simp [StdSem.vectorN] at hx; omega)
  rw [List.drop_eq_nil_of_le (by simp [StdSem.vectorN, StdSem.vecSize])] at this
  exact this

/-! ### sort, memset, the sign request and the flat writes -/

theorem ins_eq (a : Nat) : ∀ l, StdSem.ins a l = Samplers.ins a l
  | [] => rfl
  | b :: l => by unfold StdSem.ins Samplers.ins; rw [ins_eq a l]

theorem sortAll_eq_isort : ∀ l, StdSem.sortAll l = isort l
  | [] => rfl
  | a :: l => by unfold StdSem.sortAll isort; rw [sortAll_eq_isort l, ins_eq]

theorem leBytes_zero : ∀ (l : List Nat), (∀ x ∈ l, x % 256 = 0) → leBytes l = 0
  | [], _ => rfl
  | a :: l, h => by
    simp only [leBytes, h a (by simp), leBytes_zero l (fun x hx => h x (by simp [hx]))]

/-- `memset(arr, 0, n)` over the whole array gives zeros -/
theorem memset_zero (wb : Nat) (data : List Nat) (N : Nat) (h : data.length * wb ≤ N) :
    StdSem.memset wb data 0 N = List.replicate data.length 0 := by
  unfold StdSem.memset
  apply List.ext_getElem
  · simp
  · intro j h1 h2
    simp only [List.length_mapIdx] at h1
    simp only [List.getElem_mapIdx, List.getElem_replicate]
    unfold overWord
    apply leBytes_zero
    intro x hx
    simp only [List.mem_map, List.mem_range] at hx
    obtain ⟨t, ht, rfl⟩ := hx
    have : (j + 1) * wb ≤ data.length * wb := Nat.mul_le_mul_right wb h1
    rw [Nat.add_mul] at this
    rw [if_pos (by omega)]

theorem forEach_zip (g : Nat → Nat) (v : Nat → Nat) : ∀ (l : List Nat) (j0 : Nat) (d : List Nat),
    l.foldl (fun (s : List Nat × Nat) pos => (s.1.set (g pos) (v s.2), s.2 + 1)) (d, j0) =
      ((l.zipIdx j0).foldl (fun d (pj : Nat × Nat) => d.set (g pj.1) (v pj.2)) d, j0 + l.length)
  | [], j0, d => by simp
  | a :: l, j0, d => by
    simp only [List.foldl_cons, List.zipIdx_cons, List.length_cons]
    rw [forEach_zip g v l (j0 + 1)]
    congr 1; omega

theorem words64_getD (h : Nat) (req : List Nat) (j : Nat) (hj : j < h) : (words64 h req).getD j 0 = wordAt 8 req j := by
  simp [words64, List.getD_eq_getElem?_getD, hj]

/-- writes of one row: positions `ps` (distinct, inside the row) shifted by `off` -/
theorem foldl_set_off (val : Nat → Nat) (off : Nat) : ∀ (ps : List Nat) (j0 : Nat) (d : List Nat), ps.Nodup →
    (∀ a ∈ ps, a + off < d.length) →
    ((ps.zipIdx j0).foldl (fun d (pj : Nat × Nat) => d.set (pj.1 + off) (val pj.2)) d).length = d.length ∧
    ∀ j, ((ps.zipIdx j0).foldl (fun d (pj : Nat × Nat) => d.set (pj.1 + off) (val pj.2)) d).getD j 0 =
      if off ≤ j ∧ (j - off) ∈ ps then val (j0 + ps.idxOf (j - off)) else d.getD j 0
  | [], j0, d, _, _ => by simp
  | a :: ps, j0, d, hnd, hlt => by
    have hnd' := (List.nodup_cons.1 hnd)
    have ih := foldl_set_off val off ps (j0 + 1) (d.set (a + off) (val j0)) hnd'.2
      (by intro b hb; simp; exact hlt b (List.mem_cons_of_mem _ hb))
    simp only [List.zipIdx_cons, List.foldl_cons]
    refine ⟨by rw [ih.1]; simp, ?_⟩
    intro j
    rw [ih.2 j]
    have ha := hlt a (List.mem_cons_self)
    by_cases hja : j = a + off
    · subst hja
      have e : a + off - off = a := by omega
      simp only [e, Nat.le_add_left, true_and, hnd'.1, if_false, List.mem_cons, true_or, if_true, List.idxOf_cons, beq_self_eq_true, cond_true,
        Nat.add_zero]
      rw [getD_set', if_pos ⟨rfl, ha⟩]
    · by_cases hc : off ≤ j ∧ (j - off) ∈ ps
      · have hne : ¬ a = j - off := by omega
        have hb : (a == j - off) = false := by simp [hne]
        rw [if_pos hc, if_pos ⟨hc.1, List.mem_cons_of_mem _ hc.2⟩, List.idxOf_cons, hb, cond_false]
        congr 1; omega
      · have hc' : ¬ (off ≤ j ∧ (j - off) ∈ a :: ps) := by
          rintro ⟨h1, h2⟩
          rcases List.mem_cons.1 h2 with h3 | h3
          · omega
          · exact hc ⟨h1, h3⟩
        rw [if_neg hc, if_neg hc', getD_set', if_neg (by omega)]

/-- all rows -/
theorem rows_write (n nm : Nat) (sorted : List Nat) (val : Nat → Nat → Nat) (hnd : sorted.Nodup) (hlt : ∀ a ∈ sorted, a < n) :
    ∀ m, m ≤ nm →
    ((List.range m).foldl (fun d cm => sorted.zipIdx.foldl (fun d (pj : Nat × Nat) => d.set (pj.1 + cm * n) (val cm pj.2)) d)
      (List.replicate (n * nm) 0)).length = n * nm ∧
    ∀ cm i, i < n → ((List.range m).foldl (fun d cm => sorted.zipIdx.foldl (fun d (pj : Nat × Nat) => d.set (pj.1 + cm * n) (val cm pj.2)) d)
      (List.replicate (n * nm) 0)).getD (cm * n + i) 0 = if cm < m ∧ i ∈ sorted then val cm (sorted.idxOf i) else 0 := by
  intro m
  induction m with
  | zero =>
    intro _
    refine ⟨by simp, fun cm i _ => ?_⟩
    simp only [List.range_zero, List.foldl_nil, List.getD_eq_getElem?_getD, List.getElem?_replicate]
    split <;> simp
  | succ m ih =>
    intro hm
    obtain ⟨l1, g1⟩ := ih (by omega)
    rw [List.range_succ, List.foldl_append, List.foldl_cons, List.foldl_nil]
    have hb : ∀ a ∈ sorted, a + m * n < ((List.range m).foldl (fun d cm => sorted.zipIdx.foldl (fun d (pj : Nat × Nat) =>
        d.set (pj.1 + cm * n) (val cm pj.2)) d) (List.replicate (n * nm) 0)).length := by
      intro a ha
      rw [l1]
      have := hlt a ha
      have h2 : n * (m + 1) ≤ n * nm := Nat.mul_le_mul_left n hm
      rw [Nat.mul_add, Nat.mul_one, Nat.mul_comm n m] at h2
      omega
    obtain ⟨l2, g2⟩ := foldl_set_off (val m) (m * n) sorted 0 _ hnd hb
    refine ⟨l2.trans l1, fun cm i hi => ?_⟩
    rw [g2, g1 cm i hi, Nat.zero_add]
    rcases Nat.lt_trichotomy cm m with hc | hc | hc
    · have h2 : n * (cm + 1) ≤ n * m := Nat.mul_le_mul_left n hc
      rw [Nat.mul_add, Nat.mul_one, Nat.mul_comm n cm, Nat.mul_comm n m] at h2
      rw [if_neg (by omega)]
      simp [hc, show cm < m + 1 by omega]
    · subst hc
      have e : cm * n + i - cm * n = i := by omega
      rw [e]
      by_cases his : i ∈ sorted
      · simp [his]
      · simp [his]
    · have h2 : n * (m + 1) ≤ n * cm := Nat.mul_le_mul_left n hc
      rw [Nat.mul_add, Nat.mul_one, Nat.mul_comm n cm, Nat.mul_comm n m] at h2
      have hnm : ¬ (cm * n + i - m * n) ∈ sorted := fun hmem => by have := hlt _ hmem; omega
      rw [if_neg (fun hcc => hnm hcc.2), if_neg (by omega), if_neg (by omega)]

/-- one iteration of the loop over the moduli of the sign phase (same term as in `hwtTail`) -/
def tailBody (signf : Nat → Nat → Nat) (degree : Nat) (P : Nat → Nat) (hitted rnd : List Nat) (st6 : List Nat × Nat × Nat) (cm : Nat) :
    List Nat × Nat × Nat :=
  let data := st6.1
  let rnd_ptr := st6.2.1
  let offset := st6.2.2
  let rnd_ptr := (StdSem.vecBegin rnd)
  let st7 := StdSem.forEach hitted (fun st7 pos =>
      let data := st7.1
      let rnd_ptr := st7.2
      let data := Smp.store data (addU 64 pos offset) (signf (P cm) (Smp.load rnd rnd_ptr))
      let rnd_ptr := Smp.ptrAdd rnd_ptr 1
      (data, rnd_ptr)) (data, rnd_ptr)
  let data := st7.1
  let rnd_ptr := st7.2
  let offset := addU 64 offset degree
  (data, rnd_ptr, offset)

theorem hwtTail_eq (wb : Nat) (signf : Nat → Nat → Nat) (n nm : Nat) (P : Nat → Nat) (data : List Nat) (st1 : KSt) :
    hwtTail wb signf n nm P data st1 =
      (Smp.frb 8 st1.2.2.1 (mulU 64 (StdSem.vecSize st1.2.2.1) 8) st1.1).bind fun st5 =>
        Res.ok ((CSemInit.forCount 64 nm (tailBody signf n P (StdSem.sortAll st1.2.1) st5.1)
          (StdSem.memset wb data 0 (mulU 64 (mulU 64 n nm) wb), st1.2.2.2, castSU 64 0)).1, st5.2) := rfl

theorem tail_loop (signf : Nat → Nat → Nat) (n nm h : Nat) (P : Nat → Nat) (sorted sreq : List Nat) (hs : sorted.length = h)
    (hlt : ∀ a ∈ sorted, a < n) (hN : n * nm < 2 ^ 64) (d0 : List Nat) (p0 : Nat) :
    ∀ m, m ≤ nm → ∃ p, (List.range m).foldl (tailBody signf n P sorted (words64 h sreq)) (d0, p0, 0) =
      ((List.range m).foldl (fun d cm => sorted.zipIdx.foldl (fun d (pj : Nat × Nat) =>
        d.set (pj.1 + cm * n) (signf (P cm) (wordAt 8 sreq pj.2))) d) d0, p, m * n) := by
  intro m
  induction m with
  | zero => intro _; exact ⟨p0, by simp⟩
  | succ m ih =>
    intro hm
    obtain ⟨p, e⟩ := ih (by omega)
    rw [List.range_succ, List.foldl_append, List.foldl_append, e]
    have h2 : n * (m + 1) ≤ n * nm := Nat.mul_le_mul_left n hm
    rw [Nat.mul_add, Nat.mul_one, Nat.mul_comm n m] at h2
    refine ⟨0 + sorted.length, ?_⟩
    simp only [List.foldl_cons, List.foldl_nil, tailBody, StdSem.forEach, StdSem.vecBegin, Smp.store, Smp.load, Smp.ptrAdd]
    rw [forEach_zip (fun pos => addU 64 pos (m * n)) (fun q => signf (P m) ((words64 h sreq).getD q 0)) sorted 0]
    have e1 : addU 64 (m * n) n = (m + 1) * n := by
      unfold addU; rw [Nat.add_mul, Nat.one_mul]; exact Nat.mod_eq_of_lt (by omega)
    rw [e1]
    congr 1
    apply foldl_congr_mem
    intro d pj hpj
    have h3 := hlt _ (List.fst_mem_of_mem_zipIdx hpj)
    have h4 := List.snd_lt_of_mem_zipIdx hpj
    have e2 : addU 64 pj.1 (m * n) = pj.1 + m * n := Nat.mod_eq_of_lt (by omega)
    rw [e2, words64_getD h sreq pj.2 (by omega)]

theorem tail_ok (wb : Nat) (signf : Nat → Nat → Nat) (n nm h : Nat) (P : Nat → Nat) (data hit rnd : List Nat) (ptr : Nat) (sreq : List Nat)
    (rest : Tape) (reqs : List Nat) (hwb : 0 < wb) (hN : n * nm * wb < 2 ^ 64) (hm : nm < 2 ^ 64) (hd : data.length = n * nm)
    (hlr : rnd.length = h) (h8 : h * 8 < 2 ^ 64) (hs : (isort hit).length = h) (hlt : ∀ a ∈ isort hit, a < n) :
    hwtTail wb signf n nm P data (⟨sreq :: rest, reqs⟩, hit, rnd, ptr) =
      .ok ((List.range nm).foldl (fun d cm => (isort hit).zipIdx.foldl (fun d (pj : Nat × Nat) =>
        d.set (pj.1 + cm * n) (signf (P cm) (wordAt 8 sreq pj.2))) d) (List.replicate (n * nm) 0), ⟨rest, reqs ++ [8 * h]⟩) := by
  have hN' : n * nm < 2 ^ 64 := Nat.lt_of_le_of_lt (Nat.le_mul_of_pos_right _ hwb) hN
  have e : mulU 64 (StdSem.vecSize rnd) 8 = 8 * h := by
    unfold mulU StdSem.vecSize; rw [hlr, Nat.mod_eq_of_lt h8, Nat.mul_comm]
  have e2 : mulU 64 (mulU 64 n nm) wb = n * nm * wb := by
    unfold mulU; rw [Nat.mod_eq_of_lt hN', Nat.mod_eq_of_lt hN]
  rw [hwtTail_eq]
  simp only [e, e2, frb_cons, Res.bind_ok, refill_words h rnd sreq hlr, sortAll_eq_isort, memset_zero wb data (n * nm * wb) (Nat.le_of_eq (by rw [hd])),
    CSemInit.forCount_eq_foldl 64 nm _ _ hm, castSU64_0, hd]
  obtain ⟨p, ep⟩ := tail_loop signf n nm h P (isort hit) sreq hs hlt hN' (List.replicate (n * nm) 0) ptr nm (Nat.le_refl _)
  rw [ep]

theorem hwtWrite_length {w n p : Nat} {sorted : List Nat} (hnd : sorted.Nodup) (hlt : ∀ a ∈ sorted, a < n) (signReq : List Nat) :
    (hwtWrite w n p sorted signReq).length = n := by
  unfold hwtWrite
  rw [(foldl_set_spec (fun j => if wordAt 8 signReq j &&& 2 ≠ 0 then 1 else pmOf w p) sorted 0 (List.replicate n 0) hnd (by simpa using hlt)).1]
  simp

/-- everything after the reservoir loop, given what the loop returned -/
theorem hwt_after (W wb : Nat) (signf : Nat → Nat → Nat) (n h : Nat) (ps data : List Nat) (tape : Tape) (reqs : List Nat)
    (hsg : ∀ p ∈ ps, ∀ x, x < 2 ^ 64 → signf p x = if x &&& 2 ≠ 0 then 1 else pmOf W p)
    (hwb : 0 < wb) (hh : h < 2 ^ 32) (hhn : h ≤ n) (hm : ps.length < 2 ^ 64) (hN : n * ps.length * wb < 2 ^ 64)
    (hd : data.length = n * ps.length) (g : Res KSt) (hr : Rel h reqs tape (runTape h n ⟨h, List.range h⟩ tape) g) :
    view n ps.length (g.bind (hwtTail wb signf n ps.length (fun cm => ps.getD cm 0) data)) =
      match hwtPositions h n tape with
      | none => .err .tapeEnd
      | some (_, []) => .err .tapeEnd
      | some (sorted, sreq :: rest) =>
        .ok (ps.map (fun p => hwtWrite W n p sorted sreq), data.length, rest, reqs ++ List.replicate (tape.length - rest.length) (8 * h)) := by
  have hpos : hwtPositions h n tape = match runTape h n ⟨h, List.range h⟩ tape with
      | none => none
      | some (st, rest) => some (isort st.hit, rest) := rfl
  cases hrt : runTape h n ⟨h, List.range h⟩ tape with
  | none =>
    rw [hrt] at hr hpos
    simp only [Rel] at hr
    rw [hr, hpos]; rfl
  | some a =>
    obtain ⟨st', rest0⟩ := a
    rw [hrt] at hr hpos
    obtain ⟨c, rnd', ptr', e1, e2, e3⟩ := hr
    rw [e3, Res.bind_ok, hpos]
    cases rest0 with
    | nil => rw [hwtTail_eq]; rfl
    | cons sreq rest =>
      simp only at hpos ⊢
      obtain ⟨_, hlen, hnd, hlt, _⟩ := hwtPositions_spec hhn hpos
      rw [tail_ok wb signf n ps.length h _ data st'.hit rnd' ptr' sreq rest _ hwb hN hm hd e2 (by omega) hlen hlt]
      obtain ⟨l1, g1⟩ := rows_write n ps.length (isort st'.hit) (fun cm j => signf (ps.getD cm 0) (wordAt 8 sreq j)) hnd hlt ps.length (Nat.le_refl _)
      simp only [view, l1, hd]
      have er : rows n ps.length ((List.range ps.length).foldl (fun d cm => (isort st'.hit).zipIdx.foldl (fun d (pj : Nat × Nat) =>
          d.set (pj.1 + cm * n) (signf (ps.getD cm 0) (wordAt 8 sreq pj.2))) d) (List.replicate (n * ps.length) 0)) =
          ps.map (fun p => hwtWrite W n p (isort st'.hit) sreq) := by
        unfold rows
        apply List.ext_getElem
        · simp
        · intro cm h1 h2
          simp only [List.length_map, List.length_range] at h1
          simp only [List.getElem_map, List.getElem_range]
          apply List.ext_getElem
          · rw [hwtWrite_length hnd hlt]; simp
          · intro i h3 h4
            simp only [List.length_map, List.length_range] at h3
            simp only [List.getElem_map, List.getElem_range]
            rw [g1 cm i h3]
            have hmem : ps.getD cm 0 ∈ ps := by
              rw [List.getD_eq_getElem?_getD, List.getElem?_eq_getElem h1]; simp
            have hg : ps.getD cm 0 = ps[cm] := by simp [List.getD_eq_getElem?_getD, h1]
            have hw := hwtWrite_getD (w := W) (p := ps[cm]) hnd hlt sreq i
            rw [List.getD_eq_getElem?_getD, List.getElem?_eq_getElem h4, Option.getD_some] at hw
            rw [hw, hsg _ hmem _ (by have := wordAt_lt 8 sreq ((isort st'.hit).idxOf i); simpa using this), hg]
            by_cases his : i ∈ isort st'.hit
            · simp [his, h1, hwtSign]
            · simp [his]
      have eq : reqs ++ List.replicate c.length (8 * h) ++ [8 * h] = reqs ++ List.replicate (tape.length - rest.length) (8 * h) := by
        have : tape.length - rest.length = c.length + 1 := by rw [e1]; simp; omega
        rw [this, List.replicate_succ', List.append_assoc]
      rw [er, eq]

/-- `set(hwt_dist)`: the structured copy of the generated function (`hwtWhole`, pieces abstracted) = the hand model, for every tape -/
theorem hwt_whole_eq (W wb : Nat) {acceptf : Nat → Nat → Bool} {indexf : Nat → Nat → Nat} {resf : Nat → Nat → Nat → Nat → Nat}
    (signf : Nat → Nat → Nat) (n h : Nat) (ps data : List Nat) (tape : Tape) (reqs : List Nat)
    (hp : Pieces h acceptf indexf resf)
    (hsg : ∀ p ∈ ps, ∀ x, x < 2 ^ 64 → signf p x = if x &&& 2 ≠ 0 then 1 else pmOf W p)
    (hwb : 0 < wb) (hh : h < 2 ^ 32) (hn : n < 2 ^ 64) (hm : ps.length < 2 ^ 64) (hN : n * ps.length * wb < 2 ^ 64)
    (hd : data.length = n * ps.length) :
    view n ps.length (hwtWhole wb acceptf indexf resf signf n ps.length (fun cm => ps.getD cm 0) h data ⟨tape, reqs⟩) =
      if h = 0 ∨ n < h then .err .assertion else
      match hwtPositions h n tape with
      | none => .err .tapeEnd
      | some (_, []) => .err .tapeEnd
      | some (sorted, sreq :: rest) =>
        .ok (ps.map (fun p => hwtWrite W n p sorted sreq), data.length, rest, reqs ++ List.replicate (tape.length - rest.length) (8 * h)) := by
  by_cases hbad : h = 0 ∨ n < h
  · rw [if_pos hbad, hwt_assert_partial wb acceptf indexf resf signf n ps.length _ h data _ hh hbad]; rfl
  · rw [if_neg hbad]
    have h0 : 0 < h := by omega
    have hhn : h ≤ n := by omega
    have ea : Smp.assertThat ((gtU h (castSU 32 0)) && (leU (castU 64 h) n)) = .ok () := by
      have : castU 64 h = h := Nat.mod_eq_of_lt (by omega)
      rw [castSU32_0, this]; simp [Smp.assertThat, gtU, leU, h0, hhn]
    unfold hwtWhole
    rw [ea, Res.bind_ok]
    exact hwt_after W wb signf n h ps data tape reqs hsg hwb hh hhn hm hN hd _ (loop_head hp h0 hh hhn hn tape reqs)

theorem pieces_u16 (h : Nat) (hh : h < 2 ^ 32) : Pieces h Gen.hwt_accept_u16 Gen.hwt_index_u16 Gen.hwt_res_u16 where
  acc := fun k x hk => hwt_accept_u16_eq k x hk
  idx := fun k x hk hx => hwt_index_u16_eq k x hk hx
  res := fun k pos hit hl => by
    by_cases hpos : pos < hit.length
    · rw [← hwt_res_u16_eq h k pos 0 hit hh hpos]
      unfold resStep; split
      · simp [List.getD_eq_getElem?_getD, hpos]
      · simp [List.getD_eq_getElem?_getD, hpos]
    · unfold resStep; rw [if_neg (by omega)]; exact List.set_eq_of_length_le (by omega)

theorem pieces_u32 (h : Nat) (hh : h < 2 ^ 32) : Pieces h Gen.hwt_accept_u32 Gen.hwt_index_u32 Gen.hwt_res_u32 where
  acc := fun k x hk => hwt_accept_u32_eq k x hk
  idx := fun k x hk hx => hwt_index_u32_eq k x hk hx
  res := fun k pos hit hl => by
    by_cases hpos : pos < hit.length
    · rw [← hwt_res_u32_eq h k pos 0 hit hh hpos]
      unfold resStep; split
      · simp [List.getD_eq_getElem?_getD, hpos]
      · simp [List.getD_eq_getElem?_getD, hpos]
    · unfold resStep; rw [if_neg (by omega)]; exact List.set_eq_of_length_le (by omega)

theorem pieces_u64 (h : Nat) (hh : h < 2 ^ 32) : Pieces h Gen.hwt_accept_u64 Gen.hwt_index_u64 Gen.hwt_res_u64 where
  acc := fun k x hk => hwt_accept_u64_eq k x hk
  idx := fun k x hk hx => hwt_index_u64_eq k x hk hx
  res := fun k pos hit hl => by
    by_cases hpos : pos < hit.length
    · rw [← hwt_res_u64_eq h k pos 0 hit hh hpos]
      unfold resStep; split
      · simp [List.getD_eq_getElem?_getD, hpos]
      · simp [List.getD_eq_getElem?_getD, hpos]
    · unfold resStep; rw [if_neg (by omega)]; exact List.set_eq_of_length_le (by omega)

/-- `poly<uint16_t,n,nm>::set(hwt_dist)`, WHOLE generated function = hand model, for every tape and every initial `_data`: the assert is the model's
guard; the positions are `hwtPositions` (reservoir over the words of the requests of `8·h` bytes, rejection by `accept`); a tape that ends before the
positions are drawn or before the sign request is `tapeEnd`; otherwise the array holds `hwtWrite` of the sorted positions in every modulus (signs from the
next request), keeps its length, and exactly one request of `8·h` bytes was recorded per consumed buffer.
Hypotheses: `hh` mode.hwt is a `uint32_t`; `hn` degree is a `size_t` value (counter `k`); `hm` the `size_t` counter `cm`; `hN` the byte size
`degree·nmoduli·sizeof(T)` passed to memset is a `size_t` value (no wrap of `offset + pos` either); `hd` extent of `_data`; `hp` moduli are limb values. -/
theorem set_hwt_u16_eq (n h : Nat) (ps data : List Nat) (tape : Tape) (reqs : List Nat)
    (hp : ∀ p ∈ ps, p < 2 ^ 16) (hh : h < 2 ^ 32) (hn : n < 2 ^ 64) (hm : ps.length < 2 ^ 64) (hN : n * ps.length * 2 < 2 ^ 64)
    (hd : data.length = n * ps.length) :
    view n ps.length (Gen.set_hwt_u16 n ps.length (fun cm => ps.getD cm 0) h data ⟨tape, reqs⟩) =
      if h = 0 ∨ n < h then .err .assertion else
      match hwtPositions h n tape with
      | none => .err .tapeEnd
      | some (_, []) => .err .tapeEnd
      | some (sorted, sreq :: rest) =>
        .ok (ps.map (fun p => hwtWrite 16 n p sorted sreq), data.length, rest, reqs ++ List.replicate (tape.length - rest.length) (8 * h)) := by
  rw [set_hwt_u16_split]
  exact hwt_whole_eq 16 2 Gen.hwt_sign_u16 n h ps data tape reqs (pieces_u16 h hh) (fun p hpm x hx => hwt_sign_u16_eq p x (hp p hpm) hx)
    (by decide) hh hn hm hN hd

theorem set_hwt_u32_eq (n h : Nat) (ps data : List Nat) (tape : Tape) (reqs : List Nat)
    (hp : ∀ p ∈ ps, p < 2 ^ 32) (hh : h < 2 ^ 32) (hn : n < 2 ^ 64) (hm : ps.length < 2 ^ 64) (hN : n * ps.length * 4 < 2 ^ 64)
    (hd : data.length = n * ps.length) :
    view n ps.length (Gen.set_hwt_u32 n ps.length (fun cm => ps.getD cm 0) h data ⟨tape, reqs⟩) =
      if h = 0 ∨ n < h then .err .assertion else
      match hwtPositions h n tape with
      | none => .err .tapeEnd
      | some (_, []) => .err .tapeEnd
      | some (sorted, sreq :: rest) =>
        .ok (ps.map (fun p => hwtWrite 32 n p sorted sreq), data.length, rest, reqs ++ List.replicate (tape.length - rest.length) (8 * h)) := by
  rw [set_hwt_u32_split]
  exact hwt_whole_eq 32 4 Gen.hwt_sign_u32 n h ps data tape reqs (pieces_u32 h hh) (fun p hpm x hx => hwt_sign_u32_eq p x (hp p hpm) hx)
    (by decide) hh hn hm hN hd

theorem set_hwt_u64_eq (n h : Nat) (ps data : List Nat) (tape : Tape) (reqs : List Nat)
    (hp : ∀ p ∈ ps, p < 2 ^ 64) (hh : h < 2 ^ 32) (hn : n < 2 ^ 64) (hm : ps.length < 2 ^ 64) (hN : n * ps.length * 8 < 2 ^ 64)
    (hd : data.length = n * ps.length) :
    view n ps.length (Gen.set_hwt_u64 n ps.length (fun cm => ps.getD cm 0) h data ⟨tape, reqs⟩) =
      if h = 0 ∨ n < h then .err .assertion else
      match hwtPositions h n tape with
      | none => .err .tapeEnd
      | some (_, []) => .err .tapeEnd
      | some (sorted, sreq :: rest) =>
        .ok (ps.map (fun p => hwtWrite 64 n p sorted sreq), data.length, rest, reqs ++ List.replicate (tape.length - rest.length) (8 * h)) := by
  rw [set_hwt_u64_split]
  exact hwt_whole_eq 64 8 Gen.hwt_sign_u64 n h ps data tape reqs (pieces_u64 h hh) (fun p hpm x hx => hwt_sign_u64_eq p x (hp p hpm) hx)
    (by decide) hh hn hm hN hd

/-! ## set(It first, It last, bool reduce_coeffs) -/

def viewR (n nm : Nat) : Res (List Nat) → Res (Poly × Nat)
  | .ok d => .ok (rows n nm d, d.length)
  | .err e => .err e

def copyCond (degree last : Nat) (st2 : List Nat × Nat × Nat × Nat) : Bool :=
  let data := st2.1; let iter := st2.2.1; let viter := st2.2.2.1; let i := st2.2.2.2; (CSem.ltU i degree) && (Smp.ptrLt viter last)

def copyBody (storef : Nat → Bool → Nat → Nat) (p : Nat) (reduce_coeffs : Bool) (vals : List Nat) (st2 : List Nat × Nat × Nat × Nat) :
    List Nat × Nat × Nat × Nat :=
  let data := st2.1
  let iter := st2.2.1
  let viter := st2.2.2.1
  let i := st2.2.2.2
  let data := Smp.store data iter (storef p reduce_coeffs (Smp.load vals viter))
  let i := CSem.addU 64 i 1
  let viter := Smp.ptrAdd viter 1
  let iter := Smp.ptrAdd iter 1
  (data, iter, viter, i)

def padCond (degree : Nat) (st3 : List Nat × Nat × Nat) : Bool :=
  let data := st3.1; let iter := st3.2.1; let i := st3.2.2; CSem.ltU i degree

def padBody (padv : Nat) (st3 : List Nat × Nat × Nat) : List Nat × Nat × Nat :=
  let data := st3.1
  let iter := st3.2.1
  let i := st3.2.2
  let data := Smp.store data iter padv
  let i := CSem.addU 64 i 1
  let iter := Smp.ptrAdd iter 1
  (data, iter, i)

/-- one iteration of the loop over the moduli (same term as in the generated function) -/
def rowBody (rew : Bool) (storef : Nat → Bool → Nat → Nat) (padv : Nat) (degree : Nat) (P : Nat → Nat) (vals : List Nat) (first last : Nat)
    (reduce_coeffs : Bool) (st1 : List Nat × Nat × Nat) (cm : Nat) : List Nat × Nat × Nat :=
  let data := st1.1
  let iter := st1.2.1
  let viter := st1.2.2
  let viter := if rew then
      let viter := first
      viter
    else
      viter
  let i := CSem.castSU 64 0
  let st2 := CSem.whileFuel (copyCond degree last) (copyBody storef (P cm) reduce_coeffs vals) degree (data, iter, viter, i)
  let data := st2.1
  let iter := st2.2.1
  let viter := st2.2.2.1
  let i := st2.2.2.2
  let st3 := CSem.whileFuel (padCond degree) (padBody padv) degree (data, iter, i)
  let data := st3.1
  let iter := st3.2.1
  let i := st3.2.2
  (data, iter, viter)

/-- the generated set(It,It,bool), pieces abstracted -/
def rangeWhole (badf rewf : Nat → Nat → Nat → Bool) (storef : Nat → Bool → Nat → Nat) (padv : Nat) (degree nmoduli : Nat) (P : Nat → Nat)
    (vals : List Nat) (first last : Nat) (reduce_coeffs : Bool) (data : List Nat) : Res (List Nat) :=
  let size := StdSem.distance first last
  (Smp.throwIf (badf degree nmoduli size)).bind fun _ =>
  let st1 := CSemInit.forCount 64 nmoduli
    (rowBody (rewf degree nmoduli size) storef padv degree P vals first last reduce_coeffs) (data, 0, first)
  Smp.Res.ok st1.1

theorem set_range_u16_split : Gen.set_range_u16 = rangeWhole Gen.set_badsize_u16 Gen.set_rewind_u16 Gen.set_store_u16 Gen.set_pad_u16 := rfl
theorem set_range_u32_split : Gen.set_range_u32 = rangeWhole Gen.set_badsize_u32 Gen.set_rewind_u32 Gen.set_store_u32 Gen.set_pad_u32 := rfl
theorem set_range_u64_split : Gen.set_range_u64 = rangeWhole Gen.set_badsize_u64 Gen.set_rewind_u64 Gen.set_store_u64 Gen.set_pad_u64 := rfl

/-- the copy loop: from `i ≤ c = min(degree, last - v)` it stores `g (v+j)` at `b+j` for `j = i..c-1` and stops at `i = c`; the fuel `degree` suffices -/
theorem copy_loop (storef : Nat → Bool → Nat → Nat) (p : Nat) (r : Bool) (vals : List Nat) (n last b v : Nat) (hn : n < 2 ^ 64) :
    ∀ (fuel i : Nat) (d : List Nat), i ≤ min n (last - v) → n - i ≤ fuel →
      CSem.whileFuel (copyCond n last) (copyBody storef p r vals) fuel (d, b + i, v + i, i) =
        ((List.range' i (min n (last - v) - i)).foldl (fun d j => d.set (b + j) (storef p r (vals.getD (v + j) 0))) d,
          b + min n (last - v), v + min n (last - v), min n (last - v)) := by
  intro fuel
  induction fuel with
  | zero =>
    intro i d hi hf
    have : i = min n (last - v) := by omega
    rw [← this]; simp [CSem.whileFuel]
  | succ f ih =>
    intro i d hi hf
    by_cases hic : i < min n (last - v)
    · have hc : copyCond n last (d, b + i, v + i, i) = true := by
        simp only [copyCond, ltU, Smp.ptrLt, Bool.and_eq_true, decide_eq_true_eq]; omega
      have e1 : addU 64 i 1 = i + 1 := Nat.mod_eq_of_lt (by omega)
      have e2 : min n (last - v) - i = (min n (last - v) - (i + 1)) + 1 := by omega
      rw [CSem.whileFuel, if_pos hc]
      simp only [copyBody, Smp.store, Smp.load, Smp.ptrAdd, e1, Nat.add_assoc]
      rw [ih (i + 1) _ (by omega) (by omega), e2, List.range'_succ, List.foldl_cons]
    · have hc : copyCond n last (d, b + i, v + i, i) = false := by
        simp only [copyCond, ltU, Smp.ptrLt, Bool.and_eq_false_iff, decide_eq_false_iff_not]; omega
      have : i = min n (last - v) := by omega
      rw [CSem.whileFuel, hc, ← this]; simp

theorem pad_loop (padv n b : Nat) (hn : n < 2 ^ 64) :
    ∀ (fuel i : Nat) (d : List Nat), i ≤ n → n - i ≤ fuel →
      CSem.whileFuel (padCond n) (padBody padv) fuel (d, b + i, i) =
        ((List.range' i (n - i)).foldl (fun d j => d.set (b + j) padv) d, b + n, n) := by
  intro fuel
  induction fuel with
  | zero =>
    intro i d hi hf
    have : i = n := by omega
    rw [← this]; simp [CSem.whileFuel]
  | succ f ih =>
    intro i d hi hf
    by_cases hic : i < n
    · have hc : padCond n (d, b + i, i) = true := by simp only [padCond, ltU, decide_eq_true_eq]; omega
      have e1 : addU 64 i 1 = i + 1 := Nat.mod_eq_of_lt (by omega)
      have e2 : n - i = (n - (i + 1)) + 1 := by omega
      rw [CSem.whileFuel, if_pos hc]
      simp only [padBody, Smp.store, Smp.ptrAdd, e1, Nat.add_assoc]
      rw [ih (i + 1) _ (by omega) (by omega), e2, List.range'_succ, List.foldl_cons]
    · have hc : padCond n (d, b + i, i) = false := by simp only [padCond, ltU, decide_eq_false_iff_not]; omega
      have : i = n := by omega
      rw [CSem.whileFuel, hc, ← this]; simp

theorem fold_split {σ : Type} (f g F : σ → Nat → σ) (c n : Nat) (hc : c ≤ n) (h1 : ∀ s j, j < c → F s j = f s j)
    (h2 : ∀ s j, c ≤ j → F s j = g s j) (s : σ) :
    (List.range' c (n - c)).foldl g ((List.range' 0 c).foldl f s) = (List.range n).foldl F s := by
  have e : List.range n = List.range' 0 c ++ List.range' c (n - c) := by
    rw [List.range_eq_range']
    have := List.range'_append (s := 0) (m := c) (n := n - c) (step := 1)
    simp only [Nat.one_mul, Nat.zero_add] at this
    rw [this]; congr 1; omega
  rw [e, List.foldl_append]
  rw [foldl_congr_mem F f (List.range' 0 c) (fun s j hj => h1 s j (by have := List.mem_range'_1.1 hj; omega))]
  exact (foldl_congr_mem F g _ (fun s j hj => h2 s j (by have := List.mem_range'_1.1 hj; omega)) _).symm

/-- one row: copy prefix then zero padding = one pass over the row -/
theorem row_eq (rew : Bool) (storef : Nat → Bool → Nat → Nat) (padv n : Nat) (P : Nat → Nat) (vals : List Nat) (first last : Nat) (r : Bool)
    (hn : n < 2 ^ 64) (d : List Nat) (b vprev cm : Nat) :
    rowBody rew storef padv n P vals first last r (d, b, vprev) cm =
      ((List.range n).foldl (fun d j => d.set (b + j)
          (if j < min n (last - (if rew then first else vprev)) then storef (P cm) r (vals.getD ((if rew then first else vprev) + j) 0) else padv)) d,
        b + n, (if rew then first else vprev) + min n (last - (if rew then first else vprev))) := by
  have hc := copy_loop storef (P cm) r vals n last b (if rew then first else vprev) hn n 0 d (Nat.zero_le _) (by omega)
  have hp := pad_loop padv n b hn n (min n (last - (if rew then first else vprev)))
    ((List.range' 0 (min n (last - (if rew then first else vprev)) - 0)).foldl
      (fun d j => d.set (b + j) (storef (P cm) r (vals.getD ((if rew then first else vprev) + j) 0))) d) (Nat.min_le_left _ _) (by omega)
  simp only [Nat.add_zero, Nat.sub_zero] at hc hp
  simp only [rowBody, castSU64_0, hc, hp]
  congr 1
  apply fold_split _ _ _ _ _ (Nat.min_le_left _ _)
  · intro s j hj; rw [if_pos hj]
  · intro s j hj; rw [if_neg (by omega)]

/-- the value the code leaves in `_data[cm*n+j]`: source index `cm*n+j` (full list) or `j` (short list, rewound per modulus) -/
def rangeVal (storef : Nat → Bool → Nat → Nat) (padv n nm : Nat) (P : Nat → Nat) (vals : List Nat) (first size : Nat) (r : Bool) (cm j : Nat) : Nat :=
  if (if size = n * nm then cm * n + j else j) < size then
    storef (P cm) r (vals.getD (first + (if size = n * nm then cm * n + j else j)) 0)
  else padv

/-- the loop over the moduli: `iter` walks the whole array, `viter` is rewound unless the list is full -/
theorem range_outer (storef : Nat → Bool → Nat → Nat) (padv n nm : Nat) (P : Nat → Nat) (vals : List Nat) (first last : Nat) (r : Bool)
    (hn : n < 2 ^ 64) (hfl : first ≤ last) (hok : ¬ (last - first > n ∧ last - first ≠ n * nm)) (data : List Nat) :
    ∀ m, m ≤ nm → ∃ vm, (last - first = n * nm → vm = first + m * n) ∧
      (List.range m).foldl (rowBody (decide (last - first ≠ n * nm)) storef padv n P vals first last r) (data, 0, first) =
        ((List.range m).foldl (fun d cm => (List.range n).foldl (fun d j => d.set (cm * n + j)
          (rangeVal storef padv n nm P vals first (last - first) r cm j)) d) data, m * n, vm) := by
  have hshort : ¬ last - first = n * nm → last - first ≤ n := by omega
  intro m
  induction m with
  | zero => intro _; exact ⟨first, by simp, by simp⟩
  | succ m ih =>
    intro hm
    obtain ⟨vm, hv, e⟩ := ih (by omega)
    rw [List.range_succ, List.foldl_append, List.foldl_append, e, List.foldl_cons, List.foldl_nil, List.foldl_cons, List.foldl_nil, row_eq _ _ _ _ _ _ _ _ _ hn]
    have h2 : n * (m + 1) ≤ n * nm := Nat.mul_le_mul_left n hm
    rw [Nat.mul_add, Nat.mul_one, Nat.mul_comm n m] at h2
    by_cases hfull : last - first = n * nm
    · have hv' := hv hfull
      have hd : decide (last - first ≠ n * nm) = false := by simp [hfull]
      have hc : min n (last - vm) = n := by omega
      simp only [hd, Bool.false_eq_true, if_false, hc]
      refine ⟨vm + n, fun _ => by rw [hv', Nat.add_mul]; omega, ?_⟩
      rw [Nat.add_mul, Nat.one_mul]
      congr 1
      apply foldl_congr_mem
      intro d j hj
      have hjn : j < n := by simpa using hj
      unfold rangeVal
      rw [if_pos hjn, if_pos hfull, if_pos (by omega), hv', Nat.add_assoc]
    · have hd : decide (last - first ≠ n * nm) = true := by simp [hfull]
      have hle : last - first ≤ n := hshort hfull
      have hc : min n (last - first) = last - first := Nat.min_eq_right hle
      simp only [hd, if_true, hc]
      refine ⟨first + (last - first), fun hh => absurd hh hfull, ?_⟩
      rw [Nat.add_mul, Nat.one_mul]
      congr 1
      apply foldl_congr_mem
      intro d j hj
      unfold rangeVal
      rw [if_neg hfull]

theorem getD_slice (vals : List Nat) (first last j : Nat) (hj : first + j < last) :
    ((vals.take last).drop first).getD j 0 = vals.getD (first + j) 0 := by
  simp only [List.getD_eq_getElem?_getD, List.getElem?_drop, List.getElem?_take, if_pos hj]

/-- `set(It,It,bool)`: the structured copy of the generated function (`rangeWhole`, pieces abstracted) = the hand model `setValues` on the slice
`vals[first, last)` -/
theorem range_whole_eq (badf rewf : Nat → Nat → Nat → Bool) (storef : Nat → Bool → Nat → Nat) (padv n : Nat) (ps vals data : List Nat)
    (first last : Nat) (r : Bool)
    (hbad : badf n ps.length (last - first) = decide (last - first > n ∧ last - first ≠ n * ps.length))
    (hrew : rewf n ps.length (last - first) = decide (last - first ≠ n * ps.length))
    (hst : ∀ cm, cm < ps.length → ∀ x, x < vals.length →
      storef (ps.getD cm 0) r (vals.getD x 0) = (if r then vals.getD x 0 % ps.getD cm 0 else vals.getD x 0))
    (hpad : padv = 0) (hfl : first ≤ last) (hl : last ≤ vals.length)
    (hd : data.length = n * ps.length) (hn : n < 2 ^ 64) (hm : ps.length < 2 ^ 64) :
    viewR n ps.length (rangeWhole badf rewf storef padv n ps.length (fun cm => ps.getD cm 0) vals first last r data) =
      match setValues n ps ((vals.take last).drop first) r with
      | none => .err .thrown
      | some poly => .ok (poly, data.length) := by
  have hlen : ((vals.take last).drop first).length = last - first := by simp; omega
  unfold rangeWhole setValues
  simp only [StdSem.distance, hbad, hrew, hlen]
  by_cases hb : last - first > n ∧ last - first ≠ n * ps.length
  · rw [decide_eq_true hb, if_pos hb]; rfl
  · rw [decide_eq_false hb, if_neg hb]
    simp only [Smp.throwIf, Bool.false_eq_true, if_false, Res.bind_ok, CSemInit.forCount_eq_foldl 64 ps.length _ _ hm]
    obtain ⟨vm, _, e⟩ := range_outer storef padv n ps.length (fun cm => ps.getD cm 0) vals first last r hn hfl hb data ps.length (Nat.le_refl _)
    rw [e]
    have key := nested_range n ps.length
      (fun (d : List Nat) cm j => d.set (cm * n + j) (rangeVal storef padv n ps.length (fun cm => ps.getD cm 0) vals first (last - first) r cm j))
      (fun (d : List Nat) j => d.set j (rangeVal storef padv n ps.length (fun cm => ps.getD cm 0) vals first (last - first) r (j / n) (j % n)))
      (fun d cm j hcm hj => by
        obtain ⟨_, h2, h3⟩ := idx_facts (n := n) (nm := ps.length) hcm hj
        simp only [h2, h3]) data
    simp only [key]
    have sw := seq_write (ps.length * n)
      (fun j _ => rangeVal storef padv n ps.length (fun cm => ps.getD cm 0) vals first (last - first) r (j / n) (j % n)) data
    simp only [viewR, sw.1]
    congr 2
    apply rows_eq_mkPoly
    intro cm i hcm hi
    obtain ⟨h1, h2, h3⟩ := idx_facts (n := n) (nm := ps.length) hcm hi
    have hj : cm * n + i < ps.length * n := by rw [Nat.mul_comm cm n, Nat.mul_comm ps.length n]; exact h1
    have hjd : cm * n + i < data.length := by rw [hd, Nat.mul_comm n]; exact hj
    rw [sw.2, if_pos ⟨hj, hjd⟩, h2, h3]
    unfold rangeVal
    by_cases hs : (if last - first = n * ps.length then cm * n + i else i) < last - first
    · rw [if_pos hs, if_pos hs, hst cm hcm _ (by omega), getD_slice vals first last _ (by omega)]
    · rw [if_neg hs, if_neg hs, hpad]

theorem store_contract (W : Nat) (storef : Nat → Bool → Nat → Nat) (ps vals : List Nat) (r : Bool)
    (h : ∀ p ∈ ps, ∀ v, v < 2 ^ W → storef p r v = Setters.storeWord W r p v) (hv : ∀ v ∈ vals, v < 2 ^ W) :
    ∀ cm, cm < ps.length → ∀ x, x < vals.length →
      storef (ps.getD cm 0) r (vals.getD x 0) = (if r then vals.getD x 0 % ps.getD cm 0 else vals.getD x 0) := by
  intro cm hcm x hx
  have hmem : ps.getD cm 0 ∈ ps := by
    rw [List.getD_eq_getElem?_getD, List.getElem?_eq_getElem hcm]; simp
  have hvx : vals.getD x 0 < 2 ^ W := by
    rw [List.getD_eq_getElem?_getD, List.getElem?_eq_getElem hx]; exact hv _ (List.getElem_mem hx)
  rw [h _ hmem _ hvx]
  unfold Setters.storeWord
  have hle : vals.getD x 0 % ps.getD cm 0 ≤ vals.getD x 0 := Nat.mod_le _ _
  cases r
  · simp only [Bool.false_eq_true, if_false]; exact Nat.mod_eq_of_lt hvx
  · simp only [if_true]; exact Nat.mod_eq_of_lt (by omega)

/-- `poly<uint16_t,n,nm>::set(const T* first, const T* last, bool reduce)`, WHOLE generated function = hand model `setValues` of the slice
`vals[first,last)` read through `rows`: throws iff the length is above degree and not degree·nmoduli; otherwise the copy loop and the padding loop fill
every row (source rewound per modulus for a short list, walked through for a full list) and the array keeps its length.
Hypotheses: `hfl`, `hl` [first,last) is a range inside the source array; `hv` its elements are `uint16_t` values; `hp` moduli are limb values; `hd` extent of
`_data`; `hn`, `hm` the `size_t` counters `i`, `cm` do not wrap; `hN` `degree*nmoduli` does not wrap in the two comparisons. -/
theorem set_range_u16_eq (n : Nat) (ps vals data : List Nat) (first last : Nat) (r : Bool)
    (hp : ∀ p ∈ ps, p < 2 ^ 16) (hv : ∀ v ∈ vals, v < 2 ^ 16) (hfl : first ≤ last) (hl : last ≤ vals.length)
    (hd : data.length = n * ps.length) (hn : n < 2 ^ 64) (hm : ps.length < 2 ^ 64) (hN : n * ps.length < 2 ^ 64) :
    viewR n ps.length (Gen.set_range_u16 n ps.length (fun cm => ps.getD cm 0) vals first last r data) =
      match setValues n ps ((vals.take last).drop first) r with
      | none => .err .thrown
      | some poly => .ok (poly, data.length) := by
  rw [set_range_u16_split]
  exact range_whole_eq _ _ _ _ n ps vals data first last r (set_badsize_u16_eq n ps.length _ hN) (set_rewind_u16_eq n ps.length _ hN)
    (store_contract 16 _ ps vals r (fun p hpm v hvv => set_store_u16_eq p r v (hp p hpm) hvv) hv) set_pad_u16_eq hfl hl hd hn hm

theorem set_range_u32_eq (n : Nat) (ps vals data : List Nat) (first last : Nat) (r : Bool)
    (hp : ∀ p ∈ ps, p < 2 ^ 32) (hv : ∀ v ∈ vals, v < 2 ^ 32) (hfl : first ≤ last) (hl : last ≤ vals.length)
    (hd : data.length = n * ps.length) (hn : n < 2 ^ 64) (hm : ps.length < 2 ^ 64) (hN : n * ps.length < 2 ^ 64) :
    viewR n ps.length (Gen.set_range_u32 n ps.length (fun cm => ps.getD cm 0) vals first last r data) =
      match setValues n ps ((vals.take last).drop first) r with
      | none => .err .thrown
      | some poly => .ok (poly, data.length) := by
  rw [set_range_u32_split]
  exact range_whole_eq _ _ _ _ n ps vals data first last r (set_badsize_u32_eq n ps.length _ hN) (set_rewind_u32_eq n ps.length _ hN)
    (store_contract 32 _ ps vals r (fun p hpm v hvv => set_store_u32_eq p r v (hp p hpm) hvv) hv) set_pad_u32_eq hfl hl hd hn hm

theorem set_range_u64_eq (n : Nat) (ps vals data : List Nat) (first last : Nat) (r : Bool)
    (hp : ∀ p ∈ ps, p < 2 ^ 64) (hv : ∀ v ∈ vals, v < 2 ^ 64) (hfl : first ≤ last) (hl : last ≤ vals.length)
    (hd : data.length = n * ps.length) (hn : n < 2 ^ 64) (hm : ps.length < 2 ^ 64) (hN : n * ps.length < 2 ^ 64) :
    viewR n ps.length (Gen.set_range_u64 n ps.length (fun cm => ps.getD cm 0) vals first last r data) =
      match setValues n ps ((vals.take last).drop first) r with
      | none => .err .thrown
      | some poly => .ok (poly, data.length) := by
  rw [set_range_u64_split]
  exact range_whole_eq _ _ _ _ n ps vals data first last r (set_badsize_u64_eq n ps.length _ hN) (set_rewind_u64_eq n ps.length _ hN)
    (store_contract 64 _ ps vals r (fun p hpm v hvv => set_store_u64_eq p r v (hp p hpm) hvv) hv) set_pad_u64_eq hfl hl hd hn hm

end Nfl.SmpAstEq2
