/-
`buildLookupTables` (model `buildLUT1` / `buildLUT2`) produces tables satisfying `tableOK`.  Core Lean only.

Method: the barriers are sorted, so with respect to a monotone key `K` (first word, or first two words) and a threshold
`c` they split as `done ++ mid ++ post` (`K < c`, `K = c`, `K > c`).  The builder's cursor `b_index` is `|done|`,
`val = v₀ + b_index`; every loop is shown to move this split to the next threshold while writing correct cells.
-/
import NflVerif.Proofs.GaussDecode

namespace Nfl.Gauss

/-! ### arrays of cells -/

@[simp] theorem default_val : (default : Cell).val = 0 := rfl
@[simp] theorem default_flag : (default : Cell).flag = false := rfl
@[simp] theorem default_bl : (default : Cell).bl = [] := rfl

theorem wr_spec (t : Array Cell) (i : Nat) (f : Cell → Cell) (h : i < t.size) :
    ∃ t', wr t i f = some t' ∧ t'.size = t.size ∧
      ∀ j, t'.getD j default = if j = i then f (t.getD i default) else t.getD j default := by
  refine ⟨t.set i (f t[i]), by simp [wr, h], by simp, ?_⟩
  intro j
  by_cases hji : j = i
  · subst hji; simp [Array.getD, h]
  · by_cases hj : j < t.size
    · simp [Array.getD, hj, hji, Ne.symm hji]
    · simp [Array.getD, hj, hji]

theorem getD_replicate_default (W j : Nat) : (Array.replicate W (default : Cell)).getD j default = default := by
  by_cases h : j < W <;> simp [Array.getD, h]

/-! ### sorted lists and thresholds -/

section Key
variable (K : Str → Nat)

/-- a sorted list all of whose keys are `≥ c` splits into the elements with key `= c` followed by those with key `> c` -/
theorem sorted_split (c : Nat) (l : List Str) (hs : l.Pairwise (fun a b => K a ≤ K b)) (hge : ∀ x ∈ l, c ≤ K x) :
    l = l.filter (fun x => K x == c) ++ l.filter (fun x => decide (c < K x)) := by
  induction l with
  | nil => simp
  | cons a t ih =>
    rw [List.pairwise_cons] at hs
    have iht := ih hs.2 (fun x hx => hge x (List.mem_cons_of_mem _ hx))
    by_cases ha : K a = c
    · have h2 : ¬ c < K a := by omega
      simp only [List.filter_cons, ha, beq_self_eq_true, if_true, Nat.lt_irrefl, decide_false, Bool.false_eq_true, if_false,
        List.cons_append]
      rw [← iht]
    · have hgt : c < K a := by have := hge a List.mem_cons_self; omega
      have h1 : t.filter (fun x => K x == c) = [] := by
        rw [List.filter_eq_nil_iff]; intro x hx; have := hs.1 x hx; simp; omega
      have h3 : t.filter (fun x => decide (c < K x)) = t := by
        rw [List.filter_eq_self]; intro x hx; have := hs.1 x hx; simp; omega
      simp [ha, hgt, h1, h3]

/-- the split of the barrier list at threshold `c` -/
structure Split (bs : List Str) (c : Nat) (done rest : List Str) : Prop where
  eq : bs = done ++ rest
  lt : ∀ x ∈ done, K x < c
  ge : ∀ x ∈ rest, c ≤ K x
  sorted : rest.Pairwise (fun a b => K a ≤ K b)

variable {K}

theorem Split.head_min {bs : List Str} {c : Nat} {done : List Str} {x : Str} {rest : List Str}
    (h : Split K bs c done (x :: rest)) : ∀ y ∈ x :: rest, K x ≤ K y := by
  intro y hy
  rcases List.mem_cons.mp hy with rfl | hy'
  · exact Nat.le_refl _
  · exact (List.pairwise_cons.mp h.sorted).1 y hy'

/-- moving the threshold up without passing any key -/
theorem Split.raise {bs : List Str} {c c' : Nat} {done rest : List Str} (h : Split K bs c done rest) (hc : c ≤ c')
    (hr : ∀ x ∈ rest, c' ≤ K x) : Split K bs c' done rest :=
  ⟨h.eq, fun x hx => by have := h.lt x hx; omega, hr, h.sorted⟩

/-- moving the threshold from `c` to `c+1`: the elements with key `c` change side -/
theorem Split.step {bs : List Str} {c : Nat} {done rest : List Str} (h : Split K bs c done rest) :
    Split K bs (c + 1) (done ++ rest.filter (fun x => K x == c)) (rest.filter (fun x => decide (c < K x))) := by
  refine ⟨?_, ?_, ?_, h.sorted.filter _⟩
  · rw [List.append_assoc, ← sorted_split K c rest h.sorted h.ge]; exact h.eq
  · intro x hx
    rcases List.mem_append.mp hx with hx | hx
    · have := h.lt x hx; omega
    · have := (List.mem_filter.mp hx).2; simp at this; omega
  · intro x hx
    have := (List.mem_filter.mp hx).2; simp at this; omega

/-- counting / filtering the whole barrier list through a split -/
theorem Split.count_lt {bs : List Str} {c : Nat} {done rest : List Str} (h : Split K bs c done rest)
    (q : Str → Bool) (hq : ∀ b ∈ bs, q b = decide (K b < c)) : bs.countP q = done.length := by
  have hm : ∀ x, x ∈ done → x ∈ bs := fun x hx => by rw [h.eq]; exact List.mem_append_left _ hx
  have hm' : ∀ x, x ∈ rest → x ∈ bs := fun x hx => by rw [h.eq]; exact List.mem_append_right _ hx
  conv => lhs; rw [h.eq]
  rw [List.countP_append]
  have h1 : done.countP q = done.length := by
    rw [List.countP_eq_length]; intro x hx; rw [hq x (hm x hx)]; simpa using h.lt x hx
  have h2 : rest.countP q = 0 := by
    rw [List.countP_eq_zero]; intro x hx; rw [hq x (hm' x hx)]; have := h.ge x hx; simp; omega
  omega

theorem Split.filter_eq {bs : List Str} {c : Nat} {done rest : List Str} (h : Split K bs c done rest)
    (q : Str → Bool) (hq : ∀ b ∈ bs, q b = (K b == c)) : bs.filter q = rest.filter (fun x => K x == c) := by
  have hm : ∀ x, x ∈ done → x ∈ bs := fun x hx => by rw [h.eq]; exact List.mem_append_left _ hx
  have hm' : ∀ x, x ∈ rest → x ∈ bs := fun x hx => by rw [h.eq]; exact List.mem_append_right _ hx
  conv => lhs; rw [h.eq]
  rw [List.filter_append]
  have h1 : done.filter q = [] := by
    rw [List.filter_eq_nil_iff]; intro x hx; rw [hq x (hm x hx)]; have := h.lt x hx; simp; omega
  rw [h1, List.nil_append]
  apply List.filter_congr
  intro x hx; exact hq x (hm' x hx)

/-- a correct unflagged cell: no barrier has the key `c` -/
theorem Split.cell_plain {bs : List Str} {c : Nat} {done rest : List Str} (h : Split K bs c done rest) (v0 : Int) (p : Str)
    (hb : ∀ b ∈ bs, isBelow p b = decide (K b < c)) (hp : ∀ b ∈ bs, hasPre p b = (K b == c))
    (hgt : ∀ x ∈ rest, c < K x) :
    cellOK bs v0 p { val := v0 + (done.length : Nat), flag := false, bl := [] } = true := by
  have hf := h.filter_eq _ hp
  have hnil : rest.filter (fun x => K x == c) = [] := by
    rw [List.filter_eq_nil_iff]; intro x hx; have := hgt x hx; simp; omega
  simp only [cellOK, h.count_lt _ hb, beq_self_eq_true, Bool.true_and, Bool.false_eq_true, if_false, Bool.not_eq_true',
    List.any_eq_false]
  intro b hbm hpre
  have : b ∈ bs.filter (hasPre p) := List.mem_filter.mpr ⟨hbm, hpre⟩
  rw [hf, hnil] at this; simp at this

/-- a correct flagged cell: lists the barriers with key `c` -/
theorem Split.cell_flag {bs : List Str} {c : Nat} {done rest : List Str} (h : Split K bs c done rest) (v0 : Int) (p : Str)
    (hb : ∀ b ∈ bs, isBelow p b = decide (K b < c)) (hp : ∀ b ∈ bs, hasPre p b = (K b == c)) :
    cellOK bs v0 p { val := v0 + (done.length : Nat), flag := true, bl := rest.filter (fun x => K x == c) } = true := by
  simp [cellOK, h.count_lt _ hb, h.filter_eq _ hp]

end Key

/-! ### keys: first word, first two words -/

def fw (b : Str) : Nat := b.headD 0
def sw (b : Str) : Nat := (b.drop 1).headD 0

theorem get0_eq_fw {b : Str} (h : 1 ≤ b.length) : b[0]? = some (fw b) := by
  cases b with
  | nil => simp at h
  | cons x xs => simp [fw]

theorem get1_eq_sw {b : Str} (h : 2 ≤ b.length) : b[1]? = some (sw b) := by
  match b, h with
  | x :: y :: r, _ => simp [sw]

theorem isBelow1 {b : Str} (h : 1 ≤ b.length) (c : Nat) : isBelow [c] b = decide (fw b < c) := by
  cases b with
  | nil => simp at h
  | cons x xs =>
    simp only [isBelow, cmp_cons, cmp_nil_right, fw, List.headD_cons]
    by_cases h1 : x > c
    · have : ¬ x < c := by omega
      simp [h1, this]
    · by_cases h2 : x < c
      · simp [h1, h2]
      · simp [h1, h2]

theorem hasPre1 {b : Str} (h : 1 ≤ b.length) (c : Nat) : hasPre [c] b = (fw b == c) := by
  cases b with
  | nil => simp at h
  | cons x xs =>
    simp only [hasPre, fw, List.headD_cons, List.isPrefixOf, Bool.and_true]
    exact BEq.comm

theorem fw_mono {a b : Str} (ha : 1 ≤ a.length) (hb : 1 ≤ b.length) (h : leB a b = true) : fw a ≤ fw b := by
  cases a with
  | nil => simp at ha
  | cons x xs =>
    cases b with
    | nil => simp at hb
    | cons y ys =>
      simp only [leB, cmp_cons, bne_iff_ne, ne_eq] at h
      simp only [fw, List.headD_cons]
      by_cases hxy : x > y
      · simp [hxy] at h
      · omega

theorem fw_lt {W wp : Nat} {bs : List Str} (hwf : barriersWF W wp bs = true) (hwp : 1 ≤ wp) {b : Str} (hb : b ∈ bs) : fw b < W := by
  simp only [barriersWF, List.all_eq_true, Bool.and_eq_true, beq_iff_eq, decide_eq_true_eq] at hwf
  obtain ⟨hl, hw⟩ := hwf b hb
  cases b with
  | nil => simp at hl; omega
  | cons x xs => exact hw x List.mem_cons_self

/-! ### the inner loops of the builder -/

theorem toArray_get_append (pre : List Str) (x : Str) (rest : List Str) :
    (pre ++ x :: rest).toArray[pre.length]? = some x := by
  simp

/-- `while (b_index < nb && lu_index1 == barriers[b_index][0]) { push_back; b_index++; val++ }` -/
theorem runLoop1_spec (lu1 : Nat) (mid : List Str) (pre post : List Str)
    (hne : ∀ x ∈ pre ++ mid ++ post, 1 ≤ x.length) (hmid : ∀ x ∈ mid, fw x = lu1) (hpost : ∀ x ∈ post, fw x ≠ lu1)
    (fuel : Nat) (hf : mid.length < fuel) (val : Int) (acc : List Str) :
    runLoop1 (pre ++ mid ++ post).toArray lu1 fuel pre.length val acc =
      some (pre.length + mid.length, val + (mid.length : Nat), acc ++ mid) := by
  induction mid generalizing pre fuel val acc with
  | nil =>
    cases fuel with
    | zero => simp at hf
    | succ fuel =>
      cases post with
      | nil => simp [runLoop1]
      | cons y ys =>
        have hy : 1 ≤ y.length := hne y (by simp)
        have hyk : fw y ≠ lu1 := hpost y List.mem_cons_self
        simp only [List.append_nil, runLoop1, List.size_toArray, List.length_append, List.length_cons,
          toArray_get_append, get0_eq_fw hy]
        have : pre.length < pre.length + (ys.length + 1) := by omega
        simp only [this, if_true]
        split
        · rename_i h; exact absurd h.symm hyk
        · simp
  | cons m mid ih =>
    cases fuel with
    | zero => simp at hf
    | succ fuel =>
      have hm : 1 ≤ m.length := hne m (by simp)
      have hmk : fw m = lu1 := hmid m List.mem_cons_self
      have hget : (pre ++ m :: mid ++ post).toArray[pre.length]? = some m := by
        rw [List.append_assoc]; exact toArray_get_append pre m (mid ++ post)
      have hsz : pre.length < (pre ++ m :: mid ++ post).toArray.size := by simp
      simp only [runLoop1, hsz, if_true, hget, get0_eq_fw hm, hmk]
      have hrw : pre ++ m :: mid ++ post = (pre ++ [m]) ++ mid ++ post := by simp
      have := ih (pre ++ [m]) (by rw [← hrw]; exact hne) (fun x hx => hmid x (List.mem_cons_of_mem _ hx)) fuel
        (by simp at hf; omega) (val + 1) (acc ++ [m])
      simp only [List.length_append, List.length_cons, List.length_nil] at this
      rw [hrw]
      rw [this]
      simp only [List.length_cons, Option.some.injEq, Prod.mk.injEq, List.append_assoc, List.cons_append, List.nil_append, and_true]
      constructor
      · omega
      · push_cast; omega

/-- `while (lu_index1 < first && lu_index1 < W) { lu_table[lu_index1].val = val; lu_index1++; }` -/
theorem fillLoop_spec (W first : Nat) (val : Int) (fuel lu1 : Nat) (t : Array Cell) (hsz : t.size = W) (hle : lu1 ≤ first)
    (hfW : first < W) (hfuel : first - lu1 < fuel) :
    ∃ t', fillLoop W first val fuel lu1 t = some (first, t') ∧ t'.size = W ∧
      ∀ j, t'.getD j default = if lu1 ≤ j ∧ j < first then { t.getD j default with val := val } else t.getD j default := by
  induction fuel generalizing lu1 t with
  | zero => omega
  | succ fuel ih =>
    by_cases hlt : lu1 < first
    · obtain ⟨t1, hw, hs1, hg1⟩ := wr_spec t lu1 (fun c => { c with val := val }) (by omega)
      obtain ⟨t', he, hs', hg'⟩ := ih (lu1 + 1) t1 (by omega) (by omega) (by omega)
      have hc : lu1 < first ∧ lu1 < W := ⟨hlt, by omega⟩
      refine ⟨t', by simp [fillLoop, hc, hw, he], hs', ?_⟩
      intro j
      rw [hg' j, hg1 j]
      by_cases hj : j = lu1
      · subst hj; simp [hlt]
      · by_cases hj2 : lu1 + 1 ≤ j ∧ j < first
        · have : lu1 ≤ j ∧ j < first := by omega
          simp [hj2, this, hj]
        · have : ¬ (lu1 ≤ j ∧ j < first) := by omega
          simp [hj2, this, hj]
    · have : lu1 = first := by omega
      subst this
      refine ⟨t, by simp [fillLoop], hsz, ?_⟩
      intro j
      have : ¬ (lu1 ≤ j ∧ j < lu1) := by omega
      simp [this]

/-! ### depth 1 -/

/-- hypotheses on the barrier table -/
structure BHyp (depth W wp : Nat) (bs : List Str) : Prop where
  hW : 0 < W
  wf : barriersWF W wp bs = true
  sorted : sortedB bs = true
  wp_ge : depth ≤ wp
  odd : bs.length % 2 = 1
  last : lastOnes W depth bs = true

theorem vmax_eq {nb : Nat} (rc : Int) (h : nb % 2 = 1) : vmaxOf nb rc = v0Of nb rc + ((nb - 1 : Nat) : Int) := by
  simp only [vmaxOf, v0Of]; omega

theorem BHyp.len {depth W wp : Nat} {bs : List Str} (H : BHyp depth W wp bs) : ∀ b ∈ bs, b.length = wp :=
  lenWp_of_WF H.wf

theorem BHyp.fw_sorted {depth W wp : Nat} {bs : List Str} (H : BHyp depth W wp bs) (h1 : 1 ≤ wp) :
    bs.Pairwise (fun a b => fw a ≤ fw b) := by
  have hs := pairwise_of_sortedB H.len H.sorted
  refine hs.imp_of_mem ?_
  intro a b ha hb hab
  exact fw_mono (by rw [H.len a ha]; exact h1) (by rw [H.len b hb]; exact h1) hab

/-- all first-level cells below `lu1` are final and correct, the others untouched -/
structure TInv1 (bs : List Str) (v0 : Int) (W lu1 : Nat) (t : Array Cell) : Prop where
  size : t.size = W
  ok : ∀ j, j < lu1 → cellOK bs v0 [j] (t.getD j default) = true
  untouched : ∀ j, lu1 ≤ j → t.getD j default = default

theorem last_fw {W wp : Nat} {bs : List Str} (H : BHyp 1 W wp bs) : ∃ l ∈ bs, fw l = W - 1 := by
  have h := H.last
  simp only [lastOnes] at h
  cases hl : bs.getLast? with
  | none => simp [hl] at h
  | some l =>
    simp only [hl, beq_iff_eq] at h
    refine ⟨l, List.mem_of_getLast? hl, ?_⟩
    cases l with
    | nil => simp at h
    | cons x xs => simp [List.replicate] at h; simp [fw, h]

theorem split_rest_ne_nil {K : Str → Nat} {bs : List Str} {c : Nat} {done rest : List Str} (h : Split K bs c done rest)
    {l : Str} (hl : l ∈ bs) (hk : c ≤ K l) : ∃ x rest', rest = x :: rest' := by
  cases rest with
  | nil =>
    have : l ∈ done := by have := h.eq; simp at this; rw [this] at hl; exact hl
    have := h.lt l this; omega
  | cons x r => exact ⟨x, r, rfl⟩

theorem outer1_spec {W wp : Nat} {bs : List Str} (H : BHyp 1 W wp bs) (rc : Int) (fuel : Nat) (s : BSt)
    (done rest : List Str) (hsplit : Split fw bs s.lu1 done rest) (hb : s.b = done.length)
    (hval : s.val = v0Of bs.length rc + (done.length : Nat))
    (hT : TInv1 bs (v0Of bs.length rc) W s.lu1 s.t1) (hlu : s.lu1 ≤ W) (hfuel : W - s.lu1 < fuel) :
    ∃ s', outer1 W bs.toArray (vmaxOf bs.length rc) fuel s = some s' ∧ TInv1 bs (v0Of bs.length rc) W W s'.t1 ∧ s'.t2 = s.t2 := by
  induction fuel generalizing s done rest with
  | zero => omega
  | succ fuel ih =>
    have hwp : 1 ≤ wp := H.wp_ge
    have hlen1 : ∀ b ∈ bs, 1 ≤ b.length := fun b hb => by rw [H.len b hb]; exact hwp
    by_cases hlt : s.lu1 < W
    · obtain ⟨l, hl, hlk⟩ := last_fw H
      obtain ⟨x, rest', hr⟩ := split_rest_ne_nil hsplit hl (by omega)
      subst hr
      have hxbs : x ∈ bs := by rw [hsplit.eq]; simp
      have hx1 : 1 ≤ x.length := hlen1 x hxbs
      have hfirstW : fw x < W := fw_lt H.wf hwp hxbs
      have hle : s.lu1 ≤ fw x := hsplit.ge x List.mem_cons_self
      -- guard
      have hdl : done.length < bs.length := by rw [hsplit.eq]; simp
      have hguard : s.val ≤ vmaxOf bs.length rc ∧ s.lu1 < W := by
        refine ⟨?_, hlt⟩
        rw [vmax_eq rc H.odd, hval]; omega
      have hget : bs.toArray[s.b]? = some x := by
        rw [hb]; conv => lhs; rw [hsplit.eq]
        exact toArray_get_append done x rest'
      have hbw : bword bs.toArray s.b 0 = some (fw x) := by simp only [bword, hget, get0_eq_fw hx1]
      obtain ⟨t1, hfill, hs1, hg1⟩ := fillLoop_spec W (fw x) s.val (W + 1) s.lu1 s.t1 hT.size hle hfirstW (by omega)
      -- the split at threshold `first`
      have hsp1 : Split fw bs (fw x) done (x :: rest') := hsplit.raise hle hsplit.head_min
      have hsp2 := hsp1.step
      have hmid : (x :: rest').filter (fun y => fw y == fw x) = x :: rest'.filter (fun y => fw y == fw x) := by
        simp
      have hpost : (x :: rest').filter (fun y => decide (fw x < fw y)) = rest'.filter (fun y => decide (fw x < fw y)) := by
        simp
      rw [hmid, hpost] at hsp2
      generalize hmid' : rest'.filter (fun y => fw y == fw x) = mid' at hsp2
      generalize hpost' : rest'.filter (fun y => decide (fw x < fw y)) = post at hsp2
      have hbs2 : bs = (done ++ [x]) ++ mid' ++ post := by rw [hsp2.eq]; simp
      have hrun := runLoop1_spec (fw x) mid' (done ++ [x]) post (by rw [← hbs2]; exact hlen1)
        (fun y hy => by rw [← hmid'] at hy; have := (List.mem_filter.mp hy).2; simpa using this)
        (fun y hy => by rw [← hpost'] at hy; have := (List.mem_filter.mp hy).2; simp at this; omega)
        (bs.toArray.size + 1) (by
          have : mid'.length ≤ bs.length := by rw [hbs2]; simp; omega
          simp; omega) (s.val + 1) [x]
      rw [← hbs2] at hrun
      simp only [List.length_append, List.length_cons, List.length_nil, Nat.zero_add] at hrun
      rw [← hb] at hrun
      obtain ⟨t', hwr, hs', hg'⟩ := wr_spec t1 (fw x) (fun c => { val := s.val, flag := true, bl := c.bl ++ ([x] ++ mid') }) (by omega)
      -- the cell `first` before the write is untouched
      have hcell0 : t1.getD (fw x) default = default := by
        rw [hg1]; have : ¬ (s.lu1 ≤ fw x ∧ fw x < fw x) := by omega
        simp only [this, if_false]; exact hT.untouched _ hle
      -- recursive call
      have hisB : ∀ c, ∀ b ∈ bs, isBelow [c] b = decide (fw b < c) := fun c b hb => isBelow1 (hlen1 b hb) c
      have hhasP : ∀ c, ∀ b ∈ bs, hasPre [c] b = (fw b == c) := fun c b hb => hasPre1 (hlen1 b hb) c
      have hT' : TInv1 bs (v0Of bs.length rc) W (fw x + 1) t' := by
        refine ⟨by omega, ?_, ?_⟩
        · intro j hj
          rw [hg' j]
          by_cases hjf : j = fw x
          · subst hjf
            simp only [if_true, hcell0]
            have := hsp1.cell_flag (v0Of bs.length rc) [fw x] (hisB _) (hhasP _)
            rw [hmid, hmid'] at this
            simpa [hval] using this
          · simp only [hjf, if_false]
            rw [hg1 j]
            by_cases hj2 : s.lu1 ≤ j
            · have hjlt : j < fw x := by omega
              simp only [hj2, hjlt, and_self, if_true, hT.untouched j hj2]
              have hspj : Split fw bs j done (x :: rest') := hsplit.raise hj2 (fun y hy => by have := hsplit.head_min y hy; omega)
              have := hspj.cell_plain (v0Of bs.length rc) [j] (hisB _) (hhasP _) (fun y hy => by have := hsplit.head_min y hy; omega)
              simpa [hval] using this
            · have : ¬ (s.lu1 ≤ j ∧ j < fw x) := by omega
              simp only [this, if_false]
              exact hT.ok j (by omega)
        · intro j hj
          rw [hg' j]
          have hjf : j ≠ fw x := by omega
          simp only [hjf, if_false]
          rw [hg1 j]
          have : ¬ (s.lu1 ≤ j ∧ j < fw x) := by omega
          simp only [this, if_false]
          exact hT.untouched j (by omega)
      obtain ⟨s', hrec, hTf, ht2⟩ := ih
        { s with lu1 := fw x + 1, val := s.val + 1 + (mid'.length : Nat), b := s.b + 1 + mid'.length, t1 := t' }
        (done ++ x :: mid') post hsp2 (by simp [hb]; omega) (by simp [hval]; omega) hT' (by simp; omega) (by simp; omega)
      refine ⟨s', ?_, hTf, ht2⟩
      simp only [outer1, hguard, and_self, if_true, hbw, hfill, hget, hrun, hwr]
      exact hrec
    · have : s.lu1 = W := by omega
      have hg : ¬ (s.val ≤ vmaxOf bs.length rc ∧ s.lu1 < W) := by omega
      refine ⟨s, by simp [outer1, hg], ?_, rfl⟩
      exact ⟨hT.size, fun j hj => hT.ok j (by omega), fun j hj => hT.untouched j (by omega)⟩

theorem split_zero {K : Str → Nat} {bs : List Str} (hs : bs.Pairwise (fun a b => K a ≤ K b)) : Split K bs 0 [] bs :=
  ⟨by simp, by simp, by simp, hs⟩

theorem tableOK1_of_inv {W : Nat} {bs : List Str} {v0 : Int} {t1 : Array Cell} {t2 : Array (Option (Array Cell))}
    (h : TInv1 bs v0 W W t1) : tableOK1 W bs v0 ⟨t1, t2⟩ = true := by
  simp only [tableOK1, Bool.and_eq_true, beq_iff_eq, List.all_eq_true, List.mem_range]
  exact ⟨h.size, fun j hj => h.ok j hj⟩

/-- **the depth-1 builder model produces correct tables** -/
theorem buildLUT1_tableOK {W wp : Nat} {bs : List Str} (H : BHyp 1 W wp bs) (rc : Int) :
    ∃ T, buildLUT1 W bs rc = some T ∧ tableOK1 W bs (v0Of bs.length rc) T = true := by
  have hwp : 1 ≤ wp := H.wp_ge
  obtain ⟨s', hrun, hT, _⟩ := outer1_spec H rc (W + 1)
    { lu1 := 0, val := v0Of bs.length rc, b := 0, t1 := Array.replicate W default, t2 := #[] } [] bs
    (split_zero (H.fw_sorted hwp)) rfl (by simp)
    ⟨by simp, fun j hj => by simp at hj, fun j _ => getD_replicate_default W j⟩ (by simp) (by simp)
  exact ⟨⟨s'.t1, s'.t2⟩, by simp [buildLUT1, hrun], tableOK1_of_inv hT⟩

/-! ### depth 2: two-word key -/

def K2 (W : Nat) (b : Str) : Nat := fw b * W + sw b

theorem key2_lt_iff {W f s i j : Nat} (hs : s < W) (hj : j ≤ W) : f * W + s < i * W + j ↔ f < i ∨ (f = i ∧ s < j) := by
  rcases Nat.lt_trichotomy f i with h | h | h
  · have : (f + 1) * W ≤ i * W := Nat.mul_le_mul_right W h
    rw [Nat.add_mul, Nat.one_mul] at this
    constructor
    · intro _; exact Or.inl h
    · intro _; omega
  · subst h; constructor
    · intro h; exact Or.inr ⟨rfl, by omega⟩
    · intro h; omega
  · have : (i + 1) * W ≤ f * W := Nat.mul_le_mul_right W h
    rw [Nat.add_mul, Nat.one_mul] at this
    constructor
    · intro _; omega
    · intro h'; omega

theorem key2_eq_iff {W f s i j : Nat} (hs : s < W) (hj : j < W) : f * W + s = i * W + j ↔ f = i ∧ s = j := by
  have h1 := key2_lt_iff (W := W) (f := f) (s := s) (i := i) (j := j) hs (by omega)
  have h2 := key2_lt_iff (W := W) (f := i) (s := j) (i := f) (j := s) hj (by omega)
  constructor
  · intro h; omega
  · intro ⟨h, h'⟩; subst h; subst h'; rfl

theorem sw_lt {W wp : Nat} {bs : List Str} (hwf : barriersWF W wp bs = true) (hwp : 2 ≤ wp) {b : Str} (hb : b ∈ bs) : sw b < W := by
  simp only [barriersWF, List.all_eq_true, Bool.and_eq_true, beq_iff_eq, decide_eq_true_eq] at hwf
  obtain ⟨hl, hw⟩ := hwf b hb
  match b, hl, hw with
  | [], hl, _ => simp at hl; omega
  | [_], hl, _ => simp at hl; omega
  | x :: y :: r, _, hw => exact hw y (by simp)

theorem isBelow2 {W : Nat} {b : Str} (h : 2 ≤ b.length) (hs : sw b < W) (i j : Nat) (hj : j ≤ W) :
    isBelow [i, j] b = decide (K2 W b < i * W + j) := by
  match b, h with
  | x :: y :: r, _ =>
    simp only [sw, List.drop_succ_cons, List.drop_zero, List.headD_cons] at hs
    have hk := key2_lt_iff (W := W) (f := x) (s := y) (i := i) (j := j) hs hj
    simp only [isBelow, cmp_cons, cmp_nil_right, K2, fw, sw, List.headD_cons, List.drop_succ_cons, List.drop_zero]
    by_cases h1 : x > i
    · have : ¬ (x * W + y < i * W + j) := by rw [hk]; omega
      simp [h1, this]
    · by_cases h2 : x < i
      · have : x * W + y < i * W + j := by rw [hk]; omega
        simp [h1, h2, this]
      · have hxi : x = i := by omega
        subst hxi
        by_cases h3 : y > j
        · have : ¬ (x * W + y < x * W + j) := by omega
          simp [h3, this]
        · by_cases h4 : y < j
          · simp [h3, h4]
          · have : ¬ (x * W + y < x * W + j) := by omega
            simp [h3, h4]

theorem hasPre2 {W : Nat} {b : Str} (h : 2 ≤ b.length) (hs : sw b < W) (i j : Nat) (hj : j < W) :
    hasPre [i, j] b = (K2 W b == i * W + j) := by
  match b, h with
  | x :: y :: r, _ =>
    simp only [sw, List.drop_succ_cons, List.drop_zero, List.headD_cons] at hs
    have hk := key2_eq_iff (W := W) (f := x) (s := y) (i := i) (j := j) hs hj
    simp only [hasPre, List.isPrefixOf, Bool.and_true, K2, fw, sw, List.headD_cons, List.drop_succ_cons, List.drop_zero]
    by_cases hxy : x = i ∧ y = j
    · obtain ⟨rfl, rfl⟩ := hxy; simp
    · have : ¬ (x * W + y = i * W + j) := by rw [hk]; exact hxy
      have h' : ¬ (i = x ∧ j = y) := fun h => hxy ⟨h.1.symm, h.2.symm⟩
      simp only [beq_eq_false_iff_ne.mpr this]
      simp only [not_and] at h'
      by_cases hix : i = x
      · have := h' hix; simp [hix, this]
      · simp [hix]

theorem K2_mono {W : Nat} {a b : Str} (ha : 2 ≤ a.length) (hb : 2 ≤ b.length) (hsb : sw b < W) (hsa : sw a < W)
    (h : leB a b = true) : K2 W a ≤ K2 W b := by
  match a, ha, b, hb with
  | x :: y :: r, _, x' :: y' :: r', _ =>
    simp only [sw, List.drop_succ_cons, List.drop_zero, List.headD_cons] at hsa hsb
    simp only [leB, cmp_cons, bne_iff_ne, ne_eq] at h
    simp only [K2, fw, sw, List.headD_cons, List.drop_succ_cons, List.drop_zero]
    have hk := key2_lt_iff (W := W) (f := x') (s := y') (i := x) (j := y) hsb (by omega)
    by_cases h1 : x > x'
    · simp [h1] at h
    · by_cases h2 : x < x'
      · have : (x + 1) * W ≤ x' * W := Nat.mul_le_mul_right W h2
        rw [Nat.add_mul, Nat.one_mul] at this; omega
      · have : x = x' := by omega
        subst this
        by_cases h3 : y > y'
        · simp [h3] at h
        · omega

theorem BHyp.K2_sorted {W wp : Nat} {bs : List Str} (H : BHyp 2 W wp bs) : bs.Pairwise (fun a b => K2 W a ≤ K2 W b) := by
  have hs := pairwise_of_sortedB H.len H.sorted
  have hwp : 2 ≤ wp := H.wp_ge
  refine hs.imp_of_mem ?_
  intro a b ha hb hab
  exact K2_mono (by rw [H.len a ha]; exact hwp) (by rw [H.len b hb]; exact hwp) (sw_lt H.wf hwp hb) (sw_lt H.wf hwp ha) hab

/-- `while ((b_index<nb) && (lu_index1 == barriers[b_index][0]) && (lu_index2 == barriers[b_index][1]))` -/
theorem runLoop2_spec (lu1 lu2 : Nat) (mid : List Str) (pre post : List Str)
    (hne : ∀ x ∈ pre ++ mid ++ post, 2 ≤ x.length) (hmid : ∀ x ∈ mid, fw x = lu1 ∧ sw x = lu2)
    (hpost : ∀ x ∈ post, ¬ (fw x = lu1 ∧ sw x = lu2))
    (fuel : Nat) (hf : mid.length < fuel) (val : Int) (acc : List Str) :
    runLoop2 (pre ++ mid ++ post).toArray lu1 lu2 fuel pre.length val acc =
      some (pre.length + mid.length, val + (mid.length : Nat), acc ++ mid) := by
  induction mid generalizing pre fuel val acc with
  | nil =>
    cases fuel with
    | zero => simp at hf
    | succ fuel =>
      cases post with
      | nil => simp [runLoop2]
      | cons y ys =>
        have hy : 2 ≤ y.length := hne y (by simp)
        have hyk := hpost y List.mem_cons_self
        simp only [List.append_nil, runLoop2, List.size_toArray, List.length_append, List.length_cons,
          toArray_get_append, get0_eq_fw (by omega : 1 ≤ y.length), get1_eq_sw hy]
        have : pre.length < pre.length + (ys.length + 1) := by omega
        simp only [this, if_true]
        split
        · rename_i h
          split
          · rename_i h'; exact absurd ⟨h.symm, h'.symm⟩ hyk
          · simp
        · simp
  | cons m mid ih =>
    cases fuel with
    | zero => simp at hf
    | succ fuel =>
      have hm : 2 ≤ m.length := hne m (by simp)
      have hmk := hmid m List.mem_cons_self
      have hget : (pre ++ m :: mid ++ post).toArray[pre.length]? = some m := by
        rw [List.append_assoc]; exact toArray_get_append pre m (mid ++ post)
      have hsz : pre.length < (pre ++ m :: mid ++ post).toArray.size := by simp
      simp only [runLoop2, hsz, if_true, hget, get0_eq_fw (by omega : 1 ≤ m.length), get1_eq_sw hm, hmk.1, hmk.2]
      have hrw : pre ++ m :: mid ++ post = (pre ++ [m]) ++ mid ++ post := by simp
      have := ih (pre ++ [m]) (by rw [← hrw]; exact hne) (fun x hx => hmid x (List.mem_cons_of_mem _ hx)) fuel
        (by simp at hf; omega) (val + 1) (acc ++ [m])
      simp only [List.length_append, List.length_cons, List.length_nil] at this
      rw [hrw]
      rw [this]
      simp only [List.length_cons, Option.some.injEq, Prod.mk.injEq, List.append_assoc, List.cons_append, List.nil_append, and_true]
      constructor
      · omega
      · push_cast; omega

/-- cells `< lu2` of the row under first-level cell `lu1` are final and correct, the others untouched -/
structure RowInv (bs : List Str) (v0 : Int) (W lu1 lu2 : Nat) (row : Array Cell) : Prop where
  size : row.size = W
  ok : ∀ j, j < lu2 → cellOK bs v0 [lu1, j] (row.getD j default) = true
  untouched : ∀ j, lu2 ≤ j → row.getD j default = default

theorem last_K2 {W wp : Nat} {bs : List Str} (H : BHyp 2 W wp bs) : ∃ l ∈ bs, K2 W l = (W - 1) * W + (W - 1) := by
  have h := H.last
  simp only [lastOnes] at h
  cases hl : bs.getLast? with
  | none => simp [hl] at h
  | some l =>
    simp only [hl, beq_iff_eq] at h
    refine ⟨l, List.mem_of_getLast? hl, ?_⟩
    match l, h with
    | [], h => simp [List.replicate] at h
    | [_], h => simp [List.replicate] at h
    | x :: y :: r, h =>
      simp [List.replicate] at h
      simp [K2, fw, sw, h.1, h.2]

theorem inner2_spec {W wp : Nat} {bs : List Str} (H : BHyp 2 W wp bs) (rc : Int) (lu1 : Nat) (hlu1 : lu1 < W)
    (fuel lu2 : Nat) (row : Array Cell) (done rest : List Str)
    (hsplit : Split (K2 W) bs (lu1 * W + lu2) done rest)
    (hR : RowInv bs (v0Of bs.length rc) W lu1 lu2 row) (hlu2 : lu2 ≤ W) (hfuel : W - lu2 < fuel) :
    ∃ done' rest' row', inner2 W bs.toArray lu1 fuel lu2 done.length (v0Of bs.length rc + (done.length : Nat)) row =
        some (done'.length, v0Of bs.length rc + (done'.length : Nat), row') ∧
      Split (K2 W) bs (lu1 * W + W) done' rest' ∧ RowInv bs (v0Of bs.length rc) W lu1 W row' := by
  induction fuel generalizing lu2 row done rest with
  | zero => omega
  | succ fuel ih =>
    have hwp : 2 ≤ wp := H.wp_ge
    have hlen2 : ∀ b ∈ bs, 2 ≤ b.length := fun b hb => by rw [H.len b hb]; exact hwp
    by_cases hlt : lu2 < W
    · -- some barrier is still ahead: the last one has the largest possible key
      obtain ⟨l, hl, hlk⟩ := last_K2 H
      have hcmax : lu1 * W + lu2 ≤ (W - 1) * W + (W - 1) := by
        have : lu1 * W ≤ (W - 1) * W := Nat.mul_le_mul_right W (by omega)
        omega
      obtain ⟨x, rest', hr⟩ := split_rest_ne_nil hsplit hl (by omega)
      subst hr
      have hxbs : x ∈ bs := by rw [hsplit.eq]; simp
      have hx2 : 2 ≤ x.length := hlen2 x hxbs
      have hsx : sw x < W := sw_lt H.wf hwp hxbs
      have hget : bs.toArray[done.length]? = some x := by
        conv => lhs; rw [hsplit.eq]
        exact toArray_get_append done x rest'
      have hge : lu1 * W + lu2 ≤ K2 W x := hsplit.ge x List.mem_cons_self
      have hnlt : ¬ (fw x * W + sw x < lu1 * W + lu2) := by simp only [K2] at hge; omega
      rw [key2_lt_iff hsx (by omega)] at hnlt
      have hgt_iff : lu1 * W + lu2 < K2 W x ↔ lu1 < fw x ∨ (lu1 = fw x ∧ lu2 < sw x) := by
        simp only [K2]; exact key2_lt_iff hlt (by omega)
      have hisB : ∀ j, j ≤ W → ∀ b ∈ bs, isBelow [lu1, j] b = decide (K2 W b < lu1 * W + j) :=
        fun j hj b hb => isBelow2 (hlen2 b hb) (sw_lt H.wf hwp hb) lu1 j hj
      have hhasP : ∀ j, j < W → ∀ b ∈ bs, hasPre [lu1, j] b = (K2 W b == lu1 * W + j) :=
        fun j hj b hb => hasPre2 (hlen2 b hb) (sw_lt H.wf hwp hb) lu1 j hj
      -- the common "plain cell" step
      have plain : lu1 * W + lu2 < K2 W x →
          ∃ row1, wr row lu2 (fun c => { c with val := v0Of bs.length rc + (done.length : Nat) }) = some row1 ∧
            Split (K2 W) bs (lu1 * W + (lu2 + 1)) done (x :: rest') ∧ RowInv bs (v0Of bs.length rc) W lu1 (lu2 + 1) row1 := by
        intro hgt
        obtain ⟨row1, hw, hs1, hg1⟩ := wr_spec row lu2 (fun c => { c with val := v0Of bs.length rc + (done.length : Nat) }) (by rw [hR.size]; exact hlt)
        refine ⟨row1, hw, ?_, ⟨by rw [hs1]; exact hR.size, ?_, ?_⟩⟩
        · exact hsplit.raise (by omega) (fun y hy => by have := hsplit.head_min y hy; omega)
        · intro j hj
          rw [hg1 j]
          by_cases hjl : j = lu2
          · subst hjl
            simp only [if_true, hR.untouched j (Nat.le_refl _)]
            have := hsplit.cell_plain (v0Of bs.length rc) [lu1, j] (hisB j (by omega)) (hhasP j hlt)
              (fun y hy => by have := hsplit.head_min y hy; omega)
            simpa using this
          · simp only [hjl, if_false]; exact hR.ok j (by omega)
        · intro j hj
          rw [hg1 j]
          have : j ≠ lu2 := by omega
          simp only [this, if_false]; exact hR.untouched j (by omega)
      by_cases hc1 : lu1 < fw x
      · obtain ⟨row1, hw, hsp', hR'⟩ := plain (hgt_iff.mpr (Or.inl hc1))
        obtain ⟨done', rest'', row', he, hsp'', hR''⟩ := ih (lu2 + 1) row1 done (x :: rest') hsp' hR' (by omega) (by omega)
        refine ⟨done', rest'', row', ?_, hsp'', hR''⟩
        simp only [inner2, hlt, if_true, hget, get0_eq_fw (by omega : 1 ≤ x.length), hc1, hw]
        exact he
      · by_cases hc2 : lu2 < sw x
        · have hfx : lu1 = fw x := by omega
          obtain ⟨row1, hw, hsp', hR'⟩ := plain (hgt_iff.mpr (Or.inr ⟨hfx, hc2⟩))
          obtain ⟨done', rest'', row', he, hsp'', hR''⟩ := ih (lu2 + 1) row1 done (x :: rest') hsp' hR' (by omega) (by omega)
          refine ⟨done', rest'', row', ?_, hsp'', hR''⟩
          simp only [inner2, hlt, if_true, hget, get0_eq_fw (by omega : 1 ≤ x.length), hc1, if_false, get1_eq_sw hx2, hc2, hw]
          exact he
        · -- on a barrier
          have hfx : lu1 = fw x := by omega
          have hsx' : lu2 = sw x := by omega
          have hkx : K2 W x = lu1 * W + lu2 := by simp only [K2]; rw [← hfx, ← hsx']
          have hsp2 := hsplit.step
          have hmid : (x :: rest').filter (fun y => K2 W y == lu1 * W + lu2) = x :: rest'.filter (fun y => K2 W y == lu1 * W + lu2) := by
            simp [hkx]
          have hpost : (x :: rest').filter (fun y => decide (lu1 * W + lu2 < K2 W y)) = rest'.filter (fun y => decide (lu1 * W + lu2 < K2 W y)) := by
            simp [hkx]
          rw [hmid, hpost] at hsp2
          generalize hmid' : rest'.filter (fun y => K2 W y == lu1 * W + lu2) = mid' at hsp2
          generalize hpost' : rest'.filter (fun y => decide (lu1 * W + lu2 < K2 W y)) = post at hsp2
          have hbs2 : bs = (done ++ [x]) ++ mid' ++ post := by rw [hsp2.eq]; simp
          have hkeq : ∀ y ∈ bs, K2 W y = lu1 * W + lu2 ↔ (fw y = lu1 ∧ sw y = lu2) := by
            intro y hy; simp only [K2]; exact key2_eq_iff (sw_lt H.wf hwp hy) hlt
          have hrun := runLoop2_spec lu1 lu2 mid' (done ++ [x]) post (by rw [← hbs2]; exact hlen2)
            (fun y hy => by
              have hyb : y ∈ bs := by rw [hbs2]; simp [hy]
              rw [← hmid'] at hy; have := (List.mem_filter.mp hy).2
              exact (hkeq y hyb).mp (by simpa using this))
            (fun y hy => by
              have hyb : y ∈ bs := by rw [hbs2]; simp [hy]
              rw [← hpost'] at hy; have := (List.mem_filter.mp hy).2
              have h2 : lu1 * W + lu2 < K2 W y := by simpa using this
              intro hh; have := (hkeq y hyb).mpr hh; omega)
            (bs.toArray.size + 1) (by
              have : mid'.length ≤ bs.length := by rw [hbs2]; simp; omega
              simp; omega) (v0Of bs.length rc + (done.length : Nat) + 1) [x]
          rw [← hbs2] at hrun
          simp only [List.length_append, List.length_cons, List.length_nil, Nat.zero_add] at hrun
          obtain ⟨row1, hw, hs1, hg1⟩ := wr_spec row lu2
            (fun c => { val := v0Of bs.length rc + (done.length : Nat), flag := true, bl := c.bl ++ ([x] ++ mid') }) (by rw [hR.size]; exact hlt)
          have hR' : RowInv bs (v0Of bs.length rc) W lu1 (lu2 + 1) row1 := by
            refine ⟨by rw [hs1]; exact hR.size, ?_, ?_⟩
            · intro j hj
              rw [hg1 j]
              by_cases hjl : j = lu2
              · subst hjl
                simp only [if_true, hR.untouched j (Nat.le_refl _)]
                have := hsplit.cell_flag (v0Of bs.length rc) [lu1, j] (hisB j (by omega)) (hhasP j hlt)
                rw [hmid, hmid'] at this
                simpa using this
              · simp only [hjl, if_false]; exact hR.ok j (by omega)
            · intro j hj
              rw [hg1 j]
              have : j ≠ lu2 := by omega
              simp only [this, if_false]; exact hR.untouched j (by omega)
          have hsp3 : Split (K2 W) bs (lu1 * W + (lu2 + 1)) (done ++ x :: mid') post := by
            have : lu1 * W + (lu2 + 1) = lu1 * W + lu2 + 1 := by omega
            rw [this]; exact hsp2
          obtain ⟨done', rest'', row', he, hsp'', hR''⟩ := ih (lu2 + 1) row1 (done ++ x :: mid') post hsp3 hR' (by omega) (by omega)
          refine ⟨done', rest'', row', ?_, hsp'', hR''⟩
          have hcond : lu1 = fw x ∧ lu2 = sw x := ⟨hfx, hsx'⟩
          simp only [inner2, hlt, if_true, hget, get0_eq_fw (by omega : 1 ≤ x.length), hc1, if_false, get1_eq_sw hx2, hc2,
            if_pos hcond, hrun, hw]
          have e1 : done.length + 1 + mid'.length = (done ++ x :: mid').length := by simp; omega
          have e2 : v0Of bs.length rc + (done.length : Nat) + 1 + (mid'.length : Nat) = v0Of bs.length rc + ((done ++ x :: mid').length : Nat) := by
            simp; omega
          rw [e1, e2]
          exact he
    · have hW : lu2 = W := by omega
      subst hW
      refine ⟨done, rest, row, ?_, hsplit, hR⟩
      simp [inner2]

/-! ### depth 2: outer loop -/

structure TInv2 (bs : List Str) (v0 : Int) (W lu1 : Nat) (t1 : Array Cell) (t2 : Array (Option (Array Cell))) : Prop where
  size1 : t1.size = W
  size2 : t2.size = W
  ok : ∀ j, j < lu1 →
    ((t1.getD j default).flag = false → cellOK bs v0 [j] (t1.getD j default) = true) ∧
    ((t1.getD j default).flag = true → ∃ row, t2.getD j none = some row ∧ row.size = W ∧
      ∀ k, k < W → cellOK bs v0 [j, k] (row.getD k default) = true)
  untouched : ∀ j, lu1 ≤ j → t1.getD j default = default

theorem setBang_getD (t : Array (Option (Array Cell))) (i j : Nat) (v : Option (Array Cell)) (hi : i < t.size) :
    (t.set! i v).getD j none = if j = i then v else t.getD j none := by
  by_cases hji : j = i
  · subst hji; simp [Array.getD, hi]
  · by_cases hj : j < t.size
    · simp [Array.getD, hj, hji, Ne.symm hji]
    · simp [Array.getD, hj, hji]

theorem split_fw_to_K2 {W wp : Nat} {bs : List Str} (H : BHyp 2 W wp bs) {c : Nat} {done rest : List Str}
    (h : Split fw bs c done rest) : Split (K2 W) bs (c * W + 0) done rest := by
  have hwp : 2 ≤ wp := H.wp_ge
  have hm : ∀ x, x ∈ done → x ∈ bs := fun x hx => by rw [h.eq]; exact List.mem_append_left _ hx
  have hm' : ∀ x, x ∈ rest → x ∈ bs := fun x hx => by rw [h.eq]; exact List.mem_append_right _ hx
  refine ⟨h.eq, ?_, ?_, ?_⟩
  · intro x hx
    simp only [K2]; rw [key2_lt_iff (sw_lt H.wf hwp (hm x hx)) (by omega)]
    exact Or.inl (h.lt x hx)
  · intro x hx
    have : ¬ (fw x * W + sw x < c * W + 0) := by
      rw [key2_lt_iff (sw_lt H.wf hwp (hm' x hx)) (by omega)]
      have := h.ge x hx; omega
    simp only [K2]; omega
  · have := H.K2_sorted
    rw [h.eq] at this
    exact this.sublist (List.sublist_append_right done rest)

theorem split_K2_to_fw {W wp : Nat} {bs : List Str} (H : BHyp 2 W wp bs) {c : Nat} {done rest : List Str}
    (h : Split (K2 W) bs (c * W + W) done rest) : Split fw bs (c + 1) done rest := by
  have hwp : 2 ≤ wp := H.wp_ge
  have hm : ∀ x, x ∈ done → x ∈ bs := fun x hx => by rw [h.eq]; exact List.mem_append_left _ hx
  have hm' : ∀ x, x ∈ rest → x ∈ bs := fun x hx => by rw [h.eq]; exact List.mem_append_right _ hx
  refine ⟨h.eq, ?_, ?_, ?_⟩
  · intro x hx
    have := h.lt x hx
    simp only [K2] at this
    rw [key2_lt_iff (sw_lt H.wf hwp (hm x hx)) (Nat.le_refl _)] at this
    omega
  · intro x hx
    have h1 := h.ge x hx
    have h2 : ¬ (fw x * W + sw x < c * W + W) := by simp only [K2] at h1; omega
    rw [key2_lt_iff (sw_lt H.wf hwp (hm' x hx)) (Nat.le_refl _)] at h2
    have := sw_lt H.wf hwp (hm' x hx)
    omega
  · have := H.fw_sorted (by omega)
    rw [h.eq] at this
    exact this.sublist (List.sublist_append_right done rest)

theorem last_fw2 {W wp : Nat} {bs : List Str} (H : BHyp 2 W wp bs) : ∃ l ∈ bs, fw l = W - 1 := by
  have h := H.last
  simp only [lastOnes] at h
  cases hl : bs.getLast? with
  | none => simp [hl] at h
  | some l =>
    simp only [hl, beq_iff_eq] at h
    refine ⟨l, List.mem_of_getLast? hl, ?_⟩
    cases l with
    | nil => simp [List.replicate] at h
    | cons x xs =>
      cases xs with
      | nil => simp [List.replicate] at h
      | cons y r => simp [List.replicate] at h; simp [fw, h.1]

theorem outer2_spec {W wp : Nat} {bs : List Str} (H : BHyp 2 W wp bs) (rc : Int) (fuel : Nat) (s : BSt)
    (done rest : List Str) (hsplit : Split fw bs s.lu1 done rest) (hb : s.b = done.length)
    (hval : s.val = v0Of bs.length rc + (done.length : Nat))
    (hT : TInv2 bs (v0Of bs.length rc) W s.lu1 s.t1 s.t2) (hlu : s.lu1 ≤ W) (hfuel : W - s.lu1 < fuel) :
    ∃ s', outer2 W bs.toArray (vmaxOf bs.length rc) fuel s = some s' ∧ TInv2 bs (v0Of bs.length rc) W W s'.t1 s'.t2 := by
  induction fuel generalizing s done rest with
  | zero => omega
  | succ fuel ih =>
    have hwp : 2 ≤ wp := H.wp_ge
    have hlen1 : ∀ b ∈ bs, 1 ≤ b.length := fun b hb => by rw [H.len b hb]; omega
    by_cases hlt : s.lu1 < W
    · obtain ⟨l, hl, hlk⟩ := last_fw2 H
      obtain ⟨x, rest', hr⟩ := split_rest_ne_nil hsplit hl (by omega)
      subst hr
      have hxbs : x ∈ bs := by rw [hsplit.eq]; simp
      have hx1 : 1 ≤ x.length := hlen1 x hxbs
      have hfirstW : fw x < W := fw_lt H.wf (by omega) hxbs
      have hle : s.lu1 ≤ fw x := hsplit.ge x List.mem_cons_self
      have hdl : done.length < bs.length := by rw [hsplit.eq]; simp
      have hguard : s.val ≤ vmaxOf bs.length rc ∧ s.lu1 < W := by
        refine ⟨?_, hlt⟩
        rw [vmax_eq rc H.odd, hval]; omega
      have hget : bs.toArray[s.b]? = some x := by
        rw [hb]; conv => lhs; rw [hsplit.eq]
        exact toArray_get_append done x rest'
      have hbw : bword bs.toArray s.b 0 = some (fw x) := by simp only [bword, hget, get0_eq_fw hx1]
      obtain ⟨t1, hfill, hs1, hg1⟩ := fillLoop_spec W (fw x) s.val (W + 1) s.lu1 s.t1 hT.size1 hle hfirstW (by omega)
      obtain ⟨t', hwr, hs', hg'⟩ := wr_spec t1 (fw x) (fun c => { c with val := s.val, flag := true }) (by omega)
      have hcell0 : t1.getD (fw x) default = default := by
        rw [hg1]; have : ¬ (s.lu1 ≤ fw x ∧ fw x < fw x) := by omega
        simp only [this, if_false]; exact hT.untouched _ hle
      have hsp1 : Split fw bs (fw x) done (x :: rest') := hsplit.raise hle hsplit.head_min
      have hspK := split_fw_to_K2 H hsp1
      obtain ⟨done', rest'', row', hinner, hspK', hR'⟩ := inner2_spec H rc (fw x) hfirstW (W + 1) 0
        (Array.replicate W default) done (x :: rest') hspK
        ⟨by simp, fun j hj => by omega, fun j _ => getD_replicate_default W j⟩ (by omega) (by omega)
      have hsp2 := split_K2_to_fw H hspK'
      have hsz2 : fw x < s.t2.size := by rw [hT.size2]; exact hfirstW
      have hisB : ∀ c, ∀ b ∈ bs, isBelow [c] b = decide (fw b < c) := fun c b hb => isBelow1 (hlen1 b hb) c
      have hhasP : ∀ c, ∀ b ∈ bs, hasPre [c] b = (fw b == c) := fun c b hb => hasPre1 (hlen1 b hb) c
      have hT' : TInv2 bs (v0Of bs.length rc) W (fw x + 1) t' (s.t2.set! (fw x) (some row')) := by
        refine ⟨by omega, by simp [hT.size2], ?_, ?_⟩
        · intro j hj
          rw [hg' j, setBang_getD _ _ _ _ hsz2]
          by_cases hjf : j = fw x
          · subst hjf
            simp only [if_true, hcell0]
            refine ⟨fun h => by simp at h, fun _ => ⟨row', rfl, hR'.size, fun k hk => hR'.ok k hk⟩⟩
          · simp only [hjf, if_false]
            rw [hg1 j]
            by_cases hj2 : s.lu1 ≤ j
            · have hjlt : j < fw x := by omega
              simp only [hj2, hjlt, and_self, if_true, hT.untouched j hj2]
              have hspj : Split fw bs j done (x :: rest') := hsplit.raise hj2 (fun y hy => by have := hsplit.head_min y hy; omega)
              have := hspj.cell_plain (v0Of bs.length rc) [j] (hisB _) (hhasP _) (fun y hy => by have := hsplit.head_min y hy; omega)
              refine ⟨fun _ => by simpa [hval] using this, fun h => by simp at h⟩
            · have : ¬ (s.lu1 ≤ j ∧ j < fw x) := by omega
              simp only [this, if_false]
              exact hT.ok j (by omega)
        · intro j hj
          rw [hg' j]
          have hjf : j ≠ fw x := by omega
          simp only [hjf, if_false]
          rw [hg1 j]
          have : ¬ (s.lu1 ≤ j ∧ j < fw x) := by omega
          simp only [this, if_false]
          exact hT.untouched j (by omega)
      obtain ⟨s', hrec, hTf⟩ := ih
        { lu1 := fw x + 1, val := v0Of bs.length rc + (done'.length : Nat), b := done'.length, t1 := t',
          t2 := s.t2.set! (fw x) (some row') }
        done' rest'' hsp2 rfl rfl hT' (by simp; omega) (by simp; omega)
      refine ⟨s', ?_, hTf⟩
      rw [← hval, ← hb] at hinner
      simp only [outer2, hguard, and_self, if_true, hbw, hfill, hwr, hsz2, hinner]
      exact hrec
    · have : s.lu1 = W := by omega
      have hg : ¬ (s.val ≤ vmaxOf bs.length rc ∧ s.lu1 < W) := by omega
      refine ⟨s, by simp [outer2, hg], ?_⟩
      exact ⟨hT.size1, hT.size2, fun j hj => hT.ok j (by omega), fun j hj => hT.untouched j (by omega)⟩

theorem tableOK2_of_inv {W : Nat} {bs : List Str} {v0 : Int} {t1 : Array Cell} {t2 : Array (Option (Array Cell))}
    (h : TInv2 bs v0 W W t1 t2) : tableOK2 W bs v0 ⟨t1, t2⟩ = true := by
  simp only [tableOK2, Bool.and_eq_true, beq_iff_eq, List.all_eq_true, List.mem_range]
  refine ⟨⟨h.size1, h.size2⟩, ?_⟩
  intro i hi
  obtain ⟨h1, h2⟩ := h.ok i hi
  by_cases hf : (t1.getD i default).flag = true
  · obtain ⟨row, hr, hs, hk⟩ := h2 hf
    simp only [hf, if_true, hr, Bool.and_eq_true, beq_iff_eq, List.all_eq_true, List.mem_range]
    exact ⟨hs, hk⟩
  · simp only [hf]
    exact h1 (by simpa using hf)

/-- **the depth-2 builder model produces correct tables** (in particular it never indexes `barriers[nb]`) -/
theorem buildLUT2_tableOK {W wp : Nat} {bs : List Str} (H : BHyp 2 W wp bs) (rc : Int) :
    ∃ T, buildLUT2 W bs rc = some T ∧ tableOK2 W bs (v0Of bs.length rc) T = true := by
  obtain ⟨s', hrun, hT⟩ := outer2_spec H rc (W + 1)
    { lu1 := 0, val := v0Of bs.length rc, b := 0, t1 := Array.replicate W default, t2 := Array.replicate W none } [] bs
    (split_zero (H.fw_sorted (by have := H.wp_ge; omega))) rfl (by simp)
    ⟨by simp, by simp, fun j hj => by simp at hj, fun j _ => getD_replicate_default W j⟩ (by simp) (by simp)
  exact ⟨⟨s'.t1, s'.t2⟩, by simp [buildLUT2, hrun], tableOK2_of_inv hT⟩

/-- both depths -/
theorem buildLUT_tableOK' {depth W wp : Nat} {bs : List Str} (hd : depth = 1 ∨ depth = 2) (H : BHyp depth W wp bs) (rc : Int) :
    ∃ T, buildLUT depth W bs rc = some T ∧ tableOK depth W bs (v0Of bs.length rc) T = true := by
  rcases hd with rfl | rfl
  · simpa [buildLUT, tableOK] using buildLUT1_tableOK H rc
  · simpa [buildLUT, tableOK] using buildLUT2_tableOK H rc

end Nfl.Gauss
