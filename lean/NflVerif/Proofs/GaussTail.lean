/-
An elementary tail bound for the discrete Gaussian over `ℤ` (helper lemmas of Properties/C10Tail.lean).

`rho σ c x = exp(−(x−c)²/(2σ²))` (`x : ℤ`), `S σ c = Σ_{x∈ℤ} rho σ c x`, `D σ c x = rho σ c x / S σ c`.
No Poisson summation: each one-sided tail is compared with a geometric series, the normaliser is bounded from below by
finitely many terms.  Finite sums over arbitrary finite sets of integers are bounded uniformly and the bounds are passed
to `tsum` afterwards.
-/
import NflVerif.Proofs.GaussTV
import Mathlib.Analysis.SpecialFunctions.Exp
import Mathlib.Analysis.SpecialFunctions.Log.Basic
import Mathlib.Analysis.SpecificLimits.Basic
import Mathlib.Topology.Algebra.InfiniteSum.Real
import Mathlib.Topology.Algebra.InfiniteSum.Order
import Mathlib.Topology.Algebra.InfiniteSum.Ring
import Mathlib.Data.Int.Interval
import Mathlib.Algebra.Order.Round
import Mathlib.Algebra.Order.Floor.Ring
import Mathlib.Tactic.Linarith
import Mathlib.Tactic.Ring
import Mathlib.Tactic.Positivity
import Mathlib.Tactic.FieldSimp
import Mathlib.Tactic.NormNum

namespace Nfl.Gauss.Tail
open Finset

/-- the Gaussian weight of the integer `x`: `exp(−(x−c)²/(2σ²))` -/
noncomputable def rho (σ c : ℝ) (x : ℤ) : ℝ := Real.exp (-(((x : ℝ) - c) ^ 2) / (2 * σ ^ 2))

theorem rho_pos (σ c : ℝ) (x : ℤ) : 0 < rho σ c x := Real.exp_pos _

theorem rho_nonneg (σ c : ℝ) (x : ℤ) : 0 ≤ rho σ c x := (rho_pos σ c x).le

theorem rho_le_one (σ c : ℝ) (x : ℤ) : rho σ c x ≤ 1 := by
  unfold rho
  rw [← Real.exp_zero]
  apply Real.exp_le_exp.mpr
  apply div_nonpos_of_nonpos_of_nonneg
  · nlinarith [sq_nonneg ((x : ℝ) - c)]
  · positivity

/-- reflection `x ↦ −x`, `c ↦ −c` -/
theorem rho_neg (σ c : ℝ) (x : ℤ) : rho σ (-c) (-x) = rho σ c x := by
  unfold rho
  congr 2
  push_cast
  ring

/-- lower bound of a weight at distance at most `d` -/
theorem rho_ge_of_abs_le {σ c d : ℝ} (hσ : 0 < σ) {x : ℤ} (h : |(x : ℝ) - c| ≤ d) :
    Real.exp (-(d ^ 2) / (2 * σ ^ 2)) ≤ rho σ c x := by
  unfold rho
  apply Real.exp_le_exp.mpr
  apply div_le_div_of_nonneg_right _ (by positivity)
  have := sq_le_sq' (neg_le_of_abs_le h) (le_of_abs_le h)
  linarith

/-! ### the one-sided geometric comparison -/

/-- `(a + j)² ≥ T² + 2·T·j` for `a ≥ T > 0`: the `j`-th weight beyond the first is at most
`exp(−T²/(2σ²)) · exp(−T/σ²)^j`. -/
theorem rho_le_geom {σ c T : ℝ} (hσ : 0 < σ) (hT : 0 < T) {m : ℤ} (hm : T ≤ (m : ℝ) - c) (j : ℕ) :
    rho σ c (m + (j : ℤ)) ≤ Real.exp (-(T ^ 2) / (2 * σ ^ 2)) * Real.exp (-T / σ ^ 2) ^ j := by
  unfold rho
  rw [← Real.exp_nat_mul, ← Real.exp_add]
  apply Real.exp_le_exp.mpr
  have hj : (0 : ℝ) ≤ (j : ℝ) := Nat.cast_nonneg j
  have key : T ^ 2 + 2 * (j : ℝ) * T ≤ (((m + (j : ℤ) : ℤ) : ℝ) - c) ^ 2 := by
    push_cast
    have h1 : T * T ≤ ((m : ℝ) - c) * ((m : ℝ) - c) := mul_le_mul hm hm hT.le (hT.le.trans hm)
    have h2 : (j : ℝ) * T ≤ (j : ℝ) * ((m : ℝ) - c) := mul_le_mul_of_nonneg_left hm hj
    nlinarith [mul_nonneg hj hj]
  have e : -(T ^ 2) / (2 * σ ^ 2) + (j : ℝ) * (-T / σ ^ 2) = -(T ^ 2 + 2 * (j : ℝ) * T) / (2 * σ ^ 2) := by
    field_simp
    ring
  rw [e]
  exact div_le_div_of_nonneg_right (neg_le_neg key) (by positivity)

theorem exp_neg_lt_one {u : ℝ} (hu : 0 < u) : Real.exp (-u) < 1 := by
  rw [← Real.exp_zero]
  exact Real.exp_lt_exp.mpr (by linarith)

/-- **one-sided bound (right)**: every finite set of integers `x` with `x − c ≥ T` has total weight at most
`exp(−T²/(2σ²)) / (1 − exp(−T/σ²))`. -/
theorem sum_right_le {σ c T : ℝ} (hσ : 0 < σ) (hT : 0 < T) (A : Finset ℤ) (hA : ∀ x ∈ A, T ≤ (x : ℝ) - c) :
    ∑ x ∈ A, rho σ c x ≤ Real.exp (-(T ^ 2) / (2 * σ ^ 2)) * (1 - Real.exp (-T / σ ^ 2))⁻¹ := by
  set r := Real.exp (-T / σ ^ 2) with hr
  set E := Real.exp (-(T ^ 2) / (2 * σ ^ 2)) with hE
  have hr0 : 0 ≤ r := (Real.exp_pos _).le
  have hr1 : r < 1 := by
    have : -T / σ ^ 2 = -(T / σ ^ 2) := by ring
    rw [hr, this]
    exact exp_neg_lt_one (by positivity)
  have hE0 : 0 ≤ E := (Real.exp_pos _).le
  set m : ℤ := ⌈c + T⌉ with hm
  have hmT : T ≤ (m : ℝ) - c := by
    have := Int.le_ceil (c + T)
    linarith
  have hmx : ∀ x ∈ A, m ≤ x := by
    intro x hx
    apply Int.ceil_le.mpr
    have := hA x hx
    linarith
  let g : ℤ → ℕ := fun x => (x - m).toNat
  have hg : ∀ x ∈ A, x = m + ((g x : ℕ) : ℤ) := by
    intro x hx
    have := hmx x hx
    simp only [g]
    omega
  have hinj : Set.InjOn g (A : Set ℤ) := by
    intro x hx y hy hxy
    have h1 := hg x hx
    have h2 := hg y hy
    rw [h1, h2, hxy]
  calc ∑ x ∈ A, rho σ c x ≤ ∑ x ∈ A, E * r ^ (g x) := by
        apply sum_le_sum
        intro x hx
        have := rho_le_geom hσ hT hmT (g x)
        rwa [← hg x hx] at this
    _ = ∑ j ∈ A.image g, E * r ^ j := (sum_image (f := fun j => E * r ^ j) hinj).symm
    _ = E * ∑ j ∈ A.image g, r ^ j := by rw [mul_sum]
    _ ≤ E * ∑' j : ℕ, r ^ j := by
        apply mul_le_mul_of_nonneg_left _ hE0
        exact (summable_geometric_of_lt_one hr0 hr1).sum_le_tsum _ (fun j _ => pow_nonneg hr0 j)
    _ = E * (1 - r)⁻¹ := by rw [tsum_geometric_of_lt_one hr0 hr1]

/-- **one-sided bound (left)**: the same for `x − c ≤ −T`. -/
theorem sum_left_le {σ c T : ℝ} (hσ : 0 < σ) (hT : 0 < T) (A : Finset ℤ) (hA : ∀ x ∈ A, (x : ℝ) - c ≤ -T) :
    ∑ x ∈ A, rho σ c x ≤ Real.exp (-(T ^ 2) / (2 * σ ^ 2)) * (1 - Real.exp (-T / σ ^ 2))⁻¹ := by
  have e : ∑ x ∈ A, rho σ c x = ∑ y ∈ A.image (fun x : ℤ => -x), rho σ (-c) y := by
    rw [sum_image (fun x _ y _ h => neg_injective h)]
    exact sum_congr rfl fun x _ => (rho_neg σ c x).symm
  rw [e]
  apply sum_right_le hσ hT
  intro y hy
  obtain ⟨x, hx, rfl⟩ := mem_image.mp hy
  have := hA x hx
  push_cast
  linarith

/-- `1/(1 − e^{−u}) ≤ 1 + 1/u` for `u > 0` (from `1 + u ≤ e^u`). -/
theorem inv_one_sub_exp_neg_le {u : ℝ} (hu : 0 < u) : (1 - Real.exp (-u))⁻¹ ≤ 1 + 1 / u := by
  have hpos : 0 < 1 - Real.exp (-u) := by linarith [exp_neg_lt_one hu]
  rw [inv_le_iff_one_le_mul₀ hpos]
  have hx : Real.exp (-u) * (u + 1) ≤ 1 := by
    rw [Real.exp_neg]
    have h1 : u + 1 ≤ Real.exp u := Real.add_one_le_exp u
    have h2 : 0 < Real.exp u := Real.exp_pos u
    rw [inv_mul_le_iff₀ h2]
    linarith
  have e : (1 : ℝ) + 1 / u = (u + 1) / u := by field_simp
  rw [e, div_mul_eq_mul_div, le_div_iff₀ hu]
  nlinarith

/-- **two-sided bound**: every finite set of integers with `|x − c| ≥ T` has total weight at most
`2·exp(−T²/(2σ²))·(1 + σ²/T)`. -/
theorem sum_two_sided_le {σ c T : ℝ} (hσ : 0 < σ) (hT : 0 < T) (A : Finset ℤ) (hA : ∀ x ∈ A, T ≤ |(x : ℝ) - c|) :
    ∑ x ∈ A, rho σ c x ≤ 2 * Real.exp (-(T ^ 2) / (2 * σ ^ 2)) * (1 + σ ^ 2 / T) := by
  have hE0 : 0 ≤ Real.exp (-(T ^ 2) / (2 * σ ^ 2)) := (Real.exp_pos _).le
  have hgeo : (1 - Real.exp (-T / σ ^ 2))⁻¹ ≤ 1 + σ ^ 2 / T := by
    have h := inv_one_sub_exp_neg_le (u := T / σ ^ 2) (by positivity)
    have e1 : -T / σ ^ 2 = -(T / σ ^ 2) := by ring
    have e2 : 1 / (T / σ ^ 2) = σ ^ 2 / T := by rw [one_div, inv_div]
    rwa [e1, ← e2]
  rw [← sum_filter_add_sum_filter_not A (fun x : ℤ => T ≤ (x : ℝ) - c)]
  have h1 := sum_right_le hσ hT (A.filter fun x : ℤ => T ≤ (x : ℝ) - c) (fun x hx => (mem_filter.mp hx).2)
  have h2 := sum_left_le hσ hT (A.filter fun x : ℤ => ¬ T ≤ (x : ℝ) - c) (by
    intro x hx
    obtain ⟨hxA, hn⟩ := mem_filter.mp hx
    rcases le_abs.mp (hA x hxA) with h | h
    · exact absurd h hn
    · linarith)
  have h3 := mul_le_mul_of_nonneg_left hgeo hE0
  linarith

/-! ### summability and the normaliser -/

theorem rho_summable {σ : ℝ} (hσ : 0 < σ) (c : ℝ) : Summable (rho σ c) := by
  apply summable_of_sum_le (c := 2 * Real.exp (-((1 : ℝ) ^ 2) / (2 * σ ^ 2)) * (1 + σ ^ 2 / 1) +
    ∑ x ∈ Finset.Icc ⌊c - 1⌋ ⌈c + 1⌉, rho σ c x) (fun x => rho_nonneg σ c x)
  intro A
  rw [← sum_filter_add_sum_filter_not A (fun x : ℤ => (1 : ℝ) ≤ |(x : ℝ) - c|)]
  apply add_le_add
  · exact sum_two_sided_le hσ one_pos _ (fun x hx => (mem_filter.mp hx).2)
  · apply sum_le_sum_of_subset_of_nonneg
    · intro x hx
      obtain ⟨_, hn⟩ := mem_filter.mp hx
      have hlt := abs_lt.mp (not_le.mp hn)
      rw [mem_Icc]
      constructor
      · have h1 : ((⌊c - 1⌋ : ℤ) : ℝ) < (x : ℝ) := lt_of_le_of_lt (Int.floor_le _) (by linarith [hlt.1])
        exact le_of_lt (by exact_mod_cast h1)
      · have h1 : (x : ℝ) < ((⌈c + 1⌉ : ℤ) : ℝ) := lt_of_lt_of_le (by linarith [hlt.2]) (Int.le_ceil _)
        exact le_of_lt (by exact_mod_cast h1)
    · intro x _ _
      exact rho_nonneg σ c x

/-- the normaliser `S = Σ_{x∈ℤ} exp(−(x−c)²/(2σ²))` -/
noncomputable def S (σ c : ℝ) : ℝ := ∑' x : ℤ, rho σ c x

theorem sum_le_S {σ : ℝ} (hσ : 0 < σ) (c : ℝ) (A : Finset ℤ) : ∑ x ∈ A, rho σ c x ≤ S σ c :=
  (rho_summable hσ c).sum_le_tsum A (fun x _ => rho_nonneg σ c x)

theorem rho_le_S {σ : ℝ} (hσ : 0 < σ) (c : ℝ) (x : ℤ) : rho σ c x ≤ S σ c := by
  simpa using sum_le_S hσ c {x}

theorem S_pos {σ : ℝ} (hσ : 0 < σ) (c : ℝ) : 0 < S σ c := lt_of_lt_of_le (rho_pos σ c 0) (rho_le_S hσ c 0)

/-- the integer nearest to `c` alone: `S ≥ exp(−1/(8σ²))`. -/
theorem S_ge_nearest {σ : ℝ} (hσ : 0 < σ) (c : ℝ) : Real.exp (-1 / (8 * σ ^ 2)) ≤ S σ c := by
  refine le_trans ?_ (rho_le_S hσ c (round c))
  have h : |((round c : ℤ) : ℝ) - c| ≤ 1 / 2 := by rw [abs_sub_comm]; exact abs_sub_round c
  have := rho_ge_of_abs_le hσ h
  have e : -((1 / 2 : ℝ) ^ 2) / (2 * σ ^ 2) = -1 / (8 * σ ^ 2) := by field_simp; ring
  rwa [e] at this

/-- for `σ ≥ 1` at least `2σ − 1` integers lie within `σ` of `c`, each of weight `≥ e^{−1/2}`. -/
theorem S_ge_wide {σ : ℝ} (hσ : 1 ≤ σ) (c : ℝ) : (2 * σ - 1) * Real.exp (-1 / 2) ≤ S σ c := by
  have hσ0 : 0 < σ := by linarith
  refine le_trans ?_ (sum_le_S hσ0 c (Finset.Icc ⌈c - σ⌉ ⌊c + σ⌋))
  have hterm : ∀ x ∈ Finset.Icc ⌈c - σ⌉ ⌊c + σ⌋, Real.exp (-1 / 2) ≤ rho σ c x := by
    intro x hx
    obtain ⟨h1, h2⟩ := mem_Icc.mp hx
    have h1' : c - σ ≤ (x : ℝ) := Int.ceil_le.mp h1
    have h2' : (x : ℝ) ≤ c + σ := Int.le_floor.mp h2
    have habs : |(x : ℝ) - c| ≤ σ := abs_le.mpr ⟨by linarith, by linarith⟩
    have := rho_ge_of_abs_le hσ0 habs
    have e : -(σ ^ 2) / (2 * σ ^ 2) = -1 / 2 := by field_simp
    rwa [e] at this
  have hcard : 2 * σ - 1 ≤ ((Finset.Icc ⌈c - σ⌉ ⌊c + σ⌋).card : ℝ) := by
    rw [Int.card_Icc]
    have h1 : ((⌈c - σ⌉ : ℤ) : ℝ) < c - σ + 1 := Int.ceil_lt_add_one _
    have h2 : c + σ - 1 < ((⌊c + σ⌋ : ℤ) : ℝ) := Int.sub_one_lt_floor _
    have h3 : (((⌊c + σ⌋ + 1 - ⌈c - σ⌉ : ℤ)) : ℝ) ≤ (((⌊c + σ⌋ + 1 - ⌈c - σ⌉).toNat : ℕ) : ℝ) := by
      have := Int.self_le_toNat (⌊c + σ⌋ + 1 - ⌈c - σ⌉)
      exact_mod_cast this
    push_cast at h3
    linarith
  calc (2 * σ - 1) * Real.exp (-1 / 2)
      ≤ ((Finset.Icc ⌈c - σ⌉ ⌊c + σ⌋).card : ℝ) * Real.exp (-1 / 2) :=
        mul_le_mul_of_nonneg_right hcard (Real.exp_pos _).le
    _ = ∑ _x ∈ Finset.Icc ⌈c - σ⌉ ⌊c + σ⌋, Real.exp (-1 / 2) := by rw [sum_const, nsmul_eq_mul]
    _ ≤ _ := sum_le_sum hterm

/-! ### the tail -/

/-- the weight of `x` if `|x − c| ≥ T`, else `0` -/
noncomputable def tailRho (σ c T : ℝ) (x : ℤ) : ℝ := if T ≤ |(x : ℝ) - c| then rho σ c x else 0

theorem tailRho_nonneg (σ c T : ℝ) (x : ℤ) : 0 ≤ tailRho σ c T x := by
  unfold tailRho; split_ifs
  · exact rho_nonneg σ c x
  · exact le_refl _

theorem tailRho_le_rho (σ c T : ℝ) (x : ℤ) : tailRho σ c T x ≤ rho σ c x := by
  unfold tailRho; split_ifs
  · exact le_refl _
  · exact rho_nonneg σ c x

theorem tailRho_summable {σ : ℝ} (hσ : 0 < σ) (c T : ℝ) : Summable (tailRho σ c T) :=
  Summable.of_nonneg_of_le (tailRho_nonneg σ c T) (tailRho_le_rho σ c T) (rho_summable hσ c)

/-- `Σ_{|x−c| ≥ T} rho x` -/
noncomputable def tailSum (σ c T : ℝ) : ℝ := ∑' x : ℤ, tailRho σ c T x

theorem tailSum_nonneg (σ c T : ℝ) : 0 ≤ tailSum σ c T := tsum_nonneg (tailRho_nonneg σ c T)

theorem tailSum_anti {σ : ℝ} (hσ : 0 < σ) (c : ℝ) {T T' : ℝ} (h : T ≤ T') : tailSum σ c T' ≤ tailSum σ c T := by
  apply (tailRho_summable hσ c T').tsum_le_tsum _ (tailRho_summable hσ c T)
  intro x
  unfold tailRho
  by_cases h1 : T' ≤ |(x : ℝ) - c|
  · rw [if_pos h1, if_pos (h.trans h1)]
  · rw [if_neg h1]
    split_ifs
    · exact rho_nonneg σ c x
    · exact le_refl _

/-- **`Σ_{|x−c| ≥ T} rho x ≤ 2·exp(−T²/(2σ²))·(1 + σ²/T)`**. -/
theorem tailSum_le {σ c T : ℝ} (hσ : 0 < σ) (hT : 0 < T) :
    tailSum σ c T ≤ 2 * Real.exp (-(T ^ 2) / (2 * σ ^ 2)) * (1 + σ ^ 2 / T) := by
  apply Real.tsum_le_of_sum_le (fun x => tailRho_nonneg σ c T x)
  intro A
  have e : ∑ x ∈ A, tailRho σ c T x = ∑ x ∈ A.filter (fun x : ℤ => T ≤ |(x : ℝ) - c|), rho σ c x := by
    rw [sum_filter]
    rfl
  rw [e]
  exact sum_two_sided_le hσ hT _ (fun x hx => (mem_filter.mp hx).2)

/-- the same with `T = t·σ`. -/
theorem tailSum_le_scaled {σ c t : ℝ} (hσ : 0 < σ) (ht : 0 < t) :
    tailSum σ c (t * σ) ≤ 2 * (1 + σ / t) * Real.exp (-(t ^ 2) / 2) := by
  have h := tailSum_le (c := c) hσ (mul_pos ht hσ)
  have e1 : -((t * σ) ^ 2) / (2 * σ ^ 2) = -(t ^ 2) / 2 := by field_simp
  have e2 : σ ^ 2 / (t * σ) = σ / t := by field_simp
  rw [e1, e2] at h
  linarith

/-! ### the elementary inequalities behind "Lemma 1" -/

/-- `2(1 + σ/t) ≤ t·(2σ − 1)` for `σ ≥ 1`, `t ≥ 3` (it needs `t ≥ 1 + √3 ≈ 2.74` at `σ = 1`). -/
theorem wide_const_le {σ t : ℝ} (hσ : 1 ≤ σ) (ht : 3 ≤ t) : 2 * (1 + σ / t) ≤ t * (2 * σ - 1) := by
  have ht0 : 0 < t := by linarith
  have e : 2 * (1 + σ / t) = (2 * t + 2 * σ) / t := by field_simp
  rw [e, div_le_iff₀ ht0]
  nlinarith [mul_nonneg (sub_nonneg.mpr hσ) (by nlinarith : (0 : ℝ) ≤ t ^ 2 - 1)]

/-- `t² ≥ 1 + 2 ln t + 2k ln 2  ⟹  t·exp((1 − t²)/2) ≤ 2^{-k}`. -/
theorem lemma1_arith {t : ℝ} (ht : 0 < t) (k : ℕ)
    (h : 1 + 2 * Real.log t + 2 * (k : ℝ) * Real.log 2 ≤ t ^ 2) :
    t * Real.exp ((1 - t ^ 2) / 2) ≤ ((2 : ℝ) ^ k)⁻¹ := by
  have h1 : (1 - t ^ 2) / 2 ≤ -Real.log t + -((k : ℝ) * Real.log 2) := by linarith
  have h2 : Real.exp (-Real.log t + -((k : ℝ) * Real.log 2)) = t⁻¹ * ((2 : ℝ) ^ k)⁻¹ := by
    rw [Real.exp_add, Real.exp_neg, Real.exp_log ht, Real.exp_neg, Real.exp_nat_mul,
      Real.exp_log (by norm_num : (0 : ℝ) < 2)]
  calc t * Real.exp ((1 - t ^ 2) / 2) ≤ t * (t⁻¹ * ((2 : ℝ) ^ k)⁻¹) := by
        rw [← h2]
        exact mul_le_mul_of_nonneg_left (Real.exp_le_exp.mpr h1) ht.le
    _ = ((2 : ℝ) ^ k)⁻¹ := by rw [← mul_assoc, mul_inv_cancel₀ ht.ne', one_mul]

/-- `t² ≥ 2 ln A + 2B + 2k ln 2  ⟹  A·e^B·exp(−t²/2) ≤ 2^{-k}` (`A > 0`): the shape needed when `σ < 1`. -/
theorem lemma1_arith_gen {t A B : ℝ} (hA : 0 < A) (k : ℕ)
    (h : 2 * Real.log A + 2 * B + 2 * (k : ℝ) * Real.log 2 ≤ t ^ 2) :
    A * Real.exp B * Real.exp (-(t ^ 2) / 2) ≤ ((2 : ℝ) ^ k)⁻¹ := by
  have h1 : -(t ^ 2) / 2 ≤ -Real.log A + (-B + -((k : ℝ) * Real.log 2)) := by linarith
  have h2 : Real.exp (-Real.log A + (-B + -((k : ℝ) * Real.log 2))) = A⁻¹ * ((Real.exp B)⁻¹ * ((2 : ℝ) ^ k)⁻¹) := by
    rw [Real.exp_add, Real.exp_add, Real.exp_neg, Real.exp_log hA, Real.exp_neg, Real.exp_neg, Real.exp_nat_mul,
      Real.exp_log (by norm_num : (0 : ℝ) < 2)]
  have hB : 0 < Real.exp B := Real.exp_pos B
  calc A * Real.exp B * Real.exp (-(t ^ 2) / 2)
      ≤ A * Real.exp B * (A⁻¹ * ((Real.exp B)⁻¹ * ((2 : ℝ) ^ k)⁻¹)) := by
        rw [← h2]
        exact mul_le_mul_of_nonneg_left (Real.exp_le_exp.mpr h1) (mul_pos hA hB).le
    _ = ((2 : ℝ) ^ k)⁻¹ := by field_simp

/-! ### the probability function, the tail probability, and the support window of the framework -/

/-- the discrete Gaussian `D_{ℤ,σ,c}(x) = rho x / S` as a function `ℤ → ℝ` -/
noncomputable def D (σ c : ℝ) (x : ℤ) : ℝ := rho σ c x / S σ c

/-- `P_{x ← D}(|x − c| ≥ T)` -/
noncomputable def tailProb (σ c T : ℝ) : ℝ := tailSum σ c T / S σ c

theorem D_nonneg {σ : ℝ} (hσ : 0 < σ) (c : ℝ) (x : ℤ) : 0 ≤ D σ c x :=
  div_nonneg (rho_nonneg σ c x) (S_pos hσ c).le

theorem D_summable {σ : ℝ} (hσ : 0 < σ) (c : ℝ) : Summable (D σ c) := (rho_summable hσ c).div_const _

/-- `D` is a probability function: it sums to one over `ℤ`. -/
theorem D_tsum {σ : ℝ} (hσ : 0 < σ) (c : ℝ) : ∑' x : ℤ, D σ c x = 1 := by
  unfold D
  rw [tsum_div_const]
  exact div_self (S_pos hσ c).ne'

/-- `tailProb` is the `D`-probability of the event `|x − c| ≥ T`. -/
theorem tailProb_eq_tsum (σ c T : ℝ) :
    tailProb σ c T = ∑' x : ℤ, if T ≤ |(x : ℝ) - c| then D σ c x else 0 := by
  unfold tailProb tailSum
  rw [← tsum_div_const]
  congr 1
  funext x
  unfold tailRho D
  split_ifs
  · rfl
  · exact zero_div _

theorem tailProb_nonneg {σ : ℝ} (hσ : 0 < σ) (c T : ℝ) : 0 ≤ tailProb σ c T :=
  div_nonneg (tailSum_nonneg σ c T) (S_pos hσ c).le

theorem tailProb_anti {σ : ℝ} (hσ : 0 < σ) (c : ℝ) {T T' : ℝ} (h : T ≤ T') : tailProb σ c T' ≤ tailProb σ c T :=
  div_le_div_of_nonneg_right (tailSum_anti hσ c h) (S_pos hσ c).le

/-- the support window `{v₀, …, v₀ + nb}` of the sampler as a finite set of integers -/
def window (v0 : ℤ) (nb : ℕ) : Finset ℤ := (range (nb + 1)).image (fun j : ℕ => v0 + (j : ℤ))

theorem mem_window {v0 : ℤ} {nb : ℕ} {x : ℤ} : x ∈ window v0 nb ↔ v0 ≤ x ∧ x ≤ v0 + (nb : ℤ) := by
  unfold window
  rw [mem_image]
  constructor
  · rintro ⟨j, hj, rfl⟩
    have := mem_range.mp hj
    omega
  · rintro ⟨h1, h2⟩
    exact ⟨(x - v0).toNat, mem_range.mpr (by omega), by omega⟩

theorem cumQ_eq_sum_window (q : ℤ → ℝ) (v0 : ℤ) (nb : ℕ) : TV.cumQ q v0 nb = ∑ x ∈ window v0 nb, q x := by
  unfold TV.cumQ window
  rw [sum_image]
  intro j _ k _ h
  have : (j : ℤ) = (k : ℤ) := by linarith
  exact_mod_cast this

/-- the weight of `x` if it lies outside the window, else `0` -/
noncomputable def outRho (σ c : ℝ) (v0 : ℤ) (nb : ℕ) (x : ℤ) : ℝ := if x ∈ window v0 nb then 0 else rho σ c x

theorem outRho_nonneg (σ c : ℝ) (v0 : ℤ) (nb : ℕ) (x : ℤ) : 0 ≤ outRho σ c v0 nb x := by
  unfold outRho; split_ifs
  · exact le_refl _
  · exact rho_nonneg σ c x

theorem outRho_summable {σ : ℝ} (hσ : 0 < σ) (c : ℝ) (v0 : ℤ) (nb : ℕ) : Summable (outRho σ c v0 nb) := by
  apply Summable.of_nonneg_of_le (outRho_nonneg σ c v0 nb) _ (rho_summable hσ c)
  intro x
  unfold outRho; split_ifs
  · exact rho_nonneg σ c x
  · exact le_refl _

/-- `S = (weight of the window) + (weight outside)`. -/
theorem S_eq_window_add_out {σ : ℝ} (hσ : 0 < σ) (c : ℝ) (v0 : ℤ) (nb : ℕ) :
    S σ c = ∑ x ∈ window v0 nb, rho σ c x + ∑' x : ℤ, outRho σ c v0 nb x := by
  let inRho : ℤ → ℝ := fun x => if x ∈ window v0 nb then rho σ c x else 0
  have hin : ∑' x : ℤ, inRho x = ∑ x ∈ window v0 nb, rho σ c x := by
    rw [tsum_eq_sum (s := window v0 nb) (fun x hx => if_neg hx)]
    exact sum_congr rfl fun x hx => if_pos hx
  have hins : Summable inRho := summable_of_ne_finset_zero (s := window v0 nb) (fun x hx => if_neg hx)
  have hsplit : ∀ x, rho σ c x = inRho x + outRho σ c v0 nb x := by
    intro x
    simp only [inRho, outRho]
    split_ifs <;> simp
  unfold S
  rw [tsum_congr hsplit, hins.tsum_add (outRho_summable hσ c v0 nb), hin]

/-- **the framework's `tailMass` for `q = D` is the `D`-mass outside the window**. -/
theorem tailMass_D_eq {σ : ℝ} (hσ : 0 < σ) (c : ℝ) (v0 : ℤ) (nb : ℕ) :
    TV.tailMass (D σ c) v0 nb = (∑' x : ℤ, outRho σ c v0 nb x) / S σ c := by
  have hS := (S_pos hσ c).ne'
  have h := S_eq_window_add_out hσ c v0 nb
  unfold TV.tailMass
  rw [cumQ_eq_sum_window]
  unfold D
  rw [← sum_div, eq_div_iff hS, sub_mul, div_mul_cancel₀ _ hS]
  linarith

/-- if the window contains every integer with `|x − c| < r`, the outside weight is at most the tail weight. -/
theorem out_le_tailSum {σ : ℝ} (hσ : 0 < σ) (c r : ℝ) (v0 : ℤ) (nb : ℕ)
    (hcov : ∀ x : ℤ, |(x : ℝ) - c| < r → v0 ≤ x ∧ x ≤ v0 + (nb : ℤ)) :
    ∑' x : ℤ, outRho σ c v0 nb x ≤ tailSum σ c r := by
  apply (outRho_summable hσ c v0 nb).tsum_le_tsum _ (tailRho_summable hσ c r)
  intro x
  unfold outRho tailRho
  by_cases hx : x ∈ window v0 nb
  · rw [if_pos hx]
    split_ifs
    · exact rho_nonneg σ c x
    · exact le_refl _
  · rw [if_neg hx]
    have : r ≤ |(x : ℝ) - c| := by
      by_contra hlt
      exact hx (mem_window.mpr (hcov x (not_le.mp hlt)))
    rw [if_pos this]

/-- the library's window: `nb = 1 + 2h` barriers, first output `v0Of nb rc = rc − h`, so the outputs are
`rc − h, …, rc + h + 1`; with `|rc − c| ≤ 1/2` it contains every integer with `|x − c| < h + 1/2`. -/
theorem lib_window_covers {c : ℝ} {rc : ℤ} (hrc : |(rc : ℝ) - c| ≤ 1 / 2) (h : ℕ) (x : ℤ)
    (hx : |(x : ℝ) - c| < (h : ℝ) + 1 / 2) :
    v0Of (1 + 2 * h) rc ≤ x ∧ x ≤ v0Of (1 + 2 * h) rc + ((1 + 2 * h : ℕ) : ℤ) := by
  have hv : v0Of (1 + 2 * h) rc = rc - (h : ℤ) := by
    unfold v0Of
    have : (1 + 2 * h - 1) / 2 = h := by omega
    rw [this]; ring
  rw [hv]
  obtain ⟨h1, h2⟩ := abs_le.mp hrc
  obtain ⟨h3, h4⟩ := abs_lt.mp hx
  have a1 : ((rc - (h : ℤ) - 1 : ℤ) : ℝ) < (x : ℝ) := by push_cast; linarith
  have a2 : (x : ℝ) < ((rc + (h : ℤ) + 1 : ℤ) : ℝ) := by push_cast; linarith
  have b1 : rc - (h : ℤ) - 1 < x := by exact_mod_cast a1
  have b2 : x < rc + (h : ℤ) + 1 := by exact_mod_cast a2
  push_cast
  omega

end Nfl.Gauss.Tail
