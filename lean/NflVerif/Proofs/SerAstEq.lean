/-
The serialisers translated from the clang AST (`Generated/SerAst.lean`, vocabulary `Model/StreamSem.lean`) are the hand
model `Model/Serial.lean`.

* `objRepr_eq` / `ofObjRepr_eq` — the x86-64 object representation of the contract file (byte `j` = byte `j mod B` of word
  `j / B`; word = Horner sum of its bytes) is the hand model's `toBytes` / `fromBytes` (cons-recursive `encodeLE`/`decodeLE`).
* `serialize_manually_eq`, `deserialize_manually_eq`, `deserialize_manually_failed` — the raw writer / reader.
* `cereal_save_eq`, `cereal_load_eq` — the cereal binary archive instantiations of `poly::serialize`.
* `operator_shl_eq` — the text printer.
Hypotheses and why each is needed are stated at the theorems; `decide` examples show necessity.
-/
import NflVerif.Proofs.Serial
import NflVerif.Generated.SerAst

namespace Nfl.SerAst
open Nfl Nfl.Serial

/-! ### the limb types -/

theorem sizeOf_pos (T : Ss.CTy) : 0 < T.sizeOf := by cases T <;> decide

theorem bits_div (T : Ss.CTy) : T.bits / 8 = T.sizeOf := by cases T <;> rfl

theorem bits_dvd (T : Ss.CTy) : 8 ∣ T.bits := ⟨T.sizeOf, rfl⟩

theorem bits_pos (T : Ss.CTy) : 0 < T.bits := by cases T <;> decide

theorem pow_bits (T : Ss.CTy) : 2 ^ T.bits = 256 ^ T.sizeOf := by cases T <;> rfl

/-! ### object representation = the hand model's byte images -/

theorem objRepr_length (T : Ss.CTy) (ws : List Nat) : (Ss.objRepr T ws).length = ws.length * T.sizeOf := by
  simp [Ss.objRepr]

theorem objRepr_eq (T : Ss.CTy) (ws : List Nat) : Ss.objRepr T ws = toBytes T.sizeOf ws := by
  apply List.ext_getElem?
  intro j
  by_cases hj : j < ws.length * T.sizeOf
  · rw [toBytes_get _ (sizeOf_pos T) ws j hj]
    simp [Ss.objRepr, hj, Ss.byteOf]
  · have h1 : (Ss.objRepr T ws).length ≤ j := by rw [objRepr_length]; omega
    have h2 : (toBytes T.sizeOf ws).length ≤ j := by rw [toBytes_length]; omega
    rw [List.getElem?_eq_none h1, List.getElem?_eq_none h2]

theorem horner_eq (B : Nat) : ∀ (l : List Nat),
    (List.range B).foldr (fun k acc => l.getD k 0 + 256 * acc) 0 = decodeLE (l.take B) := by
  induction B with
  | zero => intro l; simp [decodeLE]
  | succ B ih =>
    intro l
    rw [List.range_succ_eq_map, List.foldr_cons, List.foldr_map]
    cases l with
    | nil =>
      have := ih []
      simp only [List.take_nil, decodeLE] at this ⊢
      simp only [List.getD_nil] at this ⊢
      rw [this]
    | cons b bs =>
      have := ih bs
      simp only [List.take_succ_cons, decodeLE, List.getD_cons_zero, List.getD_cons_succ]
      rw [this]

theorem wordAt_eq (B : Nat) (mem : List Nat) (i : Nat) :
    Ss.wordAt B mem i = decodeLE ((mem.drop (i * B)).take B) := by
  rw [← horner_eq B (mem.drop (i * B))]
  simp [Ss.wordAt, List.getD_eq_getElem?_getD, List.getElem?_drop]

theorem ofObjRepr_eq (T : Ss.CTy) (len : Nat) (mem : List Nat) (h : mem.length = len * T.sizeOf) :
    Ss.ofObjRepr T mem = fromBytes T.sizeOf len mem := by
  have hl : mem.length / T.sizeOf = len := by rw [h]; exact Nat.mul_div_cancel _ (sizeOf_pos T)
  apply List.ext_getElem?
  intro j
  by_cases hj : j < len
  · rw [fromBytes_get _ _ _ _ hj]
    simp [Ss.ofObjRepr, hl, hj, wordAt_eq]
  · have h1 : (Ss.ofObjRepr T mem).length ≤ j := by simp [Ss.ofObjRepr, hl]; omega
    have h2 : (fromBytes T.sizeOf len mem).length ≤ j := by rw [fromBytes_length]; omega
    rw [List.getElem?_eq_none h1, List.getElem?_eq_none h2]

/-- values that fit the limb survive the trip through the object representation -/
theorem ofObjRepr_objRepr (T : Ss.CTy) (ws : List Nat) (h : ∀ x ∈ ws, x < 2 ^ T.bits) :
    Ss.ofObjRepr T (Ss.objRepr T ws) = ws := by
  rw [ofObjRepr_eq T ws.length _ (objRepr_length T ws), objRepr_eq]
  have := fromBytes_toBytes T.sizeOf ws [] (fun x hx => by rw [← pow_bits]; exact h x hx)
  rwa [List.append_nil] at this

/-- … and only those: a `List Nat` entry beyond the limb range is not the state of a C array -/
example : Ss.ofObjRepr .u16 (Ss.objRepr .u16 [65536 + 5]) = [5] := by decide

/-! ### the stream contract on whole objects -/

theorem toStreamsize_small {x : Nat} (h : x < 2 ^ 63) : Ss.toStreamsize (x % 2 ^ 64) = (x : Int) := by
  have : x % 2 ^ 64 = x := Nat.mod_eq_of_lt (by omega)
  simp [Ss.toStreamsize, this, h]

theorem ostreamWrite_whole (s : Ss.Stream) (mem : List Nat) (n : Nat) (h : mem.length = n) :
    Ss.ostreamWrite s mem 0 (n : Int) =
      some (if s.failed then s else { s with bytes := s.bytes ++ mem }) := by
  have h0 : ¬ ((n : Int) < 0) := by omega
  simp only [Ss.ostreamWrite, h0, if_false, Int.toNat_natCast, Nat.zero_add, h, Nat.lt_irrefl, List.drop_zero]
  rw [← h, List.take_length]

theorem istreamRead_whole (s : Ss.Stream) (mem : List Nat) (n : Nat) (h : mem.length = n) :
    Ss.istreamRead s mem 0 (n : Int) =
      some (if s.failed then (mem, { s with gcount := 0 }) else
        (s.bytes.take (min n s.bytes.length) ++ mem.drop (min n s.bytes.length),
         { bytes := s.bytes.drop (min n s.bytes.length), failed := decide (min n s.bytes.length < n),
           gcount := min n s.bytes.length })) := by
  have h0 : ¬ ((n : Int) < 0) := by omega
  simp only [Ss.istreamRead, h0, if_false, Int.toNat_natCast, Nat.zero_add, h, Nat.lt_irrefl, List.take_zero,
    List.nil_append]
  split <;> rfl

/-! ### raw writer / reader -/

/-- **the translated `serialize_manually` is the hand model's writer** (`Serial.serialize` appended to a good stream, nothing on
a failed one).  Hypotheses: `hN` — `data` is the contents of `T _data[N]`, i.e. has exactly `N` entries (the translated code
passes the count `N * sizeof(T)` while the hand model dumps the whole list); `hsz` — the byte count fits `std::streamsize`
(the C++ converts `size_t` to `long`; an object of `2^63` bytes does not exist). -/
theorem serialize_manually_eq (T : Ss.CTy) (N : Nat) (data : List Nat) (s : Ss.Stream)
    (hN : data.length = N) (hsz : N * T.sizeOf < 2 ^ 63) :
    Gen.Ser.serialize_manually T N data s =
      some (if s.failed then s else { s with bytes := s.bytes ++ serialize T.bits data }) := by
  simp only [Gen.Ser.serialize_manually, toStreamsize_small hsz]
  rw [ostreamWrite_whole s _ (N * T.sizeOf) (by rw [objRepr_length, hN])]
  simp [serialize, bits_div, objRepr_eq]

/-- `hN` is needed: with fewer entries than `N` the C++ reads beyond the array (undefined), with more it writes a prefix -/
example : Gen.Ser.serialize_manually .u16 2 [1] ⟨[], false, 0⟩ = none := by decide
example : Gen.Ser.serialize_manually .u16 1 [1, 2] ⟨[], false, 0⟩ = some ⟨[1, 0], false, 0⟩ ∧
    serialize 16 [1, 2] = [1, 0, 2, 0] := by decide

/-- **the translated `deserialize_manually` on a good stream is the hand model's reader**: new contents, unread rest,
`failbit`, `gcount()`.  Hypotheses as for the writer (`hN`: the hand model reads `N` words into a `N`-word object). -/
theorem deserialize_manually_eq (T : Ss.CTy) (N : Nat) (data : List Nat) (s : Ss.Stream)
    (hN : data.length = N) (hsz : N * T.sizeOf < 2 ^ 63) (hf : s.failed = false) :
    Gen.Ser.deserialize_manually T N data s =
      some ((deserialize T.bits N data s.bytes).1,
            { bytes := (deserialize T.bits N data s.bytes).2.1, failed := (deserialize T.bits N data s.bytes).2.2,
              gcount := gcount T.bits N s.bytes }) := by
  simp only [Gen.Ser.deserialize_manually, toStreamsize_small hsz]
  rw [istreamRead_whole s _ (N * T.sizeOf) (by rw [objRepr_length, hN])]
  have hlen : (s.bytes.take (min (N * T.sizeOf) s.bytes.length) ++
      (Ss.objRepr T data).drop (min (N * T.sizeOf) s.bytes.length)).length = N * T.sizeOf := by
    rw [List.length_append, List.length_take, List.length_drop, objRepr_length, hN]; omega
  simp only [hf, Bool.false_eq_true, if_false, Option.bind_eq_bind, Option.bind_some, Option.pure_def,
    deserialize, gcount, bits_div]
  rw [ofObjRepr_eq T N _ hlen, objRepr_eq]

/-- `hN` is needed for the reader too: an object shorter than `N` words is overrun (undefined); a longer one is only partly
filled, where the hand model returns exactly `N` words -/
example : Gen.Ser.deserialize_manually .u16 2 [7] ⟨[1, 0, 2, 0], false, 0⟩ = none := by decide
example : Gen.Ser.deserialize_manually .u16 1 [7, 7] ⟨[1, 0, 2, 0], false, 0⟩ = some ([1, 7], ⟨[2, 0], false, 2⟩) ∧
    deserialize 16 1 [7, 7] [1, 0, 2, 0] = ([1], [2, 0], false) := by decide
/- `hsz` (both theorems): `N * sizeof(T)` is computed in `size_t` and converted to `std::streamsize`; from `2^63` on the count
is negative (undefined: `none`), from `2^64` on it wraps.  Not shown by `decide`: it needs a list of `2^60` entries. -/
example : Ss.toStreamsize (2 ^ 63) = -(2 ^ 63) := by decide

/-- on a stream that is not good nothing is extracted: contents and stream unchanged, `gcount() = 0` (the hand model's
`stepH` keeps the state).  `hr`: the entries are limb values — needed, because the translated code passes the contents
through the object representation (see the example after `ofObjRepr_objRepr`). -/
theorem deserialize_manually_failed (T : Ss.CTy) (N : Nat) (data : List Nat) (s : Ss.Stream)
    (hN : data.length = N) (hsz : N * T.sizeOf < 2 ^ 63) (hf : s.failed = true) (hr : ∀ x ∈ data, x < 2 ^ T.bits) :
    Gen.Ser.deserialize_manually T N data s = some (data, { s with gcount := 0 }) := by
  simp only [Gen.Ser.deserialize_manually, toStreamsize_small hsz]
  rw [istreamRead_whole s _ (N * T.sizeOf) (by rw [objRepr_length, hN])]
  simp [hf, ofObjRepr_objRepr T data hr]

/-! ### cereal binary archives -/

/-- `poly::serialize(BinaryOutputArchive&)` appends exactly the raw form (no hypothesis: cereal takes `sizeof(array)`) -/
theorem cereal_save_eq (T : Ss.CTy) (data : List Nat) (ar : Ss.Stream) :
    Gen.Ser.serialize_BinaryOutputArchive T data ar =
      some ({ ar with bytes := ar.bytes ++ serialize T.bits data }, false) := by
  simp [Gen.Ser.serialize_BinaryOutputArchive, Ss.cerealSaveBinary, serialize, bits_div, objRepr_eq]

/-- `poly::serialize(BinaryInputArchive&)` is the hand model's reader; its `failbit` is the exception -/
theorem cereal_load_eq (T : Ss.CTy) (data : List Nat) (ar : Ss.Stream) :
    Gen.Ser.serialize_BinaryInputArchive T data ar =
      some ((deserialize T.bits data.length data ar.bytes).1,
            { ar with bytes := (deserialize T.bits data.length data ar.bytes).2.1 },
            (deserialize T.bits data.length data ar.bytes).2.2) := by
  have hlen : (ar.bytes.take (min (data.length * T.sizeOf) ar.bytes.length) ++
      (Ss.objRepr T data).drop (min (data.length * T.sizeOf) ar.bytes.length)).length = data.length * T.sizeOf := by
    rw [List.length_append, List.length_take, List.length_drop, objRepr_length]; omega
  simp only [Gen.Ser.serialize_BinaryInputArchive, Ss.cerealLoadBinary, objRepr_length, Option.pure_def,
    deserialize, bits_div]
  rw [ofObjRepr_eq T data.length _ hlen, objRepr_eq]

/-! ### text form -/

theorem putStr_nil (s : Ss.Stream) : Ss.putStr s [] = s := by
  unfold Ss.putStr; split <;> simp

theorem putStr_putStr (s : Ss.Stream) (a b : List Char) : Ss.putStr (Ss.putStr s a) b = Ss.putStr s (a ++ b) := by
  unfold Ss.putStr
  cases hf : s.failed <;> simp [hf]

/-- the `typeid` chain computes the hand model's suffix -/
theorem term_eq (T : Ss.CTy) :
    (if Ss.typeidEq T .u64 then ['U', 'L', 'L'] else if Ss.typeidEq T .u32 then ['U', 'L'] else ['U'])
      = suffix T.bits := by
  cases T <;> rfl

/-- the loop body of `operator<<` (as translated: the pair `(outs, first)` rebuilt after the `if`) -/
def shlBody (term : List Char) (x : Ss.Stream × Bool) (v : Nat) : Ss.Stream × Bool :=
  ((if x.snd = true then (Ss.putUnsigned x.fst v, false)
      else (Ss.putUnsigned (Ss.putStr (Ss.putStr x.fst term) [',', ' ']) v, x.snd)).fst,
   (if x.snd = true then (Ss.putUnsigned x.fst v, false)
      else (Ss.putUnsigned (Ss.putStr (Ss.putStr x.fst term) [',', ' ']) v, x.snd)).snd)

/-- … folded over the coefficients it is the hand model's `printLoop` -/
theorem loop_eq (term : List Char) : ∀ (vs : List Nat) (o : Ss.Stream) (f : Bool),
    (vs.foldl (shlBody term) (o, f)).1 = Ss.putStr o (printLoop term f vs)
  | [], o, f => by cases f <;> simp [printLoop, putStr_nil]
  | v :: vs, o, true => by
    simp only [List.foldl_cons, shlBody, if_true, printLoop]
    rw [loop_eq term vs, Ss.putUnsigned, putStr_putStr]
  | v :: vs, o, false => by
    simp only [List.foldl_cons, shlBody, Bool.false_eq_true, if_false, printLoop]
    rw [loop_eq term vs, Ss.putUnsigned, putStr_putStr, putStr_putStr, putStr_putStr]
    simp only [List.append_assoc]

example : Gen.Ser.operator_shl .u16 2 ⟨[], false, 0⟩ [1] = none := by decide   -- `hN` needed: the walk leaves the array

/-- **the translated `operator<<` appends the hand model's text** (character codes) to a good stream, nothing to a failed
one.  `hN`: `p` has exactly `N` words (the range-for walks `[_data, _data + N)`; the hand model prints the whole list). -/
theorem operator_shl_eq (T : Ss.CTy) (N : Nat) (s : Ss.Stream) (data : List Nat) (hN : data.length = N) :
    Gen.Ser.operator_shl T N s data = some (Ss.putStr s (printChars T.bits data)) := by
  have hfor : ∀ (o : Ss.Stream) (body : Ss.Stream × Bool → Nat → Ss.Stream × Bool),
      Ss.forPtr data Gen.Ser.begin_const (Gen.Ser.end_const N) (o, true) body = some (data.foldl body (o, true)) := by
    intro o body
    simp [Ss.forPtr, Gen.Ser.begin_const, Gen.Ser.end_const, hN]
    rw [← hN, List.take_length]
  simp only [Gen.Ser.operator_shl, term_eq, hfor, Option.bind_eq_bind, Option.bind_some, Option.pure_def]
  have := loop_eq (suffix T.bits) data (Ss.putStr s ['{', ' ']) true
  unfold shlBody at this
  rw [this, putStr_putStr, putStr_putStr, putStr_putStr]
  simp only [printChars, List.append_assoc]

end Nfl.SerAst
