/-
Helper lemmas for C15: closed forms of the loops of `Model/Setters.lean`.
-/
import NflVerif.Model.Setters

namespace Nfl.Setters

variable {α : Type}

/-- what one modulus receives: the first `n` source values through `f`, then zeros -/
def chunk (f : α → Nat) (n : Nat) (src : List α) : List Nat :=
  (src.take n).map f ++ List.replicate (n - src.length) 0

theorem oneModulus_eq (f : α → Nat) : ∀ (cnt : Nat) (src : List α),
    oneModulus f cnt src = (chunk f cnt src, src.drop cnt)
  | 0, src => by simp [oneModulus, chunk]
  | cnt + 1, [] => by
    simp [oneModulus, oneModulus_eq f cnt [], chunk, List.replicate_succ]
  | cnt + 1, v :: src => by
    simp [oneModulus, oneModulus_eq f cnt src, chunk]

theorem chunk_length (f : α → Nat) (n : Nat) (src : List α) : (chunk f n src).length = n := by
  simp [chunk]; omega

theorem chunk_get (f : α → Nat) (n : Nat) (src : List α) (i : Nat) (hi : i < n) :
    (chunk f n src)[i]? = some ((src[i]?.map f).getD 0) := by
  unfold chunk
  by_cases h : i < src.length
  · rw [List.getElem?_append_left (by simp; omega)]
    simp [hi, h]
  · have hl : ((src.take n).map f).length = src.length := by simp; omega
    have : src[i]? = none := by simp; omega
    rw [List.getElem?_append_right (by omega), hl, this]
    simp [List.getElem?_replicate]
    omega

theorem outer_length (n : Nat) (full : Bool) (first : List α) (store : Nat → α → Nat) :
    ∀ (ps : List Nat) (viter : List α), (outer n full first store ps viter).length = n * ps.length
  | [], _ => by simp [outer]
  | p :: ps, viter => by
    simp [outer, oneModulus_eq, chunk_length, outer_length n full first store ps, Nat.mul_add]
    omega

theorem outer_cons_rewind (n : Nat) (first : List α) (store : Nat → α → Nat) (p : Nat) (ps : List Nat)
    (viter : List α) : outer n false first store (p :: ps) viter =
      chunk (store p) n first ++ outer n false first store ps (first.drop n) := by
  simp [outer, oneModulus_eq]

theorem outer_cons_full (n : Nat) (first : List α) (store : Nat → α → Nat) (p : Nat) (ps : List Nat)
    (viter : List α) : outer n true first store (p :: ps) viter =
      chunk (store p) n viter ++ outer n true first store ps (viter.drop n) := by
  simp [outer, oneModulus_eq]

/-- rewinding case: every modulus sees the source from its start -/
theorem outer_rewind_get (n : Nat) (first : List α) (store : Nat → α → Nat) :
    ∀ (ps : List Nat) (viter : List α) (cm i : Nat), cm < ps.length → i < n →
      (outer n false first store ps viter)[cm * n + i]? =
        some ((first[i]?.map (store (ps.getD cm 0))).getD 0)
  | [], _, cm, i, h, _ => by simp at h
  | p :: ps, viter, 0, i, _, hi => by
    rw [outer_cons_rewind]
    rw [List.getElem?_append_left (by simp [chunk_length]; omega)]
    simp [chunk_get _ _ _ _ hi]
  | p :: ps, viter, cm + 1, i, h, hi => by
    rw [outer_cons_rewind]
    rw [List.getElem?_append_right (by simp [chunk_length, Nat.add_mul]; omega)]
    have e : (cm + 1) * n + i - (chunk (store p) n first).length = cm * n + i := by
      simp [chunk_length, Nat.add_mul]; omega
    rw [e, outer_rewind_get n first store ps _ cm i (by simpa using h) hi]
    simp

/-- full-length case: the source iterator runs on, modulus `cm` receives the slice `[cm*n, cm*n+n)` -/
theorem outer_full_get (n : Nat) (first : List α) (store : Nat → α → Nat) :
    ∀ (ps : List Nat) (viter : List α) (cm i : Nat), cm < ps.length → i < n →
      (outer n true first store ps viter)[cm * n + i]? =
        some ((viter[cm * n + i]?.map (store (ps.getD cm 0))).getD 0)
  | [], _, cm, i, h, _ => by simp at h
  | p :: ps, viter, 0, i, _, hi => by
    rw [outer_cons_full]
    rw [List.getElem?_append_left (by simp [chunk_length]; omega)]
    simp [chunk_get _ _ _ _ hi]
  | p :: ps, viter, cm + 1, i, h, hi => by
    rw [outer_cons_full]
    rw [List.getElem?_append_right (by simp [chunk_length, Nat.add_mul]; omega)]
    have e : (cm + 1) * n + i - (chunk (store p) n viter).length = cm * n + i := by
      simp [chunk_length, Nat.add_mul]; omega
    rw [e]
    rw [outer_full_get n first store ps _ cm i (by simpa using h) hi]
    have e2 : n + (cm * n + i) = (cm + 1) * n + i := by simp [Nat.add_mul]; omega
    simp [List.getElem?_drop, e2]

theorem overwrite_all (old written : List Nat) (h : old.length = written.length) :
    overwrite old written = written := by
  simp [overwrite, ← h]

theorem overwrite_length (old written : List Nat) (h : written.length ≤ old.length) :
    (overwrite old written).length = old.length := by
  simp [overwrite]; omega

end Nfl.Setters

namespace Nfl.Setters
variable {α : Type}

theorem take_getD (P : List Nat) (m cm : Nat) (h : cm < m) : (P.take m).getD cm 0 = P.getD cm 0 := by
  simp [List.getD, h]

/-- `k ≤ n`: every modulus receives the list from its start, zero padded (for `m = 1`, `k = n` the
"full" branch of the code is taken and gives the same words) -/
theorem setGen_short (n m : Nat) (P : List Nat) (store : Nat → α → Nat) (vals : List α) (old : List Nat)
    (hm : 1 ≤ m) (hP : m ≤ P.length) (hold : old.length = n * m) (hk : vals.length ≤ n) :
    ∃ r, setGen n m P store vals old = .ok r ∧ r.length = n * m ∧
      ∀ cm i, cm < m → i < n → r[cm * n + i]? = some ((vals[i]?.map (store (P.getD cm 0))).getD 0) := by
  have hlen : (P.take m).length = m := by simp; omega
  have h1 : ¬ (P.length < m) := by omega
  have h2 : (decide (vals.length > n) && (vals.length != n * m)) = false := by simp; omega
  refine ⟨outer n (vals.length == n * m) vals store (P.take m) vals, ?_, ?_, ?_⟩
  · simp only [setGen, h1, h2, if_false]
    rw [overwrite_all _ _ (by rw [outer_length, hlen, hold])]; simp
  · rw [outer_length, hlen]
  · intro cm i hcm hi
    by_cases hf : vals.length = n * m
    · -- the code does not rewind; but then only modulus 0 exists below the bound
      have hcm0 : cm = 0 := by
        rcases Nat.eq_zero_or_pos cm with h | h
        · exact h
        · exfalso
          have : n * 2 ≤ n * m := Nat.mul_le_mul_left n (by omega)
          omega
      subst hcm0
      have : (vals.length == n * m) = true := by simp [hf]
      rw [this, outer_full_get n vals store _ vals 0 i (by omega) hi, take_getD _ _ _ hcm]
      simp
    · have : (vals.length == n * m) = false := by simp [hf]
      rw [this, outer_rewind_get n vals store _ vals cm i (by omega) hi, take_getD _ _ _ hcm]

/-- `k = n·m`: modulus `cm` receives the slice `[cm·n, cm·n+n)` -/
theorem setGen_full (n m : Nat) (P : List Nat) (store : Nat → α → Nat) (vals : List α) (old : List Nat)
    (hP : m ≤ P.length) (hold : old.length = n * m) (hk : vals.length = n * m) :
    ∃ r, setGen n m P store vals old = .ok r ∧ r.length = n * m ∧
      ∀ cm i, cm < m → i < n →
        r[cm * n + i]? = some ((vals[cm * n + i]?.map (store (P.getD cm 0))).getD 0) := by
  have hlen : (P.take m).length = m := by simp; omega
  have h1 : ¬ (P.length < m) := by omega
  have h2 : (decide (vals.length > n) && (vals.length != n * m)) = false := by simp [hk]
  have h3 : (vals.length == n * m) = true := by simp [hk]
  refine ⟨outer n true vals store (P.take m) vals, ?_, ?_, ?_⟩
  · simp only [setGen, h1, h2, h3, if_false]
    rw [overwrite_all _ _ (by rw [outer_length, hlen, hold])]; simp
  · rw [outer_length, hlen]
  · intro cm i hcm hi
    rw [outer_full_get n vals store _ vals cm i (by omega) hi, take_getD _ _ _ hcm]

/-- any other length: the exception is raised before the first store -/
theorem setGen_throws (n m : Nat) (P : List Nat) (store : Nat → α → Nat) (vals : List α) (old : List Nat)
    (hP : m ≤ P.length) (h1 : n < vals.length) (h2 : vals.length ≠ n * m) :
    setGen n m P store vals old = .error .badSize := by
  have h0 : ¬ (P.length < m) := by omega
  have h3 : (decide (vals.length > n) && (vals.length != n * m)) = true := by simp [h1, h2]
  simp only [setGen, h0, h3, if_false, if_true]

/-- conversely: a call that returns normally had one of the two admissible lengths -/
theorem setGen_ok_length (n m : Nat) (P : List Nat) (store : Nat → α → Nat) (vals : List α) (old r : List Nat)
    (h : setGen n m P store vals old = .ok r) : m ≤ P.length ∧ (vals.length ≤ n ∨ vals.length = n * m) := by
  unfold setGen at h
  by_cases h0 : P.length < m
  · simp [h0] at h
  · by_cases h3 : (decide (vals.length > n) && (vals.length != n * m)) = true
    · simp only [h0, h3, if_false, if_true] at h; cases h
    · refine ⟨by omega, ?_⟩
      simp at h3
      by_cases h4 : vals.length ≤ n
      · exact Or.inl h4
      · exact Or.inr (h3 (by omega))

end Nfl.Setters
