/-
`RowOK`: the facts property C06 states about one table row, and their extraction from the
Boolean checker that the kernel evaluates on the regenerated tables.
-/
import NflVerif.Proofs.PrattSound
import Mathlib.GroupTheory.OrderOfElement
import Mathlib.Algebra.Field.ZMod

namespace Nfl

structure RowOK (w lk : Nat) (r : Row) : Prop where
  prime : r.p.Prime
  lower : 2 ^ (w - 3) ≤ r.p
  upper : r.p < 2 ^ (w - 2)
  cong : r.p % (2 * 2 ^ lk) = 1
  root_lt : r.root < r.p
  root_pow : r.root ^ (2 ^ lk) % r.p = r.p - 1
  inv_lt : r.invN < r.p
  inv_mul : r.invN * 2 ^ lk % r.p = 1
  newton : 2 ^ (2 * w) / r.p = 4 * 2 ^ w + r.pn
  pn_lt : r.pn < 2 ^ w

theorem rowCheck_sound {w lk p pn root invN : Nat} {chain : List PrattLine}
    (hlk : lk < 100)
    (h : rowCheck w lk p pn root invN chain = true) : RowOK w lk ⟨p, pn, root, invN⟩ := by
  unfold rowCheck at h
  simp only [Bool.and_eq_true] at h
  obtain ⟨⟨⟨⟨⟨⟨⟨⟨⟨hc, h1⟩, h2⟩, h3⟩, h4⟩, h5⟩, h6⟩, h7⟩, h8⟩, h9⟩ := h
  have hprime := certifies_sound _ _ hc
  have hp0 : 0 < p := hprime.pos
  have blt : ∀ a b : Nat, Nat.blt a b = true → a < b := fun a b h => by
    have := Nat.le_of_ble_eq_true h; omega
  refine ⟨hprime, Nat.le_of_ble_eq_true h1, blt _ _ h2, Nat.eq_of_beq_eq_true h3, blt _ _ h4, ?_,
    blt _ _ h6, Nat.eq_of_beq_eq_true h7, Nat.eq_of_beq_eq_true h8, blt _ _ h9⟩
  have := Nat.eq_of_beq_eq_true h5
  rw [powMod_eq _ _ _ hp0] at this
  · exact this
  · calc 2 ^ lk < 2 ^ 100 := Nat.pow_lt_pow_right (by norm_num) hlk
      _ < 2 ^ 128 := by norm_num

theorem rowsCheckAux_sound (w lk : Nat) (hlk : lk < 100) :
    ∀ (P Pn R I : List Nat) (C : List (List PrattLine)),
      rowsCheckAux w lk P Pn R I C = true → ∀ r ∈ zipRows P Pn R I, RowOK w lk r
  | [], _, _, _, _, _, r, hr => by simp [zipRows] at hr
  | _ :: _, [], _, _, _, _, r, hr => by simp [zipRows] at hr
  | _ :: _, _ :: _, [], _, _, _, r, hr => by simp [zipRows] at hr
  | _ :: _, _ :: _, _ :: _, [], _, _, r, hr => by simp [zipRows] at hr
  | _ :: _, _ :: _, _ :: _, _ :: _, [], h, _, _ => by simp [rowsCheckAux] at h
  | p :: ps, pn :: pns, r0 :: rs, i :: is, c :: cs, h, r, hr => by
    simp only [rowsCheckAux, Bool.and_eq_true] at h
    simp only [zipRows, List.mem_cons] at hr
    rcases hr with rfl | hr
    · exact rowCheck_sound hlk h.1
    · exact rowsCheckAux_sound w lk hlk ps pns rs is cs h.2 r hr

theorem strictDecreasing_sound : ∀ l : List Nat, strictDecreasing l = true → l.Pairwise (· > ·)
  | [], _ => List.Pairwise.nil
  | [_], _ => by simp
  | a :: b :: t, h => by
    simp only [strictDecreasing, Bool.and_eq_true] at h
    have hba : b < a := by have := Nat.le_of_ble_eq_true h.1; omega
    have ih := strictDecreasing_sound (b :: t) h.2
    refine List.Pairwise.cons ?_ ih
    intro c hc
    rcases List.mem_cons.1 hc with rfl | hc
    · exact hba
    · exact lt_trans ((List.pairwise_cons.1 ih).1 c hc) hba

theorem Table.check_sound (t : Table) (hlk : t.lk < 100) (h : t.check = true) :
    (∀ r ∈ t.rows, RowOK t.w t.lk r) ∧ t.P.Pairwise (· > ·) := by
  unfold Table.check at h
  simp only [Bool.and_eq_true] at h
  exact ⟨rowsCheckAux_sound _ _ hlk _ _ _ _ _ h.1, strictDecreasing_sound _ h.2⟩

/-! ### Consequences of `RowOK` used by the other properties -/

variable {w lk : Nat} {r : Row}

theorem RowOK.p_pos (h : RowOK w lk r) : 0 < r.p := h.prime.pos

theorem RowOK.four_p_le (h : RowOK w lk r) (hw : 2 ≤ w) : 4 * r.p ≤ 2 ^ w := by
  have := h.upper
  have : 2 ^ w = 4 * 2 ^ (w - 2) := by
    conv_lhs => rw [show w = (w - 2) + 2 by omega]
    rw [pow_add]; ring
  omega

/-- the tabulated root, as an element of the field -/
theorem RowOK.root_pow_zmod (h : RowOK w lk r) : ((r.root : ZMod r.p)) ^ (2 ^ lk) = -1 := by
  have hp := h.prime
  have : Fact r.p.Prime := ⟨hp⟩
  have h1 : ((r.root ^ (2 ^ lk) : ℕ) : ZMod r.p) = ((r.p - 1 : ℕ) : ZMod r.p) := by
    rw [ZMod.natCast_eq_natCast_iff]; unfold Nat.ModEq
    rw [h.root_pow, Nat.mod_eq_of_lt]; have := hp.two_le; omega
  have h2 : ((r.p - 1 : ℕ) : ZMod r.p) = -1 := by
    rw [Nat.cast_sub hp.one_lt.le]; simp
  rw [← h2, ← h1]; push_cast; rfl

theorem RowOK.two_ne_zero (h : RowOK w lk r) (hw : 5 ≤ w) : (2 : ZMod r.p) ≠ 0 := by
  have : Fact r.p.Prime := ⟨h.prime⟩
  have h4 : 2 ^ 2 ≤ r.p := le_trans (Nat.pow_le_pow_right (by norm_num) (by omega)) h.lower
  intro h2
  have : ((2 : ℕ) : ZMod r.p) = 0 := by simpa using h2
  rw [ZMod.natCast_eq_zero_iff] at this
  have := Nat.le_of_dvd (by norm_num) this
  omega

/-- The tabulated root has multiplicative order exactly `2 * kMax`. -/
theorem RowOK.orderOf_root (h : RowOK w lk r) (hw : 5 ≤ w) :
    orderOf (r.root : ZMod r.p) = 2 ^ (lk + 1) := by
  have : Fact r.p.Prime := ⟨h.prime⟩
  apply orderOf_eq_prime_pow
  · rw [h.root_pow_zmod]
    intro hneg
    have : (2 : ZMod r.p) = 0 := by
      have h0 : (1 : ZMod r.p) + 1 = 0 := by
        nth_rewrite 1 [← hneg]; ring
      rw [← h0]; norm_num
    exact h.two_ne_zero hw this
  · rw [pow_succ, pow_mul, h.root_pow_zmod]; norm_num

end Nfl
