/-
Compose2 helper lemmas: C05 ∘ C07 — evaluating an expression tree on whole registers with the intrinsic-level models
of the real SSE/AVX2 kernels (`Model/Simd.lean`, proved lane-wise in C05) instead of an abstract `Kernels`
structure with the hypothesis `Kernels.Lanewise` (C07, `Proofs/ExprVec.lean`).

* `realKernels tg c`    the functors `addmod<T,tg>`, `submod<T,tg>`, `mulmod<T,tg>`, `mulmod_shoup<T,tg>`,
                        `compute_shoup<T,tg>` of one tag `tg`, as the C++ template specialisations dispatch them.
* `nodeTag be l e`      the tag the operator overloads pass to the functor of the root node of `e`.
* `loadVecT`            `expr::load<M>` on registers where every node uses the kernel of *its own* tag.
* `Kernels.LanewiseOn`  the satisfiable weakening of `Kernels.Lanewise`: registers of the functor's own width,
                        admissible contents.
* `loadVecT_eq_loadBlock`, `assignT_eq_assignW`  the register-level evaluation is the element-wise one.
-/
import NflVerif.Proofs.ExprVec
import NflVerif.Proofs.ExprExact
import NflVerif.Properties.C05
namespace Nfl.Compose2
open Nfl Nfl.Ex

/-! ### the real kernel family -/

/-- The register-level functors of tag `tg` for the limb type and moduli of `c`, exactly as the template
specialisations of `ops.hpp`, `opt/arch/sse.hpp`, `opt/arch/avx2.hpp` select them:
* `addmod`/`submod`: `uint16_t`/`uint32_t` have an SSE kernel (8 / 4 lanes) and an AVX2 kernel (16 / 8 lanes);
  `uint64_t` and the serial tag: the scalar functor (on its one-element "register": applied to every lane present);
* `mulmod`, `compute_shoup`: `X<T,sse> : X<T,serial>`, `X<T,avx2> : X<T,sse>` – scalar in every build;
* `mulmod_shoup`: `uint32_t`: one SSE kernel, inherited by the AVX2 tag; `uint16_t`: an SSE kernel and a different AVX2
  kernel that works on SSE-width registers (`simd_mode = sse`, arithmetic in a `__m256i`); `uint64_t`/serial: scalar. -/
def realKernels (tg : Mode) (c : Ctx) : Kernels where
  add cm xs ys :=
    match c.l, tg with
    | .w16, .sse => Simd.sseAddmod16 (c.p cm) xs ys
    | .w16, .avx2 => Simd.avx2Addmod16 (c.p cm) xs ys
    | .w32, .sse => Simd.sseAddmod32 (c.p cm) xs ys
    | .w32, .avx2 => Simd.avx2Addmod32 (c.p cm) xs ys
    | _, _ => List.zipWith (addmod c.w (c.p cm)) xs ys
  sub cm xs ys :=
    match c.l, tg with
    | .w16, .sse => Simd.sseSubmod16 (c.p cm) xs ys
    | .w16, .avx2 => Simd.avx2Submod16 (c.p cm) xs ys
    | .w32, .sse => Simd.sseSubmod32 (c.p cm) xs ys
    | .w32, .avx2 => Simd.avx2Submod32 (c.p cm) xs ys
    | _, _ => List.zipWith (submod c.w (c.p cm)) xs ys
  mul cm xs ys := List.zipWith (mulmod c.w (c.p cm) (c.row cm).pn) xs ys
  shoup cm xs ys qs :=
    match c.l, tg with
    | .w16, .sse => Simd.sseMulmodShoup16 (c.p cm) xs ys qs
    | .w16, .avx2 => Simd.avx2MulmodShoup16 (c.p cm) xs ys qs
    | .w32, .sse => Simd.sseMulmodShoup32 (c.p cm) xs ys qs
    | .w32, .avx2 => Simd.sseMulmodShoup32 (c.p cm) xs ys qs
    | _, _ => mulShoupList c.w (c.p cm) xs ys qs
  cshoup cm xs := xs.map (computeShoup c.w (c.p cm))

/-- the tag the operator overloads / `_make_op` pass to the functor at the root of `e` (the argument of `fnMode` in
`Ex.mode`): `CC_SIMD` for two polynomials, the sub-expression's mode for a mixed pair, `common_mode` otherwise;
`retag` (= `common_mode` of the three operands) for the fused product. -/
def nodeTag (be : Backend) (l : Limb) : Expr → Mode
  | .leaf _ => be
  | .add a b | .sub a b | .mul a b | .eq a b | .neq a b => tag2 be a b (mode be l a) (mode be l b)
  | .shoup3 a b q => commonMode3 (mode be l a) (mode be l b) (mode be l q)
  | .computeShoup a => mode be l a

/-- `expr::load<M>(cm, j)` on registers of `vs` lanes where the functor of every node is `kf (tagf node)`;
`loadVec K` of `Proofs/ExprVec.lean` is the special case of one kernel set for all nodes. -/
def loadVecT (kf : Mode → Kernels) (tagf : Expr → Mode) (c : Ctx) (st : Store) : Expr → Nat → Nat → Nat → List Nat
  | .leaf h, cm, j, vs => (List.range vs).map fun t => rd st h (cm * c.deg + (j + t))
  | .add a b, cm, j, vs =>
      (kf (tagf (.add a b))).add cm (loadVecT kf tagf c st a cm j vs) (loadVecT kf tagf c st b cm j vs)
  | .sub a b, cm, j, vs =>
      (kf (tagf (.sub a b))).sub cm (loadVecT kf tagf c st a cm j vs) (loadVecT kf tagf c st b cm j vs)
  | .mul a b, cm, j, vs =>
      (kf (tagf (.mul a b))).mul cm (loadVecT kf tagf c st a cm j vs) (loadVecT kf tagf c st b cm j vs)
  | .shoup3 a b q, cm, j, vs =>
      (kf (tagf (.shoup3 a b q))).shoup cm (loadVecT kf tagf c st a cm j vs) (loadVecT kf tagf c st b cm j vs)
        (loadVecT kf tagf c st q cm j vs)
  | .computeShoup a, cm, j, vs => (kf (tagf (.computeShoup a))).cshoup cm (loadVecT kf tagf c st a cm j vs)
  | .eq a b, cm, j, vs => loadBlock c st (.eq a b) cm j vs
  | .neq a b, cm, j, vs => loadBlock c st (.neq a b) cm j vs

theorem loadVecT_const (K : Kernels) (tagf : Expr → Mode) (c : Ctx) (st : Store) (cm j vs : Nat) :
    ∀ e, loadVecT (fun _ => K) tagf c st e cm j vs = loadVec K c st e cm j vs := by
  intro e
  induction e with
  | leaf h => rfl
  | add a b iha ihb => simp only [loadVecT, loadVec, iha, ihb]
  | sub a b iha ihb => simp only [loadVecT, loadVec, iha, ihb]
  | mul a b iha ihb => simp only [loadVecT, loadVec, iha, ihb]
  | shoup3 a b q iha ihb ihq => simp only [loadVecT, loadVec, iha, ihb, ihq]
  | computeShoup a iha => simp only [loadVecT, loadVec, iha]
  | eq a b _ _ => rfl
  | neq a b _ _ => rfl

/-- the assignment loop of `poly::operator=(expr)` with the register-level evaluation `loadVecT` -/
def assignStepT (kf : Mode → Kernels) (tagf : Expr → Mode) (c : Ctx) (d : Nat) (e : Expr) (vs cm : Nat) (st : Store)
    (jb : Nat) : Store :=
  storeBlock st d (cm * c.deg + jb * vs) (loadVecT kf tagf c st e cm (jb * vs) vs)

def assignT (kf : Mode → Kernels) (tagf : Expr → Mode) (c : Ctx) (vs d : Nat) (e : Expr) (st : Store) : Store :=
  (List.range c.nmod).foldl (fun st cm => (List.range (c.deg / vs)).foldl (assignStepT kf tagf c d e vs cm) st) st

theorem assignT_const (K : Kernels) (tagf : Expr → Mode) (c : Ctx) (vs d : Nat) (e : Expr) (st : Store) :
    assignT (fun _ => K) tagf c vs d e st = assignK K c vs d e st := by
  unfold assignT assignK
  have : assignStepT (fun _ => K) tagf c d e vs = assignStepK K c d e vs := by
    funext cm st jb
    unfold assignStepT assignStepK
    rw [loadVecT_const]
  rw [this]

/-! ### the satisfiable form of C07's lane-wise hypothesis -/

/-- **`Kernels.Lanewise` restricted to what the library feeds the functors.**  Each functor of tag `tg` is, lane by lane,
the scalar functor
* on registers of the lane count of *its own* `simd_mode` (`eltCount l (fnMode l F tg)`; `Lanewise` quantifies over
  registers of any, even unequal, lengths),
* for a modulus index of the polynomial type (`cm < nmoduli`),
* on admissible contents (`Adm`): canonical operands of `+ - *` and of the fused product, whose third operand is the
  precomputed quotient `⌊y·2^w/p⌋` of the second (`Lanewise` quantifies over all contents). -/
structure _root_.Nfl.Ex.Kernels.LanewiseOn (K : Kernels) (c : Ctx) (tg : Mode) : Prop where
  add : ∀ cm, cm < c.nmod → ∀ xs ys : List Nat, xs.length = eltCount c.l (fnMode c.l .add tg) → ys.length = xs.length →
    (∀ x ∈ xs, x < c.p cm) → (∀ y ∈ ys, y < c.p cm) →
    K.add cm xs ys = (List.range xs.length).map fun t => addmod c.w (c.p cm) (xs.getD t 0) (ys.getD t 0)
  sub : ∀ cm, cm < c.nmod → ∀ xs ys : List Nat, xs.length = eltCount c.l (fnMode c.l .sub tg) → ys.length = xs.length →
    (∀ x ∈ xs, x < c.p cm) → (∀ y ∈ ys, y < c.p cm) →
    K.sub cm xs ys = (List.range xs.length).map fun t => submod c.w (c.p cm) (xs.getD t 0) (ys.getD t 0)
  mul : ∀ cm, cm < c.nmod → ∀ xs ys : List Nat, xs.length = eltCount c.l (fnMode c.l .mul tg) → ys.length = xs.length →
    (∀ x ∈ xs, x < c.p cm) → (∀ y ∈ ys, y < c.p cm) →
    K.mul cm xs ys =
      (List.range xs.length).map fun t => mulmod c.w (c.p cm) (c.row cm).pn (xs.getD t 0) (ys.getD t 0)
  shoup : ∀ cm, cm < c.nmod → ∀ xs ys qs : List Nat, xs.length = eltCount c.l (fnMode c.l .mulShoup tg) →
    ys.length = xs.length → qs.length = xs.length → (∀ x ∈ xs, x < c.p cm) → (∀ y ∈ ys, y < c.p cm) →
    (∀ t, t < xs.length → qs.getD t 0 = ys.getD t 0 * 2 ^ c.w / c.p cm) →
    K.shoup cm xs ys qs =
      (List.range xs.length).map fun t => mulmodShoup c.w (c.p cm) (xs.getD t 0) (ys.getD t 0) (qs.getD t 0)
  cshoup : ∀ cm, cm < c.nmod → ∀ xs : List Nat, xs.length = eltCount c.l (fnMode c.l .cshoup tg) →
    K.cshoup cm xs = (List.range xs.length).map fun t => computeShoup c.w (c.p cm) (xs.getD t 0)

/-- C07's hypothesis implies the restricted one (for every tag): `LanewiseOn` is the weaker hypothesis. -/
theorem _root_.Nfl.Ex.Kernels.Lanewise.on {K : Kernels} {c : Ctx} (h : K.Lanewise c) (tg : Mode) : K.LanewiseOn c tg :=
  ⟨fun cm _ xs ys _ _ _ _ => h.add cm xs ys, fun cm _ xs ys _ _ _ _ => h.sub cm xs ys,
   fun cm _ xs ys _ _ _ _ => h.mul cm xs ys, fun cm _ xs ys qs _ _ _ _ _ _ => h.shoup cm xs ys qs,
   fun cm _ xs _ => h.cshoup cm xs⟩

/-- every node's functor has the register width `vs` of the loop (`Op::simd_mode` of the node = the mode the tree is
loaded in: what makes `load<M>` compile) -/
def WidthOK (l : Limb) (tagf : Expr → Mode) (vs : Nat) : Expr → Prop
  | .leaf _ => True
  | .add a b => eltCount l (fnMode l .add (tagf (.add a b))) = vs ∧ WidthOK l tagf vs a ∧ WidthOK l tagf vs b
  | .sub a b => eltCount l (fnMode l .sub (tagf (.sub a b))) = vs ∧ WidthOK l tagf vs a ∧ WidthOK l tagf vs b
  | .mul a b => eltCount l (fnMode l .mul (tagf (.mul a b))) = vs ∧ WidthOK l tagf vs a ∧ WidthOK l tagf vs b
  | .shoup3 a b q => eltCount l (fnMode l .mulShoup (tagf (.shoup3 a b q))) = vs ∧
      WidthOK l tagf vs a ∧ WidthOK l tagf vs b ∧ WidthOK l tagf vs q
  | .computeShoup a => eltCount l (fnMode l .cshoup (tagf (.computeShoup a))) = vs ∧ WidthOK l tagf vs a
  | .eq a b | .neq a b => WidthOK l tagf vs a ∧ WidthOK l tagf vs b

/-- a tree whose `load<M>` compiles (`accepts`: every arithmetic functor's `simd_mode` is `M`) has the right widths -/
theorem widthOK_of_accepts (be : Backend) (l : Limb) (m : Mode) :
    ∀ e, accepts be l m e = true → WidthOK l (nodeTag be l) (eltCount l m) e := by
  intro e
  induction e with
  | leaf h => intro _; trivial
  | add a b iha ihb =>
    intro h
    simp only [accepts, Bool.and_eq_true, beq_iff_eq] at h
    exact ⟨by rw [← h.1.1]; rfl, iha h.1.2, ihb h.2⟩
  | sub a b iha ihb =>
    intro h
    simp only [accepts, Bool.and_eq_true, beq_iff_eq] at h
    exact ⟨by rw [← h.1.1]; rfl, iha h.1.2, ihb h.2⟩
  | mul a b iha ihb =>
    intro h
    simp only [accepts, Bool.and_eq_true, beq_iff_eq] at h
    exact ⟨by rw [← h.1.1]; rfl, iha h.1.2, ihb h.2⟩
  | shoup3 a b q iha ihb ihq =>
    intro h
    simp only [accepts, Bool.and_eq_true, beq_iff_eq] at h
    exact ⟨by rw [← h.1.1.1]; rfl, iha h.1.1.2, ihb h.1.2, ihq h.2⟩
  | computeShoup a iha =>
    intro h
    simp only [accepts, Bool.and_eq_true, beq_iff_eq] at h
    exact ⟨by rw [← h.1]; rfl, iha h.2⟩
  | eq a b iha ihb =>
    intro h
    simp only [accepts, Bool.and_eq_true] at h
    exact ⟨iha h.1, ihb h.2⟩
  | neq a b iha ihb =>
    intro h
    simp only [accepts, Bool.and_eq_true] at h
    exact ⟨iha h.1, ihb h.2⟩

/-! ### list lemmas -/

theorem zipWith_eq_map_range (f : Nat → Nat → Nat) (xs ys : List Nat) (h : ys.length = xs.length) :
    List.zipWith f xs ys = (List.range xs.length).map fun t => f (xs.getD t 0) (ys.getD t 0) := by
  apply List.ext_getElem
  · simp [h]
  · intro i h1 h2
    have hx : i < xs.length := by simpa [h] using h1
    have hy : i < ys.length := by omega
    simp [List.getD_eq_getElem?_getD, List.getElem?_eq_getElem hx, List.getElem?_eq_getElem hy]

theorem map_eq_map_range (f : Nat → Nat) (xs : List Nat) :
    xs.map f = (List.range xs.length).map fun t => f (xs.getD t 0) := by
  apply List.ext_getElem
  · simp
  · intro i h1 h2
    have hx : i < xs.length := by simpa using h1
    simp [List.getD_eq_getElem?_getD, List.getElem?_eq_getElem hx]

theorem mulShoupList_eq_map_range (w p : Nat) : ∀ (xs ys qs : List Nat), ys.length = xs.length → qs.length = xs.length →
    mulShoupList w p xs ys qs =
      (List.range xs.length).map fun t => mulmodShoup w p (xs.getD t 0) (ys.getD t 0) (qs.getD t 0)
  | [], _, _, _, _ => by simp [mulShoupList]
  | x :: xs, [], _, h, _ => by simp at h
  | x :: xs, y :: ys, [], _, h => by simp at h
  | x :: xs, y :: ys, q :: qs, h1, h2 => by
    have ih := mulShoupList_eq_map_range w p xs ys qs (by simpa using h1) (by simpa using h2)
    simp only [mulShoupList, ih, List.length_cons, List.range_succ_eq_map, List.map_cons, List.map_map,
      List.getD_cons_zero]
    congr 1

theorem quot_eq_map {w p : Nat} (hp0 : 0 < p) (hp : p ≤ 2 ^ w) (ys qs : List Nat) (hl : qs.length = ys.length)
    (hy : ∀ y ∈ ys, y < p) (hq : ∀ t, t < ys.length → qs.getD t 0 = ys.getD t 0 * 2 ^ w / p) :
    qs = ys.map (computeShoup w p) := by
  apply List.ext_getElem
  · simp [hl]
  · intro i h1 h2
    have hi : i < ys.length := by simpa using h2
    have := hq i hi
    simp only [List.getD_eq_getElem?_getD, List.getElem?_eq_getElem h1, List.getElem?_eq_getElem hi,
      Option.getD_some] at this
    rw [List.getElem_map, computeShoup_spec hp0 hp, Nat.mod_eq_of_lt (hy _ (List.getElem_mem hi))]
    exact this

/-! ### register-level evaluation = element-wise evaluation, on admissible trees -/

theorem mem_loadBlock {c : Ctx} {st : Store} {e : Expr} {cm j vs x : Nat} (hx : x ∈ loadBlock c st e cm j vs) :
    ∃ t, t < vs ∧ x = loadElem c st e cm (j + t) := by
  unfold loadBlock at hx
  obtain ⟨t, ht, rfl⟩ := List.mem_map.1 hx
  exact ⟨t, List.mem_range.1 ht, rfl⟩

theorem loadBlock_length (c : Ctx) (st : Store) (e : Expr) (cm j vs : Nat) : (loadBlock c st e cm j vs).length = vs := by
  simp [loadBlock]

theorem loadBlock_getD (c : Ctx) (st : Store) (e : Expr) (cm j vs t : Nat) (ht : t < vs) :
    (loadBlock c st e cm j vs).getD t 0 = loadElem c st e cm (j + t) := by
  unfold loadBlock
  exact getD_map_range _ vs t ht

/-- the elements of a block of an admissible operand are its exact values -/
theorem loadBlock_exact {c : Ctx} (hrows : c.TableRows) {st : Store} {e : Expr} (hadm : Adm c st e) {cm j vs : Nat}
    (hcm : cm < c.nmod) (hj : j + vs ≤ c.deg) {x : Nat} (hx : x ∈ loadBlock c st e cm j vs) :
    ∃ t, t < vs ∧ x = evalExact c st e cm (j + t) := by
  obtain ⟨t, ht, rfl⟩ := mem_loadBlock hx
  exact ⟨t, ht, loadElem_exact hrows st e hadm cm hcm (j + t) (by omega)⟩

/-- **block lemma**: with functors that are lane-wise the scalar ones on admissible registers of their own width
(`LanewiseOn`), the register `expr.load<M>(cm, j)` of an admissible tree all of whose functors have the loop's width is
the list of the element-wise loads. -/
theorem loadVecT_eq_loadBlock {kf : Mode → Kernels} {tagf : Expr → Mode} {c : Ctx} (hrows : c.TableRows)
    (hK : ∀ e', (kf (tagf e')).LanewiseOn c (tagf e')) (st : Store) {cm j vs : Nat} (hcm : cm < c.nmod)
    (hj : j + vs ≤ c.deg) :
    ∀ e, Adm c st e → WidthOK c.l tagf vs e → loadVecT kf tagf c st e cm j vs = loadBlock c st e cm j vs := by
  intro e
  induction e with
  | leaf h => intro _ _; rfl
  | add a b iha ihb =>
    intro hadm hw
    obtain ⟨ha, hb, hc⟩ := hadm
    obtain ⟨hw0, hwa, hwb⟩ := hw
    simp only [loadVecT, iha ha hwa, ihb hb hwb]
    rw [(hK (.add a b)).add cm hcm _ _ (by rw [loadBlock_length, hw0]) (by simp [loadBlock_length])
      (fun x hx => by obtain ⟨t, ht, rfl⟩ := loadBlock_exact hrows ha hcm hj hx; exact (hc cm hcm _ (by omega)).1)
      (fun x hx => by obtain ⟨t, ht, rfl⟩ := loadBlock_exact hrows hb hcm hj hx; exact (hc cm hcm _ (by omega)).2)]
    rw [loadBlock_length]
    conv => rhs; unfold loadBlock
    apply List.map_congr_left
    intro t ht
    have ht' := List.mem_range.mp ht
    simp only [loadBlock_getD _ _ _ _ _ _ _ ht', loadElem]
  | sub a b iha ihb =>
    intro hadm hw
    obtain ⟨ha, hb, hc⟩ := hadm
    obtain ⟨hw0, hwa, hwb⟩ := hw
    simp only [loadVecT, iha ha hwa, ihb hb hwb]
    rw [(hK (.sub a b)).sub cm hcm _ _ (by rw [loadBlock_length, hw0]) (by simp [loadBlock_length])
      (fun x hx => by obtain ⟨t, ht, rfl⟩ := loadBlock_exact hrows ha hcm hj hx; exact (hc cm hcm _ (by omega)).1)
      (fun x hx => by obtain ⟨t, ht, rfl⟩ := loadBlock_exact hrows hb hcm hj hx; exact (hc cm hcm _ (by omega)).2)]
    rw [loadBlock_length]
    conv => rhs; unfold loadBlock
    apply List.map_congr_left
    intro t ht
    have ht' := List.mem_range.mp ht
    simp only [loadBlock_getD _ _ _ _ _ _ _ ht', loadElem]
  | mul a b iha ihb =>
    intro hadm hw
    obtain ⟨ha, hb, hc⟩ := hadm
    obtain ⟨hw0, hwa, hwb⟩ := hw
    simp only [loadVecT, iha ha hwa, ihb hb hwb]
    rw [(hK (.mul a b)).mul cm hcm _ _ (by rw [loadBlock_length, hw0]) (by simp [loadBlock_length])
      (fun x hx => by obtain ⟨t, ht, rfl⟩ := loadBlock_exact hrows ha hcm hj hx; exact (hc cm hcm _ (by omega)).1)
      (fun x hx => by obtain ⟨t, ht, rfl⟩ := loadBlock_exact hrows hb hcm hj hx; exact (hc cm hcm _ (by omega)).2)]
    rw [loadBlock_length]
    conv => rhs; unfold loadBlock
    apply List.map_congr_left
    intro t ht
    have ht' := List.mem_range.mp ht
    simp only [loadBlock_getD _ _ _ _ _ _ _ ht', loadElem]
  | shoup3 a b q iha ihb ihq =>
    intro hadm hw
    obtain ⟨ha, hb, hq, hc⟩ := hadm
    obtain ⟨hw0, hwa, hwb, hwq⟩ := hw
    simp only [loadVecT, iha ha hwa, ihb hb hwb, ihq hq hwq]
    rw [(hK (.shoup3 a b q)).shoup cm hcm _ _ _ (by rw [loadBlock_length, hw0]) (by simp [loadBlock_length])
      (by simp [loadBlock_length])
      (fun x hx => by obtain ⟨t, ht, rfl⟩ := loadBlock_exact hrows ha hcm hj hx; exact (hc cm hcm _ (by omega)).1)
      (fun x hx => by obtain ⟨t, ht, rfl⟩ := loadBlock_exact hrows hb hcm hj hx; exact (hc cm hcm _ (by omega)).2.1)
      (fun t ht => by
        rw [loadBlock_length] at ht
        rw [loadBlock_getD _ _ _ _ _ _ _ ht, loadBlock_getD _ _ _ _ _ _ _ ht,
          loadElem_exact hrows st q hq cm hcm (j + t) (by omega), loadElem_exact hrows st b hb cm hcm (j + t) (by omega)]
        exact (hc cm hcm _ (by omega)).2.2)]
    rw [loadBlock_length]
    conv => rhs; unfold loadBlock
    apply List.map_congr_left
    intro t ht
    have ht' := List.mem_range.mp ht
    simp only [loadBlock_getD _ _ _ _ _ _ _ ht', loadElem]
  | computeShoup a iha =>
    intro hadm hw
    obtain ⟨hw0, hwa⟩ := hw
    simp only [loadVecT, iha hadm hwa]
    rw [(hK (.computeShoup a)).cshoup cm hcm _ (by rw [loadBlock_length, hw0])]
    rw [loadBlock_length]
    conv => rhs; unfold loadBlock
    apply List.map_congr_left
    intro t ht
    have ht' := List.mem_range.mp ht
    simp only [loadBlock_getD _ _ _ _ _ _ _ ht', loadElem]
  | eq a b _ _ => intro hadm; exact hadm.elim
  | neq a b _ _ => intro hadm; exact hadm.elim

/-- a register load only depends on the words the leaves hold at the coefficients of that register -/
theorem loadVecT_congr (kf : Mode → Kernels) (tagf : Expr → Mode) (c : Ctx) (st st' : Store) (cm j vs : Nat)
    (h : ∀ hd t, t < vs → rd st' hd (cm * c.deg + (j + t)) = rd st hd (cm * c.deg + (j + t))) :
    ∀ e, loadVecT kf tagf c st' e cm j vs = loadVecT kf tagf c st e cm j vs := by
  have hblock : ∀ e, loadBlock c st' e cm j vs = loadBlock c st e cm j vs := by
    intro e
    unfold loadBlock
    apply List.map_congr_left
    intro t ht
    exact loadElem_congr c st st' cm (j + t) (fun hd => h hd t (List.mem_range.mp ht)) e
  intro e
  induction e with
  | leaf hh =>
    simp only [loadVecT]
    apply List.map_congr_left
    intro t ht
    exact h hh t (List.mem_range.mp ht)
  | add a b iha ihb => simp only [loadVecT, iha, ihb]
  | sub a b iha ihb => simp only [loadVecT, iha, ihb]
  | mul a b iha ihb => simp only [loadVecT, iha, ihb]
  | shoup3 a b q iha ihb ihq => simp only [loadVecT, iha, ihb, ihq]
  | computeShoup a iha => simp only [loadVecT, iha]
  | eq a b _ _ => simp only [loadVecT, hblock]
  | neq a b _ _ => simp only [loadVecT, hblock]

/-- one iteration of the inner loop on a store reached by the loop (invariant `Inv` of `Proofs/ExprStore.lean`): the
register-level step is the element-wise step, whatever the aliasing between destination and leaves -/
theorem assignStepT_eq {kf : Mode → Kernels} {tagf : Expr → Mode} {c : Ctx} (hrows : c.TableRows)
    (hK : ∀ e', (kf (tagf e')).LanewiseOn c (tagf e')) {st : Store} {d : Nat} {e : Expr} {vs cm jb : Nat} {st' : Store}
    (hadm : Adm c st e) (hw : WidthOK c.l tagf vs e) (hcm : cm < c.nmod) (hjb : jb * vs + vs ≤ c.deg)
    (inv : Inv c st d e (cm * c.deg + jb * vs) st') :
    assignStepT kf tagf c d e vs cm st' jb = assignStep c d e vs cm st' jb := by
  have hagree : ∀ hd t, t < vs → rd st' hd (cm * c.deg + (jb * vs + t)) = rd st hd (cm * c.deg + (jb * vs + t)) := by
    intro hd t _
    by_cases hh : hd = d
    · subst hh
      rw [inv.dest]
      have : ¬ (cm * c.deg + (jb * vs + t) < cm * c.deg + jb * vs) := by omega
      simp [this]
    · exact inv.frame hd hh _
  unfold assignStepT assignStep
  congr 1
  rw [loadVecT_congr kf tagf c st st' cm (jb * vs) vs hagree e,
    loadVecT_eq_loadBlock hrows hK st hcm hjb e hadm hw]
  unfold loadBlock
  apply List.map_congr_left
  intro t ht
  exact (loadElem_congr c st st' cm (jb * vs + t) (fun hd => hagree hd t (List.mem_range.mp ht)) e).symm

theorem assignT_inner {kf : Mode → Kernels} {tagf : Expr → Mode} {c : Ctx} (hrows : c.TableRows)
    (hK : ∀ e', (kf (tagf e')).LanewiseOn c (tagf e')) {st : Store} {d : Nat} {e : Expr} {vs cm : Nat}
    (hd : d < st.length) (hlen : (st.getD d []).length = c.n)
    (hadm : Adm c st e) (hw : WidthOK c.l tagf vs e) (hcm : cm < c.nmod) :
    ∀ nb, nb * vs ≤ c.deg → ∀ st', Inv c st d e (cm * c.deg) st' →
      (List.range nb).foldl (assignStepT kf tagf c d e vs cm) st' = (List.range nb).foldl (assignStep c d e vs cm) st'
  | 0, _, _, _ => rfl
  | nb + 1, hnb, st', inv => by
    have e1 : (nb + 1) * vs = nb * vs + vs := by rw [Nat.add_mul, Nat.one_mul]
    rw [List.range_succ, List.foldl_append, List.foldl_append,
      assignT_inner hrows hK hd hlen hadm hw hcm nb (by omega) st' inv]
    simp only [List.foldl_cons, List.foldl_nil]
    exact assignStepT_eq hrows hK hadm hw hcm (by omega) (Inv.inner hd hlen hcm nb (by omega) st' inv)

theorem assignT_outer {kf : Mode → Kernels} {tagf : Expr → Mode} {c : Ctx} (hrows : c.TableRows)
    (hK : ∀ e', (kf (tagf e')).LanewiseOn c (tagf e')) {st : Store} {d : Nat} {e : Expr} {vs : Nat}
    (hd : d < st.length) (hlen : (st.getD d []).length = c.n) (hdiv : vs ∣ c.deg) (hvs : 0 < vs)
    (hadm : Adm c st e) (hw : WidthOK c.l tagf vs e) :
    ∀ nc, nc ≤ c.nmod →
      (List.range nc).foldl (fun st cm => (List.range (c.deg / vs)).foldl (assignStepT kf tagf c d e vs cm) st) st =
      (List.range nc).foldl (assignCm c d e vs) st
  | 0, _ => rfl
  | nc + 1, hnc => by
    rw [List.range_succ, List.foldl_append, List.foldl_append,
      assignT_outer hrows hK hd hlen hdiv hvs hadm hw nc (by omega)]
    simp only [List.foldl_cons, List.foldl_nil]
    have hmul : c.deg / vs * vs = c.deg := Nat.div_mul_cancel hdiv
    exact assignT_inner hrows hK hd hlen hadm hw (show nc < c.nmod by omega) (c.deg / vs) (by rw [hmul]) _
      (Inv.outer hd hlen hdiv hvs nc (by omega))

/-- **the whole assignment**: register-level evaluation with `LanewiseOn` functors = element-wise evaluation -/
theorem assignT_eq_assignW {kf : Mode → Kernels} {tagf : Expr → Mode} {c : Ctx} (hrows : c.TableRows)
    (hK : ∀ e', (kf (tagf e')).LanewiseOn c (tagf e')) {st : Store} {d : Nat} {e : Expr} {vs : Nat}
    (hd : d < st.length) (hlen : (st.getD d []).length = c.n) (hdiv : vs ∣ c.deg) (hvs : 0 < vs)
    (hadm : Adm c st e) (hw : WidthOK c.l tagf vs e) :
    assignT kf tagf c vs d e st = assignW c vs d e st :=
  assignT_outer hrows hK hd hlen hdiv hvs hadm hw c.nmod (Nat.le_refl _)

/-! ### the real kernels are lane-wise on admissible registers (C05 ∘ C03 ∘ C06) -/

theorem p_facts {c : Ctx} (hrows : c.TableRows) {cm : Nat} (hcm : cm < c.nmod) :
    0 < c.p cm ∧ 4 * c.p cm ≤ 2 ^ c.w := by
  have hr := Ctx.row_mem hrows hcm
  have h4 := C03.four_p_le c.l.toC03 hr
  rw [Limb.toC03_w] at h4
  exact ⟨C03.p_pos _ hr, h4⟩

/-- `addmod<T,tg>` on registers of its own lane count: ALL lane contents (C05 §1: the signed-compare trick is exact) -/
theorem real_add_lanes (c : Ctx) (tg : Mode) (cm : Nat) (hp : c.p cm < 2 ^ c.w) (xs ys : List Nat)
    (hx : xs.length = eltCount c.l (fnMode c.l .add tg)) (hy : ys.length = xs.length) :
    (realKernels tg c).add cm xs ys = List.zipWith (addmod c.w (c.p cm)) xs ys := by
  rcases c with ⟨l, deg, rows⟩
  cases l <;> cases tg
  all_goals first | rfl | skip
  · have hx : xs.length = 8 := by simpa [eltCount, fnMode, Limb.w] using hx
    exact C05.sseAddmod16_lanes hp xs ys hx (hy.trans hx)
  · have hx : xs.length = 16 := by simpa [eltCount, fnMode, Limb.w] using hx
    exact C05.avx2Addmod16_lanes hp xs ys hx (hy.trans hx)
  · have hx : xs.length = 4 := by simpa [eltCount, fnMode, Limb.w] using hx
    exact C05.sseAddmod32_lanes hp xs ys hx (hy.trans hx)
  · have hx : xs.length = 8 := by simpa [eltCount, fnMode, Limb.w] using hx
    exact C05.avx2Addmod32_lanes hp xs ys hx (hy.trans hx)

/-- `submod<T,tg>` on registers of its own lane count: ALL lane contents -/
theorem real_sub_lanes (c : Ctx) (tg : Mode) (cm : Nat) (hp : c.p cm < 2 ^ c.w) (xs ys : List Nat)
    (hx : xs.length = eltCount c.l (fnMode c.l .sub tg)) (hy : ys.length = xs.length) :
    (realKernels tg c).sub cm xs ys = List.zipWith (submod c.w (c.p cm)) xs ys := by
  rcases c with ⟨l, deg, rows⟩
  cases l <;> cases tg
  all_goals first | rfl | skip
  · have hx : xs.length = 8 := by simpa [eltCount, fnMode, Limb.w] using hx
    exact C05.sseSubmod16_lanes hp xs ys hx (hy.trans hx)
  · have hx : xs.length = 16 := by simpa [eltCount, fnMode, Limb.w] using hx
    exact C05.avx2Submod16_lanes hp xs ys hx (hy.trans hx)
  · have hx : xs.length = 4 := by simpa [eltCount, fnMode, Limb.w] using hx
    exact C05.sseSubmod32_lanes hp xs ys hx (hy.trans hx)
  · have hx : xs.length = 8 := by simpa [eltCount, fnMode, Limb.w] using hx
    exact C05.avx2Submod32_lanes hp xs ys hx (hy.trans hx)

/-- `mulmod_shoup<T,tg>` on registers of its own lane count, moduli of the tables: any words in the first operand,
canonical second operand, third operand its precomputed quotient (C05 §2 `mulmod_shoup16_rows`/`32_rows`) -/
theorem real_shoup_lanes {c : Ctx} (hrows : c.TableRows) (tg : Mode) {cm : Nat} (hcm : cm < c.nmod) (xs ys : List Nat)
    (hx : xs.length = eltCount c.l (fnMode c.l .mulShoup tg)) (hy : ys.length = xs.length)
    (bx : ∀ x ∈ xs, x < 2 ^ c.w) (bY : ∀ y ∈ ys, y < c.p cm) :
    (realKernels tg c).shoup cm xs ys (ys.map (computeShoup c.w (c.p cm))) =
      mulShoupList c.w (c.p cm) xs ys (ys.map (computeShoup c.w (c.p cm))) := by
  have hr := Ctx.row_mem hrows hcm
  rcases c with ⟨l, deg, rows⟩
  cases l <;> cases tg
  all_goals first | rfl | skip
  · have hx : xs.length = 8 := by simpa [eltCount, fnMode, Limb.w] using hx
    exact (C05.mulmod_shoup16_rows hr xs ys hx (hy.trans hx) bx bY).1
  · have hx : xs.length = 8 := by simpa [eltCount, fnMode, Limb.w] using hx
    exact (C05.mulmod_shoup16_rows hr xs ys hx (hy.trans hx) bx bY).2
  · have hx : xs.length = 4 := by simpa [eltCount, fnMode, Limb.w] using hx
    exact C05.mulmod_shoup32_rows hr xs ys hx (hy.trans hx) bx bY
  · have hx : xs.length = 4 := by simpa [eltCount, fnMode, Limb.w] using hx
    exact C05.mulmod_shoup32_rows hr xs ys hx (hy.trans hx) bx bY

/-- **the real kernels satisfy the restricted lane-wise hypothesis**, for every tag, every limb type, every list of
rows of the generated tables -/
theorem realKernels_lanewiseOn {c : Ctx} (hrows : c.TableRows) (tg : Mode) : (realKernels tg c).LanewiseOn c tg := by
  refine ⟨?_, ?_, ?_, ?_, ?_⟩
  · intro cm hcm xs ys hx hy _ _
    obtain ⟨_, h4⟩ := p_facts hrows hcm
    rw [real_add_lanes c tg cm (by omega) xs ys hx hy, zipWith_eq_map_range _ xs ys hy]
  · intro cm hcm xs ys hx hy _ _
    obtain ⟨_, h4⟩ := p_facts hrows hcm
    rw [real_sub_lanes c tg cm (by omega) xs ys hx hy, zipWith_eq_map_range _ xs ys hy]
  · intro cm _ xs ys _ hy _ _
    exact zipWith_eq_map_range _ xs ys hy
  · intro cm hcm xs ys qs hx hy hq bx bY hquot
    obtain ⟨hp0, h4⟩ := p_facts hrows hcm
    have : qs = ys.map (computeShoup c.w (c.p cm)) :=
      quot_eq_map hp0 (by omega) ys qs (hq.trans hy.symm) bY (by rw [hy]; exact hquot)
    subst this
    rw [real_shoup_lanes hrows tg hcm xs ys hx hy (fun x h => by have := bx x h; omega) bY,
      mulShoupList_eq_map_range _ _ xs ys _ hy (by simpa using hy)]
  · intro cm _ xs _
    exact map_eq_map_range _ xs

/-! ### the words of an operand, register by register (for the boolean conversion) -/

theorem flatMap_congr' {l : List Nat} {f g : Nat → List Nat} (h : ∀ a ∈ l, f a = g a) : l.flatMap f = l.flatMap g := by
  rw [List.flatMap_def, List.flatMap_def, List.map_congr_left h]

/-- `a` consecutive blocks of `b` elements are the first `a*b` elements -/
theorem flatMap_range_blocks (f : Nat → Nat) (b : Nat) : ∀ a : Nat,
    ((List.range a).flatMap fun i => (List.range b).map fun t => f (i * b + t)) = (List.range (a * b)).map f
  | 0 => by simp
  | a + 1 => by
    rw [List.range_succ, List.flatMap_append, flatMap_range_blocks f b a, List.flatMap_singleton,
      Nat.add_mul, Nat.one_mul, List.range_add, List.map_append, List.map_map]
    rfl

/-- the registers `e.load<M>(cm, j)` of the whole double loop, concatenated in loop order -/
def wordsT (kf : Mode → Kernels) (tagf : Expr → Mode) (c : Ctx) (st : Store) (e : Expr) (vs : Nat) : List Nat :=
  (List.range c.nmod).flatMap fun cm => (List.range (c.deg / vs)).flatMap fun jb =>
    loadVecT kf tagf c st e cm (jb * vs) vs

theorem wordsT_eq_pointwise {kf : Mode → Kernels} {tagf : Expr → Mode} {c : Ctx} (hrows : c.TableRows)
    (hK : ∀ e', (kf (tagf e')).LanewiseOn c (tagf e')) (st : Store) (e : Expr) {vs : Nat} (hdiv : vs ∣ c.deg)
    (hadm : Adm c st e) (hw : WidthOK c.l tagf vs e) :
    wordsT kf tagf c st e vs = pointwise c st e := by
  have hmul : c.deg / vs * vs = c.deg := Nat.div_mul_cancel hdiv
  unfold wordsT
  rw [← newWords_eq_pointwise hrows st e hadm]
  have h1 : ∀ cm ∈ List.range c.nmod,
      ((List.range (c.deg / vs)).flatMap fun jb => loadVecT kf tagf c st e cm (jb * vs) vs) =
      (List.range c.deg).map fun t => newWord c st e (cm * c.deg + t) := by
    intro cm hcm
    have hcm' := List.mem_range.mp hcm
    have h2 : ∀ jb ∈ List.range (c.deg / vs), loadVecT kf tagf c st e cm (jb * vs) vs =
        (List.range vs).map fun t => loadElem c st e cm (jb * vs + t) := by
      intro jb hjb
      have hjb' := List.mem_range.mp hjb
      have : jb * vs + vs ≤ c.deg := by
        calc jb * vs + vs = (jb + 1) * vs := by rw [Nat.add_mul, Nat.one_mul]
          _ ≤ c.deg / vs * vs := Nat.mul_le_mul_right _ hjb'
          _ = c.deg := hmul
      rw [loadVecT_eq_loadBlock hrows hK st hcm' this e hadm hw]
      rfl
    rw [flatMap_congr' h2, flatMap_range_blocks (fun i => loadElem c st e cm i) vs (c.deg / vs), hmul]
    apply List.map_congr_left
    intro t ht
    have ht' := List.mem_range.mp ht
    unfold newWord
    rw [idx_div ht', idx_mod ht']
  rw [flatMap_congr' h1, flatMap_range_blocks (newWord c st e) c.deg c.nmod]
  rfl

theorem pointwise_length (c : Ctx) (st : Store) (e : Expr) : (pointwise c st e).length = c.n := by
  simp [pointwise]

/-- two polynomials are the same flat array iff they agree at every coefficient `(cm, i)` -/
theorem pointwise_eq_iff (c : Ctx) (st : Store) (a b : Expr) :
    pointwise c st a = pointwise c st b ↔
      ∀ cm, cm < c.nmod → ∀ i, i < c.deg → evalExact c st a cm i = evalExact c st b cm i := by
  unfold pointwise
  rw [List.map_inj_left]
  constructor
  · intro h cm hcm i hi
    have hk : cm * c.deg + i < c.n := by
      unfold Ctx.n
      calc cm * c.deg + i < cm * c.deg + c.deg := by omega
        _ = (cm + 1) * c.deg := by rw [Nat.add_mul, Nat.one_mul]
        _ ≤ c.nmod * c.deg := Nat.mul_le_mul_right _ hcm
    have := h _ (List.mem_range.mpr hk)
    rw [idx_div hi, idx_mod hi] at this
    exact this
  · intro h k hk
    have hk' : k < c.nmod * c.deg := List.mem_range.mp hk
    have hdeg : 0 < c.deg := by
      rcases Nat.eq_zero_or_pos c.deg with h0 | h0
      · rw [h0] at hk'; omega
      · exact h0
    exact h _ (by rw [Nat.div_lt_iff_lt_mul hdeg]; exact hk') _ (Nat.mod_lt _ hdeg)

/-! every functor returns a word of the limb type -/

theorem addmod_lt_word (w p x y : Nat) : addmod w p x y < 2 ^ w := by
  unfold addmod
  have := Nat.mod_lt (x + y) (Nat.two_pow_pos w)
  simp only
  split <;> omega

theorem mulmod_lt_word (w p pn x y : Nat) : mulmod w p pn x y < 2 ^ w := by
  unfold mulmod
  split
  · rename_i h
    subst h
    unfold mulmod64 barrett64
    simp only
    split
    · exact Nat.lt_of_le_of_lt (Nat.sub_le _ _) (Nat.mod_lt _ (Nat.two_pow_pos 64))
    · exact Nat.mod_lt _ (Nat.two_pow_pos 64)
  · unfold mulmodDiv
    exact Nat.mod_lt _ (Nat.two_pow_pos w)

theorem loadElem_lt_word (c : Ctx) (st : Store) (hst : ∀ h k, rd st h k < 2 ^ c.w) :
    ∀ e, e.arith = true → ∀ cm i, loadElem c st e cm i < 2 ^ c.w := by
  intro e
  cases e with
  | leaf h => intro _ cm i; exact hst _ _
  | add a b => intro _ cm i; exact addmod_lt_word _ _ _ _
  | sub a b => intro _ cm i; exact addmod_lt_word _ _ _ _
  | mul a b => intro _ cm i; exact mulmod_lt_word _ _ _ _ _
  | shoup3 a b q => intro _ cm i; exact Nat.mod_lt _ (Nat.two_pow_pos _)
  | computeShoup a => intro _ cm i; exact Nat.mod_lt _ (Nat.two_pow_pos _)
  | eq a b => intro h; simp [Expr.arith] at h
  | neq a b => intro h; simp [Expr.arith] at h

/-- a store all of whose stored values are words -/
theorem rd_lt_of_all {st : Store} {B : Nat} (hB : 0 < B) (h : ∀ r ∈ st, ∀ v ∈ r, v < B) (hd k : Nat) : rd st hd k < B := by
  unfold rd
  rw [List.getD_eq_getElem?_getD, List.getD_eq_getElem?_getD]
  cases h1 : st[hd]? with
  | none => simpa using hB
  | some r =>
    have hr : r ∈ st := List.mem_of_getElem? h1
    simp only [Option.getD_some]
    cases h2 : r[k]? with
    | none => simpa using hB
    | some v => simpa using h r hr v (List.mem_of_getElem? h2)

end Nfl.Compose2
