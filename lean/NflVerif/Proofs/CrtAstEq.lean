/-
Equality of the definitions that `tools/gen_crt_ast.py` produces from clang's AST of `gmp.hpp`
(`Generated/CrtAst.lean`) with the hand-written model `Model/Crt.lean`.

Method: for each translated function a `…NF` definition below repeats the generated text with the integer
conversions that differ between `uint16_t` / `uint32_t` / `uint64_t` abstracted as function parameters; the
generated definitions are instances of it BY `rfl` (so any change of the generated text breaks the proof here), and
the `…NF` is proved equal to the model once, for all moduli lists / residues.
-/
import NflVerif.Generated.CrtAst
import NflVerif.Proofs.CrtPoly

namespace Nfl.CrtAstEq
set_option linter.unusedVariables false
open Nfl Nfl.Crt Nfl.Gen

/-! ### list lemmas: loops over `List.range` that write one cell per iteration -/

theorem map_range_getD {α : Type} (l : List α) (d : α) : (List.range l.length).map (fun i => l.getD i d) = l := by
  apply List.ext_getElem
  · simp
  · intro i h1 h2
    simp only [List.getElem_map, List.getElem_range]
    exact List.getD_eq_getElem _ _ h2

/-- a loop over the indices of `l` that only reads `l[i]` is a fold over `l` -/
theorem foldl_range_getD {α β : Type} (l : List α) (d : α) (f : β → α → β) (b : β) :
    (List.range l.length).foldl (fun acc i => f acc (l.getD i d)) b = l.foldl f b := by
  conv_rhs => rw [← map_range_getD l d]
  rw [List.foldl_map]

/-- `for i < n: a[i] = f i` (whatever else the state holds): the array ends up as `map f (range n)` -/
theorem fold_set_range {σ α : Type} (π : σ → List α) (f : Nat → α) (step : σ → Nat → σ) (n : Nat)
    (hstep : ∀ st i, i < n → i < (π st).length → π (step st i) = (π st).set i (f i)) (st : σ) :
    ∀ k, k ≤ n → k ≤ (π st).length →
      π ((List.range k).foldl step st) = (List.range k).map f ++ (π st).drop k := by
  intro k
  induction k with
  | zero => intro _ _; simp
  | succ k ih =>
    intro hkn hk
    have ih := ih (by omega) (by omega)
    rw [List.range_succ, List.foldl_append, List.foldl_cons, List.foldl_nil]
    have hlen : (π ((List.range k).foldl step st)).length = (π st).length := by
      rw [ih]; simp; omega
    rw [hstep _ _ (by omega) (by omega), ih, List.set_append]
    simp only [List.length_map, List.length_range, Nat.lt_irrefl, if_false, Nat.sub_self, List.map_append,
      List.map_cons, List.map_nil, List.append_assoc]
    congr 1
    rw [List.drop_eq_getElem_cons (by omega : k < (π st).length)]
    rfl

theorem fold_set_range_pair {α β : Type} (f : Nat → α) (step : List α × β → Nat → List α × β) (n : Nat)
    (hstep : ∀ st i, i < n → i < st.1.length → (step st i).1 = st.1.set i (f i)) (st : List α × β)
    (hn : st.1.length = n) : ((List.range n).foldl step st).1 = (List.range n).map f := by
  have := fold_set_range (fun st : List α × β => st.1) f step n hstep st n (Nat.le_refl _) (by simp [hn])
  rw [this, ← hn]; simp

theorem fold_set_range_list {α : Type} (f : Nat → α) (step : List α → Nat → List α) (n : Nat)
    (hstep : ∀ st i, i < n → i < st.length → step st i = st.set i (f i)) (st : List α)
    (hn : st.length = n) : (List.range n).foldl step st = (List.range n).map f := by
  have := fold_set_range (fun st : List α => st) f step n hstep st n (Nat.le_refl _) (by simp [hn])
  rw [this, ← hn]; simp

/-- an inner loop that accumulates in the single cell `i` -/
theorem fold_cell (i : Nat) (c : Nat → Bool) (k : Nat → Int → Int) (n : Nat) (l : List Int) (hi : i < l.length) :
    (List.range n).foldl (fun rop cm => if c cm then rop.set i (k cm (rop.getD i 0)) else rop) l
      = l.set i ((List.range n).foldl (fun acc cm => if c cm then k cm acc else acc) (l.getD i 0)) := by
  induction n with
  | zero => rw [List.getD_eq_getElem _ _ hi]; simp
  | succ n ih =>
    rw [List.range_succ, List.foldl_append, List.foldl_append, ih]
    simp only [List.foldl_cons, List.foldl_nil]
    by_cases hc : c n = true
    · simp only [hc, if_true, List.set_set]
      rw [List.getD_eq_getElem _ _ (by simpa using hi), List.getElem_set_self]
    · simp only [hc]; simp

/-! ### `static_log2` (meta.hpp) is `Nat.log2` on `1 ≤ N < 2^64` -/

theorem log2_impl_eq : ∀ fuel N, fuel ≤ 64 → 1 ≤ N → N < 2 ^ fuel → log2_impl fuel N = Nat.log2 N := by
  intro fuel
  induction fuel with
  | zero => intro N _ h1 h2; simp at h2; omega
  | succ fuel ih =>
    intro N hf h1 h2
    unfold log2_impl
    by_cases hN : N = 1
    · subst hN; simp [Nat.log2_def]
    · simp only [hN, if_false]
      have h2' : N / 2 < 2 ^ fuel := by rw [Nat.pow_succ] at h2; omega
      have hpow : 2 ^ fuel ≤ 2 ^ 63 := Nat.pow_le_pow_right (by decide) (by omega)
      have hd : CSem.divU 64 N 2 = N / 2 := by
        unfold CSem.divU; apply Nat.mod_eq_of_lt; omega
      rw [hd, ih (N / 2) (by omega) (by omega) h2']
      have hl : Nat.log2 (N / 2) < 64 := by
        rw [Nat.log2_lt (by omega)]; omega
      have hN2 : Nat.log2 N = Nat.log2 (N / 2) + 1 := by
        rw [Nat.log2_def N]; simp [show 2 ≤ N by omega]
      unfold CSem.addU
      rw [hN2, Nat.mod_eq_of_lt (by omega)]; omega

/-- `nfl::static_log2<N>::value`, as translated, is the model's `staticLog2` -/
theorem static_log2_eq (N : Nat) (h1 : 1 ≤ N) (h2 : N < 2 ^ 64) : static_log2 N = staticLog2 N :=
  log2_impl_eq 64 N (Nat.le_refl _) h1 h2

/-! ### GmpSem on casts of naturals -/

theorem sizeinbase2_cast (n : Nat) : GmpSem.sizeinbase2 (n : Int) = bitsNat n := by
  unfold GmpSem.sizeinbase2 bitsNat
  simp [Int.natCast_eq_zero]

theorem tdiv_cast (a b : Nat) : Int.tdiv (a : Int) (b : Int) = ((a / b : Nat) : Int) := rfl

/-- the model's constants as a generated state record -/
def toGen (g : GmpConsts) : GmpState :=
  { moduli_product := (g.Q : Int), modulus_shoup := (g.mu : Int), bits_in_moduli_product := g.bitsQ,
    bits_in_modulus_shoup := g.bitsMu, shift_modulus_shoup := g.s, lifting_integers := g.L.map Int.ofNat }

/-! ### the constructor -/

/-- the generated constructor with the conversion `value_type → unsigned long` of `get_modulus(cm)` abstracted -/
def ctorNF (cP : Nat → Nat) (inv : Nat → Nat → Nat) (kModulusRepresentationBitsize nmoduli : Nat) (P : List Nat) : GmpState :=
  let lifting_integers : List Int := List.replicate nmoduli 0
  let moduli_product := GmpSem.init_set_ui (CSem.castSU 64 1)
  let moduli_product := (List.range nmoduli).foldl (fun moduli_product cm =>
        let moduli_product := GmpSem.mul_ui moduli_product (cP (P.getD cm 0))
        moduli_product) moduli_product
  let bits_in_moduli_product := GmpSem.sizeinbase2 moduli_product
  let shift_modulus_shoup := CSem.addU 64 (CSem.addU 64 (CSem.addU 64 bits_in_moduli_product (CSem.castU 64 kModulusRepresentationBitsize)) (static_log2 nmoduli)) (CSem.castSU 64 1)
  let modulus_shoup := GmpSem.init2 shift_modulus_shoup
  let modulus_shoup := GmpSem.ui_pow_ui (CSem.castSU 64 2) shift_modulus_shoup
  let modulus_shoup := GmpSem.tdiv_q modulus_shoup moduli_product
  let bits_in_modulus_shoup := GmpSem.sizeinbase2 modulus_shoup
  let quotient := GmpSem.init
  let current_modulus := GmpSem.init
  let st := (List.range nmoduli).foldl (fun st cm =>
        let lifting_integers := st.1
        let quotient := st.2.1
        let current_modulus := st.2.2
        let current_modulus := GmpSem.set_ui (cP (P.getD cm 0))
        let quotient := GmpSem.divexact moduli_product current_modulus
        let lifting_integers := lifting_integers.set cm (GmpSem.init2 bits_in_moduli_product)
        let lifting_integers := lifting_integers.set cm (GmpSem.invert inv quotient current_modulus)
        let lifting_integers := lifting_integers.set cm (GmpSem.mul (lifting_integers.getD cm 0) quotient)
        (lifting_integers, quotient, current_modulus)) (lifting_integers, quotient, current_modulus)
  let lifting_integers := st.1
  let quotient := st.2.1
  let current_modulus := st.2.2
  { moduli_product := moduli_product, modulus_shoup := modulus_shoup, bits_in_moduli_product := bits_in_moduli_product, bits_in_modulus_shoup := bits_in_modulus_shoup, shift_modulus_shoup := shift_modulus_shoup, lifting_integers := lifting_integers }

theorem gmp_ctor_u16_nf : gmp_ctor_u16 = ctorNF (CSem.castU 64) := rfl
theorem gmp_ctor_u32_nf : gmp_ctor_u32 = ctorNF (CSem.castU 64) := rfl
theorem gmp_ctor_u64_nf : gmp_ctor_u64 = ctorNF id := rfl

theorem prod_fold (cP : Nat → Nat) (ps : List Nat) (hc : ∀ p ∈ ps, cP p = p) :
    (List.range ps.length).foldl (fun acc cm => GmpSem.mul_ui acc (cP (ps.getD cm 0))) (GmpSem.init_set_ui (CSem.castSU 64 1))
      = ((prodL ps : Nat) : Int) := by
  rw [foldl_range_getD ps 0 (fun acc p => GmpSem.mul_ui acc (cP p))]
  have h1 : GmpSem.init_set_ui (CSem.castSU 64 1) = ((1 : Nat) : Int) := by decide
  rw [h1]; unfold prodL
  generalize (1 : Nat) = a
  induction ps generalizing a with
  | nil => rfl
  | cons p t ih =>
    simp only [List.foldl_cons]
    rw [hc p (by simp)]
    have : GmpSem.mul_ui (a : Int) p = ((a * p : Nat) : Int) := by unfold GmpSem.mul_ui; push_cast; rfl
    rw [this]
    exact ih (fun q hq => hc q (by simp [hq])) _

/-- hypotheses under which no `size_t` expression of the constructor wraps: the shift fits 64 bits
(and `1 ≤ nmoduli`: `static_log2<0>` does not exist) -/
structure CtorFits (w : Nat) (ps : List Nat) : Prop where
  nonempty : 1 ≤ ps.length
  len : ps.length < 2 ^ 64
  shift : bitsNat (prodL ps) + w + Nat.log2 ps.length + 1 < 2 ^ 64

theorem CtorFits.len_lt {w : Nat} {ps : List Nat} (h : CtorFits w ps) : ps.length < 2 ^ 64 := h.len

theorem ctorNF_eq (cP : Nat → Nat) (inv : Nat → Nat → Nat) (w : Nat) (ps : List Nat) (hc : ∀ p ∈ ps, cP p = p)
    (hf : CtorFits w ps) : ctorNF cP inv w ps.length ps = toGen (gmpInitWith inv w ps) := by
  have hQ := prod_fold cP ps hc
  have hlog := static_log2_eq ps.length hf.nonempty hf.len_lt
  have hs : CSem.addU 64 (CSem.addU 64 (CSem.addU 64 (bitsNat (prodL ps)) (CSem.castU 64 w)) (static_log2 ps.length)) (CSem.castSU 64 1)
      = bitsNat (prodL ps) + w + staticLog2 ps.length + 1 := by
    have h1 : CSem.castSU 64 1 = 1 := by decide
    have := hf.shift
    rw [hlog, h1]; unfold CSem.addU CSem.castU staticLog2; omega
  have h2 : ∀ e, GmpSem.ui_pow_ui (CSem.castSU 64 2) e = ((2 ^ e : Nat) : Int) := by
    intro e; have : CSem.castSU 64 2 = 2 := by decide
    rw [this]; rfl
  unfold ctorNF toGen gmpInitWith
  simp only [hQ, sizeinbase2_cast, hs, h2, GmpSem.tdiv_q, tdiv_cast, GmpSem.init2, GmpSem.init]
  simp only [GmpState.mk.injEq, true_and]
  refine (fold_set_range_pair
    (fun cm => ((inv (prodL ps / ps.getD cm 0) (ps.getD cm 0) * (prodL ps / ps.getD cm 0) : Nat) : Int)) _ ps.length ?_ _
    (by simp)).trans ?_
  · intro st i hi hil
    simp only [List.set_set]
    congr 1
    rw [List.getD_eq_getElem _ _ (by simpa using hil), List.getElem_set_self]
    rw [hc _ (by rw [List.getD_eq_getElem _ _ hi]; exact List.getElem_mem hi)]
    unfold GmpSem.mul GmpSem.invert GmpSem.divexact GmpSem.set_ui
    rw [tdiv_cast, Int.toNat_natCast, Int.toNat_natCast, Nat.cast_mul]
  · apply List.ext_getElem
    · simp
    · intro i h1 h2
      simp only [List.length_map, List.length_range] at h1
      simp only [List.getElem_map, List.getElem_range, List.getD_eq_getElem _ _ h1]
      rfl

/-! ### `poly2mpz` -/

/-- the generated `poly2mpz` with the width-dependent pieces abstracted: `nz` = the test `op(cm,i) != 0`,
`cR` = the conversion of `op(cm,i)` to `unsigned long` -/
def poly2mpzNF (nz : Nat → Bool) (cR : Nat → Nat) (nmoduli degree : Nat) (g : GmpState) (rop : List Int) (op : List Nat) : List Int :=
  let tmp := GmpSem.init2 (CSem.addU 64 (CSem.subU 64 g.shift_modulus_shoup (CSem.castSU 64 1)) g.bits_in_modulus_shoup)
  let st := (List.range degree).foldl (fun st i =>
        let rop := st.1
        let tmp := st.2
        let rop := rop.set i (GmpSem.set_ui (CSem.castSU 64 0))
        let rop := (List.range nmoduli).foldl (fun rop cm =>
              let rop :=
                if nz (op.getD (CSem.addU 64 (CSem.mulU 64 cm degree) i) 0) then
                  let rop := rop.set i (GmpSem.addmul_ui (rop.getD i 0) (g.lifting_integers.getD cm 0) (cR (op.getD (CSem.addU 64 (CSem.mulU 64 cm degree) i) 0)))
                  rop
                else
                  rop
              rop) rop
        let tmp := GmpSem.mul (rop.getD i 0) g.modulus_shoup
        let tmp := GmpSem.tdiv_q_2exp tmp g.shift_modulus_shoup
        let rop := rop.set i (GmpSem.submul (rop.getD i 0) tmp g.moduli_product)
        let rop :=
          if GmpSem.cmp_ge (rop.getD i 0) g.moduli_product then
            let rop := rop.set i (GmpSem.sub (rop.getD i 0) g.moduli_product)
            rop
          else
            rop
        (rop, tmp)) (rop, tmp)
  let rop := st.1
  let tmp := st.2
  rop

theorem poly2mpz_u16_nf : poly2mpz_u16 = poly2mpzNF (fun x => CSem.neS32 (CSem.castUS 16 x) 0) (CSem.castU 64) := rfl
theorem poly2mpz_u32_nf : poly2mpz_u32 = poly2mpzNF (fun x => CSem.neU x (CSem.castSU 32 0)) (CSem.castU 64) := rfl
theorem poly2mpz_u64_nf : poly2mpz_u64 = poly2mpzNF (fun x => CSem.neU x (CSem.castSU 64 0)) id := rfl

/-- the accumulation loop is the model's `rawSumAux` -/
theorem rawSum_fold (nz : Nat → Bool) (cR : Nat → Nat) : ∀ (L : List Nat) (r : Nat → Nat) (a : Nat),
    (∀ cm, nz (r cm) = decide (r cm ≠ 0)) → (∀ cm, cR (r cm) = r cm) →
    (List.range L.length).foldl (fun acc cm =>
        if nz (r cm) then GmpSem.addmul_ui acc ((L.map Int.ofNat).getD cm 0) (cR (r cm)) else acc) (a : Int)
      = ((rawSumAux L ((List.range L.length).map r) a : Nat) : Int) := by
  intro L
  induction L with
  | nil => intro r a _ _; rfl
  | cons l L ih =>
    intro r a hnz hcR
    rw [List.length_cons, List.range_succ_eq_map, List.foldl_cons, List.foldl_map]
    simp only [List.map_cons, List.map_map]
    have h0 : (if nz (r 0) = true then GmpSem.addmul_ui (a : Int) ((Int.ofNat l :: L.map Int.ofNat).getD 0 0) (cR (r 0)) else (a : Int))
        = ((if r 0 ≠ 0 then a + l * r 0 else a : Nat) : Int) := by
      rw [hnz 0, hcR 0]
      by_cases h : r 0 = 0
      · simp [h]
      · simp only [ne_eq, h, not_false_eq_true, decide_true, if_true]
        simp [GmpSem.addmul_ui]
    rw [h0]
    have := ih (r ∘ Nat.succ) (if r 0 ≠ 0 then a + l * r 0 else a) (fun cm => hnz _) (fun cm => hcR _)
    simp only [Function.comp] at this
    simp only [List.getD_cons_succ, rawSumAux]
    exact this

theorem idx_eq {m n cm i : Nat} (hcm : cm < m) (hi : i < n) (hmn : m * n < 2 ^ 64) :
    CSem.addU 64 (CSem.mulU 64 cm n) i = cm * n + i := by
  have h1 : (cm + 1) * n ≤ m * n := Nat.mul_le_mul_right n hcm
  have h2 : cm * n + i < m * n := by rw [Nat.succ_mul] at h1; omega
  unfold CSem.addU CSem.mulU
  rw [Nat.mod_eq_of_lt (by omega : cm * n < 2 ^ 64), Nat.mod_eq_of_lt (by omega)]

theorem getD_set_self (l : List Int) (i : Nat) (a : Int) (hi : i < l.length) : (l.set i a).getD i 0 = a := by
  rw [List.getD_eq_getElem _ _ (by simpa using hi), List.getElem_set_self]

theorem poly2mpzNF_eq (nz : Nat → Bool) (cR : Nat → Nat) (gc : GmpConsts) (n : Nat) (rop : List Int) (data : List Nat)
    (hnz : ∀ k, nz (data.getD k 0) = decide (data.getD k 0 ≠ 0)) (hcR : ∀ k, cR (data.getD k 0) = data.getD k 0)
    (hL : gc.L.length = gc.ps.length) (hrop : rop.length = n) (hidx : gc.ps.length * n < 2 ^ 64) :
    poly2mpzNF nz cR gc.ps.length n (toGen gc) rop data = Crt.poly2mpz gc n data := by
  unfold poly2mpzNF Crt.poly2mpz toGen
  simp only []
  refine fold_set_range_pair (fun i => poly2mpzCoeff gc (residuesAt n gc.ps.length data i)) _ n ?_ _ hrop
  intro st i hi hil
  have hl1 : i < (st.1.set i (GmpSem.set_ui (CSem.castSU 64 0))).length := by simpa using hil
  rw [fold_cell i (fun cm => nz (data.getD (CSem.addU 64 (CSem.mulU 64 cm n) i) 0))
    (fun cm acc => GmpSem.addmul_ui acc ((gc.L.map Int.ofNat).getD cm 0) (cR (data.getD (CSem.addU 64 (CSem.mulU 64 cm n) i) 0)))
    gc.ps.length _ hl1]
  rw [getD_set_self _ _ _ hil]
  have h0 : GmpSem.set_ui (CSem.castSU 64 0) = ((0 : Nat) : Int) := by decide
  rw [h0, ← hL, rawSum_fold nz cR gc.L (fun cm => data.getD (CSem.addU 64 (CSem.mulU 64 cm n) i) 0) 0
    (fun cm => hnz _) (fun cm => hcR _)]
  have hres : (List.range gc.L.length).map (fun cm => data.getD (CSem.addU 64 (CSem.mulU 64 cm n) i) 0)
      = residuesAt n gc.ps.length data i := by
    unfold residuesAt; rw [hL]
    apply List.map_congr_left
    intro cm hcm
    rw [idx_eq (List.mem_range.1 hcm) hi hidx]
  rw [hres]
  simp only [List.set_set]
  have hl2 : ∀ a, i < (st.1.set i a).length := by intro a; simpa using hil
  simp only [getD_set_self _ _ _ hil]
  simp only [poly2mpzCoeff, shoupReduce, rawSum, GmpSem.cmp_ge, GmpSem.submul, GmpSem.tdiv_q_2exp, GmpSem.mul, GmpSem.sub,
    decide_eq_true_eq]
  have key : ∀ x : Nat, ((x : Int) * (gc.mu : Int)).tdiv ((2 ^ gc.s : Nat) : Int) = (((x * gc.mu) >>> gc.s : Nat) : Int) := by
    intro x; rw [← Nat.cast_mul, tdiv_cast, Nat.shiftRight_eq_div_pow]
  simp only [key, hL, decide_eq_true_eq, ge_iff_le]
  split <;> rfl

end Nfl.CrtAstEq
