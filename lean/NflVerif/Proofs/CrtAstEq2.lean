/-
Equality of the GENERATED `mpz2poly_uW` (`Generated/CrtAst.lean`, translated by `tools/gen_crt_ast.py` from clang's AST of
`GMP::mpz2poly` in gmp.hpp) with the hand-written model `Crt.mpz2poly`, for ALL moduli lists, integer vectors and initial
contents of `rop`.

Method as in `CrtAstEq.lean`: `mpz2polyNF` repeats the generated text with the two width-dependent conversions abstracted
(`cW` = `unsigned long → value_type` of the stored remainder, `cP` = `value_type → unsigned long` of `get_modulus(cm)`); the three
generated definitions are instances BY `rfl`; the normal form is proved equal to the model once.

Hypotheses (each is needed):
* `rop.length = nmoduli * degree` — `rop` is the `_data` array of the poly; a shorter list would drop stores (`List.set` out of range);
* `nmoduli * degree < 2^64` — the index `cm*degree + i` is `size_t` arithmetic (`idx_wrap_example`: with 2^63 · 2 words it wraps);
* 16/32 bit only: every modulus satisfies `0 < p ≤ 2^w` (the remainder `< p` is converted to `value_type`: `trunc_example`)
  and `p < 2^64` (conversion of `get_modulus(cm)` to `unsigned long`; implied by `p ≤ 2^w`).  For `p = 0` GMP raises a division by
  zero; `GmpSem.fdiv_ui z 0 = |z|`-ish `toNat z` would be truncated by the 16/32-bit store but not by the model.
  64 bit: no hypothesis on the moduli at all (both sides are `GmpSem.fdiv_ui = Crt.fdivUi`).
-/
import NflVerif.Proofs.CrtAstEq

namespace Nfl.CrtAstEq
set_option linter.unusedVariables false
open Nfl Nfl.Crt Nfl.Gen

/-! ### list lemmas: a loop nest that writes the cells `off + i` one after the other -/

theorem foldl_congr_mem {α β : Type} (f g : β → α → β) (l : List α) (h : ∀ b, ∀ a ∈ l, f b a = g b a) (b : β) :
    l.foldl f b = l.foldl g b := by
  induction l generalizing b with
  | nil => rfl
  | cons a t ih =>
    simp only [List.foldl_cons]
    rw [h b a (by simp)]
    exact ih (fun b x hx => h b x (by simp [hx])) _

/-- `for i < n: a[off+i] = f i`: the `n` cells from `off` are replaced, everything else is kept -/
theorem fold_set_offset {α : Type} (f : Nat → α) (off : Nat) (l : List α) :
    ∀ n, off + n ≤ l.length →
      (List.range n).foldl (fun l i => l.set (off + i) (f i)) l = l.take off ++ (List.range n).map f ++ l.drop (off + n) := by
  intro n
  induction n with
  | zero => intro _; simp
  | succ k ih =>
    intro h
    rw [List.range_succ, List.foldl_append, List.foldl_cons, List.foldl_nil, ih (by omega)]
    have h1 : (l.take off ++ (List.range k).map f).length = off + k := by
      simp only [List.length_append, List.length_take, List.length_map, List.length_range]; omega
    rw [List.set_append_right _ _ (by omega), h1, Nat.sub_self]
    rw [List.drop_eq_getElem_cons (by omega : off + k < l.length)]
    simp only [List.set_cons_zero, List.map_append, List.map_cons, List.map_nil, List.append_assoc, List.cons_append,
      List.nil_append]
    rfl

/-- the loop nest `for cm < m: for i < n: a[cm*n+i] = f cm i` on an array of `m*n` cells -/
theorem fold_set_nest {α : Type} (f : Nat → Nat → α) (n : Nat) (l : List α) :
    ∀ m, m * n ≤ l.length →
      (List.range m).foldl (fun l cm => (List.range n).foldl (fun l i => l.set (cm * n + i) (f cm i)) l) l
        = (List.range m).flatMap (fun cm => (List.range n).map (f cm)) ++ l.drop (m * n) := by
  intro m
  induction m with
  | zero => intro _; simp
  | succ k ih =>
    intro h
    have hk : k * n + n ≤ l.length := by rw [Nat.succ_mul] at h; exact h
    rw [List.range_succ, List.foldl_append, List.foldl_cons, List.foldl_nil, ih (by omega)]
    have hA : ((List.range k).flatMap (fun cm => (List.range n).map (f cm))).length = k * n := by
      simp
    rw [fold_set_offset (f k) (k * n) _ n (by simp only [List.length_append, hA, List.length_drop]; omega)]
    rw [List.take_left' hA, List.drop_append, hA]
    have : k * n + n - k * n = n := by omega
    rw [List.drop_eq_nil_of_le (by omega : ((List.range k).flatMap (fun cm => (List.range n).map (f cm))).length ≤ k * n + n),
      this, List.drop_drop, List.nil_append, List.flatMap_append, Nat.succ_mul]
    simp [Nat.add_comm]

theorem flatMap_range_getD {α β : Type} (l : List α) (d : α) (h : α → List β) :
    (List.range l.length).flatMap (fun i => h (l.getD i d)) = l.flatMap h := by
  conv_rhs => rw [← map_range_getD l d]
  rw [List.flatMap_map]

theorem map_range_getD' {α β : Type} (l : List α) (d : α) (h : α → β) :
    (List.range l.length).map (fun i => h (l.getD i d)) = l.map h := by
  conv_rhs => rw [← map_range_getD l d]
  rw [List.map_map]; rfl

/-! ### `mpz2poly` -/

/-- the generated `mpz2poly` with the width-dependent conversions abstracted -/
def mpz2polyNF (cW cP : Nat → Nat) (nmoduli degree : Nat) (P : List Nat) (rop : List Nat) (poly_mpz : List Int) : List Nat :=
  let rop := (List.range nmoduli).foldl (fun rop cm =>
        let rop := (List.range degree).foldl (fun rop i =>
              let rop := rop.set (CSem.addU 64 (CSem.mulU 64 cm degree) i) (cW (GmpSem.fdiv_ui (poly_mpz.getD i 0) (cP (P.getD cm 0))))
              rop) rop
        rop) rop
  rop

theorem mpz2poly_u16_nf : mpz2poly_u16 = mpz2polyNF (CSem.castU 16) (CSem.castU 64) := rfl
theorem mpz2poly_u32_nf : mpz2poly_u32 = mpz2polyNF (CSem.castU 32) (CSem.castU 64) := rfl
theorem mpz2poly_u64_nf : mpz2poly_u64 = mpz2polyNF id id := rfl

theorem mpz2polyNF_eq (cW cP : Nat → Nat) (ps : List Nat) (zs : List Int) (rop : List Nat)
    (hc : ∀ p ∈ ps, ∀ z : Int, cW (GmpSem.fdiv_ui z (cP p)) = fdivUi z p)
    (hrop : rop.length = ps.length * zs.length) (hidx : ps.length * zs.length < 2 ^ 64) :
    mpz2polyNF cW cP ps.length zs.length ps rop zs = Crt.mpz2poly ps zs := by
  unfold mpz2polyNF
  simp only []
  have hstep : (List.range ps.length).foldl (fun rop cm => (List.range zs.length).foldl (fun rop i =>
        rop.set (CSem.addU 64 (CSem.mulU 64 cm zs.length) i) (cW (GmpSem.fdiv_ui (zs.getD i 0) (cP (ps.getD cm 0))))) rop) rop
      = (List.range ps.length).foldl (fun rop cm => (List.range zs.length).foldl (fun rop i =>
        rop.set (cm * zs.length + i) (fdivUi (zs.getD i 0) (ps.getD cm 0))) rop) rop := by
    apply foldl_congr_mem
    intro b cm hcm
    apply foldl_congr_mem
    intro b' i hi
    have hcm' := List.mem_range.1 hcm
    rw [idx_eq hcm' (List.mem_range.1 hi) hidx,
      hc _ (by rw [List.getD_eq_getElem _ _ hcm']; exact List.getElem_mem hcm')]
  rw [hstep, fold_set_nest (fun cm i => fdivUi (zs.getD i 0) (ps.getD cm 0)) zs.length rop ps.length (by omega)]
  rw [List.drop_eq_nil_of_le (by omega), List.append_nil]
  unfold Crt.mpz2poly
  rw [← flatMap_range_getD ps 0]
  congr 1
  funext cm
  exact map_range_getD' zs 0 (fun z => fdivUi z (ps.getD cm 0))

/-- the conversions of the 16/32-bit instantiations are the identity on the values they meet when `0 < p ≤ 2^w` (`w < 64`) -/
theorem conv_ok (w : Nat) (hw : w < 64) (p : Nat) (hp : 0 < p) (hpw : p ≤ 2 ^ w) (z : Int) :
    CSem.castU w (GmpSem.fdiv_ui z (CSem.castU 64 p)) = fdivUi z p := by
  have h64 : 2 ^ w ≤ 2 ^ 63 := Nat.pow_le_pow_right (by decide) (by omega)
  have hp64 : CSem.castU 64 p = p := Nat.mod_eq_of_lt (by omega)
  rw [hp64]
  unfold CSem.castU GmpSem.fdiv_ui
  apply Nat.mod_eq_of_lt
  have := fdivUi_lt z p hp
  unfold fdivUi at this
  omega

end Nfl.CrtAstEq
