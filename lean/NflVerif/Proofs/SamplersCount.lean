/-
Counting lemmas for C12 (preimage counts over the WHOLE input space) and the tape-footprint lemmas.
-/
import NflVerif.Proofs.Samplers
import Mathlib.Algebra.BigOperators.Intervals
import Mathlib.Data.Finset.Card
import Mathlib.Order.Interval.Finset.Nat
namespace Nfl.Samplers
open Finset

/-- `#{x < R·m | P (x mod m)} = R · #{v < m | P v}` -/
theorem card_mod_fiber (m : Nat) (P : Nat → Prop) [DecidablePred P] (R : Nat) :
    #{x ∈ range (R * m) | P (x % m)} = R * #{v ∈ range m | P v} := by
  induction R with
  | zero => simp
  | succ R ih =>
    rw [Nat.succ_mul, Finset.card_filter, Finset.sum_range_add, ← Finset.card_filter, ih, Nat.succ_mul,
      Finset.card_filter (fun v => P v)]
    congr 1
    apply Finset.sum_congr rfl
    intro x hx
    have hx' := Finset.mem_range.1 hx
    have : (R * m + x) % m = x := by
      rw [Nat.add_comm, Nat.add_mul_mod_self_right, Nat.mod_eq_of_lt hx']
    rw [this]

/-- one conditional subtraction after masking to the bit length of `p`: every residue has 1 or 2 preimages -/
theorem red1_preimages {b p : Nat} (hb : 2 ^ (b - 1) ≤ p) (hp : p < 2 ^ b) (hb1 : 1 ≤ b) :
    ∀ r, r < p → #{v ∈ range (2 ^ b) | red1 p v = r} = 1 ∨ #{v ∈ range (2 ^ b) | red1 p v = r} = 2 := by
  intro r hr
  have h2 : 2 ^ b = 2 * 2 ^ (b - 1) := by
    have : b = (b - 1) + 1 := by omega
    rw [this, Nat.pow_succ]; simp; omega
  have hp0 : 0 < p := by have := Nat.two_pow_pos (b - 1); omega
  by_cases hrp : r + p < 2 ^ b
  · right
    have : ({v ∈ Finset.range (2 ^ b) | red1 p v = r} : Finset Nat) = {r, r + p} := by
      apply Finset.ext; intro v
      simp only [Finset.mem_filter, Finset.mem_range, Finset.mem_insert, Finset.mem_singleton]; simp only [red1]
      constructor
      · rintro ⟨hv, hred⟩; split at hred <;> omega
      · rintro (rfl | rfl)
        · exact ⟨by omega, by rw [if_neg (by omega)]⟩
        · exact ⟨hrp, by rw [if_pos (by omega)]; omega⟩
    rw [this, Finset.card_pair (by omega)]
  · left
    have : ({v ∈ Finset.range (2 ^ b) | red1 p v = r} : Finset Nat) = {r} := by
      apply Finset.ext; intro v
      simp only [Finset.mem_filter, Finset.mem_range, Finset.mem_singleton]; simp only [red1]
      constructor
      · rintro ⟨hv, hred⟩; split at hred <;> omega
      · rintro rfl
        exact ⟨by omega, by rw [if_neg (by omega)]⟩
    rw [this, Finset.card_singleton]

theorem red1_lt {p v : Nat} (hp : 0 < p) (hv : v < 2 * p) : red1 p v < p := by
  unfold red1; split <;> omega

/-- centring of `[0, 2B-1)` around 0 -/
def centre (B t : Nat) : Int := if t ≥ B then (t : Int) - (2 * B - 1 : Nat) else (t : Int)

theorem bndSigned_eq_centre (w B x : Nat) : bndSigned w B x = centre B (bndTmp w B x) := rfl

theorem bndTmp_eq {w B : Nat} (hB : 1 ≤ B) (hw : 2 * B ≤ 2 ^ w) (hw64 : w ≤ 64) (x : Nat) :
    bndTmp w B x = red1 (2 * B - 1) (x % 2 ^ bitLen (2 * B - 1)) := by
  obtain ⟨hm, _, _⟩ := bndMask_eq hB hw hw64
  have h64 : 2 * B ≤ 2 ^ 64 := Nat.le_trans hw (Nat.pow_le_pow_right (by decide) hw64)
  unfold bndTmp red1
  simp only [twoBm1_eq hB h64, hm, Nat.and_two_pow_sub_one_eq_mod]

theorem uniCoef_eq {w p : Nat} (hp0 : 0 < p) (hp : p < 2 ^ 63) (hw : p < 2 ^ w) (x : Nat) :
    uniCoef w p x = red1 p (x % 2 ^ (Nat.log2 p + 1)) := by
  unfold uniCoef
  rw [uniMask_eq hp0 hp hw, Nat.and_two_pow_sub_one_eq_mod]

/-- a word depends only on its own bytes -/
theorem wordAt_congr {wb j : Nat} {r r' : List Nat}
    (h : ∀ t, t < wb → r.getD (j * wb + t) 0 = r'.getD (j * wb + t) 0) : wordAt wb r j = wordAt wb r' j := by
  unfold wordAt
  congr 1
  apply List.map_congr_left
  intro t ht
  exact h t (List.mem_range.1 ht)

end Nfl.Samplers
