/-
C14 — source-level tie: the step functions generated from clang's AST of include/nfl/poly_p.hpp
(`Generated/CowAst.lean`, vocabulary `Model/SharedPtrSem.lean`) EQUAL the hand model `Model/Cow.lean`.

`stepG` is the hand-written driver that plays what is outside the member bodies: it finds the variables of the
statement in the handle list (a non-object cannot be used, a constructor needs a non-object), evaluates the operands of
an expression through the generated `poly_obj() const`, calls the generated member on the heap and the `_p` values, and
stores the returned `_p` values (and heap) back.  Everything the members themselves do — which shared_ptr operation, in
which order, on which pointer, the `unique()` test, the `this != &o` test, the pointer short-cut of `==` — comes from
the generated text.

`stepG_eq : stepG s op = step s op` holds for EVERY state (no invariant needed: both sides are undefined on the same
states, e.g. a handle pointing to a released cell) and every statement; `observeG_eq` likewise for the returned values.
-/
import NflVerif.Generated.CowAst
import NflVerif.Proofs.CowCor

set_option linter.unusedSimpArgs false
namespace Nfl.CowAst
open Nfl.Cow
open Nfl.Sp (Ptr Heap)
open Nfl.Gen.Cow

/-- the heap part of a model state -/
def heapOf (s : State) : Heap := ⟨s.heap, s.next, s.allocLog, s.freeLog⟩

/-- the state with its heap part replaced -/
def withHeap (s : State) (h : Heap) : State :=
  { hs := s.hs, heap := h.cells, next := h.next, allocLog := h.allocLog, freeLog := h.freeLog }

/-- the `_p` member of a variable that holds an object -/
def ptrOf : Handle → Option Ptr
  | .dead => none
  | .null => some .null
  | .at p => some (.at p)

def hOf : Ptr → Handle
  | .null => .null
  | .at p => .at p

/-- the `_p` of variable `i`, if it holds an object -/
def ptrAt (s : State) (i : Nat) : Option Ptr := (s.hs[i]?).bind ptrOf

/-- store heap and `_p` of variable `d` back -/
def put (s : State) (h : Heap) (d : Nat) (p : Ptr) : State := setH (withHeap s h) d (hOf p)

/-- value seen through variable `i`, read with the generated `poly_obj() const` -/
def readValG (s : State) (i : Nat) : Option Val :=
  (ptrAt s i).bind fun p => (poly_obj_const (heapOf s) p).bind fun (h, _, q) => Sp.cellVal h q

/-- pairs for the abstract expression objects of `==` / `!=` -/
def pairOf (a b : Val) : Val × Val := (a, b)

def stepG (s : State) : Op → Option State
  | .mk d srcs g =>                      -- `poly_p d(args…)`
    match s.hs[d]? with
    | some .dead =>
      (srcs.mapM (readValG s)).bind fun vs =>
        (ctor_T (g vs) (heapOf s) ()).map fun (h, p) => put s h d p
    | _ => none
  | .copyCtor d src =>
    match s.hs[d]? with
    | some .dead => (ptrAt s src).bind fun o =>
        (ctor_cref (heapOf s) o).map fun (h, p, o') => put (put s h src o') h d p
    | _ => none
  | .moveCtor d src =>
    match s.hs[d]? with
    | some .dead => (ptrAt s src).bind fun o =>
        (ctor_rref (heapOf s) o).map fun (h, p, o') => put (put s h src o') h d p
    | _ => none
  | .copyAssign d src =>
    (ptrAt s d).bind fun t => (ptrAt s src).bind fun o =>
      (assign_cref (heapOf s) t o (decide (d = src))).map fun (h, t', o') => put (put s h src o') h d t'
  | .moveAssign d src =>
    (ptrAt s d).bind fun t => (ptrAt s src).bind fun o =>
      (assign_rref (heapOf s) t o (decide (d = src))).map fun (h, t', o') => put (put s h src o') h d t'
  | .assign d srcs g =>
    (srcs.mapM (readValG s)).bind fun vs => (ptrAt s d).bind fun t =>
      (assign_expr (fun _ => g vs) (heapOf s) t ()).map fun (h, t') => put s h d t'
  | .writeElem d i x =>                  -- `d(cm,i) = x`: the generated non-const `operator()`, then the store
    (ptrAt s d).bind fun t =>
      (call (fun _ j => j) (heapOf s) t 0 i).bind fun (h, t', r) => (Sp.storeRef h r x).map fun h' => put s h' d t'
  | .touch d =>
    (ptrAt s d).bind fun t => (poly_obj (heapOf s) t).map fun (h, t', _) => put s h d t'
  | .xform d f =>
    (ptrAt s d).bind fun t => (ntt_pow_phi f (heapOf s) t).map fun (h, t') => put s h d t'
  | .readElem src i =>
    (ptrAt s src).bind fun t =>
      (call_const (fun _ j => j) (heapOf s) t 0 i).bind fun (h, t', r) => (Sp.loadRef h r).map fun _ => put s h src t'
  | .compare a b neg =>
    (ptrAt s a).bind fun t => (ptrAt s b).bind fun o =>
      (if neg then ne_cref pairOf (fun p => p.1 != p.2) (heapOf s) t o
       else eq_cref pairOf (fun p => p.1 == p.2) (heapOf s) t o).map fun (h, t', o', _) => put (put s h b o') h a t'
  | .compareVal a v neg =>
    (ptrAt s a).bind fun t =>
      (if neg then ne_poly pairOf (fun p => p.1 != p.2) (heapOf s) t (.ext v)
       else eq_poly pairOf (fun p => p.1 == p.2) (heapOf s) t (.ext v)).map fun (h, t', _) => put s h a t'
  | .destroy d =>
    (ptrAt s d).bind fun t => (dtor (heapOf s) t).map fun h => setH (withHeap s h) d .dead

/-- what the statement returns, computed by the generated members -/
def observeG (s : State) : Op → Option Nat
  | .readElem src i =>
    (ptrAt s src).bind fun t => (call_const (fun _ j => j) (heapOf s) t 0 i).bind fun (h, _, r) => Sp.loadRef h r
  | .compare a b neg =>
    (ptrAt s a).bind fun t => (ptrAt s b).bind fun o =>
      (if neg then ne_cref pairOf (fun p => p.1 != p.2) (heapOf s) t o
       else eq_cref pairOf (fun p => p.1 == p.2) (heapOf s) t o).map fun (_, _, _, r) => b2n r
  | .compareVal a v neg =>
    (ptrAt s a).bind fun t =>
      (if neg then ne_poly pairOf (fun p => p.1 != p.2) (heapOf s) t (.ext v)
       else eq_poly pairOf (fun p => p.1 == p.2) (heapOf s) t (.ext v)).map fun (_, _, r) => b2n r
  | _ => some 0

def runG : List Op → State → Option State
  | [], s => some s
  | op :: ops, s => (stepG s op).bind (runG ops)

/-! ### bridge: the hand model's heap primitives are the shared_ptr contract on the heap part -/

@[simp] theorem withHeap_heapOf (s : State) : withHeap s (heapOf s) = s := rfl
@[simp] theorem heapOf_withHeap (s : State) (h : Heap) : heapOf (withHeap s h) = h := rfl
@[simp] theorem heapOf_setH (s : State) (i : Nat) (x : Handle) : heapOf (setH s i x) = heapOf s := rfl
@[simp] theorem withHeap_setH (s : State) (i : Nat) (x : Handle) (h : Heap) :
    withHeap (setH s i x) h = setH (withHeap s h) i x := rfl
@[simp] theorem withHeap_withHeap (s : State) (h h' : Heap) : withHeap (withHeap s h) h' = withHeap s h' := rfl
@[simp] theorem withHeap_hs (s : State) (h : Heap) : (withHeap s h).hs = s.hs := rfl
@[simp] theorem setH_hs (s : State) (i : Nat) (x : Handle) : (setH s i x).hs = s.hs.set i x := rfl

theorem upd_eq : @Cow.upd = @Sp.upd := rfl
@[simp] theorem heapOf_cells (s : State) : (heapOf s).cells = s.heap := rfl
@[simp] theorem destroy_null (h : Heap) : Sp.destroy h .null = some h := rfl

theorem decr_eq (s : State) (p : Nat) : decr s p = (Sp.destroy (heapOf s) (.at p)).map (withHeap s) := by
  unfold decr Sp.destroy heapOf
  cases hc : s.heap p with
  | none => simp [hc]
  | some c => by_cases h0 : c.rc = 0 <;> by_cases h1 : c.rc = 1 <;> simp [hc, h0, h1, withHeap, upd_eq]

theorem incr_eq (s : State) (p : Nat) : incr s p = (Sp.copy (heapOf s) (.at p)).map fun x => withHeap s x.1 := by
  unfold incr Sp.copy heapOf
  cases hc : s.heap p <;> simp [hc, withHeap, upd_eq]

theorem alloc_eq (s : State) (v : Val) :
    alloc s v = (withHeap s (Sp.allocShared (heapOf s) v).1, s.next) ∧ (Sp.allocShared (heapOf s) v).2 = .at s.next := by
  simp [alloc, Sp.allocShared, heapOf, withHeap, upd_eq]

theorem hOf_ptrOf {x : Handle} {p : Ptr} (h : ptrOf x = some p) : hOf p = x := by
  cases x <;> simp [ptrOf] at h <;> subst h <;> rfl

theorem ptrAt_some {s : State} {i : Nat} {p : Ptr} (h : ptrAt s i = some p) : s.hs[i]? = some (hOf p) := by
  unfold ptrAt at h
  cases hx : s.hs[i]? with
  | none => simp [hx] at h
  | some x => simp [hx] at h; rw [hOf_ptrOf h]

theorem put_self {s : State} {i : Nat} {p : Ptr} (h : ptrAt s i = some p) : put s (heapOf s) i p = s := by
  unfold put setH
  simp [set_eq_self (ptrAt_some h)]

/-! ### the members -/

theorem hs_of_ptrAt_at {s : State} {d p : Nat} (h : ptrAt s d = some (.at p)) : s.hs[d]? = some (.at p) := ptrAt_some h
theorem hs_of_ptrAt_null {s : State} {d : Nat} (h : ptrAt s d = some .null) : s.hs[d]? = some .null := ptrAt_some h

/-- generated `detach()` = the hand model's `detach` -/
theorem detach_eq {s : State} {d : Nat} {t : Ptr} (ht : ptrAt s d = some t) :
    Cow.detach s d = (Gen.Cow.detach (heapOf s) t).map fun x => put s x.1 d x.2 := by
  cases t with
  | null =>
    simp [Cow.detach, hs_of_ptrAt_null ht, Gen.Cow.detach, Sp.unique, Sp.useCount, Sp.deref]
  | «at» p =>
    have hd := hs_of_ptrAt_at ht
    cases hc : s.heap p with
    | none =>
      simp [Cow.detach, hd, hc, Gen.Cow.detach, Sp.unique, Sp.useCount, heapOf, Sp.deref, make_pointer_poly,
        Sp.readRef, Sp.cellVal]
    | some c =>
      by_cases h1 : c.rc = 1
      · have := put_self ht
        simp [Cow.detach, hd, hc, h1, Gen.Cow.detach, Sp.unique, Sp.useCount, heapOf] at this ⊢
        exact this.symm
      · have ha := alloc_eq s c.val
        simp only [Cow.detach, hd, hc, h1, ha.1, decr_eq, heapOf_setH, heapOf_withHeap, withHeap_setH, withHeap_withHeap,
          if_false]
        simp [Gen.Cow.detach, Sp.unique, Sp.useCount, hc, h1, Sp.deref, make_pointer_poly, Sp.readRef, Sp.cellVal,
          Sp.assignMove, Sp.move]
        generalize hh1 : Sp.allocShared (heapOf s) c.val = r at ha
        obtain ⟨h1', q⟩ := r
        simp only at ha
        rw [ha.2]
        cases Sp.destroy h1' (.at p) <;> simp [put, hOf]

/-- a successful `detach()` leaves a non-empty `_p` -/
theorem detach_at {h h' : Heap} {t t' : Ptr} (hd : Gen.Cow.detach h t = some (h', t')) : ∃ q, t' = .at q := by
  cases t with
  | null => simp [Gen.Cow.detach, Sp.unique, Sp.useCount, Sp.deref] at hd
  | «at» p =>
    by_cases hu : Sp.unique h (.at p)
    · simp [Gen.Cow.detach, hu] at hd; exact ⟨p, hd.2.symm⟩
    · simp only [Gen.Cow.detach, hu, Sp.deref, make_pointer_poly, Sp.readRef, Sp.assignMove, Sp.move] at hd
      cases hv : Sp.cellVal h p with
      | none => simp [hv] at hd
      | some v =>
        simp [hv] at hd
        generalize hr : Sp.allocShared h v = r at hd
        have hq : r.2 = .at h.next := by rw [← hr]; rfl
        obtain ⟨h1, q⟩ := r
        cases hdd : Sp.destroy h1 (.at p) with
        | none => simp [hdd] at hd
        | some h2 => simp [hdd] at hd; exact ⟨h.next, by rw [← hd.2]; exact hq⟩

/-- update of the value in cell `q` by a partial value-level function -/
def modF (h : Heap) (q : Nat) (F : Val → Option Val) : Option Heap :=
  match h.cells q with
  | some c => (F c.val).map fun v => { h with cells := Sp.upd h.cells q (some { c with val := v }) }
  | none => none

theorem modify_modF (h : Heap) (q : Nat) (f : Val → Val) : Sp.modify h q f = modF h q (fun v => some (f v)) := by
  unfold Sp.modify modF; cases h.cells q <;> simp

theorem storeRef_modF (h : Heap) (q i x : Nat) :
    Sp.storeRef h ⟨q, i⟩ x = modF h q (fun v => if i < v.length then some (v.set i x) else none) := by
  unfold Sp.storeRef modF
  cases h.cells q with
  | none => simp
  | some c => by_cases hi : i < c.val.length <;> simp [hi]

/-- `detach(); *_p` followed by an update of the pointee = the hand model's `detach` + `modifyVal` -/
theorem detach_modify_eq {s : State} {d : Nat} {t : Ptr} (ht : ptrAt s d = some t) (F : Val → Option Val) :
    (Cow.detach s d).bind (fun s1 => modifyVal s1 d F) =
    (poly_obj (heapOf s) t).bind fun x => (modF x.1 x.2.2 F).map fun h' => put s h' d x.2.1 := by
  rw [detach_eq ht]
  unfold poly_obj
  cases hdt : Gen.Cow.detach (heapOf s) t with
  | none => simp
  | some r =>
    obtain ⟨h, t'⟩ := r
    obtain ⟨q, rfl⟩ := detach_at hdt
    have hlt : d < s.hs.length := (List.getElem?_eq_some_iff.mp (ptrAt_some ht)).1
    simp [Sp.deref, modifyVal, put, hOf, hlt, modF, withHeap, upd_eq]
    cases hcq : h.cells q <;> simp [hcq, setH, Function.comp_def]

theorem readValG_eq (s : State) (i : Nat) : readValG s i = readVal s i := by
  unfold readValG readVal ptrAt
  cases hx : s.hs[i]? with
  | none => simp
  | some x => cases x <;> simp [ptrOf, poly_obj_const, Sp.deref, Sp.cellVal]

theorem readValsG_eq (s : State) (srcs : List Nat) : srcs.mapM (readValG s) = readVals s srcs := by
  unfold readVals
  congr 1
  funext i
  exact readValG_eq s i

theorem ptrAt_dead {s : State} {d : Nat} (h : s.hs[d]? = some .dead) : ptrAt s d = none := by simp [ptrAt, h, ptrOf]
theorem ptrAt_null {s : State} {d : Nat} (h : s.hs[d]? = some .null) : ptrAt s d = some .null := by simp [ptrAt, h, ptrOf]
theorem ptrAt_at {s : State} {d p : Nat} (h : s.hs[d]? = some (.at p)) : ptrAt s d = some (.at p) := by simp [ptrAt, h, ptrOf]
theorem ptrAt_none {s : State} {d : Nat} (h : s.hs[d]? = none) : ptrAt s d = none := by simp [ptrAt, h]

theorem step_mk (s : State) (d : Nat) (srcs : List Nat) (g : List Val → Val) :
    stepG s (.mk d srcs g) = step s (.mk d srcs g) := by
  simp only [stepG, step, readValsG_eq]
  cases hd : s.hs[d]? with
  | none => rfl
  | some x =>
    cases x <;> try rfl
    cases readVals s srcs with
    | none => rfl
    | some vs =>
      simp [ctor_T, make_pointer_T, alloc, Sp.allocShared, put, withHeap, heapOf, hOf, upd_eq]

theorem set_set_self {s : State} {i : Nat} {x : Handle} (h : s.hs[i]? = some x) (j : Nat) (y : Handle) :
    setH (setH s i x) j y = setH s j y := by
  simp [setH, set_eq_self h]

theorem copy_snd {h : Heap} {p : Nat} {r : Heap × Ptr} (hc : Sp.copy h (.at p) = some r) : r.2 = .at p := by
  unfold Sp.copy at hc
  cases hh : h.cells p <;> simp [hh] at hc
  rw [← hc]

theorem put_put {s : State} {i : Nat} {x : Ptr} (hx : s.hs[i]? = some (hOf x)) (h h' : Heap) (j : Nat) (y : Ptr) :
    put (put s h i x) h' j y = put s h' j y := by
  have : (withHeap s h').hs[i]? = some (hOf x) := hx
  simp [put, set_set_self this]

theorem step_copyCtor (s : State) (d src : Nat) : stepG s (.copyCtor d src) = step s (.copyCtor d src) := by
  simp only [stepG, step]
  cases hd : s.hs[d]? with
  | none => rfl
  | some x =>
    cases x <;> try rfl
    cases hs : s.hs[src]? with
    | none => simp [ptrAt_none hs]
    | some y =>
      cases y with
      | dead => simp [ptrAt_dead hs]
      | null => simp [ptrAt_null hs, ctor_cref, Sp.copy, put, hOf, set_set_self hs]
      | «at» p =>
        simp only [ptrAt_at hs, Option.bind_some, ctor_cref, incr_eq]
        cases hc : Sp.copy (heapOf s) (.at p) with
        | none => rfl
        | some r =>
          obtain ⟨h1, t1⟩ := r
          have := copy_snd hc
          simp only at this; subst this
          simp [put, hOf]
          exact set_set_self (s := withHeap s h1) hs _ _

theorem step_moveCtor (s : State) (d src : Nat) : stepG s (.moveCtor d src) = step s (.moveCtor d src) := by
  simp only [stepG, step]
  cases hd : s.hs[d]? with
  | none => rfl
  | some x =>
    cases x <;> try rfl
    cases hs : s.hs[src]? with
    | none => simp [ptrAt_none hs]
    | some y =>
      cases y with
      | dead => simp [ptrAt_dead hs]
      | null => simp [ptrAt_null hs, ctor_rref, Sp.move, put, hOf]
      | «at» p => simp [ptrAt_at hs, ctor_rref, Sp.move, put, hOf]

theorem step_destroy (s : State) (d : Nat) : stepG s (.destroy d) = step s (.destroy d) := by
  simp only [stepG, step]
  cases hd : s.hs[d]? with
  | none => simp [ptrAt_none hd]
  | some x =>
    cases x with
    | dead => simp [ptrAt_dead hd]
    | null => simp [ptrAt_null hd, dtor]
    | «at» p =>
      simp only [ptrAt_at hd, Option.bind_some, dtor, decr_eq, heapOf_setH]
      cases Sp.destroy (heapOf s) (.at p) <;> simp

theorem step_copyAssign (s : State) (d src : Nat) : stepG s (.copyAssign d src) = step s (.copyAssign d src) := by
  simp only [stepG, step]
  cases hd : s.hs[d]? with
  | none => simp [ptrAt_none hd]
  | some x =>
    cases hs : s.hs[src]? with
    | none => cases x <;> simp [ptrAt, hd, hs, ptrOf]
    | some y =>
      by_cases hds : d = src
      · subst hds
        rw [hd] at hs; cases hs
        cases x with
        | dead => simp [ptrAt_dead hd, isDead]
        | null => simp [ptrAt_null hd, isDead, assign_cref, put, hOf, set_set_self hd, set_eq_self hd, setH]
        | «at» p => simp [ptrAt_at hd, isDead, assign_cref, put, hOf, set_set_self hd, set_eq_self hd, setH]
      · cases x with
        | dead => simp [ptrAt_dead hd, isDead]
        | null =>
          cases y with
          | dead => simp [ptrAt_dead hs, ptrAt_null hd, isDead]
          | null => simp [ptrAt_null hs, ptrAt_null hd, isDead, hds, assign_cref, Sp.assignCopy, Sp.copy, put, hOf,
              set_set_self hs]
          | «at» p =>
            simp only [ptrAt_at hs, ptrAt_null hd, isDead, hds, assign_cref, Sp.assignCopy, incr_eq, Option.bind_some,
              decide_false, Bool.not_false, if_true, Bool.or_self, if_false, Bool.false_eq_true]
            cases hc : Sp.copy (heapOf s) (.at p) with
            | none => simp
            | some r =>
              obtain ⟨h1, t1⟩ := r
              have := copy_snd hc
              simp only at this; subst this
              simp [put, hOf]
              exact set_set_self (s := withHeap s h1) hs _ _
        | «at» q =>
          cases y with
          | dead => simp [ptrAt_dead hs, ptrAt_at hd, isDead]
          | null =>
            simp only [ptrAt_null hs, ptrAt_at hd, isDead, hds, assign_cref, Sp.assignCopy, Sp.copy, decr_eq,
              Option.bind_some, decide_false, Bool.not_false, if_true, Bool.or_self, if_false, Bool.false_eq_true,
              heapOf_setH]
            cases Sp.destroy (heapOf s) (.at q) with
            | none => simp
            | some h2 =>
              simp [put, hOf]
              exact (set_set_self (s := withHeap s h2) hs _ _)
          | «at» p =>
            simp only [ptrAt_at hs, ptrAt_at hd, isDead, hds, assign_cref, Sp.assignCopy, incr_eq, decr_eq,
              Option.bind_some, decide_false, Bool.not_false, if_true, Bool.or_self, if_false, Bool.false_eq_true,
              heapOf_setH]
            cases hc : Sp.copy (heapOf s) (.at p) with
            | none => simp
            | some r =>
              obtain ⟨h1, t1⟩ := r
              have := copy_snd hc
              simp only at this; subst this
              simp only [Option.map_some, heapOf_setH, heapOf_withHeap]
              cases Sp.destroy h1 (.at q) with
              | none => simp
              | some h2 =>
                simp [put, hOf]
                exact (set_set_self (s := withHeap s h2) hs _ _)

theorem step_moveAssign (s : State) (d src : Nat) : stepG s (.moveAssign d src) = step s (.moveAssign d src) := by
  simp only [stepG, step]
  cases hd : s.hs[d]? with
  | none => simp [ptrAt_none hd]
  | some x =>
    cases hs : s.hs[src]? with
    | none => cases x <;> simp [ptrAt, hd, hs, ptrOf]
    | some y =>
      by_cases hds : d = src
      · subst hds
        rw [hd] at hs; cases hs
        cases x with
        | dead => simp [ptrAt_dead hd, isDead]
        | null => simp [ptrAt_null hd, isDead, assign_rref, put, hOf, set_set_self hd, set_eq_self hd, setH]
        | «at» p => simp [ptrAt_at hd, isDead, assign_rref, put, hOf, set_set_self hd, set_eq_self hd, setH]
      · cases x with
        | dead => simp [ptrAt_dead hd, isDead]
        | null =>
          cases y with
          | dead => simp [ptrAt_dead hs, ptrAt_null hd, isDead]
          | null => simp [ptrAt_null hs, ptrAt_null hd, isDead, hds, assign_rref, Sp.assignMove, Sp.move, put, hOf]
          | «at» p => simp [ptrAt_at hs, ptrAt_null hd, isDead, hds, assign_rref, Sp.assignMove, Sp.move, put, hOf]
        | «at» q =>
          cases y with
          | dead => simp [ptrAt_dead hs, ptrAt_at hd, isDead]
          | null =>
            simp only [ptrAt_null hs, ptrAt_at hd, isDead, hds, assign_rref, Sp.assignMove, Sp.move, decr_eq,
              Option.bind_some, decide_false, Bool.not_false, if_true, Bool.or_self, if_false, Bool.false_eq_true,
              heapOf_setH]
            cases Sp.destroy (heapOf s) (.at q) <;> simp [put, hOf]
          | «at» p =>
            simp only [ptrAt_at hs, ptrAt_at hd, isDead, hds, assign_rref, Sp.assignMove, Sp.move, decr_eq,
              Option.bind_some, decide_false, Bool.not_false, if_true, Bool.or_self, if_false, Bool.false_eq_true,
              heapOf_setH]
            cases Sp.destroy (heapOf s) (.at q) <;> simp [put, hOf]

theorem detach_none {s : State} {d : Nat} (h : ptrAt s d = none) : Cow.detach s d = none := by
  unfold ptrAt at h
  cases hx : s.hs[d]? with
  | none => simp [Cow.detach, hx]
  | some x => cases x <;> simp [hx, ptrOf] at h; simp [Cow.detach, hx]

/-- every member of the shape `poly_obj().f(args…)` -/
theorem setter_eq (s : State) (d : Nat) (f : Val → Val) (m : Heap → Ptr → Option (Heap × Ptr))
    (hm : ∀ h t, m h t = (poly_obj h t).bind fun x => (Sp.modify x.1 x.2.2 f).map fun h' => (h', x.2.1)) :
    ((ptrAt s d).bind fun t => (m (heapOf s) t).map fun x => put s x.1 d x.2) =
    (Cow.detach s d).bind fun s1 => modifyVal s1 d (fun v => some (f v)) := by
  cases ht : ptrAt s d with
  | none => simp [detach_none ht]
  | some t =>
    rw [detach_modify_eq ht, Option.bind_some, hm]
    cases poly_obj (heapOf s) t with
    | none => rfl
    | some x => simp [modify_modF]; cases modF x.1 x.2.2 (fun v => some (f v)) <;> rfl

theorem step_assign (s : State) (d : Nat) (srcs : List Nat) (g : List Val → Val) :
    stepG s (.assign d srcs g) = step s (.assign d srcs g) := by
  simp only [stepG, step, readValsG_eq]
  cases readVals s srcs with
  | none => rfl
  | some vs =>
    exact setter_eq s d (fun _ => g vs) (fun h t => assign_expr (fun _ => g vs) h t ()) (fun h t => by
      simp only [assign_expr]; cases poly_obj h t <;> simp [bind, Option.bind]; rename_i x; cases Sp.modify x.1 x.2.2 _ <;> rfl)

theorem step_xform (s : State) (d : Nat) (f : Val → Val) : stepG s (.xform d f) = step s (.xform d f) := by
  simp only [stepG, step]
  exact setter_eq s d f (fun h t => ntt_pow_phi f h t) (fun h t => by
      simp only [ntt_pow_phi]; cases poly_obj h t <;> simp [bind, Option.bind]; rename_i x; cases Sp.modify x.1 x.2.2 _ <;> rfl)

theorem step_touch (s : State) (d : Nat) : stepG s (.touch d) = step s (.touch d) := by
  simp only [stepG, step]
  cases ht : ptrAt s d with
  | none => simp [detach_none ht]
  | some t =>
    rw [detach_eq ht, Option.bind_some]
    unfold poly_obj
    cases hdt : Gen.Cow.detach (heapOf s) t with
    | none => rfl
    | some r =>
      obtain ⟨h, t'⟩ := r
      obtain ⟨q, rfl⟩ := detach_at hdt
      simp [Sp.deref]

theorem step_writeElem (s : State) (d i x : Nat) : stepG s (.writeElem d i x) = step s (.writeElem d i x) := by
  simp only [stepG, step]
  cases ht : ptrAt s d with
  | none => simp [detach_none ht]
  | some t =>
    rw [detach_modify_eq ht, Option.bind_some]
    simp only [call]
    cases poly_obj (heapOf s) t with
    | none => rfl
    | some r => simp [storeRef_modF]

theorem step_readElem (s : State) (src i : Nat) : stepG s (.readElem src i) = step s (.readElem src i) := by
  simp only [stepG, step, ← readValG_eq]
  unfold readValG
  cases ht : ptrAt s src with
  | none => simp
  | some t =>
    simp only [Option.bind_some, call_const, poly_obj_const]
    cases t with
    | null => simp [Sp.deref]
    | «at» p =>
      simp [Sp.deref, Sp.loadRef]
      cases hv : Sp.cellVal (heapOf s) p with
      | none => simp
      | some v =>
        by_cases hi : i < v.length
        · simp [hi, put_self ht]
        · simp [hi]

theorem get_eq_iff (a b : Ptr) : (Sp.get a == Sp.get b) = Cow.ptrEq (hOf a) (hOf b) := by
  cases a <;> cases b <;> simp [Sp.get, Cow.ptrEq, hOf]

theorem isDead_hOf (p : Ptr) : isDead (hOf p) = false := by cases p <;> rfl

theorem readVal_ptr {s : State} {a : Nat} {t : Ptr} (ht : ptrAt s a = some t) :
    readVal s a = (Sp.deref t).bind fun q => Sp.cellVal (heapOf s) q := by
  rw [← readValG_eq]; simp [readValG, ht, poly_obj_const]
  cases Sp.deref t <;> simp

theorem step_compare (s : State) (a b : Nat) (neg : Bool) : stepG s (.compare a b neg) = step s (.compare a b neg) := by
  simp only [stepG, step]
  cases hta : ptrAt s a with
  | none =>
    unfold ptrAt at hta
    cases hx : s.hs[a]? with
    | none => simp
    | some x => cases x <;> simp [hx, ptrOf] at hta; cases s.hs[b]? <;> simp [isDead]
  | some t =>
    cases htb : ptrAt s b with
    | none =>
      rw [ptrAt_some hta]
      unfold ptrAt at htb
      cases hx : s.hs[b]? with
      | none => simp
      | some x => cases x <;> simp [hx, ptrOf] at htb; simp [isDead]
    | some o =>
      rw [ptrAt_some hta, ptrAt_some htb]
      simp only [isDead_hOf, Bool.or_self, Bool.false_eq_true, if_false, Option.bind_some, ← get_eq_iff,
        readVal_ptr hta, readVal_ptr htb]
      have hput : put (put s (heapOf s) b o) (heapOf s) a t = s := by rw [put_self htb, put_self hta]
      cases neg <;>
      · simp only [eq_cref, ne_cref, eq_poly, ne_poly, poly_obj_const, Bool.false_eq_true, if_false, if_true]
        by_cases hg : (Sp.get t == Sp.get o) = true
        · simp [hg, hput]
        · simp only [hg, Bool.false_eq_true, if_false]
          cases t <;> cases o <;> simp [Sp.deref, Sp.readRef] at hg ⊢
          rename_i p q
          cases Sp.cellVal (heapOf s) q <;> cases Sp.cellVal (heapOf s) p <;> simp [hput]

theorem step_compareVal (s : State) (a : Nat) (v : Val) (neg : Bool) :
    stepG s (.compareVal a v neg) = step s (.compareVal a v neg) := by
  simp only [stepG, step]
  cases hta : ptrAt s a with
  | none =>
    have : readVal s a = none := by rw [← readValG_eq]; simp [readValG, hta]
    simp [this]
  | some t =>
    rw [readVal_ptr hta]
    cases neg <;>
    · simp only [eq_poly, ne_poly, poly_obj_const, Bool.false_eq_true, if_false, if_true, Option.bind_some]
      cases t <;> simp [Sp.deref, Sp.readRef]
      rename_i p
      cases Sp.cellVal (heapOf s) p <;> simp [put_self hta]

/-- **Every statement: the generated members, driven by `stepG`, do exactly what the hand model does — in every state.** -/
theorem stepG_eq (s : State) (op : Op) : stepG s op = step s op := by
  cases op with
  | mk d srcs g => exact step_mk s d srcs g
  | copyCtor d src => exact step_copyCtor s d src
  | moveCtor d src => exact step_moveCtor s d src
  | copyAssign d src => exact step_copyAssign s d src
  | moveAssign d src => exact step_moveAssign s d src
  | assign d srcs g => exact step_assign s d srcs g
  | writeElem d i x => exact step_writeElem s d i x
  | touch d => exact step_touch s d
  | xform d f => exact step_xform s d f
  | readElem src i => exact step_readElem s src i
  | compare a b neg => exact step_compare s a b neg
  | compareVal a v neg => exact step_compareVal s a v neg
  | destroy d => exact step_destroy s d

theorem runG_eq (ops : List Op) (s : State) : runG ops s = run ops s := by
  induction ops generalizing s with
  | nil => rfl
  | cons op ops ih =>
    simp only [runG, run, stepG_eq]
    cases step s op with
    | none => rfl
    | some s1 => exact ih s1

/-- the values returned by `d(cm,i)` (const), `a == b`, `a != b`, `a == q`, `a != q` as computed by the generated members -/
theorem observeG_eq (s : State) (op : Op) : observeG s op = observe s op := by
  cases op with
  | readElem src i =>
    simp only [observeG, observe, ← readValG_eq]
    unfold readValG
    cases ptrAt s src with
    | none => rfl
    | some t => cases t <;> simp [call_const, poly_obj_const, Sp.deref, Sp.loadRef]
  | compare a b neg =>
    simp only [observeG, observe]
    cases hta : ptrAt s a with
    | none =>
      unfold ptrAt at hta
      cases hx : s.hs[a]? with
      | none => simp
      | some x => cases x <;> simp [hx, ptrOf] at hta; cases s.hs[b]? <;> simp [isDead]
    | some t =>
      cases htb : ptrAt s b with
      | none =>
        rw [ptrAt_some hta]
        unfold ptrAt at htb
        cases hx : s.hs[b]? with
        | none => simp
        | some x => cases x <;> simp [hx, ptrOf] at htb; simp [isDead]
      | some o =>
        rw [ptrAt_some hta, ptrAt_some htb]
        simp only [isDead_hOf, Bool.or_self, Bool.false_eq_true, if_false, Option.bind_some, ← get_eq_iff,
          readVal_ptr hta, readVal_ptr htb]
        cases neg <;>
        · simp only [eq_cref, ne_cref, eq_poly, ne_poly, poly_obj_const, Bool.false_eq_true, if_false, if_true]
          by_cases hg : (Sp.get t == Sp.get o) = true
          · simp [hg]
          · simp only [hg, Bool.false_eq_true, if_false]
            cases t <;> cases o <;> simp [Sp.deref, Sp.readRef] at hg ⊢
            rename_i p q
            cases Sp.cellVal (heapOf s) q <;> cases Sp.cellVal (heapOf s) p <;> simp [pairOf]
  | compareVal a v neg =>
    simp only [observeG, observe]
    cases hta : ptrAt s a with
    | none =>
      have : readVal s a = none := by rw [← readValG_eq]; simp [readValG, hta]
      simp [this]
    | some t =>
      rw [readVal_ptr hta]
      cases neg <;>
      · simp only [eq_poly, ne_poly, poly_obj_const, Bool.false_eq_true, if_false, if_true, Option.bind_some]
        cases t <;> simp [Sp.deref, Sp.readRef]
        rename_i p
        cases Sp.cellVal (heapOf s) p <;> simp [pairOf]
  | _ => rfl

/-! ### the members `stepG` does not call: each coincides with the representative of its shape -/

theorem ctor_ref_eq : @ctor_ref = @ctor_cref := rfl
theorem ctor_eq (v : Val) (h : Heap) : ctor v h = ctor_T v h () := rfl
theorem ctor_uniform_eq (v : Val) (h : Heap) : ctor_uniform v h () = ctor_T v h () := rfl
/-- `poly_p d(q)` with a plain polynomial lvalue `q` of value `v`: the pointee is a copy of `q` -/
theorem ctor_poly_ext (v : Val) (h : Heap) : ctor_poly h (.ext v) = ctor_T v h () := rfl
theorem assign_T_eq : @assign_T = @assign_expr := rfl
theorem assign_list_eq : @assign_list = @assign_expr := rfl
theorem assign_expr_eq (f : Val → Val) (h : Heap) (t : Ptr) : assign_expr f h t () = ntt_pow_phi f h t := rfl
theorem invntt_pow_invphi_eq : @invntt_pow_invphi = @ntt_pow_phi := rfl
theorem set_T_eq (f : Val → Val) (h : Heap) (t : Ptr) : set_T f h t () () = ntt_pow_phi f h t := rfl
theorem set_uniform_eq (f : Val → Val) (h : Heap) (t : Ptr) : set_uniform f h t () = ntt_pow_phi f h t := rfl
theorem set_nonuniform_eq (f : Val → Val) (h : Heap) (t : Ptr) : set_nonuniform f h t () = ntt_pow_phi f h t := rfl
theorem set_gaussian_eq (f : Val → Val) (h : Heap) (t : Ptr) : set_gaussian f h t () = ntt_pow_phi f h t := rfl
theorem set_list_eq (f : Val → Val) (h : Heap) (t : Ptr) : set_list f h t () () = ntt_pow_phi f h t := rfl
theorem set_it_it_eq (f : Val → Val) (h : Heap) (t : Ptr) : set_it_it f h t () () () = ntt_pow_phi f h t := rfl
theorem set_mpz_eq (f : Val → Val) (h : Heap) (t : Ptr) : set_mpz_mpzclass f h t () = ntt_pow_phi f h t := rfl
theorem mpz2poly_eq (f : Val → Val) (h : Heap) (t : Ptr) : mpz2poly_array f h t () = ntt_pow_phi f h t := rfl
theorem poly2mpz_eq (f : Val → Val) (h : Heap) (t : Ptr) : poly2mpz_array f h t () = ntt_pow_phi f h t := rfl
theorem deserialize_eq (f : Val → Val) (h : Heap) (t : Ptr) : deserialize_manually_istream f h t () = ntt_pow_phi f h t := rfl
theorem serialize_eq (f : Val → Val) (h : Heap) (t : Ptr) : serialize_manually_ostream f h t () = ntt_pow_phi f h t := rfl

/-- hence every forwarding setter / transform / (de)serialiser, driven like `xform`, is the hand model's `xform` step
    (`.assign d [] (fun _ => v)` for a setter whose value-level meaning is the constant `v`) -/
theorem setter_step (s : State) (d : Nat) (f : Val → Val) :
    ((ptrAt s d).bind fun t => (set_T f (heapOf s) t () ()).map fun x => put s x.1 d x.2) = step s (.xform d f) := by
  rw [← step_xform]; rfl

theorem modify_id {h : Heap} {q : Nat} {c : Cell} (hc : h.cells q = some c) : Sp.modify h q id = some h := by
  unfold Sp.modify
  simp only [hc, id]
  congr 1
  cases h with
  | mk cells next al fl =>
    simp only [Heap.mk.injEq, and_true]
    funext p
    simp only at hc
    unfold Sp.upd
    split
    · rename_i hp; subst hp; simp [hc]
    · rfl

/-- the cell `poly_obj()` returns is allocated — on heaps where nothing at or beyond the fresh-pointer counter is
    allocated (a clause of C14's invariant).  Without it the copy made by `detach()` could land on the very cell the
    handle is leaving, and the release of the old pointer would free the copy (example below). -/
theorem poly_obj_cell {h h' : Heap} {t t' : Ptr} {q : Nat} (hfresh : ∀ p, h.next ≤ p → h.cells p = none)
    (hp : poly_obj h t = some (h', t', q)) : ∃ c, h'.cells q = some c := by
  unfold poly_obj at hp
  cases t with
  | null => simp [Gen.Cow.detach, Sp.unique, Sp.useCount, Sp.deref] at hp
  | «at» p =>
    by_cases hu : Sp.unique h (.at p)
    · simp [Gen.Cow.detach, hu, Sp.deref] at hp
      obtain ⟨rfl, _, rfl⟩ := hp
      simp only [Sp.unique, Sp.useCount] at hu
      cases hc : h.cells p with
      | none => simp [hc] at hu
      | some c => exact ⟨c, rfl⟩
    · simp only [Gen.Cow.detach, hu, Sp.deref, make_pointer_poly, Sp.readRef, Sp.assignMove, Sp.move, Sp.cellVal] at hp
      cases hc : h.cells p with
      | none => simp [hc] at hp
      | some c =>
        have hne : h.next ≠ p := by
          intro he
          have := hfresh p (by omega)
          rw [hc] at this; cases this
        simp [hc, Sp.allocShared, Sp.destroy, Sp.upd, Ne.symm hne] at hp
        by_cases h0 : c.rc = 0
        · simp [h0] at hp
        · by_cases h1 : c.rc = 1
          · simp [h1, Sp.deref] at hp
            obtain ⟨rfl, _, rfl⟩ := hp
            simp [Sp.upd, hne]
          · simp [h0, h1, Sp.deref] at hp
            obtain ⟨rfl, _, rfl⟩ := hp
            simp [Sp.upd, hne]

/-- `serialize_manually` / `poly2mpz` do not change the polynomial (value-level meaning `id`): then they are the hand
    model's `touch` (detach only) -/
theorem serialize_touch (s : State) (d : Nat) (hfresh : ∀ p, s.next ≤ p → s.heap p = none) :
    ((ptrAt s d).bind fun t => (serialize_manually_ostream id (heapOf s) t ()).map fun x => put s x.1 d x.2) =
    step s (.touch d) := by
  rw [← step_touch]
  simp only [stepG, serialize_manually_ostream]
  cases ptrAt s d with
  | none => rfl
  | some t =>
    simp only [Option.bind_some]
    cases hp : poly_obj (heapOf s) t with
    | none => rfl
    | some x =>
      obtain ⟨h, t', q⟩ := x
      obtain ⟨c, hc⟩ := poly_obj_cell (h := heapOf s) hfresh hp
      simp [modify_id hc]

/-- the hypothesis of `serialize_touch` is needed: one handle on cell 0 with count 2 while the fresh-pointer counter is
    still 0 — the hand model's `touch` succeeds, `poly_obj()` followed by any access to the pointee is undefined -/
example :
    let s : State := { hs := [.at 0], heap := fun p => if p = 0 then some ⟨[7], 2⟩ else none, next := 0, allocLog := [], freeLog := [] }
    (step s (.touch 0)).isSome = true ∧
    (((ptrAt s 0).bind fun t => (serialize_manually_ostream id (heapOf s) t ()).map fun x => put s x.1 0 x.2)).isSome = false := by
  decide

/-! ### arithmetic helpers: the expression object is built from the values seen through `poly_obj() const`, nothing changes -/

theorem sub_cref_eq : @sub_cref = @add_cref := rfl
theorem mul_cref_eq : @mul_cref = @add_cref := rfl
theorem sub_poly_eq : @sub_poly = @add_poly := rfl
theorem mul_poly_eq : @mul_poly = @add_poly := rfl

theorem add_cref_reads {R : Type} (f : Val → Val → R) {s : State} {a b : Nat} {t o : Ptr}
    (hta : ptrAt s a = some t) (htb : ptrAt s b = some o) :
    add_cref f (heapOf s) t o =
      (readVal s a).bind fun va => (readVal s b).bind fun vb => some (heapOf s, t, o, f va vb) := by
  rw [readVal_ptr hta, readVal_ptr htb]
  unfold add_cref poly_obj_const
  cases t <;> cases o <;> simp [Sp.deref]

theorem add_poly_reads {R : Type} (f : Val → Val → R) {s : State} {a : Nat} {t : Ptr} (v : Val)
    (hta : ptrAt s a = some t) :
    add_poly f (heapOf s) t (.ext v) = (readVal s a).map fun va => (heapOf s, t, f va v) := by
  rw [readVal_ptr hta]
  unfold add_poly poly_obj_const
  cases t <;> simp [Sp.deref, Sp.readRef]
  rename_i p
  cases Sp.cellVal (heapOf s) p <;> simp

end Nfl.CowAst
