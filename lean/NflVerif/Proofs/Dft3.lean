/-
Linearity of `dif` and `nttSpec` (C01/C02 mathematical layer, part 3).  No root-of-unity hypothesis.
-/
import NflVerif.Proofs.Dft2

namespace Nfl.Dft

variable {R : Type*} [CommRing R]

omit [CommRing R] in
theorem zipWith_interchange (F G : R → R → R)
    (h : ∀ x y z w, F (G x y) (G z w) = G (F x z) (F y w)) (a b c d : List R) :
    List.zipWith F (List.zipWith G a b) (List.zipWith G c d) =
      List.zipWith G (List.zipWith F a c) (List.zipWith F b d) := by
  induction a generalizing b c d with
  | nil => simp
  | cons x a ih =>
    cases b with
    | nil => simp
    | cons y b =>
      cases c with
      | nil => simp
      | cons z c =>
        cases d with
        | nil => simp
        | cons w d => simp [h, ih]

theorem zipWith_mul_distrib (F : R → R → R) (h : ∀ x y z, F x y * z = F (x * z) (y * z))
    (a b p : List R) :
    List.zipWith (· * ·) (List.zipWith F a b) p =
      List.zipWith F (List.zipWith (· * ·) a p) (List.zipWith (· * ·) b p) := by
  induction a generalizing b p with
  | nil => simp
  | cons x a ih =>
    cases b with
    | nil => simp
    | cons y b =>
      cases p with
      | nil => simp
      | cons z p => simp [h, ih]

/-- `dif` commutes with any pointwise operation that is compatible with `+`, `-` and scaling. -/
theorem dif_zipWith (F : R → R → R)
    (hadd : ∀ x y z w, F x y + F z w = F (x + z) (y + w))
    (hsub : ∀ x y z w, F x y - F z w = F (x - z) (y - w))
    (hmul : ∀ x y z, F x y * z = F (x * z) (y * z))
    (k : Nat) (ω : R) (x y : List R) (hx : x.length = 2 ^ k) (hy : y.length = 2 ^ k) :
    dif k ω (List.zipWith F x y) = List.zipWith F (dif k ω x) (dif k ω y) := by
  induction k generalizing ω x y with
  | zero => rfl
  | succ k ih =>
    have hpos : 0 < 2 ^ k := by positivity
    have h2 : 2 ^ (k + 1) = 2 ^ k + 2 ^ k := by rw [pow_succ]; omega
    have hxa : (x.take (2 ^ k)).length = 2 ^ k := by simp [hx, h2]
    have hxb : (x.drop (2 ^ k)).length = 2 ^ k := by simp [hx, h2]
    have hya : (y.take (2 ^ k)).length = 2 ^ k := by simp [hy, h2]
    have hyb : (y.drop (2 ^ k)).length = 2 ^ k := by simp [hy, h2]
    rw [dif_succ, dif_succ, dif_succ, List.take_zipWith, List.drop_zipWith]
    generalize x.take (2 ^ k) = xa at hxa
    generalize x.drop (2 ^ k) = xb at hxb
    generalize y.take (2 ^ k) = ya at hya
    generalize y.drop (2 ^ k) = yb at hyb
    have e1 : List.zipWith (· + ·) (List.zipWith F xa ya) (List.zipWith F xb yb) =
        List.zipWith F (List.zipWith (· + ·) xa xb) (List.zipWith (· + ·) ya yb) :=
      zipWith_interchange (· + ·) F hadd xa ya xb yb
    have e2 : List.zipWith (· - ·) (List.zipWith F xa ya) (List.zipWith F xb yb) =
        List.zipWith F (List.zipWith (· - ·) xa xb) (List.zipWith (· - ·) ya yb) :=
      zipWith_interchange (· - ·) F hsub xa ya xb yb
    rw [e1, e2, zipWith_mul_distrib F hmul, ih, ih, List.zipWith_append]
    · rw [dif_length, dif_length] <;> simp [hxa, hxb, hya, hyb]
    · simp [hxa, hxb, powers_length]
    · simp [hya, hyb, powers_length]
    · simp [hxa, hxb]
    · simp [hya, hyb]

theorem twist_zipWith (F : R → R → R) (hmul : ∀ x y z, F x y * z = F (x * z) (y * z))
    (a b : List R) (φ : R) (hab : a.length = b.length) :
    twist (List.zipWith F a b) φ = List.zipWith F (twist a φ) (twist b φ) := by
  unfold twist
  rw [zipWith_mul_distrib F hmul]
  simp [hab]

theorem nttSpec_zipWith (F : R → R → R)
    (hadd : ∀ x y z w, F x y + F z w = F (x + z) (y + w))
    (hsub : ∀ x y z w, F x y - F z w = F (x - z) (y - w))
    (hmul : ∀ x y z, F x y * z = F (x * z) (y * z))
    (k : Nat) (φ : R) (a b : List R) (ha : a.length = 2 ^ k) (hb : b.length = 2 ^ k) :
    nttSpec k φ (List.zipWith F a b) = List.zipWith F (nttSpec k φ a) (nttSpec k φ b) := by
  unfold nttSpec
  rw [twist_zipWith F hmul a b φ (by rw [ha, hb]),
    dif_zipWith F hadd hsub hmul k _ _ _ (by rw [twist_length, ha]) (by rw [twist_length, hb])]

/-- the forward transform is additive -/
theorem nttSpec_add (k : Nat) (φ : R) (a b : List R) (ha : a.length = 2 ^ k)
    (hb : b.length = 2 ^ k) :
    nttSpec k φ (List.zipWith (· + ·) a b) =
      List.zipWith (· + ·) (nttSpec k φ a) (nttSpec k φ b) :=
  nttSpec_zipWith (· + ·) (fun x y z w => by ring) (fun x y z w => by ring)
    (fun x y z => by ring) k φ a b ha hb

theorem nttSpec_sub (k : Nat) (φ : R) (a b : List R) (ha : a.length = 2 ^ k)
    (hb : b.length = 2 ^ k) :
    nttSpec k φ (List.zipWith (· - ·) a b) =
      List.zipWith (· - ·) (nttSpec k φ a) (nttSpec k φ b) :=
  nttSpec_zipWith (· - ·) (fun x y z w => by ring) (fun x y z w => by ring)
    (fun x y z => by ring) k φ a b ha hb

end Nfl.Dft
