/-
Lane theorems for the SSE / AVX2 kernels (`Model/Simd.lean`): every kernel equals the lane-wise
application of the scalar functor model (`Model/Ops.lean`, `Model/Ntt.lean`), the vector transform loops
equal the serial loop.  Helper lemmas for C05 (and the SIMD part of C03).
-/
import NflVerif.Model.Simd
import NflVerif.Proofs.OpsExact
import Mathlib.Tactic.SplitIfs

namespace Nfl.Simd
open Nfl

/-! ### the signed-compare trick: `cmpgt(z - 0x80…, c - 0x80… - 1)` is the unsigned test `z ≥ c` -/

/-- one lane of `z - (cmpgt(z - v80, vpc) & vc)` with the constants as `set1` stores them -/
def condSub (w c z : Nat) : Nat :=
  subWrap (2 ^ w) z
    ((if toSigned w (subWrap (2 ^ w) z (2 ^ (w - 1) % 2 ^ w)) > toSigned w (cmpConst w c % 2 ^ w) then ones w else 0)
      &&& (c % 2 ^ w))

theorem cmp_iff16 (z c : Nat) (hz : z < 2 ^ 16) (hc : c < 2 ^ 16) :
    (toSigned 16 (subWrap (2 ^ 16) z (2 ^ (16 - 1) % 2 ^ 16)) > toSigned 16 (cmpConst 16 c % 2 ^ 16)) ↔ (c ≤ z ∧ c ≠ 0) := by
  unfold toSigned cmpConst subWrap
  constructor
  · intro h; split_ifs at h <;> omega
  · intro h; split_ifs <;> omega

theorem cmp_iff32 (z c : Nat) (hz : z < 2 ^ 32) (hc : c < 2 ^ 32) :
    (toSigned 32 (subWrap (2 ^ 32) z (2 ^ (32 - 1) % 2 ^ 32)) > toSigned 32 (cmpConst 32 c % 2 ^ 32)) ↔ (c ≤ z ∧ c ≠ 0) := by
  unfold toSigned cmpConst subWrap
  constructor
  · intro h; split_ifs at h <;> omega
  · intro h; split_ifs <;> omega

theorem cmp_iff64 (z c : Nat) (hz : z < 2 ^ 64) (hc : c < 2 ^ 64) :
    (toSigned 64 (subWrap (2 ^ 64) z (2 ^ (64 - 1) % 2 ^ 64)) > toSigned 64 (cmpConst 64 c % 2 ^ 64)) ↔ (c ≤ z ∧ c ≠ 0) := by
  unfold toSigned cmpConst subWrap
  constructor
  · intro h; split_ifs at h <;> omega
  · intro h; split_ifs <;> omega

theorem cmpConst_mod (w c : Nat) : cmpConst w (c % 2 ^ w) = cmpConst w c := by
  unfold cmpConst subWrap; simp only [Nat.mod_mod]

theorem ones_and (w c : Nat) (hc : c < 2 ^ w) : ones w &&& c = c := by
  unfold ones
  rw [Nat.and_comm, Nat.and_two_pow_sub_one_eq_mod, Nat.mod_eq_of_lt hc]

/-- The conditional subtraction of every vector kernel, for every lane value `z` and every constant `c`
(only its residue `c % 2^w` matters): `z ≥ c ? z - c : z`. -/
theorem condSub_eq {w : Nat} (hw : w = 16 ∨ w = 32 ∨ w = 64) (c z : Nat) (hz : z < 2 ^ w) :
    condSub w c z = if c % 2 ^ w ≤ z then z - c % 2 ^ w else z := by
  have hc : c % 2 ^ w < 2 ^ w := Nat.mod_lt _ (Nat.two_pow_pos w)
  have key : (toSigned w (subWrap (2 ^ w) z (2 ^ (w - 1) % 2 ^ w)) > toSigned w (cmpConst w c % 2 ^ w)) ↔
      (c % 2 ^ w ≤ z ∧ c % 2 ^ w ≠ 0) := by
    rw [← cmpConst_mod]
    rcases hw with rfl | rfl | rfl
    · exact cmp_iff16 z _ hz hc
    · exact cmp_iff32 z _ hz hc
    · exact cmp_iff64 z _ hz hc
  unfold condSub
  by_cases h : c % 2 ^ w ≤ z ∧ c % 2 ^ w ≠ 0
  · rw [if_pos (key.2 h), ones_and w _ hc, if_pos h.1]
    exact subWrap_eq h.1 (by omega)
  · rw [if_neg (fun hh => h (key.1 hh)), Nat.zero_and]
    have hz0 : subWrap (2 ^ w) z 0 = z := by
      have := subWrap_eq (M := 2 ^ w) (a := z) (b := 0) (Nat.zero_le _) (by omega); simpa using this
    rw [hz0]
    split
    · rename_i h1
      have : c % 2 ^ w = 0 := by
        by_contra h0; exact h ⟨h1, h0⟩
      omega
    · rfl

/-! ### generic facts on lane-wise intrinsics -/

theorem add_length (w : Nat) (a b : Reg) : (add w a b).length = min a.length b.length := by simp [add]
theorem sub_length (w : Nat) (a b : Reg) : (sub w a b).length = min a.length b.length := by simp [sub]
theorem set1_length (w n v : Nat) : (set1 w n v).length = n := by simp [set1]

theorem add_lt (w : Nat) (a b : Reg) : ∀ v ∈ add w a b, v < 2 ^ w := by
  intro v hv
  unfold add at hv
  rw [List.mem_iff_getElem] at hv
  obtain ⟨i, hi, rfl⟩ := hv
  rw [List.getElem_zipWith]
  exact Nat.mod_lt _ (Nat.two_pow_pos w)

theorem set1_succ (w n v : Nat) : set1 w (n + 1) v = v % 2 ^ w :: set1 w n v := by simp [set1, List.replicate_succ]

/-! ### `addmod` / `submod` kernels -/

theorem vecAddmod_cons (w L p x y : Nat) (X Y : Reg) :
    vecAddmod w (L + 1) p (x :: X) (y :: Y) = condSub w p ((x + y) % 2 ^ w) :: vecAddmod w L p X Y := by
  simp [vecAddmod, set1_succ, add, sub, cmpgt, Simd.and, condSub]

theorem vecAddmod_nil_left (w L p : Nat) (Y : Reg) : vecAddmod w L p [] Y = [] := by
  simp [vecAddmod, add, sub, cmpgt, Simd.and]

theorem addmod_lane {w : Nat} (hw : w = 16 ∨ w = 32 ∨ w = 64) {p : Nat} (hp : p < 2 ^ w) (x y : Nat) :
    condSub w p ((x + y) % 2 ^ w) = addmod w p x y := by
  rw [condSub_eq hw _ _ (Nat.mod_lt _ (Nat.two_pow_pos w)), Nat.mod_eq_of_lt hp]
  rfl

theorem vecAddmod_lanes {w : Nat} (hw : w = 16 ∨ w = 32 ∨ w = 64) {p : Nat} (hp : p < 2 ^ w) :
    ∀ (L : Nat) (X Y : Reg), X.length = L → Y.length = L →
      vecAddmod w L p X Y = List.zipWith (addmod w p) X Y
  | 0, X, Y, hX, hY => by
    have : X = [] := List.length_eq_zero_iff.1 hX
    subst this; simp [vecAddmod_nil_left]
  | L + 1, x :: X, y :: Y, hX, hY => by
    rw [vecAddmod_cons, addmod_lane hw hp, vecAddmod_lanes hw hp L X Y (by simpa using hX) (by simpa using hY)]
    rfl

theorem sub_set1_left (w p : Nat) : ∀ (L : Nat) (Y : Reg), Y.length = L →
    sub w (set1 w L p) Y = Y.map (fun y => subWrap (2 ^ w) p y)
  | 0, Y, hY => by
    have : Y = [] := List.length_eq_zero_iff.1 hY
    subst this; simp [sub, set1]
  | L + 1, y :: Y, hY => by
    have ih := sub_set1_left w p L Y (by simpa using hY)
    simp only [sub] at ih
    simp only [set1_succ, sub, List.zipWith_cons_cons, List.map_cons, ih]
    congr 1
    unfold subWrap; rw [Nat.mod_mod]

theorem vecSubmod_lanes {w : Nat} (hw : w = 16 ∨ w = 32 ∨ w = 64) {p : Nat} (hp : p < 2 ^ w)
    (L : Nat) (X Y : Reg) (hX : X.length = L) (hY : Y.length = L) :
    vecSubmod w L p X Y = List.zipWith (submod w p) X Y := by
  unfold vecSubmod
  simp only
  rw [sub_set1_left w p L Y hY, vecAddmod_lanes hw hp L X _ hX (by simpa using hY), List.zipWith_map_right]
  rfl

/-! ### mulhi_epu32 -/

theorem mul32_lt {a b : Nat} (ha : a < 2 ^ 32) (hb : b < 2 ^ 32) : a * b < 2 ^ 64 := by
  have := Nat.mul_lt_mul'' ha hb
  norm_num at this ⊢; exact this

theorem low_mod (a a' : Nat) (ha : a < 2 ^ 32) : (a + 2 ^ 32 * a') % 2 ^ 32 = a := by
  rw [Nat.add_mul_mod_self_left, Nat.mod_eq_of_lt ha]

theorem shuffle_B1 (a0 a1 a2 a3 : Nat) (r : Reg) :
    shuffleEpi32 immB1 (a0 :: a1 :: a2 :: a3 :: r) = a1 :: a0 :: a3 :: a2 :: shuffleEpi32 immB1 r := by
  simp [shuffleEpi32, sel4, immB1]

theorem mulhiEpu32_group (m : Nat) (hm : m % 16 = 10) {a0 a1 a2 a3 b0 b1 b2 b3 : Nat} (A B : Reg)
    (h0 : a0 < 2 ^ 32) (h1 : a1 < 2 ^ 32) (h2 : a2 < 2 ^ 32) (h3 : a3 < 2 ^ 32)
    (g0 : b0 < 2 ^ 32) (g1 : b1 < 2 ^ 32) (g2 : b2 < 2 ^ 32) (g3 : b3 < 2 ^ 32) :
    mulhiEpu32 m (a0 :: a1 :: a2 :: a3 :: A) (b0 :: b1 :: b2 :: b3 :: B) =
      a0 * b0 / 2 ^ 32 :: a1 * b1 / 2 ^ 32 :: a2 * b2 / 2 ^ 32 :: a3 * b3 / 2 ^ 32 :: mulhiEpu32 (m / 16) A B := by
  have e0 := mul32_lt h0 g0
  have e1 := mul32_lt h1 g1
  have e2 := mul32_lt h2 g2
  have e3 := mul32_lt h3 g3
  have m0 : m % 2 = 0 := by omega
  have m1 : m / 2 % 2 = 1 := by omega
  have m2 : m / 2 / 2 % 2 = 0 := by omega
  have m3 : m / 2 / 2 / 2 % 2 = 1 := by omega
  have m4 : m / 2 / 2 / 2 / 2 = m / 16 := by omega
  simp only [mulhiEpu32, mulEpu32, view64of32, shuffle_B1, srli64, view32of64, blendPs,
    List.zipWith_cons_cons, List.map_cons, Nat.add_mul_mod_self_left, Nat.mod_eq_of_lt h0, Nat.mod_eq_of_lt h1,
    Nat.mod_eq_of_lt h2, Nat.mod_eq_of_lt h3, Nat.mod_eq_of_lt g0, Nat.mod_eq_of_lt g1, Nat.mod_eq_of_lt g2,
    Nat.mod_eq_of_lt g3, m0, m1, m2, m3, m4]
  norm_num
  refine ⟨?_, ?_, ?_, ?_⟩ <;> omega

theorem mulhiEpu32_nil (m : Nat) : mulhiEpu32 m [] [] = [] := by
  simp [mulhiEpu32, mulEpu32, view64of32, shuffleEpi32, srli64, view32of64, blendPs]

/-- `mulhi_epu32` (SSE): every lane is the high word of the 32×32 product -/
theorem sseMulhiEpu32_lanes (A B : Reg) (hA : A.length = 4) (hB : B.length = 4)
    (bA : ∀ a ∈ A, a < 2 ^ 32) (bB : ∀ b ∈ B, b < 2 ^ 32) :
    sseMulhiEpu32 A B = List.zipWith (fun a b => a * b / 2 ^ 32) A B := by
  match A, B, hA, hB with
  | [a0, a1, a2, a3], [b0, b1, b2, b3], _, _ =>
    simp only [List.mem_cons, List.not_mem_nil, or_false, forall_eq_or_imp, forall_eq] at bA bB
    obtain ⟨h0, h1, h2, h3⟩ := bA
    obtain ⟨g0, g1, g2, g3⟩ := bB
    unfold sseMulhiEpu32
    rw [mulhiEpu32_group _ (by decide) [] [] h0 h1 h2 h3 g0 g1 g2 g3, mulhiEpu32_nil]
    rfl

/-- `avx2_mulhi_epu32` -/
theorem avx2MulhiEpu32_lanes (A B : Reg) (hA : A.length = 8) (hB : B.length = 8)
    (bA : ∀ a ∈ A, a < 2 ^ 32) (bB : ∀ b ∈ B, b < 2 ^ 32) :
    avx2MulhiEpu32 A B = List.zipWith (fun a b => a * b / 2 ^ 32) A B := by
  match A, B, hA, hB with
  | [a0, a1, a2, a3, a4, a5, a6, a7], [b0, b1, b2, b3, b4, b5, b6, b7], _, _ =>
    simp only [List.mem_cons, List.not_mem_nil, or_false, forall_eq_or_imp, forall_eq] at bA bB
    obtain ⟨h0, h1, h2, h3, h4, h5, h6, h7⟩ := bA
    obtain ⟨g0, g1, g2, g3, g4, g5, g6, g7⟩ := bB
    unfold avx2MulhiEpu32
    rw [mulhiEpu32_group _ (by decide) _ _ h0 h1 h2 h3 g0 g1 g2 g3,
        mulhiEpu32_group _ (by decide) [] [] h4 h5 h6 h7 g4 g5 g6 g7, mulhiEpu32_nil]
    rfl

/-! ### `mulmod_shoup<uint32_t,sse>` -/

/-- one 64-bit lane of `finish`: `res = x*y - q*p` in 64 bits, conditional subtraction of `p` -/
def shoupLane32 (p x y q : Nat) : Nat := condSub 64 p (subWrap (2 ^ 64) (x * y) (q * p))

theorem finish32_explicit {p x0 x1 x2 x3 y0 y1 y2 y3 q0 q1 q2 q3 : Nat} (hp : p < 2 ^ 32)
    (hx0 : x0 < 2 ^ 32) (hx2 : x2 < 2 ^ 32) (hy0 : y0 < 2 ^ 32) (hy2 : y2 < 2 ^ 32)
    (hq0 : q0 < 2 ^ 32) (hq2 : q2 < 2 ^ 32) :
    finish32 [x0, x1, x2, x3] [y0, y1, y2, y3] [q0, q1, q2, q3] (set1 32 4 p) (set1 64 2 p)
      (set1 64 2 (cmpConst 64 p)) (set1 64 2 (2 ^ 63)) = [shoupLane32 p x0 y0 q0, shoupLane32 p x2 y2 q2] := by
  simp only [finish32, mulEpu32, view64of32, set1, sub, cmpgt, Simd.and, shoupLane32, condSub, List.replicate,
    List.zipWith_cons_cons, List.zipWith_nil_left, Nat.add_mul_mod_self_left, Nat.mod_eq_of_lt hx0, Nat.mod_eq_of_lt hx2,
    Nat.mod_eq_of_lt hy0, Nat.mod_eq_of_lt hy2, Nat.mod_eq_of_lt hq0, Nat.mod_eq_of_lt hq2, Nat.mod_eq_of_lt hp]

theorem blend_1010 (a0 a1 a2 a3 b0 b1 b2 b3 : Nat) :
    blendPs 0b1010 [a0, a1, a2, a3] [b0, b1, b2, b3] = [a0, b1, a2, b3] := rfl

theorem shuffle_nil (imm : Nat) : shuffleEpi32 imm [] = [] := by simp [shuffleEpi32]

theorem mulhi_lt {a b : Nat} (ha : a < 2 ^ 32) (hb : b < 2 ^ 32) : a * b / 2 ^ 32 < 2 ^ 32 := by
  have := mul32_lt ha hb
  omega

theorem subWrap_lt (M a b : Nat) (hM : 0 < M) : subWrap M a b < M := Nat.mod_lt _ hM

/-- the lane hypothesis of the 32-bit Shoup kernel: the 64-bit difference `x*y - q*p` fits 32 bits
(it is `< 2p` whenever `y' = ⌊y·2^32/p⌋`, `y < p`: `shoupLane32_hyp_of_regime`). -/
def Shoup32Hyp (p x y y' : Nat) : Prop := subWrap (2 ^ 64) (x * y) (shoupQ 32 x y' * p) < 2 ^ 32

theorem shoupLane32_eq {p x y y' : Nat} (hp : p < 2 ^ 32) (hx : x < 2 ^ 32) (hy' : y' < 2 ^ 32)
    (h : Shoup32Hyp p x y y') :
    shoupLane32 p x y (x * y' / 2 ^ 32) % 2 ^ 32 = mulmodShoup 32 p x y y' := by
  unfold Shoup32Hyp at h
  have hq : shoupQ 32 x y' = x * y' / 2 ^ 32 := shoupQ_eq hx hy'
  rw [hq] at h
  unfold shoupLane32 mulmodShoup shoupDiff
  simp only
  rw [hq, condSub_eq (Or.inr (Or.inr rfl)) _ _ (subWrap_lt _ _ _ (by norm_num)),
    Nat.mod_eq_of_lt (by omega : p < 2 ^ 64)]
  have e : subWrap (2 ^ arithWidth 32) (x * y) (x * y' / 2 ^ 32 * p) = subWrap (2 ^ 64) (x * y) (x * y' / 2 ^ 32 * p) := by
    generalize x * y' / 2 ^ 32 * p = B at *
    generalize x * y = A at *
    simp only [arithWidth]
    unfold subWrap at h ⊢
    norm_num at h ⊢
    omega
  rw [e]

theorem sseMulmodShoup32_explicit {p x0 x1 x2 x3 y0 y1 y2 y3 z0 z1 z2 z3 : Nat} (hp : p < 2 ^ 32)
    (hx0 : x0 < 2 ^ 32) (hx1 : x1 < 2 ^ 32) (hx2 : x2 < 2 ^ 32) (hx3 : x3 < 2 ^ 32)
    (hy0 : y0 < 2 ^ 32) (hy1 : y1 < 2 ^ 32) (hy2 : y2 < 2 ^ 32) (hy3 : y3 < 2 ^ 32)
    (hz0 : z0 < 2 ^ 32) (hz1 : z1 < 2 ^ 32) (hz2 : z2 < 2 ^ 32) (hz3 : z3 < 2 ^ 32) :
    sseMulmodShoup32 p [x0, x1, x2, x3] [y0, y1, y2, y3] [z0, z1, z2, z3] =
      [shoupLane32 p x0 y0 (x0 * z0 / 2 ^ 32) % 2 ^ 32, shoupLane32 p x1 y1 (x1 * z1 / 2 ^ 32) % 2 ^ 32,
       shoupLane32 p x2 y2 (x2 * z2 / 2 ^ 32) % 2 ^ 32, shoupLane32 p x3 y3 (x3 * z3 / 2 ^ 32) % 2 ^ 32] := by
  have hq : sseMulhiEpu32 [x0, x1, x2, x3] [z0, z1, z2, z3] =
      [x0 * z0 / 2 ^ 32, x1 * z1 / 2 ^ 32, x2 * z2 / 2 ^ 32, x3 * z3 / 2 ^ 32] := by
    rw [sseMulhiEpu32_lanes _ _ rfl rfl (by simp; omega) (by simp; omega)]; rfl
  unfold sseMulmodShoup32
  simp only [hq, shuffleLh, shuffle_B1, shuffle_nil]
  rw [finish32_explicit hp hx0 hx2 hy0 hy2 (mulhi_lt hx0 hz0) (mulhi_lt hx2 hz2),
      finish32_explicit hp hx1 hx3 hy1 hy3 (mulhi_lt hx1 hz1) (mulhi_lt hx3 hz3)]
  simp only [slli64, view32of64, List.map_cons, List.map_nil]
  rw [blend_1010]
  simp only [List.cons.injEq, and_true, true_and]
  refine ⟨?_, ?_⟩ <;> omega

/-- a ternary relation on the lanes of three registers -/
def All3 (P : Nat → Nat → Nat → Prop) : List Nat → List Nat → List Nat → Prop
  | x :: xs, y :: ys, z :: zs => P x y z ∧ All3 P xs ys zs
  | _, _, _ => True

def All4 (P : Nat → Nat → Nat → Nat → Prop) : List Nat → List Nat → List Nat → List Nat → Prop
  | x :: xs, y :: ys, z :: zs, t :: ts => P x y z t ∧ All4 P xs ys zs ts
  | _, _, _, _ => True

/-- **`mulmod_shoup<uint32_t,sse>` lane by lane** (also the AVX2 build's kernel): for all 32-bit lane values,
under the lane hypothesis `Shoup32Hyp`, the kernel is the scalar functor in every lane. -/
theorem sseMulmodShoup32_lanes {p : Nat} (hp : p < 2 ^ 32) (X Y Y' : Reg)
    (hX : X.length = 4) (hY : Y.length = 4) (hY' : Y'.length = 4)
    (bX : ∀ v ∈ X, v < 2 ^ 32) (bY : ∀ v ∈ Y, v < 2 ^ 32) (bY' : ∀ v ∈ Y', v < 2 ^ 32)
    (h : All3 (Shoup32Hyp p) X Y Y') :
    sseMulmodShoup32 p X Y Y' = mulShoupList 32 p X Y Y' := by
  match X, Y, Y', hX, hY, hY' with
  | [x0, x1, x2, x3], [y0, y1, y2, y3], [z0, z1, z2, z3], _, _, _ =>
    simp only [List.mem_cons, List.not_mem_nil, or_false, forall_eq_or_imp, forall_eq] at bX bY bY'
    obtain ⟨hx0, hx1, hx2, hx3⟩ := bX
    obtain ⟨hy0, hy1, hy2, hy3⟩ := bY
    obtain ⟨hz0, hz1, hz2, hz3⟩ := bY'
    obtain ⟨k0, k1, k2, k3, _⟩ := h
    rw [sseMulmodShoup32_explicit hp hx0 hx1 hx2 hx3 hy0 hy1 hy2 hy3 hz0 hz1 hz2 hz3,
      shoupLane32_eq hp hx0 hz0 k0, shoupLane32_eq hp hx1 hz1 k1, shoupLane32_eq hp hx2 hz2 k2,
      shoupLane32_eq hp hx3 hz3 k3]
    rfl

/-- the lane hypothesis holds in the regime the library uses the kernel in: `y < p`, `y' = ⌊y·2^32/p⌋`,
any word `x` -/
theorem shoup32Hyp_of_regime {p x y : Nat} (hp0 : 0 < p) (hp : 2 * p ≤ 2 ^ 32) (hx : x < 2 ^ 32) (hy : y < p) :
    Shoup32Hyp p x y (y * 2 ^ 32 / p) := by
  obtain ⟨_, h2, h3⟩ := shoupDiff_spec (w := 32) (Or.inr (Or.inl rfl)) hp0 hp hx hy
  unfold Shoup32Hyp
  rw [subWrap_eq h2 (by omega)]
  omega

/-! ### `mulmod_shoup<uint16_t,sse|avx2>` -/

/-- one 32-bit lane of the 16-bit `finish`: `res = x*y - q*p` in 32 bits, conditional subtraction of `p` -/
def shoupLane16 (p x y q : Nat) : Nat := condSub 32 p (subWrap (2 ^ 32) (x * y % 2 ^ 32) (q * p % 2 ^ 32))

theorem finish16_128_explicit {p : Nat} (hp : p < 2 ^ 32) (x0 x1 x2 x3 y0 y1 y2 y3 q0 q1 q2 q3 : Nat) (X Y Q : Reg) :
    finish16 cvtepu16_128 (x0 :: x1 :: x2 :: x3 :: X) (y0 :: y1 :: y2 :: y3 :: Y) (q0 :: q1 :: q2 :: q3 :: Q)
      (set1 32 4 p) (set1 32 4 (cmpConst 32 p)) (set1 32 4 (2 ^ 31)) =
      [shoupLane16 p x0 y0 q0, shoupLane16 p x1 y1 q1, shoupLane16 p x2 y2 q2, shoupLane16 p x3 y3 q3] := by
  simp only [finish16, cvtepu16_128, mullo, set1, sub, cmpgt, Simd.and, shoupLane16, condSub, List.replicate,
    List.take_succ_cons, List.take_zero, List.zipWith_cons_cons, List.zipWith_nil_left, Nat.mod_eq_of_lt hp]

theorem finish16_256_explicit {p : Nat} (hp : p < 2 ^ 32) (x0 x1 x2 x3 x4 x5 x6 x7 y0 y1 y2 y3 y4 y5 y6 y7
    q0 q1 q2 q3 q4 q5 q6 q7 : Nat) :
    finish16 cvtepu16_256 [x0, x1, x2, x3, x4, x5, x6, x7] [y0, y1, y2, y3, y4, y5, y6, y7] [q0, q1, q2, q3, q4, q5, q6, q7]
      (set1 32 8 p) (set1 32 8 (cmpConst 32 p)) (set1 32 8 (2 ^ 31)) =
      [shoupLane16 p x0 y0 q0, shoupLane16 p x1 y1 q1, shoupLane16 p x2 y2 q2, shoupLane16 p x3 y3 q3,
       shoupLane16 p x4 y4 q4, shoupLane16 p x5 y5 q5, shoupLane16 p x6 y6 q6, shoupLane16 p x7 y7 q7] := by
  simp only [finish16, cvtepu16_256, mullo, set1, sub, cmpgt, Simd.and, shoupLane16, condSub, List.replicate,
    List.take_succ_cons, List.take_nil, List.zipWith_cons_cons, List.zipWith_nil_left, Nat.mod_eq_of_lt hp]

theorem shift8_explicit (x0 x1 x2 x3 x4 x5 x6 x7 : Nat) :
    shift8 [x0, x1, x2, x3, x4, x5, x6, x7] = [x4, x5, x6, x7, 0, 0, 0, 0] := rfl

theorem permute_swap (r0 r1 r2 r3 r4 r5 r6 r7 : Nat) :
    permute2x128 [r0, r1, r2, r3, r4, r5, r6, r7] [r0, r1, r2, r3, r4, r5, r6, r7] 1 = [r4, r5, r6, r7, r0, r1, r2, r3] := rfl

theorem satU16_of_lt {v : Nat} (h : v < 2 ^ 16) : satU16 v = v := by
  unfold satU16 toSigned
  simp only
  split_ifs <;> omega

/-- lane hypothesis of the 16-bit Shoup kernels: after the conditional subtraction the 32-bit value must fit
16 bits (`packus` saturates where the scalar code truncates) -/
def Shoup16Hyp (p x y y' : Nat) : Prop := shoupDiff 16 p x y (shoupQ 16 x y') < p + 2 ^ 16

theorem shoupLane16_eq {p x y y' : Nat} (hp : p ≤ 2 ^ 16) (hx : x < 2 ^ 16) (hy' : y' < 2 ^ 16)
    (h : Shoup16Hyp p x y y') :
    satU16 (shoupLane16 p x y (x * y' / 2 ^ 16 % 2 ^ 16)) = mulmodShoup 16 p x y y' := by
  unfold Shoup16Hyp at h
  have hq : shoupQ 16 x y' = x * y' / 2 ^ 16 := shoupQ_eq hx hy'
  have hq' : x * y' / 2 ^ 16 % 2 ^ 16 = x * y' / 2 ^ 16 := by rw [← hq]; unfold shoupQ; rw [Nat.mod_mod]
  rw [hq] at h
  unfold shoupLane16 mulmodShoup
  simp only
  rw [hq, hq', condSub_eq (Or.inr (Or.inl rfl)) _ _ (subWrap_lt _ _ _ (by norm_num)),
    Nat.mod_eq_of_lt (by omega : p < 2 ^ 32)]
  have e : subWrap (2 ^ 32) (x * y % 2 ^ 32) (x * y' / 2 ^ 16 * p % 2 ^ 32) = shoupDiff 16 p x y (x * y' / 2 ^ 16) := by
    unfold shoupDiff subWrap arithWidth
    simp only [if_true, Nat.mod_mod]
  rw [e]
  generalize shoupDiff 16 p x y (x * y' / 2 ^ 16) = d at *
  split_ifs with h1
  · rw [satU16_of_lt (by omega), Nat.mod_eq_of_lt (by omega)]
  · rw [satU16_of_lt (by omega), Nat.mod_eq_of_lt (by omega)]

theorem mulhiEpu16_explicit8 (x0 x1 x2 x3 x4 x5 x6 x7 z0 z1 z2 z3 z4 z5 z6 z7 : Nat) :
    mulhiEpu16 [x0, x1, x2, x3, x4, x5, x6, x7] [z0, z1, z2, z3, z4, z5, z6, z7] =
      [x0 * z0 / 2 ^ 16 % 2 ^ 16, x1 * z1 / 2 ^ 16 % 2 ^ 16, x2 * z2 / 2 ^ 16 % 2 ^ 16, x3 * z3 / 2 ^ 16 % 2 ^ 16,
       x4 * z4 / 2 ^ 16 % 2 ^ 16, x5 * z5 / 2 ^ 16 % 2 ^ 16, x6 * z6 / 2 ^ 16 % 2 ^ 16, x7 * z7 / 2 ^ 16 % 2 ^ 16] := by
  simp only [mulhiEpu16, List.zipWith_cons_cons, List.zipWith_nil_left]

/-- **`mulmod_shoup<uint16_t,sse>` lane by lane** -/
theorem sseMulmodShoup16_lanes {p : Nat} (hp : p ≤ 2 ^ 16) (X Y Y' : Reg)
    (hX : X.length = 8) (hY : Y.length = 8) (hY' : Y'.length = 8)
    (bX : ∀ v ∈ X, v < 2 ^ 16) (bY' : ∀ v ∈ Y', v < 2 ^ 16)
    (h : All3 (Shoup16Hyp p) X Y Y') :
    sseMulmodShoup16 p X Y Y' = mulShoupList 16 p X Y Y' := by
  match X, Y, Y', hX, hY, hY' with
  | [x0, x1, x2, x3, x4, x5, x6, x7], [y0, y1, y2, y3, y4, y5, y6, y7], [z0, z1, z2, z3, z4, z5, z6, z7], _, _, _ =>
    simp only [List.mem_cons, List.not_mem_nil, or_false, forall_eq_or_imp, forall_eq] at bX bY'
    obtain ⟨hx0, hx1, hx2, hx3, hx4, hx5, hx6, hx7⟩ := bX
    obtain ⟨hz0, hz1, hz2, hz3, hz4, hz5, hz6, hz7⟩ := bY'
    obtain ⟨k0, k1, k2, k3, k4, k5, k6, k7, _⟩ := h
    have hp32 : p < 2 ^ 32 := by omega
    unfold sseMulmodShoup16
    simp only [mulhiEpu16_explicit8, shift8_explicit]
    rw [finish16_128_explicit hp32, finish16_128_explicit hp32]
    simp only [packus32, List.cons_append, List.nil_append, List.map_cons, List.map_nil]
    rw [shoupLane16_eq hp hx0 hz0 k0, shoupLane16_eq hp hx1 hz1 k1, shoupLane16_eq hp hx2 hz2 k2,
      shoupLane16_eq hp hx3 hz3 k3, shoupLane16_eq hp hx4 hz4 k4, shoupLane16_eq hp hx5 hz5 k5,
      shoupLane16_eq hp hx6 hz6 k6, shoupLane16_eq hp hx7 hz7 k7]
    rfl

/-- **`mulmod_shoup<uint16_t,avx2>` lane by lane** -/
theorem avx2MulmodShoup16_lanes {p : Nat} (hp : p ≤ 2 ^ 16) (X Y Y' : Reg)
    (hX : X.length = 8) (hY : Y.length = 8) (hY' : Y'.length = 8)
    (bX : ∀ v ∈ X, v < 2 ^ 16) (bY' : ∀ v ∈ Y', v < 2 ^ 16)
    (h : All3 (Shoup16Hyp p) X Y Y') :
    avx2MulmodShoup16 p X Y Y' = mulShoupList 16 p X Y Y' := by
  match X, Y, Y', hX, hY, hY' with
  | [x0, x1, x2, x3, x4, x5, x6, x7], [y0, y1, y2, y3, y4, y5, y6, y7], [z0, z1, z2, z3, z4, z5, z6, z7], _, _, _ =>
    simp only [List.mem_cons, List.not_mem_nil, or_false, forall_eq_or_imp, forall_eq] at bX bY'
    obtain ⟨hx0, hx1, hx2, hx3, hx4, hx5, hx6, hx7⟩ := bX
    obtain ⟨hz0, hz1, hz2, hz3, hz4, hz5, hz6, hz7⟩ := bY'
    obtain ⟨k0, k1, k2, k3, k4, k5, k6, k7, _⟩ := h
    have hp32 : p < 2 ^ 32 := by omega
    unfold avx2MulmodShoup16
    simp only [mulhiEpu16_explicit8]
    rw [finish16_256_explicit hp32]
    simp only [permute_swap, cast256to128, List.take_succ_cons, List.take_zero, packus32, List.cons_append,
      List.nil_append, List.map_cons, List.map_nil]
    rw [shoupLane16_eq hp hx0 hz0 k0, shoupLane16_eq hp hx1 hz1 k1, shoupLane16_eq hp hx2 hz2 k2,
      shoupLane16_eq hp hx3 hz3 k3, shoupLane16_eq hp hx4 hz4 k4, shoupLane16_eq hp hx5 hz5 k5,
      shoupLane16_eq hp hx6 hz6 k6, shoupLane16_eq hp hx7 hz7 k7]
    rfl

theorem shoup16Hyp_of_regime {p x y : Nat} (hp0 : 0 < p) (hp : 2 * p ≤ 2 ^ 16) (hx : x < 2 ^ 16) (hy : y < p) :
    Shoup16Hyp p x y (y * 2 ^ 16 / p) := by
  obtain ⟨h1, h2, h3⟩ := shoupDiff_spec (w := 16) (Or.inl rfl) hp0 hp hx hy
  unfold Shoup16Hyp
  rw [h1]; omega

/-! ### `muladd_shoup<uint16_t,sse|avx2>` -/

theorem add_bias31 (z : Nat) : (z + 2 ^ 31 % 2 ^ 32) % 2 ^ 32 = subWrap (2 ^ 32) z (2 ^ (32 - 1) % 2 ^ 32) := by
  unfold subWrap; omega

def muladdLane16 (p rop x y q : Nat) : Nat :=
  condSub 32 p ((rop + subWrap (2 ^ 32) (x * y % 2 ^ 32) (q * p % 2 ^ 32)) % 2 ^ 32)

theorem finishMuladd16Sse_explicit {p : Nat} (hp : p < 2 ^ 32) (r0 r1 r2 r3 x0 x1 x2 x3 y0 y1 y2 y3 q0 q1 q2 q3 : Nat)
    (R X Y Q : Reg) :
    finishMuladd16Sse (r0 :: r1 :: r2 :: r3 :: R) (x0 :: x1 :: x2 :: x3 :: X) (y0 :: y1 :: y2 :: y3 :: Y)
      (q0 :: q1 :: q2 :: q3 :: Q) (set1 32 4 p) (set1 32 4 (cmpConst 32 p)) (set1 32 4 (2 ^ 31)) =
      [muladdLane16 p r0 x0 y0 q0, muladdLane16 p r1 x1 y1 q1, muladdLane16 p r2 x2 y2 q2, muladdLane16 p r3 x3 y3 q3] := by
  simp only [finishMuladd16Sse, cvtepu16_128, mullo, set1, add, sub, cmpgt, Simd.and, muladdLane16, condSub, List.replicate,
    List.take_succ_cons, List.take_zero, List.zipWith_cons_cons, List.zipWith_nil_left, Nat.mod_eq_of_lt hp, add_bias31]

theorem finishMuladd16Avx2_explicit {p : Nat} (hp : p < 2 ^ 32) (r0 r1 r2 r3 r4 r5 r6 r7 x0 x1 x2 x3 x4 x5 x6 x7
    y0 y1 y2 y3 y4 y5 y6 y7 q0 q1 q2 q3 q4 q5 q6 q7 : Nat) :
    finishMuladd16Avx2 [r0, r1, r2, r3, r4, r5, r6, r7] [x0, x1, x2, x3, x4, x5, x6, x7] [y0, y1, y2, y3, y4, y5, y6, y7]
      [q0, q1, q2, q3, q4, q5, q6, q7] (set1 32 8 p) (set1 32 8 (cmpConst 32 p)) (set1 32 8 (2 ^ 31)) =
      [muladdLane16 p r0 x0 y0 q0, muladdLane16 p r1 x1 y1 q1, muladdLane16 p r2 x2 y2 q2, muladdLane16 p r3 x3 y3 q3,
       muladdLane16 p r4 x4 y4 q4, muladdLane16 p r5 x5 y5 q5, muladdLane16 p r6 x6 y6 q6, muladdLane16 p r7 x7 y7 q7] := by
  simp only [finishMuladd16Avx2, cvtepu16_256, mullo, set1, add, sub, cmpgt, Simd.and, muladdLane16, condSub, List.replicate,
    List.take_succ_cons, List.take_nil, List.zipWith_cons_cons, List.zipWith_nil_left, Nat.mod_eq_of_lt hp]

/-- lane hypothesis of the 16-bit multiply-add kernels: `rop + (x*y - q*p)` fits 16 bits (the scalar code
truncates the sum to `uint16_t` BEFORE the comparison, the vector code keeps 32 bits and saturates at the end) -/
def Muladd16Hyp (p rop x y y' : Nat) : Prop := rop + shoupDiff 16 p x y (shoupQ 16 x y') < 2 ^ 16

theorem muladdLane16_eq {p rop x y y' : Nat} (hp : p ≤ 2 ^ 16) (hx : x < 2 ^ 16) (hy' : y' < 2 ^ 16)
    (h : Muladd16Hyp p rop x y y') :
    satU16 (muladdLane16 p rop x y (x * y' / 2 ^ 16 % 2 ^ 16)) = muladdShoup 16 p rop x y y' := by
  unfold Muladd16Hyp at h
  have hq : shoupQ 16 x y' = x * y' / 2 ^ 16 := shoupQ_eq hx hy'
  have hq' : x * y' / 2 ^ 16 % 2 ^ 16 = x * y' / 2 ^ 16 := by rw [← hq]; unfold shoupQ; rw [Nat.mod_mod]
  rw [hq] at h
  unfold muladdLane16 muladdShoup
  simp only
  rw [hq, hq', condSub_eq (Or.inr (Or.inl rfl)) _ _ (Nat.mod_lt _ (by norm_num)),
    Nat.mod_eq_of_lt (by omega : p < 2 ^ 32)]
  have e : subWrap (2 ^ 32) (x * y % 2 ^ 32) (x * y' / 2 ^ 16 * p % 2 ^ 32) = shoupDiff 16 p x y (x * y' / 2 ^ 16) := by
    unfold shoupDiff subWrap arithWidth
    simp only [if_true, Nat.mod_mod]
  rw [e]
  generalize shoupDiff 16 p x y (x * y' / 2 ^ 16) = d at *
  rw [Nat.mod_eq_of_lt (by omega : rop + d < 2 ^ 32), Nat.mod_eq_of_lt h]
  split_ifs with h1
  · rw [satU16_of_lt (by omega), Nat.mod_eq_of_lt (by omega)]
  · rw [satU16_of_lt (by omega), Nat.mod_eq_of_lt (by omega)]

/-- 4-ary lane-wise map of the scalar `muladd_shoup` functor -/
def muladdShoupList (w p : Nat) : List Nat → List Nat → List Nat → List Nat → List Nat
  | r :: rs, x :: xs, y :: ys, y' :: ys' => muladdShoup w p r x y y' :: muladdShoupList w p rs xs ys ys'
  | _, _, _, _ => []

/-- **`muladd_shoup<uint16_t,sse>` lane by lane** -/
theorem sseMuladdShoup16_lanes {p : Nat} (hp : p ≤ 2 ^ 16) (R X Y Y' : Reg)
    (hR : R.length = 8) (hX : X.length = 8) (hY : Y.length = 8) (hY' : Y'.length = 8)
    (bX : ∀ v ∈ X, v < 2 ^ 16) (bY' : ∀ v ∈ Y', v < 2 ^ 16)
    (h : All4 (Muladd16Hyp p) R X Y Y') :
    sseMuladdShoup16 p R X Y Y' = muladdShoupList 16 p R X Y Y' := by
  match R, X, Y, Y', hR, hX, hY, hY' with
  | [r0, r1, r2, r3, r4, r5, r6, r7], [x0, x1, x2, x3, x4, x5, x6, x7], [y0, y1, y2, y3, y4, y5, y6, y7],
    [z0, z1, z2, z3, z4, z5, z6, z7], _, _, _, _ =>
    simp only [List.mem_cons, List.not_mem_nil, or_false, forall_eq_or_imp, forall_eq] at bX bY'
    obtain ⟨hx0, hx1, hx2, hx3, hx4, hx5, hx6, hx7⟩ := bX
    obtain ⟨hz0, hz1, hz2, hz3, hz4, hz5, hz6, hz7⟩ := bY'
    obtain ⟨k0, k1, k2, k3, k4, k5, k6, k7, _⟩ := h
    have hp32 : p < 2 ^ 32 := by omega
    unfold sseMuladdShoup16
    simp only [mulhiEpu16_explicit8, shift8_explicit]
    rw [finishMuladd16Sse_explicit hp32, finishMuladd16Sse_explicit hp32]
    simp only [packus32, List.cons_append, List.nil_append, List.map_cons, List.map_nil]
    rw [muladdLane16_eq hp hx0 hz0 k0, muladdLane16_eq hp hx1 hz1 k1, muladdLane16_eq hp hx2 hz2 k2,
      muladdLane16_eq hp hx3 hz3 k3, muladdLane16_eq hp hx4 hz4 k4, muladdLane16_eq hp hx5 hz5 k5,
      muladdLane16_eq hp hx6 hz6 k6, muladdLane16_eq hp hx7 hz7 k7]
    rfl

/-- **`muladd_shoup<uint16_t,avx2>` lane by lane** -/
theorem avx2MuladdShoup16_lanes {p : Nat} (hp : p ≤ 2 ^ 16) (R X Y Y' : Reg)
    (hR : R.length = 8) (hX : X.length = 8) (hY : Y.length = 8) (hY' : Y'.length = 8)
    (bX : ∀ v ∈ X, v < 2 ^ 16) (bY' : ∀ v ∈ Y', v < 2 ^ 16)
    (h : All4 (Muladd16Hyp p) R X Y Y') :
    avx2MuladdShoup16 p R X Y Y' = muladdShoupList 16 p R X Y Y' := by
  match R, X, Y, Y', hR, hX, hY, hY' with
  | [r0, r1, r2, r3, r4, r5, r6, r7], [x0, x1, x2, x3, x4, x5, x6, x7], [y0, y1, y2, y3, y4, y5, y6, y7],
    [z0, z1, z2, z3, z4, z5, z6, z7], _, _, _, _ =>
    simp only [List.mem_cons, List.not_mem_nil, or_false, forall_eq_or_imp, forall_eq] at bX bY'
    obtain ⟨hx0, hx1, hx2, hx3, hx4, hx5, hx6, hx7⟩ := bX
    obtain ⟨hz0, hz1, hz2, hz3, hz4, hz5, hz6, hz7⟩ := bY'
    obtain ⟨k0, k1, k2, k3, k4, k5, k6, k7, _⟩ := h
    have hp32 : p < 2 ^ 32 := by omega
    unfold avx2MuladdShoup16
    simp only [mulhiEpu16_explicit8]
    rw [finishMuladd16Avx2_explicit hp32]
    simp only [permute_swap, cast256to128, List.take_succ_cons, List.take_zero, packus32, List.cons_append,
      List.nil_append, List.map_cons, List.map_nil]
    rw [muladdLane16_eq hp hx0 hz0 k0, muladdLane16_eq hp hx1 hz1 k1, muladdLane16_eq hp hx2 hz2 k2,
      muladdLane16_eq hp hx3 hz3 k3, muladdLane16_eq hp hx4 hz4 k4, muladdLane16_eq hp hx5 hz5 k5,
      muladdLane16_eq hp hx6 hz6 k6, muladdLane16_eq hp hx7 hz7 k7]
    rfl

/-- in the library's regime (`rop, y < p`, `y' = ⌊y·2^16/p⌋`, `4p ≤ 2^16`, any word `x`) the hypothesis holds -/
theorem muladd16Hyp_of_regime {p rop x y : Nat} (hp0 : 0 < p) (hp : 4 * p ≤ 2 ^ 16) (hr : rop < p) (hx : x < 2 ^ 16)
    (hy : y < p) : Muladd16Hyp p rop x y (y * 2 ^ 16 / p) := by
  obtain ⟨h1, h2, h3⟩ := shoupDiff_spec (w := 16) (Or.inl rfl) hp0 (by omega) hx hy
  unfold Muladd16Hyp
  rw [h1]; omega

/-! ### vector butterflies (`ntt_loop_body<sse|avx2, poly, uint16_t|uint32_t>`) -/

/-- what a `mulhi` helper has to satisfy on registers of `L` lanes of `w` bits -/
def MulhiOK (w L : Nat) (mulhi : Reg → Reg → Reg) : Prop :=
  ∀ A B : Reg, A.length = L → B.length = L → (∀ a ∈ A, a < 2 ^ w) → (∀ b ∈ B, b < 2 ^ w) →
    mulhi A B = List.zipWith (fun a b => a * b / 2 ^ w) A B

theorem mulhiOK_sse32 : MulhiOK 32 4 sseMulhiEpu32 := fun A B hA hB bA bB => sseMulhiEpu32_lanes A B hA hB bA bB
theorem mulhiOK_avx32 : MulhiOK 32 8 avx2MulhiEpu32 := fun A B hA hB bA bB => avx2MulhiEpu32_lanes A B hA hB bA bB

theorem mulhiOK_16 (L : Nat) : MulhiOK 16 L mulhiEpu16 := by
  intro A B _ _ bA bB
  unfold mulhiEpu16
  apply List.ext_getElem (by simp)
  intro i h1 h2
  simp only [List.getElem_zipWith]
  have ha := bA _ (List.getElem_mem (by simpa using (by simp at h1; omega : i < A.length)))
  have hb := bB _ (List.getElem_mem (by simpa using (by simp at h1; omega : i < B.length)))
  apply Nat.mod_eq_of_lt
  have := Nat.mul_lt_mul'' ha hb
  rw [Nat.div_lt_iff_lt_mul (by norm_num)]
  norm_num at this ⊢; omega

/-- the lane-wise reading of `vecBfly` (mulhi = high word of the lane product) -/
def lwMulhi (w : Nat) : Reg → Reg → Reg := List.zipWith (fun a b => a * b / 2 ^ w)

theorem vecBfly_congr {w L : Nat} {mulhi : Reg → Reg → Reg} (hm : MulhiOK w L mulhi) (p : Nat)
    (U0 U1 WI WT : Reg) (h0 : U0.length = L) (h1 : U1.length = L) (hi : WI.length = L)
    (bi : ∀ v ∈ WI, v < 2 ^ w) :
    vecBfly w L mulhi p U0 U1 WI WT = vecBfly w L (lwMulhi w) p U0 U1 WI WT := by
  unfold vecBfly
  simp only
  rw [hm _ _ (by rw [add_length, sub_length, set1_length, h0, h1]; omega) hi (add_lt _ _ _) bi]
  rfl

/-- one lane of the `x1` output -/
def hiLane (w p u0 u1 wi wt : Nat) : Nat :=
  let t1 := ((2 * p) % 2 ^ w + subWrap (2 ^ w) u0 u1) % 2 ^ w
  subWrap (2 ^ w) (t1 * wt % 2 ^ w) (t1 * wi / 2 ^ w * (p % 2 ^ w) % 2 ^ w)

theorem vecBfly_lw_cons (w L p u0 u1 wi wt : Nat) (U0 U1 WI WT : Reg) :
    vecBfly w (L + 1) (lwMulhi w) p (u0 :: U0) (u1 :: U1) (wi :: WI) (wt :: WT) =
      (condSub w (2 * p) ((u0 + u1) % 2 ^ w) :: (vecBfly w L (lwMulhi w) p U0 U1 WI WT).1,
       hiLane w p u0 u1 wi wt :: (vecBfly w L (lwMulhi w) p U0 U1 WI WT).2) := by
  simp only [vecBfly, lwMulhi, set1_succ, add, sub, mullo, cmpgt, Simd.and, condSub, hiLane, List.zipWith_cons_cons]

theorem bflyLo_lane {w : Nat} (hw : w = 16 ∨ w = 32) {p : Nat} (hp : 2 * p ≤ 2 ^ w) (u0 u1 : Nat) :
    condSub w (2 * p) ((u0 + u1) % 2 ^ w) = bflyLo w p u0 u1 := by
  have hz : (u0 + u1) % 2 ^ w < 2 ^ w := Nat.mod_lt _ (Nat.two_pow_pos w)
  rw [condSub_eq (by rcases hw with h | h <;> simp [h]) _ _ hz]
  unfold bflyLo
  simp only
  rcases Nat.lt_or_ge (2 * p) (2 ^ w) with h | h
  · rw [Nat.mod_eq_of_lt h]
  · have : 2 * p = 2 ^ w := by omega
    rw [this, Nat.mod_self]
    simp only [Nat.zero_le, if_true, Nat.sub_zero]
    rw [if_neg (by omega)]

theorem bflyHi_lane {w : Nat} (hw : w = 16 ∨ w = 32) {p : Nat} (hp : 2 * p ≤ 2 ^ w) (u0 u1 wi wt : Nat)
    (hwi : wi < 2 ^ w) : hiLane w p u0 u1 wi wt = bflyHi w p u0 u1 wt wi := by
  unfold hiLane bflyHi
  simp only
  have ht : ((2 * p) % 2 ^ w + subWrap (2 ^ w) u0 u1) % 2 ^ w = (u0 + 2 * p + (2 ^ w - u1 % 2 ^ w)) % 2 ^ w := by
    unfold subWrap
    rcases hw with rfl | rfl <;> omega
  rw [ht]
  have ht1 : (u0 + 2 * p + (2 ^ w - u1 % 2 ^ w)) % 2 ^ w < 2 ^ w := Nat.mod_lt _ (Nat.two_pow_pos w)
  generalize (u0 + 2 * p + (2 ^ w - u1 % 2 ^ w)) % 2 ^ w = t1 at *
  have hpM : p < 2 ^ w := by have := Nat.two_pow_pos w; omega
  rw [shoupQ_eq ht1 hwi, Nat.mod_eq_of_lt hpM]
  unfold subWrap
  simp only [Nat.mod_mod]

/-- `hiList` unfolds on four conses -/
theorem hiList_cons (w p u0 u1 wt wi : Nat) (a b c d : List Nat) :
    hiList w p (u0 :: a) (u1 :: b) (wt :: c) (wi :: d) = bflyHi w p u0 u1 wt wi :: hiList w p a b c d := rfl

theorem vecBfly_lw_lanes {w : Nat} (hw : w = 16 ∨ w = 32) {p : Nat} (hp : 2 * p ≤ 2 ^ w) :
    ∀ (L : Nat) (U0 U1 WI WT : Reg), U0.length = L → U1.length = L → WI.length = L → WT.length = L →
      (∀ v ∈ WI, v < 2 ^ w) →
      vecBfly w L (lwMulhi w) p U0 U1 WI WT = (List.zipWith (bflyLo w p) U0 U1, hiList w p U0 U1 WT WI)
  | 0, U0, U1, WI, WT, h0, h1, _, _, _ => by
    have e0 : U0 = [] := List.length_eq_zero_iff.1 h0
    have e1 : U1 = [] := List.length_eq_zero_iff.1 h1
    subst e0 e1
    simp [vecBfly, add, sub, cmpgt, Simd.and, mullo, lwMulhi, hiList]
  | L + 1, u0 :: U0, u1 :: U1, wi :: WI, wt :: WT, h0, h1, hi, ht, bi => by
    have ih := vecBfly_lw_lanes hw hp L U0 U1 WI WT (by simpa using h0) (by simpa using h1) (by simpa using hi)
      (by simpa using ht) (fun v hv => bi v (List.mem_cons_of_mem _ hv))
    rw [vecBfly_lw_cons, ih, bflyLo_lane hw hp, bflyHi_lane hw hp _ _ _ _ (bi wi (List.mem_cons_self ..))]
    rfl

/-- **vector butterfly = lane-wise scalar butterfly** for every helper `mulhi` that returns the high word
of the lane products: all data words `U0 U1` (no range condition), all table words. -/
theorem vecBfly_lanes {w L : Nat} (hw : w = 16 ∨ w = 32) {mulhi : Reg → Reg → Reg} (hm : MulhiOK w L mulhi)
    {p : Nat} (hp : 2 * p ≤ 2 ^ w) (U0 U1 WI WT : Reg)
    (h0 : U0.length = L) (h1 : U1.length = L) (hi : WI.length = L) (ht : WT.length = L)
    (bi : ∀ v ∈ WI, v < 2 ^ w) :
    vecBfly w L mulhi p U0 U1 WI WT = (List.zipWith (bflyLo w p) U0 U1, hiList w p U0 U1 WT WI) := by
  rw [vecBfly_congr hm p U0 U1 WI WT h0 h1 hi bi]
  exact vecBfly_lw_lanes hw hp L U0 U1 WI WT h0 h1 hi ht bi

/-! ### loops -/

/-- a loop body is correct on full registers of `L` lanes -/
def BodyOK (w p L : Nat) (body : Body) : Prop :=
  ∀ a0 a1 ws' ws : Reg, a0.length = L → a1.length = L → ws'.length = L → ws.length = L →
    (∀ v ∈ ws', v < 2 ^ w) →
    body a0 a1 ws' ws = (List.zipWith (bflyLo w p) a0 a1, hiList w p a0 a1 ws ws')

theorem hiList_nil_left (w p : Nat) (b c d : List Nat) : hiList w p [] b c d = [] := by
  unfold hiList; rfl

theorem hiList_take_drop (w p : Nat) : ∀ (L : Nat) (a b c d : List Nat),
    hiList w p (a.take L) (b.take L) (c.take L) (d.take L) ++ hiList w p (a.drop L) (b.drop L) (c.drop L) (d.drop L)
      = hiList w p a b c d
  | 0, a, b, c, d => by simp [hiList_nil_left]
  | L + 1, a, b, c, d => by
    cases a with
    | nil => simp [hiList_nil_left]
    | cons u0 a =>
      cases b with
      | nil => simp [hiList]
      | cons u1 b =>
        cases c with
        | nil => simp [hiList]
        | cons wt c =>
          cases d with
          | nil => simp [hiList]
          | cons wi d =>
            simp only [List.take_succ_cons, List.drop_succ_cons, hiList_cons, List.cons_append,
              hiList_take_drop w p L a b c d]

theorem zipWith_take_drop {α β γ} (f : α → β → γ) (L : Nat) (a : List α) (b : List β) :
    List.zipWith f (a.take L) (b.take L) ++ List.zipWith f (a.drop L) (b.drop L) = List.zipWith f a b := by
  rw [← List.take_zipWith, ← List.drop_zipWith, List.take_append_drop]

theorem hiList_length (w p : Nat) : ∀ (h : Nat) (a b c d : List Nat), a.length = h → b.length = h → c.length = h →
    d.length = h → (hiList w p a b c d).length = h
  | 0, a, b, c, d, ha, _, _, _ => by
    have : a = [] := List.length_eq_zero_iff.1 ha
    subst this; simp [hiList_nil_left]
  | h + 1, u0 :: a, u1 :: b, wt :: c, wi :: d, ha, hb, hc, hd => by
    rw [hiList_cons, List.length_cons, hiList_length w p h a b c d (by simpa using ha) (by simpa using hb)
      (by simpa using hc) (by simpa using hd)]

theorem chunkLoop_eq {w p L : Nat} {body : Body} (hb : BodyOK w p L body) (rest : Body) :
    ∀ (n : Nat) (a0 a1 ws' ws : Reg), a0.length = n * L → a1.length = n * L → ws'.length = n * L →
      ws.length = n * L → (∀ v ∈ ws', v < 2 ^ w) →
      chunkLoop L body rest n a0 a1 ws' ws =
        (List.zipWith (bflyLo w p) a0 a1 ++ (rest [] [] [] []).1, hiList w p a0 a1 ws ws' ++ (rest [] [] [] []).2)
  | 0, a0, a1, ws', ws, h0, h1, h2, h3, _ => by
    have e0 : a0 = [] := List.length_eq_zero_iff.1 (by simpa using h0)
    have e1 : a1 = [] := List.length_eq_zero_iff.1 (by simpa using h1)
    have e2 : ws' = [] := List.length_eq_zero_iff.1 (by simpa using h2)
    have e3 : ws = [] := List.length_eq_zero_iff.1 (by simpa using h3)
    subst e0 e1 e2 e3
    simp [chunkLoop, hiList_nil_left]
  | n + 1, a0, a1, ws', ws, h0, h1, h2, h3, bi => by
    have hL : L ≤ (n + 1) * L := by rw [Nat.add_mul]; omega
    have hd : (n + 1) * L - L = n * L := by rw [Nat.add_mul]; omega
    have ih := chunkLoop_eq hb rest n (a0.drop L) (a1.drop L) (ws'.drop L) (ws.drop L)
      (by rw [List.length_drop, h0, hd]) (by rw [List.length_drop, h1, hd]) (by rw [List.length_drop, h2, hd])
      (by rw [List.length_drop, h3, hd]) (fun v hv => bi v (List.mem_of_mem_drop hv))
    have hbody := hb (a0.take L) (a1.take L) (ws'.take L) (ws.take L)
      (by rw [List.length_take, h0]; omega) (by rw [List.length_take, h1]; omega)
      (by rw [List.length_take, h2]; omega) (by rw [List.length_take, h3]; omega)
      (fun v hv => bi v (List.mem_of_mem_take hv))
    simp only [chunkLoop, hbody, ih]
    rw [← List.append_assoc, ← List.append_assoc, zipWith_take_drop, hiList_take_drop]

theorem keep_nil : keep [] [] [] [] = ([], []) := rfl

theorem layerBlock_def (w p : Nat) (ws ws' b : List Nat) :
    layerBlock w p ws ws' b =
      List.zipWith (bflyLo w p) (b.take (b.length / 2)) (b.drop (b.length / 2)) ++
        hiList w p (b.take (b.length / 2)) (b.drop (b.length / 2)) ws ws' := rfl

/-- **one SSE block = one serial block** when the half block is a whole number of registers -/
theorem sseBlock_eq {w p L : Nat} {body : Body} (hb : BodyOK w p L body) (hL : 0 < L) (n : Nat)
    (ws ws' b : List Nat) (hlen : b.length = 2 * (n * L)) (h1 : ws.length = n * L) (h2 : ws'.length = n * L)
    (bi : ∀ v ∈ ws', v < 2 ^ w) :
    sseBlock body L ws ws' b = layerBlock w p ws ws' b := by
  have hh : b.length / 2 = n * L := by omega
  have hn : (n * L + L - 1) / L = n := by
    have : n * L + L - 1 = (L - 1) + n * L := by omega
    rw [this, Nat.add_mul_div_right _ _ hL, Nat.div_eq_of_lt (by omega)]; omega
  rw [layerBlock_def]
  unfold sseBlock
  simp only [hh, hn]
  rw [chunkLoop_eq hb keep n _ _ ws' ws (by rw [List.length_take, hlen]; omega)
    (by rw [List.length_drop, hlen]; omega) h2 h1 bi]
  simp [keep_nil]

/-- **one AVX2 block = one serial block**: either the half block is a whole number of AVX2 registers, or
it is exactly one SSE register (the fallback of `ntt_loop_avx2_unrolled`). -/
theorem avx2Block_eq {w p La Ls : Nat} {bodyA bodyS : Body} (hA : BodyOK w p La bodyA) (hS : BodyOK w p Ls bodyS)
    (h : Nat) (hcase : La ∣ h ∨ (0 < h ∧ h < La ∧ h = Ls))
    (ws ws' b : List Nat) (hlen : b.length = 2 * h) (h1 : ws.length = h) (h2 : ws'.length = h)
    (bi : ∀ v ∈ ws', v < 2 ^ w) :
    avx2Block bodyA bodyS La Ls ws ws' b = layerBlock w p ws ws' b := by
  have hh : b.length / 2 = h := by omega
  rw [layerBlock_def]
  unfold avx2Block
  simp only [hh]
  rcases hcase with hd | ⟨hpos, hlt, hs⟩
  · have hn : h / La * La = h := Nat.div_mul_cancel hd
    rw [chunkLoop_eq hA _ (h / La) _ _ ws' ws (by rw [List.length_take, hlen, hn]; omega)
      (by rw [List.length_drop, hlen, hn]; omega) (by rw [h2, hn]) (by rw [h1, hn]) bi]
    simp [hn]
  · have hn : h / La = 0 := Nat.div_eq_of_lt hlt
    simp only [hn, chunkLoop, Nat.zero_mul]
    rw [if_pos (by omega)]
    have := chunkLoop_eq hS keep 1 (b.take h) (b.drop h) ws' ws (by rw [List.length_take, hlen]; omega)
      (by rw [List.length_drop, hlen]; omega) (by omega) (by omega) bi
    simp only [chunkLoop, Prod.mk.injEq, keep_nil, List.append_nil] at this
    rw [this.1, this.2]

theorem mapBlocks_congr {N : Nat} {f g : List Nat → List Nat} (hfg : ∀ b : List Nat, b.length = N → f b = g b) :
    ∀ (M : Nat) (x : List Nat), x.length = M * N → mapBlocks N f M x = mapBlocks N g M x
  | 0, _, _ => rfl
  | M + 1, x, hx => by
    have hN : N ≤ (M + 1) * N := by rw [Nat.add_mul]; omega
    have hd : (M + 1) * N - N = M * N := by rw [Nat.add_mul]; omega
    unfold mapBlocks
    rw [hfg _ (by rw [List.length_take, hx]; omega),
      mapBlocks_congr hfg M (x.drop N) (by rw [List.length_drop, hx, hd])]

theorem mapBlocks_length {N : Nat} {f : List Nat → List Nat} (hf : ∀ b : List Nat, b.length = N → (f b).length = N) :
    ∀ (M : Nat) (x : List Nat), x.length = M * N → (mapBlocks N f M x).length = M * N
  | 0, _, _ => by simp [mapBlocks]
  | M + 1, x, hx => by
    have hN : N ≤ (M + 1) * N := by rw [Nat.add_mul]; omega
    have hd : (M + 1) * N - N = M * N := by rw [Nat.add_mul]; omega
    unfold mapBlocks
    rw [List.length_append, hf _ (by rw [List.length_take, hx]; omega),
      mapBlocks_length hf M (x.drop N) (by rw [List.length_drop, hx, hd]), Nat.add_mul]; omega

theorem layerBlock_length (w p h : Nat) (ws ws' b : List Nat) (hb : b.length = 2 * h) (h1 : ws.length = h)
    (h2 : ws'.length = h) : (layerBlock w p ws ws' b).length = 2 * h := by
  have hh : b.length / 2 = h := by omega
  rw [layerBlock_def, hh, List.length_append, List.length_zipWith,
    hiList_length w p h _ _ _ _ (by rw [List.length_take, hb]; omega) (by rw [List.length_drop, hb]; omega) h1 h2,
    List.length_take, List.length_drop, hb]
  omega

/-- a vector block function agrees with the serial block on every block of `2^(m+1) ≥ 16` words -/
def VblkOK (w p : Nat) (vblk : List Nat → List Nat → List Nat → List Nat) : Prop :=
  ∀ (m : Nat), 3 ≤ m → ∀ ws ws' b : List Nat, b.length = 2 ^ (m + 1) → ws.length = 2 ^ m → ws'.length = 2 ^ m →
    (∀ v ∈ ws', v < 2 ^ w) → vblk ws ws' b = layerBlock w p ws ws' b

/-- **the vector transform loop equals the serial loop**: `j` layers starting with `M` blocks of
`N = 2^(j+2)` words (so the last, serial-body layer works on blocks of 8 and the vector layers on blocks of
at least 16), data of `M·N` arbitrary words, tables long enough, `winvtab` entries words. -/
theorem nttLoopVec_eq {w p : Nat} {vblk : List Nat → List Nat → List Nat → List Nat} (hv : VblkOK w p vblk) :
    ∀ (j N M : Nat) (wt wt' x : List Nat), N = 2 ^ (j + 2) → x.length = M * N → N ≤ wt.length + 4 → N ≤ wt'.length + 4 →
      (∀ v ∈ wt', v < 2 ^ w) →
      nttLoopVec w p vblk j N M wt wt' x = nttLoop w p j N M wt wt' x
  | 0, _, _, _, _, _, _, _, _, _, _ => rfl
  | 1, _, _, _, _, _, _, _, _, _, _ => rfl
  | j + 2, N, M, wt, wt', x, hN, hx, h1, h2, bi => by
    have hNe : N = 2 * 2 ^ (j + 3) := by rw [hN]; ring_nf
    have hh : N / 2 = 2 ^ (j + 3) := by omega
    have h8 : 8 ≤ 2 ^ (j + 3) := by
      have : 2 ^ 3 ≤ 2 ^ (j + 3) := Nat.pow_le_pow_right (by norm_num) (by omega)
      simpa using this
    have hwt : (wt.take (N / 2)).length = 2 ^ (j + 3) := by rw [List.length_take]; omega
    have hwt' : (wt'.take (N / 2)).length = 2 ^ (j + 3) := by rw [List.length_take]; omega
    have bi' : ∀ v ∈ wt'.take (N / 2), v < 2 ^ w := fun v hv => bi v (List.mem_of_mem_take hv)
    have hblk : ∀ b : List Nat, b.length = N →
        vblk (wt.take (N / 2)) (wt'.take (N / 2)) b = layerBlock w p (wt.take (N / 2)) (wt'.take (N / 2)) b := by
      intro b hb
      exact hv (j + 3) (by omega) _ _ b (by rw [hb, hNe, Nat.pow_succ]; ring) hwt hwt' bi'
    have hlen : (mapBlocks N (layerBlock w p (wt.take (N / 2)) (wt'.take (N / 2))) M x).length = 2 * M * (N / 2) := by
      rw [mapBlocks_length (fun b hb => by
        rw [layerBlock_length w p (2 ^ (j + 3)) _ _ b (by omega) hwt hwt']; omega) M x hx]
      rw [hNe]; have : 2 * 2 ^ (j + 3) / 2 = 2 ^ (j + 3) := by omega
      rw [this]; ring
    unfold nttLoopVec nttLoop
    rw [mapBlocks_congr hblk M x hx]
    exact nttLoopVec_eq hv (j + 1) (N / 2) (2 * M) _ _ _ hh hlen (by rw [List.length_drop]; omega)
      (by rw [List.length_drop]; omega) (fun v hv => bi v (List.mem_of_mem_drop hv))

/-! ### the four loop bodies and the two loops -/

theorem sseBody_ok {w : Nat} (hw : w = 16 ∨ w = 32) {p : Nat} (hp : 2 * p ≤ 2 ^ w) :
    BodyOK w p (sseLanes w) (sseBody w p) := by
  intro a0 a1 ws' ws h0 h1 h2 h3 bi
  rcases hw with rfl | rfl
  · exact vecBfly_lanes (Or.inl rfl) (mulhiOK_16 8) hp a0 a1 ws' ws h0 h1 h2 h3 bi
  · exact vecBfly_lanes (Or.inr rfl) mulhiOK_sse32 hp a0 a1 ws' ws h0 h1 h2 h3 bi

theorem avx2Body_ok {w : Nat} (hw : w = 16 ∨ w = 32) {p : Nat} (hp : 2 * p ≤ 2 ^ w) :
    BodyOK w p (avx2Lanes w) (avx2Body w p) := by
  intro a0 a1 ws' ws h0 h1 h2 h3 bi
  rcases hw with rfl | rfl
  · exact vecBfly_lanes (Or.inl rfl) (mulhiOK_16 16) hp a0 a1 ws' ws h0 h1 h2 h3 bi
  · exact vecBfly_lanes (Or.inr rfl) mulhiOK_avx32 hp a0 a1 ws' ws h0 h1 h2 h3 bi

theorem pow_split (m a : Nat) (h : a ≤ m) : 2 ^ m = 2 ^ (m - a) * 2 ^ a := by
  rw [← Nat.pow_add]; congr 1; omega

theorem sseVblk_ok {w : Nat} (hw : w = 16 ∨ w = 32) {p : Nat} (hp : 2 * p ≤ 2 ^ w) :
    VblkOK w p (sseBlock (sseBody w p) (sseLanes w)) := by
  intro m hm ws ws' b hb h1 h2 bi
  have hL : sseLanes w = 2 ^ 3 ∨ sseLanes w = 2 ^ 2 := by rcases hw with rfl | rfl <;> simp [sseLanes]
  rcases hL with hL | hL
  · refine sseBlock_eq (sseBody_ok hw hp) (by rw [hL]; norm_num) (2 ^ (m - 3)) ws ws' b ?_ ?_ ?_ bi
    · rw [hb, hL, ← pow_split m 3 (by omega), Nat.pow_succ]; ring
    · rw [h1, hL, ← pow_split m 3 (by omega)]
    · rw [h2, hL, ← pow_split m 3 (by omega)]
  · refine sseBlock_eq (sseBody_ok hw hp) (by rw [hL]; norm_num) (2 ^ (m - 2)) ws ws' b ?_ ?_ ?_ bi
    · rw [hb, hL, ← pow_split m 2 (by omega), Nat.pow_succ]; ring
    · rw [h1, hL, ← pow_split m 2 (by omega)]
    · rw [h2, hL, ← pow_split m 2 (by omega)]

theorem avx2Vblk_ok {w : Nat} (hw : w = 16 ∨ w = 32) {p : Nat} (hp : 2 * p ≤ 2 ^ w) :
    VblkOK w p (avx2Block (avx2Body w p) (sseBody w p) (avx2Lanes w) (sseLanes w)) := by
  intro m hm ws ws' b hb h1 h2 bi
  refine avx2Block_eq (avx2Body_ok hw hp) (sseBody_ok hw hp) (2 ^ m) ?_ ws ws' b (by rw [hb, Nat.pow_succ]; ring) h1 h2 bi
  rcases hw with rfl | rfl
  · -- 16 lanes of 16 bits; the block of 16 words (m = 3) falls back to one SSE body of 8 lanes
    rcases Nat.lt_or_ge m 4 with h | h
    · have : m = 3 := by omega
      subst this
      right; simp [avx2Lanes, sseLanes]
    · left
      show 256 / 16 ∣ 2 ^ m
      exact ⟨2 ^ (m - 4), by rw [pow_split m 4 h]; ring⟩
  · left
    show 256 / 32 ∣ 2 ^ m
    exact ⟨2 ^ (m - 3), by rw [pow_split m 3 (by omega)]; ring⟩

/-- **`ntt_loop<sse>` = `ntt_loop<serial>`** -/
theorem nttLoopSse_eq {w : Nat} (hw : w = 16 ∨ w = 32) {p : Nat} (hp : 2 * p ≤ 2 ^ w)
    (j N M : Nat) (wt wt' x : List Nat) (hN : N = 2 ^ (j + 2)) (hx : x.length = M * N)
    (h1 : N ≤ wt.length + 4) (h2 : N ≤ wt'.length + 4) (bi : ∀ v ∈ wt', v < 2 ^ w) :
    nttLoopSse w p j N M wt wt' x = nttLoop w p j N M wt wt' x :=
  nttLoopVec_eq (sseVblk_ok hw hp) j N M wt wt' x hN hx h1 h2 bi

/-- **`ntt_loop<avx2>` = `ntt_loop<serial>`** -/
theorem nttLoopAvx2_eq {w : Nat} (hw : w = 16 ∨ w = 32) {p : Nat} (hp : 2 * p ≤ 2 ^ w)
    (j N M : Nat) (wt wt' x : List Nat) (hN : N = 2 ^ (j + 2)) (hx : x.length = M * N)
    (h1 : N ≤ wt.length + 4) (h2 : N ≤ wt'.length + 4) (bi : ∀ v ∈ wt', v < 2 ^ w) :
    nttLoopAvx2 w p j N M wt wt' x = nttLoop w p j N M wt wt' x :=
  nttLoopVec_eq (avx2Vblk_ok hw hp) j N M wt wt' x hN hx h1 h2 bi

theorem nttWordVec_eq {w p : Nat}
    {loop : Nat → Nat → Nat → List Nat → List Nat → List Nat → List Nat × List Nat × List Nat}
    (k : Nat) (hk : 3 ≤ k) (wt wt' x : List Nat)
    (hloop : loop (k - 2) (2 ^ k) 1 wt wt' x = nttLoop w p (k - 2) (2 ^ k) 1 wt wt' x) :
    nttWordVec w p k loop wt wt' x = some (nttWord w p k wt wt' x) := by
  obtain ⟨k', rfl⟩ : ∃ k', k = k' + 3 := ⟨k - 3, by omega⟩
  have e : k' + 3 - 2 = k' + 1 := by omega
  rw [e] at hloop
  unfold nttWordVec nttWord
  simp only [hloop]

/-- **`core::ntt` of the SSE build = `core::ntt` of the serial build** (16- and 32-bit limbs, degree ≥ 8) -/
theorem nttWordSse_eq {w : Nat} (hw : w = 16 ∨ w = 32) {p : Nat} (hp : 2 * p ≤ 2 ^ w) (k : Nat) (hk : 3 ≤ k)
    (wt wt' x : List Nat) (hx : x.length = 2 ^ k) (h1 : 2 ^ k ≤ wt.length + 4) (h2 : 2 ^ k ≤ wt'.length + 4)
    (bi : ∀ v ∈ wt', v < 2 ^ w) :
    nttWordSse w p k wt wt' x = some (nttWord w p k wt wt' x) := by
  apply nttWordVec_eq k hk
  exact nttLoopSse_eq hw hp (k - 2) (2 ^ k) 1 wt wt' x (by congr 1; omega) (by omega) h1 h2 bi

theorem nttWordAvx2_eq {w : Nat} (hw : w = 16 ∨ w = 32) {p : Nat} (hp : 2 * p ≤ 2 ^ w) (k : Nat) (hk : 3 ≤ k)
    (wt wt' x : List Nat) (hx : x.length = 2 ^ k) (h1 : 2 ^ k ≤ wt.length + 4) (h2 : 2 ^ k ≤ wt'.length + 4)
    (bi : ∀ v ∈ wt', v < 2 ^ w) :
    nttWordAvx2 w p k wt wt' x = some (nttWord w p k wt wt' x) := by
  apply nttWordVec_eq k hk
  exact nttLoopAvx2_eq hw hp (k - 2) (2 ^ k) 1 wt wt' x (by congr 1; omega) (by omega) h1 h2 bi

/-! ### `operator bool` of comparison expressions -/

theorem scanTmp_append (isEq : Bool) (a b : List Nat) :
    scanTmp isEq (a ++ b) = (scanTmp isEq a).orElse (fun _ => scanTmp isEq b) := by
  induction a with
  | nil => simp [scanTmp]
  | cons t r ih =>
    simp only [List.cons_append, scanTmp]
    by_cases hc : (if isEq = true then t = 0 else t ≠ 0)
    · rw [if_pos hc, if_pos hc]; rfl
    · rw [if_neg hc, if_neg hc]; exact ih

/-- groups of `64/w` lanes: equal 64-bit values iff equal lanes -/
theorem packLE_inj (w : Nat) : ∀ (a b : List Nat), a.length = b.length → (∀ v ∈ a, v < 2 ^ w) → (∀ v ∈ b, v < 2 ^ w) →
    (packLE w a = packLE w b ↔ a = b)
  | [], [], _, _, _ => by simp
  | x :: a, y :: b, hl, ha, hb => by
    have hx := ha x (List.mem_cons_self ..)
    have hy := hb y (List.mem_cons_self ..)
    have ih := packLE_inj w a b (by simpa using hl) (fun v hv => ha v (List.mem_cons_of_mem _ hv))
      (fun v hv => hb v (List.mem_cons_of_mem _ hv))
    simp only [packLE, List.cons.injEq]
    constructor
    · intro h
      have h1 : (x + 2 ^ w * packLE w a) % 2 ^ w = (y + 2 ^ w * packLE w b) % 2 ^ w := by rw [h]
      rw [Nat.add_mul_mod_self_left, Nat.add_mul_mod_self_left, Nat.mod_eq_of_lt hx, Nat.mod_eq_of_lt hy] at h1
      have h2 : (x + 2 ^ w * packLE w a) / 2 ^ w = (y + 2 ^ w * packLE w b) / 2 ^ w := by rw [h]
      rw [Nat.add_mul_div_left _ _ (Nat.two_pow_pos w), Nat.add_mul_div_left _ _ (Nat.two_pow_pos w),
        Nat.div_eq_of_lt hx, Nat.div_eq_of_lt hy, Nat.zero_add, Nat.zero_add] at h2
      exact ⟨h1, ih.1 h2⟩
    · rintro ⟨rfl, h⟩
      rw [ih.2 h]

theorem scan_unpack_ones (w : Nat) (hw : w = 16 ∨ w = 32 ∨ w = 64) (isEq : Bool) :
    scanTmp isEq (unpackLE w (64 / w) (ones 64)) = if isEq then none else some true := by
  rcases hw with rfl | rfl | rfl <;> cases isEq <;> decide

theorem scan_unpack_zero (w : Nat) (hw : w = 16 ∨ w = 32 ∨ w = 64) (isEq : Bool) :
    scanTmp isEq (unpackLE w (64 / w) 0) = if isEq then some false else none := by
  rcases hw with rfl | rfl | rfl <;> cases isEq <;> decide

theorem take_drop_eq_iff {α} (g : Nat) (a b : List α) : a = b ↔ a.take g = b.take g ∧ a.drop g = b.drop g := by
  constructor
  · rintro rfl; exact ⟨rfl, rfl⟩
  · rintro ⟨h1, h2⟩
    rw [← List.take_append_drop g a, ← List.take_append_drop g b, h1, h2]

/-- one register: scanning the stored result of `x == y` (resp. `x != y`) finds a deciding element iff the
registers differ -/
theorem scan_reg {w : Nat} (hw : w = 16 ∨ w = 32 ∨ w = 64) (isEq : Bool) :
    ∀ (c : Nat) (a b : List Nat), a.length = c * (64 / w) → b.length = c * (64 / w) →
      (∀ v ∈ a, v < 2 ^ w) → (∀ v ∈ b, v < 2 ^ w) →
      scanTmp isEq (from64 w (if isEq then vecEq64 (to64 w c a) (to64 w c b) else vecNeq64 (to64 w c a) (to64 w c b)))
        = if a = b then none else some (!isEq)
  | 0, a, b, ha, hb, _, _ => by
    have e0 : a = [] := List.length_eq_zero_iff.1 (by simpa using ha)
    have e1 : b = [] := List.length_eq_zero_iff.1 (by simpa using hb)
    subst e0 e1
    cases isEq <;> simp [to64, vecEq64, vecNeq64, from64, scanTmp]
  | c + 1, a, b, ha, hb, ba, bb => by
    have hg : 64 / w ≤ (c + 1) * (64 / w) := by rw [Nat.add_mul]; omega
    have hd : (c + 1) * (64 / w) - 64 / w = c * (64 / w) := by rw [Nat.add_mul]; omega
    have ih := scan_reg hw isEq c (a.drop (64 / w)) (b.drop (64 / w)) (by rw [List.length_drop, ha, hd])
      (by rw [List.length_drop, hb, hd]) (fun v hv => ba v (List.mem_of_mem_drop hv))
      (fun v hv => bb v (List.mem_of_mem_drop hv))
    have hinj := packLE_inj w (a.take (64 / w)) (b.take (64 / w))
      (by rw [List.length_take, List.length_take, ha, hb]) (fun v hv => ba v (List.mem_of_mem_take hv))
      (fun v hv => bb v (List.mem_of_mem_take hv))
    have hab := take_drop_eq_iff (64 / w) a b
    cases isEq
    · simp only [Bool.false_eq_true, if_false, to64, vecNeq64, List.zipWith_cons_cons, from64, List.flatMap_cons,
        scanTmp_append] at ih ⊢
      by_cases h : a.take (64 / w) = b.take (64 / w)
      · rw [if_pos (hinj.2 h), scan_unpack_zero w hw]
        simp only [Bool.false_eq_true, if_false, Option.orElse_none]
        rw [ih]
        by_cases h2 : a.drop (64 / w) = b.drop (64 / w)
        · rw [if_pos h2, if_pos (hab.2 ⟨h, h2⟩)]
        · rw [if_neg h2, if_neg (fun e => h2 (hab.1 e).2)]
      · rw [if_neg (fun hh => h (hinj.1 hh)), scan_unpack_ones w hw, if_neg (fun e => h (hab.1 e).1)]
        rfl
    · simp only [if_true, to64, vecEq64, List.zipWith_cons_cons, from64, List.flatMap_cons,
        scanTmp_append] at ih ⊢
      by_cases h : a.take (64 / w) = b.take (64 / w)
      · rw [if_pos (hinj.2 h), scan_unpack_ones w hw]
        simp only [if_true, Option.orElse_none]
        rw [ih]
        by_cases h2 : a.drop (64 / w) = b.drop (64 / w)
        · rw [if_pos h2, if_pos (hab.2 ⟨h, h2⟩)]
        · rw [if_neg h2, if_neg (fun e => h2 (hab.1 e).2)]
      · rw [if_neg (fun hh => h (hinj.1 hh)), scan_unpack_zero w hw, if_neg (fun e => h (hab.1 e).1)]
        rfl

/-- **vector `operator bool`** on `n` registers of `L = c·(64/w)` elements: `a == b` is true iff all elements
are equal, `a != b` iff some element differs. -/
theorem exprBoolVec_eq {w : Nat} (hw : w = 16 ∨ w = 32 ∨ w = 64) (isEq : Bool) {L c : Nat}
    (hL : L = c * (64 / w)) (hc : L * w / 64 = c) :
    ∀ (n : Nat) (X Y : List Nat), X.length = n * L → Y.length = n * L → (∀ v ∈ X, v < 2 ^ w) → (∀ v ∈ Y, v < 2 ^ w) →
      exprBoolVec isEq w L n X Y = if X = Y then isEq else !isEq
  | 0, X, Y, hX, hY, _, _ => by
    have e0 : X = [] := List.length_eq_zero_iff.1 (by simpa using hX)
    have e1 : Y = [] := List.length_eq_zero_iff.1 (by simpa using hY)
    subst e0 e1
    simp [exprBoolVec]
  | n + 1, X, Y, hX, hY, bX, bY => by
    have hg : L ≤ (n + 1) * L := by rw [Nat.add_mul]; omega
    have hd : (n + 1) * L - L = n * L := by rw [Nat.add_mul]; omega
    have ih := exprBoolVec_eq hw isEq hL hc n (X.drop L) (Y.drop L) (by rw [List.length_drop, hX, hd])
      (by rw [List.length_drop, hY, hd]) (fun v hv => bX v (List.mem_of_mem_drop hv))
      (fun v hv => bY v (List.mem_of_mem_drop hv))
    have hs := scan_reg hw isEq c (X.take L) (Y.take L) (by rw [List.length_take, hX, ← hL]; omega)
      (by rw [List.length_take, hY, ← hL]; omega) (fun v hv => bX v (List.mem_of_mem_take hv))
      (fun v hv => bY v (List.mem_of_mem_take hv))
    unfold exprBoolVec
    simp only [hc]
    have hab := take_drop_eq_iff L X Y
    rw [hs]
    by_cases h : X.take L = Y.take L
    · rw [if_pos h]
      simp only
      rw [ih]
      by_cases h2 : X.drop L = Y.drop L
      · rw [if_pos h2, if_pos (hab.2 ⟨h, h2⟩)]
      · rw [if_neg h2, if_neg (fun e => h2 (hab.1 e).2)]
    · rw [if_neg h, if_neg (fun e => h (hab.1 e).1)]

theorem exprBoolScalar_eq (isEq : Bool) : ∀ (X Y : List Nat), X.length = Y.length →
    exprBoolScalar isEq X Y = if X = Y then isEq else !isEq
  | [], [], _ => by simp [exprBoolScalar]
  | x :: X, y :: Y, h => by
    have ih := exprBoolScalar_eq isEq X Y (by simpa using h)
    unfold exprBoolScalar
    by_cases hxy : x = y
    · subst hxy
      cases isEq <;> simp [scanTmp, eqmod, neqmod, ih]
    · cases isEq <;> simp [scanTmp, eqmod, neqmod, hxy]

/-- **the backend never matters for `==` / `!=`** -/
theorem exprBoolVec_eq_scalar {w : Nat} (hw : w = 16 ∨ w = 32 ∨ w = 64) (isEq : Bool) {L c : Nat}
    (hL : L = c * (64 / w)) (hc : L * w / 64 = c) (n : Nat) (X Y : List Nat)
    (hX : X.length = n * L) (hY : Y.length = n * L) (bX : ∀ v ∈ X, v < 2 ^ w) (bY : ∀ v ∈ Y, v < 2 ^ w) :
    exprBoolVec isEq w L n X Y = exprBoolScalar isEq X Y := by
  rw [exprBoolVec_eq hw isEq hL hc n X Y hX hY bX bY, exprBoolScalar_eq isEq X Y (by rw [hX, hY])]

end Nfl.Simd
