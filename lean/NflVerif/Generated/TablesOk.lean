import NflVerif.Generated.Params16
import NflVerif.Generated.Params32
import NflVerif.Generated.Params64
namespace Nfl.Gen
set_option maxRecDepth 100000
theorem table16_check : table16.check = true := by decide +kernel
theorem table32_check : table32.check = true := by decide +kernel
theorem table64_check : table64.check = true := by decide +kernel
theorem pn64_small : Pn64.all (fun pn => decide (pn < 2 ^ 60)) = true := by decide +kernel
end Nfl.Gen
