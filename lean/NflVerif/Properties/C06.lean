/-
C06 — Every row of the modulus tables supports a valid transform and CRT.

The tables are *regenerated from /repo's params.hpp on every run* (`tools/gen_params.py`);
`Generated/TablesOk.lean` has the Lean kernel evaluate the Boolean row checker on every row
(`decide +kernel`: the quantifier is the finite table, so this is a proof, not a sample).
This file turns the Boolean facts into the mathematical statements of the property.
-/
import NflVerif.Generated.TablesOk
import NflVerif.Proofs.RowOK
import Mathlib.Data.Nat.GCD.Basic

namespace Nfl.C06
open Nfl Nfl.Gen

/-! ### every row: prime of the advertised size, ≡ 1 mod 2·kMax, root of order exactly 2·kMax,
true inverse of kMax, true Newton quotient -/

theorem table16_rows_ok : ∀ r ∈ table16.rows, RowOK 16 9 r :=
  (Table.check_sound table16 (by decide) table16_check).1
theorem table32_rows_ok : ∀ r ∈ table32.rows, RowOK 32 15 r :=
  (Table.check_sound table32 (by decide) table32_check).1
theorem table64_rows_ok : ∀ r ∈ table64.rows, RowOK 64 20 r :=
  (Table.check_sound table64 (by decide) table64_check).1

/-- `lk` really is log2 of the maximum degree that `params.hpp` advertises. -/
theorem kMax16 : kMaxPolyDegree16 = 2 ^ table16.lk := by decide
theorem kMax32 : kMaxPolyDegree32 = 2 ^ table32.lk := by decide
theorem kMax64 : kMaxPolyDegree64 = 2 ^ table64.lk := by decide

/-- advertised modulus size is two bits less than the limb -/
theorem bitsize16 : kModulusBitsize16 + 2 = 16 ∧ kModulusRepresentationBitsize16 = 16 ∧ sizeofValue16 * 8 = 16 ∧ sizeofGreater16 * 8 = 32 := by decide
theorem bitsize32 : kModulusBitsize32 + 2 = 32 ∧ kModulusRepresentationBitsize32 = 32 ∧ sizeofValue32 * 8 = 32 ∧ sizeofGreater32 * 8 = 64 := by decide
theorem bitsize64 : kModulusBitsize64 + 2 = 64 ∧ kModulusRepresentationBitsize64 = 64 ∧ sizeofValue64 * 8 = 64 ∧ sizeofGreater64 * 8 = 128 := by decide

set_option maxRecDepth 100000 in
/-- all four tables have the advertised number of rows -/
theorem lengths :
    table16.rows.length = kMaxNbModuli16 ∧ table32.rows.length = kMaxNbModuli32 ∧
    table64.rows.length = kMaxNbModuli64 := by decide +kernel

/-! ### all rows distinct; every prefix is a pairwise-coprime modulus set -/

theorem rows_distinct16 : P16.Pairwise (· > ·) := (Table.check_sound table16 (by decide) table16_check).2
theorem rows_distinct32 : P32.Pairwise (· > ·) := (Table.check_sound table32 (by decide) table32_check).2
theorem rows_distinct64 : P64.Pairwise (· > ·) := (Table.check_sound table64 (by decide) table64_check).2

theorem mem_P_of_rows : ∀ (P Pn R I : List Nat), ∀ p ∈ P, P.length ≤ Pn.length → P.length ≤ R.length →
    P.length ≤ I.length → ∃ r ∈ zipRows P Pn R I, r.p = p
  | [], _, _, _, p, hp, _, _, _ => by simp at hp
  | _ :: _, [], _, _, _, _, h, _, _ => by simp at h
  | _ :: _, _ :: _, [], _, _, _, _, h, _ => by simp at h
  | _ :: _, _ :: _, _ :: _, [], _, _, _, _, h => by simp at h
  | a :: ps, b :: pns, c :: rs, d :: is, p, hp, h1, h2, h3 => by
    rcases List.mem_cons.1 hp with rfl | hp
    · exact ⟨⟨p, b, c, d⟩, by simp [zipRows], rfl⟩
    · obtain ⟨r, hr, hrp⟩ := mem_P_of_rows ps pns rs is p hp (by simpa using h1) (by simpa using h2) (by simpa using h3)
      exact ⟨r, by simp [zipRows, hr], hrp⟩

/-- Generic: a strictly decreasing list of primes is pairwise coprime, and so is every prefix. -/
theorem prefix_coprime_of (P : List Nat) (hd : P.Pairwise (· > ·)) (hp : ∀ p ∈ P, p.Prime) (m : Nat) :
    (P.take m).Pairwise Nat.Coprime := by
  have h : P.Pairwise Nat.Coprime := by
    have : P.Pairwise (fun a b => a > b ∧ a.Prime ∧ b.Prime) := by
      rw [List.pairwise_iff_forall_sublist] at hd ⊢
      intro a b hab
      exact ⟨hd hab, hp a (hab.subset (by simp)), hp b (hab.subset (by simp))⟩
    exact this.imp (fun {a b} ⟨hgt, ha, hb⟩ => (Nat.coprime_primes ha hb).2 (by omega))
  exact h.sublist (List.take_sublist m P)

set_option maxRecDepth 100000 in
theorem lens16 : P16.length ≤ Pn16.length ∧ P16.length ≤ roots16.length ∧ P16.length ≤ invN16.length := by decide +kernel
set_option maxRecDepth 100000 in
theorem lens32 : P32.length ≤ Pn32.length ∧ P32.length ≤ roots32.length ∧ P32.length ≤ invN32.length := by decide +kernel
set_option maxRecDepth 100000 in
theorem lens64 : P64.length ≤ Pn64.length ∧ P64.length ≤ roots64.length ∧ P64.length ≤ invN64.length := by decide +kernel

theorem primes16 : ∀ p ∈ P16, p.Prime := fun p hp => by
  obtain ⟨r, hr, rfl⟩ := mem_P_of_rows P16 Pn16 roots16 invN16 p hp lens16.1 lens16.2.1 lens16.2.2
  exact (table16_rows_ok r hr).prime
theorem primes32 : ∀ p ∈ P32, p.Prime := fun p hp => by
  obtain ⟨r, hr, rfl⟩ := mem_P_of_rows P32 Pn32 roots32 invN32 p hp lens32.1 lens32.2.1 lens32.2.2
  exact (table32_rows_ok r hr).prime
theorem primes64 : ∀ p ∈ P64, p.Prime := fun p hp => by
  obtain ⟨r, hr, rfl⟩ := mem_P_of_rows P64 Pn64 roots64 invN64 p hp lens64.1 lens64.2.1 lens64.2.2
  exact (table64_rows_ok r hr).prime

/-- "all prefixes of the tables used as a modulus set": unique CRT reconstruction is available. -/
theorem prefix_coprime16 (m : Nat) : (P16.take m).Pairwise Nat.Coprime := prefix_coprime_of _ rows_distinct16 primes16 m
theorem prefix_coprime32 (m : Nat) : (P32.take m).Pairwise Nat.Coprime := prefix_coprime_of _ rows_distinct32 primes32 m
theorem prefix_coprime64 (m : Nat) : (P64.take m).Pairwise Nat.Coprime := prefix_coprime_of _ rows_distinct64 primes64 m

/-! ### every degree 2^k ≤ kMax has a well-defined transform (through the order of the root) -/

variable {w lk : Nat} {r : Row}

/-- `φ_k = root^(2^(lk-k))` satisfies `φ_k^(2^k) = -1`: it is a primitive `2^(k+1)`-th root of
unity, so `X^(2^k)+1` splits and the degree-`2^k` negacyclic transform exists. -/
theorem derived_root (h : RowOK w lk r) (k : Nat) (hk : k ≤ lk) :
    (((r.root : ZMod r.p)) ^ (2 ^ (lk - k))) ^ (2 ^ k) = -1 := by
  rw [← pow_mul, ← pow_add, Nat.sub_add_cancel hk]; exact h.root_pow_zmod

theorem derived_root_order (h : RowOK w lk r) (hw : 5 ≤ w) (k : Nat) (hk : k ≤ lk) :
    orderOf (((r.root : ZMod r.p)) ^ (2 ^ (lk - k))) = 2 ^ (k + 1) := by
  have : Fact r.p.Prime := ⟨h.prime⟩
  apply orderOf_eq_prime_pow
  · rw [derived_root h k hk]
    intro hneg
    have h0 : (1 : ZMod r.p) + 1 = 0 := by
      nth_rewrite 1 [← hneg]; ring
    exact h.two_ne_zero hw (by rw [← h0]; norm_num)
  · rw [pow_succ, pow_mul, derived_root h k hk]; norm_num

/-- the inverse of the degree that `core::initialize` derives from the tabulated one is the true one -/
theorem derived_invN (h : RowOK w lk r) (k : Nat) (hk : k ≤ lk) :
    ((r.invN * (2 ^ lk / 2 ^ k) : ℕ) : ZMod r.p) * ((2 ^ k : ℕ) : ZMod r.p) = 1 := by
  have hdiv : 2 ^ lk / 2 ^ k * 2 ^ k = 2 ^ lk :=
    Nat.div_mul_cancel (pow_dvd_pow 2 hk)
  have h1 : ((r.invN * 2 ^ lk : ℕ) : ZMod r.p) = ((1 : ℕ) : ZMod r.p) := by
    rw [ZMod.natCast_eq_natCast_iff]; unfold Nat.ModEq
    rw [h.inv_mul, Nat.mod_eq_of_lt h.prime.one_lt]
  rw [← Nat.cast_mul, Nat.mul_assoc, hdiv, h1]; simp

/-- 64-bit rows: the Newton quotient low word is small enough for the Barrett reduction used by
`mulmod<uint64_t>` to need a single conditional subtraction (used by C03). -/
theorem pn64_lt : ∀ r ∈ table64.rows, r.pn < 2 ^ 60 := by
  have h := pn64_small
  have hall : ∀ pn ∈ Pn64, pn < 2 ^ 60 := by
    intro pn hpn
    have := (List.all_eq_true.1 h) pn hpn
    simpa using this
  have aux : ∀ (P Pn R I : List Nat), ∀ r ∈ zipRows P Pn R I, r.pn ∈ Pn := by
    intro P
    induction P with
    | nil => intro Pn R I r hr; simp [zipRows] at hr
    | cons a ps ih =>
      intro Pn R I r hr
      match Pn, R, I, hr with
      | b :: pns, c :: rs, d :: is, hr =>
        simp only [zipRows, List.mem_cons] at hr
        rcases hr with rfl | hr
        · simp
        · exact List.mem_cons_of_mem _ (ih pns rs is r hr)
  intro r hr
  exact hall _ (aux _ _ _ _ r hr)

/-- Non-vacuity: the first 16-bit row is a concrete instance. -/
example : RowOK 16 9 ⟨15361, 17458, 4989, 15331⟩ := table16_rows_ok _ (by decide)

end Nfl.C06
