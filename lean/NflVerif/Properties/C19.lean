/-
C19 — key seeding survives short reads and transient entropy-source failures.

Theorems about the model `Nfl.RB.randombytes` (Model/RandomBytes.lean) of `nfl::randombytes`
(lib/prng/randombytes.cpp).  All of them are universally quantified over the script of operating-system
answers (any length, any interleaving of failed opens, `read = -1`, `read = 0`, short reads), the request
size `xlen` (unbounded) and, where relevant, the sequence of calls sharing the static descriptor.

The OS contract is explicit: an answer with more bytes than requested makes the model stop with `overlong`
(never silently accepted); an answer of the wrong kind with `mismatch`; an exhausted script with
`outOfScript` (the real function would still be looping: it is partial).
-/
import NflVerif.Proofs.RandomBytes
namespace Nfl.C19
open Nfl.RB

/-! ## fills_in_order -/

private theorem delivered_opens (k f : Nat) (s : List Outcome) :
    delivered (List.replicate k .openFail ++ .openOk f :: s) = delivered s := by
  induction k with
  | zero => simp [delivered]
  | succ k ih => simpa [List.replicate_succ, delivered] using ih

/-- **fills_in_order.**  If a call returns, the part `used` of the script it consumed delivered exactly
    `xlen` bytes through its successful reads and the buffer is precisely these bytes in delivery order:
    output index `j` holds delivered byte number `j` — nothing skipped, nothing duplicated, nothing left
    unwritten (`none`), whatever failures (`-1`, `0`, failed opens) are interleaved. -/
theorem fills_in_order (fd0 : Option Nat) (script : List Outcome) (xlen : Nat)
    {buf : Mem} {log : List Call} {rest : List Outcome} {f : Nat}
    (h : randombytes fd0 script xlen = .done buf log rest f) :
    ∃ used, script = used ++ rest ∧
      (delivered used).length = xlen ∧
      buf = (delivered used).map some ∧
      buf.length = xlen ∧
      ∀ j, j < xlen → ∃ b, (delivered used)[j]? = some b ∧ buf[j]? = some (some b) := by
  have fin : ∀ used : List Outcome, (delivered used).length = xlen → buf = (delivered used).map some →
      buf.length = xlen ∧ ∀ j, j < xlen → ∃ b, (delivered used)[j]? = some b ∧ buf[j]? = some (some b) := by
    intro used hl hb
    refine ⟨by simp [hb, hl], fun j hj => ?_⟩
    have hj' : j < (delivered used).length := by omega
    exact ⟨(delivered used)[j], by simp [hj'], by simp [hb, hj']⟩
  cases fd0 with
  | some g =>
    simp only [randombytes] at h
    obtain ⟨_, used, hs, _, hb, hl⟩ := readLoop_done g script [] xlen (by simpa using h)
    simp only [List.nil_append] at hb
    exact ⟨used, hs, hl, hb, fin used hl hb⟩
  | none =>
    simp only [randombytes] at h
    cases ho : openLoop script with
    | stuck w l => rw [ho] at h; simp at h
    | ok g s l =>
      rw [ho] at h
      simp only [addLog_eq_done] at h
      obtain ⟨lg', h, _⟩ := h
      obtain ⟨k, hk, _⟩ := openLoop_ok script ho
      obtain ⟨_, used, hs, _, hb, hl⟩ := readLoop_done g s [] xlen (by simpa using h)
      simp only [List.nil_append] at hb
      refine ⟨List.replicate k .openFail ++ .openOk g :: used, by simp [hk, hs], ?_, ?_, ?_⟩
      · rw [delivered_opens]; exact hl
      · rw [delivered_opens]; exact hb
      · rw [delivered_opens]; exact fin used hl hb

/-- the function never returns early: a returning call needs at least `xlen` delivered bytes in the script -/
theorem never_returns_early (fd0 : Option Nat) (script : List Outcome) (xlen : Nat)
    (h : (randombytes fd0 script xlen).isDone = true) : xlen ≤ (delivered script).length := by
  cases hr : randombytes fd0 script xlen with
  | stopped w b l f => rw [hr] at h; simp [Result.isDone] at h
  | done b l r f =>
    obtain ⟨used, hs, hl, _⟩ := fills_in_order fd0 script xlen hr
    rw [hs, delivered_append, List.length_append]; omega

/-- state of the buffer when the call does *not* return (descriptor already open): the bytes delivered so
    far, in order, then bytes never written — failures never touch the buffer -/
theorem partial_fill (g : Nat) (script : List Outcome) (xlen : Nat)
    {w : Stop} {buf : Mem} {log : List Call} {f : Option Nat}
    (h : randombytes (some g) script xlen = .stopped w buf log f) :
    ∃ used tail, script = used ++ tail ∧ (w = .outOfScript → tail = []) ∧
      (delivered used).length < xlen ∧
      buf = (delivered used).map some ++ List.replicate (xlen - (delivered used).length) none := by
  simp only [randombytes] at h
  obtain ⟨_, used, tail, hs, _, ht, hl, hb⟩ := readLoop_stopped g script [] xlen (by simpa using h)
  exact ⟨used, tail, hs, ht, hl, by simpa using hb⟩

/-- **failures never change the buffer**: a leading `read = -1`, `read = 0` (or empty delivery) leaves the
    final buffer and the return/no-return status exactly as if it had not happened -/
theorem failures_inert (g : Nat) (o : Outcome) (s : List Outcome) (xlen : Nat)
    (ho : o = .readErr ∨ o = .readZero ∨ o = .readBytes []) :
    (randombytes (some g) (o :: s) xlen).buf = (randombytes (some g) s xlen).buf ∧
    (randombytes (some g) (o :: s) xlen).isDone = (randombytes (some g) s xlen).isDone := by
  simp only [randombytes]
  by_cases hx : xlen = 0
  · subst hx; simp [readLoop, Result.buf, Result.isDone]
  · rcases ho with rfl | rfl | rfl
    · rw [readLoop]; simp [hx]
    · rw [readLoop]; simp [hx]
    · rw [readLoop]; simp [hx]

/-! ## requests_bounded -/

/-- **requests_bounded** (descriptor already open).  The call log is a `ReadTrace`: every `read` is issued on
    the static descriptor, at pointer offset = bytes delivered so far, for exactly `min remaining 2^20` bytes;
    an answer `< 1` is followed by `sleep(1)` and changes neither pointer nor count; an answer `n ≥ 1`
    advances the pointer and decreases the remaining count by exactly `n`; the trace ends with
    `remaining = 0` iff the call returns. -/
theorem requests_bounded (g : Nat) (script : List Outcome) (xlen : Nat) :
    ReadTrace g 0 xlen (randombytes (some g) script xlen).log (randombytes (some g) script xlen).isDone :=
  randombytes_some_trace g script xlen

/-- **requests_bounded** (first call, descriptor not yet open): `k` failed opens each followed by `sleep(1)`,
    then either an unanswered open (no return) or the successful open followed by a `ReadTrace` on the
    descriptor it returned. -/
theorem requests_bounded_first (script : List Outcome) (xlen : Nat) :
    ∃ k, ((randombytes none script xlen).log = openFails k ++ [.openNoAns] ∧
          (randombytes none script xlen).isDone = false) ∨
      ∃ f rl, (randombytes none script xlen).log = openFails k ++ .open (some f) :: rl ∧
        ReadTrace f 0 xlen rl (randombytes none script xlen).isDone := by
  simp only [randombytes]
  cases ho : openLoop script with
  | stuck w l =>
    obtain ⟨k, tail, _, hl, _⟩ := openLoop_stuck script ho
    exact ⟨k, .inl ⟨by simp [Result.log, hl], rfl⟩⟩
  | ok g s l =>
    obtain ⟨k, _, hl⟩ := openLoop_ok script ho
    refine ⟨k, .inr ⟨g, (readLoop g s (List.replicate xlen none) 0 xlen).log, ?_, ?_⟩⟩
    · simp [hl]
    · simpa using readLoop_trace g s (List.replicate xlen none) 0 xlen

/-- the positive answers of a finished read phase add up to exactly the bytes wanted -/
theorem requests_sum {fd off rem : Nat} {l : List Call} (h : ReadTrace fd off rem l true) :
    gained l = rem := by
  generalize hfin : true = fin at h
  induction h with
  | ret off => rfl
  | stuck off rem _ => cases hfin
  | fail off rem r l fin _ hr _ ih =>
    have : r.toNat = 0 := by omega
    simp [gained, this, ih hfin]
  | ok off rem n l fin _ _ hn _ ih =>
    simp only [gained, Int.toNat_natCast, ih hfin]; omega

/-! ## open_once -/

/-- **open_once.**  Over *any* sequence of calls sharing the static descriptor and the environment:
    * descriptor already open on entry: no `open` is ever issued, every read uses that descriptor;
    * descriptor not open: the whole concatenated log is `k` failed opens (each followed by `sleep(1)`), then
      either nothing more / an unanswered `open`, or exactly one successful `open` returning `f` followed
      *only* by reads on `f` and sleeps — never another `open`, in this call or any later one. -/
theorem open_once (fd0 : Option Nat) (script : List Outcome) (xlens : List Nat) :
    match fd0 with
    | some f => ∀ c ∈ allLog (runCalls (some f) script xlens), ReadPhase f c
    | none =>
      allLog (runCalls none script xlens) = [] ∨
      (∃ k, allLog (runCalls none script xlens) = openFails k ++ [.openNoAns]) ∨
      (∃ k f R, allLog (runCalls none script xlens) = openFails k ++ .open (some f) :: R ∧
        ∀ c ∈ R, ReadPhase f c) := by
  cases fd0 with
  | some f => exact runCalls_some_readPhase f xlens script
  | none =>
    cases xlens with
    | nil => left; simp [runCalls, allLog]
    | cons x xs =>
      right
      simp only [runCalls, randombytes]
      cases ho : openLoop script with
      | stuck w l =>
        obtain ⟨k, _, _, hl, _⟩ := openLoop_stuck script ho
        left
        exact ⟨k, by simp [allLog, Result.log, hl]⟩
      | ok g s l =>
        obtain ⟨k, _, hl⟩ := openLoop_ok script ho
        right
        have ht := readLoop_trace g s (List.replicate x none) 0 x
        cases hr : readLoop g s (List.replicate x none) 0 x with
        | stopped w b lg f' =>
          rw [hr] at ht
          refine ⟨k, g, lg, by simp [allLog, Result.addLog, Result.log, hl, hr], ?_⟩
          exact readTrace_readPhase ht
        | done b lg r f' =>
          rw [hr] at ht
          have hf : f' = g := (readLoop_done g s [] x (by simpa using hr)).1
          subst hf
          refine ⟨k, f', lg ++ allLog (runCalls (some f') r xs), by simp [allLog, Result.addLog, Result.log, hl, hr], ?_⟩
          intro c hc
          rcases List.mem_append.mp hc with hc | hc
          · exact readTrace_readPhase ht c hc
          · exact runCalls_some_readPhase f' xs r c hc

/-- at most one successful `open` over any sequence of calls, from any initial descriptor state -/
theorem open_once_count (fd0 : Option Nat) (script : List Outcome) (xlens : List Nat) :
    ((allLog (runCalls fd0 script xlens)).filter isOpenOk).length ≤ 1 := by
  have none_of : ∀ {f : Nat} {R : List Call}, (∀ c ∈ R, ReadPhase f c) → R.filter isOpenOk = [] := by
    intro f R h
    simp only [List.filter_eq_nil_iff]
    intro c hc
    simp [readPhase_not_openOk (h c hc)]
  have fails : ∀ k, (openFails k).filter isOpenOk = [] := by
    intro k
    simp only [List.filter_eq_nil_iff]
    intro c hc
    rcases openFails_mem hc with rfl | rfl <;> simp [isOpenOk]
  have h := open_once fd0 script xlens
  cases fd0 with
  | some f => simp only at h; simp [none_of h]
  | none =>
    simp only at h
    rcases h with h | ⟨k, h⟩ | ⟨k, f, R, h, hR⟩
    · simp [h]
    · simp [h, fails, isOpenOk]
    · rw [h, List.filter_append, fails, List.nil_append, List.filter_cons, none_of hR]
      simp [isOpenOk]

/-- **open_once, for every value of the descriptor.**  Whatever non-negative value `f` the successful `open` returns —
    `0`, `1`, `2` (the process runs with its standard streams closed), a small number, `INT_MAX` — the calls that follow, in
    this call and in all later ones, are reads on exactly `f` and sleeps; the device is never opened again.  (The model keeps
    the static descriptor as `Option Nat`: "not open" is `none` = the C value `-1`, and `some 0` is an open descriptor like
    any other; the code's test is `fd == -1`, not `fd <= 0`.) -/
theorem open_once_any_descriptor (f : Nat) (s : List Outcome) (x : Nat) (xs : List Nat) :
    ∃ R, allLog (runCalls none (.openOk f :: s) (x :: xs)) = .open (some f) :: R ∧ ∀ c ∈ R, ReadPhase f c := by
  simp only [runCalls, randombytes, openLoop]
  have ht := readLoop_trace f s (List.replicate x none) 0 x
  cases hr : readLoop f s (List.replicate x none) 0 x with
  | stopped w b lg f' =>
    rw [hr] at ht
    exact ⟨lg, by simp [allLog, Result.addLog, Result.log], readTrace_readPhase ht⟩
  | done b lg r f' =>
    rw [hr] at ht
    have hf : f' = f := (readLoop_done f s [] x (by simpa using hr)).1
    subst hf
    refine ⟨lg ++ allLog (runCalls (some f') r xs), by simp [allLog, Result.addLog, Result.log], ?_⟩
    intro c hc
    rcases List.mem_append.mp hc with hc | hc
    · exact readTrace_readPhase ht c hc
    · exact runCalls_some_readPhase f' xs r c hc

/-- descriptor 0 concretely: three calls (one of length 0) after `open` returned 0 — one `open`, every read on descriptor 0 -/
example : allLog (runCalls none [.openOk 0, .readBytes [7], .readErr, .readBytes [8]] [1, 0, 1]) =
    [.open (some 0), .read 0 0 1 1, .read 0 0 1 (-1), .sleep 1, .read 0 0 1 1] := by decide

/-- the same with the largest descriptor an `int` can hold -/
example : allLog (runCalls none [.openFail, .openOk 2147483647, .readBytes [7], .readBytes [8]] [1, 1]) =
    [.open none, .sleep 1, .open (some 2147483647), .read 2147483647 0 1 1, .read 2147483647 0 1 1] := by decide

/-! ## zero_len -/

/-- **zero_len**, descriptor open: nothing at all happens (no call, empty buffer, script untouched) -/
theorem zero_len (g : Nat) (script : List Outcome) :
    randombytes (some g) script 0 = .done [] [] script g := by
  simp [randombytes, readLoop]

/-- **zero_len**, first call: the code still runs its open loop (it opens the device even though no byte is
    wanted) and then returns without any `read`; if every `open` fails it does not return -/
theorem zero_len_first (script : List Outcome) :
    randombytes none script 0 =
      match openLoop script with
      | .ok f s l => .done [] l s f
      | .stuck w l => .stopped w [] l none := by
  simp only [randombytes]
  cases openLoop script with
  | ok f s l => simp [readLoop, Result.addLog]
  | stuck w l => simp

/-- in both cases no `read` is issued -/
theorem zero_len_no_read (fd0 : Option Nat) (script : List Outcome) :
    ∀ c ∈ (randombytes fd0 script 0).log, isReadCall c = false := by
  cases fd0 with
  | some g => simp [zero_len, Result.log]
  | none =>
    rw [zero_len_first]
    cases ho : openLoop script with
    | ok f s l =>
      obtain ⟨k, _, hl⟩ := openLoop_ok script ho
      intro c hc
      simp only [Result.log, hl, List.mem_append, List.mem_singleton] at hc
      rcases hc with hc | rfl
      · rcases openFails_mem hc with rfl | rfl <;> rfl
      · rfl
    | stuck w l =>
      obtain ⟨k, _, _, hl, _⟩ := openLoop_stuck script ho
      intro c hc
      simp only [Result.log, hl, List.mem_append, List.mem_singleton] at hc
      rcases hc with hc | rfl
      · rcases openFails_mem hc with rfl | rfl <;> rfl
      · rfl

/-! ## completes_when_enough -/

/-- **completes_when_enough** (progress under a fair environment), descriptor open: if the environment
    answers reads within the contract and the script delivers at least `xlen` bytes, the call returns —
    however many `-1` / `0` / short answers are interleaved. -/
theorem completes_when_enough (g : Nat) (reads : List Outcome) (xlen : Nat)
    (hc : inContract xlen reads = true) (hl : xlen ≤ (delivered reads).length) :
    (randombytes (some g) reads xlen).isDone = true := by
  simp only [randombytes]; exact readLoop_completes g reads _ 0 xlen hc hl

/-- **completes_when_enough**, first call: any number `k` of failed opens, then a successful one -/
theorem completes_when_enough_first (k g : Nat) (reads : List Outcome) (xlen : Nat)
    (hc : inContract xlen reads = true) (hl : xlen ≤ (delivered reads).length) :
    (randombytes none (List.replicate k .openFail ++ .openOk g :: reads) xlen).isDone = true := by
  simp only [randombytes, openLoop_replicate, addLog_isDone]
  exact readLoop_completes g reads _ 0 xlen hc hl

/-- the function is partial — made explicit: on `n` failed opens (for every `n`) it is still in its open
    loop, having issued `n` opens and `n` sleeps and being about to open again -/
theorem spins_on_open_failures (n xlen : Nat) :
    randombytes none (List.replicate n .openFail) xlen =
      .stopped .outOfScript (List.replicate xlen none) (openFails n ++ [.openNoAns]) none := by
  simp [randombytes, openLoop_allFail]

/-- … and on any script that delivers fewer than `xlen` bytes it does not return -/
theorem spins_when_short (fd0 : Option Nat) (script : List Outcome) (xlen : Nat)
    (h : (delivered script).length < xlen) : (randombytes fd0 script xlen).isDone = false := by
  cases hd : (randombytes fd0 script xlen).isDone with
  | false => rfl
  | true => have := never_returns_early fd0 script xlen hd; omega

/-! ## non-vacuity: concrete scripts -/

/-- open fails twice, then succeeds with descriptor 3; read = -1, read = 0, a short read of 3 bytes, then the
    remaining 5: the 8-byte buffer is the delivered bytes in order; one trailing outcome is left unconsumed -/
def demoScript : List Outcome :=
  [.openFail, .openFail, .openOk 3, .readErr, .readZero, .readBytes [10, 11, 12],
   .readBytes [13, 14, 15, 16, 17], .readErr]

example : randombytes none demoScript 8 =
    .done [some 10, some 11, some 12, some 13, some 14, some 15, some 16, some 17]
      [.open none, .sleep 1, .open none, .sleep 1, .open (some 3),
       .read 3 0 8 (-1), .sleep 1, .read 3 0 8 0, .sleep 1, .read 3 0 8 3, .read 3 3 5 5]
      [.readErr] 3 := by decide

/-- the hypotheses of `fills_in_order` / `completes_when_enough_first` are satisfiable -/
example : inContract 8 [.readErr, .readZero, .readBytes [10, 11, 12], .readBytes [13, 14, 15, 16, 17]] = true
    ∧ 8 ≤ (delivered [.readErr, .readZero, .readBytes [10, 11, 12], .readBytes [13, 14, 15, 16, 17]]).length := by
  decide

/-- two further calls on the same descriptor: no `open` any more -/
example : (runCalls none demoScript [8, 0]).map Result.log =
    [[.open none, .sleep 1, .open none, .sleep 1, .open (some 3),
      .read 3 0 8 (-1), .sleep 1, .read 3 0 8 0, .sleep 1, .read 3 0 8 3, .read 3 3 5 5], []] := by decide

/-- the script ends while 2 bytes are still wanted: no return, partial buffer -/
example : randombytes (some 7) [.readBytes [1, 2, 3], .readZero] 5 =
    .stopped .outOfScript [some 1, some 2, some 3, none, none]
      [.read 7 0 5 3, .read 7 3 2 0, .sleep 1, .readNoAns 7 3 2] (some 7) := by decide

/-- an environment outside the contract (4 bytes for a 2-byte request) is flagged, not absorbed -/
example : randombytes (some 7) [.readBytes [1, 2, 3, 4]] 2 =
    .stopped .overlong [none, none] [.readNoAns 7 0 2] (some 7) := by decide

/-- 1 MiB chunking: with 2^20+5 bytes wanted the first request is 2^20, and still 2^20 after one byte
    (the buffer argument is irrelevant for the log) -/
example : (readLoop 7 [.readBytes [9]] [] 0 (1048576 + 5)).log =
    [.read 7 0 1048576 1, .readNoAns 7 1 1048576] := by decide

/-! ## error codes -/

/-- **errno_irrelevant.**  Two environments whose answers return the same values make every call of any sequence behave
    identically — same call log, same buffer, same unconsumed answers, same descriptor — whatever error codes the failing (or
    succeeding) answers leave in `errno` and whatever the interrupted `sleep`s return.  (By construction of `runCallsA`: the
    code never reads `errno`; the correspondence stream checks the real code against it with every errno of its set.) -/
theorem errno_irrelevant (fd0 : Option Nat) (s s' : List Answer) (xlens : List Nat)
    (h : forget s = forget s') : runCallsA fd0 s xlens = runCallsA fd0 s' xlens := by
  simp [runCallsA, h]

/-- **open_once, for every error code.**  At most one successful `open` over any sequence of calls, whatever errno each
    failing answer carries — in particular a `read` failing with EBADF (9) does not make the code open the device again. -/
theorem open_once_any_errno (fd0 : Option Nat) (s : List Answer) (xlens : List Nat) :
    ((allLog (runCallsA fd0 s xlens)).filter isOpenOk).length ≤ 1 :=
  open_once_count fd0 (forget s) xlens

/-- the history on which the seeded reopen-on-EBADF variant opens twice: one `open`, the failed read retried on the same descriptor -/
example : allLog (runCallsA none [{ out := .openOk 3 }, { out := .readErr, errno := 9, sleepRet := 1 }, { out := .readBytes [7, 8] }] [2]) =
    [.open (some 3), .read 3 0 2 (-1), .sleep 1, .read 3 0 2 2] := by decide

/-- non-vacuity of `errno_irrelevant`: EBADF/interrupted sleep against EINTR/full sleep -/
example : forget [{ out := .openFail, errno := 24 }, { out := .openOk 0 }, { out := .readErr, errno := 9, sleepRet := 1 }] =
    forget [{ out := .openFail, errno := 2, sleepRet := 1 }, { out := .openOk 0, errno := 4 }, { out := .readErr, errno := 4 }] := by decide

end Nfl.C19
