/-
C12 / C09 / C15 on the two remaining WHOLE functions re-translated from clang's AST by tools/gen_smp_ast.py (Generated/SmpAst.lean):
`set(hwt_dist)` and `set(It first, It last, bool reduce)`.  Whole-function equalities with the hand model (Proofs/SmpAstEq2.lean):

  set_hwt_uW_eq    for EVERY tape: assert = the model's guard; reservoir loop + `for(;;)` rejection loop with refills = `hwtPositions`
                   (`runTape` / `runBuf`), the iteration budget is never exhausted; std::sort = `isort`; memset; ONE sign request;
                   the ±1 writes in every modulus = `hwtWrite`; recorded request sizes = `8·h` per consumed buffer.
  set_range_uW_eq  throw rule; copy loop + padding loop per modulus with the rewind of `viter` = `setValues` of the slice `vals[first,last)`.

and, transported through them, statements about the value the GENERATED function returns:
  hwt_uW_ast        whatever `set(hwt_dist)` returns normally: exactly the model's reservoir positions (an `h`-subset of `[0,n)`, the reservoir fold of
                    an admissible index tuple — the objects `C12.reservoir_uniform` counts), `+1`/`p-1` there with the SAME sign in every modulus, `0` elsewhere;
  hwt_uW_ast_count  exactly `h` non-zero coefficients in every modulus;
  hwt_uW_ast_stops  it stops with `assertion` iff `h = 0 ∨ n < h`, and never with `fuel` or `thrown`;
  range_uW_ast      C15's length / reduction rules (short list: coefficient i of every modulus, zero padded; full list: slice per modulus;
                    `reduce` ⇒ `v mod p`, else verbatim);  range_uW_ast_throws  (throws iff `degree < k ≠ degree·nmoduli`).
-/
import NflVerif.Proofs.SmpAstEq2
import NflVerif.Properties.C12Ast

namespace Nfl.C12Ast
open Nfl Nfl.Samplers Nfl.Smp Nfl.SmpAstEq Nfl.SmpAstEq2 Finset
open Nfl.C09 (ModOK)

/-! ### the whole-function equalities -/

/-- `poly<uint16_t,n,nm>::set(hwt_dist)` (generated, whole) = hand model, every tape / initial `_data`.  Hypotheses: `hh` mode.hwt is a `uint32_t`;
`hn` degree is a `size_t` value (counter `k`, `k+1` does not wrap); `hm` the `size_t` counter `cm`; `hN` the byte count `degree·nmoduli·sizeof(T)` given to
memset is a `size_t` value (hence `offset + pos` does not wrap); `hd` extent of `_data`; `hp` moduli are limb values.  No hypothesis on `h` vs `n`:
the assert is part of the statement. -/
theorem set_hwt_u16_eq (n h : Nat) (ps data : List Nat) (tape : Tape) (reqs : List Nat)
    (hp : ∀ p ∈ ps, p < 2 ^ 16) (hh : h < 2 ^ 32) (hn : n < 2 ^ 64) (hm : ps.length < 2 ^ 64) (hN : n * ps.length * 2 < 2 ^ 64)
    (hd : data.length = n * ps.length) :
    view n ps.length (Gen.set_hwt_u16 n ps.length (fun cm => ps.getD cm 0) h data ⟨tape, reqs⟩) =
      if h = 0 ∨ n < h then .err .assertion else
      match hwtPositions h n tape with
      | none => .err .tapeEnd
      | some (_, []) => .err .tapeEnd
      | some (sorted, sreq :: rest) =>
        .ok (ps.map (fun p => hwtWrite 16 n p sorted sreq), data.length, rest, reqs ++ List.replicate (tape.length - rest.length) (8 * h)) :=
  SmpAstEq2.set_hwt_u16_eq n h ps data tape reqs hp hh hn hm hN hd

theorem set_hwt_u32_eq (n h : Nat) (ps data : List Nat) (tape : Tape) (reqs : List Nat)
    (hp : ∀ p ∈ ps, p < 2 ^ 32) (hh : h < 2 ^ 32) (hn : n < 2 ^ 64) (hm : ps.length < 2 ^ 64) (hN : n * ps.length * 4 < 2 ^ 64)
    (hd : data.length = n * ps.length) :
    view n ps.length (Gen.set_hwt_u32 n ps.length (fun cm => ps.getD cm 0) h data ⟨tape, reqs⟩) =
      if h = 0 ∨ n < h then .err .assertion else
      match hwtPositions h n tape with
      | none => .err .tapeEnd
      | some (_, []) => .err .tapeEnd
      | some (sorted, sreq :: rest) =>
        .ok (ps.map (fun p => hwtWrite 32 n p sorted sreq), data.length, rest, reqs ++ List.replicate (tape.length - rest.length) (8 * h)) :=
  SmpAstEq2.set_hwt_u32_eq n h ps data tape reqs hp hh hn hm hN hd

theorem set_hwt_u64_eq (n h : Nat) (ps data : List Nat) (tape : Tape) (reqs : List Nat)
    (hp : ∀ p ∈ ps, p < 2 ^ 64) (hh : h < 2 ^ 32) (hn : n < 2 ^ 64) (hm : ps.length < 2 ^ 64) (hN : n * ps.length * 8 < 2 ^ 64)
    (hd : data.length = n * ps.length) :
    view n ps.length (Gen.set_hwt_u64 n ps.length (fun cm => ps.getD cm 0) h data ⟨tape, reqs⟩) =
      if h = 0 ∨ n < h then .err .assertion else
      match hwtPositions h n tape with
      | none => .err .tapeEnd
      | some (_, []) => .err .tapeEnd
      | some (sorted, sreq :: rest) =>
        .ok (ps.map (fun p => hwtWrite 64 n p sorted sreq), data.length, rest, reqs ++ List.replicate (tape.length - rest.length) (8 * h)) :=
  SmpAstEq2.set_hwt_u64_eq n h ps data tape reqs hp hh hn hm hN hd

/-- `poly<uint16_t,n,nm>::set(const T* first, const T* last, bool reduce)` (generated, whole) = hand model `setValues` on the slice `vals[first,last)`.
Hypotheses: `hfl`, `hl` [first,last) is a range of the source array; `hv` its elements are limb values; `hp` moduli are limb values; `hd` extent of `_data`;
`hn`, `hm` the `size_t` counters `i`, `cm` do not wrap; `hN` `degree*nmoduli` does not wrap in the two size comparisons. -/
theorem set_range_u16_eq (n : Nat) (ps vals data : List Nat) (first last : Nat) (r : Bool)
    (hp : ∀ p ∈ ps, p < 2 ^ 16) (hv : ∀ v ∈ vals, v < 2 ^ 16) (hfl : first ≤ last) (hl : last ≤ vals.length)
    (hd : data.length = n * ps.length) (hn : n < 2 ^ 64) (hm : ps.length < 2 ^ 64) (hN : n * ps.length < 2 ^ 64) :
    viewR n ps.length (Gen.set_range_u16 n ps.length (fun cm => ps.getD cm 0) vals first last r data) =
      match setValues n ps ((vals.take last).drop first) r with
      | none => .err .thrown
      | some poly => .ok (poly, data.length) :=
  SmpAstEq2.set_range_u16_eq n ps vals data first last r hp hv hfl hl hd hn hm hN

theorem set_range_u32_eq (n : Nat) (ps vals data : List Nat) (first last : Nat) (r : Bool)
    (hp : ∀ p ∈ ps, p < 2 ^ 32) (hv : ∀ v ∈ vals, v < 2 ^ 32) (hfl : first ≤ last) (hl : last ≤ vals.length)
    (hd : data.length = n * ps.length) (hn : n < 2 ^ 64) (hm : ps.length < 2 ^ 64) (hN : n * ps.length < 2 ^ 64) :
    viewR n ps.length (Gen.set_range_u32 n ps.length (fun cm => ps.getD cm 0) vals first last r data) =
      match setValues n ps ((vals.take last).drop first) r with
      | none => .err .thrown
      | some poly => .ok (poly, data.length) :=
  SmpAstEq2.set_range_u32_eq n ps vals data first last r hp hv hfl hl hd hn hm hN

theorem set_range_u64_eq (n : Nat) (ps vals data : List Nat) (first last : Nat) (r : Bool)
    (hp : ∀ p ∈ ps, p < 2 ^ 64) (hv : ∀ v ∈ vals, v < 2 ^ 64) (hfl : first ≤ last) (hl : last ≤ vals.length)
    (hd : data.length = n * ps.length) (hn : n < 2 ^ 64) (hm : ps.length < 2 ^ 64) (hN : n * ps.length < 2 ^ 64) :
    viewR n ps.length (Gen.set_range_u64 n ps.length (fun cm => ps.getD cm 0) vals first last r data) =
      match setValues n ps ((vals.take last).drop first) r with
      | none => .err .thrown
      | some poly => .ok (poly, data.length) :=
  SmpAstEq2.set_range_u64_eq n ps vals data first last r hp hv hfl hl hd hn hm hN

/-! ### fixed weight: what the generated function returns -/

/-- transport (any width): from the whole-function equality to the C12 / C09 statements about the returned array -/
theorem hwt_ast_of_eq {W : Nat} {n h : Nat} {ps data : List Nat} {tape : Tape} {reqs : List Nat} {g : Res (List Nat × IO)}
    (hmo : ModOK W ps)
    (heq : view n ps.length g =
      if h = 0 ∨ n < h then .err .assertion else
      match hwtPositions h n tape with
      | none => .err .tapeEnd
      | some (_, []) => .err .tapeEnd
      | some (sorted, sreq :: rest) =>
        .ok (ps.map (fun p => hwtWrite W n p sorted sreq), data.length, rest, reqs ++ List.replicate (tape.length - rest.length) (8 * h)))
    {d : List Nat} {io : IO} (hg : g = .ok (d, io)) :
    0 < h ∧ h ≤ n ∧ d.length = data.length ∧ ∃ sorted sreq, hwtPositions h n tape = some (sorted, sreq :: io.tape) ∧
      io.reqs = reqs ++ List.replicate (tape.length - io.tape.length) (8 * h) ∧
      sorted.toFinset ∈ powersetCard h (range n) ∧
      (∃ idx ∈ fwdTuples h (n - h), sorted.toFinset = (resFold h h (List.range h) idx).toFinset) ∧
      (∀ cm (hcm : cm < ps.length) i, i < n →
        (i ∈ sorted → d.getD (cm * n + i) 0 = (if hwtSign sreq (sorted.idxOf i) then 1 else ps[cm] - 1) ∧ d.getD (cm * n + i) 0 ≠ 0) ∧
        (i ∉ sorted → d.getD (cm * n + i) 0 = 0)) ∧
      ∀ cm, cm < ps.length → #{i ∈ range n | d.getD (cm * n + i) 0 ≠ 0} = h := by
  subst hg
  by_cases hbad : h = 0 ∨ n < h
  · rw [if_pos hbad] at heq; simp [view] at heq
  · rw [if_neg hbad] at heq
    have h0 : 0 < h := by omega
    have hhn : h ≤ n := by omega
    cases hpos : hwtPositions h n tape with
    | none => rw [hpos] at heq; simp [view] at heq
    | some a =>
      obtain ⟨sorted, rest0⟩ := a
      rw [hpos] at heq
      cases rest0 with
      | nil => simp [view] at heq
      | cons sreq rest =>
        simp only [view, Res.ok.injEq, Prod.mk.injEq] at heq
        obtain ⟨hr, hl, ht, hq⟩ := heq
        have ho : setHwt W n ps h tape = some (ps.map fun p => hwtWrite W n p sorted sreq) := by
          unfold setHwt; rw [if_neg hbad, hpos]; rfl
        obtain ⟨_, hlen, hnd, hlt, _⟩ := hwtPositions_spec hhn hpos
        obtain ⟨idx, hidx, hfin, _⟩ := C12.hwt_positions_reservoir hhn hpos
        have hw : ∀ cm (hcm : cm < ps.length) i, i < n →
            d.getD (cm * n + i) 0 = if i ∈ sorted then (if hwtSign sreq (sorted.idxOf i) then 1 else pmOf W ps[cm]) else 0 := by
          intro cm hcm i hi
          rw [← word_rows n ps.length d cm i hcm hi, hr, word_map ps _ cm i hcm, hwtWrite_getD hnd hlt]
        refine ⟨h0, hhn, hl, sorted, sreq, by rw [ht], by rw [hq, ht], ?_, ⟨idx, hidx, hfin⟩, ?_, ?_⟩
        · rw [Finset.mem_powersetCard]
          refine ⟨fun a ha => Finset.mem_range.2 (hlt a (List.mem_toFinset.1 ha)), by rw [List.toFinset_card_of_nodup hnd, hlen]⟩
        · intro cm hcm i hi
          have h1 := hmo.2.2 ps[cm] (List.getElem_mem hcm)
          rw [hw cm hcm i hi, pmOf_eq (by omega) (by omega)]
          constructor
          · intro his; rw [if_pos his]; refine ⟨rfl, ?_⟩; split <;> omega
          · intro his; rw [if_neg his]
        · intro cm hcm
          have := C12.hwt_count hmo ho cm hcm
          rw [← this]
          apply congrArg Finset.card
          apply Finset.filter_congr
          intro i hi
          rw [← hr, word_rows n ps.length d cm i hcm (Finset.mem_range.1 hi)]

/-- how the generated function can stop: `assertion` exactly when the model's guard fails; never `fuel` (the budget given to the `for(;;)` loop is
never exhausted), never `thrown` -/
theorem hwt_stops_of_eq {W : Nat} {n h : Nat} {ps data : List Nat} {tape : Tape} {reqs : List Nat} {g : Res (List Nat × IO)}
    (heq : view n ps.length g =
      if h = 0 ∨ n < h then .err .assertion else
      match hwtPositions h n tape with
      | none => .err .tapeEnd
      | some (_, []) => .err .tapeEnd
      | some (sorted, sreq :: rest) =>
        .ok (ps.map (fun p => hwtWrite W n p sorted sreq), data.length, rest, reqs ++ List.replicate (tape.length - rest.length) (8 * h))) :
    (g = .err .assertion ↔ (h = 0 ∨ n < h)) ∧ g ≠ .err .fuel ∧ g ≠ .err .thrown := by
  have hv : ∀ e, g = .err e → view n ps.length g = .err e := fun e he => by rw [he]; rfl
  have hve : ∀ e, view n ps.length g = .err e → g = .err e := by
    intro e he
    cases g with
    | ok a => simp [view] at he
    | err e' => simp only [view, Res.err.injEq] at he; rw [he]
  by_cases hbad : h = 0 ∨ n < h
  · rw [if_pos hbad] at heq
    have := hve _ heq
    refine ⟨⟨fun _ => hbad, fun _ => this⟩, by rw [this]; simp, by rw [this]; simp⟩
  · rw [if_neg hbad] at heq
    have key : ∀ e, e ≠ Err.tapeEnd → g ≠ .err e := by
      intro e hne he
      rw [hv e he] at heq
      cases hpos : hwtPositions h n tape with
      | none => rw [hpos] at heq; simp at heq; exact hne heq
      | some a =>
        obtain ⟨sorted, rest0⟩ := a
        rw [hpos] at heq
        cases rest0 with
        | nil => simp at heq; exact hne heq
        | cons sreq rest => simp at heq
    exact ⟨⟨fun he => absurd he (key _ (by simp)), fun hb => absurd hb hbad⟩, key _ (by simp), key _ (by simp)⟩

/-- C12 fixed-weight on the generated `set(hwt_dist)`, 16-bit limb: whenever it returns normally, `1 ≤ h ≤ n`, the array keeps its length, the consumed
buffers and the recorded requests (`8·h` bytes each) are the model's, the non-zero positions are the model's reservoir positions `sorted` — an
`h`-subset of `[0,n)` which is the reservoir fold of an index tuple of `fwdTuples h (n-h)` (the tuples `C12.reservoir_uniform` counts) — each holds
`1` or `p-1` with a sign bit that does not depend on the modulus, every other coefficient is `0`, and every modulus has exactly `h` non-zero coefficients. -/
theorem hwt_u16_ast (n h : Nat) (ps data : List Nat) (tape : Tape) (reqs : List Nat)
    (hmo : ModOK 16 ps) (hh : h < 2 ^ 32) (hn : n < 2 ^ 64) (hm : ps.length < 2 ^ 64) (hN : n * ps.length * 2 < 2 ^ 64)
    (hd : data.length = n * ps.length) {d : List Nat} {io : IO}
    (hg : Gen.set_hwt_u16 n ps.length (fun cm => ps.getD cm 0) h data ⟨tape, reqs⟩ = .ok (d, io)) :
    0 < h ∧ h ≤ n ∧ d.length = data.length ∧ ∃ sorted sreq, hwtPositions h n tape = some (sorted, sreq :: io.tape) ∧
      io.reqs = reqs ++ List.replicate (tape.length - io.tape.length) (8 * h) ∧
      sorted.toFinset ∈ powersetCard h (range n) ∧
      (∃ idx ∈ fwdTuples h (n - h), sorted.toFinset = (resFold h h (List.range h) idx).toFinset) ∧
      (∀ cm (hcm : cm < ps.length) i, i < n →
        (i ∈ sorted → d.getD (cm * n + i) 0 = (if hwtSign sreq (sorted.idxOf i) then 1 else ps[cm] - 1) ∧ d.getD (cm * n + i) 0 ≠ 0) ∧
        (i ∉ sorted → d.getD (cm * n + i) 0 = 0)) ∧
      ∀ cm, cm < ps.length → #{i ∈ range n | d.getD (cm * n + i) 0 ≠ 0} = h :=
  hwt_ast_of_eq hmo (set_hwt_u16_eq n h ps data tape reqs (lt_of_modOK hmo) hh hn hm hN hd) hg

theorem hwt_u32_ast (n h : Nat) (ps data : List Nat) (tape : Tape) (reqs : List Nat)
    (hmo : ModOK 32 ps) (hh : h < 2 ^ 32) (hn : n < 2 ^ 64) (hm : ps.length < 2 ^ 64) (hN : n * ps.length * 4 < 2 ^ 64)
    (hd : data.length = n * ps.length) {d : List Nat} {io : IO}
    (hg : Gen.set_hwt_u32 n ps.length (fun cm => ps.getD cm 0) h data ⟨tape, reqs⟩ = .ok (d, io)) :
    0 < h ∧ h ≤ n ∧ d.length = data.length ∧ ∃ sorted sreq, hwtPositions h n tape = some (sorted, sreq :: io.tape) ∧
      io.reqs = reqs ++ List.replicate (tape.length - io.tape.length) (8 * h) ∧
      sorted.toFinset ∈ powersetCard h (range n) ∧
      (∃ idx ∈ fwdTuples h (n - h), sorted.toFinset = (resFold h h (List.range h) idx).toFinset) ∧
      (∀ cm (hcm : cm < ps.length) i, i < n →
        (i ∈ sorted → d.getD (cm * n + i) 0 = (if hwtSign sreq (sorted.idxOf i) then 1 else ps[cm] - 1) ∧ d.getD (cm * n + i) 0 ≠ 0) ∧
        (i ∉ sorted → d.getD (cm * n + i) 0 = 0)) ∧
      ∀ cm, cm < ps.length → #{i ∈ range n | d.getD (cm * n + i) 0 ≠ 0} = h :=
  hwt_ast_of_eq hmo (set_hwt_u32_eq n h ps data tape reqs (lt_of_modOK hmo) hh hn hm hN hd) hg

theorem hwt_u64_ast (n h : Nat) (ps data : List Nat) (tape : Tape) (reqs : List Nat)
    (hmo : ModOK 64 ps) (hh : h < 2 ^ 32) (hn : n < 2 ^ 64) (hm : ps.length < 2 ^ 64) (hN : n * ps.length * 8 < 2 ^ 64)
    (hd : data.length = n * ps.length) {d : List Nat} {io : IO}
    (hg : Gen.set_hwt_u64 n ps.length (fun cm => ps.getD cm 0) h data ⟨tape, reqs⟩ = .ok (d, io)) :
    0 < h ∧ h ≤ n ∧ d.length = data.length ∧ ∃ sorted sreq, hwtPositions h n tape = some (sorted, sreq :: io.tape) ∧
      io.reqs = reqs ++ List.replicate (tape.length - io.tape.length) (8 * h) ∧
      sorted.toFinset ∈ powersetCard h (range n) ∧
      (∃ idx ∈ fwdTuples h (n - h), sorted.toFinset = (resFold h h (List.range h) idx).toFinset) ∧
      (∀ cm (hcm : cm < ps.length) i, i < n →
        (i ∈ sorted → d.getD (cm * n + i) 0 = (if hwtSign sreq (sorted.idxOf i) then 1 else ps[cm] - 1) ∧ d.getD (cm * n + i) 0 ≠ 0) ∧
        (i ∉ sorted → d.getD (cm * n + i) 0 = 0)) ∧
      ∀ cm, cm < ps.length → #{i ∈ range n | d.getD (cm * n + i) 0 ≠ 0} = h :=
  hwt_ast_of_eq hmo (set_hwt_u64_eq n h ps data tape reqs (lt_of_modOK hmo) hh hn hm hN hd) hg

theorem hwt_u16_ast_stops (n h : Nat) (ps data : List Nat) (tape : Tape) (reqs : List Nat)
    (hp : ∀ p ∈ ps, p < 2 ^ 16) (hh : h < 2 ^ 32) (hn : n < 2 ^ 64) (hm : ps.length < 2 ^ 64) (hN : n * ps.length * 2 < 2 ^ 64)
    (hd : data.length = n * ps.length) :
    (Gen.set_hwt_u16 n ps.length (fun cm => ps.getD cm 0) h data ⟨tape, reqs⟩ = .err .assertion ↔ (h = 0 ∨ n < h)) ∧
    Gen.set_hwt_u16 n ps.length (fun cm => ps.getD cm 0) h data ⟨tape, reqs⟩ ≠ .err .fuel ∧
    Gen.set_hwt_u16 n ps.length (fun cm => ps.getD cm 0) h data ⟨tape, reqs⟩ ≠ .err .thrown :=
  hwt_stops_of_eq (set_hwt_u16_eq n h ps data tape reqs hp hh hn hm hN hd)

theorem hwt_u32_ast_stops (n h : Nat) (ps data : List Nat) (tape : Tape) (reqs : List Nat)
    (hp : ∀ p ∈ ps, p < 2 ^ 32) (hh : h < 2 ^ 32) (hn : n < 2 ^ 64) (hm : ps.length < 2 ^ 64) (hN : n * ps.length * 4 < 2 ^ 64)
    (hd : data.length = n * ps.length) :
    (Gen.set_hwt_u32 n ps.length (fun cm => ps.getD cm 0) h data ⟨tape, reqs⟩ = .err .assertion ↔ (h = 0 ∨ n < h)) ∧
    Gen.set_hwt_u32 n ps.length (fun cm => ps.getD cm 0) h data ⟨tape, reqs⟩ ≠ .err .fuel ∧
    Gen.set_hwt_u32 n ps.length (fun cm => ps.getD cm 0) h data ⟨tape, reqs⟩ ≠ .err .thrown :=
  hwt_stops_of_eq (set_hwt_u32_eq n h ps data tape reqs hp hh hn hm hN hd)

theorem hwt_u64_ast_stops (n h : Nat) (ps data : List Nat) (tape : Tape) (reqs : List Nat)
    (hp : ∀ p ∈ ps, p < 2 ^ 64) (hh : h < 2 ^ 32) (hn : n < 2 ^ 64) (hm : ps.length < 2 ^ 64) (hN : n * ps.length * 8 < 2 ^ 64)
    (hd : data.length = n * ps.length) :
    (Gen.set_hwt_u64 n ps.length (fun cm => ps.getD cm 0) h data ⟨tape, reqs⟩ = .err .assertion ↔ (h = 0 ∨ n < h)) ∧
    Gen.set_hwt_u64 n ps.length (fun cm => ps.getD cm 0) h data ⟨tape, reqs⟩ ≠ .err .fuel ∧
    Gen.set_hwt_u64 n ps.length (fun cm => ps.getD cm 0) h data ⟨tape, reqs⟩ ≠ .err .thrown :=
  hwt_stops_of_eq (set_hwt_u64_eq n h ps data tape reqs hp hh hn hm hN hd)

/-! ### set(It, It, bool): C15's length and reduction rules on the generated function -/

theorem range_ast_of_eq {n : Nat} {ps vals data : List Nat} {first last : Nat} {r : Bool} {g : Res (List Nat)}
    (hfl : first ≤ last) (hl : last ≤ vals.length)
    (heq : viewR n ps.length g =
      match setValues n ps ((vals.take last).drop first) r with
      | none => .err .thrown
      | some poly => .ok (poly, data.length)) :
    (g = .err .thrown ↔ (last - first > n ∧ last - first ≠ n * ps.length)) ∧
    (¬ (last - first > n ∧ last - first ≠ n * ps.length) →
      ∃ d, g = .ok d ∧ d.length = data.length ∧ ∀ cm (hcm : cm < ps.length) i, i < n →
        d.getD (cm * n + i) 0 =
          if (if last - first = n * ps.length then cm * n + i else i) < last - first then
            (if r then vals.getD (first + (if last - first = n * ps.length then cm * n + i else i)) 0 % ps[cm]
             else vals.getD (first + (if last - first = n * ps.length then cm * n + i else i)) 0)
          else 0) := by
  have hlen : ((vals.take last).drop first).length = last - first := by simp; omega
  have hsv : setValues n ps ((vals.take last).drop first) r =
      if last - first > n ∧ last - first ≠ n * ps.length then none else
        some (mkPoly n ps fun cm p i =>
          let src := if last - first = n * ps.length then cm * n + i else i
          if src < last - first then (if r then ((vals.take last).drop first).getD src 0 % p else ((vals.take last).drop first).getD src 0) else 0) := by
    unfold setValues; simp only [hlen]
  rw [hsv] at heq
  by_cases hb : last - first > n ∧ last - first ≠ n * ps.length
  · rw [if_pos hb] at heq
    have : g = .err .thrown := by
      cases g with
      | ok a => simp [viewR] at heq
      | err e => simp only [viewR, Res.err.injEq] at heq; rw [heq]
    exact ⟨⟨fun _ => hb, fun _ => this⟩, fun hnb => absurd hb hnb⟩
  · rw [if_neg hb] at heq
    cases g with
    | err e => simp [viewR] at heq
    | ok d =>
      simp only [viewR, Res.ok.injEq, Prod.mk.injEq] at heq
      refine ⟨⟨fun he => by simp at he, fun hb' => absurd hb' hb⟩, fun _ => ⟨d, rfl, heq.2, fun cm hcm i hi => ?_⟩⟩
      rw [← word_rows n ps.length d cm i hcm hi, heq.1, word_mkPoly n ps _ cm i hcm hi]
      by_cases hs : (if last - first = n * ps.length then cm * n + i else i) < last - first
      · rw [if_pos hs, if_pos hs, getD_slice vals first last _ (by omega)]
      · rw [if_neg hs, if_neg hs]

/-- C15 on the generated `set(first,last,reduce)`, 16-bit limb.  `k = last - first`.
(1) it throws (before any store: the array is returned only by a normal return) iff `degree < k ≠ degree·nmoduli`;
(2) otherwise it returns the array of the same length with, for every modulus `cm` and `i < degree`: short list (`k ≠ degree·nmoduli`, hence `k ≤ degree`):
source element `i` for EVERY modulus, zero for `i ≥ k`; full list (`k = degree·nmoduli`): source element `cm·degree + i`; the stored value is `v mod p_cm`
when `reduce`, else `v` verbatim. -/
theorem range_u16_ast (n : Nat) (ps vals data : List Nat) (first last : Nat) (r : Bool)
    (hp : ∀ p ∈ ps, p < 2 ^ 16) (hv : ∀ v ∈ vals, v < 2 ^ 16) (hfl : first ≤ last) (hl : last ≤ vals.length)
    (hd : data.length = n * ps.length) (hn : n < 2 ^ 64) (hm : ps.length < 2 ^ 64) (hN : n * ps.length < 2 ^ 64) :
    (Gen.set_range_u16 n ps.length (fun cm => ps.getD cm 0) vals first last r data = .err .thrown ↔
      (last - first > n ∧ last - first ≠ n * ps.length)) ∧
    (¬ (last - first > n ∧ last - first ≠ n * ps.length) →
      ∃ d, Gen.set_range_u16 n ps.length (fun cm => ps.getD cm 0) vals first last r data = .ok d ∧ d.length = data.length ∧
        ∀ cm (hcm : cm < ps.length) i, i < n →
        d.getD (cm * n + i) 0 =
          if (if last - first = n * ps.length then cm * n + i else i) < last - first then
            (if r then vals.getD (first + (if last - first = n * ps.length then cm * n + i else i)) 0 % ps[cm]
             else vals.getD (first + (if last - first = n * ps.length then cm * n + i else i)) 0)
          else 0) :=
  range_ast_of_eq hfl hl (set_range_u16_eq n ps vals data first last r hp hv hfl hl hd hn hm hN)

theorem range_u32_ast (n : Nat) (ps vals data : List Nat) (first last : Nat) (r : Bool)
    (hp : ∀ p ∈ ps, p < 2 ^ 32) (hv : ∀ v ∈ vals, v < 2 ^ 32) (hfl : first ≤ last) (hl : last ≤ vals.length)
    (hd : data.length = n * ps.length) (hn : n < 2 ^ 64) (hm : ps.length < 2 ^ 64) (hN : n * ps.length < 2 ^ 64) :
    (Gen.set_range_u32 n ps.length (fun cm => ps.getD cm 0) vals first last r data = .err .thrown ↔
      (last - first > n ∧ last - first ≠ n * ps.length)) ∧
    (¬ (last - first > n ∧ last - first ≠ n * ps.length) →
      ∃ d, Gen.set_range_u32 n ps.length (fun cm => ps.getD cm 0) vals first last r data = .ok d ∧ d.length = data.length ∧
        ∀ cm (hcm : cm < ps.length) i, i < n →
        d.getD (cm * n + i) 0 =
          if (if last - first = n * ps.length then cm * n + i else i) < last - first then
            (if r then vals.getD (first + (if last - first = n * ps.length then cm * n + i else i)) 0 % ps[cm]
             else vals.getD (first + (if last - first = n * ps.length then cm * n + i else i)) 0)
          else 0) :=
  range_ast_of_eq hfl hl (set_range_u32_eq n ps vals data first last r hp hv hfl hl hd hn hm hN)

theorem range_u64_ast (n : Nat) (ps vals data : List Nat) (first last : Nat) (r : Bool)
    (hp : ∀ p ∈ ps, p < 2 ^ 64) (hv : ∀ v ∈ vals, v < 2 ^ 64) (hfl : first ≤ last) (hl : last ≤ vals.length)
    (hd : data.length = n * ps.length) (hn : n < 2 ^ 64) (hm : ps.length < 2 ^ 64) (hN : n * ps.length < 2 ^ 64) :
    (Gen.set_range_u64 n ps.length (fun cm => ps.getD cm 0) vals first last r data = .err .thrown ↔
      (last - first > n ∧ last - first ≠ n * ps.length)) ∧
    (¬ (last - first > n ∧ last - first ≠ n * ps.length) →
      ∃ d, Gen.set_range_u64 n ps.length (fun cm => ps.getD cm 0) vals first last r data = .ok d ∧ d.length = data.length ∧
        ∀ cm (hcm : cm < ps.length) i, i < n →
        d.getD (cm * n + i) 0 =
          if (if last - first = n * ps.length then cm * n + i else i) < last - first then
            (if r then vals.getD (first + (if last - first = n * ps.length then cm * n + i else i)) 0 % ps[cm]
             else vals.getD (first + (if last - first = n * ps.length then cm * n + i else i)) 0)
          else 0) :=
  range_ast_of_eq hfl hl (set_range_u64_eq n ps vals data first last r hp hv hfl hl hd hn hm hN)

/-- C15 short-list rule read off `range_u16_ast`: `k ≤ degree`, at least two moduli or `k < degree`: value `i` goes to coefficient `i` of every modulus -/
theorem range_u16_ast_short (n : Nat) (ps vals data : List Nat) (first last : Nat) (r : Bool)
    (hp : ∀ p ∈ ps, p < 2 ^ 16) (hv : ∀ v ∈ vals, v < 2 ^ 16) (hfl : first ≤ last) (hl : last ≤ vals.length)
    (hd : data.length = n * ps.length) (hn : n < 2 ^ 64) (hm : ps.length < 2 ^ 64) (hN : n * ps.length < 2 ^ 64)
    (hk : last - first ≤ n) :
    ∃ d, Gen.set_range_u16 n ps.length (fun cm => ps.getD cm 0) vals first last r data = .ok d ∧ d.length = data.length ∧
      ∀ cm (hcm : cm < ps.length) i, i < n →
        d.getD (cm * n + i) 0 = if i < last - first then (if r then vals.getD (first + i) 0 % ps[cm] else vals.getD (first + i) 0) else 0 := by
  obtain ⟨d, e, hl', hc⟩ := (range_u16_ast n ps vals data first last r hp hv hfl hl hd hn hm hN).2 (by omega)
  refine ⟨d, e, hl', fun cm hcm i hi => ?_⟩
  rw [hc cm hcm i hi]
  by_cases hf : last - first = n * ps.length
  · -- k = n·nm ≤ n: one modulus (or k = 0 = n·nm): cm·n + i and i name the same element or both are out of range
    have h2 : n * (cm + 1) ≤ n * ps.length := Nat.mul_le_mul_left n hcm
    rw [Nat.mul_add, Nat.mul_one, Nat.mul_comm n cm] at h2
    have : cm * n = 0 := by omega
    simp only [hf, if_true, this, Nat.zero_add]
  · simp only [hf, if_false]

/-- C15 full-list rule: `k = degree·nmoduli`: the slice `[cm·degree, (cm+1)·degree)` goes to modulus `cm` -/
theorem range_u16_ast_full (n : Nat) (ps vals data : List Nat) (first last : Nat) (r : Bool)
    (hp : ∀ p ∈ ps, p < 2 ^ 16) (hv : ∀ v ∈ vals, v < 2 ^ 16) (hfl : first ≤ last) (hl : last ≤ vals.length)
    (hd : data.length = n * ps.length) (hn : n < 2 ^ 64) (hm : ps.length < 2 ^ 64) (hN : n * ps.length < 2 ^ 64)
    (hk : last - first = n * ps.length) :
    ∃ d, Gen.set_range_u16 n ps.length (fun cm => ps.getD cm 0) vals first last r data = .ok d ∧ d.length = data.length ∧
      ∀ cm (hcm : cm < ps.length) i, i < n →
        d.getD (cm * n + i) 0 = if r then vals.getD (first + (cm * n + i)) 0 % ps[cm] else vals.getD (first + (cm * n + i)) 0 := by
  obtain ⟨d, e, hl', hc⟩ := (range_u16_ast n ps vals data first last r hp hv hfl hl hd hn hm hN).2 (by omega)
  refine ⟨d, e, hl', fun cm hcm i hi => ?_⟩
  rw [hc cm hcm i hi]
  have h2 : n * (cm + 1) ≤ n * ps.length := Nat.mul_le_mul_left n hcm
  rw [Nat.mul_add, Nat.mul_one, Nat.mul_comm n cm] at h2
  simp only [hk, if_true]
  rw [if_pos (by omega)]

-- non-vacuity: concrete runs of the two generated functions (degree 4, two moduli 13, 17)
set_option maxRecDepth 100000 in
example : view 4 2 (Gen.set_hwt_u16 4 2 (fun cm => [13, 17].getD cm 0) 2 [9, 9, 9, 9, 9, 9, 9, 9]
      ⟨[[1,0,0,0,0,0,0,0, 2,0,0,0,0,0,0,0], [2,0,0,0,0,0,0,0, 0,0,0,0,0,0,0,0], [7]], [5]⟩) =
    .ok ([[1, 0, 12, 0], [1, 0, 16, 0]], 8, [[7]], [5, 16, 16]) := by decide +kernel

set_option maxRecDepth 100000 in
example : viewR 4 2 (Gen.set_range_u16 4 2 (fun cm => [13, 17].getD cm 0) [99, 14, 20, 5, 99] 1 4 true [9, 9, 9, 9, 9, 9, 9, 9]) =
    .ok ([[1, 7, 5, 0], [14, 3, 5, 0]], 8) := by decide +kernel

/-
CLOSING NOTE (replaces the "NOT PROVED" list at the end of Properties/C12Ast.lean).  Both whole-function equalities are now proved, for the three limb
widths and with no `_partial` left: `set_hwt_uW_eq` (refinement `SmpAstEq2.loop_refine`: induction on (unread words of the buffer) + (h+1)·(unread
buffers), which also shows that the budget `Smp.loopFuel` is never exhausted; `sortAll_eq_isort`; `memset_zero`; `rows_write` for the flat ±1 writes)
and `set_range_uW_eq` (`copy_loop`, `pad_loop`, `row_eq`, `range_outer`).  The split lemmas `set_hwt_uW_split` / `set_range_uW_split` are `rfl` against
structured copies of the generated terms, so a change of a loop bound, request size, index expression or library call in core.hpp breaks the proofs.
Still trusted: clang's AST, tools/gen_smp_ast.py, the node semantics Model/CSem*.lean, the library contracts Model/StdSem.lean (std::sort = the sorted
permutation, given as insertion sort), and the reading of `fastrandombytes` as the tape.  set(gaussian) is not translated as a whole.
-/
end Nfl.C12Ast
