/-
C10 (continued) — from the barrier table to the total variation distance: the *error-propagation* half of
"the sampler is within `2^-λ / m` of `D_{Z,σ,c}`".                                              *** still PARTIAL ***

Properties/C10.lean proves that the decoder is the inverse CDF of the barrier table, so that a uniform `wp`-word input
is mapped to `v₀ + k` with probability `(B_k − B_{k-1}) / W^wp` (`induced_mass`).  This file proves what that implies
for the statistical distance, in exact arithmetic over an arbitrary linearly ordered field `K` (`ℚ` in the examples;
`ℝ` for the true Gaussian — nothing below depends on the choice), for an ARBITRARY "ideal" probability function
`q : ℤ → K` (no property of the Gaussian is used):

  * `decProb_eq_pInd`, `invCDF_prob_eq_pInd`   the probability the *decoder* (resp. `invCDF`) gives to `v₀ + k` on a
                          uniform input is `pInd k = (B_k − B_{k-1}) / W^wp`; `decProb_sum` : they sum to 1 over
                          `k = 0..nb` (no mass outside the support);
  * `tv_le_of_barrier_error`   if every barrier is within `δ` of the ideal cumulative value,
                          `|B_k / W^wp − Σ_{j ≤ k} q (v₀+j)| ≤ δ` for `k < nb`, then
                          `decTV = ½ (Σ_{k ≤ nb} |decProb k − q (v₀+k)| + tailMass) ≤ nb·δ + tailMass`
                          where `tailMass = 1 − Σ_{k ≤ nb} q (v₀+k)` is the ideal mass outside the support
                          (the constant is attained: last example);
  * `tv_event`            `decTV` is the total variation: `|P_dec(A) − Q(A)| ≤ decTV` for every event `A`;
  * `tv_budget`           `nb·δ + tailMass ≤ 2^-λ / m  →  decTV ≤ 2^-λ / m`;
  * `tv_budget_of_params` the same from the two `2^-k` shares of the construction (`k = λ + 1 + ⌈log₂ m⌉`):
                          `nb·δ ≤ 2^-k` and `tailMass ≤ 2^-k`;
  * `tv_budget_of_rounding`  … with `δ` split into rounding to the grid (`≤ 1/W^wp` per barrier, `grid_error` /
                          `floor_error`) and the error `η ≤ (c−1)/W^wp` of the computed cumulative value, under the
                          exact-integer condition `precStrong c k nb bits` (`c·nb·2^k ≤ 2^bits`, `W^wp = 2^bits`);
  * `quant_of_precOK`, `quant_lt_two_of_precOK`   what the driver's `precOK` gives: `(nb−3)·2^-bits < 2^-k`, hence
                          `nb·2^-bits < 2·2^-k` for `nb ≥ 5` — the *whole* budget, not half of it: `precOK` alone does
                          not make the rounding term fit in its `2^-k` share (the code approximates `nb` by `2tσ`);
                          `precStrong` does, and holds with a factor `≈ 21` to spare on the real parameter set of the
                          example (bits are rounded up to whole words).

WHAT REMAINS A HYPOTHESIS (numeric inputs, checked by the harness's MPFR computation, not proved):
  (a) `hbar` : the barrier table is within `δ` of the exact scaled CDF of `D_{Z,σ,c}` restricted to the support
      (MPFR's `exp`, the normalisation and the conversion to `wp` words);
  (b) `htail`/`hT` : the mass of `D_{Z,σ,c}` outside `{v₀, …, v₀+nb}` (Gaussian tail bound, Lemma 1 of the paper),
  and the arithmetic fact `nb·δ + tailMass ≤ 2^-λ/m` about them.
-/
import NflVerif.Properties.C10
import NflVerif.Proofs.GaussTV
import Mathlib.Tactic.NormNum
import Mathlib.Tactic.IntervalCases
import Mathlib.Algebra.Order.Field.Rat

namespace Nfl.C10TV
open Nfl.Gauss Nfl.Gauss.TV Nfl.C10 Finset

/-! ### the distribution the decoder induces on a uniform input -/

/-- number of `wp`-word inputs (`u < W^wp`, big-endian base `W`) that the decoder maps to `v₀ + k` -/
def decCount (depth W wp : ℕ) (T : Tables) (v0 : ℤ) (k : ℕ) : ℕ :=
  ((range (W ^ wp)).filter
    (fun u => (decode depth wp T (toWords W wp u)).map (·.out) = some (v0 + (k : ℕ)))).card

/-- the same for the specification `invCDF` -/
def invCount (W wp : ℕ) (bs : List Str) (v0 : ℤ) (k : ℕ) : ℕ :=
  ((range (W ^ wp)).filter (fun u => invCDF bs v0 (toWords W wp u) = v0 + (k : ℕ))).card

section
variable (K : Type*) [Field K] [LinearOrder K] [IsStrictOrderedRing K]

/-- probability that the sampler's decoding step returns `v₀ + k` when the input string is uniform -/
def decProb (depth W wp : ℕ) (T : Tables) (v0 : ℤ) (k : ℕ) : K :=
  (decCount depth W wp T v0 k : K) / ((W ^ wp : ℕ) : K)

variable {K}

/-- total variation on `ℤ` between the decoder's output distribution (support `{v₀, …, v₀+nb}`) and `q` -/
def decTV (depth W wp nb : ℕ) (T : Tables) (q : ℤ → K) (v0 : ℤ) : K :=
  (∑ k ∈ range (nb + 1), |decProb K depth W wp T v0 k - q (v0 + (k : ℤ))| + tailMass q v0 nb) / 2

theorem numB_le {W wp : ℕ} {bs : List Str} (hwf : barriersWF W wp bs = true) : ∀ x ∈ numB W bs, x ≤ W ^ wp := by
  intro x hx
  simp only [numB, List.mem_map] at hx
  obtain ⟨b, hb, rfl⟩ := hx
  have hl := lenWp_of_WF hwf
  simp only [barriersWF, List.all_eq_true, Bool.and_eq_true, decide_eq_true_eq] at hwf
  have := valOf_lt (W := W) (s := b) (hwf b hb).2
  rw [hl b hb] at this
  omega

omit [LinearOrder K] [IsStrictOrderedRing K] in
theorem count_cast {W wp : ℕ} {bs : List Str} (hwf : barriersWF W wp bs = true) (hsort : sortedB bs = true)
    {k : ℕ} (hk : k ≤ bs.length) :
    ((massHi W wp bs k - massLo W bs k : ℕ) : K) / ((W ^ wp : ℕ) : K) = pInd K (numB W bs) (W ^ wp) k := by
  have hle : massLo W bs k ≤ massHi W wp bs k :=
    loOf_le_hiOf (numB_sorted hwf hsort) (numB_le hwf) (by simpa [numB] using hk)
  rw [Nat.cast_sub hle]
  rfl

omit [LinearOrder K] [IsStrictOrderedRing K] in
/-- **the induced probabilities are the decoder's**: `pInd k`, defined from the barrier list alone, is the probability
that `decode` (fast path, tables satisfying `tableOK`) returns `v₀ + k` on a uniform `wp`-word input. -/
theorem decProb_eq_pInd {depth W wp : ℕ} {bs : List Str} {v0 : ℤ} {T : Tables}
    (hW : 0 < W) (hwf : barriersWF W wp bs = true) (hsort : sortedB bs = true) (hT : tableOK depth W bs v0 T = true)
    (hwp : depth ≤ wp) {k : ℕ} (hk : k ≤ bs.length) :
    decProb K depth W wp T v0 k = pInd K (numB W bs) (W ^ wp) k := by
  rw [decProb, decCount, induced_mass hW hwf hsort hT hwp k hk, count_cast hwf hsort hk]

omit [LinearOrder K] [IsStrictOrderedRing K] in
/-- the same for the specification `invCDF` (no table involved). -/
theorem invCDF_prob_eq_pInd {W wp : ℕ} {bs : List Str} (v0 : ℤ)
    (hW : 0 < W) (hwf : barriersWF W wp bs = true) (hsort : sortedB bs = true) {k : ℕ} (hk : k ≤ bs.length) :
    (invCount W wp bs v0 k : K) / ((W ^ wp : ℕ) : K) = pInd K (numB W bs) (W ^ wp) k := by
  rw [invCount, invCDF_mass hwf hsort hW v0 k hk]
  exact count_cast hwf hsort hk

omit [LinearOrder K] [IsStrictOrderedRing K] in
/-- with the tables the builder model produces (`buildLUT`), unconditionally. -/
theorem decProb_eq_pInd_built {depth W wp : ℕ} {bs : List Str} (rc : ℤ) (hd : depth = 1 ∨ depth = 2) (hW : 0 < W)
    (hwf : barriersWF W wp bs = true) (hsort : sortedB bs = true) (hwp : depth ≤ wp)
    (hodd : bs.length % 2 = 1) (hlast : lastOnes W depth bs = true) :
    ∃ T, buildLUT depth W bs rc = some T ∧ ∀ k ≤ bs.length,
      decProb K depth W wp T (v0Of bs.length rc) k = pInd K (numB W bs) (W ^ wp) k := by
  obtain ⟨T, hb, hT⟩ := buildLUT_tableOK rc hd hW hwf hsort hwp hodd hlast
  exact ⟨T, hb, fun k hk => decProb_eq_pInd hW hwf hsort hT hwp hk⟩

theorem decProb_nonneg (depth W wp : ℕ) (T : Tables) (v0 : ℤ) (k : ℕ) : 0 ≤ decProb K depth W wp T v0 k :=
  div_nonneg (Nat.cast_nonneg _) (Nat.cast_nonneg _)

/-- the decoder's probabilities of `v₀, …, v₀ + nb` sum to one: no other value is ever returned. -/
theorem decProb_sum {depth W wp : ℕ} {bs : List Str} {v0 : ℤ} {T : Tables}
    (hW : 0 < W) (hwf : barriersWF W wp bs = true) (hsort : sortedB bs = true) (hT : tableOK depth W bs v0 T = true)
    (hwp : depth ≤ wp) : ∑ k ∈ range (bs.length + 1), decProb K depth W wp T v0 k = 1 := by
  have hlen : (numB W bs).length = bs.length := by simp [numB]
  rw [← pInd_sum (K := K) (numB W bs) (Nat.pow_pos hW : 0 < W ^ wp), hlen]
  exact sum_congr rfl fun k hk =>
    decProb_eq_pInd hW hwf hsort hT hwp (by simpa [Nat.lt_succ_iff] using hk)

omit [IsStrictOrderedRing K] in
theorem decTV_eq_tv {depth W wp : ℕ} {bs : List Str} {v0 : ℤ} {T : Tables} (q : ℤ → K)
    (hW : 0 < W) (hwf : barriersWF W wp bs = true) (hsort : sortedB bs = true) (hT : tableOK depth W bs v0 T = true)
    (hwp : depth ≤ wp) : decTV depth W wp bs.length T q v0 = tv (numB W bs) (W ^ wp) q v0 := by
  have hlen : (numB W bs).length = bs.length := by simp [numB]
  unfold decTV tv
  rw [hlen]
  congr 2
  exact sum_congr rfl fun k hk => by
    rw [decProb_eq_pInd hW hwf hsort hT hwp (by simpa [Nat.lt_succ_iff] using hk)]

/-! ### error propagation -/

/-- **`tv ≤ nb·δ + tailMass`**: for every index width `W`, word count `wp`, well-formed sorted barrier table `bs`,
table `T` satisfying `tableOK`, and every `q`: if each barrier is within `δ` of the ideal cumulative value (scaled by
`W^wp`), the decoder's output distribution on a uniform input is within `nb·δ + tailMass` of `q` in total variation. -/
theorem tv_le_of_barrier_error {depth W wp : ℕ} {bs : List Str} {v0 : ℤ} {T : Tables} (q : ℤ → K) (δ : K)
    (hW : 0 < W) (hwf : barriersWF W wp bs = true) (hsort : sortedB bs = true) (hT : tableOK depth W bs v0 T = true)
    (hwp : depth ≤ wp)
    (htail : 0 ≤ tailMass q v0 bs.length)
    (hbar : ∀ k (hk : k < bs.length), |(valOf W bs[k] : K) / ((W ^ wp : ℕ) : K) - cumQ q v0 k| ≤ δ) :
    decTV depth W wp bs.length T q v0 ≤ (bs.length : K) * δ + tailMass q v0 bs.length := by
  have hlen : (numB W bs).length = bs.length := by simp [numB]
  rw [decTV_eq_tv q hW hwf hsort hT hwp]
  have h := TV.tv_le_of_barrier_error (numB W bs) (W ^ wp) q v0 δ (Nat.pow_pos hW) (by rwa [hlen])
    (by intro k hk
        have hk' : k < bs.length := by rwa [hlen] at hk
        simpa [numB] using hbar k hk')
  rwa [hlen] at h

/-- **budget form.**  C10's bound follows from two numeric facts: (a) the table is within `δ` of the exact scaled CDF,
(b) the mass outside the tabulated window — with `nb·δ + tailMass ≤ 2^-λ / m`. -/
theorem tv_budget {depth W wp : ℕ} {bs : List Str} {v0 : ℤ} {T : Tables} (q : ℤ → K) (δ : K) (lam m : ℕ)
    (hW : 0 < W) (hwf : barriersWF W wp bs = true) (hsort : sortedB bs = true) (hT : tableOK depth W bs v0 T = true)
    (hwp : depth ≤ wp)
    (htail : 0 ≤ tailMass q v0 bs.length)
    (hbar : ∀ k (hk : k < bs.length), |(valOf W bs[k] : K) / ((W ^ wp : ℕ) : K) - cumQ q v0 k| ≤ δ)
    (hbud : (bs.length : K) * δ + tailMass q v0 bs.length ≤ ((2 : K) ^ lam)⁻¹ / (m : K)) :
    decTV depth W wp bs.length T q v0 ≤ ((2 : K) ^ lam)⁻¹ / (m : K) :=
  le_trans (tv_le_of_barrier_error q δ hW hwf hsort hT hwp htail hbar) hbud

/-- **`decTV` is the total variation**: for every event — a set `A` of support indices together with any set of
integers outside the support, whose ideal probability is some `o ∈ [0, tailMass]` and whose probability under the
decoder is `0` — the two probabilities differ by at most `decTV`. -/
theorem tv_event {depth W wp : ℕ} {bs : List Str} {v0 : ℤ} {T : Tables} (q : ℤ → K)
    (hW : 0 < W) (hwf : barriersWF W wp bs = true) (hsort : sortedB bs = true) (hT : tableOK depth W bs v0 T = true)
    (hwp : depth ≤ wp) (A : Finset ℕ) (hA : A ⊆ range (bs.length + 1)) (o : K) (ho : 0 ≤ o)
    (ho' : o ≤ tailMass q v0 bs.length) :
    |∑ k ∈ A, decProb K depth W wp T v0 k - (∑ k ∈ A, q (v0 + (k : ℤ)) + o)| ≤
      decTV depth W wp bs.length T q v0 := by
  have hlen : (numB W bs).length = bs.length := by simp [numB]
  rw [decTV_eq_tv q hW hwf hsort hT hwp]
  have h := TV.tv_event (numB W bs) q v0 (Nat.pow_pos hW : 0 < W ^ wp) A (by rwa [hlen]) o ho (by rwa [hlen])
  have e : ∑ k ∈ A, decProb K depth W wp T v0 k = ∑ k ∈ A, pInd K (numB W bs) (W ^ wp) k :=
    sum_congr rfl fun k hk =>
      decProb_eq_pInd hW hwf hsort hT hwp (by simpa [Nat.lt_succ_iff] using hA hk)
  rwa [e]

/-! ### the parameters: two shares of `2^-k`, `k = kOf λ m = λ + 1 + ⌈log₂ m⌉` -/

/-- the structure of the construction: the precision share `nb·δ ≤ 2^-k` (Lemma 2) and the tail share
`tailMass ≤ 2^-k` (Lemma 1) give `2^-λ / m`, for every sample budget `m ≥ 1`. -/
theorem tv_budget_of_params {depth W wp : ℕ} {bs : List Str} {v0 : ℤ} {T : Tables} (q : ℤ → K) (δ : K) (lam m : ℕ)
    (hm : 1 ≤ m)
    (hW : 0 < W) (hwf : barriersWF W wp bs = true) (hsort : sortedB bs = true) (hT : tableOK depth W bs v0 T = true)
    (hwp : depth ≤ wp)
    (htail : 0 ≤ tailMass q v0 bs.length)
    (hbar : ∀ k (hk : k < bs.length), |(valOf W bs[k] : K) / ((W ^ wp : ℕ) : K) - cumQ q v0 k| ≤ δ)
    (hprec : (bs.length : K) * δ ≤ ((2 : K) ^ kOf lam m)⁻¹)
    (hT1 : tailMass q v0 bs.length ≤ ((2 : K) ^ kOf lam m)⁻¹) :
    decTV depth W wp bs.length T q v0 ≤ ((2 : K) ^ lam)⁻¹ / (m : K) := by
  apply tv_budget q δ lam m hW hwf hsort hT hwp htail hbar
  have := two_shares_le_budget (K := K) lam m hm
  linarith

/-- the precision share made explicit.  `W = 2^wordBits`, so `W^wp = 2^bits` with `bits = wp·wordBits`;
`x' k` is the *computed* cumulative value (a named hypothesis: `hcomp` bounds its distance to the exact one by `η`,
`hround` says the stored barrier is `x' k` rounded to the grid `ℤ / W^wp` with error at most one unit — `floor_error`
for truncation); `η ≤ (c−1)` grid units; the exact-integer condition `precStrong c k nb bits`. -/
theorem tv_budget_of_rounding {depth wordBits wp : ℕ} {bs : List Str} {v0 : ℤ} {T : Tables} (q : ℤ → K)
    (x' : ℕ → K) (η : K) (c lam m : ℕ) (hm : 1 ≤ m)
    (hwf : barriersWF (2 ^ wordBits) wp bs = true) (hsort : sortedB bs = true)
    (hT : tableOK depth (2 ^ wordBits) bs v0 T = true) (hwp : depth ≤ wp)
    (htail : 0 ≤ tailMass q v0 bs.length)
    (hround : ∀ k (hk : k < bs.length),
      |(valOf (2 ^ wordBits) bs[k] : K) / (((2 ^ wordBits) ^ wp : ℕ) : K) - x' k| ≤ 1 / (((2 ^ wordBits) ^ wp : ℕ) : K))
    (hcomp : ∀ k, k < bs.length → |x' k - cumQ q v0 k| ≤ η)
    (hη : η ≤ ((c : K) - 1) / (((2 ^ wordBits) ^ wp : ℕ) : K))
    (hprec : precStrong c (kOf lam m) bs.length (wp * wordBits) = true)
    (hT1 : tailMass q v0 bs.length ≤ ((2 : K) ^ kOf lam m)⁻¹) :
    decTV depth (2 ^ wordBits) wp bs.length T q v0 ≤ ((2 : K) ^ lam)⁻¹ / (m : K) := by
  have hN : (((2 ^ wordBits) ^ wp : ℕ) : K) = (2 : K) ^ (wp * wordBits) := by
    push_cast; rw [← pow_mul, Nat.mul_comm]
  have hNpos : (0 : K) < (2 : K) ^ (wp * wordBits) := by positivity
  apply tv_budget_of_params q ((c : K) / (2 : K) ^ (wp * wordBits)) lam m hm (Nat.two_pow_pos _) hwf hsort hT hwp htail
  · intro k hk
    have h := barrier_error_split _ _ _ _ _ (hround k hk) (hcomp k hk)
    refine le_trans h ?_
    rw [hN] at hη ⊢
    calc 1 / (2 : K) ^ (wp * wordBits) + η
        ≤ 1 / (2 : K) ^ (wp * wordBits) + ((c : K) - 1) / (2 : K) ^ (wp * wordBits) := by linarith
      _ = (c : K) / (2 : K) ^ (wp * wordBits) := by rw [← add_div]; ring
  · exact quant_le_of_precStrong hprec
  · exact hT1

end

/-! ### non-vacuity

The barrier table of Properties/C10.lean (`W = 4`, two words, barriers `2, 7, 15` out of `16`, outputs `-1, 0, 1, 2` with
masses `2, 5, 8, 1`), the tables the builder model produces for it, and an explicit rational `q` with mass `1/64`
outside the support.  Every barrier is exactly `δ = 1/32` away from the ideal cumulative value, with alternating signs:
the bound is attained (`7/64`), so the constant `nb·δ + tailMass` cannot be improved. -/

/-- ideal probabilities: `5/32, 8/32, 18/32, 1/64` on `-1, 0, 1, 2`, and `1/64` on `3` (outside the support) -/
def exQ : ℤ → ℚ := fun v =>
  if v = -1 then 5 / 32 else if v = 0 then 8 / 32 else if v = 1 then 18 / 32 else if v = 2 then 1 / 64
  else if v = 3 then 1 / 64 else 0

def exT : Tables := (buildLUT 1 4 exBs 0).getD ⟨#[], #[]⟩

theorem exT_ok : tableOK 1 4 exBs (v0Of 3 0) exT = true := by decide

theorem ex_nonneg : ∀ v, 0 ≤ exQ v := by
  intro v; unfold exQ; split_ifs <;> norm_num

theorem ex_cum : cumQ exQ (-1) 0 = 5 / 32 ∧ cumQ exQ (-1) 1 = 13 / 32 ∧ cumQ exQ (-1) 2 = 31 / 32 ∧
    tailMass exQ (-1) 3 = 1 / 64 := by
  simp only [tailMass, cumQ, sum_range_succ, range_zero, sum_empty, exQ]
  norm_num

theorem ex_hbar : ∀ k (hk : k < exBs.length),
    |(valOf 4 exBs[k] : ℚ) / ((4 ^ 2 : ℕ) : ℚ) - cumQ exQ (-1) k| ≤ 1 / 32 := by
  intro k hk
  have hk3 : k < 3 := hk
  obtain ⟨h0, h1, h2, _⟩ := ex_cum
  interval_cases k
  · rw [h0]; simp only [exBs, List.getElem_cons_zero, valOf]; norm_num [abs_le]
  · rw [h1]; simp only [exBs, List.getElem_cons_succ, List.getElem_cons_zero, valOf]; norm_num [abs_le]
  · rw [h2]; simp only [exBs, List.getElem_cons_succ, List.getElem_cons_zero, valOf]; norm_num [abs_le]

/-- all hypotheses of `tv_le_of_barrier_error` / `tv_budget` hold on the instance (`λ = 2`, `m = 2`: budget `1/8`) … -/
example : decTV 1 4 2 exBs.length exT exQ (v0Of 3 0) ≤ ((2 : ℚ) ^ 2)⁻¹ / (2 : ℕ) :=
  tv_budget exQ (1 / 32) 2 2 (by decide) (by decide) (by decide) exT_ok (by decide)
    (by rw [show v0Of 3 0 = -1 by decide, show exBs.length = 3 by decide, ex_cum.2.2.2]; norm_num)
    (by rw [show v0Of 3 0 = -1 by decide]; exact ex_hbar)
    (by rw [show v0Of 3 0 = -1 by decide, show exBs.length = 3 by decide, ex_cum.2.2.2]; norm_num)

/-- … and the bound of `tv_le_of_barrier_error` is an equality there: `tv = 7/64 = 3·(1/32) + 1/64`. -/
theorem ex_tight : decTV 1 4 2 exBs.length exT exQ (v0Of 3 0) = 7 / 64 ∧
    (exBs.length : ℚ) * (1 / 32) + tailMass exQ (v0Of 3 0) exBs.length = 7 / 64 := by
  have hv : v0Of 3 0 = -1 := by decide
  have hl : exBs.length = 3 := by decide
  constructor
  · rw [decTV_eq_tv exQ (by decide) (by decide) (by decide) exT_ok (by decide), hv]
    have hn : numB 4 exBs = [2, 7, 15] := by decide
    have hlen : (numB 4 exBs).length = 3 := by decide
    unfold tv
    rw [hlen, ex_cum.2.2.2, hn]
    simp only [sum_range_succ, range_zero, sum_empty, pInd, hiOf, loOf, exQ]
    norm_num [abs_of_nonneg, abs_of_nonpos]
  · rw [hv, hl, ex_cum.2.2.2]; norm_num

/-- the parameter side on the numbers of a real object (8-bit index, `σ = 3.19`, `λ = 128`, `m = 10^6`: `k = 149`,
20 words = 160 bits, 95 barriers): `precOK` holds, and so does `precStrong` with `c = 16` grid units of error per
barrier (`2^160 / (95·2^149) ≈ 21.6`); with 18 words (a `k` that is 14 bits too small) even `c = 1` fails. -/
example : precOK 149 95 160 = true ∧ precStrong 16 149 95 160 = true ∧ precStrong 1 149 95 144 = false := by
  decide

end Nfl.C10TV
