/-
C06 (and the table part of C02 / C01) on code obtained from the source text.

`Generated/InitAst.lean` is produced on every run by `tools/gen_init_ast.py` from clang's typed AST of
`poly<T,Degree,NbModuli>::core::initialize()` and `core::prep_wtab` (T = uint16_t, uint32_t, uint64_t), built on the
generated `Gen.mulmod_uW` of `Generated/OpsAst.lean` and the `static_log2` of `Generated/CrtAst.lean`.  This file states
  (1) `genInit_eq`: for EVERY in-range row (no primality, no root facts), every degree `2^k ≤ kMaxPolyDegree = 2^lk < 2^32`
      and arbitrary initial content of the rows, the generated builder returns exactly the hand model's tables
      (`InitAstEq.RowEq`: phis, shoupphis, invpoly_times_invphis + Shoup, omegas / shoupomegas, invomegas / shoupinvomegas in
      the C++ layout — Shoup companions at offset `degree` of the same row —, invpolyDegree);
  (2) `tables_ast`: the same for every row of the regenerated tables (the ranges follow from `RowOK`);
  (3) the C06 statements about derived roots transported to the generated builder: the generated `phis[1]` is the field
      element `root^(2^(lk-k))` of order exactly `2·degree` (`derived_root_ast`), the generated `invpolyDegree` times
      `degree` is 1 in `ZMod p` (`derived_invN_ast`), and `invpoly_times_invphis[0]` is that inverse.
Proofs of (1) are in `Proofs/InitAstEq.lean`.
-/
import NflVerif.Proofs.InitAstEq
import NflVerif.Proofs.NttRefine

namespace Nfl.C06Ast
open Nfl Nfl.Gen Nfl.C03 Nfl.InitAstEq Nfl.NttRefine

/-- the generated table builder of one modulus, indexed by limb width (only the 64-bit `mulmod` reads `Pn[cm]`) -/
def genInit : Limb → Nat → Nat → Row → InitRow → InitRow
  | .w16 => fun n K r s => initialize_row_u16 n K r.p r.root r.invN s
  | .w32 => fun n K r s => initialize_row_u32 n K r.p r.root r.invN s
  | .w64 => fun n K r s => initialize_row_u64 n K r.p r.pn r.root r.invN s

/-- (1) generated = hand model, for all rows in the ranges of the C types.
`hk`, `hlk`: see Proofs/InitAstEq.lean (wrap of `static_log2<kMax> - static_log2<degree>`; `unsigned` truncation of the degree). -/
theorem genInit_eq (l : Limb) (r : Row) (lk k : Nat) (s : InitRow) (hp : r.p < 2 ^ l.w) (hpn : r.pn < 2 ^ l.w)
    (hroot : r.root < 2 ^ l.w) (hinv : r.invN < 2 ^ l.w) (hk : k ≤ lk) (hlk : lk < 32) (hs : s.wf (2 ^ k)) :
    RowEq (2 ^ k) (genInit l (2 ^ k) (2 ^ lk) r s) (initTables l.w lk r k) (invDegW l.w lk r k) := by
  cases l
  · exact initialize_row_u16_eq r lk k s hp hroot hinv hk hlk hs
  · exact initialize_row_u32_eq r lk k s hp hroot hinv hk hlk hs
  · exact initialize_row_u64_eq r lk k s hp hpn hroot hinv hk hlk hs

theorem lk_lt (l : Limb) : l.lk < 32 := by cases l <;> decide

/-- the `kMaxPolyDegree` the generated code is applied to is the one of params.hpp -/
theorem kMax_eq : kMaxPolyDegree16 = 2 ^ Limb.w16.lk ∧ kMaxPolyDegree32 = 2 ^ Limb.w32.lk ∧ kMaxPolyDegree64 = 2 ^ Limb.w64.lk :=
  ⟨C06.kMax16, C06.kMax32, C06.kMax64⟩

/-- (2) every row of the regenerated tables, every degree `2^k ≤ kMaxPolyDegree`: the generated builder returns the
model's tables, whatever the rows contained before. -/
theorem tables_ast (l : Limb) {r : Row} (hr : r ∈ l.table.rows) {k : Nat} (hk : k ≤ l.lk) (s : InitRow) (hs : s.wf (2 ^ k)) :
    RowEq (2 ^ k) (genInit l (2 ^ k) (2 ^ l.lk) r s) (initTables l.w l.lk r k) (invDegW l.w l.lk r k) := by
  have h := ctx_of_row l hr hk
  have hp := h.p_lt
  exact genInit_eq l r l.lk k s hp h.row.pn_lt (Nat.lt_trans h.row.root_lt hp) (Nat.lt_trans h.row.inv_lt hp) hk (lk_lt l) hs

/-- (3a) `phi` as the generated builder stores it (`phis[1]`, degree ≥ 2) is `root^(2^(lk-k))`: `phi^degree = -1`, order `2·degree` -/
theorem derived_root_ast (l : Limb) {r : Row} (hr : r ∈ l.table.rows) {k : Nat} (hk : k ≤ l.lk) (hk1 : 1 ≤ k) (s : InitRow)
    (hs : s.wf (2 ^ k)) :
    let phi : ZMod r.p := (((genInit l (2 ^ k) (2 ^ l.lk) r s).phis.getD 1 0 : Nat) : ZMod r.p)
    phi = (r.root : ZMod r.p) ^ (2 ^ (l.lk - k)) ∧ phi ^ (2 ^ k) = -1 ∧ orderOf phi = 2 ^ (k + 1) := by
  have h := ctx_of_row l hr hk
  have e := (tables_ast l hr hk s hs).phis
  obtain ⟨f1, f2⟩ := phiW_spec h
  have h2k : 1 < 2 ^ k := Nat.one_lt_two_pow (by omega)
  have hv : (genInit l (2 ^ k) (2 ^ l.lk) r s).phis.getD 1 0 = phiW l.w l.lk r k := by
    rw [e]
    show CSemInit.load (iterMul l.w r.p r.pn (phiW l.w l.lk r k) (2 ^ k) 1) 1 = _
    rw [load_iterMul _ _ _ _ _ _ _ h2k]
    show mulmod l.w r.p r.pn 1 (phiW l.w l.lk r k) = _
    rw [h.hmul 1 _ h.one_lt f1, Nat.one_mul, Nat.mod_eq_of_lt f1]
  simp only [hv, f2]
  have hw : 5 ≤ l.w := by have := h.w_ge; omega
  exact ⟨trivial, C06.derived_root h.row k hk, C06.derived_root_order h.row hw k hk⟩

/-- (3b) the inverse of the degree as the generated builder stores it: `invpolyDegree · degree ≡ 1 (mod p)`, and it is the
first entry of `invpoly_times_invphis` -/
theorem derived_invN_ast (l : Limb) {r : Row} (hr : r ∈ l.table.rows) {k : Nat} (hk : k ≤ l.lk) (s : InitRow) (hs : s.wf (2 ^ k)) :
    (((genInit l (2 ^ k) (2 ^ l.lk) r s).invpolyDegree : Nat) : ZMod r.p) * ((2 ^ k : Nat) : ZMod r.p) = 1 ∧
    (genInit l (2 ^ k) (2 ^ l.lk) r s).invpoly_times_invphis.getD 0 0 = (genInit l (2 ^ k) (2 ^ l.lk) r s).invpolyDegree := by
  have h := ctx_of_row l hr hk
  have T := tables_ast l hr hk s hs
  have : Fact r.p.Prime := ⟨h.row.prime⟩
  obtain ⟨d1, d2⟩ := invDegW_spec h
  constructor
  · rw [T.invpolyDegree, d2]
    apply inv_mul_cancel₀
    intro h0
    rw [ZMod.natCast_eq_zero_iff] at h0
    have hle := Nat.le_of_dvd (Nat.two_pow_pos k) h0
    have := h.pow_lk_lt
    have : 2 ^ k ≤ 2 ^ l.lk := Nat.pow_le_pow_right (by omega) hk
    omega
  · rw [T.invphis, T.invpolyDegree]
    have hp : 0 < 2 ^ k := Nat.two_pow_pos k
    show CSemInit.load (iterMul l.w r.p r.pn _ (2 ^ k) (invDegW l.w l.lk r k)) 0 = _
    rw [load_iterMul _ _ _ _ _ _ _ hp]
    rfl

/-- Non-vacuity: the first 16-bit row, degree 8, rows pre-filled with arbitrary words. -/
example : ∃ r ∈ Limb.w16.table.rows, ∃ s : InitRow, s.wf (2 ^ 3) ∧ (3 : Nat) ≤ Limb.w16.lk :=
  ⟨⟨15361, 17458, 4989, 15331⟩, by decide,
    ⟨List.replicate 8 7, List.replicate 8 7, List.replicate 8 7, List.replicate 8 7, List.replicate 16 7, 99, List.replicate 16 7, 99, 99⟩,
    by simp [InitRow.wf], by decide⟩

/-- the layout on that instance, by evaluation of the generated code: Shoup companions at offset 8 of the same row, cells 7 and 15 untouched -/
example : (initialize_row_u16 8 512 15361 4989 15331
    ⟨List.replicate 8 7, List.replicate 8 7, List.replicate 8 7, List.replicate 8 7, List.replicate 16 7, 99, List.replicate 16 7, 99, 99⟩).omegas =
    [1, 14042, 3968, 4309, 1, 3968, 1, 7, 4, 59908, 16929, 18383, 4, 16929, 4, 7] := by decide +kernel

end Nfl.C06Ast
