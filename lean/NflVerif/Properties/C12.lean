/-
C12 — Uniform, bounded, ternary, fixed-weight samplers: exact support and bias bounds.

All statements COUNT over the whole input space (every value of the random word / byte / index tuple);
nothing is sampled.  "Uniformly distributed random words" enters only through these counts: a value with `c`
preimages among `N` equally likely inputs has probability `c/N`.

* uniform      : `uniform_preimages` (every residue has 1 or 2 preimages among the masked values) and
                 `uniform_word_preimages` (lift to `w`-bit words: factor `2^(w-b)`), `uniform_bias`;
* bounded      : `bounded_support` (values are `A·j`, `|j| ≤ B-1`), `bounded_preimages` (every such `j` has 1 or 2
                 preimages among the masked values), `bounded_word_preimages` (lift to words);
* ternary      : `zo_counts` (full 256 × 256 table in the kernel);
* fixed weight : `reject_unbiased` / `accept_unbiased` (accepted 64-bit words are uniform on `[0,k]`),
                 `reservoir_uniform` (every `h`-subset has exactly `(n-h)!` index-tuple preimages),
                 `hwt_positions_reservoir` (the model's positions ARE that reservoir), `hwt_weight`;
                 `accept_iff_below_threshold`, `spec_accept_is_model`, `extra_accept_biased` (accepting ONE word of
                 the incomplete top block `[M_k, 2^64)` gives its index one pre-image more than the others — what
                 the correspondence stream's spec verdict says when it names such a word);
                 `spec_positions_are_model` (the executable specification of the positions, run on the flat word
                 stream, is the model's positions) and `fast_evaluators_are_model` (the array-backed functions the
                 driver evaluates at degree 2^17…2^20 are the model functions, for all inputs);
* independence : `uniform_independent`, `bounded_independent`, `zo_independent` (coefficient `i` reads only its own
                 bytes of the tape; footprints of distinct coefficients are disjoint), `hwt_signs_fresh`.
-/
import NflVerif.Properties.C09
import NflVerif.Proofs.SamplersCount
import NflVerif.Proofs.ZoCounts
import NflVerif.Proofs.SamplersFast

namespace Nfl.C12
open Nfl Nfl.Samplers Finset
open Nfl.Spec.Samplers (enc)
open Nfl.C09 (ModOK BoundedOK)

/-! ### uniform -/

/-- every residue is reachable and none has more than two preimages among the `b`-bit masked values -/
theorem uniform_preimages {b p : Nat} (hb1 : 1 ≤ b) (hb : 2 ^ (b - 1) ≤ p) (hp : p < 2 ^ b) :
    ∀ r, r < p → #{v ∈ range (2 ^ b) | red1 p v = r} = 1 ∨ #{v ∈ range (2 ^ b) | red1 p v = r} = 2 :=
  red1_preimages hb hp hb1

/-- lift to `w`-bit random words: the code's coefficient function `uniCoef w p` (mask to `b = ⌊log2 p⌋+1` bits, one
conditional subtraction) has exactly `2^(w-b)` times as many preimages -/
theorem uniform_word_preimages {w p : Nat} (hp0 : 0 < p) (hp : p < 2 ^ 63) (hw : p < 2 ^ w) (r : Nat) :
    #{x ∈ range (2 ^ w) | uniCoef w p x = r} =
      2 ^ (w - (Nat.log2 p + 1)) * #{v ∈ range (2 ^ (Nat.log2 p + 1)) | red1 p v = r} := by
  have hLw : Nat.log2 p < w := (Nat.log2_lt (by omega)).2 hw
  have h2 : 2 ^ w = 2 ^ (w - (Nat.log2 p + 1)) * 2 ^ (Nat.log2 p + 1) := by
    rw [← Nat.pow_add]; congr 1; omega
  rw [h2, ← card_mod_fiber (2 ^ (Nat.log2 p + 1)) (fun v => red1 p v = r)]
  congr 1
  apply Finset.filter_congr
  intro x _
  rw [uniCoef_eq hp0 hp hw]

/-- uniform sampling reaches every residue and no residue is more than twice as likely as another
(counts over all `2^w` values of the random word) -/
theorem uniform_bias {w : Nat} {ps : List Nat} (hm : ModOK w ps) {p : Nat} (hpm : p ∈ ps) (r r' : Nat)
    (hr : r < p) (hr' : r' < p) :
    0 < #{x ∈ range (2 ^ w) | uniCoef w p x = r} ∧
    #{x ∈ range (2 ^ w) | uniCoef w p x = r} ≤ 2 * #{x ∈ range (2 ^ w) | uniCoef w p x = r'} := by
  obtain ⟨_, hw64, hp⟩ := hm
  have h1 := hp p hpm
  have h3 : 2 ^ w ≤ 2 ^ 64 := Nat.pow_le_pow_right (by decide) hw64
  have hp0 : 0 < p := by omega
  have hb := log2_bounds hp0
  rw [uniform_word_preimages hp0 (by omega) (by omega), uniform_word_preimages hp0 (by omega) (by omega)]
  have ha := uniform_preimages (b := Nat.log2 p + 1) (by omega) (by simpa using hb.1) hb.2 r hr
  have hb' := uniform_preimages (b := Nat.log2 p + 1) (by omega) (by simpa using hb.1) hb.2 r' hr'
  have hpos : 0 < 2 ^ (w - (Nat.log2 p + 1)) := Nat.two_pow_pos _
  generalize 2 ^ (w - (Nat.log2 p + 1)) = K at *
  generalize #{v ∈ range (2 ^ (Nat.log2 p + 1)) | red1 p v = r} = a at *
  generalize #{v ∈ range (2 ^ (Nat.log2 p + 1)) | red1 p v = r'} = c at *
  constructor
  · exact Nat.mul_pos hpos (by omega)
  · rcases ha with rfl | rfl <;> rcases hb' with rfl | rfl <;> omega

/-! ### bounded: support exactly `A·{-(B-1), …, B-1}`, each value 1 or 2 preimages -/

/-- every draw is `A·j` with `|j| ≤ B-1`, stored as `enc p (A·j)` for every modulus (C09) -/
theorem bounded_support {w B : Nat} (hB : 1 ≤ B) (hw : 2 * B ≤ 2 ^ w) (hw64 : w ≤ 64) (x : Nat) :
    (bndSigned w B x).natAbs ≤ B - 1 :=
  bndSigned_abs hB hw hw64 x

/-- every `j ∈ {-(B-1), …, B-1}` is reachable, by 1 or 2 of the `2^L` masked values (`L` = bit length of `2B-1`):
no value is more than twice as likely as another -/
theorem bounded_preimages {B : Nat} (hB : 1 ≤ B) (j : Int) (hj : j.natAbs ≤ B - 1) :
    #{v ∈ range (2 ^ bitLen (2 * B - 1)) | centre B (red1 (2 * B - 1) v) = j} = 1 ∨
    #{v ∈ range (2 ^ bitLen (2 * B - 1)) | centre B (red1 (2 * B - 1) v) = j} = 2 := by
  have ht0 : 0 < 2 * B - 1 := by omega
  have hbl : bitLen (2 * B - 1) = Nat.log2 (2 * B - 1) + 1 := by unfold bitLen; rw [if_neg (by omega)]
  have hb := log2_bounds ht0
  have hlt : 2 ^ bitLen (2 * B - 1) ≤ 2 * (2 * B - 1) := by rw [hbl, Nat.pow_succ]; omega
  -- the residue that `j` stands for
  let r : Nat := if 0 ≤ j then j.toNat else (j + (2 * B - 1 : Nat)).toNat
  have hr : r < 2 * B - 1 := by simp only [r]; split <;> omega
  have hcongr : ({v ∈ range (2 ^ bitLen (2 * B - 1)) | centre B (red1 (2 * B - 1) v) = j} : Finset Nat) =
      {v ∈ range (2 ^ bitLen (2 * B - 1)) | red1 (2 * B - 1) v = r} := by
    apply Finset.filter_congr
    intro v hv
    have hv' := Finset.mem_range.1 hv
    have := red1_lt ht0 (Nat.lt_of_lt_of_le hv' hlt)
    generalize red1 (2 * B - 1) v = t at *
    simp only [centre, r]
    split <;> split <;> omega
  rw [hcongr]
  exact red1_preimages (by rw [hbl]; simpa using hb.1) (by rw [hbl]; exact hb.2) (by rw [hbl]; omega) r hr

/-- lift to `w`-bit random words: `2^(w-L)` times as many -/
theorem bounded_word_preimages {w B : Nat} (hB : 1 ≤ B) (hw : 2 * B ≤ 2 ^ w) (hw64 : w ≤ 64) (j : Int) :
    #{x ∈ range (2 ^ w) | bndSigned w B x = j} =
      2 ^ (w - bitLen (2 * B - 1)) *
        #{v ∈ range (2 ^ bitLen (2 * B - 1)) | centre B (red1 (2 * B - 1) v) = j} := by
  have ht0 : 0 < 2 * B - 1 := by omega
  have hbl : bitLen (2 * B - 1) = Nat.log2 (2 * B - 1) + 1 := by unfold bitLen; rw [if_neg (by omega)]
  have hLw : Nat.log2 (2 * B - 1) < w := (Nat.log2_lt (by omega)).2 (by omega)
  have h2 : 2 ^ w = 2 ^ (w - bitLen (2 * B - 1)) * 2 ^ bitLen (2 * B - 1) := by
    rw [← Nat.pow_add]; congr 1; omega
  rw [h2, ← card_mod_fiber (2 ^ bitLen (2 * B - 1)) (fun v => centre B (red1 (2 * B - 1) v) = j)]
  apply congrArg Finset.card
  apply Finset.filter_congr
  intro x _
  rw [bndSigned_eq_centre, bndTmp_eq hB hw hw64]

/-- the stored residues are the encodings of `A · bndSigned` of the coefficient's own random word (ties the counts
above to `setBounded`) -/
theorem bounded_value {w : Nat} {ps : List Nat} (hm : ModOK w ps) {B A : Nat} (hb : BoundedOK ps B A)
    (n : Nat) (tape : Tape) {out : Poly} (ho : setBounded w n ps B A tape = some out)
    (cm i : Nat) (hcm : cm < ps.length) (hi : i < n) :
    word out cm i = enc ps[cm] ((A : Int) * bndSigned w B (wordAt (w / 8) (tape.headD []) i)) := by
  obtain ⟨_, hw64, hp⟩ := hm
  obtain ⟨hB, hA, hbp⟩ := hb
  unfold setBounded at ho
  rw [if_neg (by simp; intro p hp'; exact (hbp p hp').1)] at ho
  simp only [Option.some.injEq] at ho
  subst ho
  have h1 := hp ps[cm] (List.getElem_mem hcm)
  have h2 := hbp ps[cm] (List.getElem_mem hcm)
  rw [word_mkPoly n ps _ cm i hcm hi]
  exact bndCoef_eq hB hA h2.1 h2.2 h1.2 hw64 _

/-- amplification by `A ≥ 1` is injective: the value `A·j` has exactly the preimages of `j` -/
theorem bounded_amplified {w B A : Nat} (hA : 1 ≤ A) (j : Int) :
    #{x ∈ range (2 ^ w) | (A : Int) * bndSigned w B x = (A : Int) * j} = #{x ∈ range (2 ^ w) | bndSigned w B x = j} := by
  congr 1
  apply Finset.filter_congr
  intro x _
  constructor
  · intro h; exact Int.eq_of_mul_eq_mul_left (by omega) h
  · intro h; rw [h]

/-! ### ternary -/

/-- for every `rho`: `P(≠0) = (rho+1)/256`, `|#(+1) - #(-1)| ≤ 2` (more precisely `#(+1) ≤ #(-1) ≤ #(+1)+2`),
exactly balanced for the default `rho = 0x7F`.  Counts over all 256 byte values. -/
theorem zo_counts : ∀ rho, rho < 256 →
    #{b ∈ range 256 | zoVal rho b ≠ 0} = rho + 1 ∧
    #{b ∈ range 256 | zoVal rho b = 1} ≤ #{b ∈ range 256 | zoVal rho b = -1} ∧
    #{b ∈ range 256 | zoVal rho b = -1} ≤ #{b ∈ range 256 | zoVal rho b = 1} + 2 ∧
    (rho = 0x7F → #{b ∈ range 256 | zoVal rho b = 1} = #{b ∈ range 256 | zoVal rho b = -1}) :=
  zo_counts_table

/-- the model's coefficient is that ternary value of its byte (ties `zo_counts` to `setZO`) -/
theorem zo_value {w : Nat} {ps : List Nat} (hm : ModOK w ps) (n rho : Nat) (tape : Tape) (cm i : Nat)
    (hcm : cm < ps.length) (hi : i < n) :
    word (setZO w n ps rho tape) cm i = enc ps[cm] (zoVal rho ((tape.headD []).getD i 0 % 256)) := by
  have h1 := hm.2.2 ps[cm] (List.getElem_mem hcm)
  unfold setZO
  rw [word_mkPoly n ps _ cm i hcm hi]
  exact zoCoef_eq (by omega) (by omega) _ _

/-! ### fixed weight -/

/-- rejection sampling: among the `R·m` accepted values every residue mod `m` occurs exactly `R` times -/
theorem reject_unbiased (m R r : Nat) (hr : r < m) : #{x ∈ range (R * m) | x % m = r} = R := by
  rw [card_mod_fiber m (fun v => v = r) R]
  have : #{v ∈ range m | v = r} = 1 := by
    rw [Finset.filter_eq' (range m) r, if_pos (Finset.mem_range.2 hr)]; simp
  rw [this, Nat.mul_one]

/-- the code's accept test: the accepted 64-bit words reduce to a uniform index on `[0,k]` -/
theorem accept_unbiased (k r : Nat) (hr : r ≤ k) :
    #{x ∈ range (2 ^ 64) | accept k x = true ∧ x % (k + 1) = r} = sizeMax / (k + 1) := by
  have hsub : sizeMax / (k + 1) * (k + 1) ≤ 2 ^ 64 := by
    have h1 := Nat.div_mul_le_self sizeMax (k + 1)
    have hs : sizeMax ≤ 2 ^ 64 := by decide
    exact Nat.le_trans h1 hs
  rw [← reject_unbiased (k + 1) (sizeMax / (k + 1)) r (by omega)]
  apply congrArg Finset.card
  apply Finset.ext; intro x
  simp only [Finset.mem_filter, Finset.mem_range, accept, decide_eq_true_eq]
  constructor
  · rintro ⟨_, h1, h2⟩; exact ⟨h1, h2⟩
  · rintro ⟨h1, h2⟩; exact ⟨by omega, h1, h2⟩

/-- RESERVOIR UNIFORMITY: every `h`-subset `S` of `{0..n-1}` is the final reservoir of exactly `(n-h)!` of the
`(h+1)(h+2)⋯n` index tuples `(idx_h, …, idx_{n-1})`, `idx_k ∈ [0,k]` (`fwdTuples h (n-h)`, see `mem_fwdTuples`). -/
theorem reservoir_uniform (n h : Nat) (hn : h ≤ n) :
    ∀ S ∈ powersetCard h (range n),
      #{idx ∈ fwdTuples h (n - h) | (resFold h h (List.range h) idx).toFinset = S} = (n - h).factorial :=
  Nfl.Samplers.reservoir_uniform n h hn

/-- what `fwdTuples` is: all lists of length `m` with `idx[j] ≤ h + j` (`= Π_{k=h}^{h+m-1} [0,k]`) -/
theorem mem_fwdTuples {h m : Nat} {idx : List Nat} :
    idx ∈ fwdTuples h m ↔ idx.length = m ∧ ∀ j (hj : j < idx.length), idx[j] ≤ h + j :=
  Nfl.Samplers.mem_fwdTuples

/-- the positions chosen by the model are that reservoir, for the tuple of accepted, reduced words read off the tape -/
theorem hwt_positions_reservoir {h n : Nat} (hn : h ≤ n) {tape : Tape} {sorted : List Nat} {rest : Tape}
    (hp : hwtPositions h n tape = some (sorted, rest)) :
    ∃ idx ∈ fwdTuples h (n - h), sorted.toFinset = (resFold h h (List.range h) idx).toFinset ∧
      sorted.Pairwise (· ≤ ·) := by
  obtain ⟨⟨idx, hidx, hperm⟩, _⟩ := hwtPositions_spec hn hp
  refine ⟨idx, hidx, ?_, ?_⟩
  · apply Finset.ext; intro a; simp only [List.mem_toFinset]; exact hperm.mem_iff
  · unfold hwtPositions at hp
    split at hp
    · simp at hp
    · simp only [Option.some.injEq, Prod.mk.injEq] at hp
      rw [← hp.1]; exact isort_sorted _

/-- exactly `h` non-zero coefficients, each `+1` or `-1` (stored `1` / `p-1`), at the SAME position set `S` and with
the same sign for every modulus; `S` is an `h`-subset of `{0..n-1}` -/
theorem hwt_weight {w : Nat} {ps : List Nat} (hm : ModOK w ps) {n h : Nat} {tape : Tape} {out : Poly}
    (ho : setHwt w n ps h tape = some out) :
    ∃ S ∈ powersetCard h (range n), ∃ sgn : Nat → Bool,
      ∀ cm (hcm : cm < ps.length) i,
        (i ∈ S → word out cm i = (if sgn i then 1 else ps[cm] - 1) ∧ word out cm i ≠ 0) ∧
        (i ∉ S → word out cm i = 0) := by
  obtain ⟨_, hn, sorted, rest, hp, rfl⟩ := setHwt_spec ho
  obtain ⟨_, hlen, hnd, hlt, _⟩ := hwtPositions_spec hn hp
  refine ⟨sorted.toFinset, ?_, fun i => hwtSign (rest.headD []) (sorted.idxOf i), ?_⟩
  · rw [Finset.mem_powersetCard]
    refine ⟨?_, by rw [List.toFinset_card_of_nodup hnd, hlen]⟩
    intro a ha
    exact Finset.mem_range.2 (hlt a (List.mem_toFinset.1 ha))
  · intro cm hcm i
    have h1 := hm.2.2 ps[cm] (List.getElem_mem hcm)
    rw [word_map ps _ cm i hcm, hwtWrite_getD hnd hlt, pmOf_eq (by omega) (by omega)]
    simp only [List.mem_toFinset]
    constructor
    · intro hi; rw [if_pos hi]
      refine ⟨rfl, ?_⟩
      split <;> omega
    · intro hi; rw [if_neg hi]

/-- the number of non-zero coefficients of every modulus is exactly `h` -/
theorem hwt_count {w : Nat} {ps : List Nat} (hm : ModOK w ps) {n h : Nat} {tape : Tape} {out : Poly}
    (ho : setHwt w n ps h tape = some out) (cm : Nat) (hcm : cm < ps.length) :
    #{i ∈ range n | word out cm i ≠ 0} = h := by
  obtain ⟨S, hS, sgn, hw⟩ := hwt_weight hm ho
  rw [Finset.mem_powersetCard] at hS
  have : ({i ∈ range n | word out cm i ≠ 0} : Finset Nat) = S := by
    apply Finset.ext; intro i
    simp only [Finset.mem_filter, Finset.mem_range]
    constructor
    · rintro ⟨_, hne⟩
      by_contra hi
      exact hne ((hw cm hcm i).2 hi)
    · intro hi
      exact ⟨Finset.mem_range.1 (hS.1 hi), ((hw cm hcm i).1 hi).2⟩
  rw [this, hS.2]

/-! ### independence: no random word influences two coefficients -/

/-- the tape bytes (of the single request) that word `j` of `wb` bytes is assembled from -/
def footprint (wb j : Nat) : Finset Nat := Finset.Ico (j * wb) ((j + 1) * wb)

theorem footprint_disjoint (wb : Nat) {j j' : Nat} (h : j ≠ j') : Disjoint (footprint wb j) (footprint wb j') := by
  rw [Finset.disjoint_left]
  intro a ha hb
  simp only [footprint, Finset.mem_Ico] at ha hb
  rcases Nat.lt_or_gt_of_ne h with hlt | hlt
  · have : (j + 1) * wb ≤ j' * wb := Nat.mul_le_mul_right wb hlt
    omega
  · have : (j' + 1) * wb ≤ j * wb := Nat.mul_le_mul_right wb hlt
    omega

/-- distinct coefficients (of the same or of different moduli) use distinct words of the uniform request -/
theorem uniform_slot_injective {n cm i cm' i' : Nat} (hi : i < n) (hi' : i' < n) (h : (cm, i) ≠ (cm', i')) :
    cm * n + i ≠ cm' * n + i' := by
  intro he
  apply h
  have h1 : (cm * n + i) / n = cm := by rw [Nat.mul_comm, Nat.mul_add_div (by omega), Nat.div_eq_of_lt hi]; simp
  have h2 : (cm' * n + i') / n = cm' := by rw [Nat.mul_comm, Nat.mul_add_div (by omega), Nat.div_eq_of_lt hi']; simp
  have hc : cm = cm' := by rw [← h1, ← h2, he]
  subst hc
  have : i = i' := by omega
  rw [this]

theorem getD_eq_of_footprint {wb j : Nat} {r r' : List Nat}
    (h : ∀ pos ∈ footprint wb j, r.getD pos 0 = r'.getD pos 0) : wordAt wb r j = wordAt wb r' j := by
  apply wordAt_congr
  intro t ht
  apply h
  simp only [footprint, Finset.mem_Ico]
  constructor
  · omega
  · rw [Nat.add_mul]; omega

/-- uniform: coefficient `(cm,i)` is a function of the bytes `footprint (w/8) (cm·n+i)` of the request only -/
theorem uniform_independent (w n : Nat) (ps : List Nat) (tape tape' : Tape) (cm i : Nat) (hcm : cm < ps.length)
    (hi : i < n)
    (h : ∀ pos ∈ footprint (w / 8) (cm * n + i), (tape.headD []).getD pos 0 = (tape'.headD []).getD pos 0) :
    word (setUniform w n ps tape) cm i = word (setUniform w n ps tape') cm i := by
  unfold setUniform
  rw [word_mkPoly n ps _ cm i hcm hi, word_mkPoly n ps _ cm i hcm hi, getD_eq_of_footprint h]

/-- bounded: coefficient `i` (all moduli) is a function of the bytes `footprint (w/8) i` only -/
theorem bounded_independent (w n : Nat) (ps : List Nat) (B A : Nat) (tape tape' : Tape) (i : Nat) (hi : i < n)
    (h : ∀ pos ∈ footprint (w / 8) i, (tape.headD []).getD pos 0 = (tape'.headD []).getD pos 0) :
    ∀ out out', setBounded w n ps B A tape = some out → setBounded w n ps B A tape' = some out' →
      ∀ cm, cm < ps.length → word out cm i = word out' cm i := by
  intro out out' ho ho' cm hcm
  unfold setBounded at ho ho'
  split at ho
  · simp at ho
  · next hc =>
    rw [if_neg hc] at ho'
    simp only [Option.some.injEq] at ho ho'
    subst ho; subst ho'
    rw [word_mkPoly n ps _ cm i hcm hi, word_mkPoly n ps _ cm i hcm hi, getD_eq_of_footprint h]

/-- ternary: coefficient `i` (all moduli) is a function of byte `i` only -/
theorem zo_independent (w n : Nat) (ps : List Nat) (rho : Nat) (tape tape' : Tape) (cm i : Nat)
    (hcm : cm < ps.length) (hi : i < n)
    (h : (tape.headD []).getD i 0 = (tape'.headD []).getD i 0) :
    word (setZO w n ps rho tape) cm i = word (setZO w n ps rho tape') cm i := by
  unfold setZO
  rw [word_mkPoly n ps _ cm i hcm hi, word_mkPoly n ps _ cm i hcm hi, h]

/-- fixed weight: the positions are a function of the requests consumed by the reservoir phase only; the signs are
read from the NEXT request (`rest.headD []`), which the positions do not depend on: replacing everything after
the consumed prefix changes neither the positions nor which request the signs come from -/
theorem hwt_signs_fresh {w : Nat} {ps : List Nat} {n h : Nat} {tape : Tape} {out : Poly}
    (ho : setHwt w n ps h tape = some out) :
    ∃ (consumed rest : Tape) (sorted : List Nat), tape = consumed ++ rest ∧
      ∀ rest' : Tape, hwtPositions h n (consumed ++ rest') = some (sorted, rest') ∧
        setHwt w n ps h (consumed ++ rest') = some (ps.map fun p => hwtWrite w n p sorted (rest'.headD [])) := by
  obtain ⟨h0, hn, sorted, rest, hp, _⟩ := setHwt_spec ho
  obtain ⟨_, _, _, _, c, hc, hc'⟩ := hwtPositions_spec hn hp
  refine ⟨c, rest, sorted, hc, ?_⟩
  intro rest'
  refine ⟨hc' rest', ?_⟩
  unfold setHwt
  rw [if_neg (by omega), hc' rest']


/-! ### the rejection threshold, the specification run, and the driver's evaluators -/

/-- a word is used at step `k` iff it lies below `M_k = ⌊(2^64-1)/(k+1)⌋·(k+1)` -/
theorem accept_iff_below_threshold (k x : Nat) :
    accept k x = true ↔ x < Nfl.Spec.Samplers.rejThreshold k :=
  Nfl.Spec.Samplers.accept_iff_lt_rejThreshold k x

/-- the specification's formulation ("the word's block of `k+1` consecutive values is one of the complete blocks")
is the code's test -/
theorem spec_accept_is_model (k x : Nat) : Nfl.Spec.Samplers.specAccept k x = accept k x :=
  Nfl.Spec.Samplers.specAccept_eq_accept k x

/-- WHY every word of the incomplete top block must be rejected: if, besides the words the code accepts, ONE more
64-bit word `w` (rejected by the code, i.e. `w ≥ M_k`) were accepted at step `k`, the index `w mod (k+1)` would have
`R+1` accepted pre-images and every other index of `[0,k]` exactly `R = ⌊(2^64-1)/(k+1)⌋`: not uniform. -/
theorem extra_accept_biased (k w : Nat) (hw : w < 2 ^ 64) (hrej : accept k w = false) (r : Nat) (hr : r ≤ k) :
    #{x ∈ range (2 ^ 64) | (accept k x = true ∨ x = w) ∧ x % (k + 1) = r} =
      sizeMax / (k + 1) + (if w % (k + 1) = r then 1 else 0) := by
  rw [← accept_unbiased k r hr]
  have hsplit : ({x ∈ range (2 ^ 64) | (accept k x = true ∨ x = w) ∧ x % (k + 1) = r} : Finset Nat) =
      {x ∈ range (2 ^ 64) | accept k x = true ∧ x % (k + 1) = r} ∪ (if w % (k + 1) = r then {w} else ∅) := by
    apply Finset.ext; intro x
    by_cases hwr : w % (k + 1) = r
    · simp only [hwr, if_true, Finset.mem_filter, Finset.mem_range, Finset.mem_union, Finset.mem_singleton]
      constructor
      · rintro ⟨hx, (ha | rfl), hm⟩
        · exact Or.inl ⟨hx, ha, hm⟩
        · exact Or.inr rfl
      · rintro (⟨hx, ha, hm⟩ | rfl)
        · exact ⟨hx, Or.inl ha, hm⟩
        · exact ⟨hw, Or.inr rfl, hwr⟩
    · simp only [hwr, if_false, Finset.mem_filter, Finset.mem_range, Finset.union_empty]
      constructor
      · rintro ⟨hx, (ha | rfl), hm⟩
        · exact ⟨hx, ha, hm⟩
        · exact absurd hm hwr
      · rintro ⟨hx, ha, hm⟩
        exact ⟨hx, Or.inl ha, hm⟩
  rw [hsplit]
  by_cases hwr : w % (k + 1) = r
  · simp only [hwr, if_true]
    rw [Finset.card_union_of_disjoint, Finset.card_singleton]
    rw [Finset.disjoint_singleton_right]
    simp [hrej]
  · simp [hwr]

/-- the executable specification of the positions (exact rejection + reservoir over the flat stream of served
words, `Spec.Samplers.specPositions`) agrees with the model on every tape on which the model's position phase ends -/
theorem spec_positions_are_model {h n : Nat} {tape : Tape} {sorted : List Nat} {rest : Tape}
    (hp : hwtPositions h n tape = some (sorted, rest)) :
    ∃ consumed : Tape, tape = consumed ++ rest ∧
      Nfl.Spec.Samplers.specPositions h n (consumed.flatMap (words64 h)) = some sorted :=
  specPositions_eq_model hp

/-- the array-backed evaluators used by the driver at large degrees ARE the model functions -/
theorem fast_evaluators_are_model :
    (∀ w n ps h tape, setHwtFast w n ps h tape = setHwt w n ps h tape) ∧
    (∀ h n tape, hwtPositionsFast h n tape = hwtPositions h n tape) ∧
    (∀ w n ps tape, setUniformFast w n ps tape = setUniform w n ps tape) ∧
    (∀ w n ps B A tape, setBoundedFast w n ps B A tape = setBounded w n ps B A tape) ∧
    (∀ w n ps rho tape, setZOFast w n ps rho tape = setZO w n ps rho tape) :=
  ⟨setHwtFast_eq, hwtPositionsFast_eq, setUniformFast_eq, setBoundedFast_eq, setZOFast_eq⟩

/-- … and the array-backed spec predicates are the spec predicates -/
theorem fast_spec_is_spec (n : Nat) (ps out : List Nat) :
    Nfl.Spec.Samplers.canonicalA n ps out.toArray = Nfl.Spec.Samplers.canonical n ps out ∧
    (∀ bound ok, Nfl.Spec.Samplers.crtConsistentA n ps out.toArray bound ok = Nfl.Spec.Samplers.crtConsistent n ps out bound ok) ∧
    (∀ v, Nfl.Spec.Samplers.encodesA n ps out.toArray v = Nfl.Spec.Samplers.encodes n ps out v) ∧
    (∀ cm, Nfl.Spec.Samplers.supportA n out.toArray cm = Nfl.Spec.Samplers.support n out cm) :=
  ⟨Nfl.Spec.Samplers.canonicalA_eq n ps out, fun b ok => Nfl.Spec.Samplers.crtConsistentA_eq n ps out b ok,
   fun v => Nfl.Spec.Samplers.encodesA_eq n ps out v, fun cm => Nfl.Spec.Samplers.supportA_eq n out cm⟩

/-! ### non-vacuity -/

/-- `p = 13313` (`b = 14`): residue 5 has two preimages (5 and 13318), residue 13312 has one -/
example : #{v ∈ range (2 ^ 14) | red1 13313 v = 5} = 2 ∧ 3071 + 13313 = 2 ^ 14 := by
  constructor
  · rcases uniform_preimages (b := 14) (p := 13313) (by decide) (by decide) (by decide) 5 (by decide) with h | h
    · exfalso
      have h5 : (5 : Nat) ∈ ({v ∈ range (2 ^ 14) | red1 13313 v = 5} : Finset Nat) := by
        simp [red1]
      have h6 : (13318 : Nat) ∈ ({v ∈ range (2 ^ 14) | red1 13313 v = 5} : Finset Nat) := by
        simp [red1]
      obtain ⟨a, ha⟩ := Finset.card_eq_one.1 h
      rw [ha] at h5 h6
      simp at h5 h6
      omega
    · exact h
  · decide

example : ModOK 16 [15361, 13313] ∧ (13313 ∈ [15361, 13313]) := by decide

/-- `B = 3`: `2B-1 = 5`, `L = 3`; the eight masked values give `0,1,2,-2,-1,0,1,2`: support `{-2..2}` -/
example : (List.range 8).map (fun v => centre 3 (red1 5 v)) = [0, 1, 2, -2, -1, 0, 1, 2] := by decide

/-- `n = 4, h = 2`: 12 index tuples, 6 subsets, `(4-2)! = 2` tuples each -/
example : #{idx ∈ fwdTuples 2 2 | (resFold 2 2 (List.range 2) idx).toFinset = {0, 1}} = 2 := by decide

example : accept 7 (2 ^ 64 - 1) = false ∧ accept 7 (2 ^ 64 - 9) = true := by decide

/-- a late step of a degree-2^17 polynomial whose incomplete top block is longer than 2^16 words: `k = 85838`,
`M_k = 2^64 - 82228`; the word `2^64 - 65537` lies in it (rejected), `M_k - 1` is the last accepted word, and
accepting `2^64 - 65537` would give index `16691` one pre-image too many -/
example : Nfl.Spec.Samplers.rejThreshold 85838 = 2 ^ 64 - 82228 ∧ accept 85838 (2 ^ 64 - 65537) = false ∧
    accept 85838 (2 ^ 64 - 82229) = true ∧ (2 ^ 64 - 65537) % (85838 + 1) = 16691 := by decide

/-- the specification run on a tiny stream: `n = 4, h = 2`, words `2^64-1` (rejected at `k = 2`), `3` (index 0 at
`k = 2`), `5` (index 1 at `k = 3`): positions `{2,3}` -/
example : Nfl.Spec.Samplers.specPositions 2 4 [2 ^ 64 - 1, 3, 5] = some [2, 3] := by
  simp only [Nfl.Spec.Samplers.specPositions, mergeSort_eq_isort]
  decide

end Nfl.C12
