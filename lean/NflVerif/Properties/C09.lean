/-
C09 — Everything that creates a polynomial yields canonical, CRT-consistent residues.

For ALL tapes (every possible content of the random byte stream) and all admissible parameters:
* `*_canonical`      : every stored word is `< p_cm`;
* `*_crt_consistent` : the residues of coefficient `i` across all moduli are the encodings `enc p_cm v` of ONE
                       signed integer `v` in the distribution's support (`enc p v = v`, or `p - |v|` when `v < 0`).

Admissibility (explicit, decidable):
* `ModOK w ps`   : `1 ≤ w ≤ 64`, every modulus `2 ≤ p` and `4·p ≤ 2^w` (what params.hpp guarantees: moduli have
                   `w-2` bits; proved for the regenerated tables below);
* bounded        : `1 ≤ B`, `1 ≤ A`, `B < p` (the code throws otherwise — `bounded_throws_iff`) and
                   `A·(B-1) < p` (NOT checked by the code: the harness runs the real code at excluded points and
                   reports non-canonical residues there; it is a precondition of `non_uniform`);
* Gaussian       : `|noise_i|·amp < p` (not checked by the code either);
* fixed weight   : `0 < h ≤ n` (an `assert` in the code) — here a consequence of `setHwt … = some _`.
Models: `Model/Samplers.lean`.  `floor(log2(double p))` is modelled by `Nat.log2` and validated by the harness on
all 1293 rows (`umask` lines), not proved.
-/
import NflVerif.Proofs.SamplersHwt
import NflVerif.Generated.Params16
import NflVerif.Generated.Params32
import NflVerif.Generated.Params64

namespace Nfl.C09
open Nfl Nfl.Samplers
open Nfl.Spec.Samplers (enc)

/-- what `params.hpp` guarantees about limb width and moduli (decidable) -/
def ModOK (w : Nat) (ps : List Nat) : Prop := 1 ≤ w ∧ w ≤ 64 ∧ ∀ p ∈ ps, 2 ≤ p ∧ 4 * p ≤ 2 ^ w

instance (w : Nat) (ps : List Nat) : Decidable (ModOK w ps) := by unfold ModOK; infer_instance

set_option maxRecDepth 100000 in
/-- the regenerated tables satisfy `ModOK` (finite check over all 1293 rows) -/
theorem tables_modOK : ModOK 16 Gen.P16 ∧ ModOK 32 Gen.P32 ∧ ModOK 64 Gen.P64 := by decide +kernel

theorem ModOK.sub {w : Nat} {ps qs : List Nat} (h : ModOK w ps) (hs : ∀ p ∈ qs, p ∈ ps) : ModOK w qs :=
  ⟨h.1, h.2.1, fun p hp => h.2.2 p (hs p hp)⟩

theorem enc_lt {p : Nat} {v : Int} (hp : 0 < p) (hv : v.natAbs < p) : enc p v < p := by
  unfold enc; split <;> omega

/-- `enc` is the canonical representative of `v` modulo `p` -/
theorem enc_eq_emod {p : Nat} {v : Int} (hv : v.natAbs < p) : (enc p v : Int) = v % (p : Int) := by
  unfold enc
  split
  · next h => rw [Int.emod_eq_of_lt h (by omega)]; omega
  · next h =>
    rw [Int.emod_eq_add_self_emod, Int.emod_eq_of_lt (by omega) (by omega)]; omega

/-! ### uniform -/

theorem uniform_canonical {w : Nat} {ps : List Nat} (hm : ModOK w ps) (n : Nat) (tape : Tape)
    (cm i : Nat) (hcm : cm < ps.length) (hi : i < n) :
    word (setUniform w n ps tape) cm i < ps[cm] := by
  obtain ⟨_, hw64, hp⟩ := hm
  have := hp ps[cm] (List.getElem_mem hcm)
  have h3 : 2 ^ w ≤ 2 ^ 64 := Nat.pow_le_pow_right (by decide) hw64
  unfold setUniform
  rw [word_mkPoly n ps _ cm i hcm hi]
  exact uniCoef_lt (by omega) (by omega) (by omega) _

/-! ### bounded (`non_uniform(B, A)`) -/

/-- the code throws exactly when the bound is not below every modulus -/
theorem bounded_throws_iff (w n : Nat) (ps : List Nat) (B A : Nat) (tape : Tape) :
    setBounded w n ps B A tape = none ↔ ∃ p ∈ ps, B ≥ p := by
  unfold setBounded
  split
  · next h => simpa using h
  · next h => simpa using h

/-- admissible parameters of the bounded sampler -/
def BoundedOK (ps : List Nat) (B A : Nat) : Prop := 1 ≤ B ∧ 1 ≤ A ∧ ∀ p ∈ ps, B < p ∧ A * (B - 1) < p

instance (ps : List Nat) (B A : Nat) : Decidable (BoundedOK ps B A) := by unfold BoundedOK; infer_instance

theorem bounded_crt_consistent {w : Nat} {ps : List Nat} (hm : ModOK w ps) {B A : Nat} (hb : BoundedOK ps B A)
    (n : Nat) (tape : Tape) :
    ∃ out, setBounded w n ps B A tape = some out ∧
      ∀ i, i < n → ∃ v : Int, v.natAbs ≤ A * (B - 1) ∧ (A : Int) ∣ v ∧
        ∀ cm (hcm : cm < ps.length), word out cm i = enc ps[cm] v := by
  obtain ⟨hw1, hw64, hp⟩ := hm
  obtain ⟨hB, hA, hbp⟩ := hb
  unfold setBounded
  rw [if_neg (by simp; intro p hp'; exact (hbp p hp').1)]
  refine ⟨_, rfl, ?_⟩
  intro i hi
  by_cases hps : ps = []
  · subst hps
    exact ⟨0, by simp, ⟨0, by simp⟩, fun cm hcm => absurd hcm (by simp)⟩
  · refine ⟨(A : Int) * bndSigned w B (wordAt (w / 8) (tape.headD []) i), ?_, ⟨_, rfl⟩, ?_⟩
    · obtain ⟨p, hpm⟩ := List.exists_mem_of_ne_nil ps hps
      have := hp p hpm
      have := hbp p hpm
      rw [Int.natAbs_mul]; simp
      exact Nat.mul_le_mul_left A (bndSigned_abs hB (by omega) hw64 _)
    · intro cm hcm
      have h1 := hp ps[cm] (List.getElem_mem hcm)
      have h2 := hbp ps[cm] (List.getElem_mem hcm)
      rw [word_mkPoly n ps _ cm i hcm hi]
      exact bndCoef_eq hB hA h2.1 h2.2 h1.2 hw64 _

theorem bounded_canonical {w : Nat} {ps : List Nat} (hm : ModOK w ps) {B A : Nat} (hb : BoundedOK ps B A)
    (n : Nat) (tape : Tape) :
    ∃ out, setBounded w n ps B A tape = some out ∧
      ∀ cm i (hcm : cm < ps.length), i < n → word out cm i < ps[cm] := by
  obtain ⟨out, ho, hc⟩ := bounded_crt_consistent hm hb n tape
  refine ⟨out, ho, ?_⟩
  intro cm i hcm hi
  obtain ⟨v, hv, _, hw⟩ := hc i hi
  rw [hw cm hcm]
  have := hb.2.2 ps[cm] (List.getElem_mem hcm)
  exact enc_lt (by omega) (by omega)

/-! ### Gaussian (`noise` = what `getNoise` wrote, as signed limbs) -/

def GaussOK (ps : List Nat) (amp : Nat) (noise : List Int) : Prop := ∀ p ∈ ps, ∀ v ∈ noise, v.natAbs * amp < p

instance (ps : List Nat) (amp : Nat) (noise : List Int) : Decidable (GaussOK ps amp noise) := by
  unfold GaussOK; infer_instance

theorem gaussian_crt_consistent {w : Nat} {ps : List Nat} (hm : ModOK w ps) {amp : Nat} {noise : List Int}
    (hg : GaussOK ps amp noise) (n : Nat) (cm i : Nat) (hcm : cm < ps.length) (hi : i < n) :
    word (setGaussian w n ps amp noise) cm i = enc ps[cm] (noise.getD i 0 * amp) ∧
      (noise.getD i 0 * (amp : Int)).natAbs < ps[cm] := by
  obtain ⟨hw1, hw64, hp⟩ := hm
  have h1 := hp ps[cm] (List.getElem_mem hcm)
  have hadm : (noise.getD i 0).natAbs * amp < ps[cm] := by
    by_cases hin : i < noise.length
    · have : noise.getD i 0 = noise[i] := by simp [List.getD_eq_getElem?_getD, hin]
      rw [this]; exact hg _ (List.getElem_mem hcm) _ (List.getElem_mem hin)
    · have : noise.getD i 0 = 0 := by simp [List.getD_eq_getElem?_getD, Nat.le_of_not_lt hin]
      rw [this]; simp; omega
  unfold setGaussian
  rw [word_mkPoly n ps _ cm i hcm hi]
  refine ⟨gau_eq hw1 hw64 (by omega) hadm, ?_⟩
  rw [Int.natAbs_mul]; simpa using hadm

theorem gaussian_canonical {w : Nat} {ps : List Nat} (hm : ModOK w ps) {amp : Nat} {noise : List Int}
    (hg : GaussOK ps amp noise) (n : Nat) (cm i : Nat) (hcm : cm < ps.length) (hi : i < n) :
    word (setGaussian w n ps amp noise) cm i < ps[cm] := by
  obtain ⟨h1, h2⟩ := gaussian_crt_consistent hm hg n cm i hcm hi
  rw [h1]
  have := hm.2.2 ps[cm] (List.getElem_mem hcm)
  exact enc_lt (by omega) h2

/-! ### ternary (`ZO_dist(rho)`) -/

theorem zo_crt_consistent {w : Nat} {ps : List Nat} (hm : ModOK w ps) (n rho : Nat) (tape : Tape)
    (i : Nat) (hi : i < n) :
    ∃ v : Int, (v = -1 ∨ v = 0 ∨ v = 1) ∧
      ∀ cm (hcm : cm < ps.length), word (setZO w n ps rho tape) cm i = enc ps[cm] v := by
  refine ⟨zoVal rho ((tape.headD []).getD i 0 % 256), ?_, ?_⟩
  · unfold zoVal; split
    · split
      · exact Or.inr (Or.inr rfl)
      · exact Or.inl rfl
    · exact Or.inr (Or.inl rfl)
  · intro cm hcm
    have h1 := hm.2.2 ps[cm] (List.getElem_mem hcm)
    unfold setZO
    rw [word_mkPoly n ps _ cm i hcm hi]
    exact zoCoef_eq (by omega) (by omega) _ _

theorem zo_canonical {w : Nat} {ps : List Nat} (hm : ModOK w ps) (n rho : Nat) (tape : Tape)
    (cm i : Nat) (hcm : cm < ps.length) (hi : i < n) :
    word (setZO w n ps rho tape) cm i < ps[cm] := by
  obtain ⟨v, hv, hc⟩ := zo_crt_consistent hm n rho tape i hi
  rw [hc cm hcm]
  have := hm.2.2 ps[cm] (List.getElem_mem hcm)
  exact enc_lt (by omega) (by rcases hv with h | h | h <;> subst h <;> simp <;> omega)

/-! ### fixed weight (`hwt_dist(h)`) -/

/-- the model answers only for `0 < h ≤ n` (the code's `assert`) -/
theorem hwt_admissible {w n : Nat} {ps : List Nat} {h : Nat} {tape : Tape} {out : Poly}
    (ho : setHwt w n ps h tape = some out) : 0 < h ∧ h ≤ n :=
  ⟨(setHwt_spec ho).1, (setHwt_spec ho).2.1⟩

theorem hwt_crt_consistent {w : Nat} {ps : List Nat} (hm : ModOK w ps) {n h : Nat} {tape : Tape} {out : Poly}
    (ho : setHwt w n ps h tape = some out) (i : Nat) :
    ∃ v : Int, (v = -1 ∨ v = 0 ∨ v = 1) ∧ ∀ cm (hcm : cm < ps.length), word out cm i = enc ps[cm] v := by
  obtain ⟨_, hn, sorted, rest, hp, rfl⟩ := setHwt_spec ho
  obtain ⟨_, _, hnd, hlt, _⟩ := hwtPositions_spec hn hp
  refine ⟨if i ∈ sorted then (if hwtSign (rest.headD []) (sorted.idxOf i) then 1 else -1) else 0, ?_, ?_⟩
  · split
    · split
      · exact Or.inr (Or.inr rfl)
      · exact Or.inl rfl
    · exact Or.inr (Or.inl rfl)
  · intro cm hcm
    have h1 := hm.2.2 ps[cm] (List.getElem_mem hcm)
    rw [word_map ps _ cm i hcm, hwtWrite_getD hnd hlt]
    split
    · split
      · simp [enc]
      · rw [pmOf_eq (by omega) (by omega)]; simp [enc]
    · simp [enc]

theorem hwt_canonical {w : Nat} {ps : List Nat} (hm : ModOK w ps) {n h : Nat} {tape : Tape} {out : Poly}
    (ho : setHwt w n ps h tape = some out) (cm i : Nat) (hcm : cm < ps.length) :
    word out cm i < ps[cm] := by
  obtain ⟨v, hv, hc⟩ := hwt_crt_consistent hm ho i
  rw [hc cm hcm]
  have := hm.2.2 ps[cm] (List.getElem_mem hcm)
  exact enc_lt (by omega) (by rcases hv with h | h | h <;> subst h <;> simp <;> omega)

/-! ### creators from values (reduction enabled): constants, lists, big integers -/

theorem values_canonical {n : Nat} {ps : List Nat} (hp : ∀ p ∈ ps, 0 < p) {vals : List Nat} {out : Poly}
    (ho : setValues n ps vals true = some out) (cm i : Nat) (hcm : cm < ps.length) (hi : i < n) :
    word out cm i < ps[cm] := by
  rw [setValues_some ho, word_mkPoly n ps _ cm i hcm hi]
  have := hp ps[cm] (List.getElem_mem hcm)
  simp only [if_true]
  generalize (if vals.length = n * ps.length then cm * n + i else i) = src
  split
  · exact Nat.mod_lt _ this
  · exact this

/-- a list of at most `n` values (not the explicit `n·nmoduli` residue layout): coefficient `i` of every modulus is
the residue of the same integer `vals[i]` (0 beyond the list) -/
theorem values_crt_consistent {n : Nat} {ps : List Nat} {vals : List Nat} {out : Poly}
    (hlen : vals.length ≠ n * ps.length ∨ ps.length = 1)
    (ho : setValues n ps vals true = some out) (cm i : Nat) (hcm : cm < ps.length) (hi : i < n) :
    word out cm i = vals.getD i 0 % ps[cm] := by
  rw [setValues_some ho, word_mkPoly n ps _ cm i hcm hi]
  have hsrc : (if vals.length = n * ps.length then cm * n + i else i) = i := by
    rcases hlen with h | h
    · rw [if_neg h]
    · have : cm = 0 := by omega
      subst this; simp
  simp only [hsrc, if_true]
  split
  · rfl
  · next h =>
    have : vals.getD i 0 = 0 := by simp [List.getD_eq_getElem?_getD, Nat.le_of_not_lt h]
    rw [this]; simp

theorem scalar_canonical {n : Nat} {ps : List Nat} (hp : ∀ p ∈ ps, 0 < p) {v : Nat} {out : Poly}
    (ho : setScalar n ps v true = some out) (cm i : Nat) (hcm : cm < ps.length) (hi : i < n) :
    word out cm i < ps[cm] := by
  unfold setScalar at ho
  split at ho
  · simp only [Option.some.injEq] at ho
    subst ho
    rw [word_mkPoly n ps _ cm i hcm hi]
    exact hp ps[cm] (List.getElem_mem hcm)
  · exact values_canonical hp ho cm i hcm hi

/-- the constant polynomial `v`: coefficient 0 is `v mod p` for every modulus, the others are 0 -/
theorem scalar_crt_consistent {n : Nat} {ps : List Nat} (hn : 1 < n ∨ ps.length = 1) {v : Nat} {out : Poly}
    (ho : setScalar n ps v true = some out) (cm i : Nat) (hcm : cm < ps.length) (hi : i < n) :
    word out cm i = (if i = 0 then v else 0) % ps[cm] := by
  unfold setScalar at ho
  split at ho
  · next hv =>
    simp only [Option.some.injEq] at ho
    subst ho
    rw [word_mkPoly n ps _ cm i hcm hi]; subst hv; simp
  · have := values_crt_consistent (vals := [v]) (by
      rcases hn with h | h
      · left; simp
        intro hc
        have : n * ps.length ≥ n * 1 := Nat.mul_le_mul_left n (by omega)
        omega
      · right; exact h) ho cm i hcm hi
    rw [this]
    rcases i with _ | i <;> simp

theorem mpz_canonical {n : Nat} {ps : List Nat} (hp : ∀ p ∈ ps, 0 < p) {vals : List Int} {out : Poly}
    (ho : setMpz n ps vals = some out) (cm i : Nat) (hcm : cm < ps.length) (hi : i < n) :
    word out cm i < ps[cm] := by
  rw [setMpz_some ho, word_mkPoly n ps _ cm i hcm hi]
  have := hp ps[cm] (List.getElem_mem hcm)
  generalize (if vals.length = n * ps.length then cm * n + i else i) = src
  · split
    · have h1 := Int.emod_lt_of_pos (vals.getD src 0)
        (show (0 : Int) < (ps[cm] : Int) by omega)
      have h2 := Int.emod_nonneg (vals.getD src 0)
        (show (ps[cm] : Int) ≠ 0 by omega)
      omega
    · exact this

theorem mpz_crt_consistent {n : Nat} {ps : List Nat} (hp : ∀ p ∈ ps, 0 < p) {vals : List Int} {out : Poly}
    (hlen : vals.length ≠ n * ps.length ∨ ps.length = 1)
    (ho : setMpz n ps vals = some out) (cm i : Nat) (hcm : cm < ps.length) (hi : i < n) :
    (word out cm i : Int) = vals.getD i 0 % (ps[cm] : Int) := by
  rw [setMpz_some ho, word_mkPoly n ps _ cm i hcm hi]
  · have hpos := hp ps[cm] (List.getElem_mem hcm)
    have hsrc : (if vals.length = n * ps.length then cm * n + i else i) = i := by
      rcases hlen with h | h
      · rw [if_neg h]
      · have : cm = 0 := by omega
        subst this; simp
    simp only [hsrc]
    split
    · have h2 := Int.emod_nonneg (vals.getD i 0) (show (ps[cm] : Int) ≠ 0 by omega)
      omega
    · next h =>
      have : vals.getD i 0 = 0 := by simp [List.getD_eq_getElem?_getD, Nat.le_of_not_lt h]
      rw [this]; simp

/-! ### non-vacuity: the hypotheses are satisfiable on concrete, non-trivial instances -/

example : ModOK 16 [15361, 13313] ∧ BoundedOK [15361, 13313] 100 3 ∧ GaussOK [15361, 13313] 1024 [-12, 7, 0, 12] := by
  decide

/-- 64-bit limb, the former rounding-`log2` region: `B = 2^52`, random word all ones -/
example : ModOK 64 [4611686018326724609] ∧ BoundedOK [4611686018326724609] (2 ^ 52) 1 ∧
    setBounded 64 1 [4611686018326724609] (2 ^ 52) 1 [[255, 255, 255, 255, 255, 255, 255, 255]] = some [[0]] := by
  decide

/-- a bounded draw that is negative: `tmp = 197 ≥ B`, `v = (197-199)·3 = -6`, stored as `p - 6` for both moduli -/
example : setBounded 16 1 [15361, 13313] 100 3 [[197, 0]] = some [[15355], [13307]] := by decide

/-- fixed weight: `n = 4`, `h = 2`; index words 2 (→ slot 2 ≥ h: no hit) and 1 (→ slot 1 := 3), fresh sign words -/
example : setHwt 16 4 [15361, 13313] 2 [[2, 0, 0, 0, 0, 0, 0, 0, 1, 0, 0, 0, 0, 0, 0, 0], [2, 0, 0, 0, 0, 0, 0, 0, 0, 0, 0, 0, 0, 0, 0, 0]]
    = some [[1, 0, 0, 15360], [1, 0, 0, 13312]] := by decide

example : setValues 2 [15361, 13313] [15362, 13313] true = some [[1, 13313], [2049, 0]] := by decide

end Nfl.C09
