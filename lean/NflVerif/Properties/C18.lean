/- C18 — concurrent sampling never reuses keystream   (PARTIAL)

   What is proved: for the LOCKED interleaving model of `fastrandombytes` (`Model/Prng18.lean`: the step sequence the
   current code performs on init/key/nonce under its mutex), for EVERY schedule, any number of threads and any number
   of requests per thread: the nonces used are exactly n0 … n0+N-1 (mod 2^64), each once; the key is seeded exactly
   once and every block uses that key COMPLETELY WRITTEN - the seeding step is split into its real steps (the call,
   the key delivered in any number of pieces, the flag written before or after them: `Seeding`), and the theorems
   hold for every such `Seeding`; the run is equivalent to serving the requests one at a time in the order of
   mutex acquisition; every pair of conflicting accesses to init/key/nonce is ordered by the mutex.  For the UNLOCKED
   model (the code before the fix) concrete schedules of two requests reuse a nonce / seed twice; for a double-checked
   variant whose flag is read outside the mutex (Model/Prng18Dcl.lean) concrete schedules serve a first request from
   the all-zero / a partially written key when the flag is written before the key.
   What is NOT proved (hence "partial"): that the real execution is an interleaving of these atomic steps (granularity
   is a modelling choice; std::mutex, the compiler and the memory model are trusted), and the Salsa20 keystream itself
   (a block is identified with its (nonce, key)).  Real schedules are observed under ThreadSanitizer by
   harness/conc18.cpp, where every returned block is identified among the reference keystreams. -/
import NflVerif.Model.Prng18
import NflVerif.Model.Prng18Dcl
import NflVerif.Proofs.Prng18Run
namespace Nfl.C18
open Nfl.Prng18

variable (sd : Seeding) (seedVal reqs : Nat → Nat) (n0 : Nat)

/-- Once everything has been served no request is pending. -/
theorem complete_pend_nil {s : State} (hi : Inv sd seedVal reqs n0 s) (hc : Complete s) : s.pend = [] := by
  rw [List.eq_nil_iff_forall_not_mem]
  intro x hx
  exact (hi.b.pendOk x hx).1 (hc x.1).1

/-- **Nonces are distinct and gap-free.**  Locked model, every complete schedule of N = `s.out.length` requests:
    the multiset of nonces used to generate keystream is exactly {n0, …, n0+N-1} (as 64-bit counters). -/
theorem nonces_distinct_gapfree (hn0 : n0 < W) :
    ∀ (sched : List Nat) (s : State), run sd seedVal (init reqs n0) sched = some s → Complete s →
      (s.out.map (·.nonce)).Perm ((List.range' n0 s.out.length).map (· % W)) := by
  intro sched s hr hc
  have hi := reach_inv sd seedVal reqs n0 hn0 sched s hr
  have hp := hi.b.perm
  rw [complete_pend_nil sd seedVal reqs n0 hi hc, List.append_nil] at hp
  have hlen : s.out.length = s.acq.length := by simpa using hp.length_eq
  have h2 := hp.map Prod.snd
  rw [hi.a.acqI, ← hlen] at h2
  simpa [outPair, Function.comp_def] using h2

/-- … hence no two requests ever share a nonce (as long as fewer than 2^64 requests are made). -/
theorem nonces_nodup (hn0 : n0 < W) :
    ∀ (sched : List Nat) (s : State), run sd seedVal (init reqs n0) sched = some s → Complete s → s.out.length ≤ W →
      (s.out.map (·.nonce)).Nodup := by
  intro sched s hr hc hN
  exact (nonces_distinct_gapfree sd seedVal reqs n0 hn0 sched s hr hc).nodup_iff.mpr (range_mod_nodup n0 _ hN)

/-- every request of every thread is served exactly once (`reqs t` blocks for thread `t`) -/
theorem all_served (hn0 : n0 < W) :
    ∀ (sched : List Nat) (s : State), run sd seedVal (init reqs n0) sched = some s → Complete s →
      ∀ t, (served s t).length = reqs t := by
  intro sched s hr hc t
  have hi := reach_inv sd seedVal reqs n0 hn0 sched s hr
  have := hi.b.count t
  simp [(hc t).1, (hc t).2] at this
  simpa [served] using this

/-- **The key is seeded exactly once.**  After EVERY schedule (complete or not), for every way of carrying out the
    seeding step (any number of pieces, flag before or after the key): `randombytes` has been called at most once; as
    soon as one block has been generated it has been called exactly once; every block generated so far used the key
    delivered by that one call, completely written (`miss = 0`: no piece of it was missing). -/
theorem seeded_once (hn0 : n0 < W) :
    ∀ (sched : List Nat) (s : State), run sd seedVal (init reqs n0) sched = some s →
      s.seeds ≤ 1 ∧ (s.out ≠ [] → s.seeds = 1) ∧ ∀ o ∈ s.out, o.key = seedVal 0 ∧ o.miss = 0 := by
  intro sched s hr
  have hi := reach_inv sd seedVal reqs n0 hn0 sched s hr
  exact ⟨hi.a.seedsLe, hi.a.outSeeds, hi.a.outKey⟩

/-- **No request generates from a key that is still being written** - the start of the process's history.  Under the
    whole-function mutex, in EVERY schedule, a thread that is about to generate (or anywhere past the seeding branch
    of its request) sees the flag set, one call of `randombytes` made and ALL pieces of the delivered key in place;
    and while some thread is inside the seeding step (between its first write to flag/key and the last) every other
    thread is idle or blocked on the mutex and nothing has been generated.  This holds also for `flagFirst = true`
    (a helper that marks the flag before it fills the secret): the mutex, not the flag, is what protects the key. -/
theorem key_complete (hn0 : n0 < W) :
    ∀ (sched : List Nat) (s : State), run sd seedVal (init reqs n0) sched = some s →
      (∀ t, (s.thr t).pc = .gen → s.init = true ∧ s.seeds = 1 ∧ s.key = seedVal 0 ∧ s.miss = 0) ∧
      (∀ h, (s.thr h).pc = .seed ∨ (s.thr h).pc = .fill ∨ (s.thr h).pc = .wrInit →
        s.lock = some h ∧ s.out = [] ∧ ∀ t, t ≠ h → (s.thr t).pc = .idle) := by
  intro sched s hr
  have hi := reach_inv sd seedVal reqs n0 hn0 sched s hr
  refine ⟨fun t ht => hi.a.pastI t (by simp [ht, Pc.pastInit]), fun h hh => hi.a.seedingI h ?_⟩
  rcases hh with hh | hh | hh <;> simp [hh, Pc.seeding]

/-- **Linearizable.**  Every complete schedule is equivalent to serving the requests ONE AT A TIME in the order in
    which they acquired the mutex (`order`): `order` contains each thread as often as it made requests, and every
    thread received, request by request in its program order, exactly the nonces the sequential service `seqServe`
    in that order hands to it – all generated with the once-seeded, completely written key. -/
theorem linearizable (hn0 : n0 < W) :
    ∀ (sched : List Nat) (s : State), run sd seedVal (init reqs n0) sched = some s → Complete s →
      ∃ order : List Nat, order = s.acq.map (·.1) ∧
        (∀ t, (order.filter (· == t)).length = reqs t) ∧
        (∀ t, served s t = ((seqServe n0 order).filter (fun x => x.1 == t)).map (·.2)) ∧
        ∀ o ∈ s.out, o.key = seedVal 0 ∧ o.miss = 0 := by
  intro sched s hr hc
  have hi := reach_inv sd seedVal reqs n0 hn0 sched s hr
  refine ⟨_, rfl, ?_, ?_, hi.a.outKey⟩
  · intro t
    have ho := hi.b.order t
    have hcount := all_served sd seedVal reqs n0 hn0 sched s hr hc t
    simp [(hc t).1] at ho
    rw [← hcount, ← ho, List.filter_map]
    simp [tickets, Function.comp_def]
  · intro t
    have ho := hi.b.order t
    simp [(hc t).1] at ho
    rw [← ho, ← eq_seqServe s.acq n0 hi.a.acqI]
    rfl

/-- the sequential order that explains a history respects every thread's program order: along each thread the
    nonces increase (as long as the 64-bit counter does not wrap) -/
theorem thread_monotone (hn0 : n0 < W) :
    ∀ (sched : List Nat) (s : State), run sd seedVal (init reqs n0) sched = some s → Complete s →
      n0 + s.out.length ≤ W → ∀ t, (served s t).Pairwise (· < ·) := by
  intro sched s hr hc hW t
  have hi := reach_inv sd seedVal reqs n0 hn0 sched s hr
  have ho := hi.b.order t
  simp [(hc t).1] at ho
  rw [← ho]
  have hp := hi.b.perm
  rw [complete_pend_nil sd seedVal reqs n0 hi hc, List.append_nil] at hp
  have hlen : s.out.length = s.acq.length := by simpa using hp.length_eq
  have hacq : (s.acq.map Prod.snd).Pairwise (· < ·) := by
    rw [hi.a.acqI, List.pairwise_map]
    refine List.Pairwise.imp_of_mem ?_ (List.pairwise_lt_range' (s := n0) (n := s.acq.length))
    intro a b ha hb hlt
    rw [List.mem_range'_1] at ha hb
    rw [Nat.mod_eq_of_lt (by omega), Nat.mod_eq_of_lt (by omega)]
    exact hlt
  rw [List.pairwise_map] at hacq
  unfold tickets
  rw [List.pairwise_map]
  exact hacq.filter _

/-- **No unordered conflicting accesses.**  After EVERY schedule, any two accesses to init/key/nonce by different
    threads of which at least one is a write are ordered by the mutex: the earlier one was made inside a critical
    section that precedes the critical section the later one's thread had last entered (key reads by the generator
    after `unlock` conflict only with the single seeding write, which lies in an earlier critical section). -/
theorem no_conflict (hn0 : n0 < W) :
    ∀ (sched : List Nat) (s : State), run sd seedVal (init reqs n0) sched = some s →
      s.trace.Pairwise (fun e1 e2 => Conflict e1 e2 → LockOrdered e1 e2) := by
  intro sched s hr
  exact (reach_inv sd seedVal reqs n0 hn0 sched s hr).c.pw

/-- every write to the generator state is made while holding the mutex; the only accesses made without it are reads
    of the key; at most one thread is ever inside (mutual exclusion) -/
theorem writes_locked (hn0 : n0 < W) :
    ∀ (sched : List Nat) (s : State), run sd seedVal (init reqs n0) sched = some s →
      (∀ e ∈ s.trace, (e.isWrite = true → e.inside = true) ∧ (e.inside = false → e.var = .key ∧ e.isWrite = false)) ∧
      ∀ t, (s.thr t).pc.inside = true ↔ s.lock = some t := by
  intro sched s hr
  have hi := reach_inv sd seedVal reqs n0 hn0 sched s hr
  exact ⟨hi.c.trShape, hi.a.lockI⟩

/-! ### the unlocked model: documented witnesses of the old defect -/

def twoReq : Nat → Nat := fun t => if t < 2 then 1 else 0
def sv : Nat → Nat := fun k => 1000 + k

/-- **Old code: a nonce is used twice.**  Two threads, one request each: thread 1 generates before thread 0 has
    incremented the nonce; both blocks come from nonce 0 (identical keystream), and both threads are finished. -/
theorem unlocked_duplicate :
    ∃ sched, (urun sv (uinit twoReq 0) sched).map
      (fun s => (s.out.map (·.nonce), s.out.map (·.key), (s.thr 0).pc, (s.thr 0).todo, (s.thr 1).pc, (s.thr 1).todo))
      = some ([0, 0], [1000, 1000], .rdInit, 0, .rdInit, 0) :=
  ⟨[0, 0, 0, 0, 1, 1, 0, 0, 1, 1], by decide⟩

/-- old code: the key is seeded twice (both threads see `init = 0`), the first block is generated with a key that is
    then overwritten -/
theorem unlocked_double_seed :
    ∃ sched, (urun sv (uinit twoReq 0) sched).map (fun s => (s.seeds, s.out.map (·.key))) = some (2, [1000, 1001]) :=
  ⟨[0, 1, 0, 0, 0, 1, 1, 1, 0, 0, 1, 1], by decide⟩

/-- old code: lost update – after two requests the counter has advanced by one only -/
theorem unlocked_lost_update :
    ∃ sched, (urun sv (uinit twoReq 0) sched).map (fun s => (s.out.length, s.nonce)) = some (2, 1) :=
  ⟨[0, 0, 0, 0, 1, 1, 0, 1, 0, 1], by decide⟩

/-! ### non-vacuity of the locked-model theorems -/

def exReqs : Nat → Nat := fun t => if t = 0 then 2 else if t = 1 then 1 else 0

/-- the repository's order (flag after the key), the key delivered in two pieces -/
def exSd : Seeding := ⟨2, false⟩

/-- an interleaved complete schedule of the locked model exists (thread 1 acquires the mutex between thread 0's two
    requests and generates last): 3 requests, nonces 5,6,7, one seeding -/
def exSched : List Nat :=
  [0, 0, 0, 0, 0, 0, 0, 0, 0, 0,  -- thread 0: lock … unlock   (first request of the process: seeds, the key arrives in 2 pieces)
   1,                             -- thread 1: lock
   0,                             -- thread 0: generate (outside the lock, while thread 1 is inside)
   1, 1, 1, 1, 1,                 -- thread 1: read init, my := nonce, n := nonce, nonce := n+1, unlock
   0, 0, 0, 0, 0, 0,              -- thread 0: second request lock … unlock
   0, 1]                          -- both generate

example : (run exSd sv (init exReqs 5) exSched).map (fun s => (s.out.map (fun o => (o.tid, o.nonce, o.key)), s.seeds, s.nonce))
    = some ([(0, 5, 1000), (0, 7, 1000), (1, 6, 1000)], 1, 8) := by decide
example : (run exSd sv (init exReqs 5) exSched).map (fun s => s.out.map (·.miss)) = some [0, 0, 0] := by decide
example : (run exSd sv (init exReqs 5) exSched).map (fun s => s.acq) = some [(0, 5), (1, 6), (0, 7)] := by decide
example : (run exSd sv (init exReqs 5) exSched).map (fun s => ((s.thr 0).pc, (s.thr 0).todo, (s.thr 1).pc, (s.thr 1).todo))
    = some (.idle, 0, .idle, 0) := by decide

/-- `lock` is not enabled while the mutex is held: a schedule that tries is not a schedule of the model -/
example : run exSd sv (init exReqs 5) [0, 1] = none := by decide

/-- the sequential specification on the acquisition order of the example -/
example : seqServe 5 [0, 1, 0] = [(0, 5), (1, 6), (0, 7)] := by decide

/-- the trace of the example does contain conflicting pairs (so `no_conflict` says something): the seeding write of
    thread 0 and thread 1's later key read -/
example : Conflict ⟨0, .key, true, true, 0⟩ ⟨1, .key, false, false, 1⟩ ∧ LockOrdered ⟨0, .key, true, true, 0⟩ ⟨1, .key, false, false, 1⟩ := by
  refine ⟨⟨by decide, rfl, Or.inl rfl⟩, rfl, by decide⟩
example : (run exSd sv (init exReqs 5) exSched).map (fun s => (s.trace.contains ⟨0, .key, true, true, 0⟩, s.trace.contains ⟨1, .key, false, false, 1⟩, s.trace.length))
    = some (true, true, 18) := by decide

/-- the other order (flag first) under the same lock, key in two pieces: thread 1 asks for the mutex while thread 0 is
    between the flag and the key - `lock` is not enabled - and is served after it, from the complete key -/
example : run ⟨2, true⟩ sv (init exReqs 5) [0, 0, 0, 0, 0, 1] = none := by decide
example : (run ⟨2, true⟩ sv (init exReqs 5) [0, 0, 0, 0, 0]).map (fun s => (s.init, s.key, s.miss, (s.thr 0).pc))
    = some (true, 1000, 1, .fill) := by decide
example : (run ⟨2, true⟩ sv (init exReqs 5) exSched).map (fun s => (s.out.map (fun o => (o.tid, o.nonce, o.key, o.miss)), s.seeds))
    = some ([(0, 5, 1000, 0), (0, 7, 1000, 0), (1, 6, 1000, 0)], 1) := by decide

/-! ### a lock-free split counter: correct away from the carries of its pieces, wrong across them

   (Witness of the fault class the boundary mode of harness/conc18.cpp is generated for; the repository's code is the
   locked model above, whose theorems hold for every start value `n0` of the counter and every schedule.) -/

/-- the 24-bit ticket of the witness -/
def B24 : Nat := 16777216

/-- sequentially (thread 0, then thread 1) the split counter is right, also across the carry: 2^24-1, 2^24 -/
theorem split_counter_sequential :
    (srun B24 (sinit B24 (B24 - 1)) [0, 0, 0, 0, 1, 1, 1, 1]).map (·.out) = some [(0, 16777215), (1, 16777216)] := by
  decide

/-- away from a carry the SAME interleaving as in `split_counter_reuse` below gives distinct consecutive nonces
    (one instance, not a theorem about all schedules: it shows that the witness needs the position in the history) -/
theorem split_counter_ok_inside_epoch :
    (srun B24 (sinit B24 5) [0, 1, 1, 1, 1, 0, 0, 0]).map (·.out) = some [(1, 6), (0, 5)] := by
  decide

/-- **A nonce is reused.**  The counter stands at 2^24-1 (2^24-1 requests have been made).  Thread 0 draws the last
    ticket of the epoch; before it has published the new epoch, thread 1 draws ticket 0 and pairs it with the OLD
    epoch: it is served with nonce 0, which the very first request of the process has used, and nonce 2^24 is
    skipped.  No access is unsynchronised (all are atomic): a race detector is silent. -/
theorem split_counter_reuse :
    ∃ sched, (srun B24 (sinit B24 (B24 - 1)) sched).map (fun s => (s.out, s.t0.pc, s.t1.pc, s.ticket, s.epoch))
      = some ([(1, 0), (0, 16777215)], .done, .done, 1, 1) :=
  ⟨[0, 1, 1, 1, 1, 0, 0, 0], by decide⟩

/-- **A nonce is skipped (and reused 2^24 requests later).**  Mirror case: thread 1 draws one of the last tickets of
    the epoch (2^24-2), thread 0 draws the last one and publishes the new epoch, and only then does thread 1 read the
    epoch: it is served with nonce 2·2^24-2 instead of 2^24-2. -/
theorem split_counter_skip :
    ∃ sched, (srun B24 (sinit B24 (B24 - 2)) sched).map (fun s => s.out)
      = some [(0, 16777215), (1, 33554430)] :=
  ⟨[1, 0, 0, 0, 0, 1, 1, 1], by decide⟩

/-! ### double-checked seeding with a lock-free hot path: safe or not depending on the order of flag and key

   (Model/Prng18Dcl.lean; witness of the fault class the first-request family of harness/conc18.cpp is generated for.
   The repository's code is the locked model above, for which `key_complete` holds in every schedule and either order.) -/

/-- the result of a run of the two-thread double-checked model: blocks (thread, nonce, key, missing pieces), calls of
    randombytes, final counter, both threads finished -/
def dclResult (s : DState) : List (Nat × Nat × Nat × Nat) × Nat × Nat × DPc × DPc :=
  (s.out.map (fun o => (o.tid, o.nonce, o.key, o.miss)), s.seeds, s.nonce, s.t0.pc, s.t1.pc)

/-- **A first request is served from the ALL-ZERO key.**  Flag written before the key, key in two pieces.  Thread 0
    checks (`init = 0`), takes the mutex, re-checks, sets the flag; thread 1's unlocked check now reads 1, it skips the
    mutex, reserves nonce 0 and generates - `randombytes` has not even been called: the block comes from key 0 (the
    zero-initialised static array), not from the process key 1000.  Afterwards everything looks right: one seeding,
    nonces 0 and 1 each once, both requests served, no unsynchronised access. -/
theorem dcl_flag_first_zero_key :
    ∃ sched, (drun ⟨2, true⟩ sv (dinit 0) sched).map dclResult
      = some ([(1, 0, 0, 0), (0, 1, 1000, 0)], 1, 2, .done, .done) :=
  ⟨[0, 0, 0, 0, 1, 1, 1, 0, 0, 0, 0, 0, 0], by decide⟩

/-- **… or from a PARTIALLY WRITTEN key**: thread 1 checks after the first of the two pieces has arrived and
    generates before the second: key 1000 with one piece missing. -/
theorem dcl_flag_first_partial_key :
    ∃ sched, (drun ⟨2, true⟩ sv (dinit 0) sched).map dclResult
      = some ([(1, 0, 1000, 1), (0, 1, 1000, 0)], 1, 2, .done, .done) :=
  ⟨[0, 0, 0, 0, 0, 0, 1, 1, 1, 0, 0, 0, 0], by decide⟩

/-- with the flag written AFTER the key the same interleavings are harmless (instances, not a theorem about all
    schedules of the double-checked model: they show that the witnesses need the order, nothing else): thread 1's
    check reads 0, it asks for the mutex - not enabled while thread 0 holds it - and once thread 0 has released it,
    re-checks under the mutex and generates from the complete key -/
theorem dcl_flag_last_same_prefix_blocks :
    drun ⟨2, false⟩ sv (dinit 0) [0, 0, 0, 0, 1, 1] = none ∧
    (drun ⟨2, false⟩ sv (dinit 0) [0, 0, 0, 0, 0, 1, 0, 0, 0, 1, 1, 1, 1, 1, 0, 0]).map dclResult
      = some ([(1, 0, 1000, 0), (0, 1, 1000, 0)], 1, 2, .done, .done) := by
  decide

/-- sequentially (thread 0, then thread 1) the flag-first variant is right: the defect needs the first-request race -/
theorem dcl_flag_first_sequential :
    (drun ⟨2, true⟩ sv (dinit 0) [0, 0, 0, 0, 0, 0, 0, 0, 0, 0, 1, 1, 1]).map dclResult
      = some ([(0, 0, 1000, 0), (1, 1, 1000, 0)], 1, 2, .done, .done) := by
  decide

end Nfl.C18
