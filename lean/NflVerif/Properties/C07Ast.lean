/-
C07 — the assignment theorems restated for the evaluators GENERATED from clang's AST of the expression-template machinery
(`Generated/ExprAst.lean`, tools/gen_expr_ast.py), via the equalities of `Proofs/ExprAstEq.lean`:
* `generic_loop_ast`        `poly::operator=(expr)` (translated once, `store`/`load` abstract) = `Ex.assignW` for any loader
* `Nfl.ExprAst.assign_<shape>_<build>_<T>_eq` (registered directly)   generated evaluator = `Ex.assign` on the corresponding tree
* `closed_form_ast_*`       C07's closed form (`st.set d (pointwise …)`) for generated evaluators, any aliasing
* `Nfl.ExprAst.resolved_*_ok`   the resolved (tree, tag, simd_mode, fusion, width) = `Ex.mode` / `nodeTag` / `mkShoup` / `eltCount`
-/
import NflVerif.Properties.C07
import NflVerif.Proofs.ExprAstEq

namespace Nfl.C07Ast
open Nfl Nfl.Ex Nfl.ExprAst Nfl.CSemExpr

/-- **the generic loop**: the translation of the template body of `poly::operator=(ops::expr<Op,Args...> const&)` with abstract
`E::simd_mode::store` and `expr.load<E::simd_mode>` is the hand model's `assignW`, for every store function that writes the lanes of
its argument and every loader that yields the model's block on heaps satisfying an invariant the stores preserve. -/
theorem generic_loop_ast {V : Type} (c : Ctx) (e : Expr) (P Pn : Nat → Nat) (vs d : Nat) (lanes : V → List Nat)
    (store : Mem → Ptr → V → Mem) (load : Mem → Nat → Nat → V) (I : Store → Prop) (m : Store)
    (hstore : ∀ m p v, store m p v = storeBlock m p.1 p.2 (lanes v))
    (hload : ∀ m cm jb, I m → cm < c.nmod → jb < c.deg / vs → lanes (load m cm (jb * vs)) = loadBlock c m e cm (jb * vs) vs)
    (hI : ∀ m cm jb, I m → cm < c.nmod → jb < c.deg / vs → I (storeBlock m d (cm * c.deg + jb * vs) (loadBlock c m e cm (jb * vs) vs)))
    (hvs : 0 < vs) (hnm : c.nmod < 2 ^ 64) (hdeg : c.deg < 2 ^ 64) (hn : c.nmod * c.deg < 2 ^ 64) (hm : I m) :
    Gen.ExprAst.poly_assign c.deg c.nmod P Pn vs store load d m = assignW c vs d e m :=
  assign_tie c e P Pn vs d lanes store load I m hstore hload hI hvs hnm hdeg hn hm

/-- the `static_assert` of the generated loop is C07's divisibility hypothesis -/
theorem static_assert_ast (c : Ctx) (P Pn : Nat → Nat) (vs : Nat) (hdeg : c.deg < 2 ^ 64) :
    Gen.ExprAst.poly_assign_static_assert c.deg c.nmod P Pn vs = true ↔ vs ∣ c.deg :=
  static_assert_iff_dvd c.deg c.nmod P Pn vs hdeg

/-- C07's closed form for the GENERATED `d = a0 + shoup(a1 * a2, a3)` (serial build, `uint32_t`): the destination row becomes the exact
coefficient-wise meaning on the heap before the assignment, nothing else changes — `d` may be any of `a0 … a3`. -/
theorem closed_form_ast_fma_u32 (c : Ctx) (hl : c.l = .w32) (hrows : c.TableRows) (S : Sizes c) (m : Store) (hm : InRange c.w m)
    (d a0 a1 a2 a3 : Nat) (hd : d < m.length) (hlen : (m.getD d []).length = c.n)
    (hadm : Adm c m (.add (.leaf a0) (.shoup3 (.leaf a1) (.leaf a2) (.leaf a3)))) :
    Gen.ExprAst.assign_fma_serial_u32 c.deg c.nmod c.p (pnOf c) m d a0 a1 a2 a3 =
      m.set d (pointwise c m (.add (.leaf a0) (.shoup3 (.leaf a1) (.leaf a2) (.leaf a3)))) := by
  rw [assign_fma_serial_u32_eq c hl S m hm]
  exact C07.assign_closed_form c hrows .serial d _ m hd hlen (by rw [hl]; exact Nat.one_dvd _) hadm

/-- the same for the GENERATED SSE evaluator of `d = a0 + a1` (`uint32_t`, 4 lanes per step) -/
theorem closed_form_ast_add_sse_u32 (c : Ctx) (hl : c.l = .w32) (hrows : c.TableRows) (S : Sizes c) (m : Store)
    (d a0 a1 : Nat) (hd : d < m.length) (hlen : (m.getD d []).length = c.n) (hdiv : 4 ∣ c.deg)
    (hadm : Adm c m (.add (.leaf a0) (.leaf a1))) :
    Gen.ExprAst.assign_add_sse_u32 c.deg c.nmod c.p (pnOf c) m d a0 a1 = m.set d (pointwise c m (.add (.leaf a0) (.leaf a1))) := by
  rw [assign_add_sse_u32_eq c hl S m]
  exact C07.assign_closed_form c hrows .sse d _ m hd hlen (by rw [hl]; exact hdiv) hadm

/-- serial and SSE generated evaluators of `d = a0 + a1` agree (mode irrelevance, at the level of the translated code) -/
theorem add_serial_eq_sse_ast (c : Ctx) (hl : c.l = .w32) (S : Sizes c) (m : Store) (hm : InRange c.w m)
    (d a0 a1 : Nat) (hd : d < m.length) (hlen : (m.getD d []).length = c.n) (hdiv : 4 ∣ c.deg) :
    Gen.ExprAst.assign_add_serial_u32 c.deg c.nmod c.p (pnOf c) m d a0 a1 = Gen.ExprAst.assign_add_sse_u32 c.deg c.nmod c.p (pnOf c) m d a0 a1 := by
  rw [assign_add_serial_u32_eq c hl S m hm, assign_add_sse_u32_eq c hl S m]
  exact C07.backend_irrelevant c .serial .sse d _ m hd hlen (by rw [hl]; exact Nat.one_dvd _) (by rw [hl]; exact hdiv)

/-- construction from an expression, generated code (`uint64_t`) -/
theorem construct_correct_ast_u64 (c : Ctx) (hl : c.l = .w64) (hrows : c.TableRows) (S : Sizes c) (m : Store) (hm : InRange c.w m)
    (junk : List Nat) (hj : ∀ v ∈ junk, v < 2 ^ c.w) (hjl : junk.length = c.n) (a0 a1 : Nat) (h0 : a0 < m.length) (h1 : a1 < m.length)
    (hadm : Adm c m (.add (.leaf a0) (.leaf a1))) :
    Gen.ExprAst.construct_add_serial_u64 c.deg c.nmod c.p (pnOf c) m junk a0 a1 = m ++ [pointwise c m (.add (.leaf a0) (.leaf a1))] := by
  rw [construct_add_serial_u64_eq c hl S m hm junk hj]
  refine C07.construct_correct c hrows .serial junk _ m hjl ?_ (by rw [hl]; exact Nat.one_dvd _) hadm
  intro h hh
  simp [Expr.leaves] at hh
  rcases hh with rfl | rfl <;> assumption

/-! ### non-vacuity and necessity -/

def exCtx : Ctx := { l := .w32, deg := 4, rows := Nfl.Gen.table32.rows.take 2 }
def exMem : Store := [[1, 2, 3, 4, 5, 6, 7, 8], [10, 20, 30, 40, 50, 60, 70, 80], [0, 0, 0, 0, 0, 0, 0, 0]]

example : Sizes exCtx := Sizes.of_rows exCtx (by decide) (by decide) (by decide) (by decide)
example : InRange exCtx.w exMem := by unfold InRange; decide
/-- the generated evaluators run by the kernel: aliased `a = a + b` (serial and SSE), loops with fuel 2^64 included -/
example : Gen.ExprAst.assign_add_serial_u32 4 2 exCtx.p (pnOf exCtx) exMem 0 0 1 = [[11, 22, 33, 44, 55, 66, 77, 88], exMem[1]!, exMem[2]!] := by decide
example : Gen.ExprAst.assign_add_sse_u32 4 2 exCtx.p (pnOf exCtx) exMem 0 0 1 = [[11, 22, 33, 44, 55, 66, 77, 88], exMem[1]!, exMem[2]!] := by decide
/-- the heap cells must be values of `T`: on the natural `2^32 + 7` (not a `uint32_t`) the translated `submod` and the hand model differ -/
example : Nfl.Gen.submod_u32 5 0 (2 ^ 32 + 7) = 0 ∧ Nfl.submod 32 5 0 (2 ^ 32 + 7) = 4294967289 := by decide

end Nfl.C07Ast
