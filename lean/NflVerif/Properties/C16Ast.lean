/-
C16 on code obtained from the source text.

`Generated/SerAst.lean` is produced on every run by `tools/gen_ser_ast.py` from clang's typed AST of
`poly::serialize_manually`, `poly::deserialize_manually`, `poly::serialize<cereal::Binary{Output,Input}Archive>`,
`poly::begin/end() const` and `nfl::operator<<(std::ostream&, poly const&)` (T = uint64_t, uint32_t, uint16_t: one text).
iostream / cereal calls and the object representation of `T _data[N]` are the contract `Model/StreamSem.lean`.  This file states
  (1) generated = hand model (`Model/Serial.lean`), for every limb type, every `N`, every polynomial and every stream:
      `writer_ast_eq`, `reader_ast_eq`, `reader_failed_ast_eq`, `cereal_save_ast_eq`, `cereal_load_ast_eq`, `text_ast_eq`;
      one statement of a history executed with the generated writer / reader is the hand model's `stepH` (`step_ast_eq`,
      observation `obs_ast_eq`), hence whole histories (`run_ast_eq`);
  (2) the C16 statements transported to the generated code: `raw_length_ast`, `raw_layout_ast`, `raw_roundtrip_ast`,
      `raw_truncated_ast`, `handles_value_semantics_ast`, `text_roundtrip_ast`;
  (3) `poly_p` (the members translated by `tools/gen_cow_ast.py`, `Generated/CowAst.lean`, are REUSED): the translated
      `poly_p::deserialize_manually`, given the translated `poly` reader as the value-level meaning of the forwarded call, is the
      hand model's `xform` step (detach, then the hand model's `deserialize` on the private copy): `poly_p_read_ast`.
Hypotheses (all needed, see `Proofs/SerAstEq.lean` for the `decide` examples):
  `data.length = N`       the list is the contents of `T _data[N]`;
  `N * sizeof(T) < 2^63`  the byte count survives `size_t → std::streamsize` (no object of 2^63 bytes exists);
  `∀ x ∈ data, x < 2^w`   only where the generated code passes the OLD contents through the object representation and the
                          hand model returns them untouched (read on a failed stream).
-/
import NflVerif.Properties.C16
import NflVerif.Proofs.SerAstEq
import NflVerif.Proofs.CowAstEq

namespace Nfl.C16Ast
open Nfl Nfl.Serial Nfl.SerAst

/-! ### (1) generated = hand model -/

theorem writer_ast_eq (T : Ss.CTy) (N : Nat) (data : List Nat) (s : Ss.Stream)
    (hN : data.length = N) (hsz : N * T.sizeOf < 2 ^ 63) :
    Gen.Ser.serialize_manually T N data s =
      some (if s.failed then s else { s with bytes := s.bytes ++ serialize T.bits data }) :=
  serialize_manually_eq T N data s hN hsz

theorem reader_ast_eq (T : Ss.CTy) (N : Nat) (data : List Nat) (s : Ss.Stream)
    (hN : data.length = N) (hsz : N * T.sizeOf < 2 ^ 63) (hf : s.failed = false) :
    Gen.Ser.deserialize_manually T N data s =
      some ((deserialize T.bits N data s.bytes).1,
            { bytes := (deserialize T.bits N data s.bytes).2.1, failed := (deserialize T.bits N data s.bytes).2.2,
              gcount := gcount T.bits N s.bytes }) :=
  deserialize_manually_eq T N data s hN hsz hf

theorem reader_failed_ast_eq (T : Ss.CTy) (N : Nat) (data : List Nat) (s : Ss.Stream)
    (hN : data.length = N) (hsz : N * T.sizeOf < 2 ^ 63) (hf : s.failed = true) (hr : ∀ x ∈ data, x < 2 ^ T.bits) :
    Gen.Ser.deserialize_manually T N data s = some (data, { s with gcount := 0 }) :=
  deserialize_manually_failed T N data s hN hsz hf hr

theorem cereal_save_ast_eq (T : Ss.CTy) (data : List Nat) (ar : Ss.Stream) :
    Gen.Ser.serialize_BinaryOutputArchive T data ar =
      some ({ ar with bytes := ar.bytes ++ serialize T.bits data }, false) :=
  cereal_save_eq T data ar

theorem cereal_load_ast_eq (T : Ss.CTy) (data : List Nat) (ar : Ss.Stream) :
    Gen.Ser.serialize_BinaryInputArchive T data ar =
      some ((deserialize T.bits data.length data ar.bytes).1,
            { ar with bytes := (deserialize T.bits data.length data ar.bytes).2.1 },
            (deserialize T.bits data.length data ar.bytes).2.2) :=
  cereal_load_eq T data ar

/-- the translated `operator<<` appends the character codes of the hand model's text to a good stream -/
theorem text_ast_eq (T : Ss.CTy) (N : Nat) (s : Ss.Stream) (data : List Nat) (hN : data.length = N) :
    Gen.Ser.operator_shl T N s data =
      some (if s.failed then s else { s with bytes := s.bytes ++ (printChars T.bits data).map Char.toNat }) := by
  rw [operator_shl_eq T N s data hN]; rfl

/-- the generated `N` is `degree · nmoduli` (for sizes that fit `size_t`) -/
theorem N_ast (n m : Nat) (h : n * m < 2 ^ 64) : Gen.Ser.N n m = n * m := Nat.mod_eq_of_lt h

/-! ### histories executed with the generated writer / reader -/

/-- the `std::stringstream` of a history state -/
def toStream (s : HState) : Ss.Stream := ⟨s.stream, s.failed, 0⟩

/-- one statement executed with the GENERATED `serialize_manually` / `deserialize_manually` (copies and element stores are
not serialisation code: taken from the hand model) -/
def stepG (T : Ss.CTy) (len : Nat) (s : HState) : HStep → Option HState
  | .write i => (Gen.Ser.serialize_manually T len (getH s.hs i) (toStream s)).map fun o =>
      { s with stream := o.bytes, failed := o.failed }
  | .read j => (Gen.Ser.deserialize_manually T len (getH s.hs j) (toStream s)).map fun r =>
      { hs := s.hs.set j r.1, stream := r.2.bytes, failed := r.2.failed }
  | st => some (stepH T.bits len s st)

/-- what the generated code lets the caller observe: bytes appended / (`fail()`, `gcount()`) -/
def obsG (T : Ss.CTy) (len : Nat) (s : HState) : HStep → Option (Nat × Nat)
  | .write i => (Gen.Ser.serialize_manually T len (getH s.hs i) (toStream s)).map fun o =>
      (o.bytes.length - s.stream.length, 0)
  | .read j => (Gen.Ser.deserialize_manually T len (getH s.hs j) (toStream s)).map fun r =>
      (if r.2.failed then 1 else 0, r.2.gcount)
  | _ => some (0, 0)

def runG (T : Ss.CTy) (len : Nat) : List HStep → HState → Option HState
  | [], s => some s
  | st :: r, s => (stepG T len s st).bind (runG T len r)

/-- every variable holds a polynomial of the type: `len` limb values -/
def VarsOk (T : Ss.CTy) (len : Nat) (s : HState) : Prop := ∀ p ∈ s.hs, C16.PolyOk T.bits len p

theorem getH_ok {T : Ss.CTy} {len : Nat} {s : HState} (h : VarsOk T len s) {i : Nat} (hi : i < s.hs.length) :
    C16.PolyOk T.bits len (getH s.hs i) := by
  rw [C16.getH_eq hi]; exact h _ (List.getElem_mem hi)

/-- **one statement: generated = hand model.**  `hv`: variables hold `len` limb values; `hok`: the statement names existing
variables; `hsz`: see above. -/
theorem step_ast_eq (T : Ss.CTy) (len : Nat) (s : HState) (st : HStep) (hsz : len * T.sizeOf < 2 ^ 63)
    (hv : VarsOk T len s) (hok : C16.StepOk s.hs.length T.bits st) :
    stepG T len s st = some (stepH T.bits len s st) := by
  cases st with
  | write i =>
    have hp := getH_ok hv (show i < s.hs.length from hok)
    simp only [stepG]
    rw [writer_ast_eq T len _ (toStream s) hp.1 hsz]
    cases hf : s.failed <;> simp [stepH, toStream, hf]
    cases s; simp_all
  | read j =>
    have hj : j < s.hs.length := hok
    have hp := getH_ok hv hj
    simp only [stepG]
    cases hf : s.failed with
    | true =>
      rw [reader_failed_ast_eq T len _ (toStream s) hp.1 hsz (by simp [toStream, hf]) hp.2]
      simp only [stepH, hf, Option.map_some, if_true, toStream]
      rw [C16.getH_eq hj, List.set_getElem_self hj]
      cases s; simp_all
    | false =>
      rw [reader_ast_eq T len _ (toStream s) hp.1 hsz (by simp [toStream, hf])]
      simp [stepH, hf, toStream]
  | copy d src => rfl
  | poke d i x => rfl

/-- **observations: generated = hand model** -/
theorem obs_ast_eq (T : Ss.CTy) (len : Nat) (s : HState) (st : HStep) (hsz : len * T.sizeOf < 2 ^ 63)
    (hv : VarsOk T len s) (hok : C16.StepOk s.hs.length T.bits st) :
    obsG T len s st = some (obsH T.bits len s st) := by
  cases st with
  | write i =>
    have hp := getH_ok hv (show i < s.hs.length from hok)
    simp only [obsG]
    rw [writer_ast_eq T len _ (toStream s) hp.1 hsz]
    cases hf : s.failed <;> simp [obsH, toStream, hf]
  | read j =>
    have hj : j < s.hs.length := hok
    have hp := getH_ok hv hj
    simp only [obsG]
    cases hf : s.failed with
    | true =>
      rw [reader_failed_ast_eq T len _ (toStream s) hp.1 hsz (by simp [toStream, hf]) hp.2]
      simp [obsH, hf, toStream]
    | false =>
      rw [reader_ast_eq T len _ (toStream s) hp.1 hsz (by simp [toStream, hf])]
      simp [obsH, stepH, hf, toStream]
  | copy d src => rfl
  | poke d i x => rfl

/-! ### (2) the C16 statements on the generated code -/

/-- **raw_length_ast** — the generated writer appends exactly `N·sizeof(T)` bytes to a good stream -/
theorem raw_length_ast (T : Ss.CTy) (N : Nat) (p pre : List Nat) (g : Nat) (hN : p.length = N) (hsz : N * T.sizeOf < 2 ^ 63) :
    ∃ img, Gen.Ser.serialize_manually T N p ⟨pre, false, g⟩ = some ⟨pre ++ img, false, g⟩ ∧
      img.length = N * T.sizeOf ∧ ∀ y ∈ img, y < 256 := by
  refine ⟨serialize T.bits p, by rw [writer_ast_eq T N p _ hN hsz]; rfl, ?_, C16.raw_bytes _ p⟩
  rw [C16.raw_length, hN, bits_div]

/-- **raw_layout_ast** — byte `b` of coefficient `i` of modulus `cm` is at offset `(cm·n + i)·sizeof(T) + b` of what the
generated writer appends, little-endian, moduli slices one after the other -/
theorem raw_layout_ast (T : Ss.CTy) (n m : Nat) (p pre : List Nat) (g : Nat) (hp : p.length = n * m)
    (hsz : n * m * T.sizeOf < 2 ^ 63) (cm i b : Nat) (hcm : cm < m) (hi : i < n) (hb : b < T.sizeOf) :
    ∃ out, Gen.Ser.serialize_manually T (n * m) p ⟨pre, false, g⟩ = some out ∧
      out.bytes[pre.length + ((cm * n + i) * T.sizeOf + b)]? = some (p.getD (cm * n + i) 0 / 256 ^ b % 256) := by
  refine ⟨_, writer_ast_eq T (n * m) p _ hp hsz, ?_⟩
  have h8 : 8 ≤ T.bits := by cases T <;> decide
  have := C16.raw_layout_cm T.bits n m h8 p hp cm i b hcm hi (by rw [bits_div]; exact hb)
  rw [bits_div] at this
  simp only [Bool.false_eq_true, if_false]
  rw [List.getElem?_append_right (by omega)]
  simpa using this

/-- **raw_roundtrip_ast** — the generated reader applied to what the generated writer produced returns the polynomial
(all limb values), consumes exactly its bytes (`gcount() = N·sizeof(T)`), leaves the stream good and positioned at `rest` —
whatever the object held before -/
theorem raw_roundtrip_ast (T : Ss.CTy) (N : Nat) (p old rest : List Nat) (g g' : Nat)
    (hN : p.length = N) (hold : old.length = N) (hsz : N * T.sizeOf < 2 ^ 63) (hp : ∀ x ∈ p, x < 2 ^ T.bits) :
    ∃ img, Gen.Ser.serialize_manually T N p ⟨[], false, g⟩ = some ⟨img, false, g⟩ ∧
      Gen.Ser.deserialize_manually T N old ⟨img ++ rest, false, g'⟩ = some (p, ⟨rest, false, N * T.sizeOf⟩) := by
  refine ⟨serialize T.bits p, by rw [writer_ast_eq T N p _ hN hsz]; rfl, ?_⟩
  rw [reader_ast_eq T N old _ hold hsz rfl]
  have h := C16.raw_roundtrip T.bits (bits_dvd T) p old rest hp
  rw [hN] at h
  simp only [h, gcount, bits_div, List.length_append, C16.raw_length, hN]
  congr 3
  omega

/-- **raw_truncated_ast** — a stream that ends after fewer than `N·sizeof(T)` bytes: the generated reader sets `failbit`,
exhausts the stream, reports `gcount()` = what arrived, and the object's memory is those bytes followed by its unchanged
old bytes -/
theorem raw_truncated_ast (T : Ss.CTy) (old stream : List Nat) (g : Nat) (hsz : old.length * T.sizeOf < 2 ^ 63)
    (hs : ∀ y ∈ stream, y < 256) (hcut : stream.length < old.length * T.sizeOf) :
    ∃ new, Gen.Ser.deserialize_manually T old.length old ⟨stream, false, g⟩ = some (new, ⟨[], true, stream.length⟩) ∧
      new.length = old.length ∧
      Ss.objRepr T new = stream ++ (Ss.objRepr T old).drop stream.length := by
  have h := C16.raw_truncated T.bits old stream hs (by rw [bits_div]; exact hcut)
  simp only [bits_div] at h
  obtain ⟨h1, h2, h3, h4⟩ := h
  refine ⟨(deserialize T.bits old.length old stream).1, ?_, h3, by rw [objRepr_eq, objRepr_eq]; exact h4⟩
  rw [reader_ast_eq T old.length old _ rfl hsz rfl]
  simp only [h1, h2, gcount, bits_div]
  congr 3
  omega

/-- whole histories: generated = hand model, on states that carry a FIFO of polynomials (C16's invariant) -/
theorem run_ast_eq (T : Ss.CTy) (len K : Nat) (hlen : 0 < len) (hsz : len * T.sizeOf < 2 ^ 63) :
    ∀ (prog : List HStep) (v : VHState), C16.HInv T.bits len K v → (∀ st ∈ prog, C16.StepOk K T.bits st) →
      runG T len prog (C16.absH T.bits v) = some (C16.absH T.bits (prog.foldl stepHV v))
  | [], _, _, _ => rfl
  | st :: r, v, hi, hok => by
    have hst := hok st (by simp)
    obtain ⟨h1, _, h3⟩ := C16.step_sim T.bits len K (bits_dvd T) (bits_pos T) hlen v st hi hst
    have hv : VarsOk T len (C16.absH T.bits v) := hi.hh
    have hK : (C16.absH T.bits v).hs.length = K := hi.hK
    simp only [runG, step_ast_eq T len _ st hsz hv (by rw [hK]; exact hst), h1, Option.bind_some, List.foldl_cons]
    exact run_ast_eq T len K hlen hsz r _ h3 (fun s hs => hok s (by simp [hs]))

/-- **handles_value_semantics_ast** — any history of writes, reads, copies and element stores, executed with the GENERATED
writer and reader on one stream: the contents of all variables at the end are those of the value-level reading (variables
are values, the stream is a FIFO of polynomials), the stream holds exactly the raw forms of the polynomials not yet read -/
theorem handles_value_semantics_ast (T : Ss.CTy) (len K : Nat) (hlen : 0 < len) (hsz : len * T.sizeOf < 2 ^ 63)
    (prog : List HStep) (v : VHState) (hi : C16.HInv T.bits len K v) (hok : ∀ st ∈ prog, C16.StepOk K T.bits st) :
    ∃ s', runG T len prog (C16.absH T.bits v) = some s' ∧ s'.hs = (prog.foldl stepHV v).hs ∧
      s'.stream = (prog.foldl stepHV v).queue.flatMap (serialize T.bits) ∧ s'.failed = (prog.foldl stepHV v).failed :=
  ⟨_, run_ast_eq T len K hlen hsz prog v hi hok, rfl, rfl, rfl⟩

/-- **text_roundtrip_ast** — what the generated `operator<<` appends parses back (verified parser) to the polynomial -/
theorem text_roundtrip_ast (T : Ss.CTy) (N : Nat) (p pre : List Nat) (g : Nat) (hN : p.length = N) (hne : p ≠ [])
    (hp : ∀ x ∈ p, x < 2 ^ T.bits) :
    ∃ txt : List Char, Gen.Ser.operator_shl T N ⟨pre, false, g⟩ p = some ⟨pre ++ txt.map Char.toNat, false, g⟩ ∧
      parseText T.bits (String.ofList txt) = some p :=
  ⟨printChars T.bits p, by rw [text_ast_eq T N _ p hN]; rfl, C16.text_roundtrip T.bits p hne hp⟩

/-! ### (3) the handle class: `Generated/CowAst.lean` reused -/

open Nfl.Cow Nfl.CowAst in
/-- value-level meaning of the translated `poly::deserialize_manually` for the stream state `is` at the call -/
def readVal (T : Ss.CTy) (N : Nat) (is : Ss.Stream) (v : Cow.Val) : Cow.Val :=
  ((Gen.Ser.deserialize_manually T N v is).map (·.1)).getD v

/-- … on a polynomial of the type and a good stream it is the hand model's `deserialize` -/
theorem readVal_eq (T : Ss.CTy) (N : Nat) (is : Ss.Stream) (v : List Nat) (hN : v.length = N)
    (hsz : N * T.sizeOf < 2 ^ 63) (hf : is.failed = false) :
    readVal T N is v = (deserialize T.bits N v is.bytes).1 := by
  simp [readVal, reader_ast_eq T N v is hN hsz hf]

open Nfl.Cow Nfl.CowAst in
/-- **poly_p_read_ast** — the translated `poly_p::deserialize_manually` (from `gen_cow_ast.py`) with the translated `poly`
reader plugged in for the forwarded call is the hand model's `xform` step of C14: un-share, then read into the private copy
only -/
theorem poly_p_read_ast (T : Ss.CTy) (N : Nat) (is : Ss.Stream) (s : State) (d : Nat) :
    ((ptrAt s d).bind fun t =>
        (Gen.Cow.deserialize_manually_istream (readVal T N is) (heapOf s) t ()).map fun x => put s x.1 d x.2) =
      step s (.xform d (readVal T N is)) := by
  rw [← setter_step s d (readVal T N is)]; rfl

/-! ### non-vacuity: the generated code evaluated -/

example : Gen.Ser.serialize_manually .u16 3 [258, 65535, 15361] ⟨[], false, 0⟩ = some ⟨[2, 1, 255, 255, 1, 60], false, 0⟩ := by
  decide
example : Gen.Ser.deserialize_manually .u16 3 [7, 7, 7] ⟨[2, 1, 255, 255, 1, 60, 9, 9], false, 0⟩ =
    some ([258, 65535, 15361], ⟨[9, 9], false, 6⟩) := by decide
-- cut in the middle of word 1: its low byte is replaced, its high byte (of the old 0x0707) stays
example : Gen.Ser.deserialize_manually .u16 3 [1799, 1799, 1799] ⟨[2, 1, 255], false, 0⟩ =
    some ([258, 2047, 1799], ⟨[], true, 3⟩) := by decide
example : (Gen.Ser.operator_shl .u32 2 ⟨[], false, 0⟩ [1, 4294967295]).map (·.bytes) =
    some ("{ 1UL, 4294967295UL }".toList.map Char.toNat) := by decide
example : Gen.Ser.serialize_BinaryInputArchive .u16 [7, 7] ⟨[1, 2, 3], false, 0⟩ = some ([513, 3], ⟨[], false, 0⟩, true) := by
  decide
example : (runG .u16 2 [.write 0, .write 1, .read 2, .read 1] ⟨[[258, 1], [7, 65535], [9, 9]], [], false⟩).map
      (fun s => (s.hs, s.stream, s.failed)) = some ([[258, 1], [7, 65535], [258, 1]], [], false) := by decide

end Nfl.C16Ast
