/-
C16 — Serialisation round-trips and its byte layout is stable.

Model: `Model/Serial.lean` (`serialize_manually`, `deserialize_manually`, `operator<<`).  A polynomial is
the list of its `n*m` words (modulus-major), a stream is the list of its unread bytes.  `w` is the limb
width, a multiple of 8 (`16`, `32`, `64` in the library); "word" means any value a limb can hold
(`< 2^w`) — canonical or not: the format is a raw dump.

`iostream` (`write`, `read`, `<<` on integers) and cereal are contracts, see `Model/Serial.lean`.
-/
import NflVerif.Proofs.Serial

namespace Nfl.C16
open Nfl.Serial

theorem pow_limb {w : Nat} (hw : 8 ∣ w) : 2 ^ w = 256 ^ (w / 8) := by
  obtain ⟨k, rfl⟩ := hw
  rw [Nat.mul_div_cancel_left _ (by decide : 0 < 8), Nat.pow_mul]

/-- **raw_length** — the raw form of a polynomial of `n·m` words is exactly `n·m·w/8` bytes. -/
theorem raw_length (w : Nat) (p : List Nat) : (serialize w p).length = p.length * (w / 8) :=
  toBytes_length _ p

theorem raw_length_nm (w n m : Nat) (p : List Nat) (hp : p.length = n * m) :
    (serialize w p).length = n * m * (w / 8) := by rw [raw_length, hp]

/-- every element of the raw form is a byte -/
theorem raw_bytes (w : Nat) (p : List Nat) : ∀ y ∈ serialize w p, y < 256 := toBytes_lt _ p

/-- **raw_layout** — byte `j` of the stream is byte `j mod (w/8)` (little-endian) of word `j / (w/8)`;
the words come in storage order, i.e. modulus-major: word `cm·n + i` is coefficient `i` of modulus `cm`. -/
theorem raw_layout (w : Nat) (hw : 8 ≤ w) (p : List Nat) (j : Nat) (hj : j < p.length * (w / 8)) :
    (serialize w p)[j]? = some (p.getD (j / (w / 8)) 0 / 256 ^ (j % (w / 8)) % 256) :=
  toBytes_get (w / 8) (by omega) p j hj

/-- the same addressed by (modulus, coefficient, byte): byte `b` of coefficient `i` of modulus `cm` is at
offset `(cm·n + i)·(w/8) + b` -/
theorem raw_layout_cm (w n m : Nat) (hw : 8 ≤ w) (p : List Nat) (hp : p.length = n * m)
    (cm i b : Nat) (hcm : cm < m) (hi : i < n) (hb : b < w / 8) :
    (serialize w p)[(cm * n + i) * (w / 8) + b]? = some (p.getD (cm * n + i) 0 / 256 ^ b % 256) := by
  have hB : 0 < w / 8 := by omega
  have hidx : cm * n + i < p.length := by
    rw [hp]
    calc cm * n + i < cm * n + n := by omega
      _ = n * (cm + 1) := by rw [Nat.mul_add, Nat.mul_comm]; simp
      _ ≤ n * m := Nat.mul_le_mul_left n hcm
  have hj : (cm * n + i) * (w / 8) + b < p.length * (w / 8) := by
    calc (cm * n + i) * (w / 8) + b < (cm * n + i) * (w / 8) + w / 8 := by omega
      _ = (cm * n + i + 1) * (w / 8) := by rw [Nat.succ_mul]
      _ ≤ p.length * (w / 8) := Nat.mul_le_mul_right _ hidx
  rw [raw_layout w hw p _ hj]
  have e1 : ((cm * n + i) * (w / 8) + b) / (w / 8) = cm * n + i := by
    rw [Nat.mul_comm, Nat.mul_add_div hB, Nat.div_eq_of_lt hb]; simp
  have e2 : ((cm * n + i) * (w / 8) + b) % (w / 8) = b := by
    rw [Nat.mul_comm, Nat.mul_add_mod, Nat.mod_eq_of_lt hb]
  rw [e1, e2]

/-- **raw_roundtrip** — reading back what was written reproduces **every** polynomial (all word values,
canonical or not), consumes exactly its bytes and leaves the stream good — whatever the object held before
and whatever follows in the stream. -/
theorem raw_roundtrip (w : Nat) (hw : 8 ∣ w) (p old rest : List Nat) (hp : ∀ x ∈ p, x < 2 ^ w) :
    deserialize w p.length old (serialize w p ++ rest) = (p, rest, false) := by
  have hl : (toBytes (w / 8) p).length = p.length * (w / 8) := toBytes_length _ p
  have hmin : min (p.length * (w / 8)) (toBytes (w / 8) p ++ rest).length = p.length * (w / 8) := by
    rw [List.length_append, hl]; omega
  simp only [deserialize, serialize, hmin]
  rw [List.take_left' hl, List.drop_left' hl,
    fromBytes_toBytes (w / 8) p _ (fun x hx => by rw [← pow_limb hw]; exact hp x hx)]
  simp

/-- **raw_concat** — several polynomials back to back: the first read returns the first polynomial and
leaves the stream positioned exactly at the second, which the next read returns. -/
theorem raw_concat (w : Nat) (hw : 8 ∣ w) (a b old old' rest : List Nat)
    (ha : ∀ x ∈ a, x < 2 ^ w) (hb : ∀ x ∈ b, x < 2 ^ w) :
    deserialize w a.length old (serialize w a ++ serialize w b ++ rest) = (a, serialize w b ++ rest, false) ∧
    deserialize w b.length old' (deserialize w a.length old (serialize w a ++ serialize w b ++ rest)).2.1
      = (b, rest, false) := by
  have h1 : deserialize w a.length old (serialize w a ++ serialize w b ++ rest)
      = (a, serialize w b ++ rest, false) := by
    rw [List.append_assoc]; exact raw_roundtrip w hw a old _ ha
  exact ⟨h1, by rw [h1]; exact raw_roundtrip w hw b old' rest hb⟩

/-- the sequential reader on a stream holding exactly the images of `ps` returns `ps`, all reads good -/
theorem raw_seq (w len : Nat) (hw : 8 ∣ w) : ∀ (ps olds : List (List Nat)) (rest : List Nat),
    ps.length = olds.length → (∀ p ∈ ps, p.length = len ∧ ∀ x ∈ p, x < 2 ^ w) →
    deserializeSeq w len olds ((ps.flatMap (serialize w)) ++ rest) false =
      (ps.map (fun p => (p, len * (w / 8), false)), rest)
  | [], [], rest, _, _ => by simp [deserializeSeq]
  | [], _ :: _, _, h, _ => by simp at h
  | _ :: _, [], _, h, _ => by simp at h
  | p :: ps, old :: olds, rest, h, hp => by
    have hpl := (hp p (by simp)).1
    have h1 := raw_roundtrip w hw p old (ps.flatMap (serialize w) ++ rest) (hp p (by simp)).2
    rw [hpl] at h1
    have hg : gcount w len (serialize w p ++ (ps.flatMap (serialize w) ++ rest)) = len * (w / 8) := by
      simp only [gcount, List.length_append, raw_length, hpl]; omega
    simp only [List.flatMap_cons, List.append_assoc, deserializeSeq, h1, hg, List.map_cons,
      Bool.false_eq_true, if_false]
    rw [raw_seq w len hw ps olds rest (by simpa using h) (fun q hq => hp q (by simp [hq]))]

/-- **raw_truncated** — a stream that ends after `cut < n·m·w/8` bytes: `failbit` is set, the stream is
exhausted, the object still has exactly its `len` words, and its memory is the `cut` bytes that arrived
followed by the **unchanged** old bytes from offset `cut` on (nothing else is written: the model's object *is*
its `len` words, see `raw_truncated_words` for the word view). -/
theorem raw_truncated (w : Nat) (old stream : List Nat)
    (hs : ∀ y ∈ stream, y < 256) (hcut : stream.length < old.length * (w / 8)) :
    let r := deserialize w old.length old stream
    r.2.2 = true ∧ r.2.1 = [] ∧ r.1.length = old.length ∧
      toBytes (w / 8) r.1 = stream ++ (toBytes (w / 8) old).drop stream.length := by
  have hmin : min (old.length * (w / 8)) stream.length = stream.length := by omega
  simp only [deserialize, hmin, List.take_length, List.drop_length]
  refine ⟨by simp; omega, trivial, fromBytes_length _ _ _, ?_⟩
  apply toBytes_fromBytes
  · rw [List.length_append, List.length_drop, toBytes_length]; omega
  · intro y hy
    rcases List.mem_append.1 hy with h | h
    · exact hs y h
    · exact toBytes_lt _ old y (List.mem_of_mem_drop h)

/-- word view of a truncated read: words wholly before the cut are the transmitted ones, words wholly
beyond the cut are unchanged, the word straddling the cut has its low bytes replaced and keeps its high bytes. -/
theorem raw_truncated_words (w : Nat) (hw : 8 ∣ w) (old stream : List Nat)
    (hold : ∀ x ∈ old, x < 2 ^ w) (hcut : stream.length < old.length * (w / 8)) (j : Nat) (hj : j < old.length) :
    let r := (deserialize w old.length old stream).1
    (stream.length ≤ j * (w / 8) → r[j]? = some old[j]) ∧
    ((j + 1) * (w / 8) ≤ stream.length → r[j]? = some (decodeLE ((stream.drop (j * (w / 8))).take (w / 8)))) ∧
    (j * (w / 8) < stream.length → stream.length < (j + 1) * (w / 8) →
      r[j]? = some (decodeLE (stream.drop (j * (w / 8)) ++
                     (encodeLE (w / 8) old[j]).drop (stream.length - j * (w / 8))))) := by
  have hmin : min (old.length * (w / 8)) stream.length = stream.length := by omega
  have hchunk := toBytes_chunk (w / 8) old j hj
  simp only [deserialize, hmin, List.take_length]
  rw [fromBytes_get _ _ _ _ hj]
  refine ⟨fun h => ?_, fun h => ?_, fun h1 h2 => ?_⟩
  · -- wholly beyond the cut
    rw [List.drop_append, List.drop_of_length_le h, List.nil_append, List.drop_drop]
    have : stream.length + (j * (w / 8) - stream.length) = j * (w / 8) := by omega
    rw [this, hchunk, decode_encode, ← pow_limb hw, Nat.mod_eq_of_lt (hold _ (List.getElem_mem hj))]
  · -- wholly before the cut
    rw [List.drop_append, List.take_append]
    have h3 : (w / 8) ≤ (stream.drop (j * (w / 8))).length := by
      rw [List.length_drop]; rw [Nat.add_mul] at h; omega
    have : (w / 8) - (stream.drop (j * (w / 8))).length = 0 := by omega
    rw [this]; simp
  · -- straddling the cut
    rw [List.drop_append]
    have e0 : j * (w / 8) - stream.length = 0 := by omega
    rw [e0, List.drop_zero, List.take_append]
    have hl : (stream.drop (j * (w / 8))).length = stream.length - j * (w / 8) := List.length_drop
    have ht : (stream.drop (j * (w / 8))).take (w / 8) = stream.drop (j * (w / 8)) :=
      List.take_of_length_le (by rw [hl]; rw [Nat.add_mul] at h2; omega)
    rw [ht, hl]
    -- the untouched high bytes of word j
    have : ((toBytes (w / 8) old).drop stream.length).take (w / 8 - (stream.length - j * (w / 8)))
        = (encodeLE (w / 8) old[j]).drop (stream.length - j * (w / 8)) := by
      rw [← hchunk, List.drop_take, List.drop_drop]
      have : j * (w / 8) + (stream.length - j * (w / 8)) = stream.length := by omega
      rw [this]
    rw [this]

/-- **text_roundtrip** — the text form lists all stored words in order with the limb-width suffix after
every element, and parses back to the same polynomial (all words `< 2^w`, at least one word). -/
theorem text_roundtrip (w : Nat) (p : List Nat) (hne : p ≠ []) (hp : ∀ x ∈ p, x < 2 ^ w) :
    parseText w (printText w p) = some p := by
  cases p with
  | nil => exact absurd rfl hne
  | cons v vs =>
    simp only [parseText, printText, String.toList_ofList, printChars_cons, parseChars]
    apply parseElems_print w vs v _ _ (hp v (by simp)) (fun x hx => hp x (by simp [hx]))
    have := tailForm_length (suffix w) vs
    rw [List.length_append]; omega

/-- shape of the text: `{ `, then for every word its decimal digits followed by the suffix, separated by `, `,
then ` }`.  (The suffix follows **every** element, the last one included.) -/
theorem text_shape (w v : Nat) (vs : List Nat) :
    printChars w (v :: vs) =
      ['{', ' '] ++ Nat.toDigits 10 v ++ suffix w ++
        (vs.flatMap fun x => [',', ' '] ++ Nat.toDigits 10 x ++ suffix w) ++ [' ', '}'] := by
  rw [printChars_cons]
  have : ∀ l : List Nat, tailForm (suffix w) l =
      suffix w ++ (l.flatMap fun x => [',', ' '] ++ Nat.toDigits 10 x ++ suffix w) ++ [' ', '}'] := by
    intro l
    induction l with
    | nil => simp [tailForm]
    | cons a l ih => simp [tailForm, ih, List.append_assoc]
  rw [this]; simp [List.append_assoc]

/-! ### histories over several objects: the receiving object has a past -/

/-- a polynomial of the type at hand: `len` words, each a limb value -/
def PolyOk (w len : Nat) (p : List Nat) : Prop := p.length = len ∧ ∀ x ∈ p, x < 2 ^ w

/-- the statement refers to existing variables and stores limb values -/
def StepOk (K w : Nat) : HStep → Prop
  | .write i => i < K
  | .read j => j < K
  | .copy d s => d < K ∧ s < K
  | .poke d _ x => d < K ∧ x < 2 ^ w

structure HInv (w len K : Nat) (v : VHState) : Prop where
  hK : v.hs.length = K
  hh : ∀ p ∈ v.hs, PolyOk w len p
  hq : ∀ p ∈ v.queue, PolyOk w len p

/-- the stream that carries a FIFO of polynomials: their raw forms back to back -/
def absH (w : Nat) (v : VHState) : HState := ⟨v.hs, v.queue.flatMap (serialize w), v.failed⟩

theorem getH_eq {hs : List (List Nat)} {i : Nat} (h : i < hs.length) : getH hs i = hs[i] := by
  simp [getH, h]

theorem getD_ok {w len K : Nat} {v : VHState} (hi : HInv w len K v) {i : Nat} (h : i < K) :
    PolyOk w len (getH v.hs i) := by
  have hl : i < v.hs.length := by rw [hi.hK]; exact h
  rw [getH_eq hl]
  exact hi.hh _ (List.getElem_mem hl)

theorem set_ok {w len : Nat} {l : List (List Nat)} (hl : ∀ p ∈ l, PolyOk w len p) (j : Nat) {q : List Nat}
    (hq : PolyOk w len q) : ∀ p ∈ l.set j q, PolyOk w len p := by
  intro p hp
  rcases List.mem_or_eq_of_mem_set hp with h | h
  · exact hl p h
  · exact h ▸ hq

theorem limb_bytes_pos {w : Nat} (hw : 8 ∣ w) (hw0 : 0 < w) : 0 < w / 8 := by
  obtain ⟨k, rfl⟩ := hw
  omega

/-- one statement: the byte-level execution is the value-level one, observation included -/
theorem step_sim (w len K : Nat) (hw : 8 ∣ w) (hw0 : 0 < w) (hlen : 0 < len) (v : VHState) (st : HStep)
    (hi : HInv w len K v) (hok : StepOk K w st) :
    stepH w len (absH w v) st = absH w (stepHV v st) ∧
    obsH w len (absH w v) st = obsHV (len * (w / 8)) v st ∧
    HInv w len K (stepHV v st) := by
  have hB := limb_bytes_pos hw hw0
  cases st with
  | write i =>
    have hp := getD_ok hi (show i < K from hok)
    cases hf : v.failed with
    | true => simp [stepH, stepHV, obsH, obsHV, absH, hf]; exact hi
    | false =>
      refine ⟨by simp [stepH, stepHV, absH, hf], ?_, ?_⟩
      · simp [obsH, obsHV, absH, hf, raw_length, hp.1]
      · simp only [stepHV, hf]
        exact ⟨hi.hK, hi.hh, fun p hp' => by
          rcases List.mem_append.1 hp' with h | h
          · exact hi.hq p h
          · rw [List.mem_singleton.1 h]; exact hp⟩
  | read j =>
    have hj : j < K := hok
    have hp := getD_ok hi hj
    cases hf : v.failed with
    | true => simp [stepH, stepHV, obsH, obsHV, absH, hf]; exact hi
    | false =>
      cases hq : v.queue with
      | nil =>
        -- nothing left in the stream: the object keeps its contents, `failbit` is set
        have hl : j < v.hs.length := by rw [hi.hK]; exact hj
        have hd : deserialize w len (getH v.hs j) [] = (getH v.hs j, [], true) := by
          have h1 := fromBytes_toBytes (w / 8) (getH v.hs j) []
            (fun x hx => by rw [← pow_limb hw]; exact hp.2 x hx)
          rw [hp.1, List.append_nil] at h1
          have hpos : 0 < len * (w / 8) := Nat.mul_pos hlen hB
          simp only [deserialize, List.length_nil, Nat.min_zero, List.take_zero, List.drop_zero,
            List.nil_append, h1, List.drop_nil]
          simp [hpos]
        have hset : v.hs.set j (getH v.hs j) = v.hs := by
          rw [getH_eq hl]; exact List.set_getElem_self hl
        refine ⟨?_, ?_, ?_⟩
        · simp [stepH, stepHV, absH, hf, hq, hd, hset]
        · simp [obsH, obsHV, stepH, absH, hf, hq, hd, gcount]
        · simp only [stepHV, hf, hq, Bool.false_eq_true, if_false]
          exact ⟨hi.hK, hi.hh, by simp⟩
      | cons p q =>
        have hpq : PolyOk w len p := hi.hq p (by simp [hq])
        have hd : deserialize w len (getH v.hs j) (serialize w p ++ q.flatMap (serialize w))
            = (p, q.flatMap (serialize w), false) := by
          have := raw_roundtrip w hw p (getH v.hs j) (q.flatMap (serialize w)) hpq.2
          rw [hpq.1] at this; exact this
        have hg : gcount w len (serialize w p ++ q.flatMap (serialize w)) = len * (w / 8) := by
          simp only [gcount, List.length_append, raw_length, hpq.1]; omega
        refine ⟨?_, ?_, ?_⟩
        · simp [stepH, stepHV, absH, hf, hq, hd]
        · simp [obsH, obsHV, stepH, absH, hf, hq, hd, hg]
        · simp only [stepHV, hf, hq, Bool.false_eq_true, if_false]
          exact ⟨by simp [hi.hK], set_ok hi.hh j hpq, fun r hr => hi.hq r (by simp [hq, hr])⟩
  | copy d s =>
    refine ⟨by simp [stepH, stepHV, absH], by simp [obsH, obsHV], ?_⟩
    simp only [stepHV]
    exact ⟨by simp [hi.hK], set_ok hi.hh d (getD_ok hi hok.2), hi.hq⟩
  | poke d i x =>
    refine ⟨by simp [stepH, stepHV, absH], by simp [obsH, obsHV], ?_⟩
    have hp := getD_ok hi hok.1
    simp only [stepHV]
    refine ⟨by simp [hi.hK], set_ok hi.hh d ⟨by simp [hp.1], fun y hy => ?_⟩, hi.hq⟩
    rcases List.mem_or_eq_of_mem_set hy with h | h
    · exact hp.2 y h
    · exact h ▸ hok.2

/-- **handles_value_semantics** — any history of writes, reads, copies and element stores over `K` variables and
one stream, started from any contents of the variables and any polynomials already in the stream: after **every**
statement the contents of **all** variables, the bytes appended, `fail()` and `gcount()` are those of the value-level
reading of the history (variables are independent values, the stream is a FIFO of polynomials).  In particular a
read changes the receiving variable only, and makes it equal to the polynomial written first among those not yet
read, whatever the variable held or was used for before. -/
theorem handles_value_semantics (w len K : Nat) (hw : 8 ∣ w) (hw0 : 0 < w) (hlen : 0 < len) :
    ∀ (prog : List HStep) (v : VHState), HInv w len K v → (∀ st ∈ prog, StepOk K w st) →
      traceH w len prog (absH w v) = traceHV (len * (w / 8)) prog v
  | [], _, _, _ => rfl
  | st :: r, v, hi, hok => by
    obtain ⟨h1, h2, h3⟩ := step_sim w len K hw hw0 hlen v st hi (hok st (by simp))
    simp only [traceH, traceHV, h1, h2]
    rw [handles_value_semantics w len K hw hw0 hlen r _ h3 (fun s hs => hok s (by simp [hs]))]
    simp [absH]

/-- what one read does at the value level (the statement of the property for a receiving variable with a past):
the receiving variable holds the oldest unread polynomial, every other variable is unchanged -/
theorem read_value (v : VHState) (j : Nat) (p : List Nat) (q : List (List Nat)) (hf : v.failed = false)
    (hq : v.queue = p :: q) (hj : j < v.hs.length) :
    (stepHV v (.read j)).hs[j]? = some p ∧ (∀ k, k ≠ j → (stepHV v (.read j)).hs[k]? = v.hs[k]?) ∧
      (stepHV v (.read j)).queue = q := by
  simp only [stepHV, hf, hq]
  refine ⟨by simp [hj], fun k hk => ?_, by simp⟩
  simp [Ne.symm hk]

/-- a write changes no variable -/
theorem write_value (v : VHState) (i : Nat) : (stepHV v (.write i)).hs = v.hs := by
  simp only [stepHV]; split <;> rfl

/-! ### non-vacuity -/

-- three handles, two polynomials written and read back into two of them (16-bit limbs, 2 words)
example : traceH 16 2 [.write 0, .write 1, .read 2, .read 1]
      ⟨[[258, 1], [7, 65535], [9, 9]], [], false⟩ =
    [((4, 0), [[258, 1], [7, 65535], [9, 9]]), ((4, 0), [[258, 1], [7, 65535], [9, 9]]),
     ((0, 4), [[258, 1], [7, 65535], [258, 1]]), ((0, 4), [[258, 1], [7, 65535], [258, 1]])] := by decide

example : serialize 16 [258, 65535, 15361] = [2, 1, 255, 255, 1, 60] := by decide
example : deserialize 16 3 [7, 7, 7] ([2, 1, 255, 255, 1, 60] ++ [9, 9]) = ([258, 65535, 15361], [9, 9], false) := by decide
-- cut in the middle of word 1: its low byte is replaced, its high byte (of the old 0x0707) stays
example : deserialize 16 3 [1799, 1799, 1799] [2, 1, 255] = ([258, 2047, 1799], [], true) := by decide
example : deserialize 32 2 [0, 0] [] = ([0, 0], [], true) := by decide
example : printText 32 [1, 4294967295] = "{ 1UL, 4294967295UL }" := by decide
example : printText 64 [0] = "{ 0ULL }" := by decide
example : parseText 16 "{ 5U, 65535U }" = some [5, 65535] := by decide
example : parseText 16 "{ 5U, 65536U }" = none := by decide
example : parseText 16 "{ 5U, 6 }" = none := by decide

end Nfl.C16
