/-
Compose — END-TO-END COMPOSITION of the per-property theorems.

The property files C01 … C19 were developed independently, each with its own hypotheses and its own
representation of "the moduli" (C01/C02/C03/C05: a row `r ∈ l.table.rows`; C04: a list `ps` with `Crt.ModOK`,
instantiated on `P16.take m` …; C09: a list `ps` with `C09.ModOK`; C16: raw words `< 2^w`).  The theorems below
show that the pieces fit: the hypotheses of one property's theorems are discharged by the conclusions of another,
on the real (regenerated) tables, for every limb width `l`, every number of moduli `m ≤ l.table.rows.length`,
every degree `2^k` with `k ≤ l.lk`, all canonical inputs.

Glue lemmas: `Proofs/ComposeAux.lean` (`moduli l m` = the moduli of the first `m` rows = `P.take m`;
`crt_modOK`, `sampler_modOK`; slices of flat polynomials; table lengths of `core::initialize`).
-/
import NflVerif.Proofs.ComposeAux

namespace Nfl.Compose
open Nfl Nfl.C03 Nfl.Crt Nfl.NttRefine

variable (l : Limb) {k m : Nat}

/-! ## 1. C01 ∘ C04 ∘ C06 — the multi-modulus transform-based product lifts to `Z_Q[X]/(X^n+1)` -/

/-- the library's product of two `poly<T, 2^k, m>` (flat, modulus-major, `2^k·m` words): for every modulus
`cm < m`, forward transforms of the two slices, pointwise `mulmod`, inverse transform — concatenated -/
def transformProduct (l : Limb) (k m : Nat) (a b : List Nat) : List Nat :=
  (List.range m).flatMap fun cm =>
    C02.inv l (l.table.row cm) k
      (List.zipWith (mulmod l.w (l.table.row cm).p (l.table.row cm).pn)
        (C02.fwd l (l.table.row cm) k (slice (2 ^ k) a cm)) (C02.fwd l (l.table.row cm) k (slice (2 ^ k) b cm)))

/-- the same with the precomputed-quotient product `shoup(fa * fb, compute_shoup(fb))` -/
def transformProductShoup (l : Limb) (k m : Nat) (a b : List Nat) : List Nat :=
  (List.range m).flatMap fun cm =>
    C02.inv l (l.table.row cm) k
      (mulShoupList l.w (l.table.row cm).p
        (C02.fwd l (l.table.row cm) k (slice (2 ^ k) a cm)) (C02.fwd l (l.table.row cm) k (slice (2 ^ k) b cm))
        ((C02.fwd l (l.table.row cm) k (slice (2 ^ k) b cm)).map (computeShoup l.w (l.table.row cm).p)))

/-- what C01 needs about slice `cm` of a canonical flat polynomial, from `PolyCanon` (C04's hypothesis) -/
theorem slice_ok (hm : m ≤ l.table.rows.length) {a : List Nat} (ha : PolyCanon (moduli l m) (2 ^ k) a) {cm : Nat}
    (hcm : cm < m) :
    l.table.row cm ∈ l.table.rows ∧ (slice (2 ^ k) a cm).length = 2 ^ k ∧
      Canonical (l.table.row cm).p (slice (2 ^ k) a cm) := by
  have hlen := moduli_length l hm
  refine ⟨row_mem l (by omega), slice_length _ _ a (by rw [ha.1, hlen]) cm hcm, ?_⟩
  rw [← moduli_getD l hm hcm]
  exact slice_canonical ha cm (by omega)

/-- **C01 per modulus = C04's `mulPoly`**: the transform-based product is the list of the per-modulus negacyclic
products that C04's lifting theorem is about (C01.product for every row, `moduli` ↔ rows). -/
theorem transform_product_eq_mulPoly (hk : k ≤ l.lk) (hm : m ≤ l.table.rows.length) (a b : List Nat)
    (ha : PolyCanon (moduli l m) (2 ^ k) a) (hb : PolyCanon (moduli l m) (2 ^ k) b) :
    transformProduct l k m a b = mulPoly (moduli l m) (2 ^ k) a b := by
  unfold transformProduct mulPoly
  rw [moduli_length l hm]
  apply flatMap_range_congr
  intro cm hcm
  obtain ⟨hr, la, ca⟩ := slice_ok l hm ha hcm
  obtain ⟨_, lb, cb⟩ := slice_ok l hm hb hcm
  rw [moduli_getD l hm hcm]
  exact C01.product l hr hk _ _ la lb ca cb

theorem transform_product_shoup_eq_mulPoly (hk : k ≤ l.lk) (hm : m ≤ l.table.rows.length) (a b : List Nat)
    (ha : PolyCanon (moduli l m) (2 ^ k) a) (hb : PolyCanon (moduli l m) (2 ^ k) b) :
    transformProductShoup l k m a b = mulPoly (moduli l m) (2 ^ k) a b := by
  unfold transformProductShoup mulPoly
  rw [moduli_length l hm]
  apply flatMap_range_congr
  intro cm hcm
  obtain ⟨hr, la, ca⟩ := slice_ok l hm ha hcm
  obtain ⟨_, lb, cb⟩ := slice_ok l hm hb hcm
  rw [moduli_getD l hm hcm]
  exact C01.product_shoup l hr hk _ _ la lb ca cb

/-- **C01 ∘ C04 ∘ C06** — for every limb width, every `m ≤` table size, every degree `2^k ≤ kMaxPolyDegree` and all
canonical operands: `poly2mpz` (with the constants computed by the executable `gmpInit`, i.e. the extended-Euclid
`mpz_invert`) of the transform-based product is the negacyclic product over `Z_Q`, `Q = ∏ p_cm`, of the lifted
operands; the result is again a canonical polynomial.
Hypotheses discharged internally: `r ∈ rows` / slice length / `Canonical` (C01) from `PolyCanon` (C04);
`Crt.ModOK` (C04) from the row facts (C06, `modOK16/32/64`); `InvContract` from `C04.invMod_ok`. -/
theorem transform_product_lifts (hk : k ≤ l.lk) (hm : m ≤ l.table.rows.length) (a b : List Nat)
    (ha : PolyCanon (moduli l m) (2 ^ k) a) (hb : PolyCanon (moduli l m) (2 ^ k) b) :
    PolyCanon (moduli l m) (2 ^ k) (transformProduct l k m a b) ∧
    poly2mpz (gmpInit l.w (moduli l m)) (2 ^ k) (transformProduct l k m a b) =
      (Spec.negacyclicNat (moduli l m).prod
        ((poly2mpz (gmpInit l.w (moduli l m)) (2 ^ k) a).map Int.toNat)
        ((poly2mpz (gmpInit l.w (moduli l m)) (2 ^ k) b).map Int.toNat)).map Int.ofNat := by
  rw [transform_product_eq_mulPoly l hk hm a b ha hb]
  exact ⟨mulPoly_canon (crt_modOK l m) _ a b ha.1,
    C04.lift_negacyclic C04.invMod_ok (crt_modOK l m) (2 ^ k) a b ha hb⟩

/-- the variant with the precomputed-quotient product (C01.product_shoup) -/
theorem transform_product_shoup_lifts (hk : k ≤ l.lk) (hm : m ≤ l.table.rows.length) (a b : List Nat)
    (ha : PolyCanon (moduli l m) (2 ^ k) a) (hb : PolyCanon (moduli l m) (2 ^ k) b) :
    PolyCanon (moduli l m) (2 ^ k) (transformProductShoup l k m a b) ∧
    poly2mpz (gmpInit l.w (moduli l m)) (2 ^ k) (transformProductShoup l k m a b) =
      (Spec.negacyclicNat (moduli l m).prod
        ((poly2mpz (gmpInit l.w (moduli l m)) (2 ^ k) a).map Int.toNat)
        ((poly2mpz (gmpInit l.w (moduli l m)) (2 ^ k) b).map Int.toNat)).map Int.ofNat := by
  rw [transform_product_shoup_eq_mulPoly l hk hm a b ha hb]
  exact ⟨mulPoly_canon (crt_modOK l m) _ a b ha.1,
    C04.lift_negacyclic C04.invMod_ok (crt_modOK l m) (2 ^ k) a b ha hb⟩

/-- … spelled out coefficient by coefficient (adds `C01.product_is_ring_product` and `C04.poly2mpz_coeffwise`):
with `A`, `B` the lifted operands (coefficients in `[0,Q)`), coefficient `c` of the lifted transform-based product
is `(Σ_{i+j=c} A_i B_j − Σ_{i+j=c+n} A_i B_j) mod Q`. -/
theorem transform_product_coeff (hk : k ≤ l.lk) (hm : m ≤ l.table.rows.length) (a b : List Nat)
    (ha : PolyCanon (moduli l m) (2 ^ k) a) (hb : PolyCanon (moduli l m) (2 ^ k) b) (c : Nat) (hc : c < 2 ^ k) :
    let g := gmpInit l.w (moduli l m)
    let A := (poly2mpz g (2 ^ k) a).map Int.toNat
    let B := (poly2mpz g (2 ^ k) b).map Int.toNat
    (poly2mpz g (2 ^ k) (transformProduct l k m a b)).getD c 0 =
      ((∑ i ∈ Finset.range (c + 1), (A.getD i 0 : Int) * B.getD (c - i) 0) -
       (∑ i ∈ Finset.Ico (c + 1) (2 ^ k), (A.getD i 0 : Int) * B.getD (c + 2 ^ k - i) 0)) % ((moduli l m).prod : Int) := by
  intro g A B
  have hQ : 0 < (moduli l m).prod := prod_pos_of _ (crt_modOK l m).pos
  have hA : A.length = 2 ^ k := by simp [A, poly2mpz]
  have h := C01.product_is_ring_product (moduli l m).prod hQ A B c (by rw [hA]; exact hc)
  rw [hA] at h
  rw [← h, (transform_product_lifts l hk hm a b ha hb).2]
  have hlen : c < (Spec.negacyclicNat (moduli l m).prod A B).length := by
    rw [negacyclic_length, hA]; exact hc
  simp [List.getD_eq_getElem?_getD, hlen, A, B, g]

/-- Non-vacuity (16-bit limb, both moduli, degree 2): `X · X = −1` for both moduli lifts to `Q − 1`. -/
example : PolyCanon (moduli Limb.w16 2) (2 ^ 1) [0, 1, 0, 1] := by
  rw [moduli16]
  exact ⟨rfl, fun cm hcm i hi => by
    have h1 : cm = 0 ∨ cm = 1 := by simp [Gen.P16] at hcm; omega
    have h2 : i = 0 ∨ i = 1 := by omega
    rcases h1 with rfl | rfl <;> rcases h2 with rfl | rfl <;> decide⟩
example : (1 : Nat) ≤ Limb.w16.lk ∧ 2 ≤ Limb.w16.table.rows.length := by decide
example : transformProduct Limb.w16 1 2 [0, 1, 0, 1] [0, 1, 0, 1] = [15360, 0, 13312, 0] := by decide
example : poly2mpz (gmpInit 16 [15361, 13313]) 2 [15360, 0, 13312, 0] = [204500992, 0] := by decide

/-! ## 2. C05 ∘ C01 — products computed through the SSE / AVX2 transform loops -/

/-- `ntt_pow_phi` of the SSE build: the φ-twist, then `core::ntt` with `ntt_loop<sse>` — exactly `nttPowPhi`
with `nttWordSse` for `nttWord`.  `none` = the build is rejected by the compiler (degree < 8). -/
def fwdSse (l : Limb) (r : Row) (k : Nat) (a : List Nat) : Option (List Nat) :=
  Simd.nttWordSse l.w r.p k (initTables l.w l.lk r k).omegas (initTables l.w l.lk r k).shoupomegas
    (mulShoupList l.w r.p a (initTables l.w l.lk r k).phis (initTables l.w l.lk r k).shoupphis)

def fwdAvx2 (l : Limb) (r : Row) (k : Nat) (a : List Nat) : Option (List Nat) :=
  Simd.nttWordAvx2 l.w r.p k (initTables l.w l.lk r k).omegas (initTables l.w l.lk r k).shoupomegas
    (mulShoupList l.w r.p a (initTables l.w l.lk r k).phis (initTables l.w l.lk r k).shoupphis)

/-- `invntt_pow_invphi` of the SSE build (`core::inv_ntt` calls `core::ntt`, hence the vector loop, between the
two bit reversals; `k ≠ 0` in the vector builds) -/
def invSse (l : Limb) (r : Row) (k : Nat) (y : List Nat) : Option (List Nat) :=
  (Simd.nttWordSse l.w r.p k (initTables l.w l.lk r k).invomegas (initTables l.w l.lk r k).shoupinvomegas
      (permutW k y)).map fun z =>
    mulShoupList l.w r.p (permutW k z) (initTables l.w l.lk r k).invphis (initTables l.w l.lk r k).shoupinvphis

def invAvx2 (l : Limb) (r : Row) (k : Nat) (y : List Nat) : Option (List Nat) :=
  (Simd.nttWordAvx2 l.w r.p k (initTables l.w l.lk r k).invomegas (initTables l.w l.lk r k).shoupinvomegas
      (permutW k y)).map fun z =>
    mulShoupList l.w r.p (permutW k z) (initTables l.w l.lk r k).invphis (initTables l.w l.lk r k).shoupinvphis

/-- the product as a vector build computes it: vector forward transforms, pointwise `mulmod` (serial code in every
build, see C05's header), vector inverse transform -/
def productVia (fwdV invV : List Nat → Option (List Nat)) (l : Limb) (r : Row) (a b : List Nat) : Option (List Nat) :=
  (fwdV a).bind fun ya => (fwdV b).bind fun yb => invV (List.zipWith (mulmod l.w r.p r.pn) ya yb)

variable {r : Row}

/-- **C05 with the tables of `core::initialize`**: the forward transform through the SSE and through the AVX2 loop
exists and equals the serial `C02.fwd`, for EVERY input of `2^k` words.  The side conditions of `C05.ntt_backend_rows`
(table lengths `≥ 2^k − 4`, companion words `< 2^w`) are proved from `initTables`. -/
theorem simd_fwd (hl : l.w = 16 ∨ l.w = 32) (hr : r ∈ l.table.rows) (hk3 : 3 ≤ k) (a : List Nat)
    (ha : a.length = 2 ^ k) :
    fwdSse l r k a = some (C02.fwd l r k a) ∧ fwdAvx2 l r k a = some (C02.fwd l r k a) := by
  have h1 := omegas_length l.w l.lk r k
  have h2 := shoupomegas_length l.w l.lk r k
  exact C05.ntt_backend_rows l hl hr k hk3 _ _ _ (twisted_length l.w l.lk r k a ha) (by omega) (by omega)
    (shoupomegas_lt l.w l.lk r k)

/-- the same for the inverse transform, for EVERY input (of any length: the bit reversal reads `2^k` words) -/
theorem simd_inv (hl : l.w = 16 ∨ l.w = 32) (hr : r ∈ l.table.rows) (hk3 : 3 ≤ k) (y : List Nat) :
    invSse l r k y = some (C02.inv l r k y) ∧ invAvx2 l r k y = some (C02.inv l r k y) := by
  have h1 := invomegas_length l.w l.lk r k
  have h2 := shoupinvomegas_length l.w l.lk r k
  obtain ⟨e1, e2⟩ := C05.ntt_backend_rows l hl hr k hk3 (initTables l.w l.lk r k).invomegas
    (initTables l.w l.lk r k).shoupinvomegas (permutW k y) (permutW_length k y) (by omega) (by omega)
    (shoupinvomegas_lt l.w l.lk r k)
  have hk0 : k ≠ 0 := by omega
  have hinv : C02.inv l r k y = mulShoupList l.w r.p
      (permutW k (nttWord l.w r.p k (initTables l.w l.lk r k).invomegas (initTables l.w l.lk r k).shoupinvomegas
        (permutW k y))) (initTables l.w l.lk r k).invphis (initTables l.w l.lk r k).shoupinvphis := by
    show invnttPowInvphi _ _ _ _ _ = _
    unfold invnttPowInvphi invNttWord
    rw [if_neg hk0]
  unfold invSse invAvx2
  rw [e1, e2, hinv]
  exact ⟨rfl, rfl⟩

/-- **C05 ∘ C01** — 16- and 32-bit limbs, every table row, every degree `8 ≤ 2^k ≤ kMaxPolyDegree`, canonical
operands: the product computed through the SSE transforms and through the AVX2 transforms (forward and inverse)
is the negacyclic product in `Z_p[X]/(X^n+1)`. -/
theorem simd_transform_product (hl : l.w = 16 ∨ l.w = 32) (hr : r ∈ l.table.rows) (hk3 : 3 ≤ k) (hk : k ≤ l.lk)
    (a b : List Nat) (ha : a.length = 2 ^ k) (hb : b.length = 2 ^ k) (hca : Canonical r.p a) (hcb : Canonical r.p b) :
    productVia (fwdSse l r k) (invSse l r k) l r a b = some (Spec.negacyclicNat r.p a b) ∧
    productVia (fwdAvx2 l r k) (invAvx2 l r k) l r a b = some (Spec.negacyclicNat r.p a b) := by
  unfold productVia
  rw [(simd_fwd l hl hr hk3 a ha).1, (simd_fwd l hl hr hk3 b hb).1, (simd_fwd l hl hr hk3 a ha).2,
    (simd_fwd l hl hr hk3 b hb).2]
  simp only [Option.bind_some]
  rw [(simd_inv l hl hr hk3 _).1, (simd_inv l hl hr hk3 _).2, C01.product l hr hk a b ha hb hca hcb]
  exact ⟨rfl, rfl⟩

/-- Non-vacuity: the hypotheses hold for the first 16-bit row at degree 8 (`X^7 · X = −1`), and the theorem then
gives the value of the SSE pipeline. -/
example : productVia (fwdSse Limb.w16 ⟨15361, 17458, 4989, 15331⟩ 3) (invSse Limb.w16 ⟨15361, 17458, 4989, 15331⟩ 3)
    Limb.w16 ⟨15361, 17458, 4989, 15331⟩ [0, 0, 0, 0, 0, 0, 0, 1] [0, 1, 0, 0, 0, 0, 0, 0] = some [15360, 0, 0, 0, 0, 0, 0, 0] := by
  rw [(simd_transform_product Limb.w16 (Or.inl rfl) (by decide) (by decide) (by decide) _ _ rfl rfl
    (by unfold Canonical; decide) (by unfold Canonical; decide)).1]
  decide

/-! ## 3. C09 ∘ C02 — created polynomials are valid inputs of the transforms -/

/-- "`out` (a list of `m` modulus slices) is a valid input of the transforms and survives the round trip":
shape, per-slice length and canonicity for the row's modulus, `inv ∘ fwd = id` per slice and on the whole polynomial -/
def RoundTrips (l : Limb) (k m : Nat) (out : Samplers.Poly) : Prop :=
  out.length = m ∧ C02.PolyOK l k out ∧
  (∀ cm, cm < m → (out.getD cm []).length = 2 ^ k ∧ Canonical (l.table.row cm).p (out.getD cm []) ∧
    C02.inv l (l.table.row cm) k (C02.fwd l (l.table.row cm) k (out.getD cm [])) = out.getD cm []) ∧
  C02.polyInv l k (C02.polyFwd l k out) = out

/-- **conclusions of C09 ⇒ hypotheses of C02**: a polynomial of the right shape whose words satisfy C09's
`word out cm i < ps[cm]` for `ps = moduli l m` round-trips through the transforms. -/
theorem created_roundtrip (hk : k ≤ l.lk) (hm : m ≤ l.table.rows.length) (out : Samplers.Poly)
    (hlen : out.length = m) (hs : ∀ cm, cm < m → (out.getD cm []).length = 2 ^ k)
    (hw : ∀ cm i (hcm : cm < (moduli l m).length), i < 2 ^ k → Samplers.word out cm i < (moduli l m)[cm]) :
    RoundTrips l k m out := by
  have hml := moduli_length l hm
  have hcan : ∀ cm, cm < m → Canonical (l.table.row cm).p (out.getD cm []) := fun cm hcm => by
    apply slice_canonical_of_word (hs cm hcm)
    intro i hi
    have := hw cm i (by omega) hi
    rwa [moduli_getElem l hm hcm] at this
  have hok : C02.PolyOK l k out := by
    refine ⟨by omega, ?_⟩
    intro cm h h'
    have e : out.getD cm [] = out[cm] := List.getD_eq_getElem _ _ h
    rw [← e, ← row_eq_getElem l h']
    exact ⟨hs cm (by omega), hcan cm (by omega)⟩
  refine ⟨hlen, hok, ?_, C02.poly_inv_fwd l hk out hok⟩
  intro cm hcm
  exact ⟨hs cm hcm, hcan cm hcm,
    C02.inv_fwd l (row_mem l (by omega)) hk _ (hs cm hcm) (hcan cm hcm)⟩

/-- **C09 ∘ C02, ternary sampler** (`ZO_dist`): for every tape and every `rho`, the polynomial `set(ZO_dist)` creates
for the first `m` moduli of the table is a valid transform input and `inv (fwd ·)` returns it.
(`C09.ModOK` is discharged by `sampler_modOK`, i.e. by the row facts of C06/C03.) -/
theorem sampled_roundtrip (hk : k ≤ l.lk) (hm : m ≤ l.table.rows.length) (rho : Nat) (tape : Samplers.Tape) :
    RoundTrips l k m (Samplers.setZO l.w (2 ^ k) (moduli l m) rho tape) := by
  refine created_roundtrip l hk hm _ ?_ ?_ ?_
  · unfold Samplers.setZO; rw [mkPoly_length, moduli_length l hm]
  · intro cm hcm; unfold Samplers.setZO
    exact mkPoly_slice_length _ _ _ cm (by rw [moduli_length l hm]; exact hcm)
  · intro cm i hcm hi; exact C09.zo_canonical (sampler_modOK l m) _ rho tape cm i hcm hi

/-- uniform sampler -/
theorem sampled_roundtrip_uniform (hk : k ≤ l.lk) (hm : m ≤ l.table.rows.length) (tape : Samplers.Tape) :
    RoundTrips l k m (Samplers.setUniform l.w (2 ^ k) (moduli l m) tape) := by
  refine created_roundtrip l hk hm _ ?_ ?_ ?_
  · unfold Samplers.setUniform; rw [mkPoly_length, moduli_length l hm]
  · intro cm hcm; unfold Samplers.setUniform
    exact mkPoly_slice_length _ _ _ cm (by rw [moduli_length l hm]; exact hcm)
  · intro cm i hcm hi; exact C09.uniform_canonical (sampler_modOK l m) _ tape cm i hcm hi

/-- bounded sampler (`non_uniform(B, A)`) under its admissibility condition `C09.BoundedOK` -/
theorem sampled_roundtrip_bounded (hk : k ≤ l.lk) (hm : m ≤ l.table.rows.length) {B A : Nat}
    (hb : C09.BoundedOK (moduli l m) B A) (tape : Samplers.Tape) :
    ∃ out, Samplers.setBounded l.w (2 ^ k) (moduli l m) B A tape = some out ∧ RoundTrips l k m out := by
  obtain ⟨out, ho, hc⟩ := C09.bounded_canonical (sampler_modOK l m) hb (2 ^ k) tape
  refine ⟨out, ho, ?_⟩
  have hshape : out = Samplers.mkPoly (2 ^ k) (moduli l m)
      (fun _ p i => Samplers.bndCoef l.w B A p (Samplers.wordAt (l.w / 8) (tape.headD []) i)) := by
    unfold Samplers.setBounded at ho
    split at ho
    · simp at ho
    · exact (Option.some.inj ho).symm
  refine created_roundtrip l hk hm _ ?_ ?_ ?_
  · rw [hshape, mkPoly_length, moduli_length l hm]
  · intro cm hcm; rw [hshape]
    exact mkPoly_slice_length _ _ _ cm (by rw [moduli_length l hm]; exact hcm)
  · intro cm i hcm hi; exact hc cm i hcm hi

/-- Gaussian sampler under `C09.GaussOK` -/
theorem sampled_roundtrip_gaussian (hk : k ≤ l.lk) (hm : m ≤ l.table.rows.length) {amp : Nat} {noise : List Int}
    (hg : C09.GaussOK (moduli l m) amp noise) :
    RoundTrips l k m (Samplers.setGaussian l.w (2 ^ k) (moduli l m) amp noise) := by
  refine created_roundtrip l hk hm _ ?_ ?_ ?_
  · unfold Samplers.setGaussian; rw [mkPoly_length, moduli_length l hm]
  · intro cm hcm; unfold Samplers.setGaussian
    exact mkPoly_slice_length _ _ _ cm (by rw [moduli_length l hm]; exact hcm)
  · intro cm i hcm hi; exact C09.gaussian_canonical (sampler_modOK l m) hg _ cm i hcm hi

/-- fixed-weight sampler (`hwt_dist(h)`), whenever the model answers (i.e. `0 < h ≤ n`, tape long enough) -/
theorem sampled_roundtrip_hwt (hk : k ≤ l.lk) (hm : m ≤ l.table.rows.length) {h : Nat} {tape : Samplers.Tape}
    {out : Samplers.Poly} (ho : Samplers.setHwt l.w (2 ^ k) (moduli l m) h tape = some out) :
    RoundTrips l k m out := by
  obtain ⟨_, _, sorted, rest, _, hshape⟩ := Samplers.setHwt_spec ho
  refine created_roundtrip l hk hm _ ?_ ?_ ?_
  · rw [hshape, List.length_map, moduli_length l hm]
  · intro cm hcm
    have hcm' : cm < (moduli l m).length := by rw [moduli_length l hm]; exact hcm
    rw [hshape]
    simp [List.getD_eq_getElem?_getD, hcm', hwtWrite_length]
  · intro cm i hcm _; exact C09.hwt_canonical (sampler_modOK l m) ho cm i hcm

/-- creator from values with reduction (`set(first, last, true)`, hence also `set(v, true)`) -/
theorem created_roundtrip_values (hk : k ≤ l.lk) (hm : m ≤ l.table.rows.length) {vals : List Nat}
    {out : Samplers.Poly} (ho : Samplers.setValues (2 ^ k) (moduli l m) vals true = some out) :
    RoundTrips l k m out := by
  have hshape := Samplers.setValues_some ho
  refine created_roundtrip l hk hm _ ?_ ?_ ?_
  · rw [hshape, mkPoly_length, moduli_length l hm]
  · intro cm hcm; rw [hshape]
    exact mkPoly_slice_length _ _ _ cm (by rw [moduli_length l hm]; exact hcm)
  · intro cm i hcm hi
    exact C09.values_canonical (fun p hp => (crt_modOK l m).pos p hp) ho cm i hcm hi

/-- **C09 ⇒ hypothesis of C04 (and of §1, §4, §5)**: the flat, modulus-major word array of a created polynomial
(`_data` = the concatenation of the slices) is `PolyCanon`, so created polynomials are legal operands of
`transformProduct`, `poly2mpz`, `polyFwdFlat` … -/
theorem created_polyCanon (hm : m ≤ l.table.rows.length) {out : Samplers.Poly} (h : RoundTrips l k m out) :
    PolyCanon (moduli l m) (2 ^ k) out.flatten := by
  obtain ⟨hlen, _, hs, _⟩ := h
  have hml := moduli_length l hm
  have e : out = (List.range m).map fun cm => out.getD cm [] := by
    apply List.ext_getElem (by simp [hlen])
    intro i h1 h2
    simp [List.getD_eq_getElem?_getD, h1]
  have hc := polyCanon_flatMap (ps := moduli l m) (n := 2 ^ k) (fun cm => out.getD cm []) (fun cm hcm => by
    rw [hml] at hcm
    rw [moduli_getD l hm hcm]; exact ⟨(hs cm hcm).1, (hs cm hcm).2.1⟩)
  rw [hml, List.flatMap_def, ← e] at hc
  exact hc

/-- Non-vacuity: a ternary draw for both 16-bit moduli at degree 4 (bytes 3, 1, 200, 2 with `rho = 127`:
`+1, −1, 0, +1`), and an admissible bounded sampler. -/
example : Samplers.setZO 16 (2 ^ 2) (moduli Limb.w16 2) 127 [[3, 1, 200, 2]] = [[1, 15360, 0, 1], [1, 13312, 0, 1]] := by
  decide
example : (2 : Nat) ≤ Limb.w16.lk ∧ 2 ≤ Limb.w16.table.rows.length ∧ C09.BoundedOK (moduli Limb.w16 2) 100 3 := by
  decide
example : C02.inv Limb.w16 (Limb.w16.table.row 1) 2 (C02.fwd Limb.w16 (Limb.w16.table.row 1) 2 [1, 13312, 0, 1])
    = [1, 13312, 0, 1] := by decide

/-! ## 4. C02 ∘ C16 (and C05) — evaluation-form polynomials survive the raw format -/

/-- **C02 ∘ C16, one modulus slice**: the forward transform of a canonical slice consists of `2^k` words `< p < 2^w`
(C02.fwd_canonical, C03.four_p_le), hence `deserialize (serialize (fwd a))` returns it — consuming exactly its bytes,
stream good, whatever the object held and whatever follows — and the inverse transform of what was read is `a`. -/
theorem serialized_evaluation_form (hr : r ∈ l.table.rows) (hk : k ≤ l.lk) (a : List Nat) (ha : a.length = 2 ^ k)
    (hc : Canonical r.p a) (old rest : List Nat) :
    Serial.deserialize l.w (2 ^ k) old (Serial.serialize l.w (C02.fwd l r k a) ++ rest) = (C02.fwd l r k a, rest, false) ∧
    C02.inv l r k (Serial.deserialize l.w (2 ^ k) old (Serial.serialize l.w (C02.fwd l r k a) ++ rest)).1 = a := by
  obtain ⟨fc, fl⟩ := C02.fwd_canonical l hr hk a ha hc
  have hpw := p_lt_word l hr
  have h := C16.raw_roundtrip l.w (limb_dvd l) (C02.fwd l r k a) old rest (fun x hx => by have := fc x hx; omega)
  rw [fl] at h
  exact ⟨h, by rw [h]; exact C02.inv_fwd l hr hk a ha hc⟩

/-- Non-vacuity: the hypotheses are those of C02's example (first 16-bit row, degree 8). -/
example : (⟨15361, 17458, 4989, 15331⟩ : Row) ∈ Limb.w16.table.rows ∧ 3 ≤ Limb.w16.lk ∧
    [1, 2, 3, 4, 5, 6, 7, 15360].length = 2 ^ 3 ∧ Canonical 15361 [1, 2, 3, 4, 5, 6, 7, 15360] :=
  ⟨by decide, by decide, by decide, by unfold Canonical; decide⟩

/-- **data interchange between builds** (C05 ∘ C02 ∘ C16): what an SSE or AVX2 build writes for the evaluation form
of `a` is read back, by any build, as the serial build's `fwd a`. -/
theorem serialized_interchange (hl : l.w = 16 ∨ l.w = 32) (hr : r ∈ l.table.rows) (hk3 : 3 ≤ k) (hk : k ≤ l.lk)
    (a : List Nat) (ha : a.length = 2 ^ k) (hc : Canonical r.p a) (old rest y : List Nat)
    (hy : fwdSse l r k a = some y ∨ fwdAvx2 l r k a = some y) :
    Serial.deserialize l.w (2 ^ k) old (Serial.serialize l.w y ++ rest) = (C02.fwd l r k a, rest, false) := by
  have e : y = C02.fwd l r k a := by
    rcases hy with hy | hy
    · rw [(simd_fwd l hl hr hk3 a ha).1] at hy; exact (Option.some.inj hy).symm
    · rw [(simd_fwd l hl hr hk3 a ha).2] at hy; exact (Option.some.inj hy).symm
  rw [e]
  exact (serialized_evaluation_form l hr hk a ha hc old rest).1

/-- evaluation form of a whole flat polynomial (`2^k·m` words, modulus-major) and back -/
def polyFwdFlat (l : Limb) (k m : Nat) (a : List Nat) : List Nat :=
  (List.range m).flatMap fun cm => C02.fwd l (l.table.row cm) k (slice (2 ^ k) a cm)
def polyInvFlat (l : Limb) (k m : Nat) (y : List Nat) : List Nat :=
  (List.range m).flatMap fun cm => C02.inv l (l.table.row cm) k (slice (2 ^ k) y cm)

/-- **C02 ∘ C16, whole polynomial, any number of moduli**: the evaluation form of a canonical polynomial is
canonical (so it is *also* a legal `poly2mpz`/coefficient-form operand: C04's `PolyCanon`), survives
`serialize`/`deserialize` word for word, and the inverse transforms of what was read give back the polynomial. -/
theorem serialized_evaluation_form_poly (hk : k ≤ l.lk) (hm : m ≤ l.table.rows.length) (a : List Nat)
    (ha : PolyCanon (moduli l m) (2 ^ k) a) (old rest : List Nat) :
    PolyCanon (moduli l m) (2 ^ k) (polyFwdFlat l k m a) ∧
    Serial.deserialize l.w (2 ^ k * m) old (Serial.serialize l.w (polyFwdFlat l k m a) ++ rest)
      = (polyFwdFlat l k m a, rest, false) ∧
    polyInvFlat l k m
      (Serial.deserialize l.w (2 ^ k * m) old (Serial.serialize l.w (polyFwdFlat l k m a) ++ rest)).1 = a := by
  have hml := moduli_length l hm
  have hF : ∀ cm, cm < m → (C02.fwd l (l.table.row cm) k (slice (2 ^ k) a cm)).length = 2 ^ k ∧
      Canonical (l.table.row cm).p (C02.fwd l (l.table.row cm) k (slice (2 ^ k) a cm)) := fun cm hcm => by
    obtain ⟨hr, la, ca⟩ := slice_ok l hm ha hcm
    exact ⟨(C02.fwd_canonical l hr hk _ la ca).2, (C02.fwd_canonical l hr hk _ la ca).1⟩
  have hcanon : PolyCanon (moduli l m) (2 ^ k) (polyFwdFlat l k m a) := by
    have := polyCanon_flatMap (ps := moduli l m) (n := 2 ^ k)
      (fun cm => C02.fwd l (l.table.row cm) k (slice (2 ^ k) a cm))
      (fun cm hcm => by
        rw [hml] at hcm
        rw [moduli_getD l hm hcm]; exact hF cm hcm)
    rw [hml] at this
    exact this
  have hwords : ∀ x ∈ polyFwdFlat l k m a, x < 2 ^ l.w := by
    intro x hx
    unfold polyFwdFlat at hx
    obtain ⟨cm, hcm, hx⟩ := List.mem_flatMap.1 hx
    have hcm := List.mem_range.1 hcm
    have := (hF cm hcm).2 x hx
    have := p_lt_word l (row_mem l (show cm < l.table.rows.length by omega))
    omega
  have hrt := C16.raw_roundtrip l.w (limb_dvd l) (polyFwdFlat l k m a) old rest hwords
  rw [hcanon.1, hml] at hrt
  refine ⟨hcanon, hrt, ?_⟩
  rw [hrt]
  show polyInvFlat l k m (polyFwdFlat l k m a) = a
  unfold polyInvFlat
  have : ∀ cm, cm < m →
      C02.inv l (l.table.row cm) k (slice (2 ^ k) (polyFwdFlat l k m a) cm) = slice (2 ^ k) a cm := by
    intro cm hcm
    obtain ⟨hr, la, ca⟩ := slice_ok l hm ha hcm
    unfold polyFwdFlat
    rw [slice_flatMap (2 ^ k) m _ (fun cm hcm => (hF cm hcm).1) cm hcm]
    exact C02.inv_fwd l hr hk _ la ca
  rw [flatMap_range_congr m _ _ this]
  exact flatMap_slice (2 ^ k) (Nat.two_pow_pos k) m a (by rw [ha.1, hml])

/-- Non-vacuity: degree 4, both 16-bit moduli — the evaluation form, its 16 bytes, and the read-back. -/
example : PolyCanon (moduli Limb.w16 2) (2 ^ 2) [1, 15360, 0, 1, 1, 13312, 0, 1] := by
  rw [moduli16]
  exact ⟨rfl, fun cm hcm i hi => by
    have h1 : cm = 0 ∨ cm = 1 := by simp [Gen.P16] at hcm; omega
    have h2 : i = 0 ∨ i = 1 ∨ i = 2 ∨ i = 3 := by omega
    rcases h1 with rfl | rfl <;> rcases h2 with rfl | rfl | rfl | rfl <;> decide⟩
example : (Serial.deserialize 16 (2 ^ 2 * 2) [0, 0, 0, 0, 0, 0, 0, 0]
    (Serial.serialize 16 (polyFwdFlat Limb.w16 2 2 [1, 15360, 0, 1, 1, 13312, 0, 1]) ++ [7])).2 = ([7], false) := by
  decide

/-! ## 5. C01.circuit ∘ C04 — a small circuit, `a·b + c`, evaluated in evaluation form and lifted -/

/-- the circuit `x0 · x1 + x2` -/
def circuitMulAdd : Circuit := .add (.mul (.var 0) (.var 1)) (.var 2)

/-- slices `cm` of the three operands as a circuit environment -/
def envOf (n : Nat) (a b c : List Nat) (cm : Nat) : Nat → List Nat
  | 0 => slice n a cm
  | 1 => slice n b cm
  | _ => slice n c cm

/-- `a*b + c` as the library evaluates it on `poly<T, 2^k, m>`: per modulus, all operands in evaluation form, the
circuit pointwise (`mulmod`, `addmod`), one inverse transform -/
def mulAddEval (l : Limb) (k m : Nat) (a b c : List Nat) : List Nat :=
  (List.range m).flatMap fun cm =>
    C02.inv l (l.table.row cm) k
      (evalPointwise l.w (l.table.row cm).p (l.table.row cm).pn circuitMulAdd
        (fun i => C02.fwd l (l.table.row cm) k (envOf (2 ^ k) a b c cm i)))

/-- **C01.circuit ∘ C03 ∘ C04 (lift_add, lift_negacyclic)**: `poly2mpz` of `a·b + c` computed in evaluation form is,
coefficient by coefficient, `((A ⊛ B)_i + C_i) mod Q` where `A, B, C` are the lifted operands, `⊛` the negacyclic
product over `Z_Q` and `Q = ∏ p_cm` — i.e. `(A·B + C) mod (X^n + 1, Q)`. -/
theorem lift_of_sum_of_products (hk : k ≤ l.lk) (hm : m ≤ l.table.rows.length) (a b c : List Nat)
    (ha : PolyCanon (moduli l m) (2 ^ k) a) (hb : PolyCanon (moduli l m) (2 ^ k) b)
    (hc : PolyCanon (moduli l m) (2 ^ k) c) (i : Nat) (hi : i < 2 ^ k) :
    let g := gmpInit l.w (moduli l m)
    (poly2mpz g (2 ^ k) (mulAddEval l k m a b c)).getD i 0 =
      (((Spec.negacyclicNat (moduli l m).prod ((poly2mpz g (2 ^ k) a).map Int.toNat)
          ((poly2mpz g (2 ^ k) b).map Int.toNat)).getD i 0 : Nat) + (poly2mpz g (2 ^ k) c).getD i 0)
        % ((moduli l m).prod : Int) := by
  intro g
  have hml := moduli_length l hm
  have hok := crt_modOK l m
  -- per modulus: the circuit in evaluation form is the circuit in the ring (C01.circuit)
  have hper : ∀ cm, cm < m →
      C02.inv l (l.table.row cm) k (evalPointwise l.w (l.table.row cm).p (l.table.row cm).pn circuitMulAdd
        (fun i => C02.fwd l (l.table.row cm) k (envOf (2 ^ k) a b c cm i))) =
      List.zipWith (addmod l.w (l.table.row cm).p)
        (Spec.negacyclicNat (l.table.row cm).p (slice (2 ^ k) a cm) (slice (2 ^ k) b cm)) (slice (2 ^ k) c cm) := by
    intro cm hcm
    obtain ⟨hr, la, ca⟩ := slice_ok l hm ha hcm
    obtain ⟨_, lb, cb⟩ := slice_ok l hm hb hcm
    obtain ⟨_, lc, cc⟩ := slice_ok l hm hc hcm
    have henv : ∀ j, (envOf (2 ^ k) a b c cm j).length = 2 ^ k ∧
        Canonical (l.table.row cm).p (envOf (2 ^ k) a b c cm j) := by
      intro j
      match j with
      | 0 => exact ⟨la, ca⟩
      | 1 => exact ⟨lb, cb⟩
      | _ + 2 => exact ⟨lc, cc⟩
    rw [C01.circuit l hr hk circuitMulAdd _ henv]
    rfl
  -- the product part and its canonicity
  have hX := mulPoly_canon hok (2 ^ k) a b ha.1
  -- residues of coefficient `i` of the result = residue-wise sum (C03.add_exact)
  have hres : residuesAt (2 ^ k) m (mulAddEval l k m a b c) i =
      addRes (moduli l m) (residuesAt (2 ^ k) m (mulPoly (moduli l m) (2 ^ k) a b) i) (residuesAt (2 ^ k) m c i) := by
    unfold addRes
    rw [zip3With_eq_map _ m _ _ _ hml (residuesAt_length ..) (residuesAt_length ..)]
    unfold residuesAt
    apply List.map_congr_left
    intro cm hcm
    have hcm := List.mem_range.1 hcm
    have hcm' : cm < (moduli l m).length := by omega
    obtain ⟨hr, la, ca⟩ := slice_ok l hm ha hcm
    obtain ⟨_, lc, cc⟩ := slice_ok l hm hc hcm
    have e3 : (List.map (fun cm => c.getD (cm * 2 ^ k + i) 0) (List.range m)).getD cm 0 = c.getD (cm * 2 ^ k + i) 0 := by
      simp [List.getD_eq_getElem?_getD, hcm]
    have e2 : (List.map (fun cm => (mulPoly (moduli l m) (2 ^ k) a b).getD (cm * 2 ^ k + i) 0) (List.range m)).getD cm 0
        = (mulPoly (moduli l m) (2 ^ k) a b).getD (cm * 2 ^ k + i) 0 := by
      simp [List.getD_eq_getElem?_getD, hcm]
    rw [e2, e3, moduli_getD l hm hcm]
    have hxlt : (mulPoly (moduli l m) (2 ^ k) a b).getD (cm * 2 ^ k + i) 0 < (l.table.row cm).p := by
      have := hX.2 cm hcm' i hi
      rwa [moduli_getD l hm hcm] at this
    have hclt : c.getD (cm * 2 ^ k + i) 0 < (l.table.row cm).p := by
      have := hc.2 cm hcm' i hi
      rwa [moduli_getD l hm hcm] at this
    rw [← (C03.add_exact l hr hxlt hclt).1]
    -- the word of the result
    unfold mulAddEval
    have hlenF : ∀ x ∈ List.range m,
        (C02.inv l (l.table.row x) k (evalPointwise l.w (l.table.row x).p (l.table.row x).pn circuitMulAdd
          (fun i => C02.fwd l (l.table.row x) k (envOf (2 ^ k) a b c x i)))).length = 2 ^ k := by
      intro x hx
      have hx := List.mem_range.1 hx
      obtain ⟨_, la', _⟩ := slice_ok l hm ha hx
      obtain ⟨_, lc', _⟩ := slice_ok l hm hc hx
      rw [hper x hx, List.length_zipWith, negacyclic_length, la', lc']; simp
    rw [getD_flatMap_chunks _ (2 ^ k) 0 (List.range m) hlenF cm i (by simpa using hcm) hi]
    simp only [List.getElem_range]
    rw [hper cm hcm, mulPoly_getD (2 ^ k) a b ha.1 cm i hcm' hi, moduli_getElem l hm hcm hcm',
      ← slice_getD (2 ^ k) c cm i hi]
    have hi1 : i < (Spec.negacyclicNat (l.table.row cm).p (slice (2 ^ k) a cm) (slice (2 ^ k) b cm)).length := by
      rw [negacyclic_length, la]; exact hi
    have hi2 : i < (slice (2 ^ k) c cm).length := by rw [lc]; exact hi
    simp [List.getD_eq_getElem?_getD, hi1, hi2]
  have hgps : g.ps.length = m := hml
  rw [poly2mpz_getD g _ _ i hi, poly2mpz_getD g _ _ i hi, hgps, hres]
  have hadd := C04.lift_add C04.invMod_ok hok _ _ (hX.residues i hi) (hc.residues i hi)
  rw [hml] at hadd
  show poly2mpzCoeff (gmpInitWith invMod l.w (moduli l m)) _ = _
  rw [hadd]
  -- the product coefficient (part 1)
  have hprod := C04.lift_negacyclic C04.invMod_ok hok (2 ^ k) a b ha hb
  have hpi := poly2mpz_getD (gmpInitWith invMod l.w (moduli l m)) (2 ^ k) (mulPoly (moduli l m) (2 ^ k) a b) i hi
  rw [hprod] at hpi
  have hgl : (gmpInitWith invMod l.w (moduli l m)).ps.length = m := hml
  rw [hgl] at hpi
  rw [← hpi]
  have hlen : i < (Spec.negacyclicNat (moduli l m).prod
      ((poly2mpz (gmpInitWith invMod l.w (moduli l m)) (2 ^ k) a).map Int.toNat)
      ((poly2mpz (gmpInitWith invMod l.w (moduli l m)) (2 ^ k) b).map Int.toNat)).length := by
    rw [negacyclic_length]; simp [poly2mpz]; exact hi
  simp [List.getD_eq_getElem?_getD, hlen, g, gmpInit]

/-- Non-vacuity: degree 2, both 16-bit moduli: `X·X + 1 = 0`. -/
example : mulAddEval Limb.w16 1 2 [0, 1, 0, 1] [0, 1, 0, 1] [1, 0, 1, 0] = [0, 0, 0, 0] := by decide

end Nfl.Compose
