/-
C15 (big-integer part) on code obtained from the source text.

`Generated/SetMpzAst.lean` is produced on every run by `tools/gen_setmpz_ast.py` from clang's typed AST of `include/nfl/gmp.hpp`:
  `set_mpz_it_uW`     `poly<T,Degree,NbModuli>::set_mpz<It>(It first, It last)` — the WHOLE body (size test + throw, loop over the moduli,
                      iterator rewind, copy loop with `mpz_fdiv_ui`, zero-padding loop), It = `mpz_class const*` and
                      `std::vector<mpz_class>::iterator` (same text), iterators = (base list `vals`, index)
  `set_mpz_il/arr/class/t_uW`, `ctor_mpz_t/class/il/arr_uW`   the overloads and constructors of gmp.hpp that forward to it.
This file states, for T = uint16_t / uint32_t / uint64_t (`w` = 16 / 32 / 64):
  (1) `set_mpz_it_uW_eq`: for ALL `n`, `m`, `P`, old contents `data`, sequences `vals` and ranges `first ≤ last ≤ vals.length` the generated
      function is `(Setters.setMpz w n m P (the range) data).toOption` — the hand model the C15 theorems are about; `none` = thrown.
      Hypotheses: `last - first < 2^64`, `n < 2^64`, `n*m < 2^64` (size_t values), `m ≤ P.length`, `n*m ≤ data.length` (the object has its words),
      and on the moduli: 16/32 bit `p < 2^64`; 64 bit `0 < p ≤ 2^64` (the model reduces the stored remainder mod 2^w, the 64-bit code does not
      convert it: they agree iff the remainder fits — `p = 0` is a GMP division by zero).  Necessity: `Proofs/SetMpzAstEq.lean` and the examples below.
  (2) the forwarding members: initializer_list / array / single `mpz_class` / single `mpz_t` / the four constructors (= the model's
      `setMpz` of the whole list / `setMpz1`).
  (3) C15's statements (throw rule, short lists, full lists, single value, canonical range) for the GENERATED functions.
NOT covered: `poly::operator=(…)` (`{ set_mpz(v); return *this; }`, poly.hpp), poly_p's wrappers (C14), the alignment assert (an address).
-/
import NflVerif.Proofs.SetMpzAstEq
import NflVerif.Properties.C15

namespace Nfl.C15MpzAst
open Nfl Nfl.Gen Nfl.Setters Nfl.SetMpzAstEq

/-! ### (1) the iterator form -/

theorem set_mpz_it_u64_eq (n m : Nat) (P data : List Nat) (vals : List Int) (first last : Nat)
    (hfl : first ≤ last) (hlv : last ≤ vals.length) (hsz : last - first < 2 ^ 64) (hn : n < 2 ^ 64) (hmn : n * m < 2 ^ 64)
    (hP : m ≤ P.length) (hd : n * m ≤ data.length) (hp : ∀ cm, cm < m → 0 < P.getD cm 0 ∧ P.getD cm 0 ≤ 2 ^ 64) :
    set_mpz_it_u64 m n P data vals first last = (setMpz 64 n m P (srcOf vals first last) data).toOption := by
  rw [set_mpz_it_u64_nf, show CSem.castSU 64 0 = 0 by decide]
  exact setMpzItNF_eq id id 64 m n P data vals first last hfl hlv hsz hn hmn hP hd (fun cm h => storeOK_u64 _ (hp cm h).1 (hp cm h).2)

theorem set_mpz_it_u32_eq (n m : Nat) (P data : List Nat) (vals : List Int) (first last : Nat)
    (hfl : first ≤ last) (hlv : last ≤ vals.length) (hsz : last - first < 2 ^ 64) (hn : n < 2 ^ 64) (hmn : n * m < 2 ^ 64)
    (hP : m ≤ P.length) (hd : n * m ≤ data.length) (hp : ∀ cm, cm < m → P.getD cm 0 < 2 ^ 64) :
    set_mpz_it_u32 m n P data vals first last = (setMpz 32 n m P (srcOf vals first last) data).toOption := by
  rw [set_mpz_it_u32_nf, show CSem.castSU 32 0 = 0 by decide]
  exact setMpzItNF_eq _ _ 32 m n P data vals first last hfl hlv hsz hn hmn hP hd (fun cm h => storeOK_small 32 _ (hp cm h))

theorem set_mpz_it_u16_eq (n m : Nat) (P data : List Nat) (vals : List Int) (first last : Nat)
    (hfl : first ≤ last) (hlv : last ≤ vals.length) (hsz : last - first < 2 ^ 64) (hn : n < 2 ^ 64) (hmn : n * m < 2 ^ 64)
    (hP : m ≤ P.length) (hd : n * m ≤ data.length) (hp : ∀ cm, cm < m → P.getD cm 0 < 2 ^ 64) :
    set_mpz_it_u16 m n P data vals first last = (setMpz 16 n m P (srcOf vals first last) data).toOption := by
  rw [set_mpz_it_u16_nf, show CSem.castSU 16 0 = 0 by decide]
  exact setMpzItNF_eq _ _ 16 m n P data vals first last hfl hlv hsz hn hmn hP hd (fun cm h => storeOK_small 16 _ (hp cm h))

/-- the hypotheses on sizes and moduli that the three equalities share, from C15's `ModuliOK` (`0 < p < 2^w`, `w ≤ 64`) -/
structure Fits (w n m : Nat) (P data : List Nat) : Prop where
  hw : w ≤ 64
  hn : n < 2 ^ 64
  hmn : n * m < 2 ^ 64
  hP : C15.ModuliOK w m P
  hd : n * m ≤ data.length

theorem Fits.p64 {w n m : Nat} {P data : List Nat} (h : Fits w n m P data) (cm : Nat) (hcm : cm < m) :
    0 < P.getD cm 0 ∧ P.getD cm 0 < 2 ^ 64 := by
  have := h.hP.2 cm hcm
  have : 2 ^ w ≤ 2 ^ 64 := Nat.pow_le_pow_right (by decide) h.hw
  omega

theorem srcOf_all (vals : List Int) : srcOf vals 0 vals.length = vals := by simp [srcOf]

/-! ### (2) the forwarding members (64 bit written out; 16 / 32 bit: the same proofs with `set_mpz_it_u16_eq` / `_u32_eq`) -/

theorem set_mpz_il_u64_eq (n m : Nat) (P data : List Nat) (values : List Int) (hf : Fits 64 n m P data) (hl : values.length < 2 ^ 64) :
    set_mpz_il_u64 m n P data values = (setMpz 64 n m P values data).toOption := by
  unfold set_mpz_il_u64 CSemIter.seqBegin CSemIter.ilEnd
  rw [set_mpz_it_u64_eq n m P data values 0 values.length (Nat.zero_le _) (Nat.le_refl _) (by simpa using hl) hf.hn hf.hmn hf.hP.1 hf.hd
    (fun cm h => ⟨(hf.p64 cm h).1, Nat.le_of_lt (hf.p64 cm h).2⟩), srcOf_all]

theorem set_mpz_il_u32_eq (n m : Nat) (P data : List Nat) (values : List Int) (hf : Fits 32 n m P data) (hl : values.length < 2 ^ 64) :
    set_mpz_il_u32 m n P data values = (setMpz 32 n m P values data).toOption := by
  unfold set_mpz_il_u32 CSemIter.seqBegin CSemIter.ilEnd
  rw [set_mpz_it_u32_eq n m P data values 0 values.length (Nat.zero_le _) (Nat.le_refl _) (by simpa using hl) hf.hn hf.hmn hf.hP.1 hf.hd
    (fun cm h => (hf.p64 cm h).2), srcOf_all]

theorem set_mpz_il_u16_eq (n m : Nat) (P data : List Nat) (values : List Int) (hf : Fits 16 n m P data) (hl : values.length < 2 ^ 64) :
    set_mpz_il_u16 m n P data values = (setMpz 16 n m P values data).toOption := by
  unfold set_mpz_il_u16 CSemIter.seqBegin CSemIter.ilEnd
  rw [set_mpz_it_u16_eq n m P data values 0 values.length (Nat.zero_le _) (Nat.le_refl _) (by simpa using hl) hf.hn hf.hmn hf.hP.1 hf.hd
    (fun cm h => (hf.p64 cm h).2), srcOf_all]

/-- `set_mpz(std::array<mpz_class,Degree> const&)`: the array has exactly `degree` elements -/
theorem set_mpz_arr_u64_eq (n m : Nat) (P data : List Nat) (values : List Int) (hf : Fits 64 n m P data) (hl : values.length = n) :
    set_mpz_arr_u64 m n P data values = (setMpz 64 n m P values data).toOption := by
  unfold set_mpz_arr_u64 CSemIter.seqBegin CSemIter.arrEnd
  rw [set_mpz_it_u64_eq n m P data values 0 n (Nat.zero_le _) (by omega) (by have := hf.hn; omega) hf.hn hf.hmn hf.hP.1 hf.hd
    (fun cm h => ⟨(hf.p64 cm h).1, Nat.le_of_lt (hf.p64 cm h).2⟩), ← hl, srcOf_all]

/-- `set_mpz(mpz_class const&)`, `set_mpz(mpz_t const&)` and the constructors from one big integer: the model's `setMpz1` -/
theorem set_mpz_class_u64_eq (n m : Nat) (P data : List Nat) (v : Int) (hf : Fits 64 n m P data) :
    set_mpz_class_u64 m n P data v = (setMpz1 64 n m P v data).toOption := by
  unfold set_mpz_class_u64 CSemIter.mpzClassOf setMpz1
  exact set_mpz_il_u64_eq n m P data [v] hf (by simp)

theorem set_mpz_t_u64_eq (n m : Nat) (P data : List Nat) (v : Int) (hf : Fits 64 n m P data) :
    set_mpz_t_u64 m n P data v = (setMpz1 64 n m P v data).toOption := by
  unfold set_mpz_t_u64 CSemIter.mpzClassOf setMpz1
  exact set_mpz_il_u64_eq n m P data [v] hf (by simp)

theorem ctor_mpz_t_u64_eq (n m : Nat) (P data : List Nat) (v : Int) (hf : Fits 64 n m P data) :
    ctor_mpz_t_u64 m n P data v = (setMpz1 64 n m P v data).toOption := set_mpz_t_u64_eq n m P data v hf

theorem ctor_class_u64_eq (n m : Nat) (P data : List Nat) (v : Int) (hf : Fits 64 n m P data) :
    ctor_class_u64 m n P data v = (setMpz1 64 n m P v data).toOption := set_mpz_class_u64_eq n m P data v hf

theorem ctor_il_u64_eq (n m : Nat) (P data : List Nat) (values : List Int) (hf : Fits 64 n m P data) (hl : values.length < 2 ^ 64) :
    ctor_il_u64 m n P data values = (setMpz 64 n m P values data).toOption := set_mpz_il_u64_eq n m P data values hf hl

theorem ctor_arr_u64_eq (n m : Nat) (P data : List Nat) (values : List Int) (hf : Fits 64 n m P data) (hl : values.length = n) :
    ctor_arr_u64 m n P data values = (setMpz 64 n m P values data).toOption := set_mpz_arr_u64_eq n m P data values hf hl

theorem set_mpz_class_u16_eq (n m : Nat) (P data : List Nat) (v : Int) (hf : Fits 16 n m P data) :
    set_mpz_class_u16 m n P data v = (setMpz1 16 n m P v data).toOption := by
  unfold set_mpz_class_u16 CSemIter.mpzClassOf setMpz1
  exact set_mpz_il_u16_eq n m P data [v] hf (by simp)

/-! ### (3) C15's statements for the generated code -/

/-- **throw rule** (generated, all three widths): more than `degree` values and not exactly `degree·nmoduli` ⇒ the generated function
returns `none` (std::runtime_error, nothing stored); otherwise it returns normally -/
theorem set_mpz_il_u64_throws_iff (n m : Nat) (P data : List Nat) (values : List Int) (hf : Fits 64 n m P data) (hl : values.length < 2 ^ 64) :
    set_mpz_il_u64 m n P data values = none ↔ (n < values.length ∧ values.length ≠ n * m) := by
  rw [set_mpz_il_u64_eq n m P data values hf hl]
  constructor
  · intro h
    by_contra hc
    have hk : values.length ≤ n ∨ values.length = n * m := by omega
    have hP := hf.hP.1
    unfold setMpz setGen at h
    have h3 : ¬ ((decide (values.length > n) && (values.length != n * m)) = true) := by
      simp only [Bool.and_eq_true, decide_eq_true_eq, bne_iff_ne]; omega
    simp only [show ¬ P.length < m by omega, if_false, h3] at h
    simp [Except.toOption] at h
  · intro ⟨h1, h2⟩
    rw [(C15.setMpz_throws 64 n m P values data hf.hP.1 h1 h2).1]; rfl

theorem set_mpz_il_u16_throws (n m : Nat) (P data : List Nat) (values : List Int) (hf : Fits 16 n m P data) (hl : values.length < 2 ^ 64)
    (h1 : n < values.length) (h2 : values.length ≠ n * m) : set_mpz_il_u16 m n P data values = none := by
  rw [set_mpz_il_u16_eq n m P data values hf hl, (C15.setMpz_throws 16 n m P values data hf.hP.1 h1 h2).1]; rfl

theorem set_mpz_il_u32_throws (n m : Nat) (P data : List Nat) (values : List Int) (hf : Fits 32 n m P data) (hl : values.length < 2 ^ 64)
    (h1 : n < values.length) (h2 : values.length ≠ n * m) : set_mpz_il_u32 m n P data values = none := by
  rw [set_mpz_il_u32_eq n m P data values hf hl, (C15.setMpz_throws 32 n m P values data hf.hP.1 h1 h2).1]; rfl

/-- **short lists** (generated): `k ≤ degree` big integers — word `(cm,i)` is the residue of `values[i]` in `[0, p_cm)`, zero beyond `k` -/
theorem set_mpz_il_u64_short (n m : Nat) (P data : List Nat) (values : List Int) (hf : Fits 64 n m P data) (hm : 1 ≤ m)
    (hold : data.length = n * m) (hk : values.length ≤ n) :
    ∃ r, set_mpz_il_u64 m n P data values = some r ∧ r.length = n * m ∧
      ∀ cm i, cm < m → i < n →
        r[cm * n + i]? = some (if i < values.length then (values.getD i 0 % (P.getD cm 0 : Int)).toNat else 0) := by
  obtain ⟨r, h1, h2, h3⟩ := C15.setMpz_short 64 n m P values data hm hf.hP hold hk
  exact ⟨r, by rw [set_mpz_il_u64_eq n m P data values hf (by have := hf.hn; omega), h1]; rfl, h2, h3⟩

theorem set_mpz_il_u16_short (n m : Nat) (P data : List Nat) (values : List Int) (hf : Fits 16 n m P data) (hm : 1 ≤ m)
    (hold : data.length = n * m) (hk : values.length ≤ n) :
    ∃ r, set_mpz_il_u16 m n P data values = some r ∧ r.length = n * m ∧
      ∀ cm i, cm < m → i < n →
        r[cm * n + i]? = some (if i < values.length then (values.getD i 0 % (P.getD cm 0 : Int)).toNat else 0) := by
  obtain ⟨r, h1, h2, h3⟩ := C15.setMpz_short 16 n m P values data hm hf.hP hold hk
  exact ⟨r, by rw [set_mpz_il_u16_eq n m P data values hf (by have := hf.hn; omega), h1]; rfl, h2, h3⟩

/-- **full lists** (generated): `degree × nmoduli` big integers — one block per modulus, non-negative residues -/
theorem set_mpz_il_u64_full (n m : Nat) (P data : List Nat) (values : List Int) (hf : Fits 64 n m P data)
    (hold : data.length = n * m) (hk : values.length = n * m) :
    ∃ r, set_mpz_il_u64 m n P data values = some r ∧ r.length = n * m ∧
      ∀ cm i, cm < m → i < n → r[cm * n + i]? = some ((values.getD (cm * n + i) 0 % (P.getD cm 0 : Int)).toNat) := by
  obtain ⟨r, h1, h2, h3⟩ := C15.setMpz_full 64 n m P values data hf.hP hold hk
  exact ⟨r, by rw [set_mpz_il_u64_eq n m P data values hf (by have := hf.hmn; omega), h1]; rfl, h2, h3⟩

/-- **single value** (generated `set_mpz(mpz_class const&)`, `set_mpz(mpz_t const&)`, both constructors): the constant polynomial -/
theorem set_mpz_class_u64_single (n m : Nat) (P data : List Nat) (z : Int) (hf : Fits 64 n m P data) (hn : 1 ≤ n) (hm : 1 ≤ m)
    (hold : data.length = n * m) :
    ∃ r, set_mpz_class_u64 m n P data z = some r ∧ ctor_mpz_t_u64 m n P data z = some r ∧ r.length = n * m ∧
      ∀ cm i, cm < m → i < n → r[cm * n + i]? = some (if i = 0 then (z % (P.getD cm 0 : Int)).toNat else 0) := by
  obtain ⟨r, h1, h2, h3⟩ := C15.setMpz_single 64 n m P z data hn hm hf.hP hold
  exact ⟨r, by rw [set_mpz_class_u64_eq n m P data z hf, h1]; rfl, by rw [ctor_mpz_t_u64_eq n m P data z hf, h1]; rfl, h2, h3⟩

/-- **canonical range** (generated): whenever the generated setter returns normally every word is `< p_cm` -/
theorem set_mpz_il_u64_canonical (n m : Nat) (P data : List Nat) (values : List Int) (r : List Nat) (hf : Fits 64 n m P data) (hm : 1 ≤ m)
    (hold : data.length = n * m) (hl : values.length < 2 ^ 64) (h : set_mpz_il_u64 m n P data values = some r) :
    r.length = n * m ∧ ∀ cm i, cm < m → i < n → ∃ x, r[cm * n + i]? = some x ∧ x < P.getD cm 0 := by
  rw [set_mpz_il_u64_eq n m P data values hf hl] at h
  cases hres : setMpz 64 n m P values data with
  | error e => rw [hres] at h; simp [Except.toOption] at h
  | ok r' =>
    rw [hres] at h
    simp only [Except.toOption, Option.some.injEq] at h
    subst h
    exact C15.setMpz_canonical 64 n m P values data r' hm hf.hP hold hres

/-! ### non-vacuity, concrete evaluations, necessity of the hypotheses -/

example : Fits 16 4 2 [15361, 13313] [9, 9, 9, 9, 9, 9, 9, 9] :=
  ⟨by decide, by decide, by decide, ⟨by decide, by decide⟩, by decide⟩
/-- the generated code run on a concrete input: negative and large integers, rewind for the second modulus, zero padding -/
example : set_mpz_it_u16 2 4 [15361, 13313] [9, 9, 9, 9, 9, 9, 9, 9] [-1, 204500993, 7] 0 3
    = some [15360, 0, 7, 0, 13312, 0, 7, 0] := by decide
/-- a sub-range `[1, 3)` of the sequence -/
example : set_mpz_it_u64 2 2 [7, 11] [9, 9, 9, 9] [100, -1, 25, 100] 1 3 = some [6, 4, 10, 3] := by decide
/-- exactly `degree·nmoduli` values: one block per modulus, no rewind -/
example : set_mpz_il_u64 2 2 [7, 11] [9, 9, 9, 9] [8, 9, 12, 13] = some [1, 2, 1, 2] := by decide
/-- three values for degree 2 with two moduli: thrown -/
example : set_mpz_il_u64 2 2 [7, 11] [9, 9, 9, 9] [8, 9, 12] = none := by decide
example : set_mpz_t_u64 2 2 [7, 11] [9, 9, 9, 9] (-3) = some [4, 0, 8, 0] := by decide
/-- `n*m ≤ data.length` is needed: with a shorter `data` the stores outside are dropped, the model appends -/
theorem short_data_example : set_mpz_il_u64 2 2 [7, 11] [9, 9] [8] ≠ (setMpz 64 2 2 [7, 11] [8] [9, 9]).toOption := by decide
/-- `first ≤ last` is needed: a reversed range has a negative distance, a huge `size_t`: thrown; the model sees the empty list -/
theorem reversed_range_example : set_mpz_it_u64 2 2 [7, 11] [9, 9, 9, 9] [8, 9, 12] 2 1
    ≠ (setMpz 64 2 2 [7, 11] (srcOf [8, 9, 12] 2 1) [9, 9, 9, 9]).toOption := by decide
/-- 64 bit, `p = 0` (GMP: division by zero): `GmpSem.fdiv_ui z 0 = z.toNat` is stored unconverted, the model reduces mod 2^64 -/
theorem zero_modulus_example : set_mpz_il_u64 1 1 [0] [9] [2 ^ 64 + 5] ≠ (setMpz 64 1 1 [0] [2 ^ 64 + 5] [9]).toOption := by decide

end Nfl.C15MpzAst
