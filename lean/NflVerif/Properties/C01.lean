/-
C01 — NTT-domain product equals negacyclic ring multiplication.

Property theorems only (model: `Model/Ntt.lean`; refinement: `Proofs/NttRefine*.lean`; mathematics:
`Proofs/Dft*.lean`).  `Spec.negacyclicNat p a b` is the executable oracle the driver also evaluates;
`product_is_ring_product` states what it is in mathematical terms.
-/
import NflVerif.Properties.C02

namespace Nfl.C01
open Nfl Nfl.NttRefine Nfl.C03 Nfl.C02

variable (l : Limb) {r : Row} {k : Nat}

/-- transform both operands, multiply pointwise with `mulmod`, transform back: exactly the product in
`Z_p[X]/(X^n+1)` — every row, every degree `2^k ≤ kMax`, all canonical operands -/
theorem product (hr : r ∈ l.table.rows) (hk : k ≤ l.lk) (a b : List Nat) (ha : a.length = 2 ^ k)
    (hb : b.length = 2 ^ k) (hca : Canonical r.p a) (hcb : Canonical r.p b) :
    inv l r k (List.zipWith (mulmod l.w r.p r.pn) (fwd l r k a) (fwd l r k b)) = Spec.negacyclicNat r.p a b :=
  NttRefine.product (ctx_of_row l hr hk) a b ha hb hca hcb

/-- the same with the precomputed-quotient product: `shoup(fa * fb, compute_shoup(fb))` -/
theorem product_shoup (hr : r ∈ l.table.rows) (hk : k ≤ l.lk) (a b : List Nat) (ha : a.length = 2 ^ k)
    (hb : b.length = 2 ^ k) (hca : Canonical r.p a) (hcb : Canonical r.p b) :
    inv l r k (mulShoupList l.w r.p (fwd l r k a) (fwd l r k b) ((fwd l r k b).map (computeShoup l.w r.p)))
      = Spec.negacyclicNat r.p a b :=
  NttRefine.product_shoup (ctx_of_row l hr hk) a b ha hb hca hcb

/-- the oracle *is* the ring product: coefficient `c` is
`(Σ_{i+j=c} a_i b_j − Σ_{i+j=c+n} a_i b_j) mod p`, a value in `[0,p)` -/
theorem product_is_ring_product (p : Nat) (hp : 0 < p) (a b : List Nat) (c : Nat) (hc : c < a.length) :
    ((Spec.negacyclicNat p a b).getD c 0 : Int) =
      ((∑ i ∈ Finset.range (c + 1), (a.getD i 0 : Int) * b.getD (c - i) 0) -
       (∑ i ∈ Finset.Ico (c + 1) a.length, (a.getD i 0 : Int) * b.getD (c + a.length - i) 0)) % (p : Int) :=
  NttRefine.negacyclicNat_int p hp a b c hc

theorem product_canonical (p : Nat) (hp : 0 < p) (a b : List Nat) :
    (Spec.negacyclicNat p a b).length = a.length ∧ Canonical p (Spec.negacyclicNat p a b) :=
  ⟨(NttRefine.negacyclicNat_spec p hp a b).2.1, (NttRefine.negacyclicNat_spec p hp a b).2.2⟩

/-- evaluation form is a ring isomorphism: **any arithmetic circuit** (+, −, ×) evaluated pointwise on
transformed inputs and transformed back equals the same circuit evaluated in the quotient ring -/
theorem circuit (hr : r ∈ l.table.rows) (hk : k ≤ l.lk) (c : Circuit) (env : Nat → List Nat)
    (henv : ∀ i, (env i).length = 2 ^ k ∧ Canonical r.p (env i)) :
    inv l r k (evalPointwise l.w r.p r.pn c (fun i => fwd l r k (env i))) = evalRing l.w r.p c env :=
  NttRefine.circuit (ctx_of_row l hr hk) env henv c

/-- Non-vacuity: X^7 · X = −1 in Z_15361[X]/(X^8+1) through the model (the missing-twist witness). -/
example : Spec.negacyclicNat 15361 [0,0,0,0,0,0,0,1] [0,1,0,0,0,0,0,0] = [15360,0,0,0,0,0,0,0] := by decide

end Nfl.C01
