/-
C19 on code obtained from the source text.

`Generated/PrngAst.lean` is produced on every run by `tools/gen_prng_ast.py` from clang's typed AST of
lib/prng/randombytes.cpp, the function cut at its external calls into STEP FUNCTIONS
  (i)   `rb_entry`          the entry test `fd == -1`
  (ii)  `rb_for_0`, `rb_after_open_0`, `rb_after_sleep_0`   `fd = open(…); if (fd != -1) break; sleep(1);`
  (iii) `rb_while_0`        loop head `xlen > 0`, chunk size `(xlen < 1048576) ? xlen : 1048576` converted to `int`,
                            arguments of `read(fd, x, i)`
  (iv)  `rb_after_read_0`, `rb_join_1`, `rb_after_sleep_1`  `i = (int) <ssize_t>; if (i < 1) { sleep(1); continue; } x += i; xlen -= i;`
(state: static `fd`, `x` as an offset into the caller's buffer, `xlen`, `i`).  `Gen.exec` (Proofs/PrngAstEq.lean) plays a
script of OS answers to them with the recursion scheme of the hand model.  This file states
  (1) `randombytes_ast_eq`, `runCalls_ast_eq`: the generated code, so driven, EQUALS the hand model `RB.randombytes` /
      `RB.runCalls` — for ALL scripts, all `xlen < 2^64`, all descriptor values in `int` range (`< 2^31`; `-1` = not open),
      whatever the uninitialised local `i` holds.  No hypothesis on the read answers: an answer longer than the request
      stops both sides (`overlong`) before it is converted; accepted answers are `≤ 2^20`, so `ssize_t → int` is exact.
  (2) the key statements of C19 transported to the generated code as corollaries.
Hypotheses are needed: see the `example`s at the end (a descriptor value outside `int`).
NOT covered: what `open` / `read` / `sleep` do (the OS contract, played by the driver exactly as in the hand model).
-/
import NflVerif.Proofs.PrngAstEq
import NflVerif.Properties.C19

namespace Nfl.C19Ast
open Nfl Nfl.RB Nfl.Gen

/-! ### (1) generated = hand model -/

/-- one call: the generated step functions driven by the script are the hand model -/
theorem randombytes_ast_eq (fd0 : Option Nat) (script : List Outcome) (xlen i0 : Nat)
    (hx : xlen < 2 ^ 64) (hfd : FdsInRange fd0 script) :
    Gen.randombytes fd0 script xlen i0 = RB.randombytes fd0 script xlen :=
  randombytes_eq fd0 script xlen i0 hx hfd

/-- a returning call leaves a descriptor and a rest of the script that are again in range -/
theorem done_fds {fd0 : Option Nat} {script : List Outcome} {x : Nat} {b l r f}
    (h : RB.randombytes fd0 script x = .done b l r f) (hfd : FdsInRange fd0 script) : FdsInRange (some f) r := by
  obtain ⟨used, hs, _⟩ := C19.fills_in_order fd0 script x h
  have hr : ∀ g, Outcome.openOk g ∈ r → g < 2 ^ 31 := fun g hg => hfd.2 g (by rw [hs]; simp [hg])
  refine ⟨?_, hr⟩
  intro f' hf'
  cases hf'
  cases fd0 with
  | some g =>
    simp only [RB.randombytes] at h
    have := (readLoop_done g script [] x (by simpa using h)).1
    rw [this]; exact hfd.1 g rfl
  | none =>
    simp only [RB.randombytes] at h
    cases ho : openLoop script with
    | stuck w l' => rw [ho] at h; simp at h
    | ok g s l' =>
      rw [ho] at h
      simp only [addLog_eq_done] at h
      obtain ⟨lg', h, _⟩ := h
      obtain ⟨k, hk, _⟩ := openLoop_ok script ho
      have := (readLoop_done g s [] x (by simpa using h)).1
      rw [this]; exact hfd.2 g (by rw [hk]; simp)

/-- any sequence of calls sharing the static descriptor and the environment -/
theorem runCalls_ast_eq : ∀ (xlens : List Nat) (fd0 : Option Nat) (script : List Outcome),
    (∀ x ∈ xlens, x < 2 ^ 64) → FdsInRange fd0 script → Gen.runCalls fd0 script xlens = RB.runCalls fd0 script xlens := by
  intro xlens
  induction xlens with
  | nil => intros; rfl
  | cons x xs ih =>
    intro fd0 script hx hfd
    simp only [Gen.runCalls, RB.runCalls]
    rw [randombytes_eq fd0 script x 0 (hx x (by simp)) hfd]
    cases hr : RB.randombytes fd0 script x with
    | stopped w b l f => rfl
    | done b l r f =>
      simp only
      rw [ih (some f) r (fun y hy => hx y (by simp [hy])) (done_fds hr hfd)]

/-! ### (2) the key statements of C19, for the generated code -/

/-- **fills_in_order**: if the generated code returns, the buffer is exactly the bytes delivered by the part of the
script it consumed, in delivery order -/
theorem fills_in_order_ast (fd0 : Option Nat) (script : List Outcome) (xlen i0 : Nat)
    (hx : xlen < 2 ^ 64) (hfd : FdsInRange fd0 script)
    {buf : Mem} {log : List Call} {rest : List Outcome} {f : Nat}
    (h : Gen.randombytes fd0 script xlen i0 = .done buf log rest f) :
    ∃ used, script = used ++ rest ∧ (delivered used).length = xlen ∧ buf = (delivered used).map some ∧
      buf.length = xlen ∧ ∀ j, j < xlen → ∃ b, (delivered used)[j]? = some b ∧ buf[j]? = some (some b) := by
  rw [randombytes_eq fd0 script xlen i0 hx hfd] at h
  exact C19.fills_in_order fd0 script xlen h

/-- **never_returns_early** -/
theorem never_returns_early_ast (fd0 : Option Nat) (script : List Outcome) (xlen i0 : Nat)
    (hx : xlen < 2 ^ 64) (hfd : FdsInRange fd0 script)
    (h : (Gen.randombytes fd0 script xlen i0).isDone = true) : xlen ≤ (delivered script).length := by
  rw [randombytes_eq fd0 script xlen i0 hx hfd] at h
  exact C19.never_returns_early fd0 script xlen h

/-- **requests_bounded**: every `read` the generated code issues is on the static descriptor, at offset = bytes
delivered so far, for `min remaining 2^20` bytes; failures are followed by `sleep(1)` and change nothing -/
theorem requests_bounded_ast (g : Nat) (hg : g < 2 ^ 31) (script : List Outcome) (xlen i0 : Nat) (hx : xlen < 2 ^ 64)
    (hs : ∀ f, Outcome.openOk f ∈ script → f < 2 ^ 31) :
    ReadTrace g 0 xlen (Gen.randombytes (some g) script xlen i0).log (Gen.randombytes (some g) script xlen i0).isDone := by
  rw [randombytes_eq (some g) script xlen i0 hx ⟨fun f hf => by cases hf; exact hg, hs⟩]
  exact C19.requests_bounded g script xlen

/-- **open_once**: over any sequence of calls of the generated code, at most one successful `open` -/
theorem open_once_count_ast (fd0 : Option Nat) (script : List Outcome) (xlens : List Nat)
    (hx : ∀ x ∈ xlens, x < 2 ^ 64) (hfd : FdsInRange fd0 script) :
    ((allLog (Gen.runCalls fd0 script xlens)).filter isOpenOk).length ≤ 1 := by
  rw [runCalls_ast_eq xlens fd0 script hx hfd]
  exact C19.open_once_count fd0 script xlens

/-- **open_once**, the full statement: reads only on the opened descriptor, never a second `open` -/
theorem open_once_ast (fd0 : Option Nat) (script : List Outcome) (xlens : List Nat)
    (hx : ∀ x ∈ xlens, x < 2 ^ 64) (hfd : FdsInRange fd0 script) :
    match fd0 with
    | some f => ∀ c ∈ allLog (Gen.runCalls (some f) script xlens), ReadPhase f c
    | none =>
      allLog (Gen.runCalls none script xlens) = [] ∨
      (∃ k, allLog (Gen.runCalls none script xlens) = openFails k ++ [.openNoAns]) ∨
      (∃ k f R, allLog (Gen.runCalls none script xlens) = openFails k ++ .open (some f) :: R ∧
        ∀ c ∈ R, ReadPhase f c) := by
  have := C19.open_once fd0 script xlens
  cases fd0 with
  | some f => simp only at this ⊢; rw [runCalls_ast_eq xlens _ script hx hfd]; exact this
  | none => simp only at this ⊢; rw [runCalls_ast_eq xlens _ script hx hfd]; exact this

/-- **zero_len**: descriptor open, nothing wanted: no call at all -/
theorem zero_len_ast (g : Nat) (hg : g < 2 ^ 31) (script : List Outcome) (i0 : Nat)
    (hs : ∀ f, Outcome.openOk f ∈ script → f < 2 ^ 31) :
    Gen.randombytes (some g) script 0 i0 = .done [] [] script g := by
  rw [randombytes_eq (some g) script 0 i0 (by decide) ⟨fun f hf => by cases hf; exact hg, hs⟩]
  exact C19.zero_len g script

/-- the path and the flags of the only `open` in the text -/
theorem open_arguments (s : RbSt) : (rb_for_0 s).2 = .call .open_0 [.str "/dev/urandom", .int 0] := rfl

/-! ### non-vacuity and the need for the hypotheses -/

/-- the generated code on C19's demonstration script (two failed opens, `read = -1`, `read = 0`, two short reads) -/
example : Gen.randombytes none C19.demoScript 8 =
    .done [some 10, some 11, some 12, some 13, some 14, some 15, some 16, some 17]
      [.open none, .sleep 1, .open none, .sleep 1, .open (some 3),
       .read 3 0 8 (-1), .sleep 1, .read 3 0 8 0, .sleep 1, .read 3 0 8 3, .read 3 3 5 5]
      [.readErr] 3 := by decide +kernel

/-- whatever the uninitialised `i` holds -/
example : Gen.randombytes none C19.demoScript 8 4294967295 = RB.randombytes none C19.demoScript 8 := by decide +kernel

example : FdsInRange none C19.demoScript := by
  refine ⟨fun _ h => (by cases h), ?_⟩
  intro g hg
  simp [C19.demoScript] at hg
  omega

/-- a sequence of calls on descriptor 0 and on `INT_MAX` -/
example : allLog (Gen.runCalls none [.openOk 0, .readBytes [7], .readErr, .readBytes [8]] [1, 0, 1]) =
    [.open (some 0), .read 0 0 1 1, .read 0 0 1 (-1), .sleep 1, .read 0 0 1 1] := by decide +kernel
example : allLog (Gen.runCalls none [.openFail, .openOk 2147483647, .readBytes [7], .readBytes [8]] [1, 1]) =
    [.open none, .sleep 1, .open (some 2147483647), .read 2147483647 0 1 1, .read 2147483647 0 1 1] := by decide +kernel

/-- the script ends while bytes are wanted; an answer outside the contract -/
example : Gen.randombytes (some 7) [.readBytes [1, 2, 3], .readZero] 5 =
    .stopped .outOfScript [some 1, some 2, some 3, none, none]
      [.read 7 0 5 3, .read 7 3 2 0, .sleep 1, .readNoAns 7 3 2] (some 7) := by decide +kernel
example : Gen.randombytes (some 7) [.readBytes [1, 2, 3, 4]] 2 =
    .stopped .overlong [none, none] [.readNoAns 7 0 2] (some 7) := by decide +kernel

/-- 1 MiB chunking in the generated code -/
example : (Gen.exec [.readBytes [9]] (rb_while_0 { fd := 7, x := 0, xlen := 1048576 + 5, i := 0 }) []).log =
    [.read 7 0 1048576 1, .readNoAns 7 1 1048576] := by decide +kernel

/-- THE HYPOTHESIS ON DESCRIPTORS IS NEEDED.  The hand model keeps the descriptor as a natural number; `4294967295` is
not a value of `int`: as the residue of an `int` it IS `-1`, so the generated code opens the device, while the hand model
treats it as an open descriptor.  (`open` returns an `int`: such an answer cannot occur.) -/
example : Gen.randombytes (some 4294967295) [.openOk 3] 0 ≠ RB.randombytes (some 4294967295) [.openOk 3] 0 := by decide +kernel

end Nfl.C19Ast
