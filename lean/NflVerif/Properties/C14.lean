/-
C14 — Shared-handle polynomials (`nfl::poly_p`) behave as independent values.

Model: `NflVerif/Model/Cow.lean` (`step`/`run` = the header's shared_ptr mechanics, `stepV`/`runValues` =
the same statements on plain value-type polynomials, `wfB` = the property's well-formedness of a history).
Property theorems only; the invariant and the simulation lemmas are in `Proofs/CowInv|CowSim|CowCor.lean`.
All statements quantify over every history (`List Op`), any number `nh` of variables, all values,
all transforms / expressions (`f`, `g` arbitrary functions).
-/
import NflVerif.Proofs.CowCor

namespace Nfl.C14
open Nfl.Cow

/-- a history is well-formed when every statement is well-formed in the value state it executes in:
    constructions on non-objects only, operands are live values, a moved-from variable is only destroyed
    or the target of a copy/move assignment, indices in range (`okV`) -/
def WF (ops : List Op) (vs : VState) : Prop := wfB ops vs = true

instance (ops : List Op) (vs : VState) : Decidable (WF ops vs) := by unfold WF; infer_instance

/-- **Refinement.**  Every well-formed history, started with `nh` unconstructed variables, executes on the
    shared-handle model without undefined behaviour (`run … = some _`: no empty `_p` dereferenced, no
    released cell released again or used), and what is seen through each handle afterwards is exactly
    what the same history produces on plain values. -/
theorem refines (nh : Nat) (ops : List Op) (hwf : WF ops (initV nh)) :
    (run ops (init nh)).map abs = some (runValues ops (initV nh)) := by
  obtain ⟨s', hs', _, habs⟩ := refines_from (init_inv nh) ops (by rw [abs_init]; exact hwf)
  rw [hs', Option.map_some, habs, abs_init]

/-- the same from any state satisfying the invariant (the form used by the corollaries) -/
theorem refines_inv {s : State} (hinv : Inv s) (ops : List Op) (hwf : WF ops (abs s)) :
    ∃ s', run ops s = some s' ∧ Inv s' ∧ abs s' = runValues ops (abs s) :=
  refines_from hinv ops hwf

/-- **Invariant** in every state reached by a well-formed history: the reference count of every
    allocated cell is the number of handles pointing to it and is at least 1 (no leaked cell), no handle
    dangles, nothing beyond the fresh-pointer counter is allocated, and the release log has no
    duplicates (no double free) and lists exactly the allocated-and-released pointers. -/
theorem invariant (nh : Nat) (ops : List Op) (hwf : WF ops (initV nh)) :
    ∃ s, run ops (init nh) = some s ∧
      (∀ p c, s.heap p = some c → c.rc = s.hs.count (Handle.at p) ∧ 1 ≤ c.rc) ∧
      (∀ (i p : Nat), s.hs[i]? = some (Handle.at p) → ∃ c, s.heap p = some c) ∧
      (∀ p, s.heap p = none → s.hs.count (Handle.at p) = 0) ∧
      s.freeLog.Nodup ∧ s.allocLog.Nodup ∧
      (∀ p, p ∈ s.freeLog ↔ (p ∈ s.allocLog ∧ s.heap p = none)) := by
  obtain ⟨s, hs, hinv, _⟩ := refines_from (init_inv nh) ops (by rw [abs_init]; exact hwf)
  refine ⟨s, hs, ?_, fun i p h => hinv.live h, ?_, hinv.free_nodup, hinv.alloc_nodup, ?_⟩
  · intro p c hc
    have := hinv.rc_count p
    simp [rcOf, hc] at this
    exact ⟨this, hinv.rc_pos p c hc⟩
  · intro p hp
    have := hinv.rc_count p
    simp [rcOf, hp] at this
    exact this.symm
  · intro p; rw [hinv.free_log, hinv.alloc_log]

/-- `unique()` (`use_count() == 1`, the test in `detach()`) holds exactly when no other handle shares the cell -/
theorem unique_iff {s : State} (hinv : Inv s) {h p : Nat} (hh : s.hs[h]? = some (.at p)) :
    useCount s h = 1 ↔ ∀ i, i ≠ h → s.hs[i]? ≠ some (.at p) := by
  obtain ⟨c, hc⟩ := hinv.live hh
  have hrc := hinv.rc_count p
  simp [rcOf, hc] at hrc
  have huc : useCount s h = c.rc := by simp [useCount, hh, hc]
  rw [huc, hrc]
  constructor
  · intro h1 i hi hget
    have := cnt_ge_two hi hget hh
    omega
  · intro hall
    have h1 := cnt_set p .null hh
    have h0 : cnt p (s.hs.set h .null) = 0 := by
      apply List.count_eq_zero.mpr
      intro hm
      obtain ⟨i, hi⟩ := List.getElem?_of_mem hm
      by_cases hih : i = h
      · subst hih
        have hlt : i < s.hs.length := (List.getElem?_eq_some_iff.mp hh).1
        simp [hlt] at hi
      · rw [List.getElem?_set_ne (Ne.symm hih)] at hi
        exact hall i hih hi
    simp at h1; omega

/-- **No interference.**  A statement changes what is seen through a handle only if the value semantics
    says so: every handle outside `targets op` (the assigned / constructed / destroyed variable, and the
    source of a move) shows the same value before and after — whatever sharing exists underneath. -/
theorem no_interference {s s' : State} (hinv : Inv s) {op : Op} (hok : okV (abs s) op = true)
    (hstep : step s op = some s') (h : Nat) (hh : h ∉ targets op) :
    (abs s')[h]? = (abs s)[h]? := by
  obtain ⟨s1, hs1, _, habs1⟩ := step_sim hinv hok
  rw [hstep] at hs1; cases hs1
  rw [habs1]; exact stepV_other _ _ _ hh

/-- the same along a whole history -/
theorem no_interference_run {s : State} (hinv : Inv s) (ops : List Op) (hwf : WF ops (abs s))
    (h : Nat) (hh : ∀ op ∈ ops, h ∉ targets op) :
    ∃ s', run ops s = some s' ∧ (abs s')[h]? = (abs s)[h]? := by
  obtain ⟨s', hs', _, habs'⟩ := refines_from hinv ops hwf
  exact ⟨s', hs', by rw [habs']; exact runValues_other _ _ _ hh⟩

/-- **Copies compare equal until one of them is modified.**  After `poly_p d(src)` or `d = src`, and any
    further well-formed statements that do not target `d` or `src`, both handles still show the value
    `src` had, and `d == src` returns true (`d != src` false). -/
theorem copies_equal_until_write {s : State} (hinv : Inv s) {d src : Nat} (cp : Op)
    (hcp : cp = .copyCtor d src ∨ cp = .copyAssign d src) (ops : List Op)
    (hwf : WF (cp :: ops) (abs s)) (hnw : ∀ op ∈ ops, d ∉ targets op ∧ src ∉ targets op) :
    ∃ s', run (cp :: ops) s = some s' ∧ (abs s')[d]? = (abs s)[src]? ∧ (abs s')[src]? = (abs s)[src]? ∧
      observe s' (.compare d src false) = some 1 ∧ observe s' (.compare d src true) = some 0 := by
  obtain ⟨s', hs', hinv', habs'⟩ := refines_from hinv (cp :: ops) hwf
  have hwf1 : okV (abs s) cp = true := by
    simp only [WF, wfB, Bool.and_eq_true] at hwf; exact hwf.1
  -- the value state after the copy
  have hcopy : (stepV (abs s) cp)[d]? = (abs s)[src]? ∧ (stepV (abs s) cp)[src]? = (abs s)[src]? ∧
      isVal (abs s)[src]? = true := by
    rcases hcp with rfl | rfl
    · simp only [okV, Bool.and_eq_true, beq_iff_eq] at hwf1
      obtain ⟨p, c, _, _, hsrc⟩ := isVal_abs hwf1.2
      have hdlt : d < (abs s).length := (List.getElem?_eq_some_iff.mp hwf1.1).1
      have hne : d ≠ src := by intro h; subst h; rw [hwf1.1] at hsrc; cases hsrc
      refine ⟨?_, ?_, hwf1.2⟩ <;> simp only [stepV, hsrc]
      · simp [hdlt]
      · rw [List.getElem?_set_ne hne, hsrc]
    · simp only [okV, Bool.and_eq_true] at hwf1
      obtain ⟨p, c, _, _, hsrc⟩ := isVal_abs hwf1.2
      have hdlt : d < (abs s).length := by
        rcases isObj_abs hwf1.1 with ⟨_, h⟩ | ⟨_, _, _, _, h⟩ <;> exact (List.getElem?_eq_some_iff.mp h).1
      refine ⟨?_, ?_, hwf1.2⟩ <;> simp only [stepV, hsrc]
      · simp [hdlt]
      by_cases hne : d = src
      · subst hne; simp [hdlt]
      · rw [List.getElem?_set_ne hne, hsrc]
  have hd : (abs s')[d]? = (abs s)[src]? := by
    rw [habs']; simp only [runValues]
    rw [runValues_other _ _ _ (fun o ho => (hnw o ho).1)]; exact hcopy.1
  have hsrc : (abs s')[src]? = (abs s)[src]? := by
    rw [habs']; simp only [runValues]
    rw [runValues_other _ _ _ (fun o ho => (hnw o ho).2)]; exact hcopy.2.1
  obtain ⟨p, c, _, _, hv⟩ := isVal_abs hcopy.2.2
  have hokc : ∀ neg, okV (abs s') (.compare d src neg) = true := by
    intro neg; simp [okV, hd, hsrc, hv, isVal]
  refine ⟨s', hs', hd, hsrc, ?_, ?_⟩
  · rw [observe_sim hinv' (hokc false)]
    simp [observeV, readV, hd, hsrc, hv, b2n]
  · rw [observe_sim hinv' (hokc true)]
    simp [observeV, readV, hd, hsrc, hv, b2n]

/-- **The pointer short-cut of `==` / `!=` is sound**: two handles holding the same pointer see the same
    value, and in every reachable state the comparison returns what the element-wise comparison of the
    two values returns (`observeV` never looks at pointers). -/
theorem compare_shortcut_sound {s : State} (hinv : Inv s) {a b p : Nat}
    (ha : s.hs[a]? = some (.at p)) (hb : s.hs[b]? = some (.at p)) (neg : Bool) :
    readVal s a = readVal s b ∧ (abs s)[a]? = (abs s)[b]? ∧
    observe s (.compare a b neg) = observeV (abs s) (.compare a b neg) ∧
    observe s (.compare a b neg) = some (b2n (!neg)) := by
  obtain ⟨c, hc⟩ := hinv.live ha
  have hva : (abs s)[a]? = some (.val c.val) := by rw [abs_getElem?, ha]; simp [absH, hc]
  have hvb : (abs s)[b]? = some (.val c.val) := by rw [abs_getElem?, hb]; simp [absH, hc]
  have hok : okV (abs s) (.compare a b neg) = true := by simp [okV, hva, hvb, isVal]
  refine ⟨by simp [readVal, ha, hb], by rw [hva, hvb], observe_sim hinv hok, ?_⟩
  simp [observe, ha, hb, isDead, Cow.ptrEq]

theorem compare_sound {s : State} (hinv : Inv s) {a b : Nat} (neg : Bool)
    (hok : okV (abs s) (.compare a b neg) = true) :
    observe s (.compare a b neg) = observeV (abs s) (.compare a b neg) :=
  observe_sim hinv hok

/-- **All storage is released exactly once.**  After any well-formed history followed by the end of the
    lifetime of every variable that still holds an object, no cell is allocated, every variable is a
    non-object, the release log is a permutation of the allocation log, neither has duplicates, and
    every allocated pointer occurs in the release log exactly once. -/
theorem released_once (nh : Nat) (ops : List Op) (hwf : WF ops (initV nh)) :
    ∃ s, run (ops ++ destroyAll (runValues ops (initV nh))) (init nh) = some s ∧
      (∀ p, s.heap p = none) ∧ (∀ h ∈ s.hs, h = Handle.dead) ∧
      s.freeLog.Perm s.allocLog ∧ s.allocLog.Nodup ∧ s.freeLog.Nodup ∧
      (∀ p, p ∈ s.allocLog → s.freeLog.count p = 1) := by
  have hD := destroyAll_spec (runValues ops (initV nh))
  have hwf2 : wfB (ops ++ destroyAll (runValues ops (initV nh))) (abs (init nh)) = true := by
    rw [abs_init, wfB_append, Bool.and_eq_true]; exact ⟨hwf, hD.1⟩
  obtain ⟨s, hs, hinv, habs⟩ := refines_from (init_inv nh) _ hwf2
  have hlen : (abs s).length = s.hs.length := abs_length s
  have hall : abs s = List.replicate s.hs.length VH.dead := by
    rw [← hlen, habs, abs_init, runValues_append, hD.2]; simp
  have hdead := all_dead_of_abs hinv hall
  obtain ⟨h1, h2, h3, h4, h5⟩ := all_dead_released hinv hdead
  exact ⟨s, hs, h1, hdead, h2, h3, h4, h5⟩

/-- never a double free, at any point of any well-formed history (the release log has no duplicates
    and only contains allocated pointers) -/
theorem no_double_free (nh : Nat) (ops : List Op) (hwf : WF ops (initV nh)) :
    ∃ s, run ops (init nh) = some s ∧ s.freeLog.Nodup ∧ ∀ p ∈ s.freeLog, p ∈ s.allocLog := by
  obtain ⟨s, hs, _, _, _, h1, _, h3⟩ := invariant nh ops hwf
  exact ⟨s, hs, h1, fun p hp => ((h3 p).mp hp).1⟩

/-! ### non-vacuity: a concrete history over three variables exercising sharing, detach, moves,
    self-assignment, expression assignment, comparison, destruction and re-creation -/

def demo : List Op :=
  [ .mkVal 0 [1, 2, 3, 4],            -- poly_p a{1,2,3,4}
    .copyCtor 1 0,                    -- poly_p b(a)            (shared, use_count 2)
    .copyCtor 2 1,                    -- poly_p c(b)            (use_count 3)
    .writeElem 1 2 9,                 -- b(0,2) = 9             (detach: b gets its own cell)
    .compare 0 2 false,               -- a == c                 (pointer short-cut)
    .moveAssign 0 0,                  -- a = std::move(a)       (self check)
    .moveAssign 2 1,                  -- c = std::move(b)       (b moved-from, old cell of c keeps owner a)
    .copyAssign 1 0,                  -- b = (const&) a         (assignment onto a moved-from variable)
    .arith 0 1 2 (fun x y => List.zipWith (· + ·) x y),   -- a = b + c   (a shared with b: detach)
    .xform 2 List.reverse,            -- c.ntt_pow_phi()        (abstract transform)
    .destroy 1,                       -- ~b
    .mkDefault 1 4,                   -- new (&b) poly_p()
    .touch 0 ]                        -- a.poly_obj()

example : WF demo (initV 3) := by decide

example : (run demo (init 3)).map abs =
    some [.val [2, 4, 12, 8], .val [0, 0, 0, 0], .val [4, 9, 2, 1]] := by decide

example : (run (demo ++ destroyAll (runValues demo (initV 3))) (init 3)).map (fun s => (s.allocLog, s.freeLog)) =
    some ([3, 2, 1, 0], [1, 3, 2, 0]) := by decide

/-- the hypotheses of `copies_equal_until_write` are satisfiable -/
example : WF (Op.copyCtor 1 0 :: [.touch 2, .readElem 0 1]) (abs ((run [.mkVal 0 [5, 6], .mkVal 2 [7, 8]] (init 3)).getD (init 3))) := by
  decide

end Nfl.C14
