/-
C04 — CRT lift returns the unique representative and is a ring isomorphism.

Model: `NflVerif/Model/Crt.lean` (`gmpInitWith`, `poly2mpzCoeff`, `poly2mpz`, `mpz2poly`, `setMpz`), tied to
`include/nfl/gmp.hpp` by the `crt` correspondence stream (constants `Q, s, μ, L_i` read from the static `gmp`
member, every conversion on `poly` and `poly_p`).

All theorems hold for **any** list of moduli `ps` that is pairwise coprime, non-zero and fits a `w`-bit limb
(`ModOK w ps`; only `p ≤ 2^w` is needed, the tables even have `p < 2^(w-2)`), **any** number of moduli, **any**
canonical residue vector and **any** integer (negative, ≥ Q, hundreds of bits).  GMP enters through a contract:
exact integer arithmetic and `InvContract inv` for `mpz_invert`; `invMod_ok` shows that the executable model
used by the driver meets the contract, and the last section instantiates everything on the regenerated tables.
-/
import NflVerif.Proofs.CrtPoly
import NflVerif.Properties.C06

namespace Nfl.C04
open Nfl Nfl.Crt

variable {inv : Nat → Nat → Nat} {w : Nat} {ps : List Nat}

/-- the extended-Euclid model of `mpz_invert` meets the contract `gmp.hpp` relies on -/
theorem invMod_ok : InvContract invMod := invMod_contract

/-! ### the reduction step: `s` is large enough for ONE conditional subtraction -/

/-- Quotient estimate `q = ⌊x·⌊2^s/Q⌋ / 2^s⌋`: for every `x < 2^s`, `0 ≤ x − qQ < 2Q`. -/
theorem shoup_one_subtraction (Q s x : Nat) (hQ : 0 < Q) (hx : x < 2 ^ s) :
    (x * (2 ^ s / Q) / 2 ^ s) * Q ≤ x ∧ x - (x * (2 ^ s / Q) / 2 ^ s) * Q < 2 * Q := by
  obtain ⟨h1, h2⟩ := barrett Q s x hQ hx
  refine ⟨h1, ?_⟩
  have : (x * (2 ^ s / Q) / 2 ^ s + 2) * Q = (x * (2 ^ s / Q) / 2 ^ s) * Q + 2 * Q := by ring
  omega

/-- With `s = bits(Q) + w + ⌊log2 m⌋ + 1` as the constructor computes it, the accumulated sum `Σ r_i·L_i` of
canonical residues is below `2^s` — for every number of moduli. -/
theorem rawsum_below_shift (hinv : InvContract inv) (h : ModOK w ps) (rs : List Nat) (hr : Canon ps rs) :
    rawSum (gmpInitWith inv w ps).L rs < 2 ^ (gmpInitWith inv w ps).s :=
  rawSum_lt hinv h rs hr

/-- the code's shift, spelled out -/
theorem shift_value : (gmpInitWith inv w ps).s = bitsNat ps.prod + w + Nat.log2 ps.length + 1 := gmp_s

/-- the lifting integers are the CRT idempotents: `L_i ≡ δ_ij (mod p_j)` -/
theorem lifting_integers_kronecker (hinv : InvContract inv) (h : ModOK w ps) (i j : Nat) (hi : i < ps.length)
    (hj : j < ps.length) :
    (gmpInitWith inv w ps).L.getD i 0 % ps.getD j 0 = (if i = j then 1 else 0) % ps.getD j 0 := by
  rw [List.getD_eq_getElem ps _ hj]; exact L_modEq hinv h i j hi hj

/-! ### `poly2mpz`, one coefficient -/

/-- the lifted integer lies in `[0, Q)` -/
theorem lift_range (hinv : InvContract inv) (h : ModOK w ps) (rs : List Nat) (hr : Canon ps rs) :
    0 ≤ poly2mpzCoeff (gmpInitWith inv w ps) rs ∧ poly2mpzCoeff (gmpInitWith inv w ps) rs < (ps.prod : Int) := by
  rw [lift_eq hinv h rs hr]
  exact ⟨Int.natCast_nonneg _, by exact_mod_cast liftNat_lt h rs⟩

/-- … and is congruent to every stored residue -/
theorem lift_congr (hinv : InvContract inv) (h : ModOK w ps) (rs : List Nat) (hr : Canon ps rs) :
    ∀ i, i < ps.length →
      poly2mpzCoeff (gmpInitWith inv w ps) rs % (ps.getD i 0 : Int) = (rs.getD i 0 : Int) := by
  intro i hi
  rw [lift_eq hinv h rs hr, List.getD_eq_getElem ps _ hi]
  exact_mod_cast liftNat_mod hinv h rs hr i hi

/-- Chinese remainder theorem: it is the *only* integer of `[0,Q)` with these residues -/
theorem lift_unique (hinv : InvContract inv) (h : ModOK w ps) (rs : List Nat) (hr : Canon ps rs) (y : Int)
    (h0 : 0 ≤ y) (hQ : y < (ps.prod : Int))
    (hres : ∀ i, i < ps.length → y % (ps.getD i 0 : Int) = (rs.getD i 0 : Int)) :
    y = poly2mpzCoeff (gmpInitWith inv w ps) rs := by
  rw [lift_eq hinv h rs hr]
  obtain ⟨n, rfl⟩ := Int.eq_ofNat_of_zero_le h0
  have := liftNat_unique hinv h rs hr n (by exact_mod_cast hQ) (fun j hj => by
    have := hres j hj
    rw [List.getD_eq_getElem ps _ hj] at this
    exact_mod_cast this)
  exact_mod_cast this

/-! ### `mpz2poly` / `set_mpz`, one coefficient -/

/-- every integer (negative, ≥ Q, any size) is stored as its non-negative residue -/
theorem mpz2poly_nonneg (h : ModOK w ps) (z : Int) : ∀ i, i < ps.length →
    (mpz2polyCoeff ps z).getD i 0 < ps.getD i 0 ∧
    ((mpz2polyCoeff ps z).getD i 0 : Int) = z % (ps.getD i 0 : Int) := by
  intro i hi
  rw [mpz2polyCoeff_getD z i hi, List.getD_eq_getElem ps _ hi]
  have hp := h.pos _ (List.getElem_mem hi)
  exact ⟨fdivUi_lt z _ hp, fdivUi_cast z _ hp⟩

/-- `mpz2poly (poly2mpz r) = r` for canonical residues -/
theorem mpz2poly_lift (hinv : InvContract inv) (h : ModOK w ps) (rs : List Nat) (hr : Canon ps rs) :
    residuesOfLift (gmpInitWith inv w ps) rs = rs := residuesOfLift_eq hinv h rs hr

/-- `poly2mpz (mpz2poly z) = z mod Q` (floor modulus) for every integer -/
theorem lift_mpz2poly (hinv : InvContract inv) (h : ModOK w ps) (z : Int) :
    liftOfMpz (gmpInitWith inv w ps) z = z % (ps.prod : Int) := liftOfMpz_eq hinv h z

/-! ### ring laws, coefficient-wise (residue-wise exact modular arithmetic, see `Nfl.C03`) -/

theorem lift_add (hinv : InvContract inv) (h : ModOK w ps) (a b : List Nat) (ha : Canon ps a) (hb : Canon ps b) :
    poly2mpzCoeff (gmpInitWith inv w ps) (addRes ps a b) =
      (poly2mpzCoeff (gmpInitWith inv w ps) a + poly2mpzCoeff (gmpInitWith inv w ps) b) % (ps.prod : Int) :=
  Crt.lift_add hinv h a b ha hb

theorem lift_sub (hinv : InvContract inv) (h : ModOK w ps) (a b : List Nat) (ha : Canon ps a) (hb : Canon ps b) :
    poly2mpzCoeff (gmpInitWith inv w ps) (subRes ps a b) =
      (poly2mpzCoeff (gmpInitWith inv w ps) a - poly2mpzCoeff (gmpInitWith inv w ps) b) % (ps.prod : Int) :=
  Crt.lift_sub hinv h a b ha hb

theorem lift_mul (hinv : InvContract inv) (h : ModOK w ps) (a b : List Nat) (ha : Canon ps a) (hb : Canon ps b) :
    poly2mpzCoeff (gmpInitWith inv w ps) (mulRes ps a b) =
      (poly2mpzCoeff (gmpInitWith inv w ps) a * poly2mpzCoeff (gmpInitWith inv w ps) b) % (ps.prod : Int) :=
  Crt.lift_mul hinv h a b ha hb

/-! ### whole polynomials (`n·m` words, modulus-major) -/

/-- `poly2mpz` is the coefficient-wise lift; every coefficient is in `[0,Q)` -/
theorem poly2mpz_coeffwise (hinv : InvContract inv) (h : ModOK w ps) (n : Nat) (a : List Nat) (ha : PolyCanon ps n a) :
    poly2mpz (gmpInitWith inv w ps) n a = (poly2mpzNat (gmpInitWith inv w ps) n a).map Int.ofNat ∧
    ∀ x ∈ poly2mpzNat (gmpInitWith inv w ps) n a, x < ps.prod := by
  refine ⟨poly2mpz_eq hinv h n a ha, ?_⟩
  intro x hx
  obtain ⟨i, _, rfl⟩ := List.mem_map.1 hx
  exact liftNat_lt h _

/-- `mpz2poly ∘ poly2mpz = id` on canonical polynomials -/
theorem mpz2poly_poly2mpz (hinv : InvContract inv) (h : ModOK w ps) (n : Nat) (a : List Nat)
    (ha : PolyCanon ps n a) : mpz2polyOfPoly2mpz (gmpInitWith inv w ps) n a = a :=
  Crt.mpz2poly_poly2mpz hinv h n a ha

/-- `poly2mpz ∘ mpz2poly = (· mod Q)` on arbitrary integer vectors -/
theorem poly2mpz_mpz2poly (hinv : InvContract inv) (h : ModOK w ps) (zs : List Int) :
    poly2mpzOfMpz2poly (gmpInitWith inv w ps) zs = zs.map (· % (ps.prod : Int)) :=
  Crt.poly2mpz_mpz2poly hinv h zs

/-- `set_mpz` with at most `n` values (this covers the `mpz_t`/`mpz_class`/array/initializer-list constructors
and assignments, which forward to it) stores `mpz2poly` of the zero-padded vector -/
theorem set_mpz_eq (n : Nat) (vals : List Int) (hs : vals.length ≤ n) :
    setMpz ps n vals = some (mpz2poly ps (vals ++ List.replicate (n - vals.length) 0)) :=
  Crt.setMpz_eq n vals hs

/-- **Transform-based multiplication agrees with `Z_Q[X]/(X^n+1)`**: the negacyclic products taken
independently modulo every `p_i` (what `invntt(ntt(a)·ntt(b))` computes, C01) lift coefficient-wise to the
negacyclic product, over `Z_Q`, of the lifted operands. -/
theorem lift_negacyclic (hinv : InvContract inv) (h : ModOK w ps) (n : Nat) (a b : List Nat)
    (ha : PolyCanon ps n a) (hb : PolyCanon ps n b) :
    poly2mpz (gmpInitWith inv w ps) n (mulPoly ps n a b) =
      (Spec.negacyclicNat ps.prod ((poly2mpz (gmpInitWith inv w ps) n a).map Int.toNat)
        ((poly2mpz (gmpInitWith inv w ps) n b).map Int.toNat)).map Int.ofNat := by
  have hc := mulPoly_canon h n a b ha.1
  have hid : ∀ l : List Nat, (l.map Int.ofNat).map Int.toNat = l := by
    intro l; induction l with
    | nil => rfl
    | cons x t ih => simp [ih]
  rw [poly2mpz_eq hinv h n _ hc, poly2mpz_eq hinv h n a ha, poly2mpz_eq hinv h n b hb, hid, hid,
    poly2mpzNat_mulPoly hinv h n a b ha hb]

/-! ### the real tables: every prefix of every table is an admissible modulus set -/

open Nfl.Gen in
theorem modOK16 (m : Nat) : ModOK 16 (P16.take m) where
  coprime := C06.prefix_coprime16 m
  pos := fun p hp => (C06.primes16 p (List.mem_of_mem_take hp)).pos
  small := fun p hp => by
    obtain ⟨r, hr, rfl⟩ := C06.mem_P_of_rows P16 Pn16 roots16 invN16 p (List.mem_of_mem_take hp)
      C06.lens16.1 C06.lens16.2.1 C06.lens16.2.2
    have := (C06.table16_rows_ok r hr).upper
    have h2 : (2 : Nat) ^ (16 - 2) ≤ 2 ^ 16 := by norm_num
    omega

open Nfl.Gen in
theorem modOK32 (m : Nat) : ModOK 32 (P32.take m) where
  coprime := C06.prefix_coprime32 m
  pos := fun p hp => (C06.primes32 p (List.mem_of_mem_take hp)).pos
  small := fun p hp => by
    obtain ⟨r, hr, rfl⟩ := C06.mem_P_of_rows P32 Pn32 roots32 invN32 p (List.mem_of_mem_take hp)
      C06.lens32.1 C06.lens32.2.1 C06.lens32.2.2
    have := (C06.table32_rows_ok r hr).upper
    have h2 : (2 : Nat) ^ (32 - 2) ≤ 2 ^ 32 := by norm_num
    omega

open Nfl.Gen in
theorem modOK64 (m : Nat) : ModOK 64 (P64.take m) where
  coprime := C06.prefix_coprime64 m
  pos := fun p hp => (C06.primes64 p (List.mem_of_mem_take hp)).pos
  small := fun p hp => by
    obtain ⟨r, hr, rfl⟩ := C06.mem_P_of_rows P64 Pn64 roots64 invN64 p (List.mem_of_mem_take hp)
      C06.lens64.1 C06.lens64.2.1 C06.lens64.2.2
    have := (C06.table64_rows_ok r hr).upper
    have h2 : (2 : Nat) ^ (64 - 2) ≤ 2 ^ 64 := by norm_num
    omega

/-- For `poly<uint{16,32,64}_t, n, m>` with any `m` up to the table size (indeed any `m`): the executable model
`gmpInit` of the constructor on the first `m` table rows returns, for canonical residues, the unique integer
of `[0,Q)` congruent to every residue. -/
theorem table_lift_spec (w m : Nat) (P : List Nat)
    (hP : (w = 16 ∧ P = Gen.P16) ∨ (w = 32 ∧ P = Gen.P32) ∨ (w = 64 ∧ P = Gen.P64))
    (rs : List Nat) (hr : Canon (P.take m) rs) :
    let x := poly2mpzCoeff (gmpInit w (P.take m)) rs
    0 ≤ x ∧ x < ((P.take m).prod : Int) ∧
    (∀ i, i < (P.take m).length → x % ((P.take m).getD i 0 : Int) = (rs.getD i 0 : Int)) ∧
    ∀ y : Int, 0 ≤ y → y < ((P.take m).prod : Int) →
      (∀ i, i < (P.take m).length → y % ((P.take m).getD i 0 : Int) = (rs.getD i 0 : Int)) → y = x := by
  have h : ModOK w (P.take m) := by
    rcases hP with ⟨rfl, rfl⟩ | ⟨rfl, rfl⟩ | ⟨rfl, rfl⟩
    · exact modOK16 m
    · exact modOK32 m
    · exact modOK64 m
  exact ⟨(lift_range invMod_ok h rs hr).1, (lift_range invMod_ok h rs hr).2, lift_congr invMod_ok h rs hr,
    fun y h0 hQ hres => lift_unique invMod_ok h rs hr y h0 hQ hres⟩

/-! ### non-vacuity -/

/-- the two 16-bit moduli, all residues `p−1`: the pre-reduction sum is `≈ 2.9·10^12 ≫ Q`, the lift is `Q−1` -/
example : ModOK 16 [15361, 13313] := modOK16 2
example : Canon [15361, 13313] [15360, 13312] := ⟨rfl, fun i hi => by
  have : i = 0 ∨ i = 1 := by simp at hi; omega
  rcases this with rfl | rfl <;> decide⟩
example : poly2mpzCoeff (gmpInit 16 [15361, 13313]) [15360, 13312] = 204500992 := by decide
example : rawSum (gmpInit 16 [15361, 13313]).L [15360, 13312] = 2931930736640 := by decide
example : mpz2polyCoeff [15361, 13313] (-1) = [15360, 13312] := by decide
example : liftOfMpz (gmpInit 16 [15361, 13313]) (-(2 : Int) ^ 300) = (-(2 : Int) ^ 300) % 204500993 :=
  lift_mpz2poly invMod_ok (modOK16 2) _
example : PolyCanon [15361, 13313] 2 [1, 15360, 13312, 2] := ⟨rfl, fun cm hcm i hi => by
  have h1 : cm = 0 ∨ cm = 1 := by simp at hcm; omega
  have h2 : i = 0 ∨ i = 1 := by omega
  rcases h1 with rfl | rfl <;> rcases h2 with rfl | rfl <;> decide⟩

end Nfl.C04
