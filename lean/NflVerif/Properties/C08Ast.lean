/-
C08 — the `==` / `!=` / conversion meaning theorems restated for the `expr::operator bool` GENERATED from clang's AST of
include/nfl/ops.hpp (`Generated/BoolAst.lean`), via `Nfl.BoolAst.exprToBoolM_ast` (Proofs/BoolAstEq.lean).
`genBool c m st e` runs the generated function with the class constants of the expression and the stored words of the
hand model (`rootWord`: the result of `simd_mode::store(tmp, load<simd_mode>(cm, j))`, which is NOT translated here —
the comparison kernels are tied by C05 / Compose2).
-/
import NflVerif.Properties.C08
import NflVerif.Proofs.BoolAstEq

namespace Nfl.C08Ast
open Nfl Nfl.Ex Nfl.BoolAst

/-- the generated `operator bool` on expression `e` evaluated in mode `m` -/
def genBool (c : Ctx) (m : Mode) (st : Store) (e : Expr) : Bool :=
  Gen.BoolAst.expr_to_bool c.nmod (eltCount c.l m) c.deg (fun cm j k => rootWord c m st e cm j k) (isEqRoot e)

theorem operator_bool_ast_eq (c : Ctx) (m : Mode) (st : Store) (e : Expr) (hdom : e.inDomain = true)
    (hnm : c.nmod < 2 ^ 64) (hdeg : c.deg < 2 ^ 64) : exprToBoolM c m st e = some (genBool c m st e) :=
  exprToBoolM_ast c m st e hdom hnm hdeg

/-- `bool(a == b)` computed by the generated loops is true iff all coefficients agree (every mode).
    `hsa` is the `static_assert` of the body (compiler-checked), i.e. the register width divides the degree. -/
theorem eq_iff_words_ast (c : Ctx) (m : Mode) (st : Store) (a b : Expr) (ha : a.arith = true) (hb : b.arith = true)
    (hnm : c.nmod < 2 ^ 64) (hdeg : c.deg < 2 ^ 64)
    (hsa : Gen.BoolAst.expr_to_bool_static_assert c.nmod (eltCount c.l m) c.deg true = true) :
    genBool c m st (.eq a b) = true ↔
      ∀ cm, cm < c.nmod → ∀ i, i < c.deg → loadElem c st a cm i = loadElem c st b cm i := by
  have hdiv := (static_assert_iff_dvd c m true hdeg).mp hsa
  rw [← C08.eq_iff_words c m st a b ha hb hdiv, operator_bool_ast_eq c m st (.eq a b) (by simp [Expr.inDomain, ha, hb]) hnm hdeg]
  simp

/-- `bool(a != b)` computed by the generated loops is true iff some coefficient differs (every mode) -/
theorem neq_iff_words_ast (c : Ctx) (m : Mode) (st : Store) (a b : Expr) (ha : a.arith = true) (hb : b.arith = true)
    (hnm : c.nmod < 2 ^ 64) (hdeg : c.deg < 2 ^ 64)
    (hsa : Gen.BoolAst.expr_to_bool_static_assert c.nmod (eltCount c.l m) c.deg false = true) :
    genBool c m st (.neq a b) = true ↔
      ∃ cm, cm < c.nmod ∧ ∃ i, i < c.deg ∧ loadElem c st a cm i ≠ loadElem c st b cm i := by
  have hdiv := (static_assert_iff_dvd c m false hdeg).mp hsa
  rw [← C08.neq_iff_words c m st a b ha hb hdiv, operator_bool_ast_eq c m st (.neq a b) (by simp [Expr.inDomain, ha, hb]) hnm hdeg]
  simp

/-- an arithmetic expression converts (generated loops) to true iff some coefficient is non-zero -/
theorem bool_iff_nonzero_words_ast (c : Ctx) (m : Mode) (st : Store) (e : Expr) (he : e.arith = true)
    (hnm : c.nmod < 2 ^ 64) (hdeg : c.deg < 2 ^ 64)
    (hsa : Gen.BoolAst.expr_to_bool_static_assert c.nmod (eltCount c.l m) c.deg false = true) :
    genBool c m st e = true ↔ ∃ cm, cm < c.nmod ∧ ∃ i, i < c.deg ∧ loadElem c st e cm i ≠ 0 := by
  have hdiv := (static_assert_iff_dvd c m false hdeg).mp hsa
  have hdom : e.inDomain = true := by cases e <;> simp_all [Expr.inDomain, Expr.arith]
  rw [← C08.bool_iff_nonzero_words c m st e he hdiv, operator_bool_ast_eq c m st e hdom hnm hdeg]
  simp

/-- `==` and `!=` computed by the generated loops are complementary, also across modes -/
theorem eq_neq_compl_ast (c : Ctx) (m m' : Mode) (st : Store) (a b : Expr) (ha : a.arith = true) (hb : b.arith = true)
    (hnm : c.nmod < 2 ^ 64) (hdeg : c.deg < 2 ^ 64)
    (hdiv : eltCount c.l m ∣ c.deg) (hdiv' : eltCount c.l m' ∣ c.deg) :
    genBool c m' st (.neq a b) = !genBool c m st (.eq a b) := by
  have h := C08.eq_neq_compl c m m' st a b ha hb hdiv hdiv'
  rw [operator_bool_ast_eq c m' st (.neq a b) (by simp [Expr.inDomain, ha, hb]) hnm hdeg,
    operator_bool_ast_eq c m st (.eq a b) (by simp [Expr.inDomain, ha, hb]) hnm hdeg] at h
  simpa using h

/-! ### non-vacuity: the generated loops evaluated by the kernel (early exit included) -/

example : Gen.BoolAst.expr_to_bool 2 2 4 (fun cm j k => if cm = 1 ∧ j = 2 ∧ k = 1 then 0 else 7) true = false ∧
    Gen.BoolAst.expr_to_bool 2 2 4 (fun _ _ _ => 7) true = true ∧
    Gen.BoolAst.expr_to_bool 2 2 4 (fun cm j k => if cm = 1 ∧ j = 2 ∧ k = 1 then 5 else 0) false = true ∧
    Gen.BoolAst.expr_to_bool 2 2 4 (fun _ _ _ => 0) false = false ∧
    Gen.BoolAst.expr_to_bool_static_assert 2 2 4 true = true ∧ Gen.BoolAst.expr_to_bool_static_assert 2 4 6 true = false := by
  decide

end Nfl.C08Ast
