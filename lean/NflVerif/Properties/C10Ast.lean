/-
C10 / C11 on code obtained from the source text.

`Generated/GaussAst.lean` is produced on every run by `tools/gen_gauss_ast.py` from clang's typed AST of
include/nfl/prng/FastGaussianNoise.hpp (`cmp` and the sampling path of `getNoise`, instantiations
<uint8_t,int32_t,1>, <uint16_t,int64_t,2>, <uint8_t,uint64_t,2>; per-node semantics Model/CSem.lean + Model/CSemGauss.lean:
`none` = an access outside an object).  This file states
  (1) `cmp_ast_eq_*`, `iter_ast_eq_*`: ONE execution of the generated `while` body EQUALS the hand model: with `d = decode depth wp T tape`
      (Model/Gauss.lean; `tape` = the buffer from `noise` on) it stores `(out_class) d.out` at `rand_outdata[computed_outputs]`, advances
      `noise` / `used_words` by `d.used`, increments `computed_outputs`, and refills (`noise = noise_init_ptr; used_words = 0;
      fastrandombytes(noise, innoise_bytesize)`) iff `used_words + _word_precision >= innoise_words`; it is `none` exactly when `decode` is
      (`Gen.iterSpec`).  For ALL tables (cell values any integers, taken mod 2^bits), buffers, pointers, counters.  Hypotheses:
        `depth ≤ wp`   needed: `_word_precision - depth` is unsigned (`wp_zero_differs`);
        `wp < 2^31`    needed: `(int)_word_precision` bounds the loop of `cmp`;
        words `< W = 2^8 / 2^16` the C type of the buffer;
        `TabLists`     the barriers listed in a flagged cell that is walked have exactly `wp` words `< W`: the code compares `wp` words
                       of the barrier OBJECT, the hand model stops at the end of the barrier (`cmp_short_barrier_differs`: a model/code
                       difference outside the tables `buildLookupTables` produces; `tabLists_of_tableOK`).
  (2) `iter_ast_invCDF_*`: C10's `decode = invCDF` for the generated code (under `tableOK`): the stored object denotes
      `outStore bits signed (invCDF …)`.
  (3) `iter_ast_in_bounds_*`: C11 per iteration for the generated code: with `_word_precision` words left in the buffer and the output
      index inside the output array the iteration does not leave any object (it is `some …`), writes exactly the cell
      `rand_outdata[computed_outputs]`, consumes between 1 and `wp` words.
  (4) `pre_ast_*`: the statements before the loop give a buffer of `innoise_words ≥ _word_precision` cells (the hypothesis `wp ≤ bufLen` of
      C11) and request `sizeof(in_class) * innoise_words` bytes for it; `innoise_words_f` = the value of the float product (a PARAMETER).
NOT covered: `init` / `precomputeBarrierValues` (MPFR) and `buildLookupTables` (hand model only); the float product; the `while` loop
itself is the hand-written recursion of Model/Gauss.lean (`loop`), tied to the generated body through (1).
-/
import NflVerif.Proofs.GaussAstEq
import NflVerif.Properties.C10
import NflVerif.Properties.C11

namespace Nfl.C10Ast
open Nfl Nfl.Gauss Nfl.Gen Nfl.CGauss

/-! ### (1) generated = hand model -/

theorem cmp_ast_eq_u8_i32_1 (wp : Nat) (b : Str) (noise : Ptr) (hwp : wp < 2 ^ 31) (hb : b.length = wp) (hs1 : Small b)
    (hs2 : Small noise.obj) :
    cmp_u8_i32_1 wp (ptrOf b) noise = (cmpRd b (noise.obj.drop noise.off)).map (fun r => enc 32 r.1) := by
  rw [cmp_u8_i32_1_eq_G]; exact cmpG_eq 8 wp b noise hwp hb hs1 hs2
theorem cmp_ast_eq_u16_i64_2 (wp : Nat) (b : Str) (noise : Ptr) (hwp : wp < 2 ^ 31) (hb : b.length = wp) (hs1 : Small b)
    (hs2 : Small noise.obj) :
    cmp_u16_i64_2 wp (ptrOf b) noise = (cmpRd b (noise.obj.drop noise.off)).map (fun r => enc 32 r.1) := by
  rw [cmp_u16_i64_2_eq_G]; exact cmpG_eq 16 wp b noise hwp hb hs1 hs2
theorem cmp_ast_eq_u8_u64_2 (wp : Nat) (b : Str) (noise : Ptr) (hwp : wp < 2 ^ 31) (hb : b.length = wp) (hs1 : Small b)
    (hs2 : Small noise.obj) :
    cmp_u8_u64_2 wp (ptrOf b) noise = (cmpRd b (noise.obj.drop noise.off)).map (fun r => enc 32 r.1) := by
  rw [cmp_u8_u64_2_eq_G]; exact cmpG_eq 8 wp b noise hwp hb hs1 hs2

/-- the barrier length matters: the code compares `_word_precision = 2` words of a 1-word barrier object (leaves it: `none`), the hand
model stops after the barrier's single word -/
theorem cmp_short_barrier_differs :
    cmp_u8_i32_1 2 (ptrOf [1]) ⟨[1, 0], 0⟩ = none ∧ cmpRd [1] [1, 0] = some (0, 1) := by decide

/-- FastGaussianNoise<uint8_t,int32_t,1>: one iteration, depth 1, 8-bit index, signed 32-bit output -/
theorem iter_ast_eq_u8_i32_1 (wp : Nat) (T : Tables) (out : Ptr) (co ibs iw uw : Nat) (noise nip : Ptr)
    (hwp1 : 1 ≤ wp) (hwp : wp < 2 ^ 31) (hsW : ∀ x ∈ noise.obj, x < 2 ^ 8) (hT : TabLists 1 (2 ^ 8) wp T) :
    getNoise_iter_u8_i32_1 wp (encT1 32 T) (encT2 32 T) out co ibs iw uw noise nip =
      iterSpec 32 1 wp T out co ibs iw uw noise nip := by
  rw [iter_u8_i32_1_eq_G]
  exact iterG_eq_1 32 8 wp _ _ conv_i32 T out co ibs iw uw noise nip hwp1 hwp (2 ^ 8) (by decide) hsW hT

/-- FastGaussianNoise<uint16_t,int64_t,2>: depth 2, 16-bit index, signed 64-bit output -/
theorem iter_ast_eq_u16_i64_2 (wp : Nat) (T : Tables) (out : Ptr) (co ibs iw uw : Nat) (noise nip : Ptr)
    (hwp1 : 2 ≤ wp) (hwp : wp < 2 ^ 31) (hsW : ∀ x ∈ noise.obj, x < 2 ^ 16) (hT : TabLists 2 (2 ^ 16) wp T) :
    getNoise_iter_u16_i64_2 wp (encT1 64 T) (encT2 64 T) out co ibs iw uw noise nip =
      iterSpec 64 2 wp T out co ibs iw uw noise nip := by
  rw [iter_u16_i64_2_eq_G]
  exact iterG_eq_2 64 16 wp _ _ conv_i64 T out co ibs iw uw noise nip hwp1 hwp (2 ^ 16) (by decide) hsW hT

/-- FastGaussianNoise<uint8_t,uint64_t,2>: depth 2, 8-bit index, unsigned 64-bit output -/
theorem iter_ast_eq_u8_u64_2 (wp : Nat) (T : Tables) (out : Ptr) (co ibs iw uw : Nat) (noise nip : Ptr)
    (hwp1 : 2 ≤ wp) (hwp : wp < 2 ^ 31) (hsW : ∀ x ∈ noise.obj, x < 2 ^ 8) (hT : TabLists 2 (2 ^ 8) wp T) :
    getNoise_iter_u8_u64_2 wp (encT1 64 T) (encT2 64 T) out co ibs iw uw noise nip =
      iterSpec 64 2 wp T out co ibs iw uw noise nip := by
  rw [iter_u8_u64_2_eq_G]
  exact iterG_eq_2 64 8 wp _ _ conv_u64 T out co ibs iw uw noise nip hwp1 hwp (2 ^ 8) (by decide) hsW hT

/-- a one-cell table whose cell is flagged with an empty list -/
def witT0 : Tables := ⟨#[{ val := 5, flag := true, bl := [] }], #[]⟩

/-- `depth ≤ wp` is needed: with `_word_precision = 0` the generated code computes `noise += 0u - 1` (4294967295 words) and goes on; the
hand model rejects (`none`) -/
theorem wp_zero_differs :
    (getNoise_iter_u8_i32_1 0 (encT1 32 witT0) (encT2 32 witT0) ⟨[0], 0⟩ 0 1 1 0 ⟨[0], 0⟩ ⟨[0], 0⟩).isSome = true ∧
    iterSpec 32 1 0 witT0 ⟨[0], 0⟩ 0 1 1 0 ⟨[0], 0⟩ ⟨[0], 0⟩ = none := by decide +kernel

/-! ### the hypothesis on the lists follows from `tableOK` -/

theorem cellLists_of_cellOK {W wp : Nat} {bs : List Str} {v0 : Int} {p : Str} {c : Cell} (hW : W ≤ 2 ^ 31)
    (hwf : barriersWF W wp bs = true) (h : cellOK bs v0 p c = true) (hf : c.flag = true) : CellLists wp c := by
  simp only [cellOK, Bool.and_eq_true, hf, if_true, beq_iff_eq] at h
  simp only [barriersWF, List.all_eq_true, Bool.and_eq_true, beq_iff_eq, decide_eq_true_eq] at hwf
  intro b hb
  rw [h.2] at hb
  have := hwf b (List.mem_filter.mp hb).1
  exact ⟨this.1, fun x hx => Nat.lt_of_lt_of_le (this.2 x hx) hW⟩

theorem tabLists_of_tableOK {depth W wp : Nat} {bs : List Str} {v0 : Int} {T : Tables} (hd : depth = 1 ∨ depth = 2)
    (hW : W ≤ 2 ^ 31) (hwf : barriersWF W wp bs = true) (hT : tableOK depth W bs v0 T = true) : TabLists depth W wp T := by
  rcases hd with rfl | rfl
  · simp only [tableOK, if_true] at hT
    simp only [TabLists, if_true]
    intro i c hi hc hf
    obtain ⟨c', hc', hok⟩ := tableOK1_cell hT hi
    rw [hc] at hc'; cases hc'
    exact cellLists_of_cellOK hW hwf hok hf
  · simp only [tableOK, show ¬ (2 = 1) by decide, if_false, if_true] at hT
    simp only [TabLists, show ¬ (2 = 1) by decide, if_false]
    intro i c1 row j c hi hj hc1 hf1 hrow hc hf
    obtain ⟨c', hc', _, hfl⟩ := tableOK2_cell hT hi
    rw [hc1] at hc'; cases hc'
    obtain ⟨row', hrow', hcells⟩ := hfl hf1
    rw [hrow] at hrow'; cases hrow'
    obtain ⟨c2, hc2, hok⟩ := hcells j hj
    rw [hc] at hc2; cases hc2
    exact cellLists_of_cellOK hW hwf hok hf

/-! ### (2) C10: the generated iteration stores the inverse CDF -/

theorem valOfOut_enc (b : Nat) (hb : b = 8 ∨ b = 16 ∨ b = 32 ∨ b = 64) (sg : Bool) (x : Int) :
    valOfOut b sg (enc b x) = outStore b sg x := by
  rcases hb with rfl | rfl | rfl | rfl <;> cases sg <;>
    simp only [valOfOut, enc, outStore, toSignedBits, CSem.svalW, Bool.false_eq_true, if_true, if_false] <;>
    omega

/-- on tables satisfying `tableOK` the specification of one iteration stores `(out_class) invCDF(...)` and consumes `1 … wp` words -/
theorem iterSpec_invCDF {ob depth W wp : Nat} {bs : List Str} {v0 : Int} {T : Tables} (out : Ptr) (co ibs iw uw : Nat)
    (noise nip : Ptr) (hwf : barriersWF W wp bs = true) (hsort : sortedB bs = true) (hT : tableOK depth W bs v0 T = true)
    (hwp : depth ≤ wp) (hrem : noise.off + wp ≤ noise.obj.length) (hw : ∀ x ∈ noise.obj, x < W)
    (hco : out.off + co < out.obj.length) :
    ∃ d r, decode depth wp T (noise.obj.drop noise.off) = some d ∧
      d.out = invCDF bs v0 ((noise.obj.drop noise.off).take wp) ∧ 1 ≤ d.used ∧ d.used ≤ wp ∧
      iterSpec ob depth wp T out co ibs iw uw noise nip = some r ∧
      r.1 = ⟨out.obj.set (out.off + co) (enc ob d.out), out.off⟩ ∧ r.2.1 = (co + 1) % 2 ^ 64 := by
  obtain ⟨d, hd, ho, _, h1, h2⟩ := C10.decode_of_tableOK (tape := noise.obj.drop noise.off) hwf hsort hT hwp
    (by rw [List.length_drop]; omega) (fun x hx => hw x (List.mem_of_mem_drop hx))
  by_cases hc : iw ≤ ((uw + d.used) % 2 ^ 64 + wp) % 2 ^ 64
  · have hspec : iterSpec ob depth wp T out co ibs iw uw noise nip = some (⟨out.obj.set (out.off + co) (enc ob d.out), out.off⟩,
        (co + 1) % 2 ^ 64, 0, nip, [Ext.fastrandombytes nip ibs]) := by
      simp only [iterSpec, hd, storeU, hco, if_true, if_pos hc]
    exact ⟨d, _, hd, ho, h1, h2, hspec, rfl, rfl⟩
  · have hspec : iterSpec ob depth wp T out co ibs iw uw noise nip = some (⟨out.obj.set (out.off + co) (enc ob d.out), out.off⟩,
        (co + 1) % 2 ^ 64, (uw + d.used) % 2 ^ 64, ⟨noise.obj, noise.off + d.used⟩, []) := by
      simp only [iterSpec, hd, storeU, hco, if_true, if_neg hc]
    exact ⟨d, _, hd, ho, h1, h2, hspec, rfl, rfl⟩

/-- **C10 for the generated code**, `<uint8_t,int32_t,1>`: the object stored at `rand_outdata[computed_outputs]` denotes
`outStore 32 true (invCDF barriers v₀ u)`, `u` = the next `wp` words of the buffer -/
theorem iter_ast_invCDF_u8_i32_1 {wp : Nat} {bs : List Str} {v0 : Int} {T : Tables} (out : Ptr) (co ibs iw uw : Nat)
    (noise nip : Ptr) (hwf : barriersWF (2 ^ 8) wp bs = true) (hsort : sortedB bs = true)
    (hT : tableOK 1 (2 ^ 8) bs v0 T = true) (hwp1 : 1 ≤ wp) (hwp : wp < 2 ^ 31)
    (hrem : noise.off + wp ≤ noise.obj.length) (hw : ∀ x ∈ noise.obj, x < 2 ^ 8) (hco : out.off + co < out.obj.length) :
    ∃ r y, getNoise_iter_u8_i32_1 wp (encT1 32 T) (encT2 32 T) out co ibs iw uw noise nip = some r ∧
      r.1 = ⟨out.obj.set (out.off + co) y, out.off⟩ ∧
      valOfOut 32 true y = outStore 32 true (invCDF bs v0 ((noise.obj.drop noise.off).take wp)) := by
  rw [iter_ast_eq_u8_i32_1 wp T out co ibs iw uw noise nip hwp1 hwp hw (tabLists_of_tableOK (Or.inl rfl) (by decide) hwf hT)]
  obtain ⟨d, r, _, ho, _, _, hr, hr1, _⟩ := iterSpec_invCDF (ob := 32) out co ibs iw uw noise nip hwf hsort hT hwp1 hrem hw hco
  exact ⟨r, _, hr, hr1, by rw [valOfOut_enc 32 (by decide), ho]⟩

theorem iter_ast_invCDF_u16_i64_2 {wp : Nat} {bs : List Str} {v0 : Int} {T : Tables} (out : Ptr) (co ibs iw uw : Nat)
    (noise nip : Ptr) (hwf : barriersWF (2 ^ 16) wp bs = true) (hsort : sortedB bs = true)
    (hT : tableOK 2 (2 ^ 16) bs v0 T = true) (hwp1 : 2 ≤ wp) (hwp : wp < 2 ^ 31)
    (hrem : noise.off + wp ≤ noise.obj.length) (hw : ∀ x ∈ noise.obj, x < 2 ^ 16) (hco : out.off + co < out.obj.length) :
    ∃ r y, getNoise_iter_u16_i64_2 wp (encT1 64 T) (encT2 64 T) out co ibs iw uw noise nip = some r ∧
      r.1 = ⟨out.obj.set (out.off + co) y, out.off⟩ ∧
      valOfOut 64 true y = outStore 64 true (invCDF bs v0 ((noise.obj.drop noise.off).take wp)) := by
  rw [iter_ast_eq_u16_i64_2 wp T out co ibs iw uw noise nip hwp1 hwp hw (tabLists_of_tableOK (Or.inr rfl) (by decide) hwf hT)]
  obtain ⟨d, r, _, ho, _, _, hr, hr1, _⟩ := iterSpec_invCDF (ob := 64) out co ibs iw uw noise nip hwf hsort hT hwp1 hrem hw hco
  exact ⟨r, _, hr, hr1, by rw [valOfOut_enc 64 (by decide), ho]⟩

theorem iter_ast_invCDF_u8_u64_2 {wp : Nat} {bs : List Str} {v0 : Int} {T : Tables} (out : Ptr) (co ibs iw uw : Nat)
    (noise nip : Ptr) (hwf : barriersWF (2 ^ 8) wp bs = true) (hsort : sortedB bs = true)
    (hT : tableOK 2 (2 ^ 8) bs v0 T = true) (hwp1 : 2 ≤ wp) (hwp : wp < 2 ^ 31)
    (hrem : noise.off + wp ≤ noise.obj.length) (hw : ∀ x ∈ noise.obj, x < 2 ^ 8) (hco : out.off + co < out.obj.length) :
    ∃ r y, getNoise_iter_u8_u64_2 wp (encT1 64 T) (encT2 64 T) out co ibs iw uw noise nip = some r ∧
      r.1 = ⟨out.obj.set (out.off + co) y, out.off⟩ ∧
      valOfOut 64 false y = outStore 64 false (invCDF bs v0 ((noise.obj.drop noise.off).take wp)) := by
  rw [iter_ast_eq_u8_u64_2 wp T out co ibs iw uw noise nip hwp1 hwp hw (tabLists_of_tableOK (Or.inr rfl) (by decide) hwf hT)]
  obtain ⟨d, r, _, ho, _, _, hr, hr1, _⟩ := iterSpec_invCDF (ob := 64) out co ibs iw uw noise nip hwf hsort hT hwp1 hrem hw hco
  exact ⟨r, _, hr, hr1, by rw [valOfOut_enc 64 (by decide), ho]⟩

/-! ### (3) C11 per iteration -/

/-- with `wp` words left and the output index inside the output array, one iteration (specification side) leaves no object,
writes exactly one cell, consumes `1 … wp` words and inspects only words it consumes -/
theorem iterSpec_in_bounds {ob depth W wp : Nat} {T : Tables} (out : Ptr) (co ibs iw uw : Nat) (noise nip : Ptr)
    (hT : shapeOK depth W wp T = true) (hwp : depth ≤ wp) (hrem : noise.off + wp ≤ noise.obj.length)
    (hw : ∀ x ∈ noise.obj, x < W) (hco : out.off + co < out.obj.length) :
    ∃ d r, decode depth wp T (noise.obj.drop noise.off) = some d ∧ d.seen ≤ d.used ∧ 1 ≤ d.used ∧ d.used ≤ wp ∧
      iterSpec ob depth wp T out co ibs iw uw noise nip = some r ∧
      r.1.off = out.off ∧ r.1.obj.length = out.obj.length ∧ (∀ j, j ≠ out.off + co → r.1.obj[j]? = out.obj[j]?) ∧
      r.2.1 = (co + 1) % 2 ^ 64 := by
  obtain ⟨d, hd, hs⟩ := decode_shape (tape := noise.obj.drop noise.off) hT hwp (by rw [List.length_drop]; omega)
    (fun x hx => hw x (List.mem_of_mem_drop hx))
  have hset : ∀ j, j ≠ out.off + co → (out.obj.set (out.off + co) (enc ob d.out))[j]? = out.obj[j]? := by
    intro j hj; rw [List.getElem?_set_ne (Ne.symm hj)]
  by_cases hc : iw ≤ ((uw + d.used) % 2 ^ 64 + wp) % 2 ^ 64
  · have hspec : iterSpec ob depth wp T out co ibs iw uw noise nip = some (⟨out.obj.set (out.off + co) (enc ob d.out), out.off⟩,
        (co + 1) % 2 ^ 64, 0, nip, [Ext.fastrandombytes nip ibs]) := by
      simp only [iterSpec, hd, storeU, hco, if_true, if_pos hc]
    exact ⟨d, _, hd, hs.seen_le, hs.used_pos, hs.used_le, hspec, rfl, by simp, hset, rfl⟩
  · have hspec : iterSpec ob depth wp T out co ibs iw uw noise nip = some (⟨out.obj.set (out.off + co) (enc ob d.out), out.off⟩,
        (co + 1) % 2 ^ 64, (uw + d.used) % 2 ^ 64, ⟨noise.obj, noise.off + d.used⟩, []) := by
      simp only [iterSpec, hd, storeU, hco, if_true, if_neg hc]
    exact ⟨d, _, hd, hs.seen_le, hs.used_pos, hs.used_le, hspec, rfl, by simp, hset, rfl⟩

/-- **C11 for the generated code**, `<uint8_t,int32_t,1>`: the iteration returns `some …` (no access of the generated code left an
object: buffer, tables, barriers, output array) and writes exactly `rand_outdata[computed_outputs]` -/
theorem iter_ast_in_bounds_u8_i32_1 {wp : Nat} {T : Tables} (out : Ptr) (co ibs iw uw : Nat) (noise nip : Ptr)
    (hT : shapeOK 1 (2 ^ 8) wp T = true) (hL : TabLists 1 (2 ^ 8) wp T) (hwp1 : 1 ≤ wp) (hwp : wp < 2 ^ 31)
    (hrem : noise.off + wp ≤ noise.obj.length) (hw : ∀ x ∈ noise.obj, x < 2 ^ 8) (hco : out.off + co < out.obj.length) :
    ∃ r, getNoise_iter_u8_i32_1 wp (encT1 32 T) (encT2 32 T) out co ibs iw uw noise nip = some r ∧
      r.1.off = out.off ∧ r.1.obj.length = out.obj.length ∧ (∀ j, j ≠ out.off + co → r.1.obj[j]? = out.obj[j]?) ∧
      r.2.1 = (co + 1) % 2 ^ 64 := by
  rw [iter_ast_eq_u8_i32_1 wp T out co ibs iw uw noise nip hwp1 hwp hw hL]
  obtain ⟨d, r, _, _, _, _, hr, h⟩ := iterSpec_in_bounds (ob := 32) out co ibs iw uw noise nip hT hwp1 hrem hw hco
  exact ⟨r, hr, h⟩

theorem iter_ast_in_bounds_u16_i64_2 {wp : Nat} {T : Tables} (out : Ptr) (co ibs iw uw : Nat) (noise nip : Ptr)
    (hT : shapeOK 2 (2 ^ 16) wp T = true) (hL : TabLists 2 (2 ^ 16) wp T) (hwp1 : 2 ≤ wp) (hwp : wp < 2 ^ 31)
    (hrem : noise.off + wp ≤ noise.obj.length) (hw : ∀ x ∈ noise.obj, x < 2 ^ 16) (hco : out.off + co < out.obj.length) :
    ∃ r, getNoise_iter_u16_i64_2 wp (encT1 64 T) (encT2 64 T) out co ibs iw uw noise nip = some r ∧
      r.1.off = out.off ∧ r.1.obj.length = out.obj.length ∧ (∀ j, j ≠ out.off + co → r.1.obj[j]? = out.obj[j]?) ∧
      r.2.1 = (co + 1) % 2 ^ 64 := by
  rw [iter_ast_eq_u16_i64_2 wp T out co ibs iw uw noise nip hwp1 hwp hw hL]
  obtain ⟨d, r, _, _, _, _, hr, h⟩ := iterSpec_in_bounds (ob := 64) out co ibs iw uw noise nip hT hwp1 hrem hw hco
  exact ⟨r, hr, h⟩

theorem iter_ast_in_bounds_u8_u64_2 {wp : Nat} {T : Tables} (out : Ptr) (co ibs iw uw : Nat) (noise nip : Ptr)
    (hT : shapeOK 2 (2 ^ 8) wp T = true) (hL : TabLists 2 (2 ^ 8) wp T) (hwp1 : 2 ≤ wp) (hwp : wp < 2 ^ 31)
    (hrem : noise.off + wp ≤ noise.obj.length) (hw : ∀ x ∈ noise.obj, x < 2 ^ 8) (hco : out.off + co < out.obj.length) :
    ∃ r, getNoise_iter_u8_u64_2 wp (encT1 64 T) (encT2 64 T) out co ibs iw uw noise nip = some r ∧
      r.1.off = out.off ∧ r.1.obj.length = out.obj.length ∧ (∀ j, j ≠ out.off + co → r.1.obj[j]? = out.obj[j]?) ∧
      r.2.1 = (co + 1) % 2 ^ 64 := by
  rw [iter_ast_eq_u8_u64_2 wp T out co ibs iw uw noise nip hwp1 hwp hw hL]
  obtain ⟨d, r, _, _, _, _, hr, h⟩ := iterSpec_in_bounds (ob := 64) out co ibs iw uw noise nip hT hwp1 hrem hw hco
  exact ⟨r, hr, h⟩

/-! ### (4) before the loop: the buffer has at least `_word_precision` words -/

/-- `innoise_words` as computed by the code from the value `f` of the float product -/
def wordsOf (wp f : Nat) : Nat := if f < wp then wp else f

theorem pre_ast_u8_i32_1 (wp f : Nat) (hwp : wp < 2 ^ 32) :
    getNoise_pre_u8_i32_1 wp f = some (0, (1 * wordsOf wp f) % 2 ^ 64, wordsOf wp f, 0, newArray (wordsOf wp f),
      newArray (wordsOf wp f), [Ext.fastrandombytes (newArray (wordsOf wp f)) ((1 * wordsOf wp f) % 2 ^ 64)]) ∧
    wp ≤ wordsOf wp f ∧ (newArray (wordsOf wp f)).obj.length = wordsOf wp f := by
  have hm : wp % 2 ^ 64 = wp := Nat.mod_eq_of_lt (by omega)
  refine ⟨?_, by unfold wordsOf; split <;> omega, by simp [newArray]⟩
  simp only [getNoise_pre_u8_i32_1, wordsOf, CSem.ltU, CSem.castU, CSem.castSU, CSem.mulU, hm, decide_eq_true_eq,
    Option.bind_eq_bind, Option.pure_def]
  split <;> simp
theorem pre_ast_u16_i64_2 (wp f : Nat) (hwp : wp < 2 ^ 32) :
    getNoise_pre_u16_i64_2 wp f = some (0, (2 * wordsOf wp f) % 2 ^ 64, wordsOf wp f, 0, newArray (wordsOf wp f),
      newArray (wordsOf wp f), [Ext.fastrandombytes (newArray (wordsOf wp f)) ((2 * wordsOf wp f) % 2 ^ 64)]) ∧
    wp ≤ wordsOf wp f ∧ (newArray (wordsOf wp f)).obj.length = wordsOf wp f := by
  have hm : wp % 2 ^ 64 = wp := Nat.mod_eq_of_lt (by omega)
  refine ⟨?_, by unfold wordsOf; split <;> omega, by simp [newArray]⟩
  simp only [getNoise_pre_u16_i64_2, wordsOf, CSem.ltU, CSem.castU, CSem.castSU, CSem.mulU, hm, decide_eq_true_eq,
    Option.bind_eq_bind, Option.pure_def]
  split <;> simp
theorem pre_ast_u8_u64_2 (wp f : Nat) (hwp : wp < 2 ^ 32) :
    getNoise_pre_u8_u64_2 wp f = some (0, (1 * wordsOf wp f) % 2 ^ 64, wordsOf wp f, 0, newArray (wordsOf wp f),
      newArray (wordsOf wp f), [Ext.fastrandombytes (newArray (wordsOf wp f)) ((1 * wordsOf wp f) % 2 ^ 64)]) ∧
    wp ≤ wordsOf wp f ∧ (newArray (wordsOf wp f)).obj.length = wordsOf wp f := by
  have hm : wp % 2 ^ 64 = wp := Nat.mod_eq_of_lt (by omega)
  refine ⟨?_, by unfold wordsOf; split <;> omega, by simp [newArray]⟩
  simp only [getNoise_pre_u8_u64_2, wordsOf, CSem.ltU, CSem.castU, CSem.castSU, CSem.mulU, hm, decide_eq_true_eq,
    Option.bind_eq_bind, Option.pure_def]
  split <;> simp

/-- the `while` condition is `computed_outputs < rlen` -/
theorem cond_ast (rlen co : Nat) : getNoise_cond_u8_i32_1 rlen co = some (decide (co < rlen)) ∧
    getNoise_cond_u16_i64_2 rlen co = some (decide (co < rlen)) ∧ getNoise_cond_u8_u64_2 rlen co = some (decide (co < rlen)) :=
  ⟨rfl, rfl, rfl⟩

/-! ### non-vacuity: C10's example tables (`W = 4`), run through the generated iteration of the depth-2 instantiation -/

example : (buildLUT 2 4 C10.exBs 0).bind (fun T =>
      getNoise_iter_u8_u64_2 2 (encT1 64 T) (encT2 64 T) ⟨[0, 0], 0⟩ 1 8 8 0 ⟨[1, 3, 0, 0, 3, 3, 2, 1], 0⟩ ⟨[], 0⟩) =
    some (⟨[0, 1], 0⟩, 2, 2, ⟨[1, 3, 0, 0, 3, 3, 2, 1], 2⟩, []) := by decide +kernel


end Nfl.C10Ast
