/-
C13 — "Random byte stream is Salsa20 keystream under a per-request unique nonce"   (PARTIAL)

Proved here, for ALL keys, request histories and lengths, about the model `Nfl.FastRandom` of
lib/prng/fastrandombytes.cpp with the assembly routine instantiated by the Salsa20/20 specification
`Nfl.Salsa20.stream`:
  nonce_after, request_output(_lt), stream_length, stream_prefix, stream_window, block_inputs_injective,
  requests_never_share_block_input, key_once.

NOT proved (observed at run time by `./check C13`, harness/salsa.cpp):
  * that nfl_crypto_stream_salsa20_amd64_xmm6.s (4 823 lines of assembly, not modelled) computes
    `Nfl.Salsa20.stream` — compared byte for byte with the Lean specification and a portable C Salsa20;
  * that it writes nothing outside `r[0..rlen)` — guard pages on both sides and red zones.
  The full property would replace the parameter `gen := Salsa20.stream` by a model of the assembly and add
  a memory-footprint theorem; both are outside this development.

"No two requests return overlapping keystream" has the formal content `block_inputs_injective`: distinct
(nonce, block counter) pairs give distinct 64-byte inputs of the Salsa20 hash function.  That distinct inputs
give unrelated outputs is the PRF assumption on Salsa20 and is NOT claimed.
-/
import NflVerif.Proofs.FastRandom
namespace Nfl.C13
open Nfl.Salsa20 Nfl.FastRandom Nfl.C13aux

/-! ### the nonce is the request counter -/

/-- from any state whose nonce encodes `m`, after the history `lens` the nonce encodes `m + #requests` (mod 2^64) -/
theorem nonce_after_from (os : Nat → List Nat) (lens : List Nat) : ∀ (s : State) (m : Nat),
    s.nonce = encodeLE 8 (m % 2 ^ 64) →
    (runState os s lens).nonce = encodeLE 8 ((m + lens.length) % 2 ^ 64) := by
  induction lens with
  | nil => intro s m h; simpa [runState] using h
  | cons len rest ih =>
    intro s m h
    have h1 : (next os s).nonce = encodeLE 8 ((m + 1) % 2 ^ 64) := by
      rw [next_nonce, h, bump_encodeLE]
    have := ih (next os s) (m + 1) h1
    simp only [runState, List.foldl_cons, List.length_cons] at this ⊢
    rw [this]; congr 2; omega

/-- **nonce_after**: after `n` requests (of any lengths, with any key source) the stored nonce is the 8-byte
little-endian encoding of `n mod 2^64`. -/
theorem nonce_after (os : Nat → List Nat) (lens : List Nat) :
    (runState os start lens).nonce = encodeLE 8 (lens.length % 2 ^ 64) := by
  have := nonce_after_from os lens start 0 (by decide)
  simpa using this

example : (runState (fun _ => List.replicate 32 7) start [5, 0, 1000]).nonce = [3, 0, 0, 0, 0, 0, 0, 0] := by
  decide +kernel
/-- the carry into the second byte really happens in the model (256 requests) -/
example : (runState (fun _ => []) start (List.replicate 256 0)).nonce = [0, 1, 0, 0, 0, 0, 0, 0] := by
  decide +kernel
/-- wrap-around of the 64-bit counter -/
example : (runState (fun _ => []) (startAt (2 ^ 64 - 1)) [1]).nonce = List.replicate 8 0 := by decide +kernel

/-! ### what a request returns -/

/-- **request_output** (generic in the byte generator): the `i`-th request of any history is served with the key
delivered by the *first* call of `randombytes` and the nonce `LE64 (i mod 2^64)`. -/
theorem request_output_gen (gen : List Nat → List Nat → Nat → List Nat) (os : Nat → List Nat) (lens : List Nat)
    (i : Nat) (hi : i < lens.length) :
    (outputs gen os start lens)[i]? = some (gen (os 0) (encodeLE 8 (i % 2 ^ 64)) lens[i]) := by
  have := request_output_from gen os lens start 0 i (start_inv os) (by decide) hi
  simpa using this

/-- **request_output**: with the assembly routine read as the Salsa20/20 specification, the `i`-th request
(`i = 0, 1, …`) of any history returns exactly `stream key (LE64 (i mod 2^64)) len` — the first `len` bytes of the
Salsa20/20 keystream for the process key and that nonce, block counter from 0 — for every `len` including 0. -/
theorem request_output (os : Nat → List Nat) (lens : List Nat) (i : Nat) (hi : i < lens.length) :
    (outputs stream os start lens)[i]? = some (stream (os 0) (encodeLE 8 (i % 2 ^ 64)) lens[i]) :=
  request_output_gen stream os lens i hi

/-- the form of the property text: for the `n`-th request with `n < 2^64` the nonce is `LE64 n` -/
theorem request_output_lt (os : Nat → List Nat) (lens : List Nat) (n : Nat) (hn : n < lens.length)
    (h64 : n < 2 ^ 64) :
    (outputs stream os start lens)[n]? = some (stream (os 0) (encodeLE 8 n) lens[n]) := by
  have := request_output os lens n hn
  rwa [Nat.mod_eq_of_lt h64] at this

/-- the white-box harness presets the nonce to `LE64 m` before the first request (`startAt m`): that state has the
nonce reached from `start` by `m` requests, … -/
theorem startAt_nonce_reachable (os : Nat → List Nat) (m : Nat) :
    (startAt m).nonce = (runState os start (List.replicate m 0)).nonce := by
  rw [nonce_after]; simp [startAt, encode_eq]

/-- … and from it the `i`-th request returns `stream key (LE64 (m + i mod 2^64)) len` (what the driver checks on
white-box lines) -/
theorem request_output_startAt (os : Nat → List Nat) (m : Nat) (lens : List Nat) (i : Nat) (hi : i < lens.length) :
    (outputs stream os (startAt m) lens)[i]? = some (stream (os 0) (encodeLE 8 ((m + i) % 2 ^ 64)) lens[i]) :=
  request_output_from stream os lens (startAt m) m i (Or.inl ⟨rfl, rfl⟩) (by simp [startAt, encode_eq]) hi

/-- a concrete history (lengths 0, 3, 65; key 1..32): outputs as computed by the specification -/
def exKey : List Nat := (List.range 32).map (· + 1)
example : outputs stream (fun _ => exKey) start [0, 3, 65]
    = [[], stream exKey [1, 0, 0, 0, 0, 0, 0, 0] 3, stream exKey [2, 0, 0, 0, 0, 0, 0, 0] 65] := by decide +kernel
example : (stream exKey [1, 0, 0, 0, 0, 0, 0, 0] 3).length = 3 ∧ stream exKey [1, 0, 0, 0, 0, 0, 0, 0] 3
    ≠ stream exKey [2, 0, 0, 0, 0, 0, 0, 0] 3 := by decide +kernel

/-! ### the stream: length, prefixes -/

/-- **stream_length**: exactly `len` bytes, for every `len` (0 included) -/
theorem stream_length (key nonce : List Nat) (len : Nat) : (stream key nonce len).length = len := by
  unfold stream
  rw [List.length_take, blocks_length]
  omega

/-- **stream_prefix**: a shorter request returns a prefix of what a longer one would have returned under the same
nonce: lengths that are not a multiple of 64 just truncate the last block. -/
theorem stream_prefix (key nonce : List Nat) {len len' : Nat} (h : len ≤ len') :
    stream key nonce len = (stream key nonce len').take len := by
  unfold stream
  obtain ⟨rest, hr⟩ := blocks_prefix key nonce (show (len + 63) / 64 ≤ (len' + 63) / 64 by omega)
  rw [List.take_take, Nat.min_eq_left h, hr, List.take_append_of_le_length]
  rw [blocks_length]; omega

example : stream exKey (List.replicate 8 0) 63 = (stream exKey (List.replicate 8 0) 130).take 63 := by
  decide +kernel

/-- **stream_window** (random access): bytes `[off, off + n)` of a request of `len ≥ off + n` bytes are what
`Salsa20.window` computes from the blocks `off / 64, …` alone.  This is what the driver evaluates on the sampled
windows (`frbwin` / `salsa20asmwin` lines) of requests too long to be re-generated in Lean (≥ 2^24 … 2^33 bytes);
the block counter `off / 64 + i` is a natural number, i.e. NOT truncated to 32 bits. -/
theorem stream_window (key nonce : List Nat) {off n len : Nat} (h : off + n ≤ len) :
    ((stream key nonce len).drop off).take n = window key nonce off n := by
  have hp : stream key nonce (off + n) = (stream key nonce len).take (off + n) := stream_prefix key nonce h
  have h1 : ((stream key nonce len).drop off).take n = (stream key nonce (off + n)).drop off := by
    rw [hp, List.drop_take]; simp
  rw [h1]
  have := window_eq key nonce (off / 64) (off % 64) n
  have hoff : 64 * (off / 64) + off % 64 = off := by omega
  rw [hoff] at this
  exact this

/-- … and the window has exactly `n` bytes -/
theorem window_length (key nonce : List Nat) (off n : Nat) : (window key nonce off n).length = n := by
  rw [← stream_window key nonce (Nat.le_refl (off + n)), List.length_take, List.length_drop, stream_length]
  omega

example : window exKey (List.replicate 8 0) 60 10 = ((stream exKey (List.replicate 8 0) 200).drop 60).take 10 := by
  decide +kernel
example : (window exKey (List.replicate 8 0) (2 ^ 32 + 37) 3).length = 3 := by decide +kernel

/-- each byte of the stream is a byte of the block it falls into: byte `p` of the stream (p < len) is byte `p % 64`
of `Salsa20_key(nonce, p / 64)` -/
theorem stream_eq_blocks (key nonce : List Nat) (len : Nat) :
    stream key nonce len = ((List.range ((len + 63) / 64)).flatMap fun j => Salsa20.hash (blockInput key nonce j)).take len :=
  rfl

/-! ### distinct (request, block) pairs feed distinct inputs to the Salsa20 core -/

/-- **block_inputs_injective**: for request numbers `n, n' < 2^64` and block counters `j, j' < 2^64`,
`(n, j) ≠ (n', j')` implies that the 64-byte inputs of the Salsa20 hash function differ (same key). -/
theorem block_inputs_injective (key : List Nat) {n n' j j' : Nat} (hn : n < 2 ^ 64) (hn' : n' < 2 ^ 64)
    (hj : j < 2 ^ 64) (hj' : j' < 2 ^ 64) (h : (n, j) ≠ (n', j')) :
    blockInput key (encodeLE 8 n) j ≠ blockInput key (encodeLE 8 n') j' := by
  intro heq
  apply h
  unfold blockInput expand32 at heq
  simp only [List.append_assoc] at heq
  have h1 := List.append_cancel_left (List.append_cancel_left (List.append_cancel_left heq))
  have h2 := List.append_inj_left h1 (by simp [encodeLE_length])
  have h3 := List.append_inj_left (List.append_inj_right h1 (by simp [encodeLE_length])) (by simp [encodeLE_length])
  have e1 : n = n' := encodeLE_inj (k := 8) (by simpa using hn) (by simpa using hn') h2
  have e2 : j = j' := encodeLE_inj (k := 8) (by simpa using hj) (by simpa using hj') h3
  rw [e1, e2]

/-- **requests_never_share_block_input**: two different requests `i ≠ i'` of one process (fewer than 2^64 requests)
never feed the same input to the Salsa20 core, whatever blocks of their outputs are considered — this is the
formal content of "no two requests return overlapping keystream" (modulo the PRF assumption on Salsa20). -/
theorem requests_never_share_block_input (key : List Nat) {i i' j j' : Nat} (hi : i < 2 ^ 64) (hi' : i' < 2 ^ 64)
    (hj : j < 2 ^ 64) (hj' : j' < 2 ^ 64) (hne : i ≠ i') :
    blockInput key (encodeLE 8 i) j ≠ blockInput key (encodeLE 8 i') j' :=
  block_inputs_injective key hi hi' hj hj' (fun h => hne (congrArg Prod.fst h))

example : blockInput exKey (encodeLE 8 1) 0 ≠ blockInput exKey (encodeLE 8 0) 1 := by decide +kernel
/-- the bound 2^64 is needed: request 2^64 would reuse the nonce of request 0 -/
example : blockInput exKey (encodeLE 8 (2 ^ 64)) 0 = blockInput exKey (encodeLE 8 0) 0 := by decide +kernel

/-! ### the key is drawn exactly once -/

/-- **key_once**: in any history `randombytes` is called exactly once — by the first request — (never, in the
empty history), and from then on the key is what that first call delivered. -/
theorem key_once (os : Nat → List Nat) (lens : List Nat) :
    (runState os start lens).seeds = min lens.length 1 ∧
    (lens ≠ [] → (runState os start lens).init = true ∧ (runState os start lens).key = os 0) := by
  cases lens with
  | nil => exact ⟨rfl, fun h => absurd rfl h⟩
  | cons len rest =>
    have := runState_inv os (len :: rest) start (start_inv os) (by simp)
    refine ⟨?_, fun _ => ⟨this.1, this.2.2⟩⟩
    rw [this.2.1]; simp

example : (runState (fun k => List.replicate 32 (k + 9)) start [4, 4, 4]).seeds = 1 ∧
    (runState (fun k => List.replicate 32 (k + 9)) start [4, 4, 4]).key = List.replicate 32 9 := by decide +kernel

end Nfl.C13
