/-
C07 / C08 — property theorems for the evaluators GENERATED from clang's AST (`Generated/ExprAst.lean`, tools/gen_expr_ast.py), second part
(via `Proofs/ExprAstEq2.lean`):

C07  the fused product in the vector builds: `Nfl.ExprAst.assign_fma_sse_u32_eq` / `…_pointwise` and `assign_fma_avx2_u16_eq` / `…_pointwise`
     (registered directly) — under Compose2's admissibility hypotheses the generated SSE / AVX2 evaluator of `d = a0 + shoup(a1*a2, a3)`
     is `Ex.assign` = the pointwise meaning, every destination and aliasing; here: coefficient form + frame, and serial = SSE at the level of the
     generated code.
C08  comparison shapes instantiated THROUGH the expression machinery (`bool(a == b)`, `bool(a != b)`, `bool((a + b) == c)`):
     `Nfl.ExprAst.tobool_<shape>_<build>_<T>_eq` (registered directly) — `Ex.exprToBool … = some (Gen.tobool_… )`; here C08's `==` / `!=`
     meaning theorems transported to the generated evaluators.
-/
import NflVerif.Properties.C07Ast
import NflVerif.Properties.C08Ast
import NflVerif.Proofs.ExprAstEq2

namespace Nfl.C07Ast2
open Nfl Nfl.Ex Nfl.ExprAst Nfl.CSemExpr
open Gen.ExprAst

/-! ## C07: the fused product, SSE (`uint32_t`) and AVX2 (`uint16_t`) builds -/

/-- coefficient form for the GENERATED SSE evaluator of `d = a0 + shoup(a1*a2, a3)`: every coefficient of the destination is the exact value
`(a0 + a1·a2) mod p` on the heap BEFORE the assignment (so also when `d` is one of the operands), every other object and the number of
objects are unchanged.  Hypotheses = those of `Compose2.expr_real_kernels_correct_coeff` + `Sizes` (C types). -/
theorem fma_sse_u32_coeff_ast (c : Ctx) (hl : c.l = .w32) (hrows : c.TableRows) (S : Sizes c) (m : Store) (d a0 a1 a2 a3 : Nat)
    (hd : d < m.length) (hlen : (m.getD d []).length = c.n)
    (hdiv : eltCount c.l (mode .sse c.l (fmaTree a0 a1 a2 a3)) ∣ c.deg) (hadm : Adm c m (fmaTree a0 a1 a2 a3)) :
    (∀ cm, cm < c.nmod → ∀ i, i < c.deg →
      rd (assign_fma_sse_u32 c.deg c.nmod c.p (pnOf c) m d a0 a1 a2 a3) d (cm * c.deg + i) = evalExact c m (fmaTree a0 a1 a2 a3) cm i) ∧
    (∀ h, h ≠ d → (assign_fma_sse_u32 c.deg c.nmod c.p (pnOf c) m d a0 a1 a2 a3).getD h [] = m.getD h []) ∧
    (assign_fma_sse_u32 c.deg c.nmod c.p (pnOf c) m d a0 a1 a2 a3).length = m.length := by
  rw [assign_fma_sse_u32_eq_real c hl S]
  exact Compose2.expr_real_kernels_correct_coeff c hrows .sse d _ m hd hlen (by rw [hl]; rfl) hdiv hadm

/-- the same for the GENERATED AVX2 evaluator on `uint16_t` (8 lanes, `mulmod_shoup<uint16_t, avx2>` under `addmod<uint16_t, sse>`) -/
theorem fma_avx2_u16_coeff_ast (c : Ctx) (hl : c.l = .w16) (hrows : c.TableRows) (S : Sizes c) (m : Store) (d a0 a1 a2 a3 : Nat)
    (hd : d < m.length) (hlen : (m.getD d []).length = c.n)
    (hdiv : eltCount c.l (mode .avx2 c.l (fmaTree a0 a1 a2 a3)) ∣ c.deg) (hadm : Adm c m (fmaTree a0 a1 a2 a3)) :
    (∀ cm, cm < c.nmod → ∀ i, i < c.deg →
      rd (assign_fma_avx2_u16 c.deg c.nmod c.p (pnOf c) m d a0 a1 a2 a3) d (cm * c.deg + i) = evalExact c m (fmaTree a0 a1 a2 a3) cm i) ∧
    (∀ h, h ≠ d → (assign_fma_avx2_u16 c.deg c.nmod c.p (pnOf c) m d a0 a1 a2 a3).getD h [] = m.getD h []) ∧
    (assign_fma_avx2_u16 c.deg c.nmod c.p (pnOf c) m d a0 a1 a2 a3).length = m.length := by
  rw [assign_fma_avx2_u16_eq_real c hl S]
  exact Compose2.expr_real_kernels_correct_coeff c hrows .avx2 d _ m hd hlen (by rw [hl]; rfl) hdiv hadm

/-- serial and SSE GENERATED evaluators of the fused product agree on admissible heaps of words (mode irrelevance at the level of the translated
code, now including the SSE `mulmod_shoup` kernel) -/
theorem fma_serial_eq_sse_ast (c : Ctx) (hl : c.l = .w32) (hrows : c.TableRows) (S : Sizes c) (m : Store) (hm : InRange c.w m)
    (d a0 a1 a2 a3 : Nat) (hd : d < m.length) (hlen : (m.getD d []).length = c.n)
    (hdiv : eltCount c.l (mode .sse c.l (fmaTree a0 a1 a2 a3)) ∣ c.deg) (hadm : Adm c m (fmaTree a0 a1 a2 a3)) :
    assign_fma_serial_u32 c.deg c.nmod c.p (pnOf c) m d a0 a1 a2 a3 = assign_fma_sse_u32 c.deg c.nmod c.p (pnOf c) m d a0 a1 a2 a3 := by
  rw [assign_fma_serial_u32_eq c hl S m hm, assign_fma_sse_u32_eq c hl hrows S m d a0 a1 a2 a3 hd hlen hdiv hadm]
  exact C07.backend_irrelevant c .serial .sse d _ m hd hlen (by rw [hl]; exact Nat.one_dvd _) hdiv

/-- `admB` (the executable admissibility check) implies `Adm` -/
theorem adm_of_admB (c : Ctx) (st : Store) : ∀ e, admB c st e = true → Adm c st e := by
  intro e
  induction e with
  | leaf h => intro _; trivial
  | add a b iha ihb | sub a b iha ihb | mul a b iha ihb =>
    intro h
    simp only [admB, Bool.and_eq_true, List.all_eq_true, List.mem_range, decide_eq_true_eq] at h
    exact ⟨iha h.1.1, ihb h.1.2, fun cm hcm i hi => h.2 cm hcm i hi⟩
  | shoup3 a b q iha ihb ihq =>
    intro h
    simp only [admB, Bool.and_eq_true, List.all_eq_true, List.mem_range, decide_eq_true_eq, beq_iff_eq] at h
    exact ⟨iha h.1.1.1, ihb h.1.1.2, ihq h.1.2, fun cm hcm i hi => ⟨(h.2 cm hcm i hi).1.1, (h.2 cm hcm i hi).1.2, (h.2 cm hcm i hi).2⟩⟩
  | computeShoup a iha => intro h; exact iha h
  | eq a b _ _ | neq a b _ _ => intro h; cases h

/-! ### non-vacuity: the hypotheses hold on concrete heaps and the generated vector evaluators, run by the kernel, give the pointwise meaning -/

/-- `uint32_t`, degree 4, the first two moduli of the generated table -/
def exCtx32 : Ctx := { l := .w32, deg := 4, rows := Nfl.Gen.table32.rows.take 2 }
def exB : List Nat := [5, 1073479680, 7, 123456789, 11, 1072496640, 3, 99]
/-- handles 0 : `a`, 1 : `b`, 2 : the quotients `⌊b·2^32/p⌋` (what `compute_shoup(b)` stores), 3 : another polynomial -/
def exMem32 : Store :=
  [[1, 2, 1073479680, 4, 1072496640, 6, 7, 8], exB,
   (List.range 8).map (fun k => exB.getD k 0 * 2 ^ 32 / exCtx32.p (k / 4)), [9, 9, 9, 9, 9, 9, 9, 9]]

example : exCtx32.TableRows := fun _ h => List.mem_of_mem_take h
example : Sizes exCtx32 := Sizes.of_rows exCtx32 (by decide) (by decide) (by decide) (by decide)
example : Adm exCtx32 exMem32 (fmaTree 0 0 1 2) := adm_of_admB _ _ _ (by decide)
example : eltCount exCtx32.l (mode .sse exCtx32.l (fmaTree 0 0 1 2)) ∣ exCtx32.deg := by decide
/-- the generated SSE evaluator (generated `sse_addmod_u32`, `sse_mulmod_shoup_u32`, loops with fuel 2^64), aliased destination `a = a + shoup(a*b, b')` -/
example : assign_fma_sse_u32 4 2 exCtx32.p (pnOf exCtx32) exMem32 0 0 0 1 2 = exMem32.set 0 (pointwise exCtx32 exMem32 (fmaTree 0 0 1 2)) := by
  decide +kernel
example : pointwise exCtx32 exMem32 (fmaTree 0 0 1 2) = [6, 0, 1073479673, 493827160, 1072496629, 0, 28, 800] := by decide +kernel
/-- necessity of admissibility: with a third operand that is NOT the quotient (handle 3: zeros) and `x = y = p - 1` the generated SSE evaluator
(the 64-bit difference `x·y − q·p` does not fit 32 bits) differs from `Ex.assign` in that coefficient -/
def exMem32b : Store := [[1, 1073479680, 1073479680, 4, 1072496640, 6, 7, 8], exB, [], [0, 0, 0, 0, 0, 0, 0, 0]]
example : (assign_fma_sse_u32 4 2 exCtx32.p (pnOf exCtx32) exMem32b 0 0 0 1 3).getD 0 [] = [6, 3221487614, 2145910782, 493827160, 2135031806, 1067515909, 28, 800] ∧
    (assign exCtx32 .sse 0 (fmaTree 0 0 1 3) exMem32b).getD 0 [] = [6, 1073479680, 2145910782, 493827160, 2135031806, 1067515909, 28, 800] := by decide +kernel

/-- AVX2 build, `uint16_t`: `C07.exCtx` / `C07.exStore` (degree 8: one 8-lane register per modulus) -/
example : Adm C07.exCtx C07.exStore (fmaTree 0 0 1 2) := adm_of_admB _ _ _ (by decide)
example : Sizes C07.exCtx := Sizes.of_rows C07.exCtx (by decide) (by decide) (by decide) (by decide)
example : assign_fma_avx2_u16 8 2 C07.exCtx.p (pnOf C07.exCtx) C07.exStore 0 0 0 1 2 =
    C07.exStore.set 0 (pointwise C07.exCtx C07.exStore (fmaTree 0 0 1 2)) := by decide +kernel

/-! ## C08: `==` / `!=` through the generated expression machinery -/

theorem some_true_iff {x : Option Bool} {b : Bool} (h : x = some b) : x = some true ↔ b = true := by
  subst h; simp

/-- **`bool(a0 == a1)`, generated, serial build, `uint32_t`**: true iff the two polynomials are the same array — every heap whose two rows have
`nmoduli * degree` cells; `tmp` = any initial contents of the local array -/
theorem eq_iff_poly_ast_serial_u32 (c : Ctx) (S : Sizes c) (m : Store) (tmp : List Nat) (htmp : tmp.length = 1) (a0 a1 : Nat)
    (la : (m.getD a0 []).length = c.n) (lb : (m.getD a1 []).length = c.n) :
    tobool_eq_serial_u32 c.deg c.nmod c.p (pnOf c) m tmp a0 a1 = true ↔ m.getD a0 [] = m.getD a1 [] := by
  rw [← some_true_iff (tobool_eq_serial_u32_eq c S m tmp htmp a0 a1)]
  exact C08.eq_iff_poly c .serial m a0 a1 la lb (Nat.one_dvd _)

/-- **`bool(a0 != a1)`, generated, serial build, `uint32_t`**: true iff some residue differs -/
theorem neq_iff_poly_ast_serial_u32 (c : Ctx) (S : Sizes c) (m : Store) (tmp : List Nat) (htmp : tmp.length = 1) (a0 a1 : Nat)
    (la : (m.getD a0 []).length = c.n) (lb : (m.getD a1 []).length = c.n) :
    tobool_neq_serial_u32 c.deg c.nmod c.p (pnOf c) m tmp a0 a1 = true ↔ m.getD a0 [] ≠ m.getD a1 [] := by
  rw [← some_true_iff (tobool_neq_serial_u32_eq c S m tmp htmp a0 a1)]
  exact C08.neq_iff_poly c .serial m a0 a1 la lb (Nat.one_dvd _)

theorem eq_iff_poly_ast_serial_u64 (c : Ctx) (S : Sizes c) (m : Store) (tmp : List Nat) (htmp : tmp.length = 1) (a0 a1 : Nat)
    (la : (m.getD a0 []).length = c.n) (lb : (m.getD a1 []).length = c.n) :
    tobool_eq_serial_u64 c.deg c.nmod c.p (pnOf c) m tmp a0 a1 = true ↔ m.getD a0 [] = m.getD a1 [] := by
  rw [← some_true_iff (tobool_eq_serial_u64_eq c S m tmp htmp a0 a1)]
  exact C08.eq_iff_poly c .serial m a0 a1 la lb (Nat.one_dvd _)

theorem neq_iff_poly_ast_serial_u64 (c : Ctx) (S : Sizes c) (m : Store) (tmp : List Nat) (htmp : tmp.length = 1) (a0 a1 : Nat)
    (la : (m.getD a0 []).length = c.n) (lb : (m.getD a1 []).length = c.n) :
    tobool_neq_serial_u64 c.deg c.nmod c.p (pnOf c) m tmp a0 a1 = true ↔ m.getD a0 [] ≠ m.getD a1 [] := by
  rw [← some_true_iff (tobool_neq_serial_u64_eq c S m tmp htmp a0 a1)]
  exact C08.neq_iff_poly c .serial m a0 a1 la lb (Nat.one_dvd _)

/-- **`bool(a0 == a1)`, generated, SSE build, `uint64_t`** (vector compare of two 64-bit lanes, `tmp[2]`): the same meaning.
`hdiv` = the `static_assert` of `operator bool` (2 divides the degree). -/
theorem eq_iff_poly_ast_sse_u64 (c : Ctx) (hl : c.l = .w64) (S : Sizes c) (m : Store) (tmp : List Nat) (htmp : tmp.length = 2) (a0 a1 : Nat)
    (la : (m.getD a0 []).length = c.n) (lb : (m.getD a1 []).length = c.n) (hdiv : eltCount c.l .sse ∣ c.deg) :
    tobool_eq_sse_u64 c.deg c.nmod c.p (pnOf c) m tmp a0 a1 = true ↔ m.getD a0 [] = m.getD a1 [] := by
  rw [← some_true_iff (tobool_eq_sse_u64_eq c hl S m tmp htmp a0 a1)]
  exact C08.eq_iff_poly c .sse m a0 a1 la lb hdiv

theorem neq_iff_poly_ast_sse_u64 (c : Ctx) (hl : c.l = .w64) (S : Sizes c) (m : Store) (tmp : List Nat) (htmp : tmp.length = 2) (a0 a1 : Nat)
    (la : (m.getD a0 []).length = c.n) (lb : (m.getD a1 []).length = c.n) (hdiv : eltCount c.l .sse ∣ c.deg) :
    tobool_neq_sse_u64 c.deg c.nmod c.p (pnOf c) m tmp a0 a1 = true ↔ m.getD a0 [] ≠ m.getD a1 [] := by
  rw [← some_true_iff (tobool_neq_sse_u64_eq c hl S m tmp htmp a0 a1)]
  exact C08.neq_iff_poly c .sse m a0 a1 la lb hdiv

/-- generated `!=` is the complement of generated `==`, also ACROSS builds (serial `!=` vs SSE `==`, `uint64_t`) -/
theorem eq_neq_compl_ast_u64 (c : Ctx) (hl : c.l = .w64) (S : Sizes c) (m : Store) (tmp1 tmp2 : List Nat) (h1 : tmp1.length = 1) (h2 : tmp2.length = 2)
    (a0 a1 : Nat) (hdiv : eltCount c.l .sse ∣ c.deg) :
    tobool_neq_serial_u64 c.deg c.nmod c.p (pnOf c) m tmp1 a0 a1 = !tobool_eq_sse_u64 c.deg c.nmod c.p (pnOf c) m tmp2 a0 a1 := by
  have h := C08.eq_neq_compl c .sse .serial m (.leaf a0) (.leaf a1) rfl rfl hdiv (Nat.one_dvd _)
  have e1 := tobool_neq_serial_u64_eq c S m tmp1 h1 a0 a1
  have e2 := tobool_eq_sse_u64_eq c hl S m tmp2 h2 a0 a1
  unfold exprToBool at e1 e2
  have m1 : mode .serial c.l (.neq (.leaf a0) (.leaf a1)) = .serial := rfl
  have m2 : mode .sse c.l (.eq (.leaf a0) (.leaf a1)) = .sse := rfl
  rw [m1] at e1
  rw [m2] at e2
  rw [e1, e2] at h
  simpa using h

/-- the serial and the SSE generated `==` (two different functors: scalar `==` converted to `T`, vector `==` on `__m128i`) agree -/
theorem eq_serial_eq_sse_ast_u64 (c : Ctx) (hl : c.l = .w64) (S : Sizes c) (m : Store) (tmp1 tmp2 : List Nat) (h1 : tmp1.length = 1) (h2 : tmp2.length = 2)
    (a0 a1 : Nat) (hdiv : eltCount c.l .sse ∣ c.deg) :
    tobool_eq_serial_u64 c.deg c.nmod c.p (pnOf c) m tmp1 a0 a1 = tobool_eq_sse_u64 c.deg c.nmod c.p (pnOf c) m tmp2 a0 a1 := by
  have h := C08.mode_independent c .serial .sse m (.eq (.leaf a0) (.leaf a1)) (Nat.one_dvd _) hdiv
  have e1 := tobool_eq_serial_u64_eq c S m tmp1 h1 a0 a1
  have e2 := tobool_eq_sse_u64_eq c hl S m tmp2 h2 a0 a1
  unfold exprToBool at e1 e2
  have m1 : mode .serial c.l (.eq (.leaf a0) (.leaf a1)) = .serial := rfl
  have m2 : mode .sse c.l (.eq (.leaf a0) (.leaf a1)) = .sse := rfl
  rw [m1] at e1
  rw [m2] at e2
  rw [e1, e2] at h
  simpa using h

/-- **`bool((a0 + a1) == a2)`, generated, serial build, `uint32_t`**: on admissible operands (canonical residues, table moduli) true iff
`(a0 + a1) mod p = a2` at every coefficient (C08 `eq_iff` transported) -/
theorem addeq_iff_ast_serial_u32 (c : Ctx) (hl : c.l = .w32) (hrows : c.TableRows) (S : Sizes c) (m : Store) (hm : InRange c.w m) (tmp : List Nat)
    (htmp : tmp.length = 1) (a0 a1 a2 : Nat) (hadm : Adm c m (.add (.leaf a0) (.leaf a1))) :
    tobool_addeq_serial_u32 c.deg c.nmod c.p (pnOf c) m tmp a0 a1 a2 = true ↔
      ∀ cm, cm < c.nmod → ∀ i, i < c.deg → evalExact c m (.add (.leaf a0) (.leaf a1)) cm i = evalExact c m (.leaf a2) cm i := by
  rw [← some_true_iff (tobool_addeq_serial_u32_eq c hl S m hm tmp htmp a0 a1 a2)]
  exact C08.eq_iff c hrows .serial m _ _ hadm trivial (by rw [hl]; exact Nat.one_dvd _)

theorem addeq_iff_ast_serial_u64 (c : Ctx) (hl : c.l = .w64) (hrows : c.TableRows) (S : Sizes c) (m : Store) (hm : InRange c.w m) (tmp : List Nat)
    (htmp : tmp.length = 1) (a0 a1 a2 : Nat) (hadm : Adm c m (.add (.leaf a0) (.leaf a1))) :
    tobool_addeq_serial_u64 c.deg c.nmod c.p (pnOf c) m tmp a0 a1 a2 = true ↔
      ∀ cm, cm < c.nmod → ∀ i, i < c.deg → evalExact c m (.add (.leaf a0) (.leaf a1)) cm i = evalExact c m (.leaf a2) cm i := by
  rw [← some_true_iff (tobool_addeq_serial_u64_eq c hl S m hm tmp htmp a0 a1 a2)]
  exact C08.eq_iff c hrows .serial m _ _ hadm trivial (by rw [hl]; exact Nat.one_dvd _)

/-- the SSE build evaluates `(a0 + a1) == a2` on `uint64_t` element-wise (the sum's `simd_mode` is serial): same meaning, no divisibility needed -/
theorem addeq_iff_ast_sse_u64 (c : Ctx) (hl : c.l = .w64) (hrows : c.TableRows) (S : Sizes c) (m : Store) (hm : InRange c.w m) (tmp : List Nat)
    (htmp : tmp.length = 1) (a0 a1 a2 : Nat) (hadm : Adm c m (.add (.leaf a0) (.leaf a1))) :
    tobool_addeq_sse_u64 c.deg c.nmod c.p (pnOf c) m tmp a0 a1 a2 = true ↔
      ∀ cm, cm < c.nmod → ∀ i, i < c.deg → evalExact c m (.add (.leaf a0) (.leaf a1)) cm i = evalExact c m (.leaf a2) cm i := by
  rw [← some_true_iff (tobool_addeq_sse_u64_eq c hl S m hm tmp htmp a0 a1 a2)]
  exact C08.eq_iff c hrows .sse m _ _ hadm trivial (by rw [hl]; exact Nat.one_dvd _)

/-! ### non-vacuity: the generated conversions run by the kernel (three `forRet` loops with fuel 2^64, the translated functors, the store into `tmp`) -/

def exCtx64 : Ctx := { l := .w64, deg := 4, rows := Nfl.Gen.table64.rows.take 2 }
/-- 0, 1 : equal except in the LAST element of the last lane; 2 : equal to 0; 3 : `0 + 1` reduced (so `(0 + 1) == 3`) -/
def exMem64 : Store :=
  [[1, 2, 3, 4, 5, 6, 7, 8], [1, 2, 3, 4, 5, 6, 7, 9], [1, 2, 3, 4, 5, 6, 7, 8], [2, 4, 6, 8, 10, 12, 14, 17]]

example : Sizes exCtx64 := Sizes.of_rows exCtx64 (by decide) (by decide) (by decide) (by decide)
example : InRange exCtx64.w exMem64 := by unfold InRange; decide
example : eltCount exCtx64.l .sse ∣ exCtx64.deg := by decide
example : tobool_eq_sse_u64 4 2 exCtx64.p (pnOf exCtx64) exMem64 [77, 78] 0 1 = false ∧
    tobool_eq_sse_u64 4 2 exCtx64.p (pnOf exCtx64) exMem64 [77, 78] 0 2 = true ∧
    tobool_neq_sse_u64 4 2 exCtx64.p (pnOf exCtx64) exMem64 [77, 78] 0 1 = true ∧
    tobool_neq_sse_u64 4 2 exCtx64.p (pnOf exCtx64) exMem64 [77, 78] 0 2 = false := by decide +kernel
example : tobool_eq_serial_u64 4 2 exCtx64.p (pnOf exCtx64) exMem64 [77] 0 1 = false ∧
    tobool_eq_serial_u32 4 2 exCtx32.p (pnOf exCtx32) exMem64 [77] 0 2 = true ∧
    tobool_addeq_sse_u64 4 2 exCtx64.p (pnOf exCtx64) exMem64 [77] 0 1 3 = true ∧
    tobool_addeq_serial_u64 4 2 exCtx64.p (pnOf exCtx64) exMem64 [77] 0 1 2 = false := by decide +kernel
/-- the length of `tmp` matters (an array shorter than `vector_size` would drop the store: the hypothesis `tmp.length = vector_size` is needed) -/
example : tobool_eq_sse_u64 4 2 exCtx64.p (pnOf exCtx64) exMem64 [] 0 2 = false := by decide +kernel

end Nfl.C07Ast2
