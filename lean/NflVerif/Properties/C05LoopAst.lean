/-
C05 (completing C01/C02 for the vector builds) on transforms whose LOOPS, VECTOR KERNELS and SCALAR TAIL all come from the source text.

`Generated/VLoopAst.lean` (tools/gen_vloop_ast.py, re-generated on every run) is the loop structure of
`ops::ntt_loop_sse_unrolled<poly>::run` (sse.hpp), `ops::ntt_loop_avx2_unrolled<poly>::run` (avx2.hpp) and of `poly::core::ntt`
(core.hpp) compiled with -DNTT_SSE / -DNTT_AVX2: index-level code on (array, offset) pointers, `degree` a parameter, the vector
functor calls = the generated kernels of `Generated/SimdAst.lean` (tools/gen_simd_ast.py) on whole registers (`CSemVLoop.rdv/wrv`),
the scalar functor and the blocks of `core::ntt` = `Generated/NttAst.lean` (tools/gen_ntt_ast.py).  For 64-bit limbs the dispatch
`ntt_loop<simd::sse|avx2, poly, uint64_t>` ends, by inheritance, in `ntt_loop<simd::serial, poly, T>::run`: the generated transforms
of the vector builds call `ntt_loop_run_u64` of `Generated/NttLoopAst.lean` (the translator checks the re-translated text is that one).
This file states, for every degree `2^k` the vector builds accept (`3 ≤ k`; clang rejects degree 1, 2, 4: `VLoop.min_degree`, from
probe compilations) up to `k ≤ 32`, both vector limb widths, every `p` with `2p ≤ 2^w` (C05's hypothesis, needed by the signed-compare
trick of the vector kernels) and `2p < 2^32` for 32-bit limbs (needed by the SCALAR block of the last layer, `Properties/C02Ast.lean`),
every array of `2^k` `w`-bit words (followed by any `w`-bit words `t`, untouched), all tables of `w`-bit words with at least
`2^k - 4` entries:
  (1) `run_sse_eq` / `run_avx2_eq`: generated vector `run` = the scalar model `nttLoop` (data, both table offsets, returned `M`);
      `run_sse_eq_scalar` / `run_avx2_eq_scalar`: = the generated SCALAR `run` of `Generated/NttLoopAst.lean`;
      `run_sse_eq_model` / `run_avx2_eq_model`: = the hand model of the vector loops `nttLoopSse` / `nttLoopAvx2` (`Model/Simd.lean`);
  (2) `ntt_sse_eq` / `ntt_avx2_eq` (all three limb widths): generated `core::ntt` of the vector build = generated scalar `core::ntt`
      (`Nfl.C02LoopAst.genNtt`) = `nttWord`, word for word; `ntt_sse_model` / `ntt_avx2_model`: = `nttWordSse` / `nttWordAvx2`;
  (3) `fwd_sse_eq` / `fwd_avx2_eq`: with the tables of `initTables`, on every table row, the forward transforms of the three builds,
      every piece translated from the source, are the same function, and it is C02's `fwd`.
Hypotheses of (1), each needed: `k ≤ 32` (`1 << w` in `int`, see `Properties/C02LoopAst.lean`); `3 ≤ k` (smaller degrees do not
compile); `2p ≤ 2^w` (`example` below: p = 40000 at 16 bits, vector and scalar loop differ); words `< 2^w` (C types); table length
`≥ 2^k - 4` (what the layers read; see `Properties/C02LoopAst.lean`).  Alignment of the vector accesses is not modelled.
Proofs: `Proofs/VLoopAstEq.lean`.
-/
import NflVerif.Proofs.VLoopAstEq
import NflVerif.Properties.C02LoopAst
import NflVerif.Properties.C05Ast

namespace Nfl.C05LoopAst
open Nfl Nfl.Gen Nfl.C03 Nfl.NttRefine Nfl.NttAstEq Nfl.NttLoopAstEq Nfl.C02Ast Nfl.VLoopAstEq Nfl.Simd

/-! ### the generated functions, indexed by limb width (the 64-bit entries ARE the scalar functions: the dispatch, as data) -/

def genRunSse : Limb → Nat → Nat → List Nat → Nat → List Nat → Nat → List Nat → Nat → List Nat × Nat × Nat × Nat
  | .w16 => ntt_loop_sse_run_u16 | .w32 => ntt_loop_sse_run_u32 | .w64 => ntt_loop_run_u64
def genRunAvx2 : Limb → Nat → Nat → List Nat → Nat → List Nat → Nat → List Nat → Nat → List Nat × Nat × Nat × Nat
  | .w16 => ntt_loop_avx2_run_u16 | .w32 => ntt_loop_avx2_run_u32 | .w64 => ntt_loop_run_u64
/-- `core::ntt(x, wtab, winvtab, p)` of the SSE build -/
def genNttSse : Limb → Nat → Nat → List Nat → Nat → List Nat → Nat → List Nat → Nat → List Nat
  | .w16 => ntt_sse_u16 | .w32 => ntt_sse_u32 | .w64 => ntt_sse_u64
/-- `core::ntt(x, wtab, winvtab, p)` of the AVX2 build -/
def genNttAvx2 : Limb → Nat → Nat → List Nat → Nat → List Nat → Nat → List Nat → Nat → List Nat
  | .w16 => ntt_avx2_u16 | .w32 => ntt_avx2_u32 | .w64 => ntt_avx2_u64

theorem genNttSse_shape (l : Limb) : genNttSse l = nttG (genRunSse l) (genDeg2 l) (genLast2 l) (genFinal l) := by
  cases l
  · exact ntt_sse_u16_shape
  · exact ntt_sse_u32_shape
  · exact ntt_sse_u64_eq.trans ntt_u64_shape

theorem genNttAvx2_shape (l : Limb) : genNttAvx2 l = nttG (genRunAvx2 l) (genDeg2 l) (genLast2 l) (genFinal l) := by
  cases l
  · exact ntt_avx2_u16_shape
  · exact ntt_avx2_u32_shape
  · exact ntt_avx2_u64_eq.trans ntt_u64_shape

/-! ### the generated kernels on full registers (C05's lane theorems, transported by `Proofs/SimdAstEq.lean`) -/

theorem sse16_ok {p : Nat} (hp : 2 * p ≤ 2 ^ 16) : BodyOK 16 p 8 (GenSimd.sse_bfly_u16 p) := by
  intro a b c d h0 h1 h2 h3 bi
  rw [SimdAstEq.sse_bfly_u16_eq]; exact sseBody_ok (Or.inl rfl) hp a b c d h0 h1 h2 h3 bi
theorem sse32_ok {p : Nat} (hp : 2 * p ≤ 2 ^ 32) : BodyOK 32 p 4 (GenSimd.sse_bfly_u32 p) := by
  intro a b c d h0 h1 h2 h3 bi
  rw [SimdAstEq.sse_bfly_u32_eq]; exact sseBody_ok (Or.inr rfl) hp a b c d h0 h1 h2 h3 bi
theorem avx16_ok {p : Nat} (hp : 2 * p ≤ 2 ^ 16) : BodyOK 16 p 16 (GenSimd.avx2_bfly_u16 p) := by
  intro a b c d h0 h1 h2 h3 bi
  rw [SimdAstEq.avx2_bfly_u16_eq]; exact avx2Body_ok (Or.inl rfl) hp a b c d h0 h1 h2 h3 bi
theorem avx32_ok {p : Nat} (hp : 2 * p ≤ 2 ^ 32) : BodyOK 32 p 8 (GenSimd.avx2_bfly_u32 p) := by
  intro a b c d h0 h1 h2 h3 bi
  rw [SimdAstEq.avx2_bfly_u32_eq]; exact avx2Body_ok (Or.inr rfl) hp a b c d h0 h1 h2 h3 bi

/-! ### (1) the generated vector loops -/

variable (l : Limb) {p : Nat}

/-- what every `run` (scalar or vector) returns on `2^k` words followed by `t`: the model's layers, both table pointers advanced by
`2^k - 4`, `M = 2^(k-2)` blocks for the last two layers -/
def runResult (l : Limb) (p k : Nat) (x t wtab winvtab : List Nat) : List Nat × Nat × Nat × Nat :=
  ((nttLoop l.w p (k - 2) (2 ^ k) 1 wtab winvtab x).1 ++ t, 2 ^ k - 4, 2 ^ k - 4, 2 ^ (k - 2))

theorem hp_of (hl : l.w ≠ 64) (hp2 : 2 * p ≤ 2 ^ l.w) : p < 2 ^ l.w := by
  cases l <;> simp only [Limb.w] at * <;> omega

/-- the generated scalar `run` (every limb width; `Properties/C02LoopAst.lean` states the transform only) -/
theorem run_scalar_eq {k : Nat} (h3 : 3 ≤ k) (hk : k ≤ 32) (hp : p < 2 ^ l.w) (h2p : l.w ≠ 16 → 2 * p < 2 ^ l.w)
    (x t wtab winvtab : List Nat) (hx : x.length = 2 ^ k) (hxw : ∀ v ∈ x ++ t, v < 2 ^ l.w) (hwt : ∀ v ∈ wtab, v < 2 ^ l.w)
    (hwi : ∀ v ∈ winvtab, v < 2 ^ l.w) (hlw : 2 ^ k ≤ wtab.length + 4) (hlw' : 2 ^ k ≤ winvtab.length + 4) :
    C02LoopAst.genRun l (2 ^ k) p (x ++ t) 0 wtab 0 winvtab 0 = runResult l p k x t wtab winvtab := by
  obtain ⟨k', rfl⟩ : ∃ k', k = k' + 3 := ⟨k - 3, by omega⟩
  have e : C02LoopAst.genRun l = runG (genBody l) := by
    cases l
    · exact run_u16_shape
    · exact run_u32_shape
    · exact run_u64_shape
  rw [e]
  exact runG_eq (C02LoopAst.bodyOK l hp h2p) (Wd_of_forall hwt) (Wd_of_forall hwi) hk t hx (Wd_of_forall hxw) hlw hlw'

/-- **generated SSE loop = scalar model `nttLoop`**, every degree `2^k`, `3 ≤ k ≤ 32` -/
theorem run_sse_eq (hl : l.w ≠ 64) {k : Nat} (h3 : 3 ≤ k) (hk : k ≤ 32) (hp2 : 2 * p ≤ 2 ^ l.w) (h2p : l.w ≠ 16 → 2 * p < 2 ^ l.w)
    (x t wtab winvtab : List Nat) (hx : x.length = 2 ^ k) (hxw : ∀ v ∈ x ++ t, v < 2 ^ l.w) (hwt : ∀ v ∈ wtab, v < 2 ^ l.w)
    (hwi : ∀ v ∈ winvtab, v < 2 ^ l.w) (hlw : 2 ^ k ≤ wtab.length + 4) (hlw' : 2 ^ k ≤ winvtab.length + 4) :
    genRunSse l (2 ^ k) p (x ++ t) 0 wtab 0 winvtab 0 = runResult l p k x t wtab winvtab := by
  obtain ⟨k', rfl⟩ : ∃ k', k = k' + 3 := ⟨k - 3, by omega⟩
  have hb := C02LoopAst.bodyOK l (hp_of l hl hp2) h2p
  have wt := Wd_of_forall hwt
  have wi := Wd_of_forall hwi
  cases l
  · show ntt_loop_sse_run_u16 _ _ _ _ _ _ _ _ = _
    rw [sse_run_u16_shape]
    exact vrunG_eq hk t (fun w0 h => vlayerSse_ok (sse16_ok hp2) ecSse_2 (by omega) ⟨1, rfl⟩ wi hk t h)
      (slayer_ok hb wt wi hk t (by omega)) hx (Wd_of_forall hxw) hlw hlw'
  · show ntt_loop_sse_run_u32 _ _ _ _ _ _ _ _ = _
    rw [sse_run_u32_shape]
    exact vrunG_eq hk t (fun w0 h => vlayerSse_ok (sse32_ok hp2) ecSse_4 (by omega) ⟨2, rfl⟩ wi hk t h)
      (slayer_ok hb wt wi hk t (by omega)) hx (Wd_of_forall hxw) hlw hlw'
  · exact absurd rfl hl

/-- **generated AVX2 loop = scalar model `nttLoop`**, every degree `2^k`, `3 ≤ k ≤ 32` -/
theorem run_avx2_eq (hl : l.w ≠ 64) {k : Nat} (h3 : 3 ≤ k) (hk : k ≤ 32) (hp2 : 2 * p ≤ 2 ^ l.w) (h2p : l.w ≠ 16 → 2 * p < 2 ^ l.w)
    (x t wtab winvtab : List Nat) (hx : x.length = 2 ^ k) (hxw : ∀ v ∈ x ++ t, v < 2 ^ l.w) (hwt : ∀ v ∈ wtab, v < 2 ^ l.w)
    (hwi : ∀ v ∈ winvtab, v < 2 ^ l.w) (hlw : 2 ^ k ≤ wtab.length + 4) (hlw' : 2 ^ k ≤ winvtab.length + 4) :
    genRunAvx2 l (2 ^ k) p (x ++ t) 0 wtab 0 winvtab 0 = runResult l p k x t wtab winvtab := by
  obtain ⟨k', rfl⟩ : ∃ k', k = k' + 3 := ⟨k - 3, by omega⟩
  have hb := C02LoopAst.bodyOK l (hp_of l hl hp2) h2p
  have wt := Wd_of_forall hwt
  have wi := Wd_of_forall hwi
  cases l
  · show ntt_loop_avx2_run_u16 _ _ _ _ _ _ _ _ = _
    rw [avx2_run_u16_shape]
    exact vrunG_eq hk t (fun w0 h => vlayerAvx2_ok (avx16_ok hp2) (sse16_ok hp2) ecAvx2_2 (by omega) (fun q => by omega) wi hk t h)
      (slayer_ok hb wt wi hk t (by omega)) hx (Wd_of_forall hxw) hlw hlw'
  · show ntt_loop_avx2_run_u32 _ _ _ _ _ _ _ _ = _
    rw [avx2_run_u32_shape]
    exact vrunG_eq hk t (fun w0 h => vlayerAvx2_ok (avx32_ok hp2) (sse32_ok hp2) ecAvx2_4 (by omega) (fun q => by omega) wi hk t h)
      (slayer_ok hb wt wi hk t (by omega)) hx (Wd_of_forall hxw) hlw hlw'
  · exact absurd rfl hl

/-- generated vector loops = generated SCALAR loop (`Generated/NttLoopAst.lean`): data, table offsets and returned `M` -/
theorem run_sse_eq_scalar {k : Nat} (h3 : 3 ≤ k) (hk : k ≤ 32) (hp2 : l.w ≠ 64 → 2 * p ≤ 2 ^ l.w) (hp : p < 2 ^ l.w)
    (h2p : l.w ≠ 16 → 2 * p < 2 ^ l.w)
    (x t wtab winvtab : List Nat) (hx : x.length = 2 ^ k) (hxw : ∀ v ∈ x ++ t, v < 2 ^ l.w) (hwt : ∀ v ∈ wtab, v < 2 ^ l.w)
    (hwi : ∀ v ∈ winvtab, v < 2 ^ l.w) (hlw : 2 ^ k ≤ wtab.length + 4) (hlw' : 2 ^ k ≤ winvtab.length + 4) :
    genRunSse l (2 ^ k) p (x ++ t) 0 wtab 0 winvtab 0 = C02LoopAst.genRun l (2 ^ k) p (x ++ t) 0 wtab 0 winvtab 0 := by
  by_cases hl : l.w = 64
  · cases l <;> first | rfl | exact absurd hl (by decide)
  · rw [run_sse_eq l hl h3 hk (hp2 hl) h2p x t wtab winvtab hx hxw hwt hwi hlw hlw',
      run_scalar_eq l h3 hk hp h2p x t wtab winvtab hx hxw hwt hwi hlw hlw']

theorem run_avx2_eq_scalar {k : Nat} (h3 : 3 ≤ k) (hk : k ≤ 32) (hp2 : l.w ≠ 64 → 2 * p ≤ 2 ^ l.w) (hp : p < 2 ^ l.w)
    (h2p : l.w ≠ 16 → 2 * p < 2 ^ l.w)
    (x t wtab winvtab : List Nat) (hx : x.length = 2 ^ k) (hxw : ∀ v ∈ x ++ t, v < 2 ^ l.w) (hwt : ∀ v ∈ wtab, v < 2 ^ l.w)
    (hwi : ∀ v ∈ winvtab, v < 2 ^ l.w) (hlw : 2 ^ k ≤ wtab.length + 4) (hlw' : 2 ^ k ≤ winvtab.length + 4) :
    genRunAvx2 l (2 ^ k) p (x ++ t) 0 wtab 0 winvtab 0 = C02LoopAst.genRun l (2 ^ k) p (x ++ t) 0 wtab 0 winvtab 0 := by
  by_cases hl : l.w = 64
  · cases l <;> first | rfl | exact absurd hl (by decide)
  · rw [run_avx2_eq l hl h3 hk (hp2 hl) h2p x t wtab winvtab hx hxw hwt hwi hlw hlw',
      run_scalar_eq l h3 hk hp h2p x t wtab winvtab hx hxw hwt hwi hlw hlw']

/-- generated vector loops = the HAND model of the vector loops (`Model/Simd.lean`), through C05's `ntt_loop_backend` -/
theorem run_sse_eq_model (hl : l.w ≠ 64) {k : Nat} (h3 : 3 ≤ k) (hk : k ≤ 32) (hp2 : 2 * p ≤ 2 ^ l.w)
    (h2p : l.w ≠ 16 → 2 * p < 2 ^ l.w)
    (x t wtab winvtab : List Nat) (hx : x.length = 2 ^ k) (hxw : ∀ v ∈ x ++ t, v < 2 ^ l.w) (hwt : ∀ v ∈ wtab, v < 2 ^ l.w)
    (hwi : ∀ v ∈ winvtab, v < 2 ^ l.w) (hlw : 2 ^ k ≤ wtab.length + 4) (hlw' : 2 ^ k ≤ winvtab.length + 4) :
    genRunSse l (2 ^ k) p (x ++ t) 0 wtab 0 winvtab 0 =
      ((nttLoopSse l.w p (k - 2) (2 ^ k) 1 wtab winvtab x).1 ++ t, 2 ^ k - 4, 2 ^ k - 4, 2 ^ (k - 2)) := by
  have hw : l.w = 16 ∨ l.w = 32 := by cases l <;> simp [Limb.w] at hl ⊢
  rw [run_sse_eq l hl h3 hk hp2 h2p x t wtab winvtab hx hxw hwt hwi hlw hlw',
    (C05.ntt_loop_backend hw hp2 (k - 2) (2 ^ k) 1 wtab winvtab x (by congr 1; omega) (by omega) hlw hlw' hwi).1]
  rfl

theorem run_avx2_eq_model (hl : l.w ≠ 64) {k : Nat} (h3 : 3 ≤ k) (hk : k ≤ 32) (hp2 : 2 * p ≤ 2 ^ l.w)
    (h2p : l.w ≠ 16 → 2 * p < 2 ^ l.w)
    (x t wtab winvtab : List Nat) (hx : x.length = 2 ^ k) (hxw : ∀ v ∈ x ++ t, v < 2 ^ l.w) (hwt : ∀ v ∈ wtab, v < 2 ^ l.w)
    (hwi : ∀ v ∈ winvtab, v < 2 ^ l.w) (hlw : 2 ^ k ≤ wtab.length + 4) (hlw' : 2 ^ k ≤ winvtab.length + 4) :
    genRunAvx2 l (2 ^ k) p (x ++ t) 0 wtab 0 winvtab 0 =
      ((nttLoopAvx2 l.w p (k - 2) (2 ^ k) 1 wtab winvtab x).1 ++ t, 2 ^ k - 4, 2 ^ k - 4, 2 ^ (k - 2)) := by
  have hw : l.w = 16 ∨ l.w = 32 := by cases l <;> simp [Limb.w] at hl ⊢
  rw [run_avx2_eq l hl h3 hk hp2 h2p x t wtab winvtab hx hxw hwt hwi hlw hlw',
    (C05.ntt_loop_backend hw hp2 (k - 2) (2 ^ k) 1 wtab winvtab x (by congr 1; omega) (by omega) hlw hlw' hwi).2]
  rfl

/-! ### (2) `core::ntt` of the vector builds = `core::ntt` of the scalar build, both translated from the source -/

/-- **SSE build: generated `core::ntt` = generated scalar `core::ntt`, word for word** (all three limb widths) -/
theorem ntt_sse_eq {k : Nat} (h3 : 3 ≤ k) (hk : k ≤ 32) (hp2 : l.w ≠ 64 → 2 * p ≤ 2 ^ l.w) (hp : p < 2 ^ l.w)
    (h2p : l.w ≠ 16 → 2 * p < 2 ^ l.w) (x wtab winvtab : List Nat)
    (hx : x.length = 2 ^ k) (hxw : ∀ v ∈ x, v < 2 ^ l.w) (hwt : ∀ v ∈ wtab, v < 2 ^ l.w) (hwi : ∀ v ∈ winvtab, v < 2 ^ l.w)
    (hlw : 2 ^ k ≤ wtab.length + 4) (hlw' : 2 ^ k ≤ winvtab.length + 4) :
    genNttSse l (2 ^ k) p x 0 wtab 0 winvtab 0 = C02LoopAst.genNtt l (2 ^ k) p x 0 wtab 0 winvtab 0 := by
  have h := run_sse_eq_scalar l h3 hk hp2 hp h2p x [] wtab winvtab hx (by simpa using hxw) hwt hwi hlw hlw'
  rw [List.append_nil] at h
  rw [genNttSse_shape, C02LoopAst.genNtt_shape]
  have e : C02LoopAst.genRun l = runG (genBody l) := by
    cases l
    · exact run_u16_shape
    · exact run_u32_shape
    · exact run_u64_shape
  rw [e] at h
  exact nttG_congr _ _ _ h

/-- **AVX2 build: generated `core::ntt` = generated scalar `core::ntt`, word for word** (all three limb widths) -/
theorem ntt_avx2_eq {k : Nat} (h3 : 3 ≤ k) (hk : k ≤ 32) (hp2 : l.w ≠ 64 → 2 * p ≤ 2 ^ l.w) (hp : p < 2 ^ l.w)
    (h2p : l.w ≠ 16 → 2 * p < 2 ^ l.w) (x wtab winvtab : List Nat)
    (hx : x.length = 2 ^ k) (hxw : ∀ v ∈ x, v < 2 ^ l.w) (hwt : ∀ v ∈ wtab, v < 2 ^ l.w) (hwi : ∀ v ∈ winvtab, v < 2 ^ l.w)
    (hlw : 2 ^ k ≤ wtab.length + 4) (hlw' : 2 ^ k ≤ winvtab.length + 4) :
    genNttAvx2 l (2 ^ k) p x 0 wtab 0 winvtab 0 = C02LoopAst.genNtt l (2 ^ k) p x 0 wtab 0 winvtab 0 := by
  have h := run_avx2_eq_scalar l h3 hk hp2 hp h2p x [] wtab winvtab hx (by simpa using hxw) hwt hwi hlw hlw'
  rw [List.append_nil] at h
  rw [genNttAvx2_shape, C02LoopAst.genNtt_shape]
  have e : C02LoopAst.genRun l = runG (genBody l) := by
    cases l
    · exact run_u16_shape
    · exact run_u32_shape
    · exact run_u64_shape
  rw [e] at h
  exact nttG_congr _ _ _ h

/-- the generated transforms of the vector builds are the hand-written model's `nttWord` … -/
theorem ntt_vec_eq_nttWord {k : Nat} (h3 : 3 ≤ k) (hk : k ≤ 32) (hp2 : l.w ≠ 64 → 2 * p ≤ 2 ^ l.w) (hp : p < 2 ^ l.w)
    (h2p : l.w ≠ 16 → 2 * p < 2 ^ l.w) (x wtab winvtab : List Nat)
    (hx : x.length = 2 ^ k) (hxw : ∀ v ∈ x, v < 2 ^ l.w) (hwt : ∀ v ∈ wtab, v < 2 ^ l.w) (hwi : ∀ v ∈ winvtab, v < 2 ^ l.w)
    (hlw : 2 ^ k ≤ wtab.length + 4) (hlw' : 2 ^ k ≤ winvtab.length + 4) :
    genNttSse l (2 ^ k) p x 0 wtab 0 winvtab 0 = nttWord l.w p k wtab winvtab x ∧
    genNttAvx2 l (2 ^ k) p x 0 wtab 0 winvtab 0 = nttWord l.w p k wtab winvtab x := by
  rw [ntt_sse_eq l h3 hk hp2 hp h2p x wtab winvtab hx hxw hwt hwi hlw hlw',
    ntt_avx2_eq l h3 hk hp2 hp h2p x wtab winvtab hx hxw hwt hwi hlw hlw',
    C02LoopAst.ntt_eq l hk hp h2p x wtab winvtab hx hxw hwt hwi hlw hlw']
  exact ⟨rfl, rfl⟩

/-- … and the hand model of the vector builds' `core::ntt` (`nttWordSse` / `nttWordAvx2`: `some`, i.e. the build exists) -/
theorem ntt_vec_model (hl : l.w ≠ 64) {k : Nat} (h3 : 3 ≤ k) (hk : k ≤ 32) (hp2 : 2 * p ≤ 2 ^ l.w)
    (h2p : l.w ≠ 16 → 2 * p < 2 ^ l.w) (x wtab winvtab : List Nat)
    (hx : x.length = 2 ^ k) (hxw : ∀ v ∈ x, v < 2 ^ l.w) (hwt : ∀ v ∈ wtab, v < 2 ^ l.w) (hwi : ∀ v ∈ winvtab, v < 2 ^ l.w)
    (hlw : 2 ^ k ≤ wtab.length + 4) (hlw' : 2 ^ k ≤ winvtab.length + 4) :
    nttWordSse l.w p k wtab winvtab x = some (genNttSse l (2 ^ k) p x 0 wtab 0 winvtab 0) ∧
    nttWordAvx2 l.w p k wtab winvtab x = some (genNttAvx2 l (2 ^ k) p x 0 wtab 0 winvtab 0) := by
  have hw : l.w = 16 ∨ l.w = 32 := by cases l <;> simp [Limb.w] at hl ⊢
  obtain ⟨a, b⟩ := ntt_vec_eq_nttWord l h3 hk (fun _ => hp2) (hp_of l hl hp2) h2p x wtab winvtab hx hxw hwt hwi hlw hlw'
  rw [a, b]
  exact C05.ntt_backend hw hp2 k h3 wtab winvtab x hx hlw hlw' hwi

/-! ### (3) with the tables of `initTables`, on every table row: the three builds' forward transforms coincide -/

/-- `ntt_pow_phi` on one modulus slice in the SSE / AVX2 build: the twist by `phis` (hand model, as in `C02LoopAst.fwdGen`) then
the generated `core::ntt` of that build -/
def fwdGenSse (l : Limb) (r : Row) (k : Nat) (a : List Nat) : List Nat :=
  genNttSse l (2 ^ k) r.p (mulShoupList l.w r.p a (initTables l.w l.lk r k).phis (initTables l.w l.lk r k).shoupphis) 0
    (initTables l.w l.lk r k).omegas 0 (initTables l.w l.lk r k).shoupomegas 0
def fwdGenAvx2 (l : Limb) (r : Row) (k : Nat) (a : List Nat) : List Nat :=
  genNttAvx2 l (2 ^ k) r.p (mulShoupList l.w r.p a (initTables l.w l.lk r k).phis (initTables l.w l.lk r k).shoupphis) 0
    (initTables l.w l.lk r k).omegas 0 (initTables l.w l.lk r k).shoupomegas 0

variable {r : Row} {k : Nat}

/-- **end to end**: the SSE and the AVX2 forward transform — loops, vector kernels and scalar tail all translated from the source —
equal the scalar transform translated from the source (`Nfl.C02LoopAst.fwdGen`) word for word, hence C02's `fwd`;
every table row, every degree `8 ≤ 2^k ≤ kMaxPolyDegree`, every canonical input. -/
theorem fwd_vec_eq (hr : r ∈ l.table.rows) (h3 : 3 ≤ k) (hk : k ≤ l.lk) (a : List Nat) (ha : a.length = 2 ^ k)
    (hc : Canonical r.p a) :
    fwdGenSse l r k a = C02LoopAst.fwdGen l r k a ∧ fwdGenAvx2 l r k a = C02LoopAst.fwdGen l r k a ∧
    C02LoopAst.fwdGen l r k a = C02.fwd l r k a := by
  have h := ctx_of_row l hr hk
  obtain ⟨f1, _⟩ := phiW_spec h
  obtain ⟨o1, _⟩ := mulmod_spec h.p_pos h.hmul f1 f1
  obtain ⟨t1, t2, _⟩ := iterMul_spec h.p_pos h.hmul f1 (2 ^ k) 1 h.one_lt
  obtain ⟨m1, m2, _⟩ := mulShoupList_spec h.hw h.p_pos h.four_p a _ (Canonical.lt_word h hc) t1
  obtain ⟨w1, w2⟩ := prepWtab_spec h.p_pos h.one_lt h.hmul k _ o1
  have h4 := four_p_le l hr
  have k32 : k ≤ 32 := by have := C02LoopAst.lk_le l; omega
  refine ⟨?_, ?_, C02LoopAst.fwdGen_eq l hr hk a ha hc⟩
  · exact ntt_sse_eq l h3 k32 (fun _ => by omega) (p_lt l hr) (fun _ => two_p_lt l hr)
      (mulShoupList l.w r.p a (iterMul l.w r.p r.pn (phiW l.w l.lk r k) (2 ^ k) 1)
        ((iterMul l.w r.p r.pn (phiW l.w l.lk r k) (2 ^ k) 1).map (shoupOf l.w r.p)))
      (prepWtab l.w r.p r.pn k (mulmod l.w r.p r.pn (phiW l.w l.lk r k) (phiW l.w l.lk r k)))
      ((prepWtab l.w r.p r.pn k (mulmod l.w r.p r.pn (phiW l.w l.lk r k) (phiW l.w l.lk r k))).map (shoupOf l.w r.p))
      (by rw [m2, ha, t2]; simp) (C02LoopAst.lt_word_of_canonical l hr m1) (C02LoopAst.lt_word_of_canonical l hr w1)
      (C02LoopAst.shoup_words l _) (by omega) (by rw [List.length_map]; omega)
  · exact ntt_avx2_eq l h3 k32 (fun _ => by omega) (p_lt l hr) (fun _ => two_p_lt l hr)
      (mulShoupList l.w r.p a (iterMul l.w r.p r.pn (phiW l.w l.lk r k) (2 ^ k) 1)
        ((iterMul l.w r.p r.pn (phiW l.w l.lk r k) (2 ^ k) 1).map (shoupOf l.w r.p)))
      (prepWtab l.w r.p r.pn k (mulmod l.w r.p r.pn (phiW l.w l.lk r k) (phiW l.w l.lk r k)))
      ((prepWtab l.w r.p r.pn k (mulmod l.w r.p r.pn (phiW l.w l.lk r k) (phiW l.w l.lk r k))).map (shoupOf l.w r.p))
      (by rw [m2, ha, t2]; simp) (C02LoopAst.lt_word_of_canonical l hr m1) (C02LoopAst.lt_word_of_canonical l hr w1)
      (C02LoopAst.shoup_words l _) (by omega) (by rw [List.length_map]; omega)

/-- C05 for the transform with every piece translated: the three builds return identical words -/
theorem fwd_three_builds (hr : r ∈ l.table.rows) (h3 : 3 ≤ k) (hk : k ≤ l.lk) (a : List Nat) (ha : a.length = 2 ^ k)
    (hc : Canonical r.p a) :
    fwdGenSse l r k a = C02LoopAst.fwdGen l r k a ∧ fwdGenAvx2 l r k a = fwdGenSse l r k a := by
  obtain ⟨a1, a2, _⟩ := fwd_vec_eq l hr h3 hk a ha hc
  exact ⟨a1, a2.trans a1.symm⟩

/-! ### non-vacuity, concrete runs, necessity of the hypotheses -/

-- the smallest degree the vector builds accept (probe compilations by the translator)
example : VLoop.min_degree = 2 ^ 3 := rfl

-- degree 32, 16-bit limbs, first modulus, tables of the model: the AVX2 loop runs one layer with a full `__m256i` (N/2 = 16),
-- one layer with the SSE fallback (N/2 = 8) and the scalar layer (N/2 = 4); all three generated transforms agree
example : fwdGenAvx2 .w16 ⟨15361, 17458, 4989, 15331⟩ 5 ((List.range 32).map (fun i => 15360 - 97 * i)) =
    C02LoopAst.fwdGen .w16 ⟨15361, 17458, 4989, 15331⟩ 5 ((List.range 32).map (fun i => 15360 - 97 * i)) := by decide +kernel
example : fwdGenSse .w16 ⟨15361, 17458, 4989, 15331⟩ 4 ((List.range 16).map (fun i => 15360 - 97 * i)) =
    C02LoopAst.fwdGen .w16 ⟨15361, 17458, 4989, 15331⟩ 4 ((List.range 16).map (fun i => 15360 - 97 * i)) := by decide +kernel
-- `2p ≤ 2^w` is needed: with p = 40000 at 16 bits the signed-compare trick of the vector kernel and the scalar `>=` disagree
example : (genRunSse .w16 (2 ^ 4) 40000 ((List.range 16).map (fun i => 30000 - i)) 0 (List.replicate 12 1) 0 (List.replicate 12 1) 0).1 ≠
    (C02LoopAst.genRun .w16 (2 ^ 4) 40000 ((List.range 16).map (fun i => 30000 - i)) 0 (List.replicate 12 1) 0 (List.replicate 12 1) 0).1 := by
  decide +kernel

end Nfl.C05LoopAst
