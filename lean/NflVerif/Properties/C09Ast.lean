/-
C09 / C12 / C15 on the code RE-TRANSLATED FROM THE SOURCE: the per-coefficient statements of Properties/C09.lean (canonical residues,
one signed integer for all moduli), C12.lean (exact support of the bounded sampler, value of a ternary byte, acceptance test) and the
reduction of C15's setters, transported to the definitions that tools/gen_set_ast.py regenerates from clang's AST of include/nfl/core.hpp
(Generated/SetAst.lean) through the equalities of Proofs/SetAstEq.lean.

What is NOT covered here (hand-modelled, tied to the code by the differential streams only): the loops (which cell each iteration
touches, the request sizes, the refill of the random buffer, the reservoir as a whole, std::sort), and `floor(log2((double) p))`, which
enters as the hypothesis `flog2 p = Nat.log2 p` (validated on every table row by the `umask` stream).
The `if (amplifier == 1) … else …` that joins the two loop bodies of set(non_uniform) is re-assembled by hand in `bnd_uW` below.
-/
import NflVerif.Proofs.SetAstEq

namespace Nfl.C09Ast
open Nfl Nfl.Samplers Nfl.SetAstEq
open Nfl.Spec.Samplers (enc)

theorem enc_lt {p : Nat} {v : Int} (hp : 0 < p) (hv : v.natAbs < p) : enc p v < p := by
  unfold enc; split <;> omega

/-! ### 16-bit limb -/

/-- `set(uniform)`: the generated mask + loop body is the model's `uniCoef`, hence canonical -/
theorem uniform_u16_ast (flog2 : Nat → Nat) (p x : Nat) (hf : flog2 p = Nat.log2 p) (hp0 : 0 < p) (hp : p < 2 ^ 16) (hx : x < 2 ^ 16) :
    Gen.uni_body_u16 p (Gen.uni_mask_u16 flog2 p) x = uniCoef 16 p x ∧ Gen.uni_body_u16 p (Gen.uni_mask_u16 flog2 p) x < p := by
  have hm : uniMask 16 p < 2 ^ 16 := Nat.mod_lt _ (by decide)
  have e : Gen.uni_body_u16 p (Gen.uni_mask_u16 flog2 p) x = uniCoef 16 p x := by
    rw [uni_mask_u16_eq flog2 p hf (by omega), uni_body_u16_eq p _ x (by omega) hm hx]; rfl
  exact ⟨e, e ▸ uniCoef_lt hp0 (by omega) (by omega) x⟩

/-- the C++ `if (amplifier == 1) ... else ...` of `set(non_uniform)` over the generated pieces -/
def bnd_u16 (p B A x : Nat) : Nat :=
  if Gen.bnd_is1_u16 A then Gen.bnd_amp1_u16 p B (Gen.bnd_mask_u16 B) x else Gen.bnd_ampg_u16 p B A (Gen.bnd_mask_u16 B) x

theorem bnd_u16_eq (p B A x : Nat) (hp : p < 2 ^ 16) (hx : x < 2 ^ 16) : bnd_u16 p B A x = bndCoef 16 B A p x := by
  unfold bnd_u16
  rw [bnd_is1_u16_eq, bnd_mask_u16_eq]
  by_cases h : A = 1
  · subst h; rw [decide_eq_true rfl, if_pos rfl]; exact bnd_amp1_u16_eq p B x hp hx
  · rw [decide_eq_false h, if_neg (by decide)]; exact bnd_ampg_u16_eq p B A x h hp hx

/-- `set(non_uniform)`: the function throws exactly when `B ≥ p` -/
theorem bounded_throws_u16_ast (p B : Nat) (hp : p < 2 ^ 16) : Gen.bnd_throw_u16 p B = true ↔ B ≥ p := by
  rw [bnd_throw_u16_eq p B hp]; exact decide_eq_true_iff

/-- `set(non_uniform)` (C09 bounded_crt_consistent / bounded_canonical, C12 bounded_support / bounded_value), on the generated code:
the stored word is the encoding of ONE signed integer `A·j`, `|j| ≤ B-1`, that does not depend on the modulus; it is canonical -/
theorem bounded_u16_ast {p B A : Nat} (hB : 1 ≤ B) (hA : 1 ≤ A) (hBp : B < p) (hAB : A * (B - 1) < p) (hw : 4 * p ≤ 2 ^ 16)
    (x : Nat) (hx : x < 2 ^ 16) :
    bnd_u16 p B A x = enc p ((A : Int) * bndSigned 16 B x) ∧ (bndSigned 16 B x).natAbs ≤ B - 1 ∧ bnd_u16 p B A x < p := by
  have habs := bndSigned_abs (w := 16) hB (by omega) (by decide) x
  have e : bnd_u16 p B A x = enc p ((A : Int) * bndSigned 16 B x) := by
    rw [bnd_u16_eq p B A x (by omega) hx]; exact bndCoef_eq hB hA hBp hAB hw (by decide) x
  refine ⟨e, habs, ?_⟩
  rw [e]
  apply enc_lt (by omega)
  rw [Int.natAbs_mul, Int.natAbs_natCast]
  exact Nat.lt_of_le_of_lt (Nat.mul_le_mul_left A habs) hAB

/-- `set(gaussian)` (C09 gaussian_crt_consistent / gaussian_canonical) on the generated code: sample `v` (as its 16-bit word), amplifier `amp` -/
theorem gaussian_u16_ast {p amp : Nat} {v : Int} (hpw : 2 * p ≤ 2 ^ 16) (hadm : v.natAbs * amp < p)
    (hlo : -(2 : Int) ^ 15 ≤ v) (hhi : v < (2 : Int) ^ 15) :
    Gen.gau_store_u16 p (Gen.gau_amp_u16 amp (res 16 v)) = enc p (v * amp) ∧
      Gen.gau_store_u16 p (Gen.gau_amp_u16 amp (res 16 v)) < p := by
  have hna : (v * (amp : Int)).natAbs < p := by rw [Int.natAbs_mul, Int.natAbs_natCast]; exact hadm
  have h1 : -(2 : Int) ^ 15 ≤ v * amp := by omega
  have h2 : v * amp < (2 : Int) ^ 15 := by omega
  have e : Gen.gau_store_u16 p (Gen.gau_amp_u16 amp (res 16 v)) = enc p (v * amp) := by
    rw [gau_amp_u16_eq amp v hlo hhi, gauAmp_eq (w := 16) (by decide) (by decide) h1 h2,
      gau_store_u16_eq p (v * amp) (by omega) h1 h2]
    exact gauStore_eq (by omega) hna
  exact ⟨e, e ▸ enc_lt (by omega) hna⟩

/-- `set(ZO_dist)` (C09 zo_crt_consistent / zo_canonical, C12 zo_value) on the generated code -/
theorem zo_u16_ast {p : Nat} (hp : 2 ≤ p) (hpw : p < 2 ^ 16) (rho b : Nat) (hr : rho < 2 ^ 8) (hb : b < 2 ^ 8) :
    Gen.zo_coef_u16 p rho b = enc p (zoVal rho b) ∧ Gen.zo_coef_u16 p rho b < p := by
  have e : Gen.zo_coef_u16 p rho b = enc p (zoVal rho b) := by
    rw [zo_coef_u16_eq p rho b hpw hb hr]; exact zoCoef_eq (by omega) hpw rho b
  refine ⟨e, e ▸ enc_lt (by omega) ?_⟩
  unfold zoVal; split
  · split <;> simp <;> omega
  · simp; omega

/-- `set(hwt_dist)`, the store of a sign (C09 hwt_crt_consistent): `+1` or `-1`, the same for every modulus -/
theorem hwt_sign_u16_ast {p : Nat} (hp : 2 ≤ p) (hpw : p < 2 ^ 16) (x : Nat) (hx : x < 2 ^ 64) :
    Gen.hwt_sign_u16 p x = enc p (if x &&& 2 ≠ 0 then 1 else -1) ∧ Gen.hwt_sign_u16 p x < p := by
  rw [hwt_sign_u16_eq p x hpw hx, pmOf_eq (by omega) hpw]
  split
  · simp [enc]; omega
  · simp [enc]; omega

/-- `set(hwt_dist)`, rejection sampling (C12 accept_iff_below_threshold): a word is accepted iff it is below the largest multiple of `k+1` -/
theorem hwt_accept_u16_ast (k x : Nat) (hk : k + 1 < 2 ^ 64) :
    Gen.hwt_accept_u16 k x = true ↔ x < sizeMax / (k + 1) * (k + 1) := by
  rw [hwt_accept_u16_eq k x hk]; unfold accept; exact decide_eq_true_iff

/-- `set(It,It,true)` (C09 values_canonical / values_crt_consistent): the stored word is `v mod p` -/
theorem values_u16_ast {p : Nat} (hp0 : 0 < p) (hp : p < 2 ^ 16) (v : Nat) (hv : v < 2 ^ 16) :
    Gen.set_store_u16 p true v = v % p ∧ Gen.set_store_u16 p true v < p := by
  have hlt : v % p < p := Nat.mod_lt _ hp0
  have e : Gen.set_store_u16 p true v = v % p := by
    rw [set_store_u16_eq p true v hp hv]; unfold Setters.storeWord; simp only [if_true]; exact Nat.mod_eq_of_lt (by omega)
  exact ⟨e, e ▸ hlt⟩

/-! ### 32-bit limb -/

/-- `set(uniform)`: the generated mask + loop body is the model's `uniCoef`, hence canonical -/
theorem uniform_u32_ast (flog2 : Nat → Nat) (p x : Nat) (hf : flog2 p = Nat.log2 p) (hp0 : 0 < p) (hp : p < 2 ^ 32) (hx : x < 2 ^ 32) :
    Gen.uni_body_u32 p (Gen.uni_mask_u32 flog2 p) x = uniCoef 32 p x ∧ Gen.uni_body_u32 p (Gen.uni_mask_u32 flog2 p) x < p := by
  have hm : uniMask 32 p < 2 ^ 32 := Nat.mod_lt _ (by decide)
  have e : Gen.uni_body_u32 p (Gen.uni_mask_u32 flog2 p) x = uniCoef 32 p x := by
    rw [uni_mask_u32_eq flog2 p hf (by omega), uni_body_u32_eq p _ x (by omega) hm hx]; rfl
  exact ⟨e, e ▸ uniCoef_lt hp0 (by omega) (by omega) x⟩

/-- the C++ `if (amplifier == 1) ... else ...` of `set(non_uniform)` over the generated pieces -/
def bnd_u32 (p B A x : Nat) : Nat :=
  if Gen.bnd_is1_u32 A then Gen.bnd_amp1_u32 p B (Gen.bnd_mask_u32 B) x else Gen.bnd_ampg_u32 p B A (Gen.bnd_mask_u32 B) x

theorem bnd_u32_eq (p B A x : Nat) (hp : p < 2 ^ 32) (hx : x < 2 ^ 32) : bnd_u32 p B A x = bndCoef 32 B A p x := by
  unfold bnd_u32
  rw [bnd_is1_u32_eq, bnd_mask_u32_eq]
  by_cases h : A = 1
  · subst h; rw [decide_eq_true rfl, if_pos rfl]; exact bnd_amp1_u32_eq p B x hp hx
  · rw [decide_eq_false h, if_neg (by decide)]; exact bnd_ampg_u32_eq p B A x h hp hx

/-- `set(non_uniform)`: the function throws exactly when `B ≥ p` -/
theorem bounded_throws_u32_ast (p B : Nat) (hp : p < 2 ^ 32) : Gen.bnd_throw_u32 p B = true ↔ B ≥ p := by
  rw [bnd_throw_u32_eq p B hp]; exact decide_eq_true_iff

/-- `set(non_uniform)` (C09 bounded_crt_consistent / bounded_canonical, C12 bounded_support / bounded_value), on the generated code:
the stored word is the encoding of ONE signed integer `A·j`, `|j| ≤ B-1`, that does not depend on the modulus; it is canonical -/
theorem bounded_u32_ast {p B A : Nat} (hB : 1 ≤ B) (hA : 1 ≤ A) (hBp : B < p) (hAB : A * (B - 1) < p) (hw : 4 * p ≤ 2 ^ 32)
    (x : Nat) (hx : x < 2 ^ 32) :
    bnd_u32 p B A x = enc p ((A : Int) * bndSigned 32 B x) ∧ (bndSigned 32 B x).natAbs ≤ B - 1 ∧ bnd_u32 p B A x < p := by
  have habs := bndSigned_abs (w := 32) hB (by omega) (by decide) x
  have e : bnd_u32 p B A x = enc p ((A : Int) * bndSigned 32 B x) := by
    rw [bnd_u32_eq p B A x (by omega) hx]; exact bndCoef_eq hB hA hBp hAB hw (by decide) x
  refine ⟨e, habs, ?_⟩
  rw [e]
  apply enc_lt (by omega)
  rw [Int.natAbs_mul, Int.natAbs_natCast]
  exact Nat.lt_of_le_of_lt (Nat.mul_le_mul_left A habs) hAB

/-- `set(gaussian)` (C09 gaussian_crt_consistent / gaussian_canonical) on the generated code: sample `v` (as its 32-bit word), amplifier `amp` -/
theorem gaussian_u32_ast {p amp : Nat} {v : Int} (hpw : 2 * p ≤ 2 ^ 32) (hadm : v.natAbs * amp < p)
    (hlo : -(2 : Int) ^ 31 ≤ v) (hhi : v < (2 : Int) ^ 31) :
    Gen.gau_store_u32 p (Gen.gau_amp_u32 amp (res 32 v)) = enc p (v * amp) ∧
      Gen.gau_store_u32 p (Gen.gau_amp_u32 amp (res 32 v)) < p := by
  have hna : (v * (amp : Int)).natAbs < p := by rw [Int.natAbs_mul, Int.natAbs_natCast]; exact hadm
  have h1 : -(2 : Int) ^ 31 ≤ v * amp := by omega
  have h2 : v * amp < (2 : Int) ^ 31 := by omega
  have e : Gen.gau_store_u32 p (Gen.gau_amp_u32 amp (res 32 v)) = enc p (v * amp) := by
    rw [gau_amp_u32_eq amp v hlo hhi, gauAmp_eq (w := 32) (by decide) (by decide) h1 h2,
      gau_store_u32_eq p (v * amp) (by omega) h1 h2]
    exact gauStore_eq (by omega) hna
  exact ⟨e, e ▸ enc_lt (by omega) hna⟩

/-- `set(ZO_dist)` (C09 zo_crt_consistent / zo_canonical, C12 zo_value) on the generated code -/
theorem zo_u32_ast {p : Nat} (hp : 2 ≤ p) (hpw : p < 2 ^ 32) (rho b : Nat) (hr : rho < 2 ^ 8) (hb : b < 2 ^ 8) :
    Gen.zo_coef_u32 p rho b = enc p (zoVal rho b) ∧ Gen.zo_coef_u32 p rho b < p := by
  have e : Gen.zo_coef_u32 p rho b = enc p (zoVal rho b) := by
    rw [zo_coef_u32_eq p rho b hpw hb hr]; exact zoCoef_eq (by omega) hpw rho b
  refine ⟨e, e ▸ enc_lt (by omega) ?_⟩
  unfold zoVal; split
  · split <;> simp <;> omega
  · simp; omega

/-- `set(hwt_dist)`, the store of a sign (C09 hwt_crt_consistent): `+1` or `-1`, the same for every modulus -/
theorem hwt_sign_u32_ast {p : Nat} (hp : 2 ≤ p) (hpw : p < 2 ^ 32) (x : Nat) (hx : x < 2 ^ 64) :
    Gen.hwt_sign_u32 p x = enc p (if x &&& 2 ≠ 0 then 1 else -1) ∧ Gen.hwt_sign_u32 p x < p := by
  rw [hwt_sign_u32_eq p x hpw hx, pmOf_eq (by omega) hpw]
  split
  · simp [enc]; omega
  · simp [enc]; omega

/-- `set(hwt_dist)`, rejection sampling (C12 accept_iff_below_threshold): a word is accepted iff it is below the largest multiple of `k+1` -/
theorem hwt_accept_u32_ast (k x : Nat) (hk : k + 1 < 2 ^ 64) :
    Gen.hwt_accept_u32 k x = true ↔ x < sizeMax / (k + 1) * (k + 1) := by
  rw [hwt_accept_u32_eq k x hk]; unfold accept; exact decide_eq_true_iff

/-- `set(It,It,true)` (C09 values_canonical / values_crt_consistent): the stored word is `v mod p` -/
theorem values_u32_ast {p : Nat} (hp0 : 0 < p) (hp : p < 2 ^ 32) (v : Nat) (hv : v < 2 ^ 32) :
    Gen.set_store_u32 p true v = v % p ∧ Gen.set_store_u32 p true v < p := by
  have hlt : v % p < p := Nat.mod_lt _ hp0
  have e : Gen.set_store_u32 p true v = v % p := by
    rw [set_store_u32_eq p true v hp hv]; unfold Setters.storeWord; simp only [if_true]; exact Nat.mod_eq_of_lt (by omega)
  exact ⟨e, e ▸ hlt⟩

/-! ### 64-bit limb -/

/-- `set(uniform)`: the generated mask + loop body is the model's `uniCoef`, hence canonical -/
theorem uniform_u64_ast (flog2 : Nat → Nat) (p x : Nat) (hf : flog2 p = Nat.log2 p) (hp0 : 0 < p) (hp : p < 2 ^ 63) (hx : x < 2 ^ 64) :
    Gen.uni_body_u64 p (Gen.uni_mask_u64 flog2 p) x = uniCoef 64 p x ∧ Gen.uni_body_u64 p (Gen.uni_mask_u64 flog2 p) x < p := by
  have hm : uniMask 64 p < 2 ^ 64 := Nat.mod_lt _ (by decide)
  have e : Gen.uni_body_u64 p (Gen.uni_mask_u64 flog2 p) x = uniCoef 64 p x := by
    rw [uni_mask_u64_eq flog2 p hf (by omega), uni_body_u64_eq p _ x (by omega) hm hx]; rfl
  exact ⟨e, e ▸ uniCoef_lt hp0 (by omega) (by omega) x⟩

/-- the C++ `if (amplifier == 1) ... else ...` of `set(non_uniform)` over the generated pieces -/
def bnd_u64 (p B A x : Nat) : Nat :=
  if Gen.bnd_is1_u64 A then Gen.bnd_amp1_u64 p B (Gen.bnd_mask_u64 B) x else Gen.bnd_ampg_u64 p B A (Gen.bnd_mask_u64 B) x

theorem bnd_u64_eq (p B A x : Nat) (hp : p < 2 ^ 64) (hx : x < 2 ^ 64) : bnd_u64 p B A x = bndCoef 64 B A p x := by
  unfold bnd_u64
  rw [bnd_is1_u64_eq, bnd_mask_u64_eq]
  by_cases h : A = 1
  · subst h; rw [decide_eq_true rfl, if_pos rfl]; exact bnd_amp1_u64_eq p B x hp hx
  · rw [decide_eq_false h, if_neg (by decide)]; exact bnd_ampg_u64_eq p B A x h hp hx

/-- `set(non_uniform)`: the function throws exactly when `B ≥ p` -/
theorem bounded_throws_u64_ast (p B : Nat) (hp : p < 2 ^ 64) : Gen.bnd_throw_u64 p B = true ↔ B ≥ p := by
  rw [bnd_throw_u64_eq p B hp]; exact decide_eq_true_iff

/-- `set(non_uniform)` (C09 bounded_crt_consistent / bounded_canonical, C12 bounded_support / bounded_value), on the generated code:
the stored word is the encoding of ONE signed integer `A·j`, `|j| ≤ B-1`, that does not depend on the modulus; it is canonical -/
theorem bounded_u64_ast {p B A : Nat} (hB : 1 ≤ B) (hA : 1 ≤ A) (hBp : B < p) (hAB : A * (B - 1) < p) (hw : 4 * p ≤ 2 ^ 64)
    (x : Nat) (hx : x < 2 ^ 64) :
    bnd_u64 p B A x = enc p ((A : Int) * bndSigned 64 B x) ∧ (bndSigned 64 B x).natAbs ≤ B - 1 ∧ bnd_u64 p B A x < p := by
  have habs := bndSigned_abs (w := 64) hB (by omega) (by decide) x
  have e : bnd_u64 p B A x = enc p ((A : Int) * bndSigned 64 B x) := by
    rw [bnd_u64_eq p B A x (by omega) hx]; exact bndCoef_eq hB hA hBp hAB hw (by decide) x
  refine ⟨e, habs, ?_⟩
  rw [e]
  apply enc_lt (by omega)
  rw [Int.natAbs_mul, Int.natAbs_natCast]
  exact Nat.lt_of_le_of_lt (Nat.mul_le_mul_left A habs) hAB

/-- `set(gaussian)` (C09 gaussian_crt_consistent / gaussian_canonical) on the generated code: sample `v` (as its 64-bit word), amplifier `amp` -/
theorem gaussian_u64_ast {p amp : Nat} {v : Int} (hpw : 2 * p ≤ 2 ^ 64) (hadm : v.natAbs * amp < p)
    (hlo : -(2 : Int) ^ 63 ≤ v) (hhi : v < (2 : Int) ^ 63) :
    Gen.gau_store_u64 p (Gen.gau_amp_u64 amp (res 64 v)) = enc p (v * amp) ∧
      Gen.gau_store_u64 p (Gen.gau_amp_u64 amp (res 64 v)) < p := by
  have hna : (v * (amp : Int)).natAbs < p := by rw [Int.natAbs_mul, Int.natAbs_natCast]; exact hadm
  have h1 : -(2 : Int) ^ 63 ≤ v * amp := by omega
  have h2 : v * amp < (2 : Int) ^ 63 := by omega
  have e : Gen.gau_store_u64 p (Gen.gau_amp_u64 amp (res 64 v)) = enc p (v * amp) := by
    rw [gau_amp_u64_eq amp v hlo hhi, gauAmp_eq (w := 64) (by decide) (by decide) h1 h2,
      gau_store_u64_eq p (v * amp) (by omega) h1 h2]
    exact gauStore_eq (by omega) hna
  exact ⟨e, e ▸ enc_lt (by omega) hna⟩

/-- `set(ZO_dist)` (C09 zo_crt_consistent / zo_canonical, C12 zo_value) on the generated code -/
theorem zo_u64_ast {p : Nat} (hp : 2 ≤ p) (hpw : p < 2 ^ 64) (rho b : Nat) (hr : rho < 2 ^ 8) (hb : b < 2 ^ 8) :
    Gen.zo_coef_u64 p rho b = enc p (zoVal rho b) ∧ Gen.zo_coef_u64 p rho b < p := by
  have e : Gen.zo_coef_u64 p rho b = enc p (zoVal rho b) := by
    rw [zo_coef_u64_eq p rho b hpw hb hr]; exact zoCoef_eq (by omega) hpw rho b
  refine ⟨e, e ▸ enc_lt (by omega) ?_⟩
  unfold zoVal; split
  · split <;> simp <;> omega
  · simp; omega

/-- `set(hwt_dist)`, the store of a sign (C09 hwt_crt_consistent): `+1` or `-1`, the same for every modulus -/
theorem hwt_sign_u64_ast {p : Nat} (hp : 2 ≤ p) (hpw : p < 2 ^ 64) (x : Nat) (hx : x < 2 ^ 64) :
    Gen.hwt_sign_u64 p x = enc p (if x &&& 2 ≠ 0 then 1 else -1) ∧ Gen.hwt_sign_u64 p x < p := by
  rw [hwt_sign_u64_eq p x hpw hx, pmOf_eq (by omega) hpw]
  split
  · simp [enc]; omega
  · simp [enc]; omega

/-- `set(hwt_dist)`, rejection sampling (C12 accept_iff_below_threshold): a word is accepted iff it is below the largest multiple of `k+1` -/
theorem hwt_accept_u64_ast (k x : Nat) (hk : k + 1 < 2 ^ 64) :
    Gen.hwt_accept_u64 k x = true ↔ x < sizeMax / (k + 1) * (k + 1) := by
  rw [hwt_accept_u64_eq k x hk]; unfold accept; exact decide_eq_true_iff

/-- `set(It,It,true)` (C09 values_canonical / values_crt_consistent): the stored word is `v mod p` -/
theorem values_u64_ast {p : Nat} (hp0 : 0 < p) (hp : p < 2 ^ 64) (v : Nat) (hv : v < 2 ^ 64) :
    Gen.set_store_u64 p true v = v % p ∧ Gen.set_store_u64 p true v < p := by
  have hlt : v % p < p := Nat.mod_lt _ hp0
  have e : Gen.set_store_u64 p true v = v % p := by
    rw [set_store_u64_eq p true v hp hv]; unfold Setters.storeWord; simp only [if_true]; exact Nat.mod_eq_of_lt (by omega)
  exact ⟨e, e ▸ hlt⟩

/-! ### non-vacuity and concrete evaluations of the generated code (`flog2 := Nat.log2`) -/

example : Gen.uni_mask_u16 Nat.log2 15361 = 16383 ∧ Gen.uni_body_u16 15361 16383 65535 = 1022 := by decide
example : Gen.uni_mask_u32 Nat.log2 1073479681 = 1073741823 ∧ Gen.uni_body_u32 1073479681 1073741823 4294967295 = 262142 := by decide
example : Gen.uni_mask_u64 Nat.log2 4611686018326724609 = 4611686018427387903 ∧
    Gen.uni_body_u64 4611686018326724609 4611686018427387903 (2 ^ 64 - 1) = 100663294 := by decide
/-- the draw of the example of Properties/C09.lean: `tmp = 197 ≥ B = 100`, `v = (197-199)·3 = -6`, stored as `p - 6` for both moduli -/
example : Gen.bnd_mask_u16 100 = 255 ∧ bnd_u16 15361 100 3 197 = 15355 ∧ bnd_u16 13313 100 3 197 = 13307 ∧ bnd_u16 15361 100 1 197 = 15359 := by
  decide
example : Gen.bnd_mask_u32 (2 ^ 20) = 2 ^ 21 - 1 ∧ bnd_u32 1073479681 (2 ^ 20) 1 (2 ^ 21 - 1) = 0 ∧ bnd_u32 1073479681 5 2 8 = 1073479679 := by decide
set_option maxRecDepth 100000 in
/-- 64-bit limb, `B = 2^52` (the former rounding-`log2` region), random word all ones -/
example : Gen.bnd_mask_u64 (2 ^ 52) = 2 ^ 53 - 1 ∧ bnd_u64 4611686018326724609 (2 ^ 52) 1 (2 ^ 64 - 1) = 0 ∧
    Gen.bnd_mask_u64 (2 ^ 63) = 2 ^ 64 - 1 := by decide
example : Gen.bnd_throw_u16 15361 15361 = true ∧ Gen.bnd_throw_u16 15361 15360 = false := by decide
example : Gen.gau_store_u16 15361 (Gen.gau_amp_u16 1024 (res 16 (-12))) = 15361 - 12288 ∧ Gen.gau_store_u16 15361 (res 16 7) = 7 := by decide
example : Gen.gau_store_u32 1073479681 (Gen.gau_amp_u32 3 (res 32 (-5))) = 1073479681 - 15 := by decide
example : Gen.gau_store_u64 4611686018326724609 (Gen.gau_amp_u64 3 (res 64 (-5))) = 4611686018326724609 - 15 := by decide
example : Gen.zo_coef_u16 15361 127 2 = 1 ∧ Gen.zo_coef_u16 15361 127 1 = 15360 ∧ Gen.zo_coef_u16 15361 127 128 = 0 := by decide
example : Gen.zo_coef_u32 1073479681 127 1 = 1073479680 ∧ Gen.zo_coef_u64 4611686018326724609 255 253 = 4611686018326724608 := by decide
example : Gen.hwt_accept_u16 2 (2 ^ 64 - 1) = false ∧ Gen.hwt_accept_u16 2 (2 ^ 64 - 2) = true ∧ Gen.hwt_index_u64 2 (2 ^ 64 - 2) = 2 := by decide
example : Gen.hwt_res_u32 2 3 1 9 = 3 ∧ Gen.hwt_res_u32 2 3 2 9 = 9 ∧ Gen.hwt_sign_u16 15361 2 = 1 ∧ Gen.hwt_sign_u64 4611686018326724609 5 = 4611686018326724608 := by
  decide
example : Gen.set_store_u16 15361 true 15362 = 1 ∧ Gen.set_store_u16 15361 false 15362 = 15362 ∧ Gen.set_store_u64 7 true 23 = 2 ∧
    Gen.set_badsize_u32 8 2 9 = true ∧ Gen.set_badsize_u32 8 2 16 = false ∧ Gen.set_iszero_u16 0 = true := by decide

end Nfl.C09Ast
