/-
C02 / C01 on a transform whose LOOPS AND BLOCKS are both obtained from the source text.

`Generated/NttLoopAst.lean` (tools/gen_nttloop_ast.py, re-generated on every run) is the loop structure of
`ops::ntt_loop<simd::serial>::run` (algos.hpp), `poly::core::ntt` and `poly::core::inv_ntt` (core.hpp): index-level code on
(array, offset) pointers, `degree` a parameter, calling the straight-line blocks of `Generated/NttAst.lean` (tools/gen_ntt_ast.py) and
`permut_compute` of `Generated/PermutAst.lean` (tools/gen_permut_ast.py: permut.hpp).  This file states
  (1) `ntt_eq`, `inv_ntt_eq`: the generated `core::ntt` / `core::inv_ntt` EQUAL the hand-written model's `nttWord` / `invNttWord`
      (`Model/Ntt.lean`) for every degree `2^k` (`k ≤ 32`, resp. `k ≤ 15`), every limb width, every `p` with `2p < 2^w`, all arrays of
      `w`-bit words of length `2^k`, all tables of `w`-bit words with at least `2^k - 4` entries;
  (2) `fwdGen_eq`, `invGen_eq`: with the tables of the model's `initTables` (core::initialize is translated elsewhere), the generated
      transforms are C02's `fwd` / `inv`;
  (3) the end-to-end statements of C02 (round trip, canonicity, evaluation) and C01 (product) about the generated transforms.
Hypotheses of (1), each needed:
  * `k ≤ 32`: `const size_t M = 1 << w` and `return 1<<J` are `int` shifts (undefined from `2^31` on; `example` below: the
    wrap-around reading gives `M = 0`-extended garbage at 31).  `k ≤ 15` for the inverse: `permut_compute<degree>::idx_type` is
    `uint16_t` only up to 65535 and the translated table builder was instantiated for that type (degrees 2^16.. use other text).
  * `2 * p < 2^w` (32/64 bit): the blocks compute `2*p` in `T` (see `Properties/C02Ast.lean`).
  * words `< 2^w`: the C types.  * table length `≥ 2^k - 4`: what the layers read (`wtab[0 .. 2^k-4)`; `wtab[2^k-3]` by the last two
    layers may be anything, a read past the end gives 0 on both sides); the model's `take` would silently shorten a layer otherwise.
  * `yinit` (uninitialised local array `y[degree+1]` of inv_ntt): any contents, at least `degree` cells.
Proofs: `Proofs/NttLoopAstEq.lean` (loop invariants), `Proofs/NttLoopModelPt.lean` (pointwise model), `Proofs/PermutAstEq.lean`.
-/
import NflVerif.Proofs.NttLoopAstEq
import NflVerif.Properties.C02Ast
import NflVerif.Properties.C01

namespace Nfl.C02LoopAst
open Nfl Nfl.Gen Nfl.C03 Nfl.NttRefine Nfl.NttAstEq Nfl.NttLoopAstEq Nfl.C02Ast

/-! ### the generated functions, indexed by limb width -/

def genRun : Limb → Nat → Nat → List Nat → Nat → List Nat → Nat → List Nat → Nat → List Nat × Nat × Nat × Nat
  | .w16 => ntt_loop_run_u16 | .w32 => ntt_loop_run_u32 | .w64 => ntt_loop_run_u64
/-- `core::ntt(x, wtab, winvtab, p)`: `genNtt l degree p x x_o wtab wtab_o winvtab winvtab_o` = the new contents of `x` -/
def genNtt : Limb → Nat → Nat → List Nat → Nat → List Nat → Nat → List Nat → Nat → List Nat
  | .w16 => ntt_u16 | .w32 => ntt_u32 | .w64 => ntt_u64
/-- `core::inv_ntt(x, inv_wtab, inv_winvtab, invK, p)`: `genInvNtt l degree invK p yinit x x_o …` = the new contents of `x` -/
def genInvNtt : Limb → Nat → Nat → Nat → List Nat → List Nat → Nat → List Nat → Nat → List Nat → Nat → List Nat
  | .w16 => inv_ntt_u16 | .w32 => inv_ntt_u32 | .w64 => inv_ntt_u64

theorem genNtt_shape (l : Limb) : genNtt l = nttG (runG (genBody l)) (genDeg2 l) (genLast2 l) (genFinal l) := by
  cases l
  · exact ntt_u16_shape.trans (by rw [run_u16_shape]; rfl)
  · exact ntt_u32_shape.trans (by rw [run_u32_shape]; rfl)
  · exact ntt_u64_shape.trans (by rw [run_u64_shape]; rfl)

theorem genInvNtt_shape (l : Limb) (d invK : Nat) : genInvNtt l d invK = invG (genNtt l) d := by
  cases l
  · exact congrFun (congrFun inv_ntt_u16_shape d) invK
  · exact congrFun (congrFun inv_ntt_u32_shape d) invK
  · exact congrFun (congrFun inv_ntt_u64_shape d) invK

variable (l : Limb) {p : Nat}

theorem bodyOK (hp : p < 2 ^ l.w) (h2p : l.w ≠ 16 → 2 * p < 2 ^ l.w) : BodyOK (genBody l) l.w p :=
  fun _ _ _ _ h0 h1 hwt hwi => genBody_eq l hp h2p h0 h1 hwt hwi

theorem deg2OK (hp : p < 2 ^ l.w) (h2p : l.w ≠ 16 → 2 * p < 2 ^ l.w) : Deg2OK (genDeg2 l) l.w p := by
  intro u0 u1 h0 h1
  cases l
  · exact ntt_deg2_u16_eq p u0 u1 hp h0 h1
  · have := h2p (by decide)
    exact ntt_deg2_u32_eq p u0 u1 (by simp only [Limb.w] at this; omega) h0 h1
  · have := h2p (by decide)
    exact ntt_deg2_u64_eq p u0 u1 (by simp only [Limb.w] at this; omega) h0 h1

theorem last2OK (hp : p < 2 ^ l.w) (h2p : l.w ≠ 16 → 2 * p < 2 ^ l.w) : Last2OK (genLast2 l) l.w p := by
  intro u0 u1 u2 u3 w1 wi1 h0 h1 h2 h3 hw hwi
  cases l
  · exact ntt_last2_u16_eq p u0 u1 u2 u3 w1 wi1 hp h0 h1 h2 h3 hw hwi
  · have := h2p (by decide)
    exact ntt_last2_u32_eq p u0 u1 u2 u3 w1 wi1 (by simp only [Limb.w] at this; omega) h0 h1 h2 h3 hw hwi
  · have := h2p (by decide)
    exact ntt_last2_u64_eq p u0 u1 u2 u3 w1 wi1 (by simp only [Limb.w] at this; omega) h0 h1 h2 h3 hw hwi

theorem finOK (hp : p < 2 ^ l.w) : FinOK (genFinal l) l.w p := fun _ hx => genFinal_eq l hp hx

/-! ### (1) generated `core::ntt` / `core::inv_ntt` = the hand-written model, every degree -/

/-- **`core::ntt`, loops and blocks from the source = `nttWord`**, for every degree `2^k`, `k ≤ 32` -/
theorem ntt_eq {k : Nat} (hk : k ≤ 32) (hp : p < 2 ^ l.w) (h2p : l.w ≠ 16 → 2 * p < 2 ^ l.w) (x wtab winvtab : List Nat)
    (hx : x.length = 2 ^ k) (hxw : ∀ v ∈ x, v < 2 ^ l.w) (hwt : ∀ v ∈ wtab, v < 2 ^ l.w) (hwi : ∀ v ∈ winvtab, v < 2 ^ l.w)
    (hlw : 2 ^ k ≤ wtab.length + 4) (hlw' : 2 ^ k ≤ winvtab.length + 4) :
    genNtt l (2 ^ k) p x 0 wtab 0 winvtab 0 = nttWord l.w p k wtab winvtab x := by
  have h := (nttG_eq (bodyOK l hp h2p) (deg2OK l hp h2p) (last2OK l hp h2p) (finOK l hp) (Wd_of_forall hwt) (Wd_of_forall hwi) hk
    (t := []) hx (by rw [List.append_nil]; exact Wd_of_forall hxw) hlw hlw').1
  rw [List.append_nil, List.append_nil] at h
  rw [genNtt_shape]; exact h

/-- the same on a longer array (the local `y[degree+1]` of inv_ntt): the cells from `2^k` on are untouched -/
theorem ntt_eq_append {k : Nat} (hk : k ≤ 32) (hp : p < 2 ^ l.w) (h2p : l.w ≠ 16 → 2 * p < 2 ^ l.w) (x t wtab winvtab : List Nat)
    (hx : x.length = 2 ^ k) (hxw : ∀ v ∈ x ++ t, v < 2 ^ l.w) (hwt : ∀ v ∈ wtab, v < 2 ^ l.w) (hwi : ∀ v ∈ winvtab, v < 2 ^ l.w)
    (hlw : 2 ^ k ≤ wtab.length + 4) (hlw' : 2 ^ k ≤ winvtab.length + 4) :
    genNtt l (2 ^ k) p (x ++ t) 0 wtab 0 winvtab 0 = nttWord l.w p k wtab winvtab x ++ t := by
  rw [genNtt_shape]
  exact (nttG_eq (bodyOK l hp h2p) (deg2OK l hp h2p) (last2OK l hp h2p) (finOK l hp) (Wd_of_forall hwt) (Wd_of_forall hwi) hk hx
    (Wd_of_forall hxw) hlw hlw').1

/-- **`core::inv_ntt` (permut, ntt, permut; all from the source) = `invNttWord`**, for every degree `2^k`, `k ≤ 15` -/
theorem inv_ntt_eq {k : Nat} (hk : k ≤ 15) (hp : p < 2 ^ l.w) (h2p : l.w ≠ 16 → 2 * p < 2 ^ l.w) (invK : Nat)
    (x yinit wtab winvtab : List Nat) (hx : x.length = 2 ^ k) (hxw : ∀ v ∈ x, v < 2 ^ l.w) (hy : 2 ^ k ≤ yinit.length)
    (hyw : ∀ v ∈ yinit, v < 2 ^ l.w) (hwt : ∀ v ∈ wtab, v < 2 ^ l.w) (hwi : ∀ v ∈ winvtab, v < 2 ^ l.w)
    (hlw : 2 ^ k ≤ wtab.length + 4) (hlw' : 2 ^ k ≤ winvtab.length + 4) :
    genInvNtt l (2 ^ k) invK p yinit x 0 wtab 0 winvtab 0 = invNttWord l.w p k wtab winvtab x := by
  rw [genInvNtt_shape, genNtt_shape]
  exact invG_eq (bodyOK l hp h2p) (deg2OK l hp h2p) (last2OK l hp h2p) (finOK l hp) (Wd_of_forall hwt) (Wd_of_forall hwi) hk hx hxw hy
    hyw hlw hlw'

/-! ### (2) with the tables of `initTables`: the generated transforms are C02's `fwd` / `inv` -/

/-- `ntt_pow_phi` on one modulus slice: the twist by `phis` (element-wise, hand model) then the generated `core::ntt` -/
def fwdGen (l : Limb) (r : Row) (k : Nat) (a : List Nat) : List Nat :=
  genNtt l (2 ^ k) r.p (mulShoupList l.w r.p a (initTables l.w l.lk r k).phis (initTables l.w l.lk r k).shoupphis) 0
    (initTables l.w l.lk r k).omegas 0 (initTables l.w l.lk r k).shoupomegas 0

/-- `invntt_pow_invphi`: the generated `core::inv_ntt` (`yinit`: the uninitialised local array, `invK`: the unused argument)
then the twist by `invphis` -/
def invGen (l : Limb) (r : Row) (k : Nat) (yinit : List Nat) (invK : Nat) (y : List Nat) : List Nat :=
  mulShoupList l.w r.p
    (genInvNtt l (2 ^ k) invK r.p yinit y 0 (initTables l.w l.lk r k).invomegas 0 (initTables l.w l.lk r k).shoupinvomegas 0)
    (initTables l.w l.lk r k).invphis (initTables l.w l.lk r k).shoupinvphis

variable {r : Row} {k : Nat}

theorem lt_word_of_canonical (hr : r ∈ l.table.rows) {a : List Nat} (hc : Canonical r.p a) : ∀ v ∈ a, v < 2 ^ l.w :=
  fun v hv => by have := hc v hv; have := p_lt l hr; omega

theorem shoup_words (t : List Nat) : ∀ v ∈ t.map (shoupOf l.w r.p), v < 2 ^ l.w := by
  intro v hv
  obtain ⟨x, _, rfl⟩ := List.mem_map.mp hv
  exact shoupOf_lt _ _ _

theorem lk_le (l : Limb) : l.lk ≤ 32 := by cases l <;> simp [Limb.lk]

theorem fwdGen_eq (hr : r ∈ l.table.rows) (hk : k ≤ l.lk) (a : List Nat) (ha : a.length = 2 ^ k) (hc : Canonical r.p a) :
    fwdGen l r k a = C02.fwd l r k a := by
  have h := ctx_of_row l hr hk
  obtain ⟨f1, _⟩ := phiW_spec h
  obtain ⟨o1, _⟩ := mulmod_spec h.p_pos h.hmul f1 f1
  obtain ⟨t1, t2, _⟩ := iterMul_spec h.p_pos h.hmul f1 (2 ^ k) 1 h.one_lt
  obtain ⟨m1, m2, _⟩ := mulShoupList_spec h.hw h.p_pos h.four_p a _ (Canonical.lt_word h hc) t1
  obtain ⟨w1, w2⟩ := prepWtab_spec h.p_pos h.one_lt h.hmul k _ o1
  rw [C02.fwd, fwd_eq]
  exact ntt_eq l (by have := lk_le l; omega) (p_lt l hr) (fun _ => two_p_lt l hr)
    (mulShoupList l.w r.p a (iterMul l.w r.p r.pn (phiW l.w l.lk r k) (2 ^ k) 1)
      ((iterMul l.w r.p r.pn (phiW l.w l.lk r k) (2 ^ k) 1).map (shoupOf l.w r.p)))
    (prepWtab l.w r.p r.pn k (mulmod l.w r.p r.pn (phiW l.w l.lk r k) (phiW l.w l.lk r k)))
    ((prepWtab l.w r.p r.pn k (mulmod l.w r.p r.pn (phiW l.w l.lk r k) (phiW l.w l.lk r k))).map (shoupOf l.w r.p))
    (by rw [m2, ha, t2]; simp) (lt_word_of_canonical l hr m1) (lt_word_of_canonical l hr w1) (shoup_words l _) (by omega)
    (by rw [List.length_map]; omega)

theorem invGen_eq (hr : r ∈ l.table.rows) (hk : k ≤ l.lk) (hk15 : k ≤ 15) (yinit : List Nat) (invK : Nat) (y : List Nat)
    (hy : y.length = 2 ^ k) (hc : Canonical r.p y) (hyi : 2 ^ k ≤ yinit.length) (hyw : ∀ v ∈ yinit, v < 2 ^ l.w) :
    invGen l r k yinit invK y = C02.inv l r k y := by
  have h := ctx_of_row l hr hk
  obtain ⟨f1, _⟩ := invphiW_spec h
  obtain ⟨o1, _⟩ := mulmod_spec h.p_pos h.hmul f1 f1
  obtain ⟨w1, w2⟩ := prepWtab_spec h.p_pos h.one_lt h.hmul k _ o1
  have e := inv_ntt_eq l hk15 (p_lt l hr) (fun _ => two_p_lt l hr) invK y yinit
    (prepWtab l.w r.p r.pn k (mulmod l.w r.p r.pn (invphiW l.w l.lk r k) (invphiW l.w l.lk r k)))
    ((prepWtab l.w r.p r.pn k (mulmod l.w r.p r.pn (invphiW l.w l.lk r k) (invphiW l.w l.lk r k))).map (shoupOf l.w r.p))
    hy (lt_word_of_canonical l hr hc) hyi hyw (lt_word_of_canonical l hr w1) (shoup_words l _) (by omega)
    (by rw [List.length_map]; omega)
  rw [C02.inv, inv_eq, ← e]
  rfl

/-! ### (3) C02 / C01 end to end, about the transforms whose loops and blocks are translated from the source -/

/-- C02 round trip: inverse ∘ forward = identity, word for word -/
theorem inv_fwd_gen (hr : r ∈ l.table.rows) (hk : k ≤ l.lk) (hk15 : k ≤ 15) (yinit : List Nat) (invK : Nat) (a : List Nat)
    (ha : a.length = 2 ^ k) (hc : Canonical r.p a) (hyi : 2 ^ k ≤ yinit.length) (hyw : ∀ v ∈ yinit, v < 2 ^ l.w) :
    invGen l r k yinit invK (fwdGen l r k a) = a := by
  obtain ⟨c1, c2⟩ := C02.fwd_canonical l hr hk a ha hc
  rw [fwdGen_eq l hr hk a ha hc, invGen_eq l hr hk hk15 yinit invK _ c2 c1 hyi hyw]
  exact C02.inv_fwd l hr hk a ha hc

/-- C02 round trip: forward ∘ inverse = identity -/
theorem fwd_inv_gen (hr : r ∈ l.table.rows) (hk : k ≤ l.lk) (hk15 : k ≤ 15) (yinit : List Nat) (invK : Nat) (y : List Nat)
    (hy : y.length = 2 ^ k) (hc : Canonical r.p y) (hyi : 2 ^ k ≤ yinit.length) (hyw : ∀ v ∈ yinit, v < 2 ^ l.w) :
    fwdGen l r k (invGen l r k yinit invK y) = y := by
  obtain ⟨c1, c2⟩ := C02.inv_canonical l hr hk y hy hc
  rw [invGen_eq l hr hk hk15 yinit invK y hy hc hyi hyw, fwdGen_eq l hr hk _ c2 c1]
  exact C02.fwd_inv l hr hk y hy hc

/-- C02 canonicity of the forward transform (every degree up to kMaxPolyDegree) -/
theorem fwd_canonical_gen (hr : r ∈ l.table.rows) (hk : k ≤ l.lk) (a : List Nat) (ha : a.length = 2 ^ k) (hc : Canonical r.p a) :
    Canonical r.p (fwdGen l r k a) ∧ (fwdGen l r k a).length = 2 ^ k := by
  rw [fwdGen_eq l hr hk a ha hc]; exact C02.fwd_canonical l hr hk a ha hc

/-- C02: what the forward transform is — the values at the odd powers of `φ`, bit-reversed -/
theorem fwd_is_evaluation_gen (hr : r ∈ l.table.rows) (hk : k ≤ l.lk) (a : List Nat) (ha : a.length = 2 ^ k)
    (hc : Canonical r.p a) (i : Nat) (hi : i < 2 ^ k) :
    (((fwdGen l r k a).getD i 0 : Nat) : ZMod r.p) =
      Dft.evalAt (a.map (fun (x : Nat) => (x : ZMod r.p))) (phiZ l.lk r k ^ (2 * Dft.bitrev k i + 1)) := by
  rw [fwdGen_eq l hr hk a ha hc]; exact C02.fwd_is_evaluation l hr hk a ha hc i hi

/-- C01: transform both operands, multiply pointwise, transform back = the product in `Z_p[X]/(X^n+1)` -/
theorem product_gen (hr : r ∈ l.table.rows) (hk : k ≤ l.lk) (hk15 : k ≤ 15) (yinit : List Nat) (invK : Nat) (a b : List Nat)
    (ha : a.length = 2 ^ k) (hb : b.length = 2 ^ k) (hca : Canonical r.p a) (hcb : Canonical r.p b) (hyi : 2 ^ k ≤ yinit.length)
    (hyw : ∀ v ∈ yinit, v < 2 ^ l.w) :
    invGen l r k yinit invK (List.zipWith (mulmod l.w r.p r.pn) (fwdGen l r k a) (fwdGen l r k b)) = Spec.negacyclicNat r.p a b := by
  have h := ctx_of_row l hr hk
  obtain ⟨a1, a2⟩ := C02.fwd_canonical l hr hk a ha hca
  obtain ⟨b1, b2⟩ := C02.fwd_canonical l hr hk b hb hcb
  rw [fwdGen_eq l hr hk a ha hca, fwdGen_eq l hr hk b hb hcb]
  have hz : (List.zipWith (mulmod l.w r.p r.pn) (C02.fwd l r k a) (C02.fwd l r k b)).length = 2 ^ k := by
    rw [List.length_zipWith, a2, b2]; simp
  have hcz : Canonical r.p (List.zipWith (mulmod l.w r.p r.pn) (C02.fwd l r k a) (C02.fwd l r k b)) := by
    intro v hv
    obtain ⟨i, hi, rfl⟩ := List.getElem_of_mem hv
    rw [List.getElem_zipWith]
    exact (mulmod_spec h.p_pos h.hmul (a1 _ (List.getElem_mem _)) (b1 _ (List.getElem_mem _))).1
  rw [invGen_eq l hr hk hk15 yinit invK _ hz hcz hyi hyw]
  exact C01.product l hr hk a b ha hb hca hcb

/-! ### non-vacuity, concrete runs, necessity of the hypotheses -/

-- a whole generated transform on a concrete degree-8 slice, first 16-bit modulus, tables of the model
example : fwdGen .w16 ⟨15361, 17458, 4989, 15331⟩ 3 [1, 2, 3, 4, 5, 6, 7, 15360] =
    C02.fwd .w16 ⟨15361, 17458, 4989, 15331⟩ 3 [1, 2, 3, 4, 5, 6, 7, 15360] := by decide +kernel
example : invGen .w16 ⟨15361, 17458, 4989, 15331⟩ 3 [9, 9, 9, 9, 9, 9, 9, 9, 9] 0
    (fwdGen .w16 ⟨15361, 17458, 4989, 15331⟩ 3 [1, 2, 3, 4, 5, 6, 7, 15360]) = [1, 2, 3, 4, 5, 6, 7, 15360] := by decide +kernel
-- the table-length hypothesis is needed: with 3 entries instead of 2^3 - 4 = 4 the model's `take` shortens the first layer
example : genNtt .w16 (2 ^ 3) 15361 [1, 2, 3, 4, 5, 6, 7, 8] 0 [1, 1, 1] 0 [1, 1, 1] 0 ≠
    nttWord 16 15361 3 [1, 1, 1] [1, 1, 1] [1, 2, 3, 4, 5, 6, 7, 8] := by decide +kernel
-- `k ≤ 32` is needed: at layer 31 the `int` shift `1 << w` is not `2^31` (undefined in C++; wrap-around reading below)
example : CSem.castSU 64 (CSemLoop.shlS32v 1 31) ≠ 2 ^ 31 ∧ CSem.castSU 64 (CSemLoop.shlS32v 1 32) = 0 := by decide

end Nfl.C02LoopAst
