/-
C14 — the property theorems restated for histories executed with the step functions GENERATED from clang's AST of
include/nfl/poly_p.hpp (`Generated/CowAst.lean`), driven by `Nfl.CowAst.stepG` / `runG` (Proofs/CowAstEq.lean).

`step_ast_eq`: for every state and every statement the generated members do what the hand model `Cow.step` does
(no hypothesis: both are undefined on exactly the same states).  The C14 theorems are then corollaries.
The only place where a clause of C14's invariant is needed is `serialize_is_touch` (see Proofs/CowAstEq.lean,
`poly_obj_cell`, with a `decide` example showing the clause is necessary).
-/
import NflVerif.Properties.C14
import NflVerif.Proofs.CowAstEq

namespace Nfl.C14Ast
open Nfl.Cow Nfl.CowAst

/-- **The tie.**  Generated members + driver = hand model, statement by statement, in every state. -/
theorem step_ast_eq (s : State) (op : Op) : stepG s op = step s op := stepG_eq s op

theorem run_ast_eq (ops : List Op) (s : State) : runG ops s = run ops s := runG_eq ops s

theorem observe_ast_eq (s : State) (op : Op) : observeG s op = observe s op := observeG_eq s op

/-- **Behaves as values** (C14.refines) for the generated code: every well-formed history runs on the generated
    members without undefined behaviour and every handle shows what the same history gives on plain values. -/
theorem behaves_as_values_ast (nh : Nat) (ops : List Op) (hwf : C14.WF ops (initV nh)) :
    (runG ops (init nh)).map abs = some (runValues ops (initV nh)) := by
  rw [runG_eq]; exact C14.refines nh ops hwf

/-- the same from any state satisfying C14's invariant -/
theorem behaves_as_values_inv_ast {s : State} (hinv : Inv s) (ops : List Op) (hwf : C14.WF ops (abs s)) :
    ∃ s', runG ops s = some s' ∧ Inv s' ∧ abs s' = runValues ops (abs s) := by
  rw [runG_eq]; exact C14.refines_inv hinv ops hwf

/-- **All storage is released exactly once** (C14.released_once) for the generated code -/
theorem released_once_ast (nh : Nat) (ops : List Op) (hwf : C14.WF ops (initV nh)) :
    ∃ s, runG (ops ++ destroyAll (runValues ops (initV nh))) (init nh) = some s ∧
      (∀ p, s.heap p = none) ∧ (∀ h ∈ s.hs, h = Handle.dead) ∧
      s.freeLog.Perm s.allocLog ∧ s.allocLog.Nodup ∧ s.freeLog.Nodup ∧
      (∀ p, p ∈ s.allocLog → s.freeLog.count p = 1) := by
  rw [runG_eq]; exact C14.released_once nh ops hwf

theorem no_double_free_ast (nh : Nat) (ops : List Op) (hwf : C14.WF ops (initV nh)) :
    ∃ s, runG ops (init nh) = some s ∧ s.freeLog.Nodup ∧ ∀ p ∈ s.freeLog, p ∈ s.allocLog := by
  rw [runG_eq]; exact C14.no_double_free nh ops hwf

/-- the results of `==` / `!=` / const element reads computed by the generated members (pointer short-cut included)
    are those of the value semantics -/
theorem compare_sound_ast {s : State} (hinv : Inv s) {a b : Nat} (neg : Bool)
    (hok : okV (abs s) (.compare a b neg) = true) :
    observeG s (.compare a b neg) = observeV (abs s) (.compare a b neg) := by
  rw [observeG_eq]; exact C14.compare_sound hinv neg hok

/-- the test the generated `detach()` evaluates, `Sp.unique heap _p`, is true exactly when no other handle shares the cell -/
theorem unique_test_ast {s : State} (hinv : Inv s) {h p : Nat} (hh : s.hs[h]? = some (.at p)) :
    Sp.unique (heapOf s) (.at p) = true ↔ ∀ i, i ≠ h → s.hs[i]? ≠ some (.at p) := by
  rw [← C14.unique_iff hinv hh]
  simp only [Sp.unique, Sp.useCount, useCount, hh, heapOf_cells, beq_iff_eq]
  cases s.heap p <;> simp

/-- `serialize_manually` (value-level meaning `id`) only detaches — on the heaps of C14's invariant -/
theorem serialize_is_touch {s : State} (hinv : Inv s) (d : Nat) :
    ((ptrAt s d).bind fun t => (Gen.Cow.serialize_manually_ostream id (heapOf s) t ()).map fun x => put s x.1 d x.2) =
    step s (.touch d) :=
  serialize_touch s d hinv.fresh

/-! ### non-vacuity: C14's demo history, executed by the generated members (kernel evaluation of the generated text) -/

example : (runG C14.demo (init 3)).map abs =
    some [.val [2, 4, 12, 8], .val [0, 0, 0, 0], .val [4, 9, 2, 1]] := by decide

example : (runG (C14.demo ++ destroyAll (runValues C14.demo (initV 3))) (init 3)).map (fun s => (s.allocLog, s.freeLog)) =
    some ([3, 2, 1, 0], [1, 3, 2, 0]) := by decide

/-- the pointer short-cut and the element-wise path of the generated `operator==` / `operator!=` -/
example : ((runG [.mkVal 0 [1, 2], .copyCtor 1 0, .mkVal 2 [1, 2], .mkVal 3 [1, 3]] (init 4)).map fun s =>
    [observeG s (.compare 0 1 false), observeG s (.compare 0 2 false), observeG s (.compare 0 3 false),
     observeG s (.compare 0 1 true), observeG s (.compare 0 3 true)]) =
    some [some 1, some 1, some 0, some 0, some 1] := by decide

end Nfl.C14Ast
