/-
C03 — Coefficient-wise modular operations are exact for every operand and modulus.

Property theorems only (helper lemmas live in `Proofs/OpsExact.lean`).  The statements quantify over
*all* operands in range, and over *every row* of the regenerated tables (via C06).
-/
import NflVerif.Proofs.OpsExact
import NflVerif.Properties.C06

namespace Nfl.C03
open Nfl Nfl.Gen

/-- the three limb widths with the table each one uses -/
inductive Limb | w16 | w32 | w64
def Limb.w : Limb → Nat | .w16 => 16 | .w32 => 32 | .w64 => 64
def Limb.lk : Limb → Nat | .w16 => 9 | .w32 => 15 | .w64 => 20
def Limb.table : Limb → Table | .w16 => table16 | .w32 => table32 | .w64 => table64

theorem Limb.w_cases (l : Limb) : l.w = 16 ∨ l.w = 32 ∨ l.w = 64 := by cases l <;> simp [Limb.w]

/-- every row of every table satisfies the C06 facts -/
theorem row_ok (l : Limb) : ∀ r ∈ l.table.rows, RowOK l.w l.lk r := by
  cases l
  · exact C06.table16_rows_ok
  · exact C06.table32_rows_ok
  · exact C06.table64_rows_ok

theorem four_p_le (l : Limb) {r : Row} (hr : r ∈ l.table.rows) : 4 * r.p ≤ 2 ^ l.w :=
  (row_ok l r hr).four_p_le (by cases l <;> simp [Limb.w])

theorem p_pos (l : Limb) {r : Row} (hr : r ∈ l.table.rows) : 0 < r.p := (row_ok l r hr).p_pos

/-- **addition**: `(x+y) mod p` in `[0,p)`, every row, all `x y < p`. -/
theorem add_exact (l : Limb) {r : Row} (hr : r ∈ l.table.rows) {x y : Nat} (hx : x < r.p) (hy : y < r.p) :
    addmod l.w r.p x y = (x + y) % r.p ∧ addmod l.w r.p x y < r.p := by
  have h4 := four_p_le l hr
  exact ⟨addmod_exact (by omega) hx hy, addmod_lt (by omega) hx hy⟩

/-- **subtraction**: the representative of `x - y` in `[0,p)`. -/
theorem sub_exact (l : Limb) {r : Row} (hr : r ∈ l.table.rows) {x y : Nat} (hx : x < r.p) (hy : y < r.p) :
    ((submod l.w r.p x y : Nat) : Int) = ((x : Int) - y) % r.p ∧ submod l.w r.p x y < r.p := by
  have h4 := four_p_le l hr
  refine ⟨submod_int (by omega) hx hy, ?_⟩
  rw [submod_exact (by omega) hx hy]; exact Nat.mod_lt _ (p_pos l hr)

/-- **multiplication** (division-based for 16/32 bit, Barrett with the tabulated Newton quotient for 64 bit). -/
theorem mul_exact (l : Limb) {r : Row} (hr : r ∈ l.table.rows) {x y : Nat} (hx : x < r.p) (hy : y < r.p) :
    mulmod l.w r.p r.pn x y = x * y % r.p := by
  have h4 := four_p_le l hr
  have hp0 := p_pos l hr
  have hrow := row_ok l r hr
  cases l
  · simp only [Limb.w] at *; unfold mulmod; simp only [show (16:Nat) ≠ 64 by decide, if_false]
    exact mulmodDiv_exact hp0 (by omega) (by omega) (by omega)
  · simp only [Limb.w] at *; unfold mulmod; simp only [show (32:Nat) ≠ 64 by decide, if_false]
    exact mulmodDiv_exact hp0 (by omega) (by omega) (by omega)
  · simp only [Limb.w] at *; unfold mulmod; simp only [if_true]
    have hpn := C06.pn64_lt r hr
    exact mulmod64_exact hp0 h4 (by have := hrow.newton; simpa [Limb.w] using this) (by omega) hx hy

/-- **precomputed quotient** of *any* word `y`: `⌊(y mod p)·2^w/p⌋`. -/
theorem shoup_quotient (l : Limb) {r : Row} (hr : r ∈ l.table.rows) (y : Nat) :
    computeShoup l.w r.p y = (y % r.p) * 2 ^ l.w / r.p := by
  have h4 := four_p_le l hr
  exact computeShoup_spec (p_pos l hr) (by omega) y

/-- **multiplication with precomputed quotient**, exact for `y < p` and *every word* `x`
(so also for the lazily reduced values inside the transforms). -/
theorem mulshoup_exact (l : Limb) {r : Row} (hr : r ∈ l.table.rows) {x y : Nat} (hx : x < 2 ^ l.w) (hy : y < r.p) :
    mulmodShoup l.w r.p x y (computeShoup l.w r.p y) = x * y % r.p := by
  have h4 := four_p_le l hr
  exact mulmodShoup_computeShoup l.w_cases (p_pos l hr) (by omega) hx hy

/-- **division-based fused multiply-add** -/
theorem muladd_exact (l : Limb) {r : Row} (hr : r ∈ l.table.rows) {z x y : Nat}
    (hz : z < r.p) (hx : x < r.p) (hy : y < r.p) :
    muladd l.w r.p r.pn z x y = (x * y + z) % r.p := by
  have h4 := four_p_le l hr
  have hp0 := p_pos l hr
  have hrow := row_ok l r hr
  cases l
  · simp only [Limb.w] at *; unfold muladd; simp only [show (16:Nat) ≠ 64 by decide, if_false]
    exact muladdDiv_exact hp0 h4 hz hx hy
  · simp only [Limb.w] at *; unfold muladd; simp only [show (32:Nat) ≠ 64 by decide, if_false]
    exact muladdDiv_exact hp0 h4 hz hx hy
  · simp only [Limb.w] at *; unfold muladd; simp only [if_true]
    have hpn := C06.pn64_lt r hr
    exact muladd64_exact hp0 h4 (by have := hrow.newton; simpa [Limb.w] using this) (by omega) hz hx hy

/-- **lazily reduced multiply-add with precomputed quotient**: congruent to `x*y+z`, below `2p`. -/
theorem muladdshoup_lazy (l : Limb) {r : Row} (hr : r ∈ l.table.rows) {z x y : Nat}
    (hz : z < r.p) (hx : x < 2 ^ l.w) (hy : y < r.p) :
    muladdShoup l.w r.p z x y (computeShoup l.w r.p y) % r.p = (x * y + z) % r.p ∧
    muladdShoup l.w r.p z x y (computeShoup l.w r.p y) < 2 * r.p := by
  have h4 := four_p_le l hr
  rw [shoup_quotient l hr y, Nat.mod_eq_of_lt hy]
  exact muladdShoup_lazy l.w_cases (p_pos l hr) h4 hz hx hy

/-- Non-vacuity: the hypotheses are met by a concrete row and operands (`x + y = p` boundary). -/
example : addmod 16 15361 15360 1 = 0 := by decide
example : (⟨15361, 17458, 4989, 15331⟩ : Row) ∈ Limb.w16.table.rows := by decide

end Nfl.C03
