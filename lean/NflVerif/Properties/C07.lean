/-
C07 — Expression templates evaluate to their coefficient-wise meaning.

Property theorems only (helpers: `Proofs/ExprStore.lean` loop invariant, `Proofs/ExprExact.lean` exactness via C03,
`Proofs/ExprVec.lean` register-level evaluation).  Model: `Model/Expr.lean`; meaning: `Spec/ExprSpec.lean`.

All statements quantify over every tree `e`, every store, **every destination `d`** – nothing relates `d` to the
leaves of `e`, so every aliasing pattern between destination and operands is covered.
Hypotheses: the moduli are rows of the generated tables (C06), the destination exists and has the size of a
polynomial, the tree is admissible (`Adm`: canonical operands, third operand of a fused product = precomputed
quotient of the second), and the compile-time condition `degree % vector_size == 0` (core.hpp l.29, static_assert).
-/
import NflVerif.Proofs.ExprExact
import NflVerif.Proofs.ExprVec
namespace Nfl.C07
open Nfl Nfl.Ex

/-- **closed form**: `dest = e` replaces the destination row by the exact coefficient-wise meaning of `e` on the
store *before* the assignment and changes nothing else. -/
theorem assign_closed_form (c : Ctx) (hrows : c.TableRows) (be : Backend) (d : Nat) (e : Expr) (st : Store)
    (hd : d < st.length) (hlen : (st.getD d []).length = c.n)
    (hdiv : eltCount c.l (mode be c.l e) ∣ c.deg) (hadm : Adm c st e) :
    assign c be d e st = st.set d (pointwise c st e) := by
  unfold assign
  rw [assignW_eq hd hlen hdiv (eltCount_pos _ _), newWords_eq_pointwise hrows st e hadm]

/-- **C07 main theorem**: for every tree, store and destination (aliased with any subset of the leaves or none),
the destination holds `pointwise (evalExact e) store₀`, every other handle is unchanged. -/
theorem assign_correct (c : Ctx) (hrows : c.TableRows) (be : Backend) (d : Nat) (e : Expr) (st : Store)
    (hd : d < st.length) (hlen : (st.getD d []).length = c.n)
    (hdiv : eltCount c.l (mode be c.l e) ∣ c.deg) (hadm : Adm c st e) :
    (assign c be d e st).getD d [] = pointwise c st e ∧
    (∀ h, h ≠ d → (assign c be d e st).getD h [] = st.getD h []) ∧
    (assign c be d e st).length = st.length := by
  rw [assign_closed_form c hrows be d e st hd hlen hdiv hadm]
  refine ⟨?_, ?_, by simp⟩
  · simp [List.getD_eq_getElem?_getD, List.getElem?_set, hd]
  · intro h hh
    have : ¬ d = h := fun x => hh x.symm
    simp [List.getD_eq_getElem?_getD, List.getElem?_set, this]

/-- coefficient form of the main theorem -/
theorem assign_correct_coeff (c : Ctx) (hrows : c.TableRows) (be : Backend) (d : Nat) (e : Expr) (st : Store)
    (hd : d < st.length) (hlen : (st.getD d []).length = c.n)
    (hdiv : eltCount c.l (mode be c.l e) ∣ c.deg) (hadm : Adm c st e)
    (cm i : Nat) (hcm : cm < c.nmod) (hi : i < c.deg) :
    rd (assign c be d e st) d (cm * c.deg + i) = evalExact c st e cm i := by
  have hk : cm * c.deg + i < c.n := by
    unfold Ctx.n
    calc cm * c.deg + i < cm * c.deg + c.deg := by omega
      _ = (cm + 1) * c.deg := by rw [Nat.add_mul, Nat.one_mul]
      _ ≤ c.nmod * c.deg := Nat.mul_le_mul_right _ hcm
  unfold rd
  rw [(assign_correct c hrows be d e st hd hlen hdiv hadm).1]
  unfold pointwise
  simp [List.getD_eq_getElem?_getD, List.getElem?_map, List.getElem?_range hk, idx_div hi, idx_mod hi]

/-- **mode irrelevance (widths)**: every vector width dividing the degree produces the same store – no hypothesis on
the tree or the data at all. -/
theorem mode_irrelevant (c : Ctx) (vs₁ vs₂ d : Nat) (e : Expr) (st : Store)
    (hd : d < st.length) (hlen : (st.getD d []).length = c.n)
    (h₁ : vs₁ ∣ c.deg) (h₂ : vs₂ ∣ c.deg) (p₁ : 0 < vs₁) (p₂ : 0 < vs₂) :
    assignW c vs₁ d e st = assignW c vs₂ d e st := by
  rw [assignW_eq hd hlen h₁ p₁, assignW_eq hd hlen h₂ p₂]

/-- **mode irrelevance (backends)**: whichever backends accept the tree, they assign the same words. -/
theorem backend_irrelevant (c : Ctx) (be₁ be₂ : Backend) (d : Nat) (e : Expr) (st : Store)
    (hd : d < st.length) (hlen : (st.getD d []).length = c.n)
    (h₁ : eltCount c.l (mode be₁ c.l e) ∣ c.deg) (h₂ : eltCount c.l (mode be₂ c.l e) ∣ c.deg) :
    assign c be₁ d e st = assign c be₂ d e st :=
  mode_irrelevant c _ _ d e st hd hlen h₁ h₂ (eltCount_pos _ _) (eltCount_pos _ _)

/-- **mode irrelevance (kernels)**: evaluating whole registers with kernels that are lane-wise the scalar functors
(the SIMD-kernel = scalar-lane facts, hypothesis `Kernels.Lanewise`) gives the element-wise evaluation, at any width. -/
theorem kernel_irrelevant (K : Kernels) (c : Ctx) (hK : K.Lanewise c) (vs d : Nat) (e : Expr) (st : Store)
    (hd : d < st.length) (hlen : (st.getD d []).length = c.n) (hdiv : vs ∣ c.deg) (hvs : 0 < vs) :
    assignK K c vs d e st = assignW c 1 d e st := by
  rw [assignK_eq_assignW hK]
  exact mode_irrelevant c vs 1 d e st hd hlen hdiv (Nat.one_dvd _) hvs Nat.one_pos

/-- **shape independence**: two admissible trees with the same coefficient-wise meaning assign the same store,
whatever their shapes and the modes they are evaluated in. -/
theorem shape_independent (c : Ctx) (hrows : c.TableRows) (be₁ be₂ : Backend) (d : Nat) (e₁ e₂ : Expr) (st : Store)
    (hd : d < st.length) (hlen : (st.getD d []).length = c.n)
    (h₁ : eltCount c.l (mode be₁ c.l e₁) ∣ c.deg) (h₂ : eltCount c.l (mode be₂ c.l e₂) ∣ c.deg)
    (a₁ : Adm c st e₁) (a₂ : Adm c st e₂)
    (hsame : ∀ cm, cm < c.nmod → ∀ i, i < c.deg → evalExact c st e₁ cm i = evalExact c st e₂ cm i) :
    assign c be₁ d e₁ st = assign c be₂ d e₂ st := by
  rw [assign_closed_form c hrows be₁ d e₁ st hd hlen h₁ a₁, assign_closed_form c hrows be₂ d e₂ st hd hlen h₂ a₂]
  congr 1
  unfold pointwise
  apply List.map_congr_left
  intro k hk
  have hk' : k < c.nmod * c.deg := List.mem_range.mp hk
  have hdeg : 0 < c.deg := by
    rcases Nat.eq_zero_or_pos c.deg with h | h
    · rw [h] at hk'; omega
    · exact h
  exact hsame _ (by rw [Nat.div_lt_iff_lt_mul hdeg]; exact hk') _ (Nat.mod_lt _ hdeg)

/-- **construction** `poly c(e)` / `poly_p c(e)`: the new object holds the meaning of `e`, whatever its
uninitialised storage contained; the existing objects are unchanged. -/
theorem construct_correct (c : Ctx) (hrows : c.TableRows) (be : Backend) (junk : List Nat) (e : Expr) (st : Store)
    (hj : junk.length = c.n) (hleaves : ∀ h ∈ e.leaves, h < st.length)
    (hdiv : eltCount c.l (mode be c.l e) ∣ c.deg) (hadm : Adm c st e) :
    construct c be junk e st = st ++ [pointwise c st e] := by
  unfold construct
  have hcongr : ∀ h ∈ e.leaves, (st ++ [junk]).getD h [] = st.getD h [] := by
    intro h hh
    have := hleaves h hh
    simp [List.getD_eq_getElem?_getD, List.getElem?_append_left this]
  have hd : st.length < (st ++ [junk]).length := by simp
  have hlen : ((st ++ [junk]).getD st.length []).length = c.n := by
    simp [List.getD_eq_getElem?_getD, hj]
  rw [assign_closed_form c hrows be st.length e (st ++ [junk]) hd hlen hdiv (Adm_congr c st _ e hcongr hadm)]
  have : pointwise c (st ++ [junk]) e = pointwise c st e := by
    unfold pointwise
    apply List.map_congr_left
    intro k _
    exact evalExact_congr c st _ e hcongr _ _
  rw [this]
  simp

/-- assignment, construction and the helper functions agree: the row produced for `e` is the same. -/
theorem construct_eq_assign (c : Ctx) (hrows : c.TableRows) (be be' : Backend) (junk : List Nat) (d : Nat) (e : Expr)
    (st : Store) (hj : junk.length = c.n) (hleaves : ∀ h ∈ e.leaves, h < st.length)
    (hd : d < st.length) (hlen : (st.getD d []).length = c.n)
    (hdiv : eltCount c.l (mode be c.l e) ∣ c.deg) (hdiv' : eltCount c.l (mode be' c.l e) ∣ c.deg) (hadm : Adm c st e) :
    (construct c be junk e st).getD st.length [] = (assign c be' d e st).getD d [] := by
  rw [construct_correct c hrows be junk e st hj hleaves hdiv hadm,
    (assign_correct c hrows be' d e st hd hlen hdiv' hadm).1]
  simp [List.getD_eq_getElem?_getD]

/-- `nfl::add(out,a,b)`, `nfl::sub`, `nfl::mul` are the assignments `out = a + b`, … (by definition of the wrappers),
hence have the same closed form – including `out` aliased with `a` and/or `b`. -/
theorem helpers_correct (c : Ctx) (hrows : c.TableRows) (be : Backend) (out a b : Nat) (st : Store)
    (hd : out < st.length) (hlen : (st.getD out []).length = c.n)
    (hcanon : ∀ cm, cm < c.nmod → ∀ i, i < c.deg → rd st a (cm * c.deg + i) < c.p cm ∧ rd st b (cm * c.deg + i) < c.p cm)
    (hdiv : ∀ m : Mode, eltCount c.l m ∣ c.deg) :
    addH c be out a b st = st.set out (pointwise c st (.add (.leaf a) (.leaf b))) ∧
    subH c be out a b st = st.set out (pointwise c st (.sub (.leaf a) (.leaf b))) ∧
    mulH c be out a b st = st.set out (pointwise c st (.mul (.leaf a) (.leaf b))) := by
  refine ⟨?_, ?_, ?_⟩
  · exact assign_closed_form c hrows be out _ st hd hlen (hdiv _) ⟨trivial, trivial, hcanon⟩
  · exact assign_closed_form c hrows be out _ st hd hlen (hdiv _) ⟨trivial, trivial, hcanon⟩
  · exact assign_closed_form c hrows be out _ st hd hlen (hdiv _) ⟨trivial, trivial, hcanon⟩

/-- results of `+ - *` and of the fused product are canonical again (so they may be operands of further nodes) -/
theorem evalExact_canonical (c : Ctx) (hrows : c.TableRows) (st : Store) (a b q : Expr) (cm i : Nat) (hcm : cm < c.nmod) :
    evalExact c st (.add a b) cm i < c.p cm ∧ evalExact c st (.sub a b) cm i < c.p cm ∧
    evalExact c st (.mul a b) cm i < c.p cm ∧ evalExact c st (.shoup3 a b q) cm i < c.p cm := by
  have hp := C03.p_pos _ (Ctx.row_mem hrows hcm)
  exact ⟨Nat.mod_lt _ hp, Nat.mod_lt _ hp, Nat.mod_lt _ hp, Nat.mod_lt _ hp⟩

/-! ### non-vacuity: 16-bit limb, degree 8, the two 14-bit moduli; SSE (vector width 8) -/

def exCtx : Ctx := { l := .w16, deg := 8, rows := Nfl.Gen.table16.rows }

/-- handles 0,1 : polynomials `a`, `b` (values up to `p-1`), handle 2 : precomputed quotients of `b` -/
def exStore : Store :=
  [ [15360, 1, 2, 3, 4, 5, 6, 7,  13312, 0, 1, 2, 3, 4, 5, 6],
    [15360, 15359, 9, 10, 11, 12, 13, 14,  13312, 13311, 100, 200, 300, 400, 500, 600],
    [65531, 65527, 38, 42, 46, 51, 55, 59,  65531, 65526, 492, 984, 1476, 1969, 2461, 2953] ]

example : exCtx.TableRows := fun _ h => h
example : exCtx.n = 16 := by decide
/-- the aliased assignment `a = a + shoup(a*b, b')` (destination is two of the leaves) is admissible … -/
example : admB exCtx exStore (.add (.leaf 0) (.shoup3 (.leaf 0) (.leaf 1) (.leaf 2))) = true := by decide
/-- … it is evaluated 8 elements at a time by the SSE build and yields `a + a*b mod p`, coefficient by coefficient -/
example : mode .sse .w16 (.add (.leaf 0) (.shoup3 (.leaf 0) (.leaf 1) (.leaf 2))) = .sse := by decide
example : (assign exCtx .sse 0 (.add (.leaf 0) (.shoup3 (.leaf 0) (.leaf 1) (.leaf 2))) exStore).getD 0 [] =
    [0, 15360, 20, 33, 48, 65, 84, 105, 0, 0, 101, 402, 903, 1604, 2505, 3606] := by decide
example : pointwise exCtx exStore (.add (.leaf 0) (.mul (.leaf 0) (.leaf 1))) =
    [0, 15360, 20, 33, 48, 65, 84, 105, 0, 0, 101, 402, 903, 1604, 2505, 3606] := by decide
/-- `a = a + a*b`: in the SSE build the product is evaluated by the serial functor, so the sum is too (width 1) -/
example : mode .sse .w16 (.add (.leaf 0) (.mul (.leaf 0) (.leaf 1))) = .serial := by decide
/-- `(a+b)*c` is rejected by the SSE build for 16-bit limbs (the sum is an SSE functor under a serial root) -/
example : compiles .sse .w16 8 (.mul (.add (.leaf 0) (.leaf 1)) (.leaf 2)) = false := by decide
example : compiles .sse .w64 8 (.mul (.add (.leaf 0) (.leaf 1)) (.leaf 2)) = true := by decide

/-! a degree that is not a power of two: 24 coefficients, 16-bit limbs, SSE (3 registers of 8 per modulus row; the AVX2
width 16 does not divide 24: `a = a + b` is rejected there by the library's `static_assert`, the theorems' `∣` hypothesis) -/
def exCtx24 : Ctx := { l := .w16, deg := 24, rows := Nfl.Gen.table16.rows }
def exStore24 : Store := [(List.range 48).map (fun i => (i * 300 + 7) % 13313), (List.range 48).map (13312 - · * 2)]
example : eltCount exCtx24.l .sse ∣ exCtx24.deg ∧ ¬ eltCount exCtx24.l .avx2 ∣ exCtx24.deg := by decide
example : compiles .sse .w16 24 (.add (.leaf 0) (.leaf 1)) = true ∧ compiles .avx2 .w16 24 (.add (.leaf 0) (.leaf 1)) = false := by decide
example : admB exCtx24 exStore24 (.add (.leaf 0) (.leaf 1)) = true := by decide
example : (assign exCtx24 .sse 0 (.add (.leaf 0) (.leaf 1)) exStore24).getD 0 [] =
    pointwise exCtx24 exStore24 (.add (.leaf 0) (.leaf 1)) := by decide

end Nfl.C07
