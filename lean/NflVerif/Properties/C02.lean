/-
C02 — Forward and inverse transforms are exact inverses, linear and canonical.

Property theorems only.  They are about the executable word-level model of `core::ntt`,
`core::inv_ntt`, `ntt_pow_phi`, `invntt_pow_invphi` and `core::initialize` (`Model/Ntt.lean`, tied to the
C++ by the correspondence stream), for **every** row of the regenerated tables, every degree
`2^k ≤ kMaxPolyDegree`, every canonical input, every number of moduli.
Helper lemmas: `Proofs/NttRefine*.lean` (refinement to the abstract transform) and
`Proofs/Dft*.lean` (mathematics of the decimation-in-frequency transform).
-/
import NflVerif.Proofs.NttRefine

namespace Nfl.C02
open Nfl Nfl.NttRefine Nfl.C03

variable (l : Limb) {r : Row} {k : Nat}

/-- forward transform of one modulus slice, with the tables `core::initialize` computes -/
abbrev fwd (l : Limb) (r : Row) (k : Nat) (a : List Nat) : List Nat := NttRefine.fwd l.w l.lk r k a
/-- inverse transform of one modulus slice -/
abbrev inv (l : Limb) (r : Row) (k : Nat) (y : List Nat) : List Nat := NttRefine.inv l.w l.lk r k y

/-- inverse ∘ forward = identity, word for word -/
theorem inv_fwd (hr : r ∈ l.table.rows) (hk : k ≤ l.lk) (a : List Nat) (ha : a.length = 2 ^ k)
    (hc : Canonical r.p a) : inv l r k (fwd l r k a) = a :=
  NttRefine.inv_fwd (ctx_of_row l hr hk) a ha hc

/-- forward ∘ inverse = identity, word for word -/
theorem fwd_inv (hr : r ∈ l.table.rows) (hk : k ≤ l.lk) (y : List Nat) (hy : y.length = 2 ^ k)
    (hc : Canonical r.p y) : fwd l r k (inv l r k y) = y :=
  NttRefine.fwd_inv (ctx_of_row l hr hk) y hy hc

/-- the transform of a sum is the pointwise sum of the transforms -/
theorem fwd_add (hr : r ∈ l.table.rows) (hk : k ≤ l.lk) (a b : List Nat) (ha : a.length = 2 ^ k)
    (hb : b.length = 2 ^ k) (hca : Canonical r.p a) (hcb : Canonical r.p b) :
    fwd l r k (List.zipWith (addmod l.w r.p) a b) = List.zipWith (addmod l.w r.p) (fwd l r k a) (fwd l r k b) :=
  NttRefine.fwd_add (ctx_of_row l hr hk) a b ha hb hca hcb

theorem fwd_sub (hr : r ∈ l.table.rows) (hk : k ≤ l.lk) (a b : List Nat) (ha : a.length = 2 ^ k)
    (hb : b.length = 2 ^ k) (hca : Canonical r.p a) (hcb : Canonical r.p b) :
    fwd l r k (List.zipWith (submod l.w r.p) a b) = List.zipWith (submod l.w r.p) (fwd l r k a) (fwd l r k b) :=
  NttRefine.fwd_sub (ctx_of_row l hr hk) a b ha hb hca hcb

/-- both transforms return residues in canonical range `[0,p)` (and keep the length) -/
theorem fwd_canonical (hr : r ∈ l.table.rows) (hk : k ≤ l.lk) (a : List Nat) (ha : a.length = 2 ^ k)
    (hc : Canonical r.p a) : Canonical r.p (fwd l r k a) ∧ (fwd l r k a).length = 2 ^ k :=
  NttRefine.fwd_canonical (ctx_of_row l hr hk) a ha hc

theorem inv_canonical (hr : r ∈ l.table.rows) (hk : k ≤ l.lk) (y : List Nat) (hy : y.length = 2 ^ k)
    (hc : Canonical r.p y) : Canonical r.p (inv l r k y) ∧ (inv l r k y).length = 2 ^ k :=
  NttRefine.inv_canonical (ctx_of_row l hr hk) y hy hc

/-- what the forward transform *is*: the values of the polynomial at the odd powers of
`φ = root^(2^(lk-k))` (a primitive `2^(k+1)`-th root of unity), in bit-reversed order -/
theorem fwd_is_evaluation (hr : r ∈ l.table.rows) (hk : k ≤ l.lk) (a : List Nat) (ha : a.length = 2 ^ k)
    (hc : Canonical r.p a) (i : Nat) (hi : i < 2 ^ k) :
    (((fwd l r k a).getD i 0 : Nat) : ZMod r.p) =
      Dft.evalAt (a.map (fun (x : Nat) => (x : ZMod r.p))) (phiZ l.lk r k ^ (2 * Dft.bitrev k i + 1)) := by
  have h := ctx_of_row l hr hk
  have hs := NttRefine.fwd_spec h a ha hc
  have hlen := (NttRefine.fwd_canonical h a ha hc).2
  have hev := Dft.nttSpec_eval k (phiZ l.lk r k) (a.map (fun (x : Nat) => (x : ZMod r.p)))
    (by simpa using ha) h.root_pow i hi
  rw [← hev, ← hs]
  simp [List.getD_eq_getElem?_getD, List.getElem?_map]
  rcases hx : (NttRefine.fwd l.w l.lk r k a)[i]? with _ | v
  · simp
  · simp

/-! ### whole polynomials: any number of moduli (a polynomial is the list of its modulus slices) -/

/-- `ntt_pow_phi` / `invntt_pow_invphi` on a polynomial with the first `m` moduli of the table -/
def polyFwd (l : Limb) (k : Nat) (slices : List (List Nat)) : List (List Nat) :=
  List.zipWith (fun r a => fwd l r k a) l.table.rows slices
def polyInv (l : Limb) (k : Nat) (slices : List (List Nat)) : List (List Nat) :=
  List.zipWith (fun r y => inv l r k y) l.table.rows slices

/-- every slice canonical for its own modulus and of length `2^k` -/
def PolyOK (l : Limb) (k : Nat) (slices : List (List Nat)) : Prop :=
  slices.length ≤ l.table.rows.length ∧
  ∀ cm (h : cm < slices.length) (h' : cm < l.table.rows.length),
    (slices[cm]).length = 2 ^ k ∧ Canonical (l.table.rows[cm]).p (slices[cm])

theorem poly_inv_fwd (hk : k ≤ l.lk) (s : List (List Nat)) (hs : PolyOK l k s) :
    polyInv l k (polyFwd l k s) = s := by
  unfold polyInv polyFwd
  apply List.ext_getElem
  · simp; exact hs.1
  · intro cm h1 h2
    simp only [List.length_zipWith] at h1
    have hr : cm < l.table.rows.length := by omega
    have hsl : cm < s.length := h2
    simp only [List.getElem_zipWith]
    obtain ⟨hlen, hcan⟩ := hs.2 cm hsl hr
    exact inv_fwd l (List.getElem_mem hr) hk _ hlen hcan

/-- Non-vacuity: a concrete row, degree and canonical slice meeting every hypothesis above. -/
example : (⟨15361, 17458, 4989, 15331⟩ : Row) ∈ Limb.w16.table.rows ∧ 3 ≤ Limb.w16.lk ∧
    [1, 2, 3, 4, 5, 6, 7, 15360].length = 2 ^ 3 ∧ Canonical 15361 [1, 2, 3, 4, 5, 6, 7, 15360] :=
  ⟨by decide, by decide, by decide, by unfold Canonical; decide⟩

end Nfl.C02
