/-
C10 — Gaussian sampler meets its advertised statistical distance to D_{Z,σ,c}.            *** PARTIAL ***

PROVED here (universally: generic in the index width `W` — the code uses `W = 2^8` and `W = 2^16` —, both table depths,
every barrier list that is well formed (`barriersWF`: `nb` strings of `wp` words `< W`) and lexicographically sorted
(`sortedB`), every input string / every buffer that holds at least `wp` words):
  * `decode_of_tableOK`   on tables satisfying the executable predicate `tableOK`, one iteration of the `getNoise` loop
                          returns  v₀ + #{i | barrier_i ≤ u} = `invCDF`, which is also what the full-precision comparison
                          against *all* barriers (`scan … bs v₀`) returns: fast path = full path = inverse CDF;
  * `buildLUT_tableOK`    the model of `buildLookupTables` terminates without leaving its arrays and its tables satisfy
                          `tableOK` — under the conditions: `nb` odd, `depth ≤ wp`, and the last barrier starts with
                          `depth` all-ones words (`lastOnes`).  (Depth 2 really needs the last condition: otherwise the
                          C++ loop evaluates `barriers[nb]`; the model returns `none` there.)
  * `decode_eq_invCDF`    the two composed: unconditional for the builder model;
  * `decode_monotone`     the output is a monotone step function of the input string (lexicographic order);
  * `decode_prefix`       the output (and the number of words consumed) depends only on the words consumed;
  * `induced_mass`        among the `W^wp` equally likely input strings exactly `B_k − B_{k-1}` produce `v₀ + k`
                          (`B_{-1} = 0`, `B_nb = W^wp`): the probabilities the sampler assigns are exactly the barrier
                          differences over `W^wp`.
`tableOK`, `barriersWF`, `sortedB`, `lastOnes`, `nb` odd are evaluated by the driver on the REAL barriers and the REAL
`lu_table` / `lu_table2` dumped by the harness on every run, so the hypotheses are checked on the implementation's data.

NOT PROVED (the reason the claim is partial): that the barrier differences `(B_k − B_{k-1}) / W^wp` are within total
variation `2^-λ / m` of the discrete Gaussian `D_{Z,σ,c}`.  That is real analysis about MPFR's rounding and a Gaussian
tail bound; it is *computed* by the harness for a grid of parameters (≥1024-bit MPFR, explicit tail bound) and reported
in the evidence as a search for a failing parameter set, never as a theorem.
-/
import NflVerif.Proofs.GaussMass
import NflVerif.Proofs.GaussBuild
import NflVerif.Proofs.GaussLoop
import NflVerif.Proofs.GaussParams

namespace Nfl.C10
open Nfl.Gauss

/-- **fast path = full-precision path = inverse CDF**, for every table satisfying `tableOK`. -/
theorem decode_of_tableOK {depth W wp : Nat} {bs : List Str} {v0 : Int} {T : Tables} {tape : Str}
    (hwf : barriersWF W wp bs = true) (hsort : sortedB bs = true) (hT : tableOK depth W bs v0 T = true)
    (hwp : depth ≤ wp) (hlen : wp ≤ tape.length) (hw : ∀ x ∈ tape, x < W) :
    ∃ d, decode depth wp T tape = some d ∧
      d.out = invCDF bs v0 (tape.take wp) ∧ d.out = scan (tape.take wp) bs v0 ∧ 1 ≤ d.used ∧ d.used ≤ wp := by
  obtain ⟨d, hd, hok⟩ := decode_ok hwf hsort hT hwp hlen hw
  refine ⟨d, hd, hok.out_eq, ?_, hok.used_pos, hok.used_le⟩
  have hl := lenWp_of_WF hwf
  rw [hok.out_eq, scan_eq_countP (wp := wp) bs v0 hl (by simp [hlen]) (pairwise_of_sortedB hl hsort)]
  rfl

/-- **the table builder is correct** (model of `buildLookupTables`, both depths). -/
theorem buildLUT_tableOK {depth W wp : Nat} {bs : List Str} (rc : Int) (hd : depth = 1 ∨ depth = 2) (hW : 0 < W)
    (hwf : barriersWF W wp bs = true) (hsort : sortedB bs = true) (hwp : depth ≤ wp)
    (hodd : bs.length % 2 = 1) (hlast : lastOnes W depth bs = true) :
    ∃ T, buildLUT depth W bs rc = some T ∧ tableOK depth W bs (v0Of bs.length rc) T = true :=
  buildLUT_tableOK' hd ⟨hW, hwf, hsort, hwp, hodd, hlast⟩ rc

/-- builder and decoder composed: with the tables the builder model produces, decoding is the inverse CDF. -/
theorem decode_eq_invCDF {depth W wp : Nat} {bs : List Str} (rc : Int) (hd : depth = 1 ∨ depth = 2) (hW : 0 < W)
    (hwf : barriersWF W wp bs = true) (hsort : sortedB bs = true) (hwp : depth ≤ wp)
    (hodd : bs.length % 2 = 1) (hlast : lastOnes W depth bs = true)
    {tape : Str} (hlen : wp ≤ tape.length) (hw : ∀ x ∈ tape, x < W) :
    ∃ T d, buildLUT depth W bs rc = some T ∧ decode depth wp T tape = some d ∧
      d.out = invCDF bs (v0Of bs.length rc) (tape.take wp) := by
  obtain ⟨T, hb, hT⟩ := buildLUT_tableOK rc hd hW hwf hsort hwp hodd hlast
  obtain ⟨d, hdec, hout, _⟩ := decode_of_tableOK hwf hsort hT hwp hlen hw
  exact ⟨T, d, hb, hdec, hout⟩

/-- **monotone step function**: `u ≤ u'` lexicographically implies `decode u ≤ decode u'`. -/
theorem decode_monotone {depth W wp : Nat} {bs : List Str} {v0 : Int} {T : Tables} {u u' : Str}
    (hwf : barriersWF W wp bs = true) (hsort : sortedB bs = true) (hT : tableOK depth W bs v0 T = true)
    (hwp : depth ≤ wp) (hu : u.length = wp) (hu' : u'.length = wp) (hw : ∀ x ∈ u, x < W) (hw' : ∀ x ∈ u', x < W)
    (hle : leB u u' = true) :
    ∃ d d', decode depth wp T u = some d ∧ decode depth wp T u' = some d' ∧ d.out ≤ d'.out := by
  obtain ⟨d, hd, hok⟩ := decode_ok hwf hsort hT hwp (by omega) hw
  obtain ⟨d', hd', hok'⟩ := decode_ok hwf hsort hT hwp (by omega) hw'
  refine ⟨d, d', hd, hd', ?_⟩
  have hl := lenWp_of_WF hwf
  have e1 : u.take wp = u := by rw [← hu, List.take_length]
  have e2 : u'.take wp = u' := by rw [← hu', List.take_length]
  rw [hok.out_eq, hok'.out_eq, e1, e2]
  simp only [invCDF]
  have : bs.countP (fun b => leB b u) ≤ bs.countP (fun b => leB b u') := by
    apply List.countP_mono_left
    intro b hb hbu
    exact leB_trans (by rw [hl b hb, hu]) (by rw [hu, hu']) hbu hle
  omega

/-- **prefix property**: any buffer that agrees with `tape` on the words that were consumed gives the same output and
consumes the same number of words. -/
theorem decode_prefix {depth W wp : Nat} {bs : List Str} {v0 : Int} {T : Tables} {tape tape' : Str} {d : Dec}
    (hwf : barriersWF W wp bs = true) (hT : tableOK depth W bs v0 T = true) (hw : ∀ x ∈ tape, x < W)
    (h : decode depth wp T tape = some d) (hpre : tape'.take d.used = tape.take d.used) :
    decode depth wp T tape' = some d :=
  decode_congr (shape_of_tableOK hwf hT) hw h hpre

/-- `B_{k-1}` (0 for `k = 0`) and `B_k` (`W^wp` for `k = nb`), as numbers -/
def massLo (W : Nat) (bs : List Str) (k : Nat) : Nat := loOf (numB W bs) k
def massHi (W wp : Nat) (bs : List Str) (k : Nat) : Nat := hiOf (numB W bs) (W ^ wp) k

/-- **induced mass**: the number of `wp`-word strings decoded to `v₀ + k` is `B_k − B_{k-1}`. -/
theorem induced_mass {depth W wp : Nat} {bs : List Str} {v0 : Int} {T : Tables}
    (hW : 0 < W) (hwf : barriersWF W wp bs = true) (hsort : sortedB bs = true) (hT : tableOK depth W bs v0 T = true)
    (hwp : depth ≤ wp) (k : Nat) (hk : k ≤ bs.length) :
    ((Finset.range (W ^ wp)).filter
        (fun u => (decode depth wp T (toWords W wp u)).map (·.out) = some (v0 + (k : Nat)))).card =
      massHi W wp bs k - massLo W bs k := by
  rw [massHi, massLo, ← invCDF_mass hwf hsort hW v0 k hk]
  congr 1
  apply Finset.filter_congr
  intro u _
  obtain ⟨d, hd, hok⟩ := decode_ok hwf hsort hT hwp (by rw [toWords_length]) (toWords_lt hW wp u)
  have : (toWords W wp u).take wp = toWords W wp u :=
    List.take_of_length_le (by rw [toWords_length])
  rw [hd, Option.map_some, hok.out_eq, this]
  simp

/-! ### non-vacuity: a concrete barrier table (`W = 4`, two words, three barriers) satisfies every hypothesis, for both
depths, and the builder's tables pass `tableOK`. -/

def exBs : List Str := [[0, 2], [1, 3], [3, 3]]

example : barriersWF 4 2 exBs = true ∧ sortedB exBs = true ∧ exBs.length % 2 = 1 ∧
    lastOnes 4 1 exBs = true ∧ lastOnes 4 2 exBs = true := by decide

example : (buildLUT 1 4 exBs 0).map (tableOK 1 4 exBs (v0Of 3 0)) = some true := by decide
example : (buildLUT 2 4 exBs 0).map (tableOK 2 4 exBs (v0Of 3 0)) = some true := by decide

/-- the condition on the last barrier is needed at depth 2: if its second word is not all-ones the builder indexes
`barriers[nb]` (the model's `none`); with all-ones leading words (`buildLUT_tableOK`) it cannot happen. -/
theorem buildLUT2_out_of_range_witness : buildLUT 2 4 [[0, 2], [1, 3], [3, 2]] 0 = none := by decide

/-- the masses of the example: `B = 2, 7, 15` out of `16`, outputs `-1, 0, 1, 2` get `2, 5, 8, 1` -/
example : (List.range 4).map (fun k => massHi 4 2 exBs k - massLo 4 exBs k) = [2, 5, 8, 1] := by decide

/-! ### the sample budget `m`

`m` (like `lambda`) enters the construction only through `k = lambda + 1 + ⌈log₂ m⌉` (`kOf`, Model/GaussParams.lean): the
tail bound and the working precision are derived from `2^-k`.  The barrier table stays a parameter of the theorems
above; what is proved about `k` is that it does give every one of the `m` samples a share `2^-k ≤ 2^-(lambda+1) / m` of
the advertised `2^-lambda` — for EVERY `m ≥ 1`, not only powers of two — and that the exact-integer conditions the driver
evaluates on the live object's `_number_of_barriers` / `_bit_precision` (`gpar` lines: `tailOK`, `precOK`) can only be
lost, never gained, by a `k` that is too small. -/

/-- **`m · 2^-k ≤ 2^-(lambda+1)`** for every sample budget (`⌈log₂ m⌉` is the least exponent with this property:
`clog2_least`). -/
theorem budget_covers_all_samples (lam m : Nat) : m * 2 ^ (lam + 1) ≤ 2 ^ kOf lam m := by
  have h : 2 ^ kOf lam m = 2 ^ (lam + 1) * 2 ^ clog2 m := by unfold kOf; exact Nat.pow_add ..
  rw [h, Nat.mul_comm]
  exact Nat.mul_le_mul_left _ (le_two_pow_clog2 m)

/-- `⌈log₂ m⌉` is the least such exponent, and it is the exponent itself on powers of two. -/
theorem clog2_least {m j : Nat} (h : m ≤ 2 ^ j) : clog2 m ≤ j := clog2_le_of_le_two_pow h

theorem kOf_two_pow (lam j : Nat) : kOf lam (2 ^ j) = lam + 1 + j := by
  unfold kOf; rw [clog2_two_pow]

/-- a larger sample budget never gets a smaller `k` (the number of trailing zero bits of `m`, for one, is not monotone). -/
theorem kOf_mono {lam m m' : Nat} (h : m ≤ m') : kOf lam m ≤ kOf lam m' := by
  unfold kOf; have := clog2_mono h; omega

/-- the conditions evaluated on the live parameters are antitone in `k`: an object that satisfies them for the `k` of its
`(lambda, m)` satisfies them for every smaller `k` — so a violation can only come from a `k` below `kOf lambda m`
(or from a wrong tail bound / precision for the right `k`). -/
theorem paramsOK_antitone {k k' nb sn sd bits : Nat} (hk : k' ≤ k)
    (h : tailOK k nb sn sd = true ∧ precOK k nb bits = true) :
    tailOK k' nb sn sd = true ∧ precOK k' nb bits = true :=
  ⟨tailOK_anti hk h.1, precOK_anti hk h.2⟩

/-- non-vacuity, on the numbers of a real object (8-bit index, sigma = 3.19, lambda = 128, m = 10^6: 20 words, 95
barriers): the conditions hold for `k = 128 + 1 + 20`, and the same object built for a `k` that forgot 14 of the 20
bits (`m = 10^6` has 6 trailing zero bits) has 91 barriers in 18 words and fails. -/
example : kOf 128 1000000 = 149 ∧ paramsOK 8 128 1000000 319 100 20 95 160 = true ∧
    paramsOK 8 128 1000000 319 100 18 91 144 = false := by decide

/-! ### the output type `out_class` (`FastGaussianNoise<in_class, out_class, depth>`; the library uses the polynomial's
`value_type` = `uint16_t` / `uint32_t` / `uint64_t` and reads the samples back as `signed_value_type`) -/

/-- the arithmetic `getNoise` executes in a flagged cell — cell value stored as `out_class`, converted to the `int64_t output`,
incremented once per barrier reached, converted to `out_class` — is `(out_class)(val + k)` for every 8/16/32/64-bit `out_class`,
signed or not: the driver's model `outStore b sg (decode …).out` is what the code computes. -/
theorem outPath_eq (b : Nat) (hb : b = 8 ∨ b = 16 ∨ b = 32 ∨ b = 64) (sg : Bool) (val : Int) (k : Nat) :
    outPath b sg val k = outStore b sg (val + k) := by
  rcases hb with rfl | rfl | rfl | rfl <;> cases sg <;>
    simp only [outPath, outStore, toSignedBits, Bool.false_eq_true, if_true, if_false] <;> omega

/-- a sample that fits the signed type of `out_class`'s width is recovered exactly by reading the object as that signed type
(so `decode_eq_invCDF` transfers to the stored value for every such `out_class`). -/
theorem readOut_outStore (b : Nat) (hb : b = 8 ∨ b = 16 ∨ b = 32 ∨ b = 64) (sg : Bool) (v : Int)
    (h : fitsOut b v v = true) : readOut b (outStore b sg v) = v := by
  rcases hb with rfl | rfl | rfl | rfl <;> cases sg <;>
    simp only [fitsOut, readOut, outStore, toSignedBits, Bool.and_eq_true, decide_eq_true_eq, Bool.false_eq_true,
      if_true, if_false] at * <;> omega

/-- why the width matters: a negative sample computed in 32-bit unsigned arithmetic and *then* widened to a 64-bit `out_class`
reads back as `2^32 + v` — invisible for every `out_class` of at most 32 bits (`outPath_eq`), wrong for 64-bit ones. -/
theorem widened_u32_sum_differs (sg : Bool) (v : Int) (hneg : v < 0) (hlo : -(2 ^ 31 : Int) ≤ v) :
    readOut 64 (outStore 64 sg (outStore 32 false v)) = 2 ^ 32 + v := by
  cases sg <;> simp only [readOut, outStore, toSignedBits, Bool.false_eq_true, if_true, if_false] <;> omega

example : outStore 64 false (-66) = 18446744073709551550 ∧ readOut 64 18446744073709551550 = -66 ∧
    outStore 16 false (-66) = 65470 ∧ readOut 16 65470 = -66 ∧ readOut 64 4294967230 = 4294967230 := by decide

end Nfl.C10
