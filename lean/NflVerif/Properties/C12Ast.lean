/-
C12 (request accounting, exact value / support) and C09 (canonical residues, CRT consistency) on the WHOLE sampler functions re-translated
from clang's AST of include/nfl/core.hpp by tools/gen_smp_ast.py (Generated/SmpAst.lean), transported through the whole-function equalities of
Proofs/SmpAstEq.lean.  Each theorem is about the value the GENERATED function returns: the final flat array `d` (`_data[cm*degree+i]` =
`d.getD (cm*n+i) 0`), the unread tape and the list of request sizes it recorded — for every non-empty tape, every initial `_data`, every
content of the uninitialised local buffers.  (On an empty tape the generated functions return `err tapeEnd`: `*_ast_tapeEnd`.)
set(hwt_dist) and set(It,It,bool): whole-function equalities in Proofs/SmpAstEq2.lean, statements and transported properties in
Properties/C12Ast2.lean (see the comment at the end of this file); set(gaussian) is not translated as a whole.
-/
import NflVerif.Proofs.SmpAstEq
import NflVerif.Properties.C12

namespace Nfl.C12Ast
open Nfl Nfl.Samplers Nfl.Smp Nfl.SmpAstEq
open Nfl.Spec.Samplers (enc)
open Nfl.C09 (ModOK BoundedOK)

theorem view_ok {n nm : Nat} {r : Res (List Nat × IO)} {poly : Poly} {len : Nat} {t : Tape} {q : List Nat}
    (h : view n nm r = .ok (poly, len, t, q)) :
    ∃ d io, r = .ok (d, io) ∧ rows n nm d = poly ∧ d.length = len ∧ io.tape = t ∧ io.reqs = q := by
  cases r with
  | err e => simp [view] at h
  | ok a =>
    obtain ⟨d, io⟩ := a
    simp only [view, Res.ok.injEq, Prod.mk.injEq] at h
    exact ⟨d, io, rfl, h.1, h.2.1, h.2.2.1, h.2.2.2⟩

theorem word_rows (n nm : Nat) (d : List Nat) (cm i : Nat) (hcm : cm < nm) (hi : i < n) : word (rows n nm d) cm i = d.getD (cm * n + i) 0 := by
  simp [word, rows, List.getD_eq_getElem?_getD, hcm, hi]

theorem lt_of_modOK {w : Nat} {ps : List Nat} (hm : ModOK w ps) : ∀ p ∈ ps, p < 2 ^ w := fun p hp => by
  have := hm.2.2 p hp; omega

/-! ### 16-bit limb -/

/-- set(uniform) on the generated function: ONE request of sizeof(poly) bytes, one buffer consumed; every coefficient is the model's
(C12 uniform_*), canonical (C09 uniform_canonical); the array keeps its length -/
theorem uniform_u16_ast (flog2 : Nat → Nat) (n sz : Nat) (ps data req : List Nat) (rest : Tape) (reqs : List Nat)
    (hmo : ModOK 16 ps) (hf : ∀ p ∈ ps, flog2 p = Nat.log2 p)
    (hd : data.length = n * ps.length) (hs : sz = sizeofPoly 16 n ps.length)
    (hn : n < 2 ^ 64) (hm : ps.length < 2 ^ 32) (hN : n * ps.length < 2 ^ 64) :
    ∃ d, Gen.set_uniform_u16 flog2 n ps.length sz (fun cm => ps.getD cm 0) data ⟨req :: rest, reqs⟩ = .ok (d, ⟨rest, reqs ++ uniformRequests 16 n ps.length⟩) ∧
      d.length = data.length ∧
      ∀ cm i (hcm : cm < ps.length), i < n →
        d.getD (cm * n + i) 0 = uniCoef 16 ps[cm] (wordAt (16 / 8) req (cm * n + i)) ∧ d.getD (cm * n + i) 0 < ps[cm] := by
  obtain ⟨d, io, e, hr, hl, ht, hq⟩ := view_ok (set_uniform_u16_eq flog2 n sz ps data (req :: rest) reqs hf (lt_of_modOK hmo) hd hs hn hm hN)
  obtain ⟨t, q⟩ := io
  simp only at ht hq
  rw [ht, hq] at e
  refine ⟨d, e, hl, fun cm i hcm hi => ?_⟩
  have hw := word_rows n ps.length d cm i hcm hi
  rw [hr] at hw
  refine ⟨?_, hw ▸ C09.uniform_canonical hmo n (req :: rest) cm i hcm hi⟩
  rw [← hw]; unfold setUniform; rw [word_mkPoly n ps _ cm i hcm hi]; rfl

theorem uniform_u16_ast_tapeEnd (flog2 : Nat → Nat) (n sz : Nat) (ps data : List Nat) (reqs : List Nat) :
    Gen.set_uniform_u16 flog2 n ps.length sz (fun cm => ps.getD cm 0) data ⟨[], reqs⟩ = .err .tapeEnd := rfl

/-- set(ZO_dist) on the generated function: ONE request of `degree` bytes; coefficient i is the encoding of ONE value in {-1,0,1} for all
moduli (C09 zo_crt_consistent, C12 zo_value), canonical (C09 zo_canonical) -/
theorem zo_u16_ast (n rho : Nat) (ps rnd0 data req : List Nat) (rest : Tape) (reqs : List Nat)
    (hmo : ModOK 16 ps) (hrho : rho < 2 ^ 8) (hd : data.length = n * ps.length) (hr0 : rnd0.length = n)
    (hn : n < 2 ^ 64) (hm : ps.length < 2 ^ 64) :
    ∃ d, Gen.set_zo_u16 n ps.length (fun cm => ps.getD cm 0) rnd0 rho data ⟨req :: rest, reqs⟩ = .ok (d, ⟨rest, reqs ++ zoRequests n⟩) ∧
      d.length = data.length ∧
      ∀ cm i (hcm : cm < ps.length), i < n →
        d.getD (cm * n + i) 0 = enc ps[cm] (zoVal rho (req.getD i 0 % 256)) ∧ d.getD (cm * n + i) 0 < ps[cm] := by
  obtain ⟨d, io, e, hr, hl, ht, hq⟩ := view_ok (set_zo_u16_eq n rho ps rnd0 data (req :: rest) reqs (lt_of_modOK hmo) hrho hd hr0 hn hm)
  obtain ⟨t, q⟩ := io
  simp only at ht hq
  rw [ht, hq] at e
  refine ⟨d, e, hl, fun cm i hcm hi => ?_⟩
  have hw := word_rows n ps.length d cm i hcm hi
  rw [hr] at hw
  exact ⟨hw ▸ C12.zo_value hmo n rho (req :: rest) cm i hcm hi, hw ▸ C09.zo_canonical hmo n rho (req :: rest) cm i hcm hi⟩

theorem zo_u16_ast_tapeEnd (n rho : Nat) (ps rnd0 data : List Nat) (reqs : List Nat) (hn : n < 2 ^ 64) :
    Gen.set_zo_u16 n ps.length (fun cm => ps.getD cm 0) rnd0 rho data ⟨[], reqs⟩ = .err .tapeEnd := by
  unfold Gen.set_zo_u16; rw [mulU_one hn]; rfl

/-- set(non_uniform) on the generated function, admissible parameters: no throw, ONE request of `degree` limbs; coefficient i is the encoding
of ONE signed value `A·j`, |j| ≤ B-1, for all moduli (C09 bounded_crt_consistent / C12 bounded_value), canonical (C09 bounded_canonical) -/
theorem bounded_u16_ast (n B A : Nat) (ps rnd0 data req : List Nat) (rest : Tape) (reqs : List Nat)
    (hmo : ModOK 16 ps) (hb : BoundedOK ps B A) (hd : data.length = n * ps.length) (hr0 : rnd0.length = n)
    (hn : n < 2 ^ 32) (hm : ps.length < 2 ^ 32) (hN : n * ps.length < 2 ^ 64) :
    ∃ d, Gen.set_bounded_u16 n ps.length (fun cm => ps.getD cm 0) B A rnd0 data ⟨req :: rest, reqs⟩ = .ok (d, ⟨rest, reqs ++ boundedRequests 16 n⟩) ∧
      d.length = data.length ∧
      ∀ cm i (hcm : cm < ps.length), i < n →
        d.getD (cm * n + i) 0 = enc ps[cm] ((A : Int) * bndSigned 16 B (wordAt (16 / 8) req i)) ∧ d.getD (cm * n + i) 0 < ps[cm] := by
  obtain ⟨out, ho, hc⟩ := C09.bounded_canonical hmo hb n (req :: rest)
  have hv := set_bounded_u16_eq n B A ps rnd0 data (req :: rest) reqs (lt_of_modOK hmo) hd hr0 hn hm hN
  rw [ho] at hv
  obtain ⟨d, io, e, hr, hl, ht, hq⟩ := view_ok hv
  obtain ⟨t, q⟩ := io
  simp only at ht hq
  rw [ht, hq] at e
  refine ⟨d, e, hl, fun cm i hcm hi => ?_⟩
  have hw := word_rows n ps.length d cm i hcm hi
  rw [hr] at hw
  exact ⟨hw ▸ C12.bounded_value hmo hb n (req :: rest) ho cm i hcm hi, hw ▸ hc cm i hcm hi⟩

/-- set(non_uniform) on the generated function throws — before any random byte is requested — exactly when `B ≥ p` for some modulus -/
theorem bounded_u16_ast_throws (n B A : Nat) (ps rnd0 data : List Nat) (tape : Tape) (reqs : List Nat)
    (hp : ∀ p ∈ ps, p < 2 ^ 16) (hd : data.length = n * ps.length) (hr0 : rnd0.length = n)
    (hn : n < 2 ^ 32) (hm : ps.length < 2 ^ 32) (hN : n * ps.length < 2 ^ 64) :
    Gen.set_bounded_u16 n ps.length (fun cm => ps.getD cm 0) B A rnd0 data ⟨tape, reqs⟩ = .err .thrown ↔ ∃ p ∈ ps, B ≥ p := by
  have hv := set_bounded_u16_eq n B A ps rnd0 data tape reqs hp hd hr0 hn hm hN
  rw [← C09.bounded_throws_iff 16 n ps B A tape]
  constructor
  · intro h
    rw [h] at hv
    cases hs : setBounded 16 n ps B A tape with
    | none => rfl
    | some o =>
      rw [hs] at hv
      cases tape <;> simp [view] at hv
  · intro h
    rw [h] at hv
    cases hg : Gen.set_bounded_u16 n ps.length (fun cm => ps.getD cm 0) B A rnd0 data ⟨tape, reqs⟩ with
    | ok a => rw [hg] at hv; obtain ⟨x, y⟩ := a; simp [view] at hv
    | err e => rw [hg] at hv; simp only [view, Res.err.injEq] at hv; rw [hv]

/-! ### 32-bit limb -/

/-- set(uniform) on the generated function: ONE request of sizeof(poly) bytes, one buffer consumed; every coefficient is the model's
(C12 uniform_*), canonical (C09 uniform_canonical); the array keeps its length -/
theorem uniform_u32_ast (flog2 : Nat → Nat) (n sz : Nat) (ps data req : List Nat) (rest : Tape) (reqs : List Nat)
    (hmo : ModOK 32 ps) (hf : ∀ p ∈ ps, flog2 p = Nat.log2 p)
    (hd : data.length = n * ps.length) (hs : sz = sizeofPoly 32 n ps.length)
    (hn : n < 2 ^ 64) (hm : ps.length < 2 ^ 32) (hN : n * ps.length < 2 ^ 64) :
    ∃ d, Gen.set_uniform_u32 flog2 n ps.length sz (fun cm => ps.getD cm 0) data ⟨req :: rest, reqs⟩ = .ok (d, ⟨rest, reqs ++ uniformRequests 32 n ps.length⟩) ∧
      d.length = data.length ∧
      ∀ cm i (hcm : cm < ps.length), i < n →
        d.getD (cm * n + i) 0 = uniCoef 32 ps[cm] (wordAt (32 / 8) req (cm * n + i)) ∧ d.getD (cm * n + i) 0 < ps[cm] := by
  obtain ⟨d, io, e, hr, hl, ht, hq⟩ := view_ok (set_uniform_u32_eq flog2 n sz ps data (req :: rest) reqs hf (lt_of_modOK hmo) hd hs hn hm hN)
  obtain ⟨t, q⟩ := io
  simp only at ht hq
  rw [ht, hq] at e
  refine ⟨d, e, hl, fun cm i hcm hi => ?_⟩
  have hw := word_rows n ps.length d cm i hcm hi
  rw [hr] at hw
  refine ⟨?_, hw ▸ C09.uniform_canonical hmo n (req :: rest) cm i hcm hi⟩
  rw [← hw]; unfold setUniform; rw [word_mkPoly n ps _ cm i hcm hi]; rfl

theorem uniform_u32_ast_tapeEnd (flog2 : Nat → Nat) (n sz : Nat) (ps data : List Nat) (reqs : List Nat) :
    Gen.set_uniform_u32 flog2 n ps.length sz (fun cm => ps.getD cm 0) data ⟨[], reqs⟩ = .err .tapeEnd := rfl

/-- set(ZO_dist) on the generated function: ONE request of `degree` bytes; coefficient i is the encoding of ONE value in {-1,0,1} for all
moduli (C09 zo_crt_consistent, C12 zo_value), canonical (C09 zo_canonical) -/
theorem zo_u32_ast (n rho : Nat) (ps rnd0 data req : List Nat) (rest : Tape) (reqs : List Nat)
    (hmo : ModOK 32 ps) (hrho : rho < 2 ^ 8) (hd : data.length = n * ps.length) (hr0 : rnd0.length = n)
    (hn : n < 2 ^ 64) (hm : ps.length < 2 ^ 64) :
    ∃ d, Gen.set_zo_u32 n ps.length (fun cm => ps.getD cm 0) rnd0 rho data ⟨req :: rest, reqs⟩ = .ok (d, ⟨rest, reqs ++ zoRequests n⟩) ∧
      d.length = data.length ∧
      ∀ cm i (hcm : cm < ps.length), i < n →
        d.getD (cm * n + i) 0 = enc ps[cm] (zoVal rho (req.getD i 0 % 256)) ∧ d.getD (cm * n + i) 0 < ps[cm] := by
  obtain ⟨d, io, e, hr, hl, ht, hq⟩ := view_ok (set_zo_u32_eq n rho ps rnd0 data (req :: rest) reqs (lt_of_modOK hmo) hrho hd hr0 hn hm)
  obtain ⟨t, q⟩ := io
  simp only at ht hq
  rw [ht, hq] at e
  refine ⟨d, e, hl, fun cm i hcm hi => ?_⟩
  have hw := word_rows n ps.length d cm i hcm hi
  rw [hr] at hw
  exact ⟨hw ▸ C12.zo_value hmo n rho (req :: rest) cm i hcm hi, hw ▸ C09.zo_canonical hmo n rho (req :: rest) cm i hcm hi⟩

theorem zo_u32_ast_tapeEnd (n rho : Nat) (ps rnd0 data : List Nat) (reqs : List Nat) (hn : n < 2 ^ 64) :
    Gen.set_zo_u32 n ps.length (fun cm => ps.getD cm 0) rnd0 rho data ⟨[], reqs⟩ = .err .tapeEnd := by
  unfold Gen.set_zo_u32; rw [mulU_one hn]; rfl

/-- set(non_uniform) on the generated function, admissible parameters: no throw, ONE request of `degree` limbs; coefficient i is the encoding
of ONE signed value `A·j`, |j| ≤ B-1, for all moduli (C09 bounded_crt_consistent / C12 bounded_value), canonical (C09 bounded_canonical) -/
theorem bounded_u32_ast (n B A : Nat) (ps rnd0 data req : List Nat) (rest : Tape) (reqs : List Nat)
    (hmo : ModOK 32 ps) (hb : BoundedOK ps B A) (hd : data.length = n * ps.length) (hr0 : rnd0.length = n)
    (hn : n < 2 ^ 32) (hm : ps.length < 2 ^ 32) (hN : n * ps.length < 2 ^ 64) :
    ∃ d, Gen.set_bounded_u32 n ps.length (fun cm => ps.getD cm 0) B A rnd0 data ⟨req :: rest, reqs⟩ = .ok (d, ⟨rest, reqs ++ boundedRequests 32 n⟩) ∧
      d.length = data.length ∧
      ∀ cm i (hcm : cm < ps.length), i < n →
        d.getD (cm * n + i) 0 = enc ps[cm] ((A : Int) * bndSigned 32 B (wordAt (32 / 8) req i)) ∧ d.getD (cm * n + i) 0 < ps[cm] := by
  obtain ⟨out, ho, hc⟩ := C09.bounded_canonical hmo hb n (req :: rest)
  have hv := set_bounded_u32_eq n B A ps rnd0 data (req :: rest) reqs (lt_of_modOK hmo) hd hr0 hn hm hN
  rw [ho] at hv
  obtain ⟨d, io, e, hr, hl, ht, hq⟩ := view_ok hv
  obtain ⟨t, q⟩ := io
  simp only at ht hq
  rw [ht, hq] at e
  refine ⟨d, e, hl, fun cm i hcm hi => ?_⟩
  have hw := word_rows n ps.length d cm i hcm hi
  rw [hr] at hw
  exact ⟨hw ▸ C12.bounded_value hmo hb n (req :: rest) ho cm i hcm hi, hw ▸ hc cm i hcm hi⟩

/-- set(non_uniform) on the generated function throws — before any random byte is requested — exactly when `B ≥ p` for some modulus -/
theorem bounded_u32_ast_throws (n B A : Nat) (ps rnd0 data : List Nat) (tape : Tape) (reqs : List Nat)
    (hp : ∀ p ∈ ps, p < 2 ^ 32) (hd : data.length = n * ps.length) (hr0 : rnd0.length = n)
    (hn : n < 2 ^ 32) (hm : ps.length < 2 ^ 32) (hN : n * ps.length < 2 ^ 64) :
    Gen.set_bounded_u32 n ps.length (fun cm => ps.getD cm 0) B A rnd0 data ⟨tape, reqs⟩ = .err .thrown ↔ ∃ p ∈ ps, B ≥ p := by
  have hv := set_bounded_u32_eq n B A ps rnd0 data tape reqs hp hd hr0 hn hm hN
  rw [← C09.bounded_throws_iff 32 n ps B A tape]
  constructor
  · intro h
    rw [h] at hv
    cases hs : setBounded 32 n ps B A tape with
    | none => rfl
    | some o =>
      rw [hs] at hv
      cases tape <;> simp [view] at hv
  · intro h
    rw [h] at hv
    cases hg : Gen.set_bounded_u32 n ps.length (fun cm => ps.getD cm 0) B A rnd0 data ⟨tape, reqs⟩ with
    | ok a => rw [hg] at hv; obtain ⟨x, y⟩ := a; simp [view] at hv
    | err e => rw [hg] at hv; simp only [view, Res.err.injEq] at hv; rw [hv]

/-! ### 64-bit limb -/

/-- set(uniform) on the generated function: ONE request of sizeof(poly) bytes, one buffer consumed; every coefficient is the model's
(C12 uniform_*), canonical (C09 uniform_canonical); the array keeps its length -/
theorem uniform_u64_ast (flog2 : Nat → Nat) (n sz : Nat) (ps data req : List Nat) (rest : Tape) (reqs : List Nat)
    (hmo : ModOK 64 ps) (hf : ∀ p ∈ ps, flog2 p = Nat.log2 p)
    (hd : data.length = n * ps.length) (hs : sz = sizeofPoly 64 n ps.length)
    (hn : n < 2 ^ 64) (hm : ps.length < 2 ^ 32) (hN : n * ps.length < 2 ^ 64) :
    ∃ d, Gen.set_uniform_u64 flog2 n ps.length sz (fun cm => ps.getD cm 0) data ⟨req :: rest, reqs⟩ = .ok (d, ⟨rest, reqs ++ uniformRequests 64 n ps.length⟩) ∧
      d.length = data.length ∧
      ∀ cm i (hcm : cm < ps.length), i < n →
        d.getD (cm * n + i) 0 = uniCoef 64 ps[cm] (wordAt (64 / 8) req (cm * n + i)) ∧ d.getD (cm * n + i) 0 < ps[cm] := by
  obtain ⟨d, io, e, hr, hl, ht, hq⟩ := view_ok (set_uniform_u64_eq flog2 n sz ps data (req :: rest) reqs hf (lt_of_modOK hmo) hd hs hn hm hN)
  obtain ⟨t, q⟩ := io
  simp only at ht hq
  rw [ht, hq] at e
  refine ⟨d, e, hl, fun cm i hcm hi => ?_⟩
  have hw := word_rows n ps.length d cm i hcm hi
  rw [hr] at hw
  refine ⟨?_, hw ▸ C09.uniform_canonical hmo n (req :: rest) cm i hcm hi⟩
  rw [← hw]; unfold setUniform; rw [word_mkPoly n ps _ cm i hcm hi]; rfl

theorem uniform_u64_ast_tapeEnd (flog2 : Nat → Nat) (n sz : Nat) (ps data : List Nat) (reqs : List Nat) :
    Gen.set_uniform_u64 flog2 n ps.length sz (fun cm => ps.getD cm 0) data ⟨[], reqs⟩ = .err .tapeEnd := rfl

/-- set(ZO_dist) on the generated function: ONE request of `degree` bytes; coefficient i is the encoding of ONE value in {-1,0,1} for all
moduli (C09 zo_crt_consistent, C12 zo_value), canonical (C09 zo_canonical) -/
theorem zo_u64_ast (n rho : Nat) (ps rnd0 data req : List Nat) (rest : Tape) (reqs : List Nat)
    (hmo : ModOK 64 ps) (hrho : rho < 2 ^ 8) (hd : data.length = n * ps.length) (hr0 : rnd0.length = n)
    (hn : n < 2 ^ 64) (hm : ps.length < 2 ^ 64) :
    ∃ d, Gen.set_zo_u64 n ps.length (fun cm => ps.getD cm 0) rnd0 rho data ⟨req :: rest, reqs⟩ = .ok (d, ⟨rest, reqs ++ zoRequests n⟩) ∧
      d.length = data.length ∧
      ∀ cm i (hcm : cm < ps.length), i < n →
        d.getD (cm * n + i) 0 = enc ps[cm] (zoVal rho (req.getD i 0 % 256)) ∧ d.getD (cm * n + i) 0 < ps[cm] := by
  obtain ⟨d, io, e, hr, hl, ht, hq⟩ := view_ok (set_zo_u64_eq n rho ps rnd0 data (req :: rest) reqs (lt_of_modOK hmo) hrho hd hr0 hn hm)
  obtain ⟨t, q⟩ := io
  simp only at ht hq
  rw [ht, hq] at e
  refine ⟨d, e, hl, fun cm i hcm hi => ?_⟩
  have hw := word_rows n ps.length d cm i hcm hi
  rw [hr] at hw
  exact ⟨hw ▸ C12.zo_value hmo n rho (req :: rest) cm i hcm hi, hw ▸ C09.zo_canonical hmo n rho (req :: rest) cm i hcm hi⟩

theorem zo_u64_ast_tapeEnd (n rho : Nat) (ps rnd0 data : List Nat) (reqs : List Nat) (hn : n < 2 ^ 64) :
    Gen.set_zo_u64 n ps.length (fun cm => ps.getD cm 0) rnd0 rho data ⟨[], reqs⟩ = .err .tapeEnd := by
  unfold Gen.set_zo_u64; rw [mulU_one hn]; rfl

/-- set(non_uniform) on the generated function, admissible parameters: no throw, ONE request of `degree` limbs; coefficient i is the encoding
of ONE signed value `A·j`, |j| ≤ B-1, for all moduli (C09 bounded_crt_consistent / C12 bounded_value), canonical (C09 bounded_canonical) -/
theorem bounded_u64_ast (n B A : Nat) (ps rnd0 data req : List Nat) (rest : Tape) (reqs : List Nat)
    (hmo : ModOK 64 ps) (hb : BoundedOK ps B A) (hd : data.length = n * ps.length) (hr0 : rnd0.length = n)
    (hn : n < 2 ^ 32) (hm : ps.length < 2 ^ 32) (hN : n * ps.length < 2 ^ 64) :
    ∃ d, Gen.set_bounded_u64 n ps.length (fun cm => ps.getD cm 0) B A rnd0 data ⟨req :: rest, reqs⟩ = .ok (d, ⟨rest, reqs ++ boundedRequests 64 n⟩) ∧
      d.length = data.length ∧
      ∀ cm i (hcm : cm < ps.length), i < n →
        d.getD (cm * n + i) 0 = enc ps[cm] ((A : Int) * bndSigned 64 B (wordAt (64 / 8) req i)) ∧ d.getD (cm * n + i) 0 < ps[cm] := by
  obtain ⟨out, ho, hc⟩ := C09.bounded_canonical hmo hb n (req :: rest)
  have hv := set_bounded_u64_eq n B A ps rnd0 data (req :: rest) reqs (lt_of_modOK hmo) hd hr0 hn hm hN
  rw [ho] at hv
  obtain ⟨d, io, e, hr, hl, ht, hq⟩ := view_ok hv
  obtain ⟨t, q⟩ := io
  simp only at ht hq
  rw [ht, hq] at e
  refine ⟨d, e, hl, fun cm i hcm hi => ?_⟩
  have hw := word_rows n ps.length d cm i hcm hi
  rw [hr] at hw
  exact ⟨hw ▸ C12.bounded_value hmo hb n (req :: rest) ho cm i hcm hi, hw ▸ hc cm i hcm hi⟩

/-- set(non_uniform) on the generated function throws — before any random byte is requested — exactly when `B ≥ p` for some modulus -/
theorem bounded_u64_ast_throws (n B A : Nat) (ps rnd0 data : List Nat) (tape : Tape) (reqs : List Nat)
    (hp : ∀ p ∈ ps, p < 2 ^ 64) (hd : data.length = n * ps.length) (hr0 : rnd0.length = n)
    (hn : n < 2 ^ 32) (hm : ps.length < 2 ^ 32) (hN : n * ps.length < 2 ^ 64) :
    Gen.set_bounded_u64 n ps.length (fun cm => ps.getD cm 0) B A rnd0 data ⟨tape, reqs⟩ = .err .thrown ↔ ∃ p ∈ ps, B ≥ p := by
  have hv := set_bounded_u64_eq n B A ps rnd0 data tape reqs hp hd hr0 hn hm hN
  rw [← C09.bounded_throws_iff 64 n ps B A tape]
  constructor
  · intro h
    rw [h] at hv
    cases hs : setBounded 64 n ps B A tape with
    | none => rfl
    | some o =>
      rw [hs] at hv
      cases tape <;> simp [view] at hv
  · intro h
    rw [h] at hv
    cases hg : Gen.set_bounded_u64 n ps.length (fun cm => ps.getD cm 0) B A rnd0 data ⟨tape, reqs⟩ with
    | ok a => rw [hg] at hv; obtain ⟨x, y⟩ := a; simp [view] at hv
    | err e => rw [hg] at hv; simp only [view, Res.err.injEq] at hv; rw [hv]

-- non-vacuity: a concrete run of the generated set(ZO_dist) (degree 2, two moduli)
set_option maxRecDepth 100000 in
example : (view 2 2 (Gen.set_zo_u16 2 2 (fun cm => [13, 17].getD cm 0) [0, 0] 127 [9, 9, 9, 9] ⟨[[2, 200]], []⟩)) =
    .ok ([[1, 0], [1, 0]], 4, [], [2]) := by decide +kernel

/-
set(hwt_dist) and set(It,It,bool) — CLOSED in Proofs/SmpAstEq2.lean / Properties/C12Ast2.lean (namespace Nfl.C12Ast), three limb widths, nothing partial:
  set_hwt_uW_eq : view n ps.length (Gen.set_hwt_uW n ps.length P h data ⟨tape, reqs⟩) =
      if h = 0 ∨ n < h then .err .assertion else
      match hwtPositions h n tape with
      | none => .err .tapeEnd
      | some (sorted, []) => .err .tapeEnd
      | some (sorted, sreq :: rest) => .ok (ps.map (hwtWrite W n · sorted sreq), data.length, rest,
                                             reqs ++ List.replicate (tape.length - rest.length) (8 * h))
    hypotheses: moduli are limb values, h < 2^32 (uint32_t), n < 2^64, nmoduli < 2^64, n·nmoduli·sizeof(T) < 2^64, |_data| = n·nmoduli.
    proof: SmpAstEq2.loop_refine (Smp.forFromM over Smp.loopM refines runTape / runBuf; induction on (unread words) + (h+1)·(unread buffers); the
    budget Smp.loopFuel is never exhausted), sortAll_eq_isort, memset_zero, tail_ok / rows_write (flat ±1 writes = hwtWrite per modulus).
  set_range_uW_eq : viewR n ps.length (Gen.set_range_uW n ps.length P vals first last reduce data) =
      match setValues n ps ((vals.take last).drop first) reduce with | none => .err .thrown | some poly => .ok (poly, data.length)
    hypotheses: first ≤ last ≤ |vals|, elements and moduli are limb values, n < 2^64, nmoduli < 2^64, n·nmoduli < 2^64, |_data| = n·nmoduli.
    proof: SmpAstEq2.copy_loop / pad_loop (the two whileFuel loops; the fuel `degree` suffices), row_eq, range_outer (walk / rewind of viter).
  transported: hwt_uW_ast, hwt_uW_ast_stops (never `fuel`), range_uW_ast, range_u16_ast_short / _full.
The earlier partial lemmas of Proofs/SmpAstEq.lean (set_hwt_uW_split, hwt_assert_partial, hwt_sign_request_partial) are kept; they are used by the proof.
-/
end Nfl.C12Ast
