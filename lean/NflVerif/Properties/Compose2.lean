/-
Compose2 — C05 ∘ C07 ∘ C03 ∘ C06 (and C05 ∘ C08): the lane-wise hypothesis of C07 is DISCHARGED by the real kernels.

C07 (`kernel_irrelevant`) evaluates an expression tree on whole registers with an abstract kernel set `K` under the
hypothesis `K.Lanewise c` ("every SIMD kernel is, lane by lane, the scalar functor"), cited from C05.  C05 proves this
for the intrinsic-level models of the real SSE/AVX2 kernels (`Model/Simd.lean`) — under explicit hypotheses: registers
of the kernel's lane count and, for the fused product `mulmod_shoup`, the regime `y < p`, `y' = ⌊y·2^w/p⌋`.

**Finding about the statement of C07's theorem** (not about the code): `Kernels.Lanewise` as stated quantifies over
registers of *any* (even unequal) lengths and *any* contents; the real kernels do **not** satisfy it
(`real_kernels_not_Lanewise`, `real_kernels_not_Lanewise_contents16/32`): on well-formed SSE registers with canonical
`x`, `y` but a third operand that is not the precomputed quotient, the 16-bit vector kernel saturates (`packus`) where
the scalar functor truncates, and the 32-bit vector kernel keeps a difference that does not fit 32 bits.
The satisfiable form is `Kernels.LanewiseOn` (`Proofs/Compose2Aux.lean`): registers of the functor's own lane count,
admissible contents (exactly what `Adm` guarantees).  It is implied by `Lanewise` (`Kernels.Lanewise.on`), it is
satisfied by the real kernels on every list of table rows (`real_kernels_lanewise`), and it suffices for the variant of
`kernel_irrelevant` restricted to admissible trees (`kernel_irrelevant_on`).

Main theorem `expr_real_kernels_correct`: for every backend, limb type, moduli from the generated tables, admissible
tree whose `load<M>` compiles, every destination (any aliasing), the assignment loop run with the REAL kernels — every
node with the kernel of its own tag — produces `st.set d (pointwise c st e)`.
`eq_real_kernels_correct` / `neq_real_kernels_correct`: the same for `==`/`!=` with the real 64-bit-lane compare.
-/
import NflVerif.Proofs.Compose2Aux
import NflVerif.Properties.C07
import NflVerif.Properties.C08
namespace Nfl.Compose2
open Nfl Nfl.Ex

/-! ## 1. the real kernels and C07's hypothesis -/

/-- **the real kernels are lane-wise the scalar functors on admissible registers** (C05 §1, §2 with the range
hypotheses discharged from the row facts of C03/C06): every tag, every limb type, every list of table rows. -/
theorem real_kernels_lanewise (c : Ctx) (hrows : c.TableRows) (tg : Mode) : (realKernels tg c).LanewiseOn c tg :=
  realKernels_lanewiseOn hrows tg

/-- `addmod`/`submod` kernels need no condition on the contents (only the register width): all words, any modulus
`< 2^w` — the strongest true form for these two functors. -/
theorem real_addsub_all_words (c : Ctx) (tg : Mode) (cm : Nat) (hp : c.p cm < 2 ^ c.w) (xs ys : List Nat)
    (hx : xs.length = eltCount c.l (fnMode c.l .add tg)) (hy : ys.length = xs.length) :
    (realKernels tg c).add cm xs ys = List.zipWith (addmod c.w (c.p cm)) xs ys ∧
    (realKernels tg c).sub cm xs ys = List.zipWith (submod c.w (c.p cm)) xs ys :=
  ⟨real_add_lanes c tg cm hp xs ys hx hy, real_sub_lanes c tg cm hp xs ys hx hy⟩

/-- the fused product: any words in the first operand (so also lazily reduced values), canonical second operand, third
operand the quotient computed by `compute_shoup` — the strongest form C05 provides. -/
theorem real_shoup_regime (c : Ctx) (hrows : c.TableRows) (tg : Mode) (cm : Nat) (hcm : cm < c.nmod) (xs ys : List Nat)
    (hx : xs.length = eltCount c.l (fnMode c.l .mulShoup tg)) (hy : ys.length = xs.length)
    (bx : ∀ x ∈ xs, x < 2 ^ c.w) (bY : ∀ y ∈ ys, y < c.p cm) :
    (realKernels tg c).shoup cm xs ys (ys.map (computeShoup c.w (c.p cm))) =
      mulShoupList c.w (c.p cm) xs ys (ys.map (computeShoup c.w (c.p cm))) :=
  real_shoup_lanes hrows tg hcm xs ys hx hy bx bY

/-- **C07's hypothesis `K.Lanewise c` is not satisfiable by the real kernels, whatever the tag and the context**:
it also speaks about "registers" of unequal lengths (a modelling artefact: real registers have a fixed lane count). -/
theorem real_kernels_not_Lanewise (tg : Mode) (c : Ctx) : ¬ (realKernels tg c).Lanewise c := by
  intro h
  have := h.mul 0 [0] []
  simp [realKernels] at this

/-- … and not for a substantive reason either: on eight-lane registers, canonical `x = y = p-1` in lane 0 and a third
operand `0` (not the precomputed quotient), `mulmod_shoup<uint16_t,sse>` returns the saturated `65535`, the scalar
functor the truncated `50175`.  (`Lanewise.shoup` quantifies over all contents.) -/
theorem real_kernels_not_Lanewise_contents16 :
    (realKernels .sse C07.exCtx).shoup 0 [15360, 1, 2, 3, 4, 5, 6, 7] [15360, 1, 2, 3, 4, 5, 6, 7] [0, 0, 0, 0, 0, 0, 0, 0]
      = [65535, 1, 4, 9, 16, 25, 36, 49] ∧
    ((List.range 8).map fun t => mulmodShoup C07.exCtx.w (C07.exCtx.p 0) ([15360, 1, 2, 3, 4, 5, 6, 7].getD t 0)
        ([15360, 1, 2, 3, 4, 5, 6, 7].getD t 0) ([0, 0, 0, 0, 0, 0, 0, 0].getD t 0))
      = [50175, 1, 4, 9, 16, 25, 36, 49] := by decide

def exCtx32 : Ctx := { l := .w32, deg := 4, rows := Nfl.Gen.table32.rows }

/-- the 32-bit kernel: the 64-bit difference `x·y − q·p` does not fit 32 bits when `q` is not the quotient -/
theorem real_kernels_not_Lanewise_contents32 :
    (realKernels .sse exCtx32).shoup 0 [1073479680, 1, 2, 3] [1073479680, 1, 2, 3] [0, 0, 0, 0] = [3221487615, 1, 4, 9] ∧
    ((List.range 4).map fun t => mulmodShoup exCtx32.w (exCtx32.p 0) ([1073479680, 1, 2, 3].getD t 0)
        ([1073479680, 1, 2, 3].getD t 0) ([0, 0, 0, 0].getD t 0)) = [0, 1, 4, 9] := by decide

/-- hence: even restricted to registers of the kernel's own lane count, "lane-wise for ALL contents" is false for the
fused product -/
theorem real_shoup_not_lanewise_all_contents :
    ¬ ∀ xs ys qs : List Nat, xs.length = 8 → ys.length = 8 → qs.length = 8 →
      (realKernels .sse C07.exCtx).shoup 0 xs ys qs = (List.range xs.length).map fun t =>
        mulmodShoup C07.exCtx.w (C07.exCtx.p 0) (xs.getD t 0) (ys.getD t 0) (qs.getD t 0) := by
  intro h
  have h1 := h [15360, 1, 2, 3, 4, 5, 6, 7] [15360, 1, 2, 3, 4, 5, 6, 7] [0, 0, 0, 0, 0, 0, 0, 0] rfl rfl rfl
  rw [real_kernels_not_Lanewise_contents16.1] at h1
  exact absurd h1 (by decide)

/-- the functors C07's hypothesis describes: total functions that apply the scalar functor in every lane of the first
operand, padding the others with 0 -/
def idealKernels (c : Ctx) : Kernels where
  add cm xs ys := (List.range xs.length).map fun t => addmod c.w (c.p cm) (xs.getD t 0) (ys.getD t 0)
  sub cm xs ys := (List.range xs.length).map fun t => submod c.w (c.p cm) (xs.getD t 0) (ys.getD t 0)
  mul cm xs ys := (List.range xs.length).map fun t => mulmod c.w (c.p cm) (c.row cm).pn (xs.getD t 0) (ys.getD t 0)
  shoup cm xs ys qs :=
    (List.range xs.length).map fun t => mulmodShoup c.w (c.p cm) (xs.getD t 0) (ys.getD t 0) (qs.getD t 0)
  cshoup cm xs := (List.range xs.length).map fun t => computeShoup c.w (c.p cm) (xs.getD t 0)

/-- C07's hypothesis is consistent (so `C07.kernel_irrelevant` is not vacuous): it holds of the idealised kernels – but
of no model of the real ones. -/
theorem idealKernels_Lanewise (c : Ctx) : (idealKernels c).Lanewise c :=
  ⟨fun _ _ _ => rfl, fun _ _ _ => rfl, fun _ _ _ => rfl, fun _ _ _ _ => rfl, fun _ _ => rfl⟩

/-- **the variant of `C07.kernel_irrelevant` with the satisfiable hypothesis**: one kernel set `K` that is lane-wise on
admissible registers of width `vs` (`LanewiseOn` for a tag all of whose functors have that width on the tree),
admissible tree, any destination: the register-level loop `assignK` of C07 gives the element-wise evaluation. -/
theorem kernel_irrelevant_on (K : Kernels) (c : Ctx) (hrows : c.TableRows) (tg : Mode) (hK : K.LanewiseOn c tg)
    (vs d : Nat) (e : Expr) (st : Store)
    (hd : d < st.length) (hlen : (st.getD d []).length = c.n) (hdiv : vs ∣ c.deg) (hvs : 0 < vs)
    (hadm : Adm c st e) (hw : WidthOK c.l (fun _ => tg) vs e) :
    assignK K c vs d e st = assignW c 1 d e st := by
  rw [← assignT_const K (fun _ => tg), assignT_eq_assignW hrows (fun _ => hK) hd hlen hdiv hvs hadm hw]
  exact C07.mode_irrelevant c vs 1 d e st hd hlen hdiv (Nat.one_dvd _) hvs Nat.one_pos

/-- `C07.kernel_irrelevant` itself is the special case `Lanewise → LanewiseOn` on admissible trees (nothing is lost) -/
theorem kernel_irrelevant_of_Lanewise (K : Kernels) (c : Ctx) (hrows : c.TableRows) (hK : K.Lanewise c) (tg : Mode)
    (vs d : Nat) (e : Expr) (st : Store)
    (hd : d < st.length) (hlen : (st.getD d []).length = c.n) (hdiv : vs ∣ c.deg) (hvs : 0 < vs)
    (hadm : Adm c st e) (hw : WidthOK c.l (fun _ => tg) vs e) :
    assignK K c vs d e st = assignW c 1 d e st :=
  kernel_irrelevant_on K c hrows tg (hK.on tg) vs d e st hd hlen hdiv hvs hadm hw

/-- instance: C07's `assignK` with the real kernel set of one tag (e.g. the SSE build, a tree all of whose nodes have
the SSE tag) -/
theorem kernel_irrelevant_real (c : Ctx) (hrows : c.TableRows) (tg : Mode) (vs d : Nat) (e : Expr) (st : Store)
    (hd : d < st.length) (hlen : (st.getD d []).length = c.n) (hdiv : vs ∣ c.deg) (hvs : 0 < vs)
    (hadm : Adm c st e) (hw : WidthOK c.l (fun _ => tg) vs e) :
    assignK (realKernels tg c) c vs d e st = st.set d (pointwise c st e) := by
  rw [kernel_irrelevant_on _ c hrows tg (real_kernels_lanewise c hrows tg) vs d e st hd hlen hdiv hvs hadm hw,
    assignW_eq hd hlen (Nat.one_dvd _) Nat.one_pos, newWords_eq_pointwise hrows st e hadm]

/-! ## 2. main theorem: assignment with the real kernels -/

/-- `expr.load<M>(cm, j)` in backend `be`: every node applies the real kernel of the tag the operator overloads gave it -/
def loadReal (be : Backend) (c : Ctx) (st : Store) (e : Expr) (cm j vs : Nat) : List Nat :=
  loadVecT (fun tg => realKernels tg c) (nodeTag be c.l) c st e cm j vs

/-- `dest = e` in backend `be` with the real kernels, registers of the lane count of the mode the tree resolves to -/
def assignReal (c : Ctx) (be : Backend) (d : Nat) (e : Expr) (st : Store) : Store :=
  assignT (fun tg => realKernels tg c) (nodeTag be c.l) c (eltCount c.l (mode be c.l e)) d e st

/-- **main theorem (C05 ∘ C07 ∘ C03 ∘ C06)**: every backend, every limb type, moduli = rows of the generated tables,
every tree `e` that is admissible on the store and whose `load<M>` compiles in the mode `M` it resolves to, every
destination `d` (nothing relates `d` to the leaves: any aliasing), register width dividing the degree:
the assignment evaluated with the REAL SSE/AVX2/serial kernels replaces the destination by the exact coefficient-wise
meaning of `e` on the store before the assignment, and changes nothing else. -/
theorem expr_real_kernels_correct (c : Ctx) (hrows : c.TableRows) (be : Backend) (d : Nat) (e : Expr) (st : Store)
    (hd : d < st.length) (hlen : (st.getD d []).length = c.n)
    (hacc : accepts be c.l (mode be c.l e) e = true) (hdiv : eltCount c.l (mode be c.l e) ∣ c.deg)
    (hadm : Adm c st e) :
    assignReal c be d e st = st.set d (pointwise c st e) := by
  unfold assignReal
  rw [assignT_eq_assignW hrows (fun e' => real_kernels_lanewise c hrows (nodeTag be c.l e')) hd hlen hdiv
      (eltCount_pos _ _) hadm (widthOK_of_accepts be c.l _ e hacc),
    assignW_eq hd hlen hdiv (eltCount_pos _ _), newWords_eq_pointwise hrows st e hadm]

/-- the same with the single hypothesis "the assignment compiles" (`Ex.compiles`) -/
theorem expr_real_kernels_correct_compiles (c : Ctx) (hrows : c.TableRows) (be : Backend) (d : Nat) (e : Expr)
    (st : Store) (hd : d < st.length) (hlen : (st.getD d []).length = c.n)
    (hcomp : compiles be c.l c.deg e = true) (hadm : Adm c st e) :
    assignReal c be d e st = st.set d (pointwise c st e) := by
  unfold compiles at hcomp
  simp only [Bool.and_eq_true, beq_iff_eq] at hcomp
  exact expr_real_kernels_correct c hrows be d e st hd hlen hcomp.1 (Nat.dvd_of_mod_eq_zero hcomp.2) hadm

/-- coefficient form: destination, frame, size -/
theorem expr_real_kernels_correct_coeff (c : Ctx) (hrows : c.TableRows) (be : Backend) (d : Nat) (e : Expr) (st : Store)
    (hd : d < st.length) (hlen : (st.getD d []).length = c.n)
    (hacc : accepts be c.l (mode be c.l e) e = true) (hdiv : eltCount c.l (mode be c.l e) ∣ c.deg)
    (hadm : Adm c st e) :
    (∀ cm, cm < c.nmod → ∀ i, i < c.deg → rd (assignReal c be d e st) d (cm * c.deg + i) = evalExact c st e cm i) ∧
    (∀ h, h ≠ d → (assignReal c be d e st).getD h [] = st.getD h []) ∧
    (assignReal c be d e st).length = st.length := by
  rw [expr_real_kernels_correct c hrows be d e st hd hlen hacc hdiv hadm,
    ← C07.assign_closed_form c hrows be d e st hd hlen hdiv hadm]
  obtain ⟨_, h2, h3⟩ := C07.assign_correct c hrows be d e st hd hlen hdiv hadm
  exact ⟨fun cm hcm i hi => C07.assign_correct_coeff c hrows be d e st hd hlen hdiv hadm cm i hcm hi, h2, h3⟩

/-- the real-kernel evaluation and the element-wise model `Ex.assign` of C07 are the same function on admissible
compiled trees: every C07 theorem about `assign` (shape independence, construction, helpers, …) transfers. -/
theorem assignReal_eq_assign (c : Ctx) (hrows : c.TableRows) (be : Backend) (d : Nat) (e : Expr) (st : Store)
    (hd : d < st.length) (hlen : (st.getD d []).length = c.n)
    (hacc : accepts be c.l (mode be c.l e) e = true) (hdiv : eltCount c.l (mode be c.l e) ∣ c.deg)
    (hadm : Adm c st e) :
    assignReal c be d e st = assign c be d e st := by
  rw [expr_real_kernels_correct c hrows be d e st hd hlen hacc hdiv hadm,
    C07.assign_closed_form c hrows be d e st hd hlen hdiv hadm]

/-- a register loaded with the real kernels holds the exact values of its `vs` coefficients -/
theorem loadReal_exact (c : Ctx) (hrows : c.TableRows) (be : Backend) (st : Store) (e : Expr) (cm j : Nat)
    (hcm : cm < c.nmod) (hj : j + eltCount c.l (mode be c.l e) ≤ c.deg)
    (hacc : accepts be c.l (mode be c.l e) e = true) (hadm : Adm c st e) :
    loadReal be c st e cm j (eltCount c.l (mode be c.l e)) =
      (List.range (eltCount c.l (mode be c.l e))).map fun t => evalExact c st e cm (j + t) := by
  unfold loadReal
  rw [loadVecT_eq_loadBlock hrows (fun e' => real_kernels_lanewise c hrows (nodeTag be c.l e')) st hcm hj e hadm
    (widthOK_of_accepts be c.l _ e hacc)]
  unfold loadBlock
  apply List.map_congr_left
  intro t ht
  exact loadElem_exact hrows st e hadm cm hcm _ (by have := List.mem_range.mp ht; omega)

/-! ## 3. boolean conversion with the real 64-bit-lane compare (C05 §6 ∘ C08) -/

/-- the real vector compare (`vecEq64`/`vecNeq64` on 64-bit lanes, stored and scanned element-wise: `exprBoolVec`) has
the scalar all/any meaning for every limb width, both register sizes and **every** pair of word lists whose length is a
multiple of the lane count (C05 `compare_backend` ∘ `compare_meaning`). -/
theorem vector_compare_meaning {w : Nat} (hw : w = 16 ∨ w = 32 ∨ w = 64) (isEq : Bool) (n : Nat) (X Y : List Nat)
    (bX : ∀ v ∈ X, v < 2 ^ w) (bY : ∀ v ∈ Y, v < 2 ^ w) :
    (X.length = n * Simd.sseLanes w → Y.length = n * Simd.sseLanes w →
      Simd.exprBoolVec isEq w (Simd.sseLanes w) n X Y = if X = Y then isEq else !isEq) ∧
    (X.length = n * Simd.avx2Lanes w → Y.length = n * Simd.avx2Lanes w →
      Simd.exprBoolVec isEq w (Simd.avx2Lanes w) n X Y = if X = Y then isEq else !isEq) := by
  obtain ⟨h1, h2⟩ := C05.compare_backend hw isEq n X Y bX bY
  exact ⟨fun hX hY => by rw [h1 hX hY, C05.compare_meaning isEq X Y (by rw [hX, hY])],
    fun hX hY => by rw [h2 hX hY, C05.compare_meaning isEq X Y (by rw [hX, hY])]⟩

/-- the words of operand `e`, register by register with the real kernels, in the order of the `cm`/`j` double loop -/
def wordsReal (be : Backend) (c : Ctx) (st : Store) (e : Expr) (vs : Nat) : List Nat :=
  wordsT (fun tg => realKernels tg c) (nodeTag be c.l) c st e vs

/-- `bool(a == b)` (`isEq`) / `bool(a != b)` in backend `be`: operands loaded with the real kernels in the mode the
comparison resolves to, compared by the scalar `==` in serial mode and by the real 64-bit-lane vector compare otherwise -/
def cmpReal (be : Backend) (c : Ctx) (st : Store) (isEq : Bool) (a b : Expr) : Bool :=
  let m := mode be c.l (.eq a b)
  let vs := eltCount c.l m
  match m with
  | .serial => Simd.exprBoolScalar isEq (wordsReal be c st a vs) (wordsReal be c st b vs)
  | _ => Simd.exprBoolVec isEq c.w vs (c.n / vs) (wordsReal be c st a vs) (wordsReal be c st b vs)

theorem mode_neq_eq (be : Backend) (l : Limb) (a b : Expr) : mode be l (.neq a b) = mode be l (.eq a b) := rfl

/-- **the comparison with the real kernels and the real vector compare is the all/any meaning**: `==` answers
"the two polynomials are the same flat array", `!=` the negation — every backend, limb type, admissible operands whose
loads compile, stores of words. -/
theorem compare_real_kernels (c : Ctx) (hrows : c.TableRows) (be : Backend) (st : Store) (isEq : Bool) (a b : Expr)
    (hst : ∀ h k, rd st h k < 2 ^ c.w)
    (ha : Adm c st a) (hb : Adm c st b)
    (hacc : accepts be c.l (mode be c.l (.eq a b)) (.eq a b) = true)
    (hdiv : eltCount c.l (mode be c.l (.eq a b)) ∣ c.deg) :
    cmpReal be c st isEq a b = if pointwise c st a = pointwise c st b then isEq else !isEq := by
  simp only [accepts, Bool.and_eq_true] at hacc
  have hK := fun e' => real_kernels_lanewise c hrows (nodeTag be c.l e')
  have wa : wordsReal be c st a (eltCount c.l (mode be c.l (.eq a b))) = pointwise c st a :=
    wordsT_eq_pointwise hrows hK st a hdiv ha (widthOK_of_accepts be c.l _ a hacc.1)
  have wb : wordsReal be c st b (eltCount c.l (mode be c.l (.eq a b))) = pointwise c st b :=
    wordsT_eq_pointwise hrows hK st b hdiv hb (widthOK_of_accepts be c.l _ b hacc.2)
  have bound : ∀ e, Adm c st e → ∀ v ∈ pointwise c st e, v < 2 ^ c.w := by
    intro e he v hv
    rw [← newWords_eq_pointwise hrows st e he] at hv
    obtain ⟨k, _, rfl⟩ := List.mem_map.1 hv
    exact loadElem_lt_word c st hst e (C08.arith_of_adm c st e he) _ _
  have hw : c.w = 16 ∨ c.w = 32 ∨ c.w = 64 := by unfold Ctx.w; cases c.l <;> simp [Limb.w]
  have hn : ∀ vs, vs ∣ c.deg → c.n = c.n / vs * vs := by
    intro vs h
    exact (Nat.div_mul_cancel (Nat.dvd_trans h (Nat.dvd_mul_left _ _))).symm
  obtain ⟨hs, hv⟩ := vector_compare_meaning hw isEq (c.n / eltCount c.l (mode be c.l (.eq a b)))
    (pointwise c st a) (pointwise c st b) (bound a ha) (bound b hb)
  unfold cmpReal
  simp only [wa, wb]
  generalize hm : mode be c.l (.eq a b) = m at hdiv hs hv ⊢
  cases m with
  | serial => exact C05.compare_meaning isEq _ _ (by rw [pointwise_length, pointwise_length])
  | sse => exact hs (by rw [pointwise_length]; exact hn _ hdiv) (by rw [pointwise_length]; exact hn _ hdiv)
  | avx2 => exact hv (by rw [pointwise_length]; exact hn _ hdiv) (by rw [pointwise_length]; exact hn _ hdiv)

/-- **`==` with the real kernels** is what C08's model `exprToBool` answers, and is true iff the exact values agree at
every coefficient -/
theorem eq_real_kernels_correct (c : Ctx) (hrows : c.TableRows) (be : Backend) (st : Store) (a b : Expr)
    (hst : ∀ h k, rd st h k < 2 ^ c.w) (ha : Adm c st a) (hb : Adm c st b)
    (hacc : accepts be c.l (mode be c.l (.eq a b)) (.eq a b) = true)
    (hdiv : eltCount c.l (mode be c.l (.eq a b)) ∣ c.deg) :
    (cmpReal be c st true a b = true ↔
      ∀ cm, cm < c.nmod → ∀ i, i < c.deg → evalExact c st a cm i = evalExact c st b cm i) ∧
    exprToBool c be st (.eq a b) = some (cmpReal be c st true a b) := by
  have h1 : cmpReal be c st true a b = true ↔
      ∀ cm, cm < c.nmod → ∀ i, i < c.deg → evalExact c st a cm i = evalExact c st b cm i := by
    rw [compare_real_kernels c hrows be st true a b hst ha hb hacc hdiv, ← pointwise_eq_iff]
    by_cases h : pointwise c st a = pointwise c st b <;> simp [h]
  refine ⟨h1, ?_⟩
  have h2 := C08.eq_iff c hrows be st a b ha hb hdiv
  have h3 : exprToBool c be st (.eq a b) = some (allSame c (mode be c.l (.eq a b)) st a b) :=
    exprToBoolM_eq c _ st a b (C08.arith_of_adm c st a ha) (C08.arith_of_adm c st b hb)
  rw [h3] at h2 ⊢
  congr 1
  rw [Bool.eq_iff_iff, h1, ← h2]
  simp

/-- **`!=` with the real kernels** -/
theorem neq_real_kernels_correct (c : Ctx) (hrows : c.TableRows) (be : Backend) (st : Store) (a b : Expr)
    (hst : ∀ h k, rd st h k < 2 ^ c.w) (ha : Adm c st a) (hb : Adm c st b)
    (hacc : accepts be c.l (mode be c.l (.eq a b)) (.eq a b) = true)
    (hdiv : eltCount c.l (mode be c.l (.eq a b)) ∣ c.deg) :
    (cmpReal be c st false a b = true ↔
      ∃ cm, cm < c.nmod ∧ ∃ i, i < c.deg ∧ evalExact c st a cm i ≠ evalExact c st b cm i) ∧
    exprToBool c be st (.neq a b) = some (cmpReal be c st false a b) := by
  have h0 := compare_real_kernels c hrows be st false a b hst ha hb hacc hdiv
  have h1 : cmpReal be c st false a b = true ↔
      ∃ cm, cm < c.nmod ∧ ∃ i, i < c.deg ∧ evalExact c st a cm i ≠ evalExact c st b cm i := by
    rw [h0]
    by_cases h : pointwise c st a = pointwise c st b
    · simp only [h, if_true, Bool.false_eq_true, false_iff]
      rintro ⟨cm, hcm, i, hi, hne⟩
      exact hne ((pointwise_eq_iff c st a b).mp h cm hcm i hi)
    · simp only [h, if_false, Bool.not_false, true_iff]
      apply Classical.byContradiction
      intro hn
      apply h
      rw [pointwise_eq_iff]
      intro cm hcm i hi
      apply Classical.byContradiction
      intro hne
      exact hn ⟨cm, hcm, i, hi, hne⟩
  refine ⟨h1, ?_⟩
  have h2 := C08.neq_iff c hrows be st a b ha hb hdiv
  have h3 : exprToBool c be st (.neq a b) = some (!allSame c (mode be c.l (.neq a b)) st a b) :=
    exprToBoolM_neq c _ st a b (C08.arith_of_adm c st a ha) (C08.arith_of_adm c st b hb)
  rw [h3] at h2 ⊢
  congr 1
  rw [Bool.eq_iff_iff, h1, ← h2]
  simp

/-- **arithmetic root** (`bool(e)`: some stored element non-zero): the registers the conversion scans, loaded with the
real kernels, are the exact values, hence the answer of C08's model is "some coefficient of the value is non-zero" -/
theorem bool_real_kernels_correct (c : Ctx) (hrows : c.TableRows) (be : Backend) (st : Store) (e : Expr)
    (he : Adm c st e) (hacc : accepts be c.l (mode be c.l e) e = true) (hdiv : eltCount c.l (mode be c.l e) ∣ c.deg) :
    ((wordsReal be c st e (eltCount c.l (mode be c.l e))).any (· != 0) = true ↔
      ∃ cm, cm < c.nmod ∧ ∃ i, i < c.deg ∧ evalExact c st e cm i ≠ 0) ∧
    exprToBool c be st e = some ((wordsReal be c st e (eltCount c.l (mode be c.l e))).any (· != 0)) := by
  have hK := fun e' => real_kernels_lanewise c hrows (nodeTag be c.l e')
  have we : wordsReal be c st e (eltCount c.l (mode be c.l e)) = pointwise c st e :=
    wordsT_eq_pointwise hrows hK st e hdiv he (widthOK_of_accepts be c.l _ e hacc)
  have h1 : (pointwise c st e).any (· != 0) = true ↔
      ∃ cm, cm < c.nmod ∧ ∃ i, i < c.deg ∧ evalExact c st e cm i ≠ 0 := by
    unfold pointwise
    simp only [List.any_map, List.any_eq_true, List.mem_range, Function.comp, bne_iff_ne, ne_eq]
    constructor
    · rintro ⟨k, hk, hne⟩
      have hk' : k < c.nmod * c.deg := hk
      have hdeg : 0 < c.deg := by
        rcases Nat.eq_zero_or_pos c.deg with h0 | h0
        · rw [h0] at hk'; omega
        · exact h0
      exact ⟨k / c.deg, by rw [Nat.div_lt_iff_lt_mul hdeg]; exact hk', k % c.deg, Nat.mod_lt _ hdeg, hne⟩
    · rintro ⟨cm, hcm, i, hi, hne⟩
      refine ⟨cm * c.deg + i, ?_, by rw [idx_div hi, idx_mod hi]; exact hne⟩
      unfold Ctx.n
      calc cm * c.deg + i < cm * c.deg + c.deg := by omega
        _ = (cm + 1) * c.deg := by rw [Nat.add_mul, Nat.one_mul]
        _ ≤ c.nmod * c.deg := Nat.mul_le_mul_right _ hcm
  rw [we]
  refine ⟨h1, ?_⟩
  have h2 := C08.bool_iff_nonzero c hrows be st e he hdiv
  have h3 : exprToBool c be st e = some (anyNonzero c (mode be c.l e) st e) :=
    exprToBoolM_arith c _ st e (C08.arith_of_adm c st e he)
  rw [h3] at h2 ⊢
  congr 1
  rw [Bool.eq_iff_iff, h1, ← h2]
  simp

/-! ## 4. non-vacuity: 16-bit table, degree 8, the aliased `a = a + shoup(a*b, b')` of `C07.exStore` -/

open C07 in
/-- the tree `a + shoup(a*b, b')` -/
def exTree : Expr := .add (.leaf 0) (.shoup3 (.leaf 0) (.leaf 1) (.leaf 2))

example : C07.exCtx.TableRows := fun _ h => h
/-- SSE build: the tree resolves to SSE mode (8 lanes), compiles, is admissible on the store -/
example : mode .sse .w16 exTree = .sse ∧ compiles .sse .w16 8 exTree = true ∧
    accepts .sse .w16 (mode .sse .w16 exTree) exTree = true ∧ admB C07.exCtx C07.exStore exTree = true := by decide
/-- both nodes carry the SSE tag: `addmod<uint16_t,sse>` and `mulmod_shoup<uint16_t,sse>` -/
example : nodeTag .sse .w16 exTree = .sse ∧ nodeTag .sse .w16 (.shoup3 (.leaf 0) (.leaf 1) (.leaf 2)) = .sse := by decide
/-- the real SSE kernels (`sseAddmod16`, `sseMulmodShoup16` on two registers of 8 lanes), destination = leaf `a`:
the stored row is `a + a·b mod p`, coefficient by coefficient -/
example : (assignReal C07.exCtx .sse 0 exTree C07.exStore).getD 0 [] =
    [0, 15360, 20, 33, 48, 65, 84, 105, 0, 0, 101, 402, 903, 1604, 2505, 3606] := by decide
example : pointwise C07.exCtx C07.exStore exTree =
    [0, 15360, 20, 33, 48, 65, 84, 105, 0, 0, 101, 402, 903, 1604, 2505, 3606] := by decide
example : assignReal C07.exCtx .sse 0 exTree C07.exStore = C07.exStore.set 0 (pointwise C07.exCtx C07.exStore exTree) := by
  decide
/-- AVX2 build: the fused product has the AVX2 tag (`mulmod_shoup<uint16_t,avx2>`, the kernel that computes in a
`__m256i` on SSE-width registers), its `simd_mode` is SSE, so the sum gets the SSE tag and the loop runs 8 lanes wide -/
example : nodeTag .avx2 .w16 (.shoup3 (.leaf 0) (.leaf 1) (.leaf 2)) = .avx2 ∧ nodeTag .avx2 .w16 exTree = .sse ∧
    mode .avx2 .w16 exTree = .sse ∧ compiles .avx2 .w16 8 exTree = true := by decide
example : assignReal C07.exCtx .avx2 0 exTree C07.exStore = C07.exStore.set 0 (pointwise C07.exCtx C07.exStore exTree) := by
  decide
/-- `a = a + b` in the AVX2 build at degree 16: one `avx2Addmod16` register of 16 lanes per modulus -/
def exCtx16 : Ctx := { l := .w16, deg := 16, rows := Nfl.Gen.table16.rows }
def exStore16 : Store := [(List.range 32).map (fun i => (i * 997 + 15000) % 13313), (List.range 32).map (13312 - · * 3)]
example : mode .avx2 .w16 (.add (.leaf 0) (.leaf 1)) = .avx2 ∧ eltCount .w16 .avx2 = 16 ∧
    admB exCtx16 exStore16 (.add (.leaf 0) (.leaf 1)) = true := by decide
example : assignReal exCtx16 .avx2 0 (.add (.leaf 0) (.leaf 1)) exStore16 =
    exStore16.set 0 (pointwise exCtx16 exStore16 (.add (.leaf 0) (.leaf 1))) := by decide
/-- the hypotheses of `kernel_irrelevant_real` are met by the SSE tree (one tag for all nodes, width 8) -/
example : WidthOK .w16 (fun _ => .sse) 8 exTree := by
  simp [WidthOK, exTree, eltCount, fnMode, Limb.w]
/-- comparisons with the real vector compare: `a == b` false, `a != b` true, `a == a` true (SSE build, 16-bit limbs:
four elements per 64-bit lane) -/
example : cmpReal .sse C07.exCtx C07.exStore true (.leaf 0) (.leaf 1) = false ∧
    cmpReal .sse C07.exCtx C07.exStore false (.leaf 0) (.leaf 1) = true ∧
    cmpReal .sse C07.exCtx C07.exStore true (.leaf 0) (.leaf 0) = true ∧
    cmpReal .sse C07.exCtx C07.exStore true exTree (.add (.leaf 0) (.shoup3 (.leaf 0) (.leaf 1) (.leaf 2))) = true := by
  decide
/-- the store of the examples is a store of 16-bit words -/
example : ∀ h k, rd C07.exStore h k < 2 ^ C07.exCtx.w := rd_lt_of_all (by decide) (by decide)

end Nfl.Compose2
